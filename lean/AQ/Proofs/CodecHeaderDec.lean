/-
  Packet headers, decoding direction: the shape of every byte string that
  `pull_quic_header` accepts, from which follow (a) the result depends only on
  the consumed bytes (and on how many bytes follow), (b) the canonical
  re-encoding decodes to the same header.
-/
import AQ.Proofs.CodecHeader
import AQ.Proofs.FrameDecode

namespace AQ.Codec
open AQ AQ.Frame

theorem pullUint8_inv (s r : Bytes) (v : Nat) (h : pullUint8 s = .ok (v, r)) : s = byte v :: r ∧ v < 256 := by
  unfold pullUint8 at h
  split at h
  · rename_i b0 r'
    cases h
    exact ⟨by rw [byte_toNat], b0.toNat_lt⟩
  · cases h

theorem pullUint32_be4 (s r : Bytes) (v : Nat) (h : pullUint32 s = .ok (v, r)) :
    s = be4 v ++ r ∧ v < 4294967296 := by
  unfold pullUint32 at h
  split at h
  · rename_i b0 b1 b2 b3 r'
    cases h
    have h0 := b0.toNat_lt; have h1 := b1.toNat_lt; have h2 := b2.toNat_lt; have h3 := b3.toNat_lt
    refine ⟨?_, by omega⟩
    simp only [be4, List.cons_append, List.nil_append]
    rw [← byte_toNat b0, ← byte_toNat b1, ← byte_toNat b2, ← byte_toNat b3]
    simp only [toNat_byte]
    congr 1
    · exact byte_congr (by omega)
    · congr 1
      · exact byte_congr (by omega)
      · congr 1
        · exact byte_congr (by omega)
        · congr 1; exact byte_congr (by omega)
  · cases h

/-- a varint decode depends only on the bytes it consumed -/
theorem pullUintVar_local (s r : Bytes) (v : Nat) (h : pullUintVar s = .ok (v, r)) :
    ∃ pre, s = pre ++ r ∧ v < 4611686018427387904 ∧ ∀ y, pullUintVar (pre ++ y) = .ok (v, y) := by
  have hv := (pullUintVar_inv s r v h).1
  unfold pullUintVar at h
  split at h
  · cases h
  · rename_i b0 rest
    split at h
    · rename_i h0
      cases h
      exact ⟨[b0], rfl, hv, fun y => by simp [pullUintVar, h0]⟩
    · rename_i h0
      split at h
      · rename_i b1 r'
        cases h
        exact ⟨[b0, b1], rfl, hv, fun y => by simp [pullUintVar, h0]⟩
      · cases h
    · rename_i h0
      split at h
      · rename_i b1 b2 b3 r'
        cases h
        exact ⟨[b0, b1, b2, b3], rfl, hv, fun y => by simp [pullUintVar, h0]⟩
      · cases h
    · rename_i hn0 hn1 hn2
      split at h
      · rename_i b1 b2 b3 b4 b5 b6 b7 r'
        cases h
        refine ⟨[b0, b1, b2, b3, b4, b5, b6, b7], rfl, hv, fun y => ?_⟩
        simp only [pullUintVar, List.cons_append, List.nil_append]
      · cases h

theorem pullVersions_inv : ∀ (s : Bytes) (vs : List Nat), pullVersions s = .ok vs →
    s = versionsBytes vs ∧ ∀ v ∈ vs, v < 4294967296
  | [], vs, h => by simp only [pullVersions] at h; cases h; exact ⟨rfl, by simp⟩
  | [_], vs, h => by simp [pullVersions] at h
  | [_, _], vs, h => by simp [pullVersions] at h
  | [_, _, _], vs, h => by simp [pullVersions] at h
  | b0 :: b1 :: b2 :: b3 :: r, vs, h => by
    simp only [pullVersions] at h
    split at h
    · rename_i vs' hvs
      cases h
      obtain ⟨h1, h2⟩ := pullVersions_inv r vs' hvs
      have h32 := pullUint32_be4 (b0 :: b1 :: b2 :: b3 :: r) r _ rfl
      refine ⟨?_, ?_⟩
      · simp only [versionsBytes]
        rw [← h1]
        exact h32.1
      · intro v hv
        simp only [List.mem_cons] at hv
        rcases hv with rfl | hv
        · exact h32.2
        · exact h2 v hv
    · cases h

/-! ### forward lemmas for an arbitrary first byte and arbitrary (possibly non-minimal) varints -/

/-- the first byte selects packet type `pt` for `version` -/
def FbType (fb version : Nat) (pt : PType) : Prop :=
  fb < 256 ∧ (fb &&& 128 != 0) = true ∧ (fb &&& 64 != 0) = true ∧ longTypeDecode version ((fb &&& 48) / 16) = pt

/-- `p` is an encoding of `v` as far as `pull_uint_var` is concerned -/
def IsVarint (p : Bytes) (v : Nat) : Prop := ∀ y, pullUintVar (p ++ y) = .ok (v, y)

theorem initial_fwd (hcl : Option Int) (fb version : Nat) (dcid scid token p1 p2 x : Bytes) (len : Nat)
    (hfb : FbType fb version .initial) (hv : version < 4294967296) (hv0 : version ≠ 0)
    (hd : dcid.length ≤ 20) (hs : scid.length ≤ 20) (h1 : IsVarint p1 token.length) (h2 : IsVarint p2 len)
    (htok : token.length < 9223372036854775808) (hx : len ≤ x.length) :
    pullQuicHeader hcl (longPrefix fb version dcid scid (p1 ++ (token ++ (p2 ++ x)))) =
      .ok ({ version := some version, ptype := .initial,
             packetLength := 7 + dcid.length + scid.length + p1.length + token.length + p2.length + len,
             dcid := dcid, scid := scid, token := token, tag := [], versions := [] }, x) := by
  obtain ⟨f1, f2, f3, f4⟩ := hfb
  unfold pullQuicHeader
  rw [long_header_step _ _ _ _ _ _ _ f1 f2 hv hv0 hd hs]
  have hrest : pullLongRest version fb (p1 ++ (token ++ (p2 ++ x))) = .ok ((.initial, token, [], len), x) := by
    unfold pullLongRest
    simp only [Rd.bind_apply, f3, Rd.guard_true, f4, h1 _, pullBytes_append _ _ htok, h2 _, Rd.pure_apply]
  rw [hrest]
  simp only [hx, if_true, longPrefix_length, List.length_append]
  congr 3
  omega

theorem plain_fwd (hcl : Option Int) (fb version : Nat) (pt : PType) (dcid scid p2 x : Bytes) (len : Nat)
    (hpt : pt = .zeroRtt ∨ pt = .handshake)
    (hfb : FbType fb version pt) (hv : version < 4294967296) (hv0 : version ≠ 0)
    (hd : dcid.length ≤ 20) (hs : scid.length ≤ 20) (h2 : IsVarint p2 len) (hx : len ≤ x.length) :
    pullQuicHeader hcl (longPrefix fb version dcid scid (p2 ++ x)) =
      .ok ({ version := some version, ptype := pt,
             packetLength := 7 + dcid.length + scid.length + p2.length + len,
             dcid := dcid, scid := scid, token := [], tag := [], versions := [] }, x) := by
  obtain ⟨f1, f2, f3, f4⟩ := hfb
  unfold pullQuicHeader
  rw [long_header_step _ _ _ _ _ _ _ f1 f2 hv hv0 hd hs]
  have hrest : pullLongRest version fb (p2 ++ x) = .ok ((pt, [], [], len), x) := by
    unfold pullLongRest
    simp only [Rd.bind_apply, f3, Rd.guard_true, f4]
    rcases hpt with rfl | rfl <;> simp only [Rd.bind_apply, h2 _, Rd.pure_apply]
  rw [hrest]
  simp only [hx, if_true, longPrefix_length, List.length_append]
  congr 3
  omega

theorem retry_fwd (hcl : Option Int) (fb version : Nat) (dcid scid token tag : Bytes)
    (hfb : FbType fb version .retry) (hv : version < 4294967296) (hv0 : version ≠ 0)
    (hd : dcid.length ≤ 20) (hs : scid.length ≤ 20) (htag : tag.length = 16)
    (htok : token.length < 9223372036854775808) :
    pullQuicHeader hcl (longPrefix fb version dcid scid (token ++ tag)) =
      .ok ({ version := some version, ptype := .retry,
             packetLength := 7 + dcid.length + scid.length + token.length + 16,
             dcid := dcid, scid := scid, token := token, tag := tag, versions := [] }, []) := by
  obtain ⟨f1, f2, f3, f4⟩ := hfb
  unfold pullQuicHeader
  rw [long_header_step _ _ _ _ _ _ _ f1 f2 hv hv0 hd hs]
  have hrest : pullLongRest version fb (token ++ tag) = .ok ((.retry, token, tag, 0), []) := by
    unfold pullLongRest
    simp only [Rd.bind_apply, f3, Rd.guard_true, f4, Rd.remaining_apply,
      pullBytes_retry_token token tag htag htok, pullBytes_all16 tag htag, Rd.pure_apply]
  rw [hrest]
  simp only [List.length_nil, Nat.zero_le, if_true, Nat.sub_zero, Nat.add_zero, longPrefix_length,
    List.length_append, htag]
  congr 3

/-! ### the shape of every accepted input -/

inductive Shape (hcl : Option Int) (s r : Bytes) (h : Header) : Prop
  | vn (fb : Nat) (dcid scid : Bytes) (vs : List Nat) :
    fb < 256 → (fb &&& 128 != 0) = true → dcid.length ≤ 20 → scid.length ≤ 20 → (∀ v ∈ vs, v < 4294967296) →
    s = longPrefix fb 0 dcid scid (versionsBytes vs) → r = [] →
    h = { version := some 0, ptype := .versionNegotiation, packetLength := s.length, dcid := dcid, scid := scid,
          token := [], tag := [], versions := vs } → Shape hcl s r h
  | retry (fb v : Nat) (dcid scid token tag : Bytes) :
    FbType fb v .retry → v < 4294967296 → v ≠ 0 → dcid.length ≤ 20 → scid.length ≤ 20 → tag.length = 16 →
    s = longPrefix fb v dcid scid (token ++ tag) → r = [] →
    h = { version := some v, ptype := .retry, packetLength := s.length, dcid := dcid, scid := scid,
          token := token, tag := tag, versions := [] } → Shape hcl s r h
  | initial (fb v : Nat) (dcid scid token p1 p2 : Bytes) (len : Nat) :
    FbType fb v .initial → v < 4294967296 → v ≠ 0 → dcid.length ≤ 20 → scid.length ≤ 20 →
    IsVarint p1 token.length → IsVarint p2 len → len ≤ r.length →
    s = longPrefix fb v dcid scid (p1 ++ (token ++ (p2 ++ r))) →
    h = { version := some v, ptype := .initial, packetLength := s.length - r.length + len, dcid := dcid,
          scid := scid, token := token, tag := [], versions := [] } → Shape hcl s r h
  | plain (fb v : Nat) (pt : PType) (dcid scid p2 : Bytes) (len : Nat) :
    pt = .zeroRtt ∨ pt = .handshake → FbType fb v pt → v < 4294967296 → v ≠ 0 → dcid.length ≤ 20 →
    scid.length ≤ 20 → IsVarint p2 len → len ≤ r.length →
    s = longPrefix fb v dcid scid (p2 ++ r) →
    h = { version := some v, ptype := pt, packetLength := s.length - r.length + len, dcid := dcid,
          scid := scid, token := [], tag := [], versions := [] } → Shape hcl s r h
  | short (fb : Nat) (dcid : Bytes) :
    fb < 256 → (fb &&& 128 != 0) = false → (fb &&& 64 != 0) = true → hcl = some (dcid.length : Int) →
    dcid.length < 9223372036854775808 → s = byte fb :: (dcid ++ r) →
    h = { version := none, ptype := .oneRtt, packetLength := s.length, dcid := dcid, scid := [],
          token := [], tag := [], versions := [] } → Shape hcl s r h

theorem longTypeDecode_cases (v n : Nat) :
    longTypeDecode v n = .initial ∨ longTypeDecode v n = .zeroRtt ∨ longTypeDecode v n = .handshake ∨
      longTypeDecode v n = .retry := by
  unfold longTypeDecode
  split <;> split <;> simp

/-- inversion of the part of `pull_quic_header` after the connection ids -/
theorem pullLongRest_inv (v fb : Nat) (s s' : Bytes) (pt : PType) (token tag : Bytes) (rl : Nat)
    (h : pullLongRest v fb s = .ok ((pt, token, tag, rl), s')) :
    (fb &&& 64 != 0) = true ∧ longTypeDecode v ((fb &&& 48) / 16) = pt ∧
    ((pt = .initial ∧ tag = [] ∧ ∃ p1 p2, IsVarint p1 token.length ∧ IsVarint p2 rl ∧ s = p1 ++ (token ++ (p2 ++ s'))) ∨
     ((pt = .zeroRtt ∨ pt = .handshake) ∧ token = [] ∧ tag = [] ∧ ∃ p2, IsVarint p2 rl ∧ s = p2 ++ s') ∨
     (pt = .retry ∧ rl = 0 ∧ s' = [] ∧ tag.length = 16 ∧ s = token ++ tag)) := by
  unfold pullLongRest at h
  obtain ⟨hfix, g0⟩ := guard_inv h
  clear h
  refine ⟨hfix, ?_⟩
  have hc := longTypeDecode_cases v ((fb &&& 48) / 16)
  rcases hc with hc | hc | hc | hc <;> simp only [hc] at g0
  · obtain ⟨tl, s1, htl, g1⟩ := bind_inv g0
    obtain ⟨tok, s2, htok, g2⟩ := bind_inv g1
    obtain ⟨rl', s3, hrl, g3⟩ := bind_inv g2
    cases pure_inv g3
    obtain ⟨p2, e2, _, hp2⟩ := pullUintVar_local _ _ _ hrl
    obtain ⟨_, e1, hlen⟩ := pullBytes_inv _ _ _ _ htok
    obtain ⟨p1, e0, _, hp1⟩ := pullUintVar_local _ _ _ htl
    have : token.length = tl := by omega
    subst this
    exact ⟨hc, Or.inl ⟨rfl, rfl, p1, p2, hp1, hp2, by rw [e0, e1, e2]⟩⟩
  · obtain ⟨rl', s3, hrl, g3⟩ := bind_inv g0
    cases pure_inv g3
    obtain ⟨p2, e2, _, hp2⟩ := pullUintVar_local _ _ _ hrl
    exact ⟨hc, Or.inr (Or.inl ⟨Or.inl rfl, rfl, rfl, p2, hp2, e2⟩)⟩
  · obtain ⟨rl', s3, hrl, g3⟩ := bind_inv g0
    cases pure_inv g3
    obtain ⟨p2, e2, _, hp2⟩ := pullUintVar_local _ _ _ hrl
    exact ⟨hc, Or.inr (Or.inl ⟨Or.inr rfl, rfl, rfl, p2, hp2, e2⟩)⟩
  · obtain ⟨rem, s1, hrem, g1⟩ := bind_inv g0
    cases hrem
    obtain ⟨tok, s2, htok, g2⟩ := bind_inv g1
    obtain ⟨tg, s3, htg, g3⟩ := bind_inv g2
    cases pure_inv g3
    obtain ⟨_, e1, hlen⟩ := pullBytes_inv _ _ _ _ htok
    obtain ⟨_, e2, hlen2⟩ := pullBytes_inv _ _ _ _ htg
    have hl := congrArg List.length e1
    have hl2 := congrArg List.length e2
    simp only [List.length_append] at hl hl2
    have h16 : tag.length = 16 := by omega
    have h0 : s'.length = 0 := by omega
    have : s' = [] := List.length_eq_zero_iff.mp h0
    subst this
    exact ⟨hc, Or.inr (Or.inr ⟨rfl, rfl, rfl, h16, by rw [e1, e2]; simp⟩)⟩

theorem pullBytes_lt (n : Int) (s d r : Bytes) (h : pullBytes n s = .ok (d, r)) : n < 9223372036854775808 := by
  unfold pullBytes at h
  split at h
  · cases h
  · omega

/-- **every accepted input has one of five shapes** -/
theorem header_shape (hcl : Option Int) (s r : Bytes) (h : Header) (hdec : pullQuicHeader hcl s = .ok (h, r)) :
    Shape hcl s r h := by
  unfold pullQuicHeader pullQuicHeaderFrom at hdec
  obtain ⟨fb, s1, hfb, g1⟩ := bind_inv hdec
  obtain ⟨e0, hfb256⟩ := pullUint8_inv _ _ _ hfb
  by_cases hlong : (fb &&& 128 != 0) = true
  · simp only [hlong, if_true] at g1
    obtain ⟨v, s2, hv, g2⟩ := bind_inv g1
    obtain ⟨e1, hv32⟩ := pullUint32_be4 _ _ _ hv
    obtain ⟨dl, s3, hdl, g3⟩ := bind_inv g2
    obtain ⟨e2, _⟩ := pullUint8_inv _ _ _ hdl
    obtain ⟨hg1, g4⟩ := guard_inv g3
    obtain ⟨dcid, s4, hdcid, g5⟩ := bind_inv g4
    obtain ⟨_, e3, hdlen⟩ := pullBytes_inv _ _ _ _ hdcid
    obtain ⟨sl, s5, hsl, g6⟩ := bind_inv g5
    obtain ⟨e4, _⟩ := pullUint8_inv _ _ _ hsl
    obtain ⟨hg2, g7⟩ := guard_inv g6
    obtain ⟨scid, s6, hscid, g8⟩ := bind_inv g7
    obtain ⟨_, e5, hslen⟩ := pullBytes_inv _ _ _ _ hscid
    have hd : dl = dcid.length := by omega
    have hs' : sl = scid.length := by omega
    subst hd hs'
    have hd20 : dcid.length ≤ 20 := by simpa using hg1
    have hs20 : scid.length ≤ 20 := by simpa using hg2
    have es : s = longPrefix fb v dcid scid s6 := by
      rw [e0, e1, e2, e3, e4, e5]; rfl
    by_cases hv0 : v = 0
    · subst hv0
      simp only [if_true] at g8
      obtain ⟨vs, s7, hvs, g9⟩ := bind_inv g8
      unfold pullAllVersions at hvs
      split at hvs
      · rename_i vs' hpv
        cases hvs
        obtain ⟨rem, s8, hrem, g10⟩ := bind_inv g9
        cases hrem
        cases pure_inv g10
        obtain ⟨e6, hlt⟩ := pullVersions_inv _ _ hpv
        exact Shape.vn fb dcid scid vs hfb256 hlong hd20 hs20 hlt (by rw [es, e6]) rfl (by simp)
      · cases hvs
    · simp only [hv0, if_false] at g8
      obtain ⟨⟨pt, token, tag, rl⟩, s7, hrest, g9⟩ := bind_inv g8
      simp only [] at g9
      obtain ⟨rem, s8, hrem, g10⟩ := bind_inv g9
      cases hrem
      obtain ⟨hg3, g11⟩ := guard_inv g10
      cases pure_inv g11
      have hrl : rl ≤ r.length := by simpa using hg3
      obtain ⟨hfix, hpt, hcase⟩ := pullLongRest_inv v fb s6 r pt token tag rl hrest
      have hft : FbType fb v pt := ⟨hfb256, hlong, hfix, hpt⟩
      rcases hcase with ⟨rfl, rfl, p1, p2, hp1, hp2, e6⟩ | ⟨hpt2, rfl, rfl, p2, hp2, e6⟩ | ⟨rfl, rfl, rfl, h16, e6⟩
      · exact Shape.initial fb v dcid scid token p1 p2 rl hft hv32 hv0 hd20 hs20 hp1 hp2 hrl (by rw [es, e6]) rfl
      · exact Shape.plain fb v pt dcid scid p2 rl hpt2 hft hv32 hv0 hd20 hs20 hp2 hrl (by rw [es, e6]) rfl
      · exact Shape.retry fb v dcid scid token tag hft hv32 hv0 hd20 hs20 h16 (by rw [es, e6]) rfl (by simp)
  · have hshort : (fb &&& 128 != 0) = false := by simpa using hlong
    simp only [hshort, Bool.false_eq_true, if_false] at g1
    obtain ⟨hfix, g2⟩ := guard_inv g1
    cases hcl with
    | none =>
      obtain ⟨d, s2, hd, _⟩ := bind_inv g2
      cases hd
    | some n =>
      obtain ⟨dcid, s2, hd, g3⟩ := bind_inv g2
      obtain ⟨_, e1, hlen⟩ := pullBytes_inv _ _ _ _ hd
      cases pure_inv g3
      have h63 := pullBytes_lt _ _ _ _ hd
      exact Shape.short fb dcid hfb256 hshort hfix (by rw [← hlen]) (by omega) (by rw [e0, e1]) rfl

/-! ### consequences -/

theorem longPrefix_append (fb v : Nat) (d sc a b : Bytes) :
    longPrefix fb v d sc (a ++ b) = longPrefix fb v d sc a ++ b := by
  simp [longPrefix]

theorem isVarint_encV (n : Nat) (h : n < 4611686018427387904) : IsVarint (encV n) n :=
  fun y => varint_roundtrip n y h

theorem isVarint_lt (p : Bytes) (n : Nat) (h : IsVarint p n) : n < 4611686018427387904 :=
  (pullUintVar_inv _ _ _ (h [])).1

theorem fbType_canon (v : Nat) (pt : PType) (hl : pt.isLong = true) : FbType (CodecSpec.longFirstByte v pt 0) v pt := by
  have ht := typeBits_lt v pt
  obtain ⟨p1, p2, p3⟩ := fb_props _ ht 0 (by omega)
  refine ⟨longFirstByte_lt v pt 0 (by omega), p1, p2, ?_⟩
  unfold CodecSpec.longFirstByte
  rw [p3]
  exact longTypeDecode_bits v pt hl

/-- **bounded**: the header returned depends only on the bytes consumed (`pre`)
    and, through the length checks, on how many bytes follow -/
theorem header_bounded (hcl : Option Int) (s r : Bytes) (h : Header) (hdec : pullQuicHeader hcl s = .ok (h, r)) :
    ∃ pre, s = pre ++ r ∧
      ((h.ptype = .initial ∨ h.ptype = .zeroRtt ∨ h.ptype = .handshake) →
        ∀ r', h.packetLength - pre.length ≤ r'.length → pullQuicHeader hcl (pre ++ r') = .ok (h, r')) ∧
      (h.ptype = .oneRtt →
        ∀ r', pullQuicHeader hcl (pre ++ r') = .ok ({ h with packetLength := pre.length + r'.length }, r')) ∧
      ((h.ptype = .retry ∨ h.ptype = .versionNegotiation) → r = []) := by
  have hsh := header_shape hcl s r h hdec
  cases hsh with
  | vn fb dcid scid vs h1 h2 h3 h4 h5 es er eh =>
    subst er eh
    exact ⟨s, by simp, by simp, by simp, by simp⟩
  | retry fb v dcid scid token tag h1 h2 h3 h4 h5 h6 es er eh =>
    subst er eh
    exact ⟨s, by simp, by simp, by simp, by simp⟩
  | initial fb v dcid scid token p1 p2 len hft hv hv0 hd hs hp1 hp2 hlen es eh =>
    refine ⟨longPrefix fb v dcid scid (p1 ++ (token ++ p2)), ?_, ?_, ?_, ?_⟩
    · rw [es, ← longPrefix_append]; simp
    · intro _ r' hr'
      have htl := isVarint_lt _ _ hp1
      have e : longPrefix fb v dcid scid (p1 ++ (token ++ p2)) ++ r' =
          longPrefix fb v dcid scid (p1 ++ (token ++ (p2 ++ r'))) := by rw [← longPrefix_append]; simp
      have hpl : h.packetLength = 7 + dcid.length + scid.length + p1.length + token.length + p2.length + len := by
        rw [eh, es]; simp only [longPrefix_length, List.length_append]; omega
      rw [e, initial_fwd hcl fb v dcid scid token p1 p2 r' len hft hv hv0 hd hs hp1 hp2 (by omega)
        (by rw [hpl] at hr'; simp only [longPrefix_length, List.length_append] at hr'; omega)]
      rw [eh, es]
      simp only [longPrefix_length, List.length_append]
      congr 3
      omega
    · intro hpt; rw [eh] at hpt; cases hpt
    · intro hpt; rw [eh] at hpt; rcases hpt with hpt | hpt <;> cases hpt
  | plain fb v pt dcid scid p2 len hpt hft hv hv0 hd hs hp2 hlen es eh =>
    refine ⟨longPrefix fb v dcid scid p2, ?_, ?_, ?_, ?_⟩
    · rw [es, ← longPrefix_append]
    · intro _ r' hr'
      have hpl : h.packetLength = 7 + dcid.length + scid.length + p2.length + len := by
        rw [eh, es]; simp only [longPrefix_length, List.length_append]; omega
      rw [← longPrefix_append, plain_fwd hcl fb v pt dcid scid p2 r' len hpt hft hv hv0 hd hs hp2
        (by rw [hpl] at hr'; simp only [longPrefix_length] at hr'; omega)]
      rw [eh, es]
      simp only [longPrefix_length, List.length_append]
      congr 3
      omega
    · intro hp; rw [eh] at hp; rcases hpt with rfl | rfl <;> cases hp
    · intro hp; rw [eh] at hp; rcases hpt with rfl | rfl <;> rcases hp with hp | hp <;> cases hp
  | short fb dcid h1 h2 h3 ehcl hd63 es eh =>
    refine ⟨byte fb :: dcid, by rw [es]; simp, ?_, ?_, ?_⟩
    · intro hp; rw [eh] at hp; rcases hp with hp | hp | hp <;> cases hp
    · intro _ r'
      rw [ehcl]
      have := short_header fb dcid r' h1 h2 h3 hd63
      rw [List.cons_append, this, eh]
      simp only [List.length_cons]
      congr 3
      omega
    · intro hp; rw [eh] at hp; rcases hp with hp | hp <;> cases hp

/-- canonical re-encoding of a decoded header with the RFC-written encoders
    (`len` = declared payload length of a long header; unused first-byte bits 0,
    shortest varints, no packet-number bytes) -/
def headerCanon (h : Header) (len : Nat) : Bytes :=
  match h.ptype with
  | .versionNegotiation => CodecSpec.encVersionNegotiation 0 h.dcid h.scid h.versions
  | .retry => CodecSpec.encRetry (h.version.getD 0) h.dcid h.scid h.token h.tag 0
  | .oneRtt => CodecSpec.encShortHeader 0 0 h.dcid 0 0
  | pt =>
    CodecSpec.encLongHeader (h.version.getD 0) pt h.dcid h.scid h.token (CodecSpec.varintLenCode len) len 0 0

theorem specLongCanon (v : Nat) (pt : PType) (dcid scid token : Bytes) (len : Nat)
    (htl : token.length < 4611686018427387904) (hlen : len < 4611686018427387904) :
    CodecSpec.encLongHeader v pt dcid scid token (CodecSpec.varintLenCode len) len 0 0 =
      longPrefix (CodecSpec.longFirstByte v pt 0) v dcid scid
        ((if pt = .initial then encV token.length ++ token else []) ++ encV len) := by
  have e : CodecSpec.encVarintW (CodecSpec.varintLenCode len) len = encV len := by
    rw [← specVarint_eq len hlen]; rfl
  unfold CodecSpec.encLongHeader
  rw [e, beBytes4, specVarint_eq _ htl]
  by_cases h : pt = .initial <;> simp [longPrefix, byte, h, CodecSpec.beBytes]

theorem headerCanon_plain (v : Nat) (pt : PType) (dcid scid : Bytes) (pl len : Nat)
    (hpt : pt = .zeroRtt ∨ pt = .handshake) (hl : len < 4611686018427387904) :
    headerCanon ⟨some v, pt, pl, dcid, scid, [], [], []⟩ len =
      longPrefix (CodecSpec.longFirstByte v pt 0) v dcid scid (encV len) := by
  rcases hpt with rfl | rfl <;> simp [headerCanon, specLongCanon _ _ _ _ [] len (by simp) hl]

theorem headerCanon_short (dcid : Bytes) (pl n : Nat) :
    headerCanon ⟨none, .oneRtt, pl, dcid, [], [], [], []⟩ n = byte 64 :: dcid := by
  simp [headerCanon, CodecSpec.encShortHeader, CodecSpec.shortFirstByte, CodecSpec.beBytes, byte]

/-- **decode → re-encode**: the canonical re-encoding of whatever `pull_quic_header`
    accepted decodes to the same header (`packet_length` adjusted to the new
    header size), whatever follows it -/
theorem header_reencode (hcl : Option Int) (s r : Bytes) (h : Header) (hdec : pullQuicHeader hcl s = .ok (h, r)) :
    pullQuicHeader hcl (headerCanon h (h.packetLength - (s.length - r.length)) ++ r) =
      .ok ({ h with packetLength := (headerCanon h (h.packetLength - (s.length - r.length))).length +
                                      (h.packetLength - (s.length - r.length)) }, r) := by
  have hsh := header_shape hcl s r h hdec
  cases hsh with
  | vn fb dcid scid vs h1 h2 h3 h4 h5 es er eh =>
    subst er eh
    simp only [headerCanon, specVN_eq, Nat.add_zero, List.append_nil, List.length_nil, Nat.sub_zero, Nat.sub_self]
    unfold pullQuicHeader
    rw [vn_header _ hcl 128 dcid scid vs (by omega) (by decide) h3 h4 h5]
  | retry fb v dcid scid token tag hft hv hv0 hd hs htag es er eh =>
    subst er eh
    have htl : token.length < 9223372036854775808 := by
      have := congrArg List.length es
      simp only [longPrefix_length, List.length_append] at this
      have hdec' := hdec
      rw [es] at hdec'
      unfold pullQuicHeader at hdec'
      rw [long_header_step _ _ _ _ _ _ _ hft.1 hft.2.1 hv hv0 hd hs] at hdec'
      unfold pullLongRest at hdec'
      simp only [Rd.bind_apply, hft.2.2.1, Rd.guard_true, hft.2.2.2, Rd.remaining_apply] at hdec'
      cases hb : pullBytes (((token ++ tag).length : Nat) - 16 : Int) (token ++ tag) with
      | error e => rw [hb] at hdec'; cases hdec'
      | ok a =>
        have := pullBytes_lt _ _ _ _ hb
        simp only [List.length_append] at this
        omega
    simp only [headerCanon, specRetry_eq, Option.getD_some, List.append_nil, List.length_nil, Nat.sub_zero,
      Nat.sub_self, Nat.add_zero]
    rw [retry_fwd hcl _ v dcid scid token tag (fbType_canon v .retry rfl) hv hv0 hd hs htag htl]
    simp only [longPrefix_length, List.length_append, htag]
    congr 3
  | initial fb v dcid scid token p1 p2 len hft hv hv0 hd hs hp1 hp2 hlen es eh =>
    have htl := isVarint_lt _ _ hp1
    have hl := isVarint_lt _ _ hp2
    have hsr : r.length ≤ s.length := by rw [es]; simp [longPrefix_length]; omega
    have elen : h.packetLength - (s.length - r.length) = len := by rw [eh]; simp only []; omega
    rw [elen, eh]
    simp only [headerCanon, Option.getD_some, specLongCanon v .initial dcid scid token len htl hl, if_true]
    rw [← longPrefix_append]
    simp only [List.append_assoc]
    rw [initial_fwd hcl _ v dcid scid token (encV token.length) (encV len) r len (fbType_canon v .initial rfl) hv hv0
      hd hs (isVarint_encV _ htl) (isVarint_encV _ hl) (by omega) hlen]
    simp only [longPrefix_length, List.length_append]
    congr 3
    omega
  | plain fb v pt dcid scid p2 len hpt hft hv hv0 hd hs hp2 hlen es eh =>
    have hl := isVarint_lt _ _ hp2
    have hsr : r.length ≤ s.length := by rw [es]; simp [longPrefix_length]; omega
    have elen : h.packetLength - (s.length - r.length) = len := by rw [eh]; simp only []; omega
    have hne : pt ≠ .initial := by rcases hpt with rfl | rfl <;> simp
    have hlong : pt.isLong = true := by rcases hpt with rfl | rfl <;> rfl
    rw [elen, eh]
    have hc := headerCanon_plain v pt dcid scid (s.length - r.length + len) len hpt hl
    rw [hc, ← longPrefix_append]
    rw [plain_fwd hcl _ v pt dcid scid (encV len) r len hpt (fbType_canon v pt hlong) hv hv0 hd hs
      (isVarint_encV _ hl) hlen]
    simp only [longPrefix_length]
  | short fb dcid h1 h2 h3 ehcl hd63 es eh =>
    have elen : h.packetLength - (s.length - r.length) = r.length := by
      rw [eh, es]; simp only [List.length_cons, List.length_append]; omega
    rw [elen, eh, ehcl]
    have hc := headerCanon_short dcid s.length r.length
    rw [hc, List.cons_append, short_header 64 dcid r (by omega) (by decide) (by decide) hd63]
    simp only [List.length_cons]
    congr 3
    omega

end AQ.Codec
