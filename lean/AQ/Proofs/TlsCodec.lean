import AQ.Model.TlsCodec
/-
  Laws of the TLS codec combinators: round trip (`dec (enc a ++ r) = (a, r)`),
  canonicity (`dec bs = (a, r) → bs = enc a ++ r`) and boundedness of `block`.
-/
namespace AQ.TlsCodec
open AQ

theorem toNat_ofNat_lt (x : Nat) (h : x < 256) : (UInt8.ofNat x).toNat = x := by
  simp [UInt8.toNat_ofNat']; omega

theorem beEnc_length (n v : Nat) : (beEnc n v).length = n := by
  induction n generalizing v with
  | zero => rfl
  | succ n ih => simp [beEnc, ih]

theorem beDec_beEnc (n v : Nat) (h : v < 256 ^ n) : beDec (beEnc n v) = v := by
  induction n generalizing v with
  | zero => simp at h; simp [beEnc, beDec, h]
  | succ n ih =>
    have hp : 0 < 256 ^ n := Nat.pow_pos (by decide)
    have hd : v / 256 ^ n < 256 := by
      rw [Nat.div_lt_iff_lt_mul hp]; rw [Nat.pow_succ] at h; omega
    have hm : v % 256 ^ n < 256 ^ n := Nat.mod_lt _ hp
    simp only [beEnc, beDec, beEnc_length, toNat_ofNat_lt _ hd, ih _ hm]
    have := Nat.div_add_mod v (256 ^ n)
    rw [Nat.mul_comm] at this; exact this

theorem beDec_lt (l : Bytes) : beDec l < 256 ^ l.length := by
  induction l with
  | nil => simp [beDec]
  | cons b t ih =>
    simp only [beDec, List.length_cons, Nat.pow_succ]
    have hb : b.toNat < 256 := b.toNat_lt
    have : b.toNat * 256 ^ t.length + 256 ^ t.length ≤ 256 * 256 ^ t.length := by
      have : (b.toNat + 1) * 256 ^ t.length ≤ 256 * 256 ^ t.length := Nat.mul_le_mul_right _ (by omega)
      rw [Nat.add_mul] at this; omega
    omega

theorem beEnc_beDec (l : Bytes) : beEnc l.length (beDec l) = l := by
  induction l with
  | nil => rfl
  | cons b t ih =>
    have hp : 0 < 256 ^ t.length := Nat.pow_pos (by decide)
    have hlt := beDec_lt t
    simp only [List.length_cons, beEnc, beDec]
    have hdiv : (b.toNat * 256 ^ t.length + beDec t) / 256 ^ t.length = b.toNat := by
      rw [Nat.mul_comm, Nat.mul_add_div hp, Nat.div_eq_of_lt hlt]; simp
    have hmod : (b.toNat * 256 ^ t.length + beDec t) % 256 ^ t.length = beDec t := by
      rw [Nat.mul_comm, Nat.mul_add_mod, Nat.mod_eq_of_lt hlt]
    rw [hdiv, hmod, ih]; simp

/-! ### round trip -/

theorem uintBE_rt (n v : Nat) (r : Bytes) (h : v < 256 ^ n) : uintBE n (beEnc n v ++ r) = some (v, r) := by
  have hl := beEnc_length n v
  unfold uintBE
  simp only [List.length_append, hl]
  have : ¬ (n + r.length < n) := by omega
  simp only [this, ↓reduceIte]
  rw [List.take_left' hl, List.drop_left' hl, beDec_beEnc n v h]

theorem bytesN_rt (n : Nat) (b r : Bytes) (h : b.length = n) : bytesN n (b ++ r) = some (b, r) := by
  unfold bytesN
  simp only [List.length_append, h]
  have : ¬ (n + r.length < n) := by omega
  simp only [this, ↓reduceIte]
  rw [List.take_left' h, List.drop_left' h]

theorem opq_rt (n : Nat) (b r : Bytes) (h : b.length < 256 ^ n) : opq n (opqEnc n b ++ r) = some (b, r) := by
  unfold opq opqEnc
  rw [List.append_assoc, uintBE_rt n _ _ h]
  exact bytesN_rt _ b r rfl

theorem block_rt {α} (n : Nat) (d : Dec α) (e r : Bytes) (a : α) (h : e.length < 256 ^ n)
    (hd : d e = some (a, [])) : block n d (opqEnc n e ++ r) = some (a, r) := by
  unfold block
  rw [opq_rt n e r h]
  simp only [hd]

theorem many_rt {α} (d : Dec α) (e : α → Bytes) (as : List α)
    (hit : ∀ a ∈ as, ∀ r, d (e a ++ r) = some (a, r)) (hne : ∀ a ∈ as, e a ≠ []) :
    ∀ fuel, (as.flatMap e).length < fuel → many d fuel (as.flatMap e) = some (as, []) := by
  induction as with
  | nil => intro fuel _; cases fuel <;> simp [many]
  | cons a rest ih =>
    intro fuel hf
    have hne_a := hne a (by simp)
    simp only [List.flatMap_cons] at hf ⊢
    cases hea : e a with
    | nil => exact absurd hea hne_a
    | cons x xs =>
      cases fuel with
      | zero => simp at hf
      | succ fuel =>
        have hd := hit a (by simp) (rest.flatMap e)
        rw [hea] at hd
        simp only [List.cons_append, many]
        simp only [List.cons_append] at hd
        rw [hd]
        have hlen : (rest.flatMap e).length < fuel := by
          simp only [hea, List.length_append, List.length_cons] at hf; omega
        simp only [ih (fun b hb => hit b (by simp [hb])) (fun b hb => hne b (by simp [hb])) fuel hlen]

theorem list_rt {α} (n : Nat) (d : Dec α) (e : α → Bytes) (as : List α) (r : Bytes)
    (hit : ∀ a ∈ as, ∀ r, d (e a ++ r) = some (a, r)) (hne : ∀ a ∈ as, e a ≠ [])
    (hlen : (as.flatMap e).length < 256 ^ n) : list n d (listEnc n e as ++ r) = some (as, r) := by
  unfold list listEnc
  rw [opq_rt n _ r hlen]
  simp only [many_rt d e as hit hne _ (Nat.lt_succ_self _)]

/-! ### boundedness: a block decoder never looks past the declared length -/

/-- whatever follows the declared bytes is returned untouched and has no
    influence on the decoded value: the inner decoder is applied to the declared
    bytes only, and must use all of them -/
theorem block_bounded {α} (n : Nat) (d : Dec α) (inner r : Bytes) (h : inner.length < 256 ^ n) :
    block n d (opqEnc n inner ++ r) =
      match d inner with
      | some (a, []) => some (a, r)
      | _ => none := by
  unfold block
  rw [opq_rt n inner r h]
  rfl

theorem block_indep {α} (n : Nat) (d : Dec α) (inner r r' : Bytes) (h : inner.length < 256 ^ n) :
    (block n d (opqEnc n inner ++ r)).map (·.1) = (block n d (opqEnc n inner ++ r')).map (·.1) := by
  rw [block_bounded n d inner r h, block_bounded n d inner r' h]
  cases d inner with
  | none => rfl
  | some p =>
    rcases p with ⟨a, rest⟩
    cases rest <;> rfl

/-- a successful `block` consumed exactly header + declared length, and the
    inner decoder ended exactly at the declared end -/
theorem block_exact {α} (n : Nat) (d : Dec α) (bs rest : Bytes) (a : α) (h : block n d bs = some (a, rest)) :
    ∃ inner, opq n bs = some (inner, rest) ∧ d inner = some (a, []) := by
  unfold block at h
  cases ho : opq n bs with
  | none => simp [ho] at h
  | some p =>
    rcases p with ⟨inner, rest'⟩
    simp only [ho] at h
    cases hd : d inner with
    | none => simp [hd] at h
    | some q =>
      rcases q with ⟨a', tl⟩
      cases tl with
      | nil => simp [hd] at h; exact ⟨inner, by rw [h.2], by rw [← h.1]; exact hd⟩
      | cons x xs => simp [hd] at h

/-! ### canonicity: what decodes is exactly the encoding of the value -/

theorem uintBE_canon (n : Nat) (bs r : Bytes) (v : Nat) (h : uintBE n bs = some (v, r)) :
    bs = beEnc n v ++ r ∧ v < 256 ^ n := by
  unfold uintBE at h
  by_cases hl : bs.length < n
  · simp [hl] at h
  · simp only [hl, ↓reduceIte, Option.some.injEq, Prod.mk.injEq] at h
    have htl : (bs.take n).length = n := by simp; omega
    constructor
    · rw [← h.1, ← h.2]
      have := beEnc_beDec (bs.take n)
      rw [htl] at this
      rw [this, List.take_append_drop]
    · rw [← h.1]; have := beDec_lt (bs.take n); rwa [htl] at this

theorem bytesN_canon (n : Nat) (bs b r : Bytes) (h : bytesN n bs = some (b, r)) :
    bs = b ++ r ∧ b.length = n := by
  unfold bytesN at h
  by_cases hl : bs.length < n
  · simp [hl] at h
  · simp only [hl, ↓reduceIte, Option.some.injEq, Prod.mk.injEq] at h
    rw [← h.1, ← h.2]
    exact ⟨(List.take_append_drop n bs).symm, by simp; omega⟩

theorem opq_canon (n : Nat) (bs b r : Bytes) (h : opq n bs = some (b, r)) :
    bs = opqEnc n b ++ r ∧ b.length < 256 ^ n := by
  unfold opq at h
  cases hu : uintBE n bs with
  | none => simp [hu] at h
  | some p =>
    rcases p with ⟨len, rest⟩
    simp only [hu] at h
    rcases uintBE_canon n bs rest len hu with ⟨h1, h2⟩
    rcases bytesN_canon len rest b r h with ⟨h3, h4⟩
    unfold opqEnc
    rw [h1, h3, h4, List.append_assoc]
    exact ⟨rfl, h2⟩

theorem block_canon {α} (n : Nat) (d : Dec α) (e : α → Bytes) (bs rest : Bytes) (a : α)
    (hc : ∀ i x t, d i = some (x, t) → i = e x ++ t)
    (h : block n d bs = some (a, rest)) : bs = opqEnc n (e a) ++ rest := by
  rcases block_exact n d bs rest a h with ⟨inner, ho, hd⟩
  rcases opq_canon n bs inner rest ho with ⟨h1, _⟩
  have := hc inner a [] hd
  rw [List.append_nil] at this
  rw [h1, this]

end AQ.TlsCodec

namespace AQ.TlsCodec
open AQ

/-! ### canonicity of `many` / `list`, and of a sequence of two decoders -/

theorem many_canon {α} (d : Dec α) (e : α → Bytes)
    (hc : ∀ i x t, d i = some (x, t) → i = e x ++ t) :
    ∀ fuel bs as r, many d fuel bs = some (as, r) → bs = as.flatMap e ∧ r = [] := by
  intro fuel
  induction fuel with
  | zero =>
    intro bs as r h
    cases bs with
    | nil => simp [many] at h; simp [h.1, h.2]
    | cons b t => simp [many] at h
  | succ fuel ih =>
    intro bs as r h
    cases bs with
    | nil => simp [many] at h; simp [h.1, h.2]
    | cons b t =>
      simp only [many] at h
      cases hd : d (b :: t) with
      | none => simp [hd] at h
      | some p =>
        rcases p with ⟨a, rest⟩
        simp only [hd] at h
        cases hm : many d fuel rest with
        | none => simp [hm] at h
        | some q =>
          rcases q with ⟨as', r'⟩
          simp only [hm, Option.some.injEq, Prod.mk.injEq] at h
          rcases ih rest as' r' hm with ⟨h1, h2⟩
          rw [← h.1, ← h.2, hc _ _ _ hd, h1, h2]; simp

theorem list_canon {α} (n : Nat) (d : Dec α) (e : α → Bytes)
    (hc : ∀ i x t, d i = some (x, t) → i = e x ++ t) (bs r : Bytes) (as : List α)
    (h : list n d bs = some (as, r)) : bs = listEnc n e as ++ r := by
  unfold list at h
  cases ho : opq n bs with
  | none => simp [ho] at h
  | some p =>
    rcases p with ⟨inner, rest⟩
    simp only [ho] at h
    cases hm : many d (inner.length + 1) inner with
    | none => simp [hm] at h
    | some q =>
      rcases q with ⟨as', r'⟩
      simp only [hm, Option.some.injEq, Prod.mk.injEq] at h
      rcases many_canon d e hc _ _ _ _ hm with ⟨h1, _⟩
      rcases opq_canon n bs inner rest ho with ⟨h2, _⟩
      rw [h2, h1, ← h.1, ← h.2]; rfl

theorem extDec_canon (i t : Bytes) (x : Ext) (h : extDec i = some (x, t)) : i = extEnc x ++ t := by
  unfold extDec at h
  cases hu : uintBE 2 i with
  | none => simp [hu] at h
  | some p =>
    rcases p with ⟨a, r1⟩
    simp only [hu] at h
    cases ho : opq 2 r1 with
    | none => simp [ho] at h
    | some q =>
      rcases q with ⟨s, r2⟩
      simp only [ho, Option.some.injEq, Prod.mk.injEq] at h
      rw [(uintBE_canon 2 i r1 a hu).1, (opq_canon 2 r1 s r2 ho).1, ← h.1, ← h.2]
      simp [extEnc]

/-- message framing: type byte, 24-bit length, body decoder inside the block -/
def msgDec {α} (t : UInt8) (d : Dec α) : Dec α
  | b :: rest => if b = t then block 3 d rest else none
  | [] => none

theorem msgDec_canon {α} (t : UInt8) (d : Dec α) (e : α → Bytes)
    (hc : ∀ i x r, d i = some (x, r) → i = e x ++ r) (bs r : Bytes) (a : α)
    (h : msgDec t d bs = some (a, r)) : bs = t :: opqEnc 3 (e a) ++ r := by
  cases bs with
  | nil => simp [msgDec] at h
  | cons b rest =>
    simp only [msgDec] at h
    by_cases hb : b = t
    · simp only [hb, ↓reduceIte] at h
      rw [hb, block_canon 3 d e rest r a hc h]; rfl
    · simp [hb] at h

/-- message-level boundedness: what follows the declared 24-bit length never influences the value -/
theorem msgDec_bounded {α} (t : UInt8) (d : Dec α) (inner r r' : Bytes) (h : inner.length < 256 ^ 3) :
    msgDec t d (t :: opqEnc 3 inner ++ r) =
      (match d inner with
       | some (a, []) => some (a, r)
       | _ => none) ∧
    (msgDec t d (t :: opqEnc 3 inner ++ r)).map (·.1) = (msgDec t d (t :: opqEnc 3 inner ++ r')).map (·.1) := by
  simp only [List.cons_append, msgDec, ↓reduceIte]
  exact ⟨block_bounded 3 d inner r h, block_indep 3 d inner r r' h⟩

end AQ.TlsCodec
