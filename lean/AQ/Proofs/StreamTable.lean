/-
  Proofs about the connection-level stream table (C01, multi-stream part):
  every table operation acts on directed streams only through `StreamSys.step`,
  one stream at a time, so every invariant of reachable one-stream states holds
  for every stream of the table under any interleaving.  Core Lean only.
-/
import AQ.Model.StreamTable
import AQ.Proofs.StreamSysLive

namespace AQ.StreamTable
open AQ AQ.Stream AQ.StreamSys

theorem get_set_same (t : Table) (k : Key) (s : Sys) : (t.set k s).get k = s := by
  simp [Table.get, Table.set]

theorem get_set_other (t : Table) (k k' : Key) (s : Sys) (h : k' ≠ k) : (t.set k s).get k' = t.get k' := by
  have : (k' == k) = false := by simpa using h
  simp [Table.get, Table.set, List.lookup, this]

@[simp] theorem get_setQueue (t : Table) (ep : Bool) (q : List Nat) (k : Key) :
    (t.setQueue ep q).get k = t.get k := by
  cases ep <;> rfl

@[simp] theorem get_addFin (t : Table) (ep : Bool) (id : Nat) (k : Key) : (t.addFin ep id).get k = t.get k := by
  cases ep <;> rfl

@[simp] theorem get_ensure (t : Table) (ep : Bool) (id : Nat) (k : Key) : (t.ensure ep id).get k = t.get k := by
  unfold Table.ensure; split
  · rfl
  · exact get_setQueue _ _ _ _

/-- INDEPENDENCE: a per-stream step changes the directed stream it is applied to
    — by exactly `StreamSys.step` — and no other -/
theorem get_on (t : Table) (k k' : Key) (op : StreamSys.Op) :
    (t.on k op).1.get k' = if k' = k then (StreamSys.step (t.get k) op).1 else t.get k' := by
  unfold Table.on
  by_cases h : k' = k
  · subst h; simp [get_set_same]
  · simp [h, get_set_other _ _ _ _ h]

/-- a property of one-stream states that every `StreamSys` step preserves (for
    delivery reports: under the environment's contract) -/
structure Stable (P : Sys → Prop) : Prop where
  init : ∀ id, P (init id)
  step : ∀ s op, P s → StreamSys.okOp s op → P (StreamSys.step s op).1

theorem stable_good : Stable Good := ⟨good_init, fun _ op h ok => good_step h op ok⟩

def All (P : Sys → Prop) (t : Table) : Prop := ∀ k, P (t.get k)

theorem all_on {P : Sys → Prop} (hP : Stable P) {t : Table} (h : All P t) (k : Key) (op : StreamSys.Op)
    (ok : StreamSys.okOp (t.get k) op) : All P (t.on k op).1 := by
  intro k'
  rw [get_on]
  split
  · exact hP.step _ _ (h k) ok
  · exact h k'

theorem all_serveOne {P : Sys → Prop} (hP : Stable P) (ep : Bool) (inputs : List (Nat × Int × Nat))
    {l : Loop} (h : All P l.t) (id : Nat) : All P (serveOne ep inputs l id).t := by
  unfold serveOne
  simp only []
  split
  · intro k
    rw [get_addFin]
    exact all_on hP (all_on hP h _ .discardSend trivial) _ .discardRecv trivial k
  · split
    · exact all_on hP h _ .emitReset trivial
    · split
      · exact h
      · split
        · exact h
        · rename_i space mo _
          have := all_on hP h (id, ep) (.emit space mo) trivial
          split <;> exact this

theorem all_serve {P : Sys → Prop} (hP : Stable P) (ep : Bool) (inputs : List (Nat × Int × Nat))
    (ids : List Nat) {l : Loop} (h : All P l.t) : All P (ids.foldl (serveOne ep inputs) l).t := by
  induction ids generalizing l with
  | nil => exact h
  | cons id rest ih => exact ih (all_serveOne hP ep inputs h id)

theorem all_step {P : Sys → Prop} (hP : Stable P) {t : Table} (h : All P t) (op : Op) (ok : okOp t op) :
    All P (step t op).1 := by
  cases op with
  | api ep id c =>
    have h' : All P (t.ensure ep id) := fun k => by rw [get_ensure]; exact h k
    refine all_on hP h' _ _ ?_
    cases c <;> trivial
  | arrive ep id a =>
    have h' : All P (t.ensure ep id) := fun k => by rw [get_ensure]; exact h k
    refine all_on hP h' _ _ ?_
    cases a <;> trivial
  | report ep id rp => exact all_on hP h _ _ ok
  | serve ep n inputs tail =>
    intro k
    simp only [step, get_setQueue]
    exact all_serve hP ep inputs _ (l := { t := t }) h k

theorem all_run {P : Sys → Prop} (hP : Stable P) {t : Table} (h : All P t) (ops : List Op) (hw : WF t ops) :
    All P (run t ops) := by
  induction ops generalizing t with
  | nil => exact h
  | cons op rest ih => exact ih (all_step hP h op hw.1) hw.2

theorem all_init (P : Sys → Prop) (hP : Stable P) : All P {} := fun k => by
  show P (Table.get {} k); simp only [Table.get, List.lookup]; exact hP.init k.1

/-! ## The discard rule -/

theorem step_gone_mono (s : Sys) (op : StreamSys.Op) :
    (s.sendGone = true → (StreamSys.step s op).1.sendGone = true) ∧
    (s.recvGone = true → (StreamSys.step s op).1.recvGone = true) := by
  cases op <;> simp only [StreamSys.step] <;> (repeat' split) <;> simp_all

/-- a stream id in `_streams_finished` of `ep` has both halves of `ep`'s stream
    object marked as discarded -/
def FinGone (t : Table) : Prop :=
  ∀ ep id, id ∈ t.fin ep → (t.get (id, ep)).sendGone = true ∧ (t.get (id, !ep)).recvGone = true

@[simp] theorem fin_setQueue (t : Table) (ep ep' : Bool) (q : List Nat) : (t.setQueue ep q).fin ep' = t.fin ep' := by
  cases ep <;> cases ep' <;> rfl

@[simp] theorem fin_ensure (t : Table) (ep ep' : Bool) (id : Nat) : (t.ensure ep id).fin ep' = t.fin ep' := by
  unfold Table.ensure; split
  · rfl
  · exact fin_setQueue _ _ _ _

theorem fin_on (t : Table) (k : Key) (op : StreamSys.Op) (ep : Bool) : (t.on k op).1.fin ep = t.fin ep := by
  cases ep <;> rfl

theorem finGone_on {t : Table} (h : FinGone t) (k : Key) (op : StreamSys.Op) : FinGone (t.on k op).1 := by
  intro ep id hid
  rw [fin_on] at hid
  obtain ⟨h1, h2⟩ := h ep id hid
  rw [get_on, get_on]
  constructor
  · split
    · rename_i e; rw [← e]; exact (step_gone_mono _ op).1 h1
    · exact h1
  · split
    · rename_i e; rw [← e]; exact (step_gone_mono _ op).2 h2
    · exact h2

theorem mem_fin_addFin (t : Table) (ep ep' : Bool) (id x : Nat) :
    x ∈ (t.addFin ep id).fin ep' ↔ (ep' = ep ∧ x = id) ∨ x ∈ t.fin ep' := by
  cases ep <;> cases ep' <;> simp [Table.addFin, Table.fin]

theorem finGone_serveOne (ep : Bool) (inputs : List (Nat × Int × Nat)) {l : Loop} (h : FinGone l.t) (id : Nat) :
    FinGone (serveOne ep inputs l id).t := by
  unfold serveOne
  simp only []
  split
  · rename_i hfin
    intro ep' x hx
    rw [mem_fin_addFin] at hx
    simp only [get_addFin]
    rcases hx with ⟨rfl, rfl⟩ | hx
    · have hne : (x, ep') ≠ (x, !ep') := by cases ep' <;> simp
      constructor
      · rw [get_on, if_neg hne, get_on, if_pos rfl]
        simp [StreamSys.step, hfin.1]
      · rw [get_on, if_pos rfl, get_on, if_neg (Ne.symm hne)]
        simp [StreamSys.step, hfin.2]
    · exact finGone_on (finGone_on h _ _) _ _ ep' x (by rw [fin_on, fin_on]; exact hx)
  · split
    · exact finGone_on h _ _
    · split
      · exact h
      · split
        · exact h
        · rename_i space mo _
          have := finGone_on h (id, ep) (.emit space mo)
          split <;> exact this

theorem finGone_step {t : Table} (h : FinGone t) (op : Op) : FinGone (step t op).1 := by
  cases op with
  | api ep id c =>
    refine finGone_on (t := t.ensure ep id) ?_ _ _
    intro ep' x hx; rw [fin_ensure] at hx; simp only [get_ensure]; exact h ep' x hx
  | arrive ep id a =>
    refine finGone_on (t := t.ensure ep id) ?_ _ _
    intro ep' x hx; rw [fin_ensure] at hx; simp only [get_ensure]; exact h ep' x hx
  | report ep id rp => exact finGone_on h _ _
  | serve ep n inputs tail =>
    have key : ∀ (ids : List Nat) (l : Loop), FinGone l.t → FinGone (ids.foldl (serveOne ep inputs) l).t := by
      intro ids
      induction ids with
      | nil => intro l hl; exact hl
      | cons id rest ih => intro l hl; exact ih _ (finGone_serveOne ep inputs hl id)
    intro ep' x hx
    simp only [step, fin_setQueue, get_setQueue] at hx ⊢
    exact key _ { t := t } h ep' x hx

theorem finGone_run {t : Table} (h : FinGone t) (ops : List Op) : FinGone (run t ops) := by
  induction ops generalizing t with
  | nil => exact h
  | cons op rest ih => exact ih (finGone_step h op)

theorem finGone_init : FinGone {} := by intro ep id h; cases ep <;> simp [Table.fin] at h

/-! ## Service order: the queue rebuild loses no stream -/

theorem fin_serveOne_mono (ep : Bool) (inputs : List (Nat × Int × Nat)) (l : Loop) (id x : Nat) (ep' : Bool)
    (hx : x ∈ l.t.fin ep') : x ∈ (serveOne ep inputs l id).t.fin ep' := by
  unfold serveOne
  simp only []
  split
  · rw [mem_fin_addFin]; right; rw [fin_on, fin_on]; exact hx
  · split
    · rw [fin_on]; exact hx
    · split
      · exact hx
      · split
        · exact hx
        · split <;> (simp only [fin_on]; exact hx)

theorem discarded_serveOne (ep : Bool) (inputs : List (Nat × Int × Nat)) (l : Loop) (id : Nat)
    (h : ∀ x ∈ l.discarded, x ∈ l.t.fin ep) : ∀ x ∈ (serveOne ep inputs l id).discarded,
      x ∈ (serveOne ep inputs l id).t.fin ep := by
  intro x hx
  have hm := fin_serveOne_mono ep inputs l id
  revert hx
  unfold serveOne
  simp only []
  split
  · intro hx
    rw [mem_fin_addFin]
    simp only [List.mem_cons] at hx
    rcases hx with rfl | hx
    · exact Or.inl ⟨rfl, rfl⟩
    · right; rw [fin_on, fin_on]; exact h x hx
  · split
    · intro hx; rw [fin_on]; exact h x hx
    · split
      · intro hx; exact h x hx
      · split
        · intro hx; exact h x hx
        · split <;> (intro hx; simp only [fin_on]; exact h x hx)

/-- a stream of `_streams_queue` is still in the queue after the stream loop, or
    it was discarded (its id is in `_streams_finished`) -/
theorem serve_keeps (t : Table) (ep : Bool) (n : Nat) (inputs : List (Nat × Int × Nat)) (tail : List Nat)
    (x : Nat) (hx : x ∈ t.queue ep) :
    x ∈ (step t (.serve ep n inputs tail)).1.queue ep ∨ x ∈ (step t (.serve ep n inputs tail)).1.fin ep := by
  have key : ∀ (ids : List Nat) (l : Loop), (∀ y ∈ l.discarded, y ∈ l.t.fin ep) →
      ∀ y ∈ (ids.foldl (serveOne ep inputs) l).discarded, y ∈ (ids.foldl (serveOne ep inputs) l).t.fin ep := by
    intro ids
    induction ids with
    | nil => intro l hl; exact hl
    | cons id rest ih => intro l hl; exact ih _ (discarded_serveOne ep inputs l id hl)
  have hk := key ((t.queue ep).take n) { t := t } (by intro y hy; cases hy)
  simp only [step]
  generalize ((t.queue ep).take n).foldl (serveOne ep inputs) { t := t } = l at hk
  by_cases hd : x ∈ l.discarded
  · right; rw [fin_setQueue]; exact hk x hd
  · left
    have hq : (l.t.setQueue ep ((t.queue ep).filter (fun y => y ∉ l.discarded ∧ y ∉ l.sent) ++
        (if tail.Perm l.sent then tail else l.sent.reverse))).queue ep =
        (t.queue ep).filter (fun y => y ∉ l.discarded ∧ y ∉ l.sent) ++
        (if tail.Perm l.sent then tail else l.sent.reverse) := by cases ep <;> rfl
    rw [hq, List.mem_append]
    by_cases hs : x ∈ l.sent
    · right
      split
      · rename_i hp; exact hp.mem_iff.2 hs
      · simpa using hs
    · left; simp [hx, hd, hs]

end AQ.StreamTable
