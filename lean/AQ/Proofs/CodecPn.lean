/-
  `decode_packet_number` (RFC 9000 Appendix A.3 as aioquic writes it).
-/
import AQ.Model.Codec

namespace AQ.Codec
open AQ

/-- |a − b| on naturals -/
def adiff (a b : Nat) : Nat := (a - b) + (b - a)

theorem mod_eq_sep (a b w : Nat) (h : a % w = b % w) : a = b ∨ a + w ≤ b ∨ b + w ≤ a := by
  have ha := Nat.div_add_mod a w
  have hb := Nat.div_add_mod b w
  rcases Nat.lt_trichotomy (a / w) (b / w) with hlt | heq | hgt
  · have := Nat.mul_le_mul_left w (Nat.succ_le_of_lt hlt)
    rw [Nat.mul_succ] at this
    right; left; omega
  · left; rw [heq] at ha; omega
  · have := Nat.mul_le_mul_left w (Nat.succ_le_of_lt hgt)
    rw [Nat.mul_succ] at this
    right; right; omega

/-- the candidate: `expected` with its low `bits` bits replaced by `truncated` -/
theorem candidate_eq (t bits e : Nat) (ht : t < 2 ^ bits) :
    (e - e % 2 ^ bits) ||| t = 2 ^ bits * (e / 2 ^ bits) + t := by
  have h1 : e - e % 2 ^ bits = 2 ^ bits * (e / 2 ^ bits) := by
    have := Nat.div_add_mod e (2 ^ bits)
    omega
  rw [h1, Nat.two_pow_add_eq_or_of_lt ht]

/-- every branch of `decode_packet_number`, with the candidate made explicit -/
theorem decodePacketNumber_cases (t bits e : Nat) (hb : 1 ≤ bits) (ht : t < 2 ^ bits) :
    ∃ w h B c0 : Nat, w = 2 ^ bits ∧ w = 2 * h ∧ 0 < h ∧ B ≤ e ∧ e < B + w ∧ B % w = 0 ∧ c0 = B + t ∧
      decodePacketNumber t bits e =
        (if c0 + h ≤ e ∧ c0 + w < 4611686018427387904 then c0 + w
         else if c0 > e + h ∧ c0 ≥ w then c0 - w else c0) := by
  have hw : 2 ^ bits = 2 * (2 ^ bits / 2) := by
    obtain ⟨k, rfl⟩ : ∃ k, bits = k + 1 := ⟨bits - 1, by omega⟩
    rw [Nat.pow_succ]; omega
  have hpos : 0 < 2 ^ bits := Nat.pos_of_ne_zero (by simp)
  have hdm := Nat.div_add_mod e (2 ^ bits)
  have hml := Nat.mod_lt e hpos
  refine ⟨2 ^ bits, 2 ^ bits / 2, 2 ^ bits * (e / 2 ^ bits), 2 ^ bits * (e / 2 ^ bits) + t,
    rfl, hw, by omega, by omega, by omega, Nat.mul_mod_right _ _, rfl, ?_⟩
  unfold decodePacketNumber
  simp only [candidate_eq t bits e ht]
  congr 1
  apply propext
  constructor <;> intro ⟨a, b⟩ <;> constructor <;> omega

theorem pn_mod (t bits e : Nat) (hb : 1 ≤ bits) (ht : t < 2 ^ bits) :
    decodePacketNumber t bits e % 2 ^ bits = t := by
  obtain ⟨w, h, B, c0, rfl, hw, hh, hBe, heB, hB0, rfl, hd⟩ := decodePacketNumber_cases t bits e hb ht
  rw [hd]
  have hc : (B + t) % 2 ^ bits = t := by
    rw [Nat.add_mod, hB0, Nat.zero_add, Nat.mod_mod, Nat.mod_eq_of_lt ht]
  split
  · rw [Nat.add_mod_right]; exact hc
  · split
    · rename_i hcond
      have : (B + t - 2 ^ bits + 2 ^ bits) % 2 ^ bits = t := by
        rw [Nat.sub_add_cancel hcond.2]; exact hc
      rwa [Nat.add_mod_right] at this
    · exact hc

/-- closest candidate below 2^62, ties to the larger one -/
theorem pn_closest (t bits e : Nat) (hb : 1 ≤ bits) (ht : t < 2 ^ bits)
    (c : Nat) (hc : c % 2 ^ bits = t) (hc62 : c < 4611686018427387904) :
    adiff (decodePacketNumber t bits e) e ≤ adiff c e ∧
      (adiff c e = adiff (decodePacketNumber t bits e) e → c ≤ decodePacketNumber t bits e) := by
  have hm := pn_mod t bits e hb ht
  obtain ⟨w, h, B, c0, rfl, hw, hh, hBe, heB, hB0, rfl, hd⟩ := decodePacketNumber_cases t bits e hb ht
  have hsep := mod_eq_sep c (decodePacketNumber t bits e) (2 ^ bits) (by rw [hc, hm])
  rw [hd] at hsep ⊢
  unfold adiff
  split
  · rename_i h1
    rw [if_pos h1] at hsep
    omega
  · rename_i h1
    rw [if_neg h1] at hsep
    split
    · rename_i h2
      rw [if_pos h2] at hsep
      omega
    · rename_i h2
      rw [if_neg h2] at hsep
      omega

/-- the 2^62 guard keeps the result a valid packet number -/
theorem pn_lt (t bits e : Nat) (hb : 1 ≤ bits) (hb62 : bits ≤ 62) (ht : t < 2 ^ bits)
    (he : e < 4611686018427387904) : decodePacketNumber t bits e < 4611686018427387904 := by
  obtain ⟨w, h, B, c0, rfl, hw, hh, hBe, heB, hB0, rfl, hd⟩ := decodePacketNumber_cases t bits e hb ht
  have h62 : 4611686018427387904 % 2 ^ bits = 0 := by
    have : (4611686018427387904 : Nat) = 2 ^ 62 := by decide
    rw [this]
    exact Nat.mod_eq_zero_of_dvd (Nat.pow_dvd_pow 2 hb62)
  have hsep := mod_eq_sep B 4611686018427387904 (2 ^ bits) (by rw [hB0, h62])
  rw [hd]
  split
  · omega
  · split <;> omega

/-- a packet number inside the window `(expected − half, expected + half]` is recovered exactly -/
theorem pn_roundtrip (pn bits e : Nat) (hb : 1 ≤ bits) (hpn : pn < 4611686018427387904)
    (hlo : e < pn + 2 ^ bits / 2) (hhi : pn ≤ e + 2 ^ bits / 2) :
    decodePacketNumber (pn % 2 ^ bits) bits e = pn := by
  have hpos : 0 < 2 ^ bits := Nat.pos_of_ne_zero (by simp)
  have ht := Nat.mod_lt pn hpos
  have hm := pn_mod (pn % 2 ^ bits) bits e hb ht
  obtain ⟨w, h, B, c0, rfl, hw, hh, hBe, heB, hB0, rfl, hd⟩ :=
    decodePacketNumber_cases (pn % 2 ^ bits) bits e hb ht
  have hsep := mod_eq_sep pn (decodePacketNumber (pn % 2 ^ bits) bits e) (2 ^ bits) hm.symm
  have hh2 : 2 ^ bits / 2 = h := by omega
  rw [hh2] at hlo hhi
  rw [hd] at hsep ⊢
  split
  · rename_i h1
    rw [if_pos h1] at hsep
    omega
  · rename_i h1
    rw [if_neg h1] at hsep
    split
    · rename_i h2
      rw [if_pos h2] at hsep
      omega
    · rename_i h2
      rw [if_neg h2] at hsep
      omega

end AQ.Codec
