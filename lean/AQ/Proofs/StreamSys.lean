/-
  Proofs about the end-to-end one-stream model AQ.Model.StreamSys (property C01).
  Part 1: shape of every step, the sender-side invariant (`SendInv`).
  Core Lean only.
-/
import AQ.Model.StreamSys

namespace AQ.StreamSys
open AQ AQ.Stream AQ.RangeSet

/-! ## Shape of the steps -/

theorem writeStreamFrame_cases (sid : Nat) (s : Send) (space : Int) (mo : Nat) :
    (∃ e, writeStreamFrame false sid s space mo = .error e) ∨
    writeStreamFrame false sid s space mo = .ok (s, .ret none 0) ∨
    ∃ ms s' fr, getFrame s ms (some mo) = .ok (s', fr) ∧
      writeStreamFrame false sid s space mo =
        .ok (s', .ret fr (if fr.isSome then s'.highest - s.highest else 0)) := by
  unfold writeStreamFrame
  cases frameOverhead sid s with
  | error e => exact Or.inl ⟨e, rfl⟩
  | ok ov =>
    simp only []
    split
    · exact Or.inr (Or.inl (by simp))
    · cases hgf : getFrame s (space - (ov : Int)).toNat (some mo) with
      | error e => exact Or.inl ⟨e, rfl⟩
      | ok p =>
        obtain ⟨s', fr⟩ := p
        exact Or.inr (Or.inr ⟨_, s', fr, hgf, rfl⟩)

/-- `emit` either changes nothing or is a `get_frame` call whose result is put on the wire -/
theorem step_emit (s : Sys) (hq : s.quirkNoRoomGuard = false) (space : Int) (mo : Nat) :
    (step s (.emit space mo)).1 = s ∨
    ∃ ms s' fr, getFrame s.send ms (some mo) = .ok (s', fr) ∧
      s.send.resetPending = false ∧ s.send.bufferIsEmpty = false ∧
      (step s (.emit space mo)).1 =
        { s with send := s', ghost := s.ghost.onGet fr, wire := s.wire ++ fr.toList } := by
  by_cases hgate : s.send.resetPending = true ∨ s.send.bufferIsEmpty = true
  · left; simp only [step, if_pos hgate]
  · have hg1 : s.send.resetPending = false := by
      cases h : s.send.resetPending <;> simp_all
    have hg2 : s.send.bufferIsEmpty = false := by
      cases h : s.send.bufferIsEmpty <;> simp_all
    simp only [step, if_neg hgate, hq]
    rcases writeStreamFrame_cases s.streamId s.send space mo with ⟨e, h⟩ | h | ⟨ms, s', fr, hgf, h⟩
    · rw [h]; exact Or.inl rfl
    · rw [h]; left; simp only [Ghost.onGet, Option.toList, List.append_nil]; cases s; simp_all
    · rw [h]; right; exact ⟨ms, s', fr, hgf, hg1, hg2, rfl⟩

/-- the quirk flags and the stream id are constants of a run -/
theorem step_consts (s : Sys) (op : Op) :
    (step s op).1.quirkDupFin = s.quirkDupFin ∧ (step s op).1.quirkNoRoomGuard = s.quirkNoRoomGuard ∧
    (step s op).1.streamId = s.streamId ∧ (step s op).1.quirkEndAfterReset = s.quirkEndAfterReset := by
  cases op <;> simp only [step] <;> (repeat' split) <;> simp

/-! ## Sender-side invariant -/

/-- a frame on the wire carries the written bytes of its offsets; FIN only at the end -/
def FrameOK (g : Ghost) (f : OutFrame) : Prop :=
  f.data = (g.written.drop f.offset).take f.data.length ∧
  f.offset + f.data.length ≤ g.written.length ∧
  (f.fin = true → g.finWritten = true ∧ f.offset + f.data.length = g.written.length)

structure SendInv (s : Sys) : Prop where
  sinv : SInv s.send s.ghost
  hi_le : s.send.highest ≤ s.ghost.written.length
  wire_ok : ∀ f ∈ s.wire, FrameOK s.ghost f
  out_wire : ∀ fr ∈ s.ghost.outstanding, ∃ f ∈ s.wire, f.fr = fr

theorem sendInv_init (sid : Nat) : SendInv (init sid) :=
  ⟨SInv_init, Nat.le_refl _, by simp [init], by simp [init]⟩

/-- what `get_frame` does to `highest_offset` -/
theorem getFrame_highest {s : Send} {g : Ghost} (h : SInv s g) {ms : Nat} {mo : Option Nat} {s' : Send}
    {fr : Option OutFrame} (hg : getFrame s ms mo = .ok (s', fr)) :
    s'.highest = s.highest ∨
    ∃ f, fr = some f ∧ f.data ≠ [] ∧ s'.highest = f.offset + f.data.length ∧ s.highest < s'.highest := by
  cases hr : g.reset with
  | true => rw [getFrame_reset s ms mo (by rw [h.code_iff]; exact hr)] at hg; cases hg
  | false =>
    rcases getFrame_cases h hr ms mo with ⟨_, _, e⟩ | ⟨_, _, e⟩ | ⟨r, rest, _, _, e⟩ | ⟨r, rest, hp, hb, e⟩
    · rw [e] at hg; injection hg with hg; injection hg with h1 h2; subst h1; exact Or.inl rfl
    · rw [e] at hg; injection hg with hg; injection hg with h1 h2; subst h1; exact Or.inl rfl
    · rw [e] at hg; injection hg with hg; injection hg with h1 h2; subst h1; exact Or.inl rfl
    · rw [e] at hg; injection hg with hg; injection hg with h1 h2; subst h1; subst h2
      have hl := (h.slice_eq hr hp _ (Nat.le_of_lt hb) (capStop_le r ms mo).1).2
      by_cases hx : capStop r ms mo > s.highest
      · right
        refine ⟨_, rfl, ?_, ?_, ?_⟩
        · intro hy; have := congrArg List.length hy; simp only [] at this; rw [hl] at this; simp at this; omega
        · simp only [afterData, hl, if_pos hx]; omega
        · simp only [afterData, if_pos hx]; exact hx
      · left; simp only [afterData, if_neg hx]

theorem frameOK_mono {g g' : Ghost} (hp : g.written <+: g'.written)
    (hf : g.finWritten = true → g' = g) {f : OutFrame} (h : FrameOK g f) : FrameOK g' f := by
  refine ⟨frame_bytes_stable hp h.1 h.2.1, Nat.le_trans h.2.1 hp.length_le, ?_⟩
  intro hfin
  have := h.2.2 hfin
  rw [hf this.1]; exact this

theorem onDataDelivery_frame {s s' : Send} {d : Delivery} {a b : Nat} {fin : Bool}
    (hd : onDataDelivery s d a b fin = .ok s') :
    s'.highest = s.highest ∧ s'.resetPending = s.resetPending ∧ s'.resetCode = s.resetCode ∧
    s'.bufStop = s.bufStop ∧ s'.bufFin = s.bufFin := by
  by_cases ne : fin = true ∧ some b ≠ s.bufFin
  · rw [onDataDelivery_err s d a b fin ne] at hd; cases hd
  · cases hr : s.resetCode.isSome with
    | true => rw [onDataDelivery_reset s d a b fin ne hr] at hd; cases hd; simp
    | false =>
      cases d with
      | lost =>
        rw [onDataDelivery_lost s a b fin ne hr] at hd; cases hd; simp [afterLost]
      | acked =>
        rw [onDataDelivery_acked s a b fin ne hr] at hd; cases hd
        obtain ⟨ack, bs, buf, e⟩ := ackRanges_frame s a b
        simp [afterAcked, ackFinish, e]

theorem write_frame {s s' : Send} {data : Bytes} {fin : Bool} (hw : write s data fin = .ok s') :
    s.bufFin.isSome = false ∧ s.resetCode.isSome = false ∧ s' = afterWrite s data fin := by
  have hf : s.bufFin.isSome = false := by
    cases hx : s.bufFin.isSome
    · rfl
    · rw [write_err s data fin (Or.inl hx)] at hw; cases hw
  have hc : s.resetCode.isSome = false := by
    cases hx : s.resetCode.isSome
    · rfl
    · rw [write_err s data fin (Or.inr hx)] at hw; cases hw
  rw [write_ok s data fin hf hc] at hw
  cases hw
  exact ⟨hf, hc, rfl⟩

theorem frameOK_congr {g g' : Ghost} (h1 : g'.written = g.written) (h2 : g'.finWritten = g.finWritten)
    {f : OutFrame} (h : FrameOK g f) : FrameOK g' f := by
  unfold FrameOK at *; rw [h1, h2]; exact h

/-- the receiver-side steps do not touch the sending endpoint or the wire -/
theorem step_recv_side (s : Sys) (op : Op)
    (h : (∃ i, op = .deliver i) ∨ (∃ j, op = .deliverReset j) ∨ op = .discardRecv ∨ op = .discardSend) :
    (step s op).1.send = s.send ∧ (step s op).1.ghost = s.ghost ∧ (step s op).1.wire = s.wire ∧
    (step s op).1.resetWire = s.resetWire := by
  rcases h with ⟨i, rfl⟩ | ⟨j, rfl⟩ | rfl | rfl <;> simp only [step] <;> (repeat' split) <;> simp

theorem step_gone {s : Sys} (hg : s.sendGone = true) :
    (∀ d f, (step s (.appWrite d f)).1 = s) ∧ (∀ c, (step s (.appReset c)).1 = s) := by
  constructor <;> intros <;> simp [step, hg]

theorem sendInv_step {s : Sys} (h : SendInv s) (hq : s.quirkNoRoomGuard = false) (op : Op)
    (ok : okOp s op) : SendInv (step s op).1 := by
  cases op with
  | appWrite data fin =>
    cases hgn : s.sendGone with
    | true => rw [(step_gone hgn).1]; exact h
    | false =>
    simp only [step, hgn, Bool.false_eq_true, if_false]
    split
    · rename_i s' hw
      obtain ⟨hf, hc, rfl⟩ := write_frame hw
      have hnf : s.ghost.finWritten = false := by
        have := h.sinv.fin_eq
        cases hx : s.ghost.finWritten
        · rfl
        · rw [hx] at this; simp [this] at hf
      refine ⟨SInv_write h.sinv data fin _ hw, ?_, ?_, h.out_wire⟩
      · have := h.hi_le; simp only [afterWrite, Ghost.onWrite, List.length_append]; omega
      · intro f hfm
        exact frameOK_mono (by simp [Ghost.onWrite]) (by intro hx; simp [hnf] at hx) (h.wire_ok f hfm)
    · exact h
  | appReset code =>
    cases hgn : s.sendGone with
    | true => rw [(step_gone hgn).2]; exact h
    | false =>
    simp only [step, hgn, Bool.false_eq_true, if_false]
    refine ⟨SInv_reset h.sinv code, ?_, ?_, h.out_wire⟩
    · have := h.hi_le; simp only [reset]; split <;> exact this
    · intro f hfm; exact frameOK_congr rfl rfl (h.wire_ok f hfm)
  | emit space mo =>
    rcases step_emit s hq space mo with e | ⟨ms, s', fr, hgf, -, -, e⟩
    · rw [e]; exact h
    · rw [e]
      have hs := SInv_get h.sinv ms (some mo) s' fr hgf
      refine ⟨hs, ?_, ?_, ?_⟩
      · have hw : (s.ghost.onGet fr).written = s.ghost.written := by cases fr <;> rfl
        show s'.highest ≤ (s.ghost.onGet fr).written.length
        rw [hw]
        rcases getFrame_highest h.sinv hgf with e1 | ⟨f, rfl, -, e1, -⟩
        · rw [e1]; exact h.hi_le
        · have := (h.sinv.frame_spec hgf).2.1; omega
      · intro f hfm
        have hw : (s.ghost.onGet fr).written = s.ghost.written := by cases fr <;> rfl
        have hw2 : (s.ghost.onGet fr).finWritten = s.ghost.finWritten := by cases fr <;> rfl
        apply frameOK_congr hw hw2
        simp only [List.mem_append] at hfm
        rcases hfm with hfm | hfm
        · exact h.wire_ok f hfm
        · cases fr with
          | none => simp at hfm
          | some f' =>
            simp only [Option.toList, List.mem_singleton] at hfm; subst hfm
            have := h.sinv.frame_spec hgf
            exact ⟨this.1, this.2.1, this.2.2.2.2.1⟩
      · intro x hx
        cases fr with
        | none => obtain ⟨f, h1, h2⟩ := h.out_wire x hx; exact ⟨f, by simp [h1], h2⟩
        | some f' =>
          simp only [Ghost.onGet, List.mem_cons] at hx
          rcases hx with rfl | hx
          · exact ⟨f', by simp, rfl⟩
          · obtain ⟨f, h1, h2⟩ := h.out_wire x hx; exact ⟨f, by simp [h1], h2⟩
  | emitReset =>
    simp only [step]
    split
    · rename_i hrp
      refine ⟨SInv_getReset h.sinv (h.sinv.rpend hrp), h.hi_le, ?_, h.out_wire⟩
      intro f hfm; exact frameOK_congr rfl rfl (h.wire_ok f hfm)
    · exact h
  | deliver i =>
    obtain ⟨e1, e2, e3, -⟩ := step_recv_side s (.deliver i) (Or.inl ⟨i, rfl⟩)
    exact ⟨by rw [e1, e2]; exact h.sinv, by rw [e1, e2]; exact h.hi_le, by rw [e2, e3]; exact h.wire_ok,
      by rw [e2, e3]; exact h.out_wire⟩
  | deliverReset j =>
    obtain ⟨e1, e2, e3, -⟩ := step_recv_side s (.deliverReset j) (Or.inr (Or.inl ⟨j, rfl⟩))
    exact ⟨by rw [e1, e2]; exact h.sinv, by rw [e1, e2]; exact h.hi_le, by rw [e2, e3]; exact h.wire_ok,
      by rw [e2, e3]; exact h.out_wire⟩
  | discardRecv =>
    obtain ⟨e1, e2, e3, -⟩ := step_recv_side s .discardRecv (Or.inr (Or.inr (Or.inl rfl)))
    exact ⟨by rw [e1, e2]; exact h.sinv, by rw [e1, e2]; exact h.hi_le, by rw [e2, e3]; exact h.wire_ok,
      by rw [e2, e3]; exact h.out_wire⟩
  | discardSend =>
    obtain ⟨e1, e2, e3, -⟩ := step_recv_side s .discardSend (Or.inr (Or.inr (Or.inr rfl)))
    exact ⟨by rw [e1, e2]; exact h.sinv, by rw [e1, e2]; exact h.hi_le, by rw [e2, e3]; exact h.wire_ok,
      by rw [e2, e3]; exact h.out_wire⟩
  | ackFrame i =>
    obtain ⟨f, hw, hf⟩ := ok
    simp only [step, hw]
    split
    · rename_i s' hd
      refine ⟨SInv_delivery h.sinv .acked hf s' hd, ?_, ?_, ?_⟩
      · rw [(onDataDelivery_frame hd).1]; exact h.hi_le
      · intro f' hfm; exact frameOK_congr rfl rfl (h.wire_ok f' hfm)
      · intro x hx; exact h.out_wire x (List.mem_of_mem_erase hx)
    · exact h
  | loseFrame i =>
    obtain ⟨f, hw, hf⟩ := ok
    simp only [step, hw]
    split
    · rename_i s' hd
      refine ⟨SInv_delivery h.sinv .lost hf s' hd, ?_, ?_, ?_⟩
      · rw [(onDataDelivery_frame hd).1]; exact h.hi_le
      · intro f' hfm; exact frameOK_congr rfl rfl (h.wire_ok f' hfm)
      · intro x hx; exact h.out_wire x (List.mem_of_mem_erase hx)
    · exact h
  | ackReset =>
    simp only [step]
    refine ⟨SInv_resetDelivery h.sinv .acked ok, h.hi_le, ?_, h.out_wire⟩
    intro f hfm; exact frameOK_congr rfl rfl (h.wire_ok f hfm)
  | loseReset =>
    simp only [step]
    refine ⟨SInv_resetDelivery h.sinv .lost ok, h.hi_le, ?_, h.out_wire⟩
    intro f hfm; exact frameOK_congr rfl rfl (h.wire_ok f hfm)

/-! ## Receiver side: link to the run semantics of C10 -/

/-- `_handle_stream_frame` (current code) hands out the receiver's event
    unchanged while the receiver was not finished; on a finished receiver it keeps
    the data but never an end marker -/
theorem handleStreamFrame_ok {r r' : Recv} {f : Frame} {ev : Option DataEv}
    (h : handleStreamFrame false false r f = .ok (r', ev)) :
    ∃ ev0, handleFrame r f = .ok (r', ev0) ∧ evData ev = evData ev0 ∧
      (r.finished = false → ev = ev0) ∧ (r.finished = true → evEnd ev = false) := by
  unfold handleStreamFrame at h
  cases hf : handleFrame r f with
  | error e =>
    rw [hf] at h
    cases e <;> simp at h
  | ok p =>
    obtain ⟨r1, ev0⟩ := p
    rw [hf] at h
    cases ev0 with
    | none =>
      simp only [] at h
      injection h with h; injection h with h1 h2; subst h1; subst h2
      exact ⟨none, rfl, rfl, fun _ => rfl, fun _ => rfl⟩
    | some e =>
      simp only [Bool.false_eq_true, if_false] at h
      cases hfin : r.finished with
      | false =>
        simp only [hfin, Bool.false_eq_true, if_false] at h
        injection h with h; injection h with h1 h2; subst h1; subst h2
        exact ⟨some e, rfl, rfl, fun _ => rfl, fun hx => by cases hx⟩
      | true =>
        simp only [hfin, if_true] at h
        split at h
        · injection h with h; injection h with h1 h2; subst h1; subst h2
          exact ⟨some e, rfl, rfl, (fun hx => by cases hx), fun _ => rfl⟩
        · rename_i hc
          injection h with h; injection h with h1 h2; subst h1; subst h2
          have hd : e.data = [] := by simpa using hc
          exact ⟨some e, rfl, by simp [evData, hd], (fun hx => by cases hx), fun _ => rfl⟩

theorem handleStreamFrame_err {q1 q2 : Bool} {r : Recv} {f : Frame} {e : Err}
    (h : handleStreamFrame q1 q2 r f = .error e) : ∃ e0, handleFrame r f = .error e0 := by
  unfold handleStreamFrame at h
  cases hf : handleFrame r f with
  | error e0 => exact ⟨e0, rfl⟩
  | ok p =>
    obtain ⟨r1, ev0⟩ := p
    rw [hf] at h
    cases ev0 with
    | none => simp at h
    | some e1 => simp only [] at h; (repeat' split at h) <;> cases h

theorem handleResetStreamFrame_ok {r r' : Recv} {z : Nat} (h : handleResetStreamFrame r z = .ok r') :
    handleReset r z = .ok r' := by
  unfold handleResetStreamFrame at h
  cases hf : handleReset r z with
  | error e => rw [hf] at h; cases e <;> simp at h
  | ok r1 => rw [hf] at h; simp only [] at h; injection h with h; rw [h]

theorem handleResetStreamFrame_err {r : Recv} {z : Nat} {e : Err} (h : handleResetStreamFrame r z = .error e) :
    ∃ e0, handleReset r z = .error e0 := by
  unfold handleResetStreamFrame at h
  cases hf : handleReset r z with
  | error e0 => exact ⟨e0, rfl⟩
  | ok r1 => rw [hf] at h; simp at h

theorem implRun_snoc (s : Recv) (ops : List ROp) (op : ROp) :
    implRun s (ops ++ [op]) =
      ((implStep (implRun s ops).1 op).1, (implRun s ops).2 ++ [(implStep (implRun s ops).1 op).2]) := by
  rw [implRun_append]; rfl

/-- the wire only grows -/
theorem step_wire_mono (s : Sys) (op : Op) :
    (∃ l, (step s op).1.wire = s.wire ++ l) ∧ (∃ l, (step s op).1.resetWire = s.resetWire ++ l) := by
  cases op <;> simp only [step] <;> (repeat' split) <;>
    first
    | exact ⟨⟨[], (List.append_nil _).symm⟩, ⟨[], (List.append_nil _).symm⟩⟩
    | exact ⟨⟨_, rfl⟩, ⟨[], (List.append_nil _).symm⟩⟩
    | exact ⟨⟨[], (List.append_nil _).symm⟩, ⟨_, rfl⟩⟩

structure RecvInv (s : Sys) : Prop where
  recv_eq : s.recv = (implRun {} s.recvOps).1
  bytes_eq : s.deliveredBytes = ((implRun {} s.recvOps).2.map ROut.data).flatten
  ops_wire : ∀ f, ROp.frame f ∈ s.recvOps → ∃ g ∈ s.wire, f = OutFrame.toFrame g
  ops_rwire : ∀ z, ROp.reset z ∈ s.recvOps → z ∈ s.resetWire

theorem recvInv_init (sid : Nat) : RecvInv (init sid) :=
  ⟨rfl, rfl, by simp [init], by simp [init]⟩

/-- every way `deliver i` can go -/
theorem step_deliver (s : Sys) (i : Nat) :
    (step s (.deliver i)).1 = s ∨
    (∃ f e, s.wire[i]? = some f ∧ s.connError = none ∧ s.recvGone = false ∧
      handleStreamFrame s.quirkDupFin s.quirkEndAfterReset s.recv (OutFrame.toFrame f) = .error e ∧
      (step s (.deliver i)).1 = { s with connError := some e }) ∨
    (∃ f r' ev, s.wire[i]? = some f ∧ s.connError = none ∧ s.recvGone = false ∧
      handleStreamFrame s.quirkDupFin s.quirkEndAfterReset s.recv (OutFrame.toFrame f) = .ok (r', ev) ∧
      (step s (.deliver i)).1 =
        { s with recv := r', recvOps := s.recvOps ++ [.frame (OutFrame.toFrame f)],
                 deliveredBytes := s.deliveredBytes ++ evData ev,
                 endEvents := s.endEvents + evCount ev }) := by
  simp only [step]
  cases hw : s.wire[i]? with
  | none => exact Or.inl rfl
  | some f =>
    simp only []
    cases hc : s.connError with
    | some e => simp
    | none =>
      simp only [Option.isSome_none, Bool.false_eq_true, if_false]
      cases hg : s.recvGone with
      | true => simp
      | false =>
        simp only [Bool.false_eq_true, if_false]
        cases hh : handleStreamFrame s.quirkDupFin s.quirkEndAfterReset s.recv (OutFrame.toFrame f) with
        | error e => exact Or.inr (Or.inl ⟨f, e, rfl, trivial, trivial, hh, rfl⟩)
        | ok p =>
          obtain ⟨r', ev⟩ := p
          exact Or.inr (Or.inr ⟨f, r', ev, rfl, trivial, trivial, hh, rfl⟩)

/-- every way `deliverReset j` can go -/
theorem step_deliverReset (s : Sys) (j : Nat) :
    (step s (.deliverReset j)).1 = s ∨
    (∃ z e, s.resetWire[j]? = some z ∧ s.connError = none ∧ s.recvGone = false ∧
      handleResetStreamFrame s.recv z = .error e ∧
      (step s (.deliverReset j)).1 = { s with connError := some e }) ∨
    (∃ z r', s.resetWire[j]? = some z ∧ s.connError = none ∧ s.recvGone = false ∧
      handleResetStreamFrame s.recv z = .ok r' ∧
      (step s (.deliverReset j)).1 =
        { s with recv := r', recvOps := s.recvOps ++ [.reset z], resetEvents := s.resetEvents + 1 }) := by
  simp only [step]
  cases hw : s.resetWire[j]? with
  | none => exact Or.inl rfl
  | some z =>
    simp only []
    cases hc : s.connError with
    | some e => simp
    | none =>
      simp only [Option.isSome_none, Bool.false_eq_true, if_false]
      cases hg : s.recvGone with
      | true => simp
      | false =>
        simp only [Bool.false_eq_true, if_false]
        cases hh : handleResetStreamFrame s.recv z with
        | error e => exact Or.inr (Or.inl ⟨z, e, rfl, trivial, trivial, hh, rfl⟩)
        | ok r' => exact Or.inr (Or.inr ⟨z, r', rfl, trivial, trivial, hh, rfl⟩)

/-- the sender-side steps (and `discardRecv`) do not touch the receiver's data state -/
theorem step_send_side (s : Sys) (op : Op) (h1 : ∀ i, op ≠ .deliver i) (h2 : ∀ j, op ≠ .deliverReset j) :
    (step s op).1.recv = s.recv ∧ (step s op).1.recvOps = s.recvOps ∧
    (step s op).1.deliveredBytes = s.deliveredBytes ∧ (step s op).1.endEvents = s.endEvents ∧
    (step s op).1.connError = s.connError ∧ (step s op).1.resetEvents = s.resetEvents := by
  cases op with
  | deliver i => exact absurd rfl (h1 i)
  | deliverReset j => exact absurd rfl (h2 j)
  | _ => simp only [step] <;> (repeat' split) <;> simp

theorem recvInv_step {s : Sys} (h : RecvInv s) (hq1 : s.quirkDupFin = false) (hq3 : s.quirkEndAfterReset = false)
    (op : Op) : RecvInv (step s op).1 := by
  obtain ⟨⟨l1, hw1⟩, ⟨l2, hw2⟩⟩ := step_wire_mono s op
  have grow1 : ∀ f, (∃ g ∈ s.wire, f = OutFrame.toFrame g) → ∃ g ∈ (step s op).1.wire, f = OutFrame.toFrame g := by
    rintro f ⟨g, hg, e⟩; exact ⟨g, by rw [hw1]; simp [hg], e⟩
  have grow2 : ∀ z, z ∈ s.resetWire → z ∈ (step s op).1.resetWire := by
    intro z hz; rw [hw2]; simp [hz]
  by_cases hd : ∃ i, op = .deliver i
  · obtain ⟨i, rfl⟩ := hd
    rcases step_deliver s i with e | ⟨f, e', _, _, _, _, e⟩ | ⟨f, r', ev, hwi, _, _, hh, e⟩
    · rw [e]; exact h
    · rw [e]; exact ⟨h.recv_eq, h.bytes_eq, h.ops_wire, h.ops_rwire⟩
    · rw [e]
      rw [hq1, hq3] at hh
      obtain ⟨ev0, hf, hdat, -⟩ := handleStreamFrame_ok hh
      have hstep : implStep (implRun {} s.recvOps).1 (.frame (OutFrame.toFrame f)) = (r', .ev ev0) := by
        rw [← h.recv_eq]; simp only [implStep, hf]
      refine ⟨?_, ?_, ?_, ?_⟩
      · simp only [implRun_snoc, hstep]
      · simp only [implRun_snoc, hstep, List.map_append, List.flatten_append, List.map_cons, List.map_nil,
          List.flatten_cons, List.flatten_nil, List.append_nil, ROut.data]
        rw [← h.bytes_eq, hdat]
      · intro x hx
        simp only [List.mem_append, List.mem_singleton] at hx
        rcases hx with hx | hx
        · exact h.ops_wire x hx
        · injection hx with hx; subst hx
          exact ⟨f, List.mem_of_getElem? hwi, rfl⟩
      · intro z hz
        simp only [List.mem_append, List.mem_singleton] at hz
        rcases hz with hz | hz
        · exact h.ops_rwire z hz
        · cases hz
  · by_cases hr : ∃ j, op = .deliverReset j
    · obtain ⟨j, rfl⟩ := hr
      rcases step_deliverReset s j with e | ⟨z, e', _, _, _, _, e⟩ | ⟨z, r', hwj, _, _, hh, e⟩
      · rw [e]; exact h
      · rw [e]; exact ⟨h.recv_eq, h.bytes_eq, h.ops_wire, h.ops_rwire⟩
      · rw [e]
        have hf := handleResetStreamFrame_ok hh
        have hstep : implStep (implRun {} s.recvOps).1 (.reset z) = (r', .reset) := by
          rw [← h.recv_eq]; simp only [implStep, hf]
        refine ⟨?_, ?_, ?_, ?_⟩
        · simp only [implRun_snoc, hstep]
        · simp only [implRun_snoc, hstep, List.map_append, List.flatten_append, List.map_cons, List.map_nil,
            List.flatten_cons, List.flatten_nil, List.append_nil, ROut.data]
          exact h.bytes_eq
        · intro x hx
          simp only [List.mem_append, List.mem_singleton] at hx
          rcases hx with hx | hx
          · exact h.ops_wire x hx
          · cases hx
        · intro y hy
          simp only [List.mem_append, List.mem_singleton] at hy
          rcases hy with hy | hy
          · exact h.ops_rwire y hy
          · injection hy with hy; subst hy
            exact List.mem_of_getElem? hwj
    · obtain ⟨e1, e2, e3, -, -, -⟩ := step_send_side s op (fun i hx => hd ⟨i, hx⟩) (fun j hx => hr ⟨j, hx⟩)
      refine ⟨by rw [e1, e2]; exact h.recv_eq, by rw [e3, e2]; exact h.bytes_eq, ?_, ?_⟩
      · intro f hf; rw [e2] at hf; exact grow1 f (h.ops_wire f hf)
      · intro z hz; rw [e2] at hz; exact grow2 z (h.ops_rwire z hz)

/-! ## `highest_offset`, the RESET final size and the FIN: frames of one honest sender agree -/

structure HiInv (s : Sys) : Prop where
  /-- no frame on the wire ends beyond the sender's highest offset -/
  wire_hi : ∀ f ∈ s.wire, f.offset + f.data.length ≤ s.send.highest
  /-- once a FIN frame is on the wire everything written was sent at least once -/
  fin_hi : ∀ f ∈ s.wire, f.fin = true → s.send.highest = s.ghost.written.length
  /-- bytes never sent are pending -/
  unsent : ∀ i, s.send.highest ≤ i → i < s.ghost.written.length → mem i s.send.pending
  /-- every RESET_STREAM frame carries the (frozen) highest offset as final size -/
  rwire : ∀ z ∈ s.resetWire, z = s.send.highest ∧ s.ghost.reset = true

theorem hiInv_init (sid : Nat) : HiInv (init sid) := by
  refine ⟨by simp [init], by simp [init], ?_, by simp [init]⟩
  intro i _ hi; simp [init] at hi

/-- `get_frame` and the highest offset -/
theorem getFrame_hi {s : Send} {g : Ghost} (h : SInv s g) (hle : s.highest ≤ g.written.length)
    (hun : ∀ i, s.highest ≤ i → i < g.written.length → mem i s.pending)
    {ms : Nat} {mo : Option Nat} {s' : Send} {fr : Option OutFrame} (hg : getFrame s ms mo = .ok (s', fr)) :
    s.highest ≤ s'.highest ∧ s'.highest ≤ g.written.length ∧
    (∀ f, fr = some f → f.offset + f.data.length ≤ s'.highest ∧
        (f.fin = true → s'.highest = g.written.length)) ∧
    (∀ i, s'.highest ≤ i → i < g.written.length → mem i s'.pending) := by
  cases hr : g.reset with
  | true => rw [getFrame_reset s ms mo (by rw [h.code_iff]; exact hr)] at hg; cases hg
  | false =>
    rcases getFrame_cases h hr ms mo with ⟨_, _, e⟩ | ⟨hp, _, e⟩ | ⟨r, rest, _, _, e⟩ | ⟨r, rest, hp, hb, e⟩
    · rw [e] at hg; injection hg with hg; injection hg with h1 h2; subst h1; subst h2
      exact ⟨Nat.le_refl _, hle, (by intro f hf; cases hf), hun⟩
    · rw [e] at hg; injection hg with hg; injection hg with h1 h2; subst h1; subst h2
      have hge : g.written.length ≤ s.highest := by
        by_cases hx : g.written.length ≤ s.highest
        · exact hx
        · have := hun s.highest (Nat.le_refl _) (by omega)
          rw [hp] at this; simp at this
      refine ⟨Nat.le_refl _, hle, ?_, hun⟩
      intro f hf; injection hf with hf; subst hf
      simp only [List.length_nil, Nat.add_zero]
      exact ⟨hge, fun _ => by show s.highest = _; omega⟩
    · rw [e] at hg; injection hg with hg; injection hg with h1 h2; subst h1; subst h2
      exact ⟨Nat.le_refl _, hle, (by intro f hf; cases hf), hun⟩
    · rw [e] at hg; injection hg with hg; injection hg with h1 h2; subst h1; subst h2
      have hc := capStop_le r ms mo
      have hl := (h.slice_eq hr hp _ (Nat.le_of_lt hb) hc.1).2
      have hh := h.head_facts hr hp
      have hhi : (afterData s r.start (capStop r ms mo)).highest =
          if capStop r ms mo > s.highest then capStop r ms mo else s.highest := rfl
      refine ⟨?_, ?_, ?_, ?_⟩
      · rw [hhi]; split <;> omega
      · rw [hhi]; split <;> omega
      · intro f hf; injection hf with hf; subst hf
        simp only [hl]
        refine ⟨by rw [hhi]; split <;> omega, ?_⟩
        intro hfin
        simp only [decide_eq_true_eq] at hfin
        have hfe := h.fin_eq
        rw [hfin] at hfe
        have : capStop r ms mo = g.written.length := by
          cases hy : g.finWritten
          · simp [hy] at hfe
          · simp [hy] at hfe; exact hfe
        rw [hhi]; split <;> omega
      · intro i hi1 hi2
        rw [hhi] at hi1
        have hi3 : s.highest ≤ i ∧ capStop r ms mo ≤ i := by split at hi1 <;> omega
        show mem i (subtract r.start (capStop r ms mo) s.pending)
        rw [subtract_mem _ _ _ h.wfP]
        exact ⟨hun i hi3.1 hi2, by omega⟩

theorem onDataDelivery_pending_mono {s s' : Send} {d : Delivery} {a b : Nat} {fin : Bool}
    (hwf : RangeSet.WF s.pending) (hd : onDataDelivery s d a b fin = .ok s') (i : Nat) (hi : mem i s.pending) :
    mem i s'.pending := by
  by_cases ne : fin = true ∧ some b ≠ s.bufFin
  · rw [onDataDelivery_err s d a b fin ne] at hd; cases hd
  · cases hr : s.resetCode.isSome with
    | true => rw [onDataDelivery_reset s d a b fin ne hr] at hd; cases hd; exact hi
    | false =>
      cases d with
      | lost =>
        rw [onDataDelivery_lost s a b fin ne hr] at hd; cases hd
        simp only [afterLost]
        split
        · rename_i hab; exact (add_mem a b hab _ hwf i).2 (Or.inl hi)
        · exact hi
      | acked =>
        rw [onDataDelivery_acked s a b fin ne hr] at hd; cases hd
        obtain ⟨ack, bs, buf, e⟩ := ackRanges_frame s a b
        simp only [afterAcked, ackFinish, e]; exact hi

theorem hiInv_of_eq {s t : Sys} (h : HiInv s) (e1 : t.send = s.send) (e2 : t.ghost = s.ghost)
    (e3 : t.wire = s.wire) (e4 : t.resetWire = s.resetWire) : HiInv t :=
  ⟨by rw [e1, e3]; exact h.wire_hi, by rw [e1, e2, e3]; exact h.fin_hi, by rw [e1, e2]; exact h.unsent,
   by rw [e1, e2, e4]; exact h.rwire⟩

theorem hiInv_step {s : Sys} (hs : SendInv s) (h : HiInv s) (hq : s.quirkNoRoomGuard = false) (op : Op)
    (ok : okOp s op) : HiInv (step s op).1 := by
  cases op with
  | appWrite data fin =>
    cases hgn : s.sendGone with
    | true => rw [(step_gone hgn).1]; exact h
    | false =>
    simp only [step, hgn, Bool.false_eq_true, if_false]
    split
    · rename_i s' hw
      obtain ⟨hf, hc, rfl⟩ := write_frame hw
      have hnf : s.ghost.finWritten = false := by
        have := hs.sinv.fin_eq
        cases hx : s.ghost.finWritten
        · rfl
        · rw [hx] at this; simp [this] at hf
      have hnr : s.ghost.reset = false := by rw [← hs.sinv.code_iff]; exact hc
      refine ⟨h.wire_hi, ?_, ?_, ?_⟩
      · intro f hfm hfin
        have := ((hs.wire_ok f hfm).2.2 hfin).1
        rw [hnf] at this; cases this
      · intro i hi1 hi2
        simp only [Ghost.onWrite, List.length_append] at hi2
        simp only [afterWrite] at hi1 ⊢
        have hst := hs.sinv.stop_eq
        by_cases hx : i < s.ghost.written.length
        · have := h.unsent i hi1 hx
          split
          · rename_i hn; exact (add_mem _ _ (by omega) _ hs.sinv.wfP i).2 (Or.inl this)
          · exact this
        · have hn : data.length ≠ 0 := by omega
          rw [if_pos hn]
          exact (add_mem _ _ (by omega) _ hs.sinv.wfP i).2 (Or.inr (by omega))
      · intro z hz
        have := (h.rwire z hz).2
        rw [hnr] at this; cases this
    · exact h
  | appReset code =>
    cases hgn : s.sendGone with
    | true => rw [(step_gone hgn).2]; exact h
    | false =>
    simp only [step, hgn, Bool.false_eq_true, if_false]
    have e : (reset s.send code).highest = s.send.highest ∧ (reset s.send code).pending = s.send.pending := by
      simp only [reset]; split <;> exact ⟨rfl, rfl⟩
    refine ⟨by rw [e.1]; exact h.wire_hi, by rw [e.1]; exact h.fin_hi, by rw [e.1, e.2]; exact h.unsent, ?_⟩
    intro z hz; rw [e.1]; exact ⟨(h.rwire z hz).1, rfl⟩
  | emit space mo =>
    rcases step_emit s hq space mo with e | ⟨ms, s', fr, hgf, -, hbe, e⟩
    · rw [e]; exact h
    · rw [e]
      have hw : (s.ghost.onGet fr).written = s.ghost.written := by cases fr <;> rfl
      have hrs : (s.ghost.onGet fr).reset = s.ghost.reset := by cases fr <;> rfl
      obtain ⟨g1, g2, g3, g4⟩ := getFrame_hi hs.sinv hs.hi_le h.unsent hgf
      refine ⟨?_, ?_, ?_, ?_⟩
      · intro f hfm
        simp only [List.mem_append] at hfm
        rcases hfm with hfm | hfm
        · have := h.wire_hi f hfm; show _ ≤ s'.highest; omega
        · cases fr with
          | none => simp at hfm
          | some f' =>
            simp only [Option.toList, List.mem_singleton] at hfm; subst hfm
            exact (g3 f rfl).1
      · intro f hfm hfin
        show s'.highest = (s.ghost.onGet fr).written.length
        rw [hw]
        simp only [List.mem_append] at hfm
        rcases hfm with hfm | hfm
        · have := h.fin_hi f hfm hfin; omega
        · cases fr with
          | none => simp at hfm
          | some f' =>
            simp only [Option.toList, List.mem_singleton] at hfm; subst hfm
            exact (g3 f rfl).2 hfin
      · intro i hi1 hi2
        rw [hw] at hi2
        exact g4 i hi1 hi2
      · intro z hz
        have hr := (h.rwire z hz).2
        have := hs.sinv.reset_empty hr
        rw [hbe] at this; cases this
  | emitReset =>
    simp only [step]
    split
    · rename_i hrp
      refine ⟨h.wire_hi, h.fin_hi, h.unsent, ?_⟩
      intro z hz
      simp only [List.mem_append, List.mem_singleton] at hz
      rcases hz with hz | hz
      · exact h.rwire z hz
      · subst hz; exact ⟨rfl, hs.sinv.rpend hrp⟩
    · exact h
  | deliver i =>
    obtain ⟨e1, e2, e3, e4⟩ := step_recv_side s (.deliver i) (Or.inl ⟨i, rfl⟩)
    exact hiInv_of_eq h e1 e2 e3 e4
  | deliverReset j =>
    obtain ⟨e1, e2, e3, e4⟩ := step_recv_side s (.deliverReset j) (Or.inr (Or.inl ⟨j, rfl⟩))
    exact hiInv_of_eq h e1 e2 e3 e4
  | discardRecv =>
    obtain ⟨e1, e2, e3, e4⟩ := step_recv_side s .discardRecv (Or.inr (Or.inr (Or.inl rfl)))
    exact hiInv_of_eq h e1 e2 e3 e4
  | discardSend =>
    obtain ⟨e1, e2, e3, e4⟩ := step_recv_side s .discardSend (Or.inr (Or.inr (Or.inr rfl)))
    exact hiInv_of_eq h e1 e2 e3 e4
  | ackFrame i =>
    obtain ⟨f, hw, hf⟩ := ok
    simp only [step, hw]
    split
    · rename_i s' hd
      have e := (onDataDelivery_frame hd).1
      refine ⟨by rw [e]; exact h.wire_hi, by rw [e]; exact h.fin_hi, ?_, by rw [e]; exact h.rwire⟩
      intro i hi1 hi2
      rw [e] at hi1
      exact onDataDelivery_pending_mono hs.sinv.wfP hd i (h.unsent i hi1 hi2)
    · exact h
  | loseFrame i =>
    obtain ⟨f, hw, hf⟩ := ok
    simp only [step, hw]
    split
    · rename_i s' hd
      have e := (onDataDelivery_frame hd).1
      refine ⟨by rw [e]; exact h.wire_hi, by rw [e]; exact h.fin_hi, ?_, by rw [e]; exact h.rwire⟩
      intro i hi1 hi2
      rw [e] at hi1
      exact onDataDelivery_pending_mono hs.sinv.wfP hd i (h.unsent i hi1 hi2)
    · exact h
  | ackReset =>
    simp only [step]
    exact ⟨h.wire_hi, h.fin_hi, h.unsent, h.rwire⟩
  | loseReset =>
    simp only [step]
    exact ⟨h.wire_hi, h.fin_hi, h.unsent, h.rwire⟩

/-! ## Field-level facts about `handle_frame` / `handle_reset` -/

theorem pullData_fields (u : Recv) :
    (pullData u).1.finalSize = u.finalSize ∧ (pullData u).1.highest = u.highest ∧
    (pullData u).1.finished = u.finished := by
  unfold pullData
  split
  · exact ⟨rfl, rfl, rfl⟩
  · split <;> exact ⟨rfl, rfl, rfl⟩

theorem bookkeep_finished (s : Recv) (f : Frame) : (bookkeep s f).finished = s.finished := by
  simp only [bookkeep]; split <;> split <;> rfl

theorem handleFrame_facts {r r' : Recv} {f : Frame} {ev : Option DataEv}
    (h : handleFrame r f = .ok (r', ev)) :
    r'.finalSize = (if f.fin then some f.stop else r.finalSize) ∧
    r'.highest = max r.highest f.stop ∧
    (r.finished = true → r'.finished = true) ∧
    (evEnd ev = true → r'.finished = true ∧ some r'.bufStart = r'.finalSize) := by
  rw [handleFrame_eq] at h
  split at h
  · cases h
  · split at h
    · rename_i hc
      injection h with h; injection h with h1 h2; subst h1; subst h2
      simp only [bookkeep_bufStart] at hc
      have e1 : (fastPath (bookkeep r f) f).1.finalSize = (bookkeep r f).finalSize := by
        simp only [fastPath]; split <;> rfl
      have e2 : (fastPath (bookkeep r f) f).1.highest = (bookkeep r f).highest := by
        simp only [fastPath]; split <;> rfl
      refine ⟨e1.trans (bookkeep_finalSize r f), e2.trans (bookkeep_highest r f), ?_, ?_⟩
      · intro hfin
        split
        · rfl
        · simp only [bookkeep_finished]; exact hfin
      · intro he
        have hfin : f.fin = true := by simpa [fastPath, evEnd] using he
        refine ⟨by simp [hfin], ?_⟩
        have e3 : (fastPath (bookkeep r f) f).1.bufStart = r.bufStart + f.data.length := by
          simp only [fastPath]; split <;> simp
        have e4 := e1.trans (bookkeep_finalSize r f)
        rw [if_pos hfin] at e4
        show some (fastPath (bookkeep r f) f).1.bufStart = (fastPath (bookkeep r f) f).1.finalSize
        rw [e3, e4, Frame.stop, hc.1]
    · injection h with h; injection h with h1 h2; subst h1; subst h2
      obtain ⟨p1, p2, p3⟩ := pullData_fields (slowPre (bookkeep r f) f)
      have q1 : (slowPre (bookkeep r f) f).finalSize = (bookkeep r f).finalSize := rfl
      have q2 : (slowPre (bookkeep r f) f).highest = (bookkeep r f).highest := rfl
      have q3 : (slowPre (bookkeep r f) f).finished = (bookkeep r f).finished := rfl
      have e1 : (finish (pullData (slowPre (bookkeep r f) f))).1.finalSize = (bookkeep r f).finalSize := by
        simp only [finish]; split <;> simp only [p1, q1]
      have e2 : (finish (pullData (slowPre (bookkeep r f) f))).1.highest = (bookkeep r f).highest := by
        simp only [finish]; split <;> simp only [p2, q2]
      refine ⟨e1.trans (bookkeep_finalSize r f), e2.trans (bookkeep_highest r f), ?_, ?_⟩
      · intro hfin
        split
        · rfl
        · simp only [p3, q3, bookkeep_finished]; exact hfin
      · intro he
        simp only [evEnd_mkEvent, decide_eq_true_eq] at he
        simp [he]

theorem handleReset_facts {r r' : Recv} {z : Nat} (h : handleReset r z = .ok r') :
    r'.finalSize = some z ∧ r'.highest = max r.highest z ∧ r'.finished = true ∧
    r'.bufStart = r.bufStart := by
  unfold handleReset at h
  split at h
  · split at h
    · cases h
    · cases h; exact ⟨rfl, rfl, rfl, rfl⟩
  · cases h; exact ⟨rfl, rfl, rfl, rfl⟩

theorem handleFrame_bufStart_mono {r r' : Recv} {f : Frame} {ev : Option DataEv} (hi : Inv r)
    (h : handleFrame r f = .ok (r', ev)) : Inv r' ∧ r.bufStart ≤ r'.bufStart := by
  have hr := handleFrame_refines f hi
  unfold FrameRefines at hr
  rw [h] at hr
  split at hr
  · rename_i heq _; cases heq
  · rename_i s'' ev'' t' ev' heq hs
    cases heq
    obtain ⟨h1, h2, -⟩ := hr
    refine ⟨h1, ?_⟩
    rw [specFrame_eq] at hs
    split at hs
    · cases hs
    · simp only [Option.some.injEq, Prod.mk.injEq] at hs
      obtain ⟨rfl, -⟩ := hs
      have := congrArg RSpec.delivered h2
      simp only [abs] at this
      omega
  · exact hr.elim

/-- what the sender-side steps (everything but `deliver` / `deliverReset`) do to
    the quantities the receiver-side invariant mentions -/
theorem step_sender_facts {s : Sys} (hs : SendInv s) (hh : HiInv s) (hq : s.quirkNoRoomGuard = false) (op : Op)
    (ok : okOp s op) :
    s.send.highest ≤ (step s op).1.send.highest ∧
    (((∃ g ∈ s.wire, g.fin = true) ∨ s.ghost.reset = true) →
        (step s op).1.send.highest = s.send.highest) ∧
    (s.ghost.reset = true → (step s op).1.ghost.reset = true) ∧
    (s.ghost.finWritten = true →
        (step s op).1.ghost.finWritten = true ∧ (step s op).1.ghost.written = s.ghost.written) := by
  cases op with
  | appWrite data fin =>
    cases hgn : s.sendGone with
    | true => rw [(step_gone hgn).1]; exact ⟨Nat.le_refl _, fun _ => rfl, fun h => h, fun h => ⟨h, rfl⟩⟩
    | false =>
    simp only [step, hgn, Bool.false_eq_true, if_false]
    split
    · rename_i s' hw
      obtain ⟨hf, hc, rfl⟩ := write_frame hw
      have hnf : s.ghost.finWritten = false := by
        have := hs.sinv.fin_eq
        cases hx : s.ghost.finWritten
        · rfl
        · rw [hx] at this; simp [this] at hf
      refine ⟨Nat.le_refl _, fun _ => rfl, fun h => h, ?_⟩
      intro h; rw [hnf] at h; cases h
    · refine ⟨Nat.le_refl _, ?_, fun h => h, ?_⟩ <;> simp
  | appReset code =>
    cases hgn : s.sendGone with
    | true => rw [(step_gone hgn).2]; exact ⟨Nat.le_refl _, fun _ => rfl, fun h => h, fun h => ⟨h, rfl⟩⟩
    | false =>
    simp only [step, hgn, Bool.false_eq_true, if_false]
    have e : (reset s.send code).highest = s.send.highest := by simp only [reset]; split <;> rfl
    refine ⟨by rw [e]; exact Nat.le_refl _, fun _ => e, ?_, ?_⟩ <;> simp
  | emit space mo =>
    rcases step_emit s hq space mo with e | ⟨ms, s', fr, hgf, -, hbe, e⟩
    · rw [e]; exact ⟨Nat.le_refl _, fun _ => rfl, fun h => h, fun h => ⟨h, rfl⟩⟩
    · rw [e]
      obtain ⟨g1, g2, -, -⟩ := getFrame_hi hs.sinv hs.hi_le hh.unsent hgf
      have hw : (s.ghost.onGet fr).written = s.ghost.written := by cases fr <;> rfl
      have hf : (s.ghost.onGet fr).finWritten = s.ghost.finWritten := by cases fr <;> rfl
      have hrs : (s.ghost.onGet fr).reset = s.ghost.reset := by cases fr <;> rfl
      refine ⟨g1, ?_, fun h => by rw [hrs]; exact h, fun h => ⟨by rw [hf]; exact h, hw⟩⟩
      rintro (⟨g, hg, hfin⟩ | hr)
      · have := hh.fin_hi g hg hfin; show s'.highest = _; omega
      · have := hs.sinv.reset_empty hr; rw [hbe] at this; cases this
  | emitReset =>
    simp only [step]
    split <;> exact ⟨Nat.le_refl _, fun _ => rfl, fun h => h, fun h => ⟨h, rfl⟩⟩
  | deliver i =>
    obtain ⟨e1, e2, -, -⟩ := step_recv_side s (.deliver i) (Or.inl ⟨i, rfl⟩)
    rw [e1, e2]; exact ⟨Nat.le_refl _, fun _ => rfl, fun h => h, fun h => ⟨h, rfl⟩⟩
  | deliverReset j =>
    obtain ⟨e1, e2, -, -⟩ := step_recv_side s (.deliverReset j) (Or.inr (Or.inl ⟨j, rfl⟩))
    rw [e1, e2]; exact ⟨Nat.le_refl _, fun _ => rfl, fun h => h, fun h => ⟨h, rfl⟩⟩
  | discardRecv =>
    obtain ⟨e1, e2, -, -⟩ := step_recv_side s .discardRecv (Or.inr (Or.inr (Or.inl rfl)))
    rw [e1, e2]; exact ⟨Nat.le_refl _, fun _ => rfl, fun h => h, fun h => ⟨h, rfl⟩⟩
  | discardSend =>
    obtain ⟨e1, e2, -, -⟩ := step_recv_side s .discardSend (Or.inr (Or.inr (Or.inr rfl)))
    rw [e1, e2]; exact ⟨Nat.le_refl _, fun _ => rfl, fun h => h, fun h => ⟨h, rfl⟩⟩
  | ackFrame i =>
    obtain ⟨f, hw, hf⟩ := ok
    simp only [step, hw]
    split
    · rename_i s' hd
      have e := (onDataDelivery_frame hd).1
      exact ⟨by rw [e]; exact Nat.le_refl _, fun _ => e, fun h => h, fun h => ⟨h, rfl⟩⟩
    · exact ⟨Nat.le_refl _, fun _ => rfl, fun h => h, fun h => ⟨h, rfl⟩⟩
  | loseFrame i =>
    obtain ⟨f, hw, hf⟩ := ok
    simp only [step, hw]
    split
    · rename_i s' hd
      have e := (onDataDelivery_frame hd).1
      exact ⟨by rw [e]; exact Nat.le_refl _, fun _ => e, fun h => h, fun h => ⟨h, rfl⟩⟩
    · exact ⟨Nat.le_refl _, fun _ => rfl, fun h => h, fun h => ⟨h, rfl⟩⟩
  | ackReset =>
    simp only [step]; exact ⟨Nat.le_refl _, fun _ => rfl, fun h => h, fun h => ⟨h, rfl⟩⟩
  | loseReset =>
    simp only [step]; exact ⟨Nat.le_refl _, fun _ => rfl, fun h => h, fun h => ⟨h, rfl⟩⟩

/-! ## Reachable states -/

/-- the invariant of reachable states of the CURRENT code (both quirk flags off) -/
structure Reach (s : Sys) : Prop where
  q1 : s.quirkDupFin = false
  q2 : s.quirkNoRoomGuard = false
  q3 : s.quirkEndAfterReset = false
  snd : SendInv s
  hi : HiInv s
  rcv : RecvInv s

theorem reach_init (sid : Nat) : Reach (init sid) :=
  ⟨rfl, rfl, rfl, sendInv_init sid, hiInv_init sid, recvInv_init sid⟩

theorem reach_step {s : Sys} (h : Reach s) (op : Op) (ok : okOp s op) : Reach (step s op).1 :=
  ⟨by rw [(step_consts s op).1]; exact h.q1, by rw [(step_consts s op).2.1]; exact h.q2,
   by rw [(step_consts s op).2.2.2]; exact h.q3,
   sendInv_step h.snd h.q2 op ok, hiInv_step h.snd h.hi h.q2 op ok, recvInv_step h.rcv h.q1 h.q3 op⟩

theorem run_nil (s : Sys) : run s [] = s := rfl
theorem run_cons (s : Sys) (op : Op) (ops : List Op) : run s (op :: ops) = run (step s op).1 ops := rfl
theorem run_append (s : Sys) (xs ys : List Op) : run s (xs ++ ys) = run (run s xs) ys := by
  simp [run, List.foldl_append]

theorem reach_run {s : Sys} (h : Reach s) (ops : List Op) (hw : WF s ops) : Reach (run s ops) := by
  induction ops generalizing s with
  | nil => exact h
  | cons op rest ih => exact ih (reach_step h op hw.1) hw.2

theorem WF_append (s : Sys) (xs ys : List Op) : WF s (xs ++ ys) ↔ WF s xs ∧ WF (run s xs) ys := by
  induction xs generalizing s with
  | nil => simp [WF, run]
  | cons x xs ih => simp [WF, ih, and_assoc, run_cons]


/-! ## Receiver-side invariant: end marker, final size, no stream error -/

structure EndInv (s : Sys) : Prop where
  inv : Inv s.recv
  ends_le : s.endEvents ≤ 1
  ends_fin : s.endEvents = 1 →
    s.recv.finished = true ∧ s.ghost.finWritten = true ∧ s.ghost.written.length ≤ s.recv.bufStart
  /-- a final size known to a receiver that is not finished is the end of a FIN frame -/
  fsA : ∀ z, s.recv.finalSize = some z →
    (∃ g ∈ s.wire, g.fin = true ∧ g.offset + g.data.length = z) ∨ s.recv.finished = true
  /-- the receiver's final size is the sender's (frozen) highest offset -/
  fsB : ∀ z, s.recv.finalSize = some z →
    z = s.send.highest ∧ ((∃ g ∈ s.wire, g.fin = true) ∨ s.ghost.reset = true)
  rhi : s.recv.highest ≤ s.send.highest
  noerr : s.connError = none

theorem endInv_init (sid : Nat) : EndInv (init sid) := by
  refine ⟨inv_init, by simp [init], by simp [init], ?_, ?_, Nat.le_refl _, rfl⟩ <;>
    (intro z hz; simp [init] at hz)

theorem evCount_le (e : Option DataEv) : evCount e ≤ 1 := by unfold evCount; split <;> omega
theorem evCount_eq_one {e : Option DataEv} : evCount e = 1 ↔ evEnd e = true := by
  unfold evCount; split <;> simp_all

theorem toFrame_stop (f : OutFrame) : (OutFrame.toFrame f).stop = f.offset + f.data.length := rfl

/-- frames of ONE honest sender never make the receiver raise FinalSizeError -/
theorem deliver_no_error {s : Sys} (hr : Reach s) (h : EndInv s) {f : OutFrame} (hfm : f ∈ s.wire) :
    ¬ ∃ e, handleFrame s.recv (OutFrame.toFrame f) = .error e := by
  intro he
  obtain ⟨z, hz, hbad⟩ := (handleFrame_error_iff _ _).1 he
  obtain ⟨hzh, -⟩ := h.fsB z hz
  rw [toFrame_stop] at hbad
  have h1 := hr.hi.wire_hi f hfm
  rcases hbad with hbad | ⟨hfin, hne⟩
  · omega
  · have h2 := hr.hi.fin_hi f hfm hfin
    have h3 := ((hr.snd.wire_ok f hfm).2.2 hfin).2
    have : (OutFrame.toFrame f).fin = f.fin := rfl
    omega

theorem endInv_deliver {s : Sys} (hr : Reach s) (h : EndInv s) (i : Nat) :
    EndInv (step s (.deliver i)).1 := by
  rcases step_deliver s i with e | ⟨f, e', hwi, _, _, hh, e⟩ | ⟨f, r', ev, hwi, _, _, hh, e⟩
  · rw [e]; exact h
  · exact absurd (handleStreamFrame_err hh) (deliver_no_error hr h (List.mem_of_getElem? hwi))
  · rw [e]
    have hfm : f ∈ s.wire := List.mem_of_getElem? hwi
    rw [hr.q1, hr.q3] at hh
    obtain ⟨ev0, hf, -, hnf, hfin⟩ := handleStreamFrame_ok hh
    obtain ⟨k1, k2, k3, k4⟩ := handleFrame_facts hf
    obtain ⟨m1, m2⟩ := handleFrame_bufStart_mono h.inv hf
    have hfin' : (OutFrame.toFrame f).fin = f.fin := rfl
    have hok := hr.snd.wire_ok f hfm
    -- the final size after the step
    have fs' : ∀ z, r'.finalSize = some z → (f.fin = true ∧ z = f.offset + f.data.length) ∨
        (f.fin = false ∧ s.recv.finalSize = some z) := by
      intro z hz
      rw [k1, hfin'] at hz
      cases hx : f.fin with
      | true => rw [hx] at hz; simp only [if_true] at hz; injection hz with hz
                exact Or.inl ⟨rfl, by rw [← hz, toFrame_stop]⟩
      | false => rw [hx] at hz; exact Or.inr ⟨rfl, by simpa using hz⟩
    refine ⟨m1, ?_, ?_, ?_, ?_, ?_, h.noerr⟩
    · -- at most one end event
      show s.endEvents + evCount ev ≤ 1
      cases hx : s.recv.finished with
      | true =>
        have := hfin hx
        have : evCount ev = 0 := by unfold evCount; simp [this]
        have := h.ends_le; omega
      | false =>
        have h0 : s.endEvents ≠ 1 := fun h1 => by have := (h.ends_fin h1).1; rw [hx] at this; cases this
        have := h.ends_le; have := evCount_le ev; omega
    · show s.endEvents + evCount ev = 1 → _
      intro h1
      cases hx : s.recv.finished with
      | true =>
        have he := hfin hx
        have hc : evCount ev = 0 := by unfold evCount; simp [he]
        obtain ⟨a1, a2, a3⟩ := h.ends_fin (by omega)
        exact ⟨k3 a1, a2, by show s.ghost.written.length ≤ r'.bufStart; omega⟩
      | false =>
        have h0 : s.endEvents ≠ 1 := fun h1 => by have := (h.ends_fin h1).1; rw [hx] at this; cases this
        have hc : evCount ev = 1 := by have := h.ends_le; omega
        have he : evEnd ev0 = true := by rw [← hnf hx]; exact evCount_eq_one.1 hc
        obtain ⟨b1, b2⟩ := k4 he
        refine ⟨b1, ?_⟩
        show s.ghost.finWritten = true ∧ s.ghost.written.length ≤ r'.bufStart
        rcases fs' _ b2.symm with ⟨c1, c2⟩ | ⟨-, c2⟩
        · have := hok.2.2 c1; exact ⟨this.1, by omega⟩
        · rcases h.fsA _ c2 with ⟨g, hg, g1, g2⟩ | hfin2
          · have := (hr.snd.wire_ok g hg).2.2 g1; exact ⟨this.1, by omega⟩
          · rw [hx] at hfin2; cases hfin2
    · intro z hz
      show (∃ g ∈ s.wire, _) ∨ r'.finished = true
      rcases fs' z hz with ⟨c1, c2⟩ | ⟨-, c2⟩
      · exact Or.inl ⟨f, hfm, c1, c2.symm⟩
      · rcases h.fsA z c2 with hl | hrt
        · exact Or.inl hl
        · exact Or.inr (k3 hrt)
    · intro z hz
      show z = s.send.highest ∧ _
      rcases fs' z hz with ⟨c1, c2⟩ | ⟨-, c2⟩
      · have := hr.hi.fin_hi f hfm c1
        have := (hok.2.2 c1).2
        exact ⟨by omega, Or.inl ⟨f, hfm, c1⟩⟩
      · exact h.fsB z c2
    · show r'.highest ≤ s.send.highest
      rw [k2, toFrame_stop]
      have := hr.hi.wire_hi f hfm; have := h.rhi; omega

theorem endInv_deliverReset {s : Sys} (hr : Reach s) (h : EndInv s) (j : Nat) :
    EndInv (step s (.deliverReset j)).1 := by
  rcases step_deliverReset s j with e | ⟨z, e', hwj, _, _, hh, e⟩ | ⟨z, r', hwj, _, _, hh, e⟩
  · rw [e]; exact h
  · exfalso
    obtain ⟨y, hy, hne⟩ := (handleReset_error_iff _ _).1 (handleResetStreamFrame_err hh)
    have := (hr.hi.rwire z (List.mem_of_getElem? hwj)).1
    have := (h.fsB y hy).1
    omega
  · rw [e]
    have hzm : z ∈ s.resetWire := List.mem_of_getElem? hwj
    have hf := handleResetStreamFrame_ok hh
    obtain ⟨k1, k2, k3, k4⟩ := handleReset_facts hf
    have hinv : Inv r' := by
      have := handleReset_refines z h.inv
      rw [hf] at this
      split at this
      · rename_i heq _; cases heq
      · rename_i heq _; cases heq; exact this.1
      · exact this.elim
    refine ⟨hinv, h.ends_le, ?_, ?_, ?_, ?_, h.noerr⟩
    · intro h1
      obtain ⟨a1, a2, a3⟩ := h.ends_fin h1
      exact ⟨k3, a2, by show s.ghost.written.length ≤ r'.bufStart; omega⟩
    · intro y _; exact Or.inr k3
    · intro y hy
      show y = s.send.highest ∧ _
      rw [k1] at hy; injection hy with hy; subst hy
      have := hr.hi.rwire z hzm
      exact ⟨this.1, Or.inr this.2⟩
    · show r'.highest ≤ s.send.highest
      have := (hr.hi.rwire z hzm).1; have := h.rhi; omega

theorem endInv_step {s : Sys} (hr : Reach s) (h : EndInv s) (op : Op) (ok : okOp s op) :
    EndInv (step s op).1 := by
  by_cases hd : ∃ i, op = .deliver i
  · obtain ⟨i, rfl⟩ := hd; exact endInv_deliver hr h i
  · by_cases hrs : ∃ j, op = .deliverReset j
    · obtain ⟨j, rfl⟩ := hrs; exact endInv_deliverReset hr h j
    · obtain ⟨e1, -, -, e4, e5, -⟩ := step_send_side s op (fun i hx => hd ⟨i, hx⟩) (fun j hx => hrs ⟨j, hx⟩)
      obtain ⟨f1, f2, f3, f4⟩ := step_sender_facts hr.snd hr.hi hr.q2 op ok
      obtain ⟨⟨l1, hw1⟩, -⟩ := step_wire_mono s op
      have grow : ∀ p : OutFrame → Prop, (∃ g ∈ s.wire, p g) → ∃ g ∈ (step s op).1.wire, p g := by
        rintro p ⟨g, hg, hp⟩; exact ⟨g, by rw [hw1]; simp [hg], hp⟩
      refine ⟨by rw [e1]; exact h.inv, by rw [e4]; exact h.ends_le, ?_, ?_, ?_, ?_, by rw [e5]; exact h.noerr⟩
      · intro h1
        rw [e4] at h1
        obtain ⟨a1, a2, a3⟩ := h.ends_fin h1
        obtain ⟨b1, b2⟩ := f4 a2
        rw [e1, b2]; exact ⟨a1, b1, a3⟩
      · intro z hz
        rw [e1] at hz ⊢
        rcases h.fsA z hz with hl | hrt
        · exact Or.inl (grow _ hl)
        · exact Or.inr hrt
      · intro z hz
        rw [e1] at hz
        obtain ⟨a1, a2⟩ := h.fsB z hz
        rw [f2 a2]
        refine ⟨a1, ?_⟩
        rcases a2 with hl | hrt
        · exact Or.inl (grow _ hl)
        · exact Or.inr (f3 hrt)
      · rw [e1]; have := h.rhi; omega

/-- everything that holds in every reachable state of the current code -/
structure Good (s : Sys) : Prop where
  reach : Reach s
  endi : EndInv s

theorem good_init (sid : Nat) : Good (init sid) := ⟨reach_init sid, endInv_init sid⟩

theorem good_step {s : Sys} (h : Good s) (op : Op) (ok : okOp s op) : Good (step s op).1 :=
  ⟨reach_step h.reach op ok, endInv_step h.reach h.endi op ok⟩

theorem good_run {s : Sys} (h : Good s) (ops : List Op) (hw : WF s ops) : Good (run s ops) := by
  induction ops generalizing s with
  | nil => exact h
  | cons op rest ih => exact ih (good_step h op hw.1) hw.2

theorem good_reachable (sid : Nat) (ops : List Op) (hw : WF (init sid) ops) : Good (run (init sid) ops) :=
  good_run (good_init sid) ops hw

/-! ## Prefix delivery -/

/-- (C10 `recv_delivers_source_prefix`, restated here for a run of the receive half) -/
theorem implRun_src (src : Nat → UInt8) (ops : List ROp)
    (hc : ∀ f, ROp.frame f ∈ ops → Consistent src f) :
    ((implRun {} ops).2.map ROut.data).flatten = (List.range (implRun {} ops).1.bufStart).map src := by
  have h := run_refines ops inv_init
  rw [abs_init] at h
  have hs := specRun_src (src := src) (t := {}) ops specInv_init (by intro i b hb; simp at hb) hc
  rw [h.2.2.maps.2.1, hs.2, ← h.2.1]
  simp only [abs, Nat.sub_zero]
  rw [List.range_eq_range']

theorem frameOK_consistent {g : Ghost} {f : OutFrame} (h : FrameOK g f) :
    Consistent (fun i => g.written.getD i 0) (OutFrame.toFrame f) := by
  intro i hi
  show f.data[i]? = some (g.written.getD (f.offset + i) 0)
  have hi' : i < f.data.length := hi
  rw [h.1, List.getElem?_take, if_pos hi', List.getElem?_drop]
  have : f.offset + i < g.written.length := by have := h.2.1; omega
  rw [List.getD_eq_getElem?_getD, List.getElem?_eq_getElem this]
  simp

theorem range_map_getD (w : Bytes) (n : Nat) (hn : n ≤ w.length) :
    (List.range n).map (fun i => w.getD i 0) = w.take n := by
  apply List.ext_getElem?
  intro i
  by_cases hi : i < n
  · have : i < w.length := by omega
    simp [hi, List.getElem?_eq_getElem this, List.getD_eq_getElem?_getD]
  · simp [List.getElem?_take, hi]

theorem good_prefix {s : Sys} (h : Good s) :
    s.deliveredBytes = s.ghost.written.take s.recv.bufStart ∧ s.recv.bufStart ≤ s.ghost.written.length := by
  have hb : s.recv.bufStart ≤ s.ghost.written.length := by
    have := h.endi.inv.high; have := h.endi.rhi; have := h.reach.snd.hi_le; omega
  refine ⟨?_, hb⟩
  have hc : ∀ f, ROp.frame f ∈ s.recvOps → Consistent (fun i => s.ghost.written.getD i 0) f := by
    intro f hf
    obtain ⟨g, hg, rfl⟩ := h.reach.rcv.ops_wire f hf
    exact frameOK_consistent (h.reach.snd.wire_ok g hg)
  rw [h.reach.rcv.bytes_eq, implRun_src _ _ hc, ← h.reach.rcv.recv_eq]
  exact range_map_getD _ _ hb

end AQ.StreamSys
