/-
  Helper lemmas for AQ.Props.C06: facts about `getFrame`, the `_streams` list
  operations and the send-side invariant of AQ.Model.FlowSend / FlowRecv.
-/
import AQ.Model.FlowRecv

namespace AQ.Flow
open AQ AQ.Stream AQ.RangeSet

/-! ## facts about `QuicStreamSender` used by the connection level -/

theorem getFrame_highest_mono {s s' : Send} {ms : Nat} {mo : Option Nat} {fr : Option OutFrame}
    (h : getFrame s ms mo = .ok (s', fr)) : s.highest ≤ s'.highest := by
  unfold getFrame at h
  grind

/-- `highest_offset` never passes `max_offset` -/
theorem getFrame_highest_le {s s' : Send} {ms m : Nat} {fr : Option OutFrame}
    (h : getFrame s ms (some m) = .ok (s', fr)) : s'.highest ≤ max s.highest m := by
  unfold getFrame at h
  grind

theorem getFrame_finished {s s' : Send} {ms : Nat} {mo : Option Nat} {fr : Option OutFrame}
    (h : getFrame s ms mo = .ok (s', fr)) : s'.finished = s.finished := by
  unfold getFrame at h
  grind

theorem getFrame_none_highest {s s' : Send} {ms : Nat} {mo : Option Nat}
    (h : getFrame s ms mo = .ok (s', none)) : s'.highest = s.highest := by
  unfold getFrame at h
  grind

theorem pySlice_length_le (buf : Bytes) (a b : Int) (hab : a ≤ b) :
    (pySlice buf a b).length ≤ (b - a).toNat := by
  unfold pySlice pyIndex
  simp only [List.length_take, List.length_drop]
  split <;> split <;> omega

/-- a returned frame lies at or below the new `highest_offset` -/
theorem getFrame_frame_le {s s' : Send} {ms : Nat} {mo : Option Nat} {f : OutFrame}
    (h : getFrame s ms mo = .ok (s', some f)) : f.offset + f.data.length ≤ s'.highest ∨ f.data = [] := by
  unfold getFrame at h
  grind [pySlice_length_le]

theorem write_highest {s s' : Send} {d : Bytes} {fin : Bool} (h : write s d fin = .ok s') :
    s'.highest = s.highest ∧ s'.finished = s.finished := by
  unfold write at h
  grind

theorem reset_highest (s : Send) (code : Nat) :
    (reset s code).highest = s.highest ∧ (reset s code).finished = s.finished := by
  unfold reset; split <;> simp

theorem onDataDelivery_highest {s s' : Send} {d : Delivery} {a b : Nat} {fin : Bool}
    (h : onDataDelivery s d a b fin = .ok s') : s'.highest = s.highest := by
  unfold onDataDelivery at h
  grind

theorem onResetDelivery_highest (s : Send) (d : Delivery) : (onResetDelivery s d).highest = s.highest := by
  unfold onResetDelivery; split <;> rfl

/-! ## the `_streams` list -/

def sumHi (ss : List Strm) : Nat := (ss.map (fun s => s.send.highest)).sum

@[simp] theorem sumHi_nil : sumHi [] = 0 := rfl
@[simp] theorem sumHi_cons (s : Strm) (ss : List Strm) : sumHi (s :: ss) = s.send.highest + sumHi ss := by
  simp [sumHi]
theorem sumHi_append (a b : List Strm) : sumHi (a ++ b) = sumHi a + sumHi b := by
  simp [sumHi, List.sum_append]

theorem find?_some {ss : List Strm} {sid : Nat} {st : Strm}
    (h : ss.find? (fun s => s.sid == sid) = some st) : st ∈ ss ∧ st.sid = sid := by
  have h1 := List.mem_of_find?_eq_some h
  have h2 := List.find?_some h
  simp at h2
  exact ⟨h1, h2⟩

theorem find?_none {ss : List Strm} {sid : Nat}
    (h : ss.find? (fun s => s.sid == sid) = none) : ∀ s ∈ ss, s.sid ≠ sid := by
  intro s hs
  have := List.find?_eq_none.mp h s hs
  simpa using this

theorem setIn_sids (st : Strm) (ss : List Strm) : (setIn st ss).map (·.sid) = ss.map (·.sid) := by
  induction ss with
  | nil => rfl
  | cons x xs ih =>
    unfold setIn
    split
    · rename_i h; simp at h; simp [h]
    · simp [ih]

theorem mem_setIn {st x : Strm} {ss : List Strm} (h : x ∈ setIn st ss) : x = st ∨ x ∈ ss := by
  induction ss with
  | nil => simp [setIn] at h
  | cons y ys ih =>
    unfold setIn at h
    split at h
    · simp at h
      rcases h with h | h
      · exact .inl h
      · exact .inr (by simp [h])
    · simp at h
      rcases h with h | h
      · subst h; exact .inr (by simp)
      · rcases ih h with h' | h'
        · exact .inl h'
        · exact .inr (by simp [h'])

/-- replacing the stream object with id `st.sid` changes the sum by the difference -/
theorem sumHi_setIn {st0 st : Strm} {ss : List Strm} (hnd : (ss.map (·.sid)).Nodup)
    (hm : st0 ∈ ss) (hsid : st.sid = st0.sid) :
    sumHi (setIn st ss) + st0.send.highest = sumHi ss + st.send.highest := by
  induction ss with
  | nil => simp at hm
  | cons x xs ih =>
    simp only [List.map_cons, List.nodup_cons] at hnd
    unfold setIn
    split
    · rename_i hx
      simp at hx
      have : st0 = x := by
        rcases List.mem_cons.mp hm with h | h
        · exact h
        · exfalso; apply hnd.1
          exact List.mem_map.mpr ⟨st0, h, by omega⟩
      subst this
      simp; omega
    · rename_i hx
      simp at hx
      have : st0 ∈ xs := by
        rcases List.mem_cons.mp hm with h | h
        · subst h; omega
        · exact h
      have := ih hnd.2 this
      simp; omega

theorem sumHi_filter {st0 : Strm} {ss : List Strm} (hnd : (ss.map (·.sid)).Nodup) (hm : st0 ∈ ss) :
    sumHi (ss.filter (fun s => s.sid != st0.sid)) + st0.send.highest = sumHi ss := by
  induction ss with
  | nil => simp at hm
  | cons x xs ih =>
    simp only [List.map_cons, List.nodup_cons] at hnd
    by_cases hx : x.sid = st0.sid
    · have : st0 = x := by
        rcases List.mem_cons.mp hm with h | h
        · exact h
        · exfalso; apply hnd.1
          exact List.mem_map.mpr ⟨st0, h, by omega⟩
      subst this
      have hf : xs.filter (fun s => s.sid != st0.sid) = xs := by
        apply List.filter_eq_self.mpr
        intro a ha
        simp
        intro h
        apply hnd.1
        exact List.mem_map.mpr ⟨a, ha, h⟩
      simp [List.filter_cons, hf]; omega
    · have : st0 ∈ xs := by
        rcases List.mem_cons.mp hm with h | h
        · subst h; omega
        · exact h
      have := ih hnd.2 this
      simp [List.filter_cons, hx]; omega

/-! ## the send-side invariant -/

/-- the stream is initiated by this endpoint -/
def localSid (c : Conn) (sid : Nat) : Bool := clientInitiated sid == c.isClient

/-- the peer's stream-count limit that applies to `sid` -/
def maxStreamsFor (c : Conn) (sid : Nat) : Nat :=
  if unidirectional sid then c.remoteMaxStreamsUni else c.remoteMaxStreamsBidi

structure SInv (c : Conn) (s : Strm) : Prop where
  limit : s.send.highest ≤ s.maxRemote
  blockedZero : s.isBlocked = true → s.send.highest = 0 ∧ s.send.finished = false
  count : localSid c s.sid = true → s.isBlocked = false → s.sid / 4 < maxStreamsFor c s.sid
  listed : (s.sid ∈ c.blockedBidi ∨ s.sid ∈ c.blockedUni) → s.isBlocked = true

structure Inv (c : Conn) : Prop where
  fixed : c.quirks.unblockHeadOnly = false
  nodup : (c.streams.map (·.sid)).Nodup
  ledger : c.remoteMaxDataUsed = sumHi c.streams + c.goneSent
  connLimit : c.remoteMaxDataUsed ≤ c.remoteMaxData
  strm : ∀ s ∈ c.streams, SInv c s
  listedHas : ∀ sid, (sid ∈ c.blockedBidi ∨ sid ∈ c.blockedUni) → ∃ s ∈ c.streams, s.sid = sid
  kindBidi : ∀ sid ∈ c.blockedBidi, unidirectional sid = false
  kindUni : ∀ sid ∈ c.blockedUni, unidirectional sid = true

/-- `c'` agrees with `c` on everything the per-stream invariant reads, except
    that the stream-count limits may have grown -/
structure SameEnv (c c' : Conn) : Prop where
  isClient : c'.isClient = c.isClient
  msb : c.remoteMaxStreamsBidi ≤ c'.remoteMaxStreamsBidi
  msu : c.remoteMaxStreamsUni ≤ c'.remoteMaxStreamsUni
  bb : c'.blockedBidi = c.blockedBidi
  bu : c'.blockedUni = c.blockedUni
  quirks : c'.quirks = c.quirks

theorem SInv.env {c c' : Conn} {s : Strm} (e : SameEnv c c') (h : SInv c s) : SInv c' s := by
  refine ⟨h.limit, h.blockedZero, ?_, ?_⟩
  · intro hl hb
    have := h.count (by simpa [localSid, e.isClient] using hl) hb
    unfold maxStreamsFor at *
    have := e.msb; have := e.msu
    split <;> simp_all <;> omega
  · rw [e.bb, e.bu]; exact h.listed

/-- frame rule: the streams, the lists and the ledger are untouched -/
theorem Inv.same {c c' : Conn} (h : Inv c) (e : SameEnv c c')
    (hs : c'.streams = c.streams) (hu : c'.remoteMaxDataUsed = c.remoteMaxDataUsed)
    (hg : c'.goneSent = c.goneSent) (hr : c.remoteMaxData ≤ c'.remoteMaxData) : Inv c' := by
  refine ⟨by rw [e.quirks]; exact h.fixed, by rw [hs]; exact h.nodup, by rw [hu, hs, hg]; exact h.ledger,
    by rw [hu]; exact Nat.le_trans h.connLimit hr, ?_, ?_, by rw [e.bb]; exact h.kindBidi, by rw [e.bu]; exact h.kindUni⟩
  · intro s hm; rw [hs] at hm; exact (h.strm s hm).env e
  · intro sid; rw [e.bb, e.bu, hs]; exact h.listedHas sid

/-- frame rule: one stream object is replaced, its `highest_offset` grows by
    what is added to `_remote_max_data_used` -/
theorem Inv.update {c c' : Conn} (h : Inv c) (e : SameEnv c c') {st0 st : Strm}
    (hm : st0 ∈ c.streams) (hsid : st.sid = st0.sid)
    (hs : c'.streams = setIn st c.streams)
    (hhi : st0.send.highest ≤ st.send.highest)
    (hu : c'.remoteMaxDataUsed = c.remoteMaxDataUsed + (st.send.highest - st0.send.highest))
    (hg : c'.goneSent = c.goneSent) (hcl : c'.remoteMaxDataUsed ≤ c'.remoteMaxData)
    (hst : SInv c st) : Inv c' := by
  refine ⟨by rw [e.quirks]; exact h.fixed, by rw [hs, setIn_sids]; exact h.nodup, ?_, hcl, ?_, ?_,
    by rw [e.bb]; exact h.kindBidi, by rw [e.bu]; exact h.kindUni⟩
  · have := sumHi_setIn (st := st) h.nodup hm hsid
    rw [hu, hs, hg, h.ledger]; omega
  · intro s hms; rw [hs] at hms
    rcases mem_setIn hms with rfl | hms
    · exact hst.env e
    · exact (h.strm s hms).env e
  · intro sid hsid'
    rw [e.bb, e.bu] at hsid'
    obtain ⟨s, hs1, hs2⟩ := h.listedHas sid hsid'
    have : sid ∈ (setIn st c.streams).map (·.sid) := by
      rw [setIn_sids]; exact List.mem_map.mpr ⟨s, hs1, hs2⟩
    obtain ⟨s', h1, h2⟩ := List.mem_map.mp this
    exact ⟨s', by rw [hs]; exact h1, h2⟩

/-- frame rule: a new stream object (nothing sent yet) is added -/
theorem Inv.add {c c' : Conn} (h : Inv c) {st : Strm}
    (hfresh : ∀ s ∈ c.streams, s.sid ≠ st.sid)
    (hs : c'.streams = c.streams ++ [st]) (hz : st.send.highest = 0)
    (hcl : c'.isClient = c.isClient) (hq : c'.quirks = c.quirks)
    (hmsb : c'.remoteMaxStreamsBidi = c.remoteMaxStreamsBidi) (hmsu : c'.remoteMaxStreamsUni = c.remoteMaxStreamsUni)
    (hu : c'.remoteMaxDataUsed = c.remoteMaxDataUsed) (hr : c'.remoteMaxData = c.remoteMaxData)
    (hg : c'.goneSent = c.goneSent)
    (hbb : c'.blockedBidi = c.blockedBidi ∨
      (c'.blockedBidi = c.blockedBidi ++ [st.sid] ∧ st.isBlocked = true ∧ unidirectional st.sid = false))
    (hbu : c'.blockedUni = c.blockedUni ∨
      (c'.blockedUni = c.blockedUni ++ [st.sid] ∧ st.isBlocked = true ∧ unidirectional st.sid = true))
    (hfin : st.isBlocked = true → st.send.finished = false)
    (hcount : localSid c st.sid = true → st.isBlocked = false → st.sid / 4 < maxStreamsFor c st.sid) :
    Inv c' := by
  have hnotlisted : ¬ (st.sid ∈ c.blockedBidi ∨ st.sid ∈ c.blockedUni) := by
    intro hl
    obtain ⟨s, h1, h2⟩ := h.listedHas _ hl
    exact hfresh s h1 h2
  have hsub : ∀ x, (x ∈ c'.blockedBidi ∨ x ∈ c'.blockedUni) →
      (x ∈ c.blockedBidi ∨ x ∈ c.blockedUni) ∨ (x = st.sid ∧ st.isBlocked = true) := by
    intro x hx
    rcases hx with hx | hx
    · rcases hbb with hb | ⟨hb, h2, _⟩
      · rw [hb] at hx; exact .inl (.inl hx)
      · rw [hb] at hx; simp at hx; rcases hx with hx | hx
        · exact .inl (.inl hx)
        · exact .inr ⟨hx, h2⟩
    · rcases hbu with hb | ⟨hb, h2, _⟩
      · rw [hb] at hx; exact .inl (.inr hx)
      · rw [hb] at hx; simp at hx; rcases hx with hx | hx
        · exact .inl (.inr hx)
        · exact .inr ⟨hx, h2⟩
  refine ⟨by rw [hq]; exact h.fixed, ?_, ?_, by rw [hu, hr]; exact h.connLimit, ?_, ?_, ?_, ?_⟩
  · rw [hs, List.map_append, List.nodup_append]
    refine ⟨h.nodup, by simp, ?_⟩
    intro a ha b hb
    simp at hb; subst hb
    obtain ⟨s, h1, h2⟩ := List.mem_map.mp ha
    intro heq; exact hfresh s h1 (by omega)
  · rw [hu, hs, hg, sumHi_append, h.ledger]; simp [hz]
  · intro s hms
    rw [hs] at hms
    rcases List.mem_append.mp hms with hms | hms
    · have hi := h.strm s hms
      refine ⟨hi.limit, hi.blockedZero, ?_, ?_⟩
      · intro hl hb
        have := hi.count (by simpa [localSid, hcl] using hl) hb
        simpa [maxStreamsFor, hmsb, hmsu] using this
      · intro hl
        rcases hsub _ hl with hl | ⟨hl, _⟩
        · exact hi.listed hl
        · exact absurd hl (hfresh s hms)
    · simp at hms; subst hms
      refine ⟨by omega, fun hb => ⟨hz, hfin hb⟩, ?_, ?_⟩
      · intro hl hb
        have := hcount (by simpa [localSid, hcl] using hl) hb
        simpa [maxStreamsFor, hmsb, hmsu] using this
      · intro hl
        rcases hsub _ hl with hl | ⟨_, hl⟩
        · exact absurd hl hnotlisted
        · exact hl
  · intro sid hsid
    rcases hsub _ hsid with hl | ⟨hl, _⟩
    · obtain ⟨s, h1, h2⟩ := h.listedHas sid hl
      exact ⟨s, by rw [hs]; simp [h1], h2⟩
    · exact ⟨st, by rw [hs]; simp, hl.symm⟩
  · intro sid hsid
    rcases hbb with hb | ⟨hb, _, h3⟩
    · rw [hb] at hsid; exact h.kindBidi sid hsid
    · rw [hb] at hsid; simp at hsid; rcases hsid with hsid | hsid
      · exact h.kindBidi sid hsid
      · subst hsid; exact h3
  · intro sid hsid
    rcases hbu with hb | ⟨hb, _, h3⟩
    · rw [hb] at hsid; exact h.kindUni sid hsid
    · rw [hb] at hsid; simp at hsid; rcases hsid with hsid | hsid
      · exact h.kindUni sid hsid
      · subst hsid; exact h3

theorem SameEnv.refl (c : Conn) : SameEnv c c :=
  ⟨rfl, Nat.le_refl _, Nat.le_refl _, rfl, rfl, rfl⟩

/-- the stream object `st0` is mutated without touching `highest_offset` -/
theorem Inv.setStrm {c : Conn} (h : Inv c) {st0 st : Strm} (hm : st0 ∈ c.streams) (hsid : st.sid = st0.sid)
    (hhi : st.send.highest = st0.send.highest) (hst : SInv c st) : Inv (c.setStrm st) := by
  refine h.update (c' := c.setStrm st) ⟨rfl, Nat.le_refl _, Nat.le_refl _, rfl, rfl, rfl⟩ hm hsid rfl (by omega) ?_ rfl ?_ hst
  · show c.remoteMaxDataUsed = _; omega
  · exact h.connLimit

theorem Conn.find?_mem {c : Conn} {sid : Nat} {st : Strm} (h : c.find? sid = some st) :
    st ∈ c.streams ∧ st.sid = sid := find?_some h

/-- `_get_or_create_stream_for_send` keeps the invariant and returns a stream of the dict -/
theorem getOrCreateStreamForSend_inv {c c' : Conn} {sid : Nat} {st : Strm} (h : Inv c)
    (hg : getOrCreateStreamForSend c sid = .ok (c', st)) :
    Inv c' ∧ st ∈ c'.streams ∧ st.sid = sid := by
  unfold getOrCreateStreamForSend at hg
  split at hg
  · simp at hg
  · split at hg
    · rename_i st' hf
      simp at hg
      obtain ⟨rfl, rfl⟩ := hg
      exact ⟨h, Conn.find?_mem hf⟩
    · rename_i hf
      have hfresh := find?_none hf
      have hq : ¬ ((!c.quirks.reopenFinished && c.finishedIds.contains sid) = true) := by
        intro hq; rw [if_pos hq] at hg; simp at hg
      rw [if_neg hq] at hg
      split at hg
      · simp at hg
      · rename_i hloc
        have hloc' : localSid c sid = true := by
          simp [localSid] at hloc ⊢; simpa using hloc
        split at hg
        · rename_i huni
          split at hg
          · rename_i hblk
            simp at hg
            obtain ⟨rfl, rfl⟩ := hg
            refine ⟨?_, by simp [Conn.addStrm], rfl⟩
            refine h.add (st := { Strm.create sid 0 c.remoteMaxStreamDataUni true with isBlocked := true })
              (by simpa [Strm.create] using hfresh) (by simp [Conn.addStrm]) (by simp [Strm.create, Send.init])
              rfl rfl rfl rfl rfl rfl rfl (.inl rfl) (.inr ⟨rfl, rfl, by simpa [Strm.create] using huni⟩)
              (by simp [Strm.create, Send.init]) (by simp)
          · rename_i hblk
            simp at hg
            obtain ⟨rfl, rfl⟩ := hg
            refine ⟨?_, by simp [Conn.addStrm], rfl⟩
            refine h.add (st := Strm.create sid 0 c.remoteMaxStreamDataUni true)
              (by simpa [Strm.create] using hfresh) (by simp [Conn.addStrm]) (by simp [Strm.create, Send.init])
              rfl rfl rfl rfl rfl rfl rfl (.inl rfl) (.inl rfl)
              (by simp [Strm.create]) ?_
            intro _ _
            simp [Strm.create, maxStreamsFor, huni]
            omega
        · rename_i huni
          split at hg
          · rename_i hblk
            simp at hg
            obtain ⟨rfl, rfl⟩ := hg
            refine ⟨?_, by simp [Conn.addStrm], rfl⟩
            refine h.add (st := { Strm.create sid c.localMaxStreamDataBidiLocal c.remoteMaxStreamDataBidiRemote true with isBlocked := true })
              (by simpa [Strm.create] using hfresh) (by simp [Conn.addStrm]) (by simp [Strm.create, Send.init])
              rfl rfl rfl rfl rfl rfl rfl (.inr ⟨rfl, rfl, by simpa [Strm.create] using huni⟩) (.inl rfl)
              (by simp [Strm.create, Send.init]) (by simp)
          · rename_i hblk
            simp at hg
            obtain ⟨rfl, rfl⟩ := hg
            refine ⟨?_, by simp [Conn.addStrm], rfl⟩
            refine h.add (st := Strm.create sid c.localMaxStreamDataBidiLocal c.remoteMaxStreamDataBidiRemote true)
              (by simpa [Strm.create] using hfresh) (by simp [Conn.addStrm]) (by simp [Strm.create, Send.init])
              rfl rfl rfl rfl rfl rfl rfl (.inl rfl) (.inl rfl)
              (by simp [Strm.create]) ?_
            intro _ _
            simp [Strm.create, maxStreamsFor, huni]
            omega

end AQ.Flow
