/-
  Error classes of the decoders: which exceptions can escape.
-/
import AQ.Proofs.Codec
import AQ.Proofs.CodecTP

namespace AQ.Codec
open AQ

/-- the documented parse errors: `ValueError` and its subclass `BufferReadError` -/
def IsParseErr (e : Err) : Prop := e = .bufferRead ∨ e = .py .value

def Rd.ErrIn {α : Type} (P : Err → Prop) (rd : Rd α) : Prop := ∀ s e, rd s = .error e → P e

theorem Rd.ErrIn.bind' {α β : Type} {P : Err → Prop} {m : Rd α} {f : α → Rd β} (hm : Rd.ErrIn P m)
    (hf : ∀ s a s', m s = .ok (a, s') → ∀ e, f a s' = .error e → P e) : Rd.ErrIn P (m >>= f) := by
  intro s e h
  rw [Rd.bind_apply] at h
  split at h
  · rename_i a s' hms
    exact hf s a s' hms e h
  · rename_i e' hms
    cases h
    exact hm s e hms

theorem Rd.ErrIn.bind {α β : Type} {P : Err → Prop} {m : Rd α} {f : α → Rd β} (hm : Rd.ErrIn P m)
    (hf : ∀ a, Rd.ErrIn P (f a)) : Rd.ErrIn P (m >>= f) :=
  Rd.ErrIn.bind' hm (fun _ a s' _ e h => hf a s' e h)

theorem Rd.ErrIn.pure {α : Type} {P : Err → Prop} (a : α) : Rd.ErrIn P (pure a : Rd α) := by
  intro s e h; cases h

theorem Rd.ErrIn.remaining {P : Err → Prop} : Rd.ErrIn P Rd.remaining := by
  intro s e h; cases h

theorem Rd.ErrIn.guard {P : Err → Prop} (c : Bool) (e0 : Err) (h0 : P e0) : Rd.ErrIn P (Rd.guard c e0) := by
  intro s e h
  unfold Rd.guard at h
  split at h
  · cases h
  · cases h; exact h0

theorem Rd.ErrIn.mono {α : Type} {P Q : Err → Prop} {rd : Rd α} (h : Rd.ErrIn P rd) (hpq : ∀ e, P e → Q e) :
    Rd.ErrIn Q rd := fun s e he => hpq e (h s e he)

theorem Rd.ErrIn.pullUintVar : Rd.ErrIn (· = .bufferRead) pullUintVar := by
  intro s e h
  unfold Codec.pullUintVar at h
  repeat' split at h
  all_goals first | (cases h; rfl) | cases h

theorem Rd.ErrIn.pullUint8 : Rd.ErrIn (· = .bufferRead) pullUint8 := by
  intro s e h
  unfold Codec.pullUint8 at h
  split at h
  · cases h
  · cases h; rfl

theorem Rd.ErrIn.pullUint16 : Rd.ErrIn (· = .bufferRead) pullUint16 := by
  intro s e h
  unfold Codec.pullUint16 at h
  split at h
  · cases h
  · cases h; rfl

theorem Rd.ErrIn.pullUint32 : Rd.ErrIn (· = .bufferRead) pullUint32 := by
  intro s e h
  unfold Codec.pullUint32 at h
  split at h
  · cases h
  · cases h; rfl

theorem Rd.ErrIn.pullBytes (n : Int) (h1 : -9223372036854775808 ≤ n) (h2 : n < 9223372036854775808) :
    Rd.ErrIn (· = .bufferRead) (pullBytes n) := by
  intro s e h
  unfold Codec.pullBytes at h
  rw [if_neg (by omega)] at h
  split at h
  · cases h; rfl
  · cases h

theorem pullUint8_lt (s r : Bytes) (v : Nat) (h : pullUint8 s = .ok (v, r)) : v < 256 := by
  unfold pullUint8 at h
  split at h
  · rename_i b0 _; cases h; exact b0.toNat_lt
  · cases h

theorem pr_br {e : Err} (h : e = .bufferRead) : IsParseErr e := Or.inl h

/-! ### ACK: the `assert stop > start` of `RangeSet.add` can never fire -/

theorem pullAckRanges_err (n : Nat) : ∀ (end_ : Int) (acc : List IRg),
    Rd.ErrIn (· = .bufferRead) (pullAckRanges n end_ acc) := by
  induction n with
  | zero => intro end_ acc; exact Rd.ErrIn.pure _
  | succ n ih =>
    intro end_ acc
    unfold pullAckRanges
    refine Rd.ErrIn.bind Rd.ErrIn.pullUintVar (fun g => Rd.ErrIn.bind Rd.ErrIn.pullUintVar (fun c => ?_))
    have : rsAdd (end_ - ((g : Int) + 2) - c) (end_ - ((g : Int) + 2) + 1) acc =
        .ok (addI (end_ - ((g : Int) + 2) - c) (end_ - ((g : Int) + 2) + 1) acc) := by
      unfold rsAdd; rw [if_pos (by omega)]
    rw [this]
    refine Rd.ErrIn.bind ?_ (fun _ => ih _ _)
    intro s e h; cases h

theorem pullAck_err : Rd.ErrIn (· = .bufferRead) pullAck := by
  unfold pullAck
  refine Rd.ErrIn.bind Rd.ErrIn.pullUintVar (fun e => Rd.ErrIn.bind Rd.ErrIn.pullUintVar (fun d =>
    Rd.ErrIn.bind Rd.ErrIn.pullUintVar (fun n => Rd.ErrIn.bind Rd.ErrIn.pullUintVar (fun c => ?_))))
  have : rsAdd ((e : Int) - c) ((e : Int) + 1) [] = .ok (addI ((e : Int) - c) ((e : Int) + 1) []) := by
    unfold rsAdd; rw [if_pos (by omega)]
  rw [this]
  refine Rd.ErrIn.bind ?_ (fun _ => Rd.ErrIn.bind (pullAckRanges_err _ _ _) (fun _ => Rd.ErrIn.pure _))
  intro s e h; cases h

/-! ### transport parameters: only ValueError / BufferReadError -/

theorem pullUint32s_err (n : Nat) : Rd.ErrIn (· = .bufferRead) (pullUint32s n) := by
  induction n with
  | zero => exact Rd.ErrIn.pure _
  | succ n ih =>
    exact Rd.ErrIn.bind Rd.ErrIn.pullUint32 (fun _ => Rd.ErrIn.bind ih (fun _ => Rd.ErrIn.pure _))

theorem pullVersionInformation_err (n : Nat) : Rd.ErrIn IsParseErr (pullVersionInformation n) :=
  Rd.ErrIn.bind (Rd.ErrIn.pullUint32.mono (fun _ => pr_br)) (fun _ =>
    Rd.ErrIn.bind ((pullUint32s_err _).mono (fun _ => pr_br)) (fun _ =>
      Rd.ErrIn.bind (Rd.ErrIn.guard _ _ (Or.inr rfl)) (fun _ => Rd.ErrIn.pure _)))

theorem pullPreferredAddress_err : Rd.ErrIn IsParseErr pullPreferredAddress := by
  unfold pullPreferredAddress
  refine Rd.ErrIn.bind ((Rd.ErrIn.pullBytes 4 (by omega) (by omega)).mono (fun _ => pr_br)) (fun _ => ?_)
  refine Rd.ErrIn.bind (Rd.ErrIn.pullUint16.mono (fun _ => pr_br)) (fun _ => ?_)
  refine Rd.ErrIn.bind ((Rd.ErrIn.pullBytes 16 (by omega) (by omega)).mono (fun _ => pr_br)) (fun _ => ?_)
  refine Rd.ErrIn.bind (Rd.ErrIn.pullUint16.mono (fun _ => pr_br)) (fun _ => ?_)
  refine Rd.ErrIn.bind' (Rd.ErrIn.pullUint8.mono (fun _ => pr_br)) (fun _ c s' hc => ?_)
  have hlt := pullUint8_lt _ _ _ hc
  refine Rd.ErrIn.bind ((Rd.ErrIn.pullBytes (c : Int) (by omega) (by omega)).mono (fun _ => pr_br)) (fun _ => ?_) s'
  exact Rd.ErrIn.bind ((Rd.ErrIn.pullBytes 16 (by omega) (by omega)).mono (fun _ => pr_br)) (fun _ => Rd.ErrIn.pure _)

theorem pullParamValue_err (kind : PKind) (n : Nat) (hn : n < 4611686018427387904) :
    Rd.ErrIn IsParseErr (pullParamValue kind n) := by
  cases kind
  · exact Rd.ErrIn.bind (Rd.ErrIn.pullUintVar.mono (fun _ => pr_br)) (fun _ => Rd.ErrIn.pure _)
  · exact Rd.ErrIn.bind ((Rd.ErrIn.pullBytes (n : Int) (by omega) (by omega)).mono (fun _ => pr_br))
      (fun _ => Rd.ErrIn.pure _)
  · exact Rd.ErrIn.pure _
  · exact Rd.ErrIn.bind pullPreferredAddress_err (fun _ => Rd.ErrIn.pure _)
  · exact Rd.ErrIn.bind (pullVersionInformation_err n) (fun _ => Rd.ErrIn.pure _)

theorem pullParam_err (q : TP) : Rd.ErrIn IsParseErr (pullParam q) := by
  unfold pullParam
  refine Rd.ErrIn.bind (Rd.ErrIn.pullUintVar.mono (fun _ => pr_br)) (fun id => ?_)
  refine Rd.ErrIn.bind' (Rd.ErrIn.pullUintVar.mono (fun _ => pr_br)) (fun s len s' hlen => ?_)
  have hl := (pullUintVar_inv _ _ _ hlen).1
  refine Rd.ErrIn.bind Rd.ErrIn.remaining (fun _ => ?_) s'
  refine Rd.ErrIn.bind ?_ (fun _ => Rd.ErrIn.bind Rd.ErrIn.remaining (fun _ =>
    Rd.ErrIn.bind (Rd.ErrIn.guard _ _ (Or.inr rfl)) (fun _ => Rd.ErrIn.pure _)))
  cases lookupKind id PARAMS with
  | none =>
    exact Rd.ErrIn.bind ((Rd.ErrIn.pullBytes (len : Int) (by omega) (by omega)).mono (fun _ => pr_br))
      (fun _ => Rd.ErrIn.pure _)
  | some kind => exact Rd.ErrIn.bind (pullParamValue_err kind len hl) (fun _ => Rd.ErrIn.pure _)

theorem pullParams_err (n : Nat) : ∀ (q : TP) (s : Bytes) (e : Err), pullParams n q s = .error e → IsParseErr e := by
  induction n with
  | zero =>
    intro q s e h
    cases s with
    | nil => cases h
    | cons b r => cases h; exact Or.inl rfl
  | succ n ih =>
    intro q s e h
    cases s with
    | nil => cases h
    | cons b r =>
      rw [pullParams_succ _ _ _ (by simp)] at h
      split at h
      · exact ih _ _ _ h
      · rename_i e' he
        cases h
        exact pullParam_err q _ _ he

theorem pullTransportParameters_err : Rd.ErrIn IsParseErr pullTransportParameters :=
  fun _ _ h => pullParams_err _ _ _ _ h

end AQ.Codec
