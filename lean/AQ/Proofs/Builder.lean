/-
  Invariants of the packet-builder model (AQ.Model.Builder) and their
  preservation by every call made by a disciplined caller.
-/
import AQ.Model.Builder

namespace AQ.Builder

/-- a packet that makes its datagram need padding (RFC 9000 §14.1) -/
def Pkt.req (isClient : Bool) (q : Pkt) : Prop := q.ptype = .initial ∧ (isClient = true ∨ q.ackEliciting = true)

def inflightSum : List Pkt → Int
  | [] => 0
  | q :: qs => (if q.inFlight then (q.sentBytes : Int) else 0) + inflightSum qs

def sumSizes : List Dgram → Int
  | [] => 0
  | d :: ds => (d.size : Int) + sumSizes ds

def sumFlight : List Dgram → Int
  | [] => 0
  | d :: ds => d.flight + sumFlight ds

theorem inflightSum_append (a b : List Pkt) : inflightSum (a ++ b) = inflightSum a + inflightSum b := by
  induction a with
  | nil => simp [inflightSum]
  | cons q qs ih => simp [inflightSum, ih]; omega

theorem sumSizes_append (a b : List Dgram) : sumSizes (a ++ b) = sumSizes a + sumSizes b := by
  induction a with
  | nil => simp [sumSizes]
  | cons q qs ih => simp [sumSizes, ih]; omega

theorem sumFlight_append (a b : List Dgram) : sumFlight (a ++ b) = sumFlight a + sumFlight b := by
  induction a with
  | nil => simp [sumFlight]
  | cons q qs ih => simp [sumFlight, ih]; omega

theorem inflightSum_nonneg (a : List Pkt) : 0 ≤ inflightSum a := by
  induction a with
  | nil => simp [inflightSum]
  | cons q qs ih => simp only [inflightSum]; split <;> omega

/-- what the property says about one datagram handed out -/
structure Dgram.Good (c : Cfg) (d : Dgram) : Prop where
  size_le : d.size ≤ c.maxDatagramSize
  padded : (∃ q ∈ d.pkts, q.req c.isClient) → SMALLEST_MAX_DATAGRAM_SIZE ≤ d.size
  flight_ge : inflightSum d.pkts ≤ d.flight

/-- where the next packet of the current datagram would start -/
def base (s : St) : Nat := if s.packet.isSome then s.packetStart else s.tell

structure Inv (s : St) : Prop where
  init_clean : s.dgramInit = true → s.tell = 0 ∧ s.packet = none ∧ s.curPkts = []
  bc_le : s.bufferCapacity ≤ s.cfg.maxDatagramSize
  fc_le : s.flightCapacity ≤ s.bufferCapacity
  closed_tell : s.packet = none → s.tell > 0 → (s.tell : Int) ≤ s.bufferCapacity
  open_pos : ∀ p, s.packet = some p →
    s.packetStart + s.headerSize ≤ s.tell ∧ (s.packetStart + s.headerSize : Int) < s.bufferCapacity ∧ s.dgramInit = false
  open_room : ∀ p, s.packet = some p → s.tell > s.packetStart + s.headerSize →
    (s.tell + s.cfg.tag : Int) ≤ s.bufferCapacity ∧ (s.packetStart + s.headerSize + MIN_PAYLOAD + s.cfg.tag : Int) ≤ s.bufferCapacity
  open_flight : ∀ p, s.packet = some p → p.inFlight = true →
    s.tell > s.packetStart + s.headerSize ∧ (s.tell + s.cfg.tag : Int) ≤ s.flightCapacity
      ∧ (s.packetStart + s.headerSize + MIN_PAYLOAD + s.cfg.tag : Int) ≤ s.flightCapacity
  frame_closed : ∀ p, s.packet = some p → s.frameOpen = false →
    s.tell = s.packetStart + s.headerSize ∧ p.inFlight = false ∧ p.ackEliciting = false
  dfb : s.dgramInit = false → s.dgramFlightBytes = inflightSum s.curPkts ∧ s.dgramFlightBytes ≤ base s
    ∧ (s.dgramFlightBytes > 0 → s.dgramFlightBytes ≤ s.flightCapacity)
  total : ∀ m, s.cfg.maxTotal = some m → s.totalBytes ≤ max m 0 ∧
    (s.dgramInit = false → s.totalBytes + max s.bufferCapacity 0 ≤ max m 0)
  flight : ∀ m, s.cfg.maxFlight = some m → s.flightBytes ≤ max m 0 ∧
    (s.dgramInit = false → s.flightBytes + max s.flightCapacity 0 ≤ max m 0)
  pad_open : ∀ p, s.packet = some p → p.ptype = .initial →
    ((s.cfg.isClient = true ∧ s.frameOpen = true) ∨ p.ackEliciting = true) →
    (SMALLEST_MAX_DATAGRAM_SIZE : Int) ≤ s.flightCapacity
  pad_cur : (∃ q ∈ s.curPkts, q.req s.cfg.isClient) → (SMALLEST_MAX_DATAGRAM_SIZE : Int) ≤ s.flightCapacity ∧
    (s.needsPadding = true ∨ s.flightCapacity ≤ (base s : Int))
  good : ∀ d ∈ s.out ++ s.datagrams, d.Good s.cfg
  sums : s.totalBytes = sumSizes (s.out ++ s.datagrams) ∧ s.flightBytes = sumFlight (s.out ++ s.datagrams)
  pkt_type : ∀ p, s.packet = some p → s.headerSize = headerSize s.cfg p.ptype
  frame_open_ne : ∀ p, s.packet = some p → s.frameOpen = true → s.tell > s.packetStart + s.headerSize

theorem inv_init (c : Cfg) (pn : Nat) : Inv (St.init c pn) := by
  constructor <;> simp [St.init, base, inflightSum, sumSizes, sumFlight]
  · intro m _; omega
  · intro m _; omega

end AQ.Builder

namespace AQ.Builder

theorem push_some {s s1 : St} {n : Nat} (h : push s n = some s1) :
    s1 = { s with tell := s.tell + n } ∧ s.tell + n ≤ s.cfg.maxDatagramSize := by
  unfold push at h
  split at h
  · cases h
  · cases h; exact ⟨rfl, by omega⟩

theorem push_none {s : St} {n : Nat} (h : push s n = none) : s.tell + n > s.cfg.maxDatagramSize := by
  unfold push at h
  split at h
  · assumption
  · cases h

theorem not_init_of_tell {s : St} (hi : Inv s) (ht : s.tell ≠ 0) : s.dgramInit = false := by
  cases h : s.dgramInit
  · rfl
  · exact absurd (hi.init_clean h).1 ht

/-- `_flush_current_datagram` keeps the invariant and cannot fail -/
theorem flushCurrentDatagram_inv {s : St} (hi : Inv s) (hp : s.packet = none) :
    Inv (flushCurrentDatagram s).1 ∧ (flushCurrentDatagram s).2 = .ok
      ∧ (flushCurrentDatagram s).1.packet = none
      ∧ (flushCurrentDatagram s).1.cfg = s.cfg := by
  unfold flushCurrentDatagram
  split
  · exact ⟨hi, rfl, hp, rfl⟩
  · rename_i ht
    have hni := not_init_of_tell hi ht
    have htell := hi.closed_tell hp (by omega)
    have hbc := hi.bc_le
    have hfc := hi.fc_le
    have ⟨hd1, hd2, hd3⟩ := hi.dfb hni
    have hbase : base s = s.tell := by simp [base, hp]
    rw [hbase] at hd2
    have hpadle : (s.tell + flushPad s : Int) ≤ max (s.tell : Int) s.flightCapacity := by
      unfold flushPad; split <;> omega
    have hpadnp : s.needsPadding = false → flushPad s = 0 := by
      intro h; simp [flushPad, h]
    have hpadpos : s.needsPadding = true → (s.flightCapacity : Int) ≤ s.tell + flushPad s := by
      intro h; simp only [flushPad, h, if_true]; omega
    cases hpush : push s (flushPad s) with
    | none =>
      have := push_none hpush
      omega
    | some s1 =>
      obtain ⟨rfl, _⟩ := push_some hpush
      refine ⟨?_, rfl, by simpa using hp, rfl⟩
      have hgood : Dgram.Good s.cfg { size := s.tell + flushPad s, pkts := s.curPkts, flight := s.dgramFlightBytes + flushPad s } := by
        constructor
        · simp only; omega
        · intro hex
          have ⟨h12, hnp⟩ := hi.pad_cur hex
          rw [hbase] at hnp
          simp only [SMALLEST_MAX_DATAGRAM_SIZE] at h12 ⊢
          rcases hnp with hnp | hnp
          · have := hpadpos hnp; omega
          · omega
        · simp only; omega
      constructor <;> simp only
      · intro _; exact ⟨trivial, hp, trivial⟩
      · exact hbc
      · exact hfc
      · intro _ h; omega
      · intro p h; rw [hp] at h; cases h
      · intro p h; rw [hp] at h; cases h
      · intro p h; rw [hp] at h; cases h
      · intro p h; rw [hp] at h; cases h
      · intro h; cases h
      · intro m hm
        have ⟨_, h2⟩ := hi.total m hm
        have := h2 hni
        refine ⟨by omega, fun h => by cases h⟩
      · intro m hm
        have ⟨_, h2⟩ := hi.flight m hm
        have := h2 hni
        refine ⟨?_, fun h => by cases h⟩
        by_cases hz : s.dgramFlightBytes + (flushPad s : Int) > 0
        · have : s.dgramFlightBytes + (flushPad s : Int) ≤ s.flightCapacity := by
            by_cases hnp : s.needsPadding = true
            · by_cases hpz : flushPad s = 0
              · have := hd3 (by omega); omega
              · have : (s.tell + flushPad s : Int) = s.flightCapacity := by
                  simp only [flushPad, hnp, if_true] at hpz ⊢; omega
                omega
            · have := hpadnp (by simpa using hnp)
              have := hd3 (by omega); omega
          omega
        · omega
      · intro p h; rw [hp] at h; cases h
      · intro ⟨q, hq, _⟩; cases hq
      · intro d hd
        rw [← List.append_assoc] at hd
        rcases List.mem_append.mp hd with h | h
        · exact hi.good d h
        · simp only [List.mem_singleton] at h; subst h; exact hgood
      · have ⟨h1, h2⟩ := hi.sums
        rw [← List.append_assoc, sumSizes_append, sumFlight_append]
        simp only [sumSizes, sumFlight]
        constructor
        · rw [h1]; push_cast; omega
        · rw [h2]; omega
      · intro p h; rw [hp] at h; cases h
      · intro p h; rw [hp] at h; cases h
end AQ.Builder

namespace AQ.Builder

/-- the state `_end_packet` reaches before the optional datagram flush -/
def epState (s : St) (p : Pkt) : St :=
  let pad := epPad s p (epInside s p)
  let fin := s.tell + pad + s.cfg.tag
  let q : Pkt := { p with inFlight := p.inFlight || decide (pad > 0), sentBytes := fin - s.packetStart }
  { s with
    needsPadding := epNp s p && !epInside s p,
    tell := fin,
    packets := s.packets ++ [q],
    curPkts := s.curPkts ++ [q],
    dgramFlightBytes := if q.inFlight then s.dgramFlightBytes + q.sentBytes else s.dgramFlightBytes,
    packet := none, frameOpen := false }

/-- caller discipline at the end of a packet: a packet that holds no
    congestion-controlled frame has a payload of at least two bytes (an ACK
    frame is ≥ 5 bytes, a CONNECTION_CLOSE frame ≥ 4) -/
def EndOk (s : St) : Prop :=
  ∀ p, s.packet = some p → p.inFlight = false → s.tell > s.packetStart + s.headerSize →
    s.tell ≥ s.packetStart + s.headerSize + MIN_PAYLOAD

theorem epState_inv {s : St} {p : Pkt} (hi : Inv s) (hp : s.packet = some p) (hd : EndOk s)
    (hne : s.tell - s.packetStart > s.headerSize) :
    Inv (epState s p) ∧ (epState s p).tell ≤ s.cfg.maxDatagramSize := by
  have ⟨hpos1, hpos2, hni⟩ := hi.open_pos p hp
  have hne' : s.tell > s.packetStart + s.headerSize := by omega
  have ⟨hroom1, hroom2⟩ := hi.open_room p hp hne'
  have hbc := hi.bc_le
  have hfc := hi.fc_le
  have ⟨hd1, hd2, hd3⟩ := hi.dfb hni
  have hbase : base s = s.packetStart := by simp [base, hp]
  rw [hbase] at hd2
  have hD := hd p hp
  have hfo : s.frameOpen = true := by
    cases h : s.frameOpen
    · have := (hi.frame_closed p hp h).1; omega
    · rfl
  -- arithmetic of the padding
  have hpad_out : epInside s p = false →
      (s.tell + epPad s p (epInside s p) : Int) = max (s.tell : Int) (s.packetStart + s.headerSize + MIN_PAYLOAD) := by
    intro h; simp only [epPad, h, MIN_PAYLOAD, PACKET_NUMBER_MAX_SIZE, PACKET_NUMBER_SEND_SIZE]; simp; omega
  have hpad_in : epInside s p = true →
      (s.tell + epPad s p (epInside s p) + s.cfg.tag : Int) ≥ s.flightCapacity ∧
      ((s.tell + epPad s p (epInside s p) + s.cfg.tag : Int) = max (s.tell + s.cfg.tag : Int) s.flightCapacity ∨
       (s.tell + epPad s p (epInside s p) : Int) = max (s.tell : Int) (s.packetStart + s.headerSize + MIN_PAYLOAD)) := by
    intro h
    simp only [epPad, h, remainingFlightSpace, MIN_PAYLOAD, PACKET_NUMBER_MAX_SIZE, PACKET_NUMBER_SEND_SIZE, Bool.true_and]
    split <;> rename_i hc <;> simp at hc <;> omega
  have hfin_bc : (s.tell + epPad s p (epInside s p) + s.cfg.tag : Int) ≤ s.bufferCapacity := by
    cases h : epInside s p
    · have := hpad_out h; rw [h] at this; simp only [MIN_PAYLOAD, PACKET_NUMBER_MAX_SIZE, PACKET_NUMBER_SEND_SIZE] at *; omega
    · have := (hpad_in h).2; rw [h] at this; simp only [MIN_PAYLOAD, PACKET_NUMBER_MAX_SIZE, PACKET_NUMBER_SEND_SIZE] at *; omega
  have hpadflight : epPad s p (epInside s p) > 0 → p.inFlight = false →
      epInside s p = true ∧ (s.tell + epPad s p (epInside s p) + s.cfg.tag : Int) = s.flightCapacity := by
    intro hpos hnf
    have h2 := hD hnf hne'
    cases h : epInside s p
    · have := hpad_out h; rw [h] at this hpos; simp only [MIN_PAYLOAD, PACKET_NUMBER_MAX_SIZE, PACKET_NUMBER_SEND_SIZE] at *; omega
    · refine ⟨rfl, ?_⟩
      have := (hpad_in h); rw [h] at this hpos; simp only [MIN_PAYLOAD, PACKET_NUMBER_MAX_SIZE, PACKET_NUMBER_SEND_SIZE] at *; omega
  have hfin_fc : (p.inFlight || decide (epPad s p (epInside s p) > 0)) = true →
      (s.tell + epPad s p (epInside s p) + s.cfg.tag : Int) ≤ s.flightCapacity := by
    intro h
    cases hif : p.inFlight
    · simp [hif] at h
      exact Int.le_of_eq (hpadflight h hif).2
    · have ⟨_, hf1, hf2⟩ := hi.open_flight p hp hif
      cases h' : epInside s p
      · have := hpad_out h'; rw [h'] at this; simp only [MIN_PAYLOAD, PACKET_NUMBER_MAX_SIZE, PACKET_NUMBER_SEND_SIZE] at *; omega
      · have := (hpad_in h').2; rw [h'] at this; simp only [MIN_PAYLOAD, PACKET_NUMBER_MAX_SIZE, PACKET_NUMBER_SEND_SIZE] at *; omega
  refine ⟨?_, by simp only [epState]; omega⟩
  constructor <;> simp only [epState]
  · intro h; rw [hni] at h; cases h
  · exact hbc
  · exact hfc
  · intro _ _; push_cast; omega
  · intro q h; cases h
  · intro q h; cases h
  · intro q h; cases h
  · intro q h; cases h
  · intro _
    refine ⟨?_, ?_, ?_⟩
    · rw [inflightSum_append]; simp only [inflightSum]; split <;> omega
    · have hps : (s.dgramFlightBytes : Int) ≤ s.packetStart := hd2
      simp only [base, Option.isSome_none, Bool.false_eq_true, if_false]
      split
      · omega
      · omega
    · split
      · rename_i hq
        have := hfin_fc hq
        intro _; push_cast; omega
      · exact hd3
  · intro m hm; exact ⟨(hi.total m hm).1, fun _ => (hi.total m hm).2 hni⟩
  · intro m hm; exact ⟨(hi.flight m hm).1, fun _ => (hi.flight m hm).2 hni⟩
  · intro q h; cases h
  · intro ⟨q, hq, hreq⟩
    simp only [base]
    rcases List.mem_append.mp hq with hq | hq
    · have ⟨h12, hor⟩ := hi.pad_cur ⟨q, hq, hreq⟩
      refine ⟨h12, ?_⟩
      rw [hbase] at hor
      rcases hor with hnp | hle
      · cases hin : epInside s p
        · left; simp [epNp, hnp]
        · right; have := (hpad_in hin).1; rw [hin] at this; push_cast; simpa using this
      · right; push_cast; simp; omega
    · simp only [List.mem_singleton] at hq; subst hq
      obtain ⟨hty, hcl⟩ := hreq
      simp only at hty hcl
      have h12 := hi.pad_open p hp hty (by rcases hcl with h | h; exact Or.inl ⟨h, hfo⟩; exact Or.inr h)
      refine ⟨h12, Or.inl ?_⟩
      have : epInside s p = false := by simp [epInside, hty]
      rw [this]
      rcases hcl with h | h <;> simp [epNp, h, hty]
  · exact hi.good
  · exact hi.sums
  · intro q h; cases h
  · intro q h; cases h

end AQ.Builder

namespace AQ.Builder

theorem epState_packet (s : St) (p : Pkt) : (epState s p).packet = none ∧ (epState s p).cfg = s.cfg := by
  simp [epState]

/-- `_end_packet` keeps the invariant and cannot fail -/
theorem endPacket_inv {s : St} {p : Pkt} (hi : Inv s) (hp : s.packet = some p) (hd : EndOk s) :
    Inv (endPacket s).1 ∧ (endPacket s).2 = .ok ∧ (endPacket s).1.packet = none
      ∧ (endPacket s).1.cfg = s.cfg := by
  have ⟨hpos1, hpos2, hni⟩ := hi.open_pos p hp
  by_cases hne : s.tell - s.packetStart > s.headerSize
  · have ⟨hi2, hle⟩ := epState_inv hi hp hd hne
    have hfin : ¬ (s.tell + epPad s p (epInside s p) + s.cfg.tag > s.cfg.maxDatagramSize) := by
      simp only [epState] at hle; omega
    have heq : endPacket s =
        match (if p.ptype == .oneRtt then flushCurrentDatagram (epState s p) else (epState s p, .ok)) with
        | (s3, .ok) => ({ s3 with packetNumber := s3.packetNumber + 1 }, .ok)
        | r => r := by
      unfold endPacket
      simp only [hp, hne, if_true, hfin, if_false]
      rfl
    rw [heq]
    have ⟨hpk, hcfg⟩ := epState_packet s p
    by_cases hone : (p.ptype == .oneRtt) = true
    · simp only [hone, if_true]
      have ⟨hf1, hf2, hf3, hf4⟩ := flushCurrentDatagram_inv hi2 hpk
      rcases hfl : flushCurrentDatagram (epState s p) with ⟨s3, r⟩
      rw [hfl] at hf1 hf2 hf3 hf4
      simp only at hf1 hf2 hf3 hf4
      subst hf2
      refine ⟨?_, rfl, hf3, by rw [← hcfg]; exact hf4⟩
      exact { hf1 with }
    · simp only [hone, if_false]
      refine ⟨?_, rfl, hpk, hcfg⟩
      exact { hi2 with }
  · have heq : endPacket s = ({ s with tell := s.packetStart, packet := none, frameOpen := false }, .ok) := by
      unfold endPacket
      simp only [hp, hne, if_false]
    rw [heq]
    refine ⟨?_, rfl, rfl, rfl⟩
    have hbc := hi.bc_le
    have ⟨hd1, hd2, hd3⟩ := hi.dfb hni
    have hbase : base s = s.packetStart := by simp [base, hp]
    constructor <;> simp only
    · intro h; rw [hni] at h; cases h
    · exact hbc
    · exact hi.fc_le
    · intro _ _; omega
    · intro q h; cases h
    · intro q h; cases h
    · intro q h; cases h
    · intro q h; cases h
    · intro _; refine ⟨hd1, ?_, hd3⟩
      simp only [base, Option.isSome_none, Bool.false_eq_true, if_false]; rw [hbase] at hd2; exact hd2
    · exact hi.total
    · exact hi.flight
    · intro q h; cases h
    · intro hex
      have := hi.pad_cur hex
      simp only [base, Option.isSome_none, Bool.false_eq_true, if_false]; rw [hbase] at this; exact this
    · exact hi.good
    · exact hi.sums
    · intro q h; cases h
    · intro q h; cases h

end AQ.Builder

namespace AQ.Builder

theorem dgInit_inv {s : St} (hi : Inv s) (hp : s.packet = none) :
    Inv (dgInit s) ∧ (dgInit s).packet = none ∧ (dgInit s).cfg = s.cfg ∧ (dgInit s).tell = s.tell
      ∧ (dgInit s).dgramInit = false := by
  unfold dgInit
  split
  · rename_i hinit
    have ⟨ht, _, hcur⟩ := hi.init_clean hinit
    have hbc := hi.bc_le
    refine ⟨?_, hp, rfl, rfl, rfl⟩
    constructor <;> simp only
    · intro h; cases h
    · cases hm : s.cfg.maxTotal <;> simp only <;> (try split) <;> omega
    · cases hm : s.cfg.maxFlight <;> simp only <;> (try split) <;> omega
    · intro _ h; omega
    · intro q h; rw [hp] at h; cases h
    · intro q h; rw [hp] at h; cases h
    · intro q h; rw [hp] at h; cases h
    · intro q h; rw [hp] at h; cases h
    · intro _; rw [hcur]; simp [inflightSum]
    · intro m hm
      have ⟨h1, _⟩ := hi.total m hm
      refine ⟨h1, fun _ => ?_⟩
      simp only [hm]; split <;> omega
    · intro m hm
      have ⟨h1, _⟩ := hi.flight m hm
      refine ⟨h1, fun _ => ?_⟩
      simp only [hm]; split <;> omega
    · intro q h; rw [hp] at h; cases h
    · intro ⟨q, hq, _⟩; rw [hcur] at hq; cases hq
    · exact hi.good
    · exact hi.sums
    · intro q h; rw [hp] at h; cases h
    · intro q h; rw [hp] at h; cases h
  · rename_i hinit
    exact ⟨hi, hp, rfl, rfl, by simpa using hinit⟩

theorem openPacket_inv {s : St} {t : PType} (hi : Inv s) (hp : s.packet = none) (hni : s.dgramInit = false)
    (hroom : ¬ ((s.tell + headerSize s.cfg t : Int) ≥ s.bufferCapacity)) : Inv (openPacket s t) := by
  have ⟨hd1, hd2, hd3⟩ := hi.dfb hni
  have hbase : base s = s.tell := by simp [base, hp]
  constructor <;> simp only [openPacket]
  · intro h; rw [hni] at h; cases h
  · exact hi.bc_le
  · exact hi.fc_le
  · intro h; cases h
  · intro q _; refine ⟨Nat.le_refl _, by omega, hni⟩
  · intro q _ h; omega
  · intro q h hf; cases h; cases hf
  · intro q h _; cases h; simp
  · intro _; refine ⟨hd1, ?_, hd3⟩
    simp only [base, Option.isSome_some, if_true]; rw [hbase] at hd2; exact hd2
  · exact hi.total
  · exact hi.flight
  · intro q h _ hor; cases h
    rcases hor with ⟨_, h⟩ | h <;> cases h
  · intro hex
    have := hi.pad_cur hex
    simp only [base, Option.isSome_some, if_true]; rw [hbase] at this; exact this
  · exact hi.good
  · exact hi.sums
  · intro q h; cases h; rfl
  · intro q _ h; cases h

end AQ.Builder

namespace AQ.Builder

/-- `start_packet` keeps the invariant; it ends with `ok` or QuicPacketBuilderStop -/
theorem startPacket_inv {s : St} {t : PType} (hi : Inv s) (hd : EndOk s) :
    Inv (startPacket s t).1 ∧ ((startPacket s t).2 = .ok ∨ (startPacket s t).2 = .stop)
      ∧ (startPacket s t).1.cfg = s.cfg := by
  unfold startPacket
  -- finish the previous packet
  have h1 : ∃ s1, (if s.packet.isSome then endPacket s else (s, Res.ok)) = (s1, Res.ok) ∧ Inv s1
      ∧ s1.packet = none ∧ s1.cfg = s.cfg := by
    cases hp : s.packet with
    | none => exact ⟨s, by simp, hi, hp, rfl⟩
    | some p =>
      have ⟨a, b, c, d⟩ := endPacket_inv hi hp hd
      refine ⟨(endPacket s).1, ?_, a, c, d⟩
      simp only [Option.isSome_some, if_true]
      exact Prod.ext rfl b
  obtain ⟨s1, e1, hi1, hp1, hc1⟩ := h1
  rw [e1]; simp only
  have h2 : ∃ s2, (if s1.bufferCapacity - s1.tell < 128 then flushCurrentDatagram s1 else (s1, Res.ok)) = (s2, Res.ok)
      ∧ Inv s2 ∧ s2.packet = none ∧ s2.cfg = s1.cfg := by
    by_cases hc : s1.bufferCapacity - s1.tell < 128
    · have ⟨a, b, c, d⟩ := flushCurrentDatagram_inv hi1 hp1
      refine ⟨(flushCurrentDatagram s1).1, ?_, a, c, d⟩
      simp only [hc, if_true]
      exact Prod.ext rfl b
    · exact ⟨s1, by simp [hc], hi1, hp1, rfl⟩
  obtain ⟨s2, e2, hi2, hp2, hc2⟩ := h2
  rw [e2]; simp only
  have ⟨hi3, hp3, hc3, _, hni3⟩ := dgInit_inv hi2 hp2
  split
  · exact ⟨hi3, Or.inr rfl, by rw [hc3, hc2, hc1]⟩
  · rename_i hroom
    have hbc := hi3.bc_le
    split
    · omega
    · exact ⟨openPacket_inv hi3 hp3 hni3 hroom, Or.inl rfl, by simp [openPacket, hc3, hc2, hc1]⟩

end AQ.Builder

namespace AQ.Builder

theorem sizeUintVar_pos (v : Nat) : 1 ≤ sizeUintVar v := by
  unfold sizeUintVar; split <;> (try split) <;> (try split) <;> omega

/-- what connection.py guarantees about its calls (checked on real connections by
    checks/c13.py): frame type bytes fit the announced capacity; ACK /
    CONNECTION_CLOSE frames are never started in a packet that already holds a
    congestion-controlled frame; frame bodies stay within
    `remaining_buffer_space`, and within `remaining_flight_space` once the
    packet is in flight; a packet without congestion-controlled frames has a
    payload of at least two bytes. -/
def Disciplined (s : St) : Op → Prop
  | .startPacket _ => EndOk s
  | .flush => EndOk s
  | .startFrame ft cap => ft < 2 ^ 62 ∧ sizeUintVar ft ≤ cap ∧
      (nonInFlight ft = true → ∀ p, s.packet = some p → p.inFlight = false)
  | .pushBytes n => ∀ p, s.packet = some p → s.frameOpen = true ∧
      (s.tell + n + s.cfg.tag : Int) ≤ s.bufferCapacity ∧
      (p.inFlight = true → (s.tell + n + s.cfg.tag : Int) ≤ s.flightCapacity)

theorem startFrame_inv {s : St} {ft cap : Nat} (hi : Inv s) (hd : Disciplined s (.startFrame ft cap)) :
    Inv (startFrame s ft cap).1 ∧ (∀ e, (startFrame s ft cap).2 ≠ .err e)
      ∧ (startFrame s ft cap).1.cfg = s.cfg := by
  obtain ⟨hft, hcap, hnif⟩ := hd
  unfold startFrame
  cases hp : s.packet with
  | none => exact ⟨hi, by simp, rfl⟩
  | some p =>
    simp only
    have ⟨hpos1, hpos2, hni⟩ := hi.open_pos p hp
    have hbc := hi.bc_le
    have hfc := hi.fc_le
    have hsv := sizeUintVar_pos ft
    by_cases hroom : noRoom s ft cap = true
    · simp only [hroom, if_true]; exact ⟨hi, by simp, by simp⟩
    · by_cases hguard : padGuard s p ft = true
      · simp only [hroom, hguard, if_true]; exact ⟨hi, by simp, by simp⟩
      · have hft' : ¬ (ft ≥ 2 ^ 62) := by omega
        simp only [hroom, hguard, hft', if_false, Bool.false_eq_true]
        -- the effective capacity and what the two space checks gave us
        have hcapge : cap ≤ effCap s cap := by unfold effCap; split <;> simp_all <;> omega
        have hcap2 : s.tell = s.packetStart + s.headerSize → MIN_PAYLOAD ≤ effCap s cap := by
          intro h; unfold effCap packetIsEmpty; split <;> simp_all <;> omega
        simp only [noRoom, Bool.or_eq_true, Bool.and_eq_true, Bool.not_eq_true', not_or, not_and,
            remainingBufferSpace, remainingFlightSpace, Bool.not_eq_true] at hroom
        have hs1 := of_decide_eq_false hroom.1
        have hs2 : nonInFlight ft = false → ¬ (s.flightCapacity - ↑s.tell - ↑s.cfg.tag < ↑(effCap s cap)) :=
          fun h => of_decide_eq_false (hroom.2 h)
        cases hpush : push s (sizeUintVar ft) with
        | none => have := push_none hpush; omega
        | some s1 =>
          obtain ⟨rfl, _⟩ := push_some hpush
          refine ⟨?_, by simp, rfl⟩
          have ⟨hd1, hd2, hd3⟩ := hi.dfb hni
          have hbase : base s = s.packetStart := by simp [base, hp]
          have hemp_or : s.tell = s.packetStart + s.headerSize ∨ s.tell > s.packetStart + s.headerSize := by omega
          constructor <;> simp only
          · intro h; rw [hni] at h; cases h
          · exact hbc
          · exact hfc
          · intro h; cases h
          · intro q _; exact ⟨by omega, hpos2, hni⟩
          · intro q _ _
            rcases hemp_or with he | he
            · have := hcap2 he; simp only [MIN_PAYLOAD, PACKET_NUMBER_MAX_SIZE, PACKET_NUMBER_SEND_SIZE] at *; omega
            · have := hi.open_room p hp he; omega
          · intro q hq hfl
            cases hq
            have hin : nonInFlight ft = false := by
              cases h : nonInFlight ft
              · rfl
              · have hpf := hnif h p hp
                simp [frameFlags, h, hpf] at hfl
            have hs2' := hs2 hin
            refine ⟨by omega, by omega, ?_⟩
            rcases hemp_or with he | he
            · have := hcap2 he; simp only [MIN_PAYLOAD, PACKET_NUMBER_MAX_SIZE, PACKET_NUMBER_SEND_SIZE] at *; omega
            · simp only [MIN_PAYLOAD, PACKET_NUMBER_MAX_SIZE, PACKET_NUMBER_SEND_SIZE] at *; omega
          · intro q _ h; cases h
          · intro _; refine ⟨hd1, ?_, hd3⟩
            simp only [base, Option.isSome_some, if_true]; rw [hbase] at hd2; exact hd2
          · exact hi.total
          · exact hi.flight
          · intro q hq hty hor
            cases hq
            simp only [padGuard, Bool.and_eq_true, Bool.or_eq_true, beq_iff_eq, Bool.not_eq_true', decide_eq_true_eq,
              not_and, Int.not_lt] at hguard
            have hty' : p.ptype = .initial := hty
            rcases hor with ⟨hcl, _⟩ | hae
            · exact hguard ⟨hty', Or.inl hcl⟩
            · simp only [frameFlags, Bool.or_eq_true, Bool.not_eq_true'] at hae
              rcases hae with hae | hae
              · exact hi.pad_open p hp hty' (Or.inr hae)
              · exact hguard ⟨hty', Or.inr hae⟩
          · intro hex
            have := hi.pad_cur hex
            simp only [base, Option.isSome_some, if_true]; rw [hbase] at this; exact this
          · exact hi.good
          · exact hi.sums
          · intro q hq
            cases hq
            exact hi.pkt_type p hp
          · intro q _ _; omega

end AQ.Builder

namespace AQ.Builder

theorem pushBytes_inv {s : St} {n : Nat} (hi : Inv s) (hd : Disciplined s (.pushBytes n)) :
    Inv (pushBytes s n).1 ∧ (∀ e, (pushBytes s n).2 ≠ .err e) ∧ (pushBytes s n).1.cfg = s.cfg := by
  unfold pushBytes
  cases hp : s.packet with
  | none => exact ⟨hi, by simp, rfl⟩
  | some p =>
    simp only
    obtain ⟨hfo, hb, hf⟩ := hd p hp
    have ⟨hpos1, hpos2, hni⟩ := hi.open_pos p hp
    have hbc := hi.bc_le
    have hne := hi.frame_open_ne p hp hfo
    have ⟨_, hroom2⟩ := hi.open_room p hp hne
    cases hpush : push s n with
    | none => have := push_none hpush; omega
    | some s1 =>
      obtain ⟨rfl, _⟩ := push_some hpush
      refine ⟨?_, by simp, rfl⟩
      have ⟨hd1, hd2, hd3⟩ := hi.dfb hni
      have hbase : base s = s.packetStart := by simp [base, hp]
      constructor <;> simp only
      · intro h; rw [hni] at h; cases h
      · exact hbc
      · exact hi.fc_le
      · intro h; rw [hp] at h; cases h
      · intro q _; exact ⟨by omega, hpos2, hni⟩
      · intro q _ _; exact ⟨by omega, hroom2⟩
      · intro q hq hfl
        rw [hp] at hq; cases hq
        have ⟨_, _, h3⟩ := hi.open_flight p hp hfl
        exact ⟨by omega, by have := hf hfl; omega, h3⟩
      · intro q _ h; rw [hfo] at h; cases h
      · intro _; refine ⟨hd1, ?_, hd3⟩
        simp only [base, hp, Option.isSome_some, if_true]; rw [hbase] at hd2; exact hd2
      · exact hi.total
      · exact hi.flight
      · exact hi.pad_open
      · intro hex
        have := hi.pad_cur hex
        simp only [base, hp, Option.isSome_some, if_true]; rw [hbase] at this; exact this
      · exact hi.good
      · exact hi.sums
      · exact hi.pkt_type
      · intro q _ _; omega

theorem flush_inv {s : St} (hi : Inv s) (hd : Disciplined s .flush) :
    Inv (flush s).1 ∧ (flush s).2 = .ok ∧ (flush s).1.cfg = s.cfg
      ∧ (flush s).1.datagrams = [] ∧ (flush s).1.packet = none := by
  unfold flush
  have h1 : ∃ s1, (if s.packet.isSome then endPacket s else (s, Res.ok)) = (s1, Res.ok) ∧ Inv s1
      ∧ s1.packet = none ∧ s1.cfg = s.cfg := by
    cases hp : s.packet with
    | none => exact ⟨s, by simp, hi, hp, rfl⟩
    | some p =>
      have ⟨a, b, c, d⟩ := endPacket_inv hi hp hd
      refine ⟨(endPacket s).1, ?_, a, c, d⟩
      simp only [Option.isSome_some, if_true]
      exact Prod.ext rfl b
  obtain ⟨s1, e1, hi1, hp1, hc1⟩ := h1
  rw [e1]; simp only
  have ⟨a, b, c, d⟩ := flushCurrentDatagram_inv hi1 hp1
  rcases hfl : flushCurrentDatagram s1 with ⟨s2, r⟩
  rw [hfl] at a b c d
  simp only at a b c d
  subst b
  simp only
  refine ⟨?_, trivial, by rw [d, hc1], trivial, c⟩
  exact { a with
    good := by simpa using a.good
    sums := by simpa using a.sums
    dfb := by intro h; have := a.dfb h; simpa [base, c] using this
    pad_cur := by intro h; have := a.pad_cur h; simpa [base, c] using this }

/-- one call of a disciplined caller keeps the invariant and raises nothing
    but QuicPacketBuilderStop -/
theorem step_inv {s : St} {op : Op} (hi : Inv s) (hd : Disciplined s op) :
    Inv (step s op).1 ∧ (∀ e, (step s op).2 ≠ .err e) ∧ (step s op).1.cfg = s.cfg := by
  cases op with
  | startPacket t =>
    have ⟨a, b, c⟩ := startPacket_inv (t := t) hi hd
    refine ⟨a, ?_, c⟩
    intro e; simp only [step]; rcases b with b | b <;> rw [b] <;> simp
  | startFrame ft cap => exact startFrame_inv hi hd
  | pushBytes n => exact pushBytes_inv hi hd
  | flush =>
    have ⟨a, b, c, _, _⟩ := flush_inv hi hd
    refine ⟨a, ?_, c⟩
    intro e; simp only [step]; rw [b]; simp

/-- the caller is disciplined along the whole run -/
def DisciplinedRun : St → List Op → Prop
  | _, [] => True
  | s, op :: ops => Disciplined s op ∧ DisciplinedRun (step s op).1 ops

theorem run_inv {s : St} {ops : List Op} (hi : Inv s) (hd : DisciplinedRun s ops) :
    Inv (run s ops).1 ∧ (run s ops).2 = .ok ∧ (run s ops).1.cfg = s.cfg := by
  induction ops generalizing s with
  | nil => exact ⟨hi, rfl, rfl⟩
  | cons op ops ih =>
    obtain ⟨hd1, hd2⟩ := hd
    have ⟨a, b, c⟩ := step_inv hi hd1
    unfold run
    rcases hst : step s op with ⟨s', r⟩
    rw [hst] at a b c hd2
    simp only at a b c hd2
    cases r with
    | err e => exact absurd rfl (b e)
    | ok => simp only; have ⟨x, y, z⟩ := ih a hd2; exact ⟨x, y, by rw [z, c]⟩
    | stop => simp only; have ⟨x, y, z⟩ := ih a hd2; exact ⟨x, y, by rw [z, c]⟩
    | misuse => simp only; have ⟨x, y, z⟩ := ih a hd2; exact ⟨x, y, by rw [z, c]⟩

end AQ.Builder

namespace AQ.Builder

theorem endOkB_sound {s : St} (h : endOkB s = true) : EndOk s := by
  intro p hp hnf hne
  simp only [endOkB, hp, hnf, Bool.false_or, Bool.or_eq_true, Bool.not_eq_true', decide_eq_true_eq,
    decide_eq_false_iff_not] at h
  rcases h with h | h
  · exact absurd hne h
  · exact h

/-- the executable discipline test printed by the driver implies `Disciplined` -/
theorem discB_sound {s : St} {op : Op} (h : discB s op = true) : Disciplined s op := by
  cases op with
  | startPacket t => exact endOkB_sound h
  | flush => exact endOkB_sound h
  | startFrame ft cap =>
    simp only [discB, Bool.and_eq_true, decide_eq_true_eq, Bool.or_eq_true, Bool.not_eq_true'] at h
    obtain ⟨⟨h1, h2⟩, h3⟩ := h
    refine ⟨h1, h2, ?_⟩
    intro hn p hp
    rcases h3 with h3 | h3
    · rw [hn] at h3; cases h3
    · simpa [hp] using h3
  | pushBytes n =>
    intro p hp
    simp only [discB, hp, Bool.and_eq_true, decide_eq_true_eq, Bool.or_eq_true, Bool.not_eq_true'] at h
    obtain ⟨⟨h1, h2⟩, h3⟩ := h
    refine ⟨h1, h2, ?_⟩
    intro hf
    rcases h3 with h3 | h3
    · rw [hf] at h3; cases h3
    · exact h3

end AQ.Builder
