import AQ.Model.TlsMachine
/-
  Generic lemmas about the interpreter of the generated TLS machine: they hold
  for EVERY step list, so the property theorems reduce to decidable syntactic
  checks of the generated lists (`decide`) plus these lemmas.
-/
namespace AQ.Tls
open AQ.Gen.Tls

/-! ### performed actions are a prefix of the enabled actions -/

theorem execU_prefix (env : Env) (l : List Step) :
    (execU env l).1 <+: l.map (·.act) := by
  induction l with
  | nil => simp [execU]
  | cons s rest ih =>
    unfold execU
    cases failure env s with
    | some e => simp
    | none =>
      by_cases h : s.act = .ret
      · simp [h]
      · simp only [h, ↓reduceIte, List.map_cons]
        exact List.prefix_cons_inj _ |>.mpr ih

theorem execU_done (env : Env) (l : List Step) (hret : ∀ s ∈ l, s.act ≠ .ret)
    (h : (execU env l).2 = .done) : (execU env l).1 = l.map (·.act) := by
  induction l with
  | nil => simp [execU]
  | cons s rest ih =>
    unfold execU at h ⊢
    cases hf : failure env s with
    | some e => simp [hf] at h
    | none =>
      have h1 : s.act ≠ .ret := hret s (by simp)
      simp only [hf, h1, ↓reduceIte, List.map_cons] at h ⊢
      rw [ih (fun t ht => hret t (by simp [ht])) h]

theorem enabled_sublist (env : Env) (l : List Step) : (enabled env l).Sublist l := by
  unfold enabled; exact List.filter_sublist

theorem exec_mem (env : Env) (l : List Step) (a : Act) (h : a ∈ (exec env l).1) :
    ∃ s ∈ l, s.act = a ∧ condHolds env s = true := by
  unfold exec at h
  have hp := execU_prefix env (enabled env l)
  have : a ∈ (enabled env l).map (·.act) := hp.subset h
  rcases List.mem_map.mp this with ⟨s, hs, rfl⟩
  unfold enabled at hs
  rcases List.mem_filter.mp hs with ⟨h1, h2⟩
  exact ⟨s, h1, rfl, h2⟩

/-! ### effect of a performed action list on the configuration -/

theorem applyAct_log (c : Cfg) (a : Act) : (applyAct c a).log = c.log ++ [a] := by
  cases a <;> rfl

theorem applyAll_log (c : Cfg) (p : List Act) : (applyAll c p).log = c.log ++ p := by
  induction p generalizing c with
  | nil => simp [applyAll]
  | cons a rest ih =>
    simp only [applyAll, List.foldl_cons] at ih ⊢
    rw [ih, applyAct_log]; simp

theorem applyAct_st (c : Cfg) (a : Act) :
    (applyAct c a).st = c.st ∨ a = .setState (applyAct c a).st := by
  cases a <;> simp [applyAct]

theorem applyAll_st (c : Cfg) (p : List Act) :
    (applyAll c p).st = c.st ∨ .setState (applyAll c p).st ∈ p := by
  induction p generalizing c with
  | nil => simp [applyAll]
  | cons a rest ih =>
    simp only [applyAll, List.foldl_cons] at ih ⊢
    rcases ih (applyAct c a) with h | h
    · rcases applyAct_st c a with h2 | h2
      · left; rw [h, h2]
      · right; rw [h]; simp [← h2]
    · right; simp [h]

theorem applyAct_attr (c : Cfg) (a : Act) (x : Attr) :
    (applyAct c a).attr x = c.attr x ∨ a = .setAttr x ((applyAct c a).attr x) := by
  cases a <;> simp [applyAct]
  rename_i y v
  by_cases h : x = y
  · right; simp [h]
  · left; simp [h]

theorem applyAll_attr (c : Cfg) (p : List Act) (x : Attr) :
    (applyAll c p).attr x = c.attr x ∨ .setAttr x ((applyAll c p).attr x) ∈ p := by
  induction p generalizing c with
  | nil => simp [applyAll]
  | cons a rest ih =>
    simp only [applyAll, List.foldl_cons] at ih ⊢
    rcases ih (applyAct c a) with h | h
    · rcases applyAct_attr c a x with h2 | h2
      · left; rw [h, h2]
      · right; rw [h]; simp [← h2]
    · right; simp [h]

theorem applyAll_append (c : Cfg) (p q : List Act) :
    applyAll c (p ++ q) = applyAll (applyAll c p) q := by
  simp [applyAll, List.foldl_append]

/-! ### domination: a sensitive action is preceded by a guard in the same run -/

/-- every occurrence of a `sens` action in `p` has a `guard` action before it -/
def GuardedIn (guard sens : Act → Bool) (p : List Act) : Prop :=
  ∀ pre a post, p = pre ++ a :: post → sens a = true → ∃ g ∈ pre, guard g = true

/-- syntactic check: no `sens` step occurs before the first UNCONDITIONAL
    `guard` step (and none at all when there is no such guard) -/
def domOK (guard sens : Act → Bool) : List Step → Bool
  | [] => true
  | s :: rest => if s.cond.isEmpty && guard s.act then true else !sens s.act && domOK guard sens rest

theorem guardedIn_nil (guard sens : Act → Bool) : GuardedIn guard sens [] := by
  intro pre a post h; simp at h

theorem guardedIn_cons_guard (guard sens : Act → Bool) (g : Act) (p : List Act)
    (hg : guard g = true) (hns : sens g = false) : GuardedIn guard sens (g :: p) := by
  intro pre a post h hs
  cases pre with
  | nil => simp at h; rw [← h.1] at hs; simp [hns] at hs
  | cons b pre' => simp at h; exact ⟨g, by simp [h.1], hg⟩

theorem guardedIn_cons (guard sens : Act → Bool) (b : Act) (p : List Act)
    (hns : sens b = false) (hp : GuardedIn guard sens p) : GuardedIn guard sens (b :: p) := by
  intro pre a post h hs
  cases pre with
  | nil => simp at h; rw [← h.1] at hs; simp [hns] at hs
  | cons b' pre' =>
    simp at h
    rcases hp pre' a post h.2 hs with ⟨g, hg1, hg2⟩
    exact ⟨g, by simp [hg1], hg2⟩

theorem condHolds_nil (env : Env) (s : Step) (h : s.cond.isEmpty = true) : condHolds env s = true := by
  unfold condHolds
  have : s.cond = [] := by simpa using h
  simp [this]

theorem dom_sound (guard sens : Act → Bool) (hdisj : ∀ a, guard a = true → sens a = false)
    (env : Env) (l : List Step) (h : domOK guard sens l = true) :
    GuardedIn guard sens (exec env l).1 := by
  induction l with
  | nil => simp [exec, enabled, execU]; exact guardedIn_nil _ _
  | cons s rest ih =>
    unfold exec enabled at ih ⊢
    simp only [List.filter_cons]
    by_cases hc : condHolds env s = true
    · simp only [hc, ↓reduceIte]
      unfold execU
      cases failure env s with
      | some e => exact guardedIn_nil _ _
      | none =>
        by_cases hr : s.act = .ret
        · simp only [hr, ↓reduceIte]; exact guardedIn_nil _ _
        · simp only [hr, ↓reduceIte]
          unfold domOK at h
          by_cases hg : (s.cond.isEmpty && guard s.act) = true
          · simp only [Bool.and_eq_true] at hg
            exact guardedIn_cons_guard _ _ _ _ hg.2 (hdisj _ hg.2)
          · simp only [hg, Bool.false_eq_true, ↓reduceIte, Bool.and_eq_true, Bool.not_eq_eq_eq_not,
              Bool.not_true] at h
            exact guardedIn_cons _ _ _ _ h.1 (ih h.2)
    · simp only [hc, Bool.false_eq_true, ↓reduceIte]
      unfold domOK at h
      by_cases hg : (s.cond.isEmpty && guard s.act) = true
      · simp only [Bool.and_eq_true] at hg
        exact absurd (condHolds_nil env s hg.1) hc
      · simp only [hg, Bool.false_eq_true, ↓reduceIte, Bool.and_eq_true] at h
        exact ih h.2


/-! ### domination with conditional guards

A guard step under conditions `g` dominates a later sensitive step whose
conditions include all of `g`: if the sensitive step is enabled so is the guard,
and the guard either was performed or stopped the run. -/

def condIncl (g c : List (Test × Bool)) : Bool := g.all fun p => c.contains p

def domC (guard sens : Act → Bool) : List (List (Test × Bool)) → List Step → Bool
  | _, [] => true
  | G, s :: rest =>
    (!sens s.act || G.any fun g => condIncl g s.cond) &&
      domC guard sens (if guard s.act then s.cond :: G else G) rest

def condsHold (env : Env) (c : List (Test × Bool)) : Bool := c.all fun p => env.test p.1 == p.2

theorem condIncl_holds (env : Env) (g c : List (Test × Bool)) (hi : condIncl g c = true)
    (hc : condsHold env c = true) : condsHold env g = true := by
  unfold condsHold condIncl at *
  rw [List.all_eq_true] at *
  intro p hp
  have := hi p hp
  simp only [List.contains_eq_mem, decide_eq_true_eq] at this
  exact hc p this

def GuardedIn' (seen : Bool) (guard sens : Act → Bool) (p : List Act) : Prop :=
  ∀ pre a post, p = pre ++ a :: post → sens a = true → seen = true ∨ ∃ g ∈ pre, guard g = true

theorem domC_sound_aux (guard sens : Act → Bool) (env : Env) (l : List Step) :
    ∀ (G : List (List (Test × Bool))) (seen : Bool), domC guard sens G l = true →
      (∀ g ∈ G, condsHold env g = true → seen = true) →
      GuardedIn' seen guard sens (exec env l).1 := by
  induction l with
  | nil => intro G seen _ _ pre a post h; simp [exec, enabled, execU] at h
  | cons s rest ih =>
    intro G seen hd hG
    unfold domC at hd
    simp only [Bool.and_eq_true, Bool.or_eq_true, Bool.not_eq_eq_eq_not, Bool.not_true] at hd
    unfold exec enabled at ih ⊢
    simp only [List.filter_cons]
    by_cases hc : condHolds env s = true
    · simp only [hc, ↓reduceIte]
      unfold execU
      cases failure env s with
      | some e => intro pre a post h; simp at h
      | none =>
        by_cases hr : s.act = .ret
        · simp only [hr, ↓reduceIte]; intro pre a post h; simp at h
        · simp only [hr, ↓reduceIte]
          have hG' : ∀ g ∈ (if guard s.act then s.cond :: G else G), condsHold env g = true →
              (seen || guard s.act) = true := by
            intro g hg hh
            by_cases hgs : guard s.act = true
            · simp [hgs]
            · simp only [hgs, Bool.false_eq_true, ↓reduceIte] at hg
              simp [hG g hg hh]
          have ih' := ih _ (seen || guard s.act) hd.2 hG'
          intro pre a post h hs
          cases pre with
          | nil =>
            simp only [List.nil_append, List.cons.injEq] at h
            left
            rcases hd.1 with h1 | h1
            · rw [← h.1] at hs; rw [hs] at h1; cases h1
            · rcases List.any_eq_true.mp h1 with ⟨g, hg, hgi⟩
              exact hG g hg (condIncl_holds env g s.cond hgi hc)
          | cons b pre' =>
            simp only [List.cons_append, List.cons.injEq] at h
            rcases ih' pre' a post h.2 hs with h2 | ⟨g, hg1, hg2⟩
            · simp only [Bool.or_eq_true] at h2
              rcases h2 with h2 | h2
              · left; exact h2
              · right; exact ⟨s.act, by simp [h.1], h2⟩
            · right; exact ⟨g, by simp [hg1], hg2⟩
    · simp only [hc, Bool.false_eq_true, ↓reduceIte]
      refine ih _ seen hd.2 ?_
      intro g hg hh
      by_cases hgs : guard s.act = true
      · simp only [hgs, ↓reduceIte, List.mem_cons] at hg
        rcases hg with hg | hg
        · subst hg; exact absurd hh hc
        · exact hG g hg hh
      · simp only [hgs, Bool.false_eq_true, ↓reduceIte] at hg
        exact hG g hg hh

theorem domC_sound (guard sens : Act → Bool) (env : Env) (l : List Step)
    (h : domC guard sens [] l = true) : GuardedIn guard sens (exec env l).1 := by
  intro pre a post hp hs
  rcases domC_sound_aux guard sens env l [] false h (by simp) pre a post hp hs with h1 | h1
  · cases h1
  · exact h1

/-- a performed action is never a `raise` -/
theorem performed_not_raise (env : Env) (l : List Step) :
    ∀ a ∈ (execU env l).1, ∀ x, a ≠ .raise x := by
  induction l with
  | nil => simp [execU]
  | cons s rest ih =>
    unfold execU
    cases hf : failure env s with
    | some e => simp
    | none =>
      by_cases hx : s.act = .ret
      · simp [hx]
      · simp only [hx, ↓reduceIte, List.mem_cons, forall_eq_or_imp]
        refine ⟨?_, ih⟩
        intro x hsx
        simp [failure, hsx] at hf

end AQ.Tls
