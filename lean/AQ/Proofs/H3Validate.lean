/-
  Lemmas about AQ.Model.H3Validate: the validators accept exactly the lists
  described declaratively (used by AQ.Props.C15).
-/
import AQ.Model.H3Validate
import AQ.Model.H3ValidateSpec
namespace AQ.H3V
open AQ AQ.H3V.Spec

/-! ### character classes: facts about all 256 byte values -/

theorem badNameByte_false_iff (c : UInt8) : badNameByte c = false ↔ NameByteOk c := by
  unfold badNameByte NameByteOk
  simp only [Bool.or_eq_false_iff, Bool.and_eq_false_iff, decide_eq_false_iff_not, ge_iff_le,
    UInt8.le_iff_toNat_le]
  have : c.toNat < 256 := c.toNat_lt
  simp
  omega

theorem badValueByte_false_iff (c : UInt8) :
    badValueByte c = false ↔ (c.toNat ≠ 0x00 ∧ c.toNat ≠ 0x0D ∧ c.toNat ≠ 0x0A) := by
  unfold badValueByte
  simp only [Bool.or_eq_false_iff, decide_eq_false_iff_not, ← UInt8.toNat_inj]
  simp
  omega

theorem isWs_iff (c : UInt8) : isWs c = true ↔ IsWhitespace c := by
  unfold isWs IsWhitespace
  simp only [Bool.or_eq_true, decide_eq_true_eq, ← UInt8.toNat_inj]
  simp

theorem isPseudo_iff (n : Bytes) : isPseudo n = true ↔ IsPseudoName n := by
  unfold isPseudo IsPseudoName
  cases n <;> simp


/-! ### validate_header_name -/

theorem nameFrom_err (i : Nat) (n : Bytes) (e : Err) :
    validateHeaderNameFrom i n = .error e → e = msgErr := by
  induction n generalizing i with
  | nil => simp [validateHeaderNameFrom]
  | cons c cs ih =>
    simp only [validateHeaderNameFrom]
    split
    · intro h; cases h; rfl
    · split
      · intro h; cases h; rfl
      · exact ih (i + 1)

theorem nameFrom_succ_ok_iff (i : Nat) (n : Bytes) :
    validateHeaderNameFrom (i + 1) n = .ok () ↔
      (∀ c ∈ n, badNameByte c = false) ∧ (0x3A : UInt8) ∉ n := by
  induction n generalizing i with
  | nil => simp [validateHeaderNameFrom]
  | cons c cs ih =>
    simp only [validateHeaderNameFrom]
    by_cases hb : badNameByte c = true
    · simp [hb]
    · by_cases hc : c = 0x3A
      · simp [hc]
      · have hc' : ¬ (0x3A : UInt8) = c := fun h => hc h.symm
        simp [hb, hc, hc', ih (i + 1)]

theorem validateHeaderName_ok_iff (n : Bytes) :
    validateHeaderName n = .ok () ↔
      (∀ c ∈ n, badNameByte c = false) ∧ (0x3A : UInt8) ∉ n.tail := by
  unfold validateHeaderName
  cases n with
  | nil => simp [validateHeaderNameFrom]
  | cons c cs =>
    simp only [validateHeaderNameFrom]
    by_cases hb : badNameByte c = true
    · simp [hb]
    · simp [hb, nameFrom_succ_ok_iff 0 cs]

theorem validateHeaderName_err (n : Bytes) (e : Err) :
    validateHeaderName n = .error e → e = msgErr := nameFrom_err 0 n e

/-! ### validate_header_value -/

theorem valueLoop_ok_iff (v : Bytes) :
    valueLoop v = .ok () ↔ ∀ c ∈ v, badValueByte c = false := by
  induction v with
  | nil => simp [valueLoop]
  | cons c cs ih =>
    simp only [valueLoop]
    by_cases hb : badValueByte c = true
    · simp [hb]
    · simp [hb, ih]

theorem valueLoop_err (v : Bytes) (e : Err) : valueLoop v = .error e → e = msgErr := by
  induction v with
  | nil => simp [valueLoop]
  | cons c cs ih =>
    simp only [valueLoop]
    split
    · intro h; cases h; rfl
    · exact ih

theorem validateHeaderValue_err (v : Bytes) (e : Err) :
    validateHeaderValue v = .error e → e = msgErr := by
  unfold validateHeaderValue
  cases hl : valueLoop v with
  | error e' =>
    intro h
    have := valueLoop_err v e' hl
    simp [bind, Except.bind] at h
    subst h; exact this
  | ok u =>
    simp only [bind, Except.bind]
    cases v with
    | nil => simp
    | cons first rest =>
      simp only
      split
      · intro h; cases h; rfl
      · split
        · simp
        · split
          · intro h; cases h; rfl
          · simp

theorem validateHeaderValue_ok_iff (v : Bytes) :
    validateHeaderValue v = .ok () ↔ ValueOk v := by
  unfold validateHeaderValue ValueOk
  cases hl : valueLoop v with
  | error e' =>
    have : ¬ ∀ c ∈ v, badValueByte c = false := by
      rw [← valueLoop_ok_iff, hl]; simp
    simp only [bind, Except.bind]
    constructor
    · intro h; cases h
    · intro h; exact absurd (fun c hc => (badValueByte_false_iff c).2 (h.1 c hc)) this
  | ok u =>
    have hall : ∀ c ∈ v, badValueByte c = false := (valueLoop_ok_iff v).1 (by rw [hl])
    have hall' : ∀ c ∈ v, c.toNat ≠ 0x00 ∧ c.toNat ≠ 0x0D ∧ c.toNat ≠ 0x0A :=
      fun c hc => (badValueByte_false_iff c).1 (hall c hc)
    simp only [bind, Except.bind]
    cases v with
    | nil => simp
    | cons first rest =>
      simp only [List.head?_cons, Option.some.injEq]
      by_cases hw : isWs first = true
      · simp only [hw, if_true]
        constructor
        · intro h; cases h
        · intro h; exact absurd ((isWs_iff first).1 hw) (h.2.1 first rfl)
      · have hnw : ¬ IsWhitespace first := fun h => hw ((isWs_iff first).2 h)
        simp only [hw]
        cases rest with
        | nil =>
          simp only [List.getLast?_nil, List.getLast?_singleton, Option.some.injEq]
          constructor
          · intro _
            exact ⟨hall', fun c hc => hc ▸ hnw, fun c hc => hc ▸ hnw⟩
          · intro _; rfl
        | cons r rs =>
          have hlast : (first :: r :: rs).getLast? = (r :: rs).getLast? := by
            simp [List.getLast?_cons_cons]
          rw [hlast]
          cases hg : (r :: rs).getLast? with
          | none => simp at hg
          | some last =>
            simp only [Option.some.injEq]
            by_cases hwl : isWs last = true
            · simp only [hwl, if_true]
              constructor
              · intro h; cases h
              · intro h; exact absurd ((isWs_iff last).1 hwl) (h.2.2 last rfl)
            · have hnwl : ¬ IsWhitespace last := fun h => hwl ((isWs_iff last).2 h)
              simp only [hwl]
              constructor
              · intro _
                exact ⟨hall', fun c hc => hc ▸ hnw, fun c hc => hc ▸ hnwl⟩
              · intro _; rfl


/-! ### one iteration of the loop of validate_headers -/

/-- the content-length value parses to a non-negative integer -/
def clOk (v : Bytes) : Bool :=
  match parseContentLength v with
  | .ok _ => true
  | .error _ => false

theorem parseContentLength_err (v : Bytes) (e : Err) :
    parseContentLength v = .error e → e = msgErr := by
  unfold parseContentLength
  split
  · intro h; cases h; rfl
  · split
    · intro h; cases h; rfl
    · simp

theorem clOk_iff (v : Bytes) : clOk v = true ↔ ∃ n : Int, pyIntOfBytes v = some n ∧ 0 ≤ n := by
  unfold clOk parseContentLength
  cases h : pyIntOfBytes v with
  | none => simp
  | some n =>
    by_cases hn : n < 0
    · simp [hn]
    · simp [hn]; omega

/-- when iteration `h` of the loop raises nothing -/
def StepOk (allowed : List Bytes) (after : Bool) (seen : List Bytes) (h : Header) : Prop :=
  validateHeaderName h.1 = .ok () ∧ validateHeaderValue h.2 = .ok () ∧
  (if isPseudo h.1 then after = false ∧ h.1 ∈ allowed ∧ h.1 ∉ seen
   else (h.1 = bContentLength → clOk h.2 = true) ∧ (h.1 = bTransferEncoding → h.2 = bTrailers))

/-- the state after iteration `h` when it raises nothing -/
def nextState (hasStream : Bool) (s : VState) (h : Header) : VState :=
  if isPseudo h.1 then
    let s := { s with seen := h.1 :: s.seen }
    if h.1 = bAuthority then { s with authority := some h.2 }
    else if h.1 = bPath then { s with path := some h.2 }
    else if h.1 = bScheme then { s with scheme := some h.2 }
    else s
  else
    let s := { s with afterPseudo := true }
    if h.1 = bContentLength then
      match parseContentLength h.2 with
      | .ok n =>
        let s := { s with dcl := some n }
        if hasStream then { s with ecl := some n } else s
      | .error _ => s
    else s

/-- the duplicate check of iteration `h`: a content-length that parses equals the one declared before -/
def DclOk (dcl : Option Nat) (h : Header) : Prop :=
  h.1 = bContentLength → ∀ n, parseContentLength h.2 = .ok n → clConflict dcl n = false


theorem vstep_err (allowed : List Bytes) (hs : Bool) (s : VState) (h : Header) (e : Err) :
    vstep allowed hs s h = .error e → e = msgErr := by
  unfold vstep
  cases hn : validateHeaderName h.1 with
  | error e' =>
    intro hh; simp [bind, Except.bind] at hh; subst hh
    exact validateHeaderName_err _ _ hn
  | ok u =>
    cases hv : validateHeaderValue h.2 with
    | error e' =>
      intro hh; simp [bind, Except.bind] at hh; subst hh
      exact validateHeaderValue_err _ _ hv
    | ok u' =>
      simp only [bind, Except.bind]
      cases hp : parseContentLength h.2 with
      | error e' =>
        have := parseContentLength_err _ _ hp
        subst this
        intro hh
        repeat' split at hh
        all_goals first | (cases hh; rfl) | (simp_all; done)
      | ok n =>
        intro hh
        repeat' split at hh
        all_goals first | (cases hh; rfl) | (simp_all; done)

theorem vstep_ok_iff (allowed : List Bytes) (hs : Bool) (s s' : VState) (h : Header) :
    vstep allowed hs s h = .ok s' ↔
      StepOk allowed s.afterPseudo s.seen h ∧ DclOk s.dcl h ∧ s' = nextState hs s h := by
  unfold vstep StepOk nextState DclOk
  cases hn : validateHeaderName h.1 with
  | error e' => simp [bind, Except.bind]
  | ok u =>
    cases hv : validateHeaderValue h.2 with
    | error e' => simp [bind, Except.bind]
    | ok u' =>
      simp only [bind, Except.bind, true_and]
      by_cases hp : isPseudo h.1 = true
      · have hncl : h.1 ≠ bContentLength := by
          intro hc; rw [hc] at hp; revert hp; decide
        simp only [hp, if_true, hncl, false_implies, true_and]
        by_cases ha : s.afterPseudo = true
        · simp [ha]
        · by_cases hal : h.1 ∈ allowed
          · by_cases hse : h.1 ∈ s.seen
            · simp [ha, hal, hse]
            · have ha' : s.afterPseudo = false := by simpa using ha
              simp only [ha', hal, hse, not_true_eq_false, not_false_eq_true, if_false, and_self, true_and,
                Bool.false_eq_true]
              have d12 : bAuthority ≠ bPath := by decide
              have d13 : bAuthority ≠ bScheme := by decide
              have d23 : bPath ≠ bScheme := by decide
              by_cases h1 : h.1 = bAuthority
              · simp [h1, eq_comm]
              · by_cases h2 : h.1 = bPath
                · simp [h2, d12, eq_comm]
                · by_cases h3 : h.1 = bScheme
                  · simp [h3, d13, d23, eq_comm]
                  · simp [h1, h2, h3, eq_comm]
          · simp [ha, hal]
      · have hp' : isPseudo h.1 = false := by simpa using hp
        simp only [hp', Bool.false_eq_true, if_false]
        by_cases hcl : h.1 = bContentLength
        · have hne : bContentLength ≠ bTransferEncoding := by decide
          simp only [hcl, if_true, clOk]
          cases hpc : parseContentLength h.2 with
          | error e' => simp
          | ok n =>
            cases hcf : clConflict s.dcl n with
            | true => simp [hne, hcf]
            | false =>
              simp only [hcf, Bool.false_eq_true, if_false, hne, false_implies, and_true, true_and,
                Except.ok.injEq, forall_const]
              constructor
              · intro hh; exact ⟨fun m hm => hm ▸ hcf, hh.symm⟩
              · intro hh; rw [hh.2]
        · simp only [hcl, if_false]
          by_cases hte : h.1 = bTransferEncoding ∧ h.2 ≠ bTrailers
          · simp [hte]
          · simp only [hte, if_false]
            have : h.1 = bTransferEncoding → h.2 = bTrailers := fun hx =>
              Classical.byContradiction fun hne => hte ⟨hx, hne⟩
            constructor
            · intro hh; cases hh; exact ⟨⟨fun hx => hx.elim, this⟩, fun hx => hx.elim, rfl⟩
            · intro hh; rw [hh.2.2]

/-! ### the whole loop -/

def LoopOk (allowed : List Bytes) : Bool → List Bytes → Headers → Prop
  | _, _, [] => True
  | after, seen, h :: t => StepOk allowed after seen h ∧
      LoopOk allowed (after || !isPseudo h.1) (if isPseudo h.1 then h.1 :: seen else seen) t

/-- `declared_content_length` after iteration `h` -/
def nextDcl (dcl : Option Nat) (h : Header) : Option Nat :=
  if h.1 = bContentLength then
    match parseContentLength h.2 with
    | .ok n => some n
    | .error _ => dcl
  else dcl

/-- the duplicate check passes in every iteration -/
def DclLoop : Option Nat → Headers → Prop
  | _, [] => True
  | dcl, h :: t => DclOk dcl h ∧ DclLoop (nextDcl dcl h) t

def outState (hs : Bool) : VState → Headers → VState
  | s, [] => s
  | s, h :: t => outState hs (nextState hs s h) t

theorem nextState_after (hs : Bool) (s : VState) (h : Header) :
    (nextState hs s h).afterPseudo = (s.afterPseudo || !isPseudo h.1) := by
  unfold nextState
  by_cases hp : isPseudo h.1 = true
  · simp only [hp, if_true]
    repeat' split
    all_goals simp
  · have hp' : isPseudo h.1 = false := by simpa using hp
    simp only [hp', Bool.false_eq_true, if_false]
    repeat' split
    all_goals simp

theorem nextState_seen (hs : Bool) (s : VState) (h : Header) :
    (nextState hs s h).seen = if isPseudo h.1 then h.1 :: s.seen else s.seen := by
  unfold nextState
  by_cases hp : isPseudo h.1 = true
  · simp only [hp, if_true]
    repeat' split
    all_goals simp
  · have hp' : isPseudo h.1 = false := by simpa using hp
    simp only [hp', Bool.false_eq_true, if_false]
    repeat' split
    all_goals simp

theorem vloop_err (allowed : List Bytes) (hs : Bool) (s : VState) (l : Headers) (e : Err) :
    vloop allowed hs s l = .error e → e = msgErr := by
  induction l generalizing s with
  | nil => simp [vloop]
  | cons h t ih =>
    simp only [vloop, bind, Except.bind]
    cases hv : vstep allowed hs s h with
    | error e' => intro hh; cases hh; exact vstep_err _ _ _ _ _ hv
    | ok s1 => exact ih s1

theorem nextState_dcl (hs : Bool) (s : VState) (h : Header) :
    (nextState hs s h).dcl = nextDcl s.dcl h := by
  unfold nextState nextDcl
  by_cases hp : isPseudo h.1 = true
  · have h1 : h.1 ≠ bContentLength := by
      intro hc; rw [hc] at hp; revert hp; decide
    simp only [hp, if_true, h1, if_false]
    repeat' split
    all_goals rfl
  · have hp' : isPseudo h.1 = false := by simpa using hp
    simp only [hp', Bool.false_eq_true, if_false]
    by_cases hc : h.1 = bContentLength
    · cases hs <;> cases parseContentLength h.2 <;> simp [hc]
    · simp [hc]

theorem vloop_ok_iff (allowed : List Bytes) (hs : Bool) (s s' : VState) (l : Headers) :
    vloop allowed hs s l = .ok s' ↔
      LoopOk allowed s.afterPseudo s.seen l ∧ DclLoop s.dcl l ∧ s' = outState hs s l := by
  induction l generalizing s with
  | nil => simp [vloop, LoopOk, DclLoop, outState, eq_comm]
  | cons h t ih =>
    simp only [vloop, bind, Except.bind, LoopOk, DclLoop, outState]
    cases hv : vstep allowed hs s h with
    | error e' =>
      have : ¬ (StepOk allowed s.afterPseudo s.seen h ∧ DclOk s.dcl h) := by
        intro hk
        have := (vstep_ok_iff allowed hs s (nextState hs s h) h).2 ⟨hk.1, hk.2, rfl⟩
        rw [hv] at this; cases this
      constructor
      · intro hh; cases hh
      · rintro ⟨⟨h1, _⟩, ⟨h2, _⟩, _⟩; exact absurd ⟨h1, h2⟩ this
    | ok s1 =>
      have h1 := (vstep_ok_iff allowed hs s s1 h).1 hv
      rw [ih s1, h1.2.2, nextState_after, nextState_seen, nextState_dcl]
      simp only [h1.1, h1.2.1, true_and]

/-! ### the loop, declaratively -/

/-- the checks on one header that do not depend on the others -/
def LocalOk (h : Header) : Prop :=
  validateHeaderName h.1 = .ok () ∧ validateHeaderValue h.2 = .ok () ∧
  (h.1 = bContentLength → clOk h.2 = true) ∧ (h.1 = bTransferEncoding → h.2 = bTrailers)

theorem stepOk_iff (allowed : List Bytes) (after : Bool) (seen : List Bytes) (h : Header) :
    StepOk allowed after seen h ↔
      LocalOk h ∧ (isPseudo h.1 = true → after = false ∧ h.1 ∈ allowed ∧ h.1 ∉ seen) := by
  unfold StepOk LocalOk
  by_cases hp : isPseudo h.1 = true
  · have h1 : h.1 ≠ bContentLength := by
      intro hc; rw [hc] at hp; revert hp; decide
    have h2 : h.1 ≠ bTransferEncoding := by
      intro hc; rw [hc] at hp; revert hp; decide
    simp [hp, h1, h2, and_assoc]
  · simp [hp]

theorem loopOk_iff (allowed : List Bytes) (after : Bool) (seen : List Bytes) (l : Headers) :
    LoopOk allowed after seen l ↔
      (∀ h ∈ l, LocalOk h) ∧ (after = true → ∀ h ∈ l, isPseudo h.1 = false) ∧
      l.Pairwise (fun a b => isPseudo b.1 = true → isPseudo a.1 = true) ∧
      (∀ h ∈ l, isPseudo h.1 = true → h.1 ∈ allowed ∧ h.1 ∉ seen) ∧
      ((l.map (·.1)).filter isPseudo).Nodup := by
  induction l generalizing after seen with
  | nil => simp [LoopOk]
  | cons h t ih =>
    simp only [LoopOk, stepOk_iff, ih]
    by_cases hp : isPseudo h.1 = true
    · simp only [hp, List.mem_cons, List.pairwise_cons, List.map_cons, List.filter_cons, if_true,
        List.nodup_cons, List.mem_filter, List.mem_map]
      constructor
      · rintro ⟨⟨hl, ha⟩, hall, haft, hpw, hmem, hnd⟩
        have ha' := ha trivial
        refine ⟨?_, ?_, ⟨fun _ _ _ => trivial, hpw⟩, ?_, ?_, hnd⟩
        · intro x hx; rcases hx with rfl | hx
          · exact hl
          · exact hall x hx
        · intro haf; rw [ha'.1] at haf; cases haf
        · intro x hx hxp; rcases hx with rfl | hx
          · exact ⟨ha'.2.1, ha'.2.2⟩
          · have := hmem x hx hxp
            exact ⟨this.1, fun hin => this.2 (Or.inr hin)⟩
        · rintro ⟨⟨x, hx, hxe⟩, _⟩
          have hxp : isPseudo x.1 = true := by rw [hxe]; exact hp
          exact (hmem x hx hxp).2 (Or.inl hxe)
      · rintro ⟨hall, haft, ⟨_, hpw⟩, hmem, hnin, hnd⟩
        have haf : after = false := by
          cases after with
          | false => rfl
          | true => have := haft rfl h (Or.inl rfl); rw [hp] at this; cases this
        refine ⟨⟨hall h (Or.inl rfl), fun _ => ⟨haf, hmem h (Or.inl rfl) hp⟩⟩,
          fun x hx => hall x (Or.inr hx), ?_, hpw, ?_, hnd⟩
        · simp [haf]
        · intro x hx hxp
          refine ⟨(hmem x (Or.inr hx) hxp).1, ?_⟩
          intro hin
          rcases hin with heq | hin
          · exact hnin ⟨⟨x, hx, heq⟩, trivial⟩
          · exact (hmem x (Or.inr hx) hxp).2 hin
    · have hp' : isPseudo h.1 = false := by simpa using hp
      simp only [hp', List.mem_cons, List.pairwise_cons, List.map_cons, List.filter_cons,
        Bool.false_eq_true, if_false, Bool.not_false, Bool.or_true, false_implies, and_true,
        true_implies]
      constructor
      · rintro ⟨hl, hall, haft, hpw, hmem, hnd⟩
        refine ⟨?_, ?_, ⟨?_, hpw⟩, ?_, hnd⟩
        · intro x hx; rcases hx with rfl | hx
          · exact hl
          · exact hall x hx
        · intro _ x hx; rcases hx with rfl | hx
          · exact hp'
          · exact haft x hx
        · intro x hx hxp; rw [haft x hx] at hxp; cases hxp
        · intro x hx hxp; rcases hx with rfl | hx
          · rw [hp'] at hxp; cases hxp
          · exact hmem x hx hxp
      · rintro ⟨hall, haft, ⟨hfirst, hpw⟩, hmem, hnd⟩
        refine ⟨hall h (Or.inl rfl), fun x hx => hall x (Or.inr hx), ?_, hpw,
          fun x hx hxp => hmem x (Or.inr hx) hxp, hnd⟩
        intro x hx
        cases hxp : isPseudo x.1 with
        | false => rfl
        | true => exact absurd (hfirst x hx hxp) (by simp)

/-! ### the state after the loop -/

theorem outState_seen (hs : Bool) (l : Headers) (s : VState) (n : Bytes) :
    n ∈ (outState hs s l).seen ↔ n ∈ s.seen ∨ (isPseudo n = true ∧ n ∈ l.map (·.1)) := by
  induction l generalizing s with
  | nil => simp [outState]
  | cons h t ih =>
    simp only [outState, ih, nextState_seen, List.map_cons, List.mem_cons]
    by_cases hp : isPseudo h.1 = true
    · simp only [hp, if_true, List.mem_cons]
      constructor
      · rintro ((rfl | h1) | h2)
        · exact Or.inr ⟨hp, Or.inl rfl⟩
        · exact Or.inl h1
        · exact Or.inr ⟨h2.1, Or.inr h2.2⟩
      · rintro (h1 | ⟨h2, rfl | h3⟩)
        · exact Or.inl (Or.inr h1)
        · exact Or.inl (Or.inl rfl)
        · exact Or.inr ⟨h2, h3⟩
    · have hp' : isPseudo h.1 = false := by simpa using hp
      simp only [hp', Bool.false_eq_true, if_false]
      constructor
      · rintro (h1 | h2)
        · exact Or.inl h1
        · exact Or.inr ⟨h2.1, Or.inr h2.2⟩
      · rintro (h1 | ⟨h2, rfl | h3⟩)
        · exact Or.inl h1
        · rw [hp'] at h2; cases h2
        · exact Or.inr ⟨h2, h3⟩

/-- a pseudo-header value stored by the loop (`authority`, `path`, `scheme`) is
    the value of the header of that name, which is unique -/
theorem outState_field (allowed : List Bytes) (hs : Bool) (get : VState → Option Bytes) (k : Bytes)
    (hk : isPseudo k = true)
    (hset : ∀ (s : VState) (h : Header), h.1 = k → get (nextState hs s h) = some h.2)
    (hkeep : ∀ (s : VState) (h : Header), h.1 ≠ k → get (nextState hs s h) = get s)
    (l : Headers) (s : VState) (after : Bool) (seen : List Bytes)
    (hok : LoopOk allowed after seen l) (hs0 : (get s).isSome = true → k ∈ seen) (v : Bytes) :
    get (outState hs s l) = some v ↔ (get s = some v ∨ (k, v) ∈ l) := by
  induction l generalizing s after seen with
  | nil => simp [outState]
  | cons h t ih =>
    simp only [LoopOk] at hok
    obtain ⟨hstep, hrest⟩ := hok
    simp only [outState, List.mem_cons]
    by_cases hh : h.1 = k
    · have hp : isPseudo h.1 = true := by rw [hh]; exact hk
      have hnot : k ∉ seen := by
        have := ((stepOk_iff allowed after seen h).1 hstep).2 hp
        rw [hh] at this; exact this.2.2
      have hnone : get s = none := by
        cases hg : get s with
        | none => rfl
        | some x => exact absurd (hs0 (by rw [hg]; rfl)) hnot
      simp only [hp, if_true] at hrest
      rw [ih (nextState hs s h) _ _ hrest (by intro _; rw [hh]; exact List.mem_cons_self),
        hset s h hh, hnone]
      constructor
      · rintro (h1 | h2)
        · right; left
          cases h1
          exact Prod.ext hh.symm rfl
        · exact Or.inr (Or.inr h2)
      · rintro (h1 | h1 | h2)
        · cases h1
        · left; rw [← h1]
        · exact Or.inr h2
    · rw [ih (nextState hs s h) _ _ hrest
          (by intro hsome
              rw [hkeep s h hh] at hsome
              have := hs0 hsome
              split
              · exact List.mem_cons_of_mem _ this
              · exact this),
        hkeep s h hh]
      constructor
      · rintro (h1 | h2)
        · exact Or.inl h1
        · exact Or.inr (Or.inr h2)
      · rintro (h1 | h1 | h2)
        · exact Or.inl h1
        · exact absurd (by rw [← h1]) hh
        · exact Or.inr h2

theorem d_auth_path : bAuthority ≠ bPath := by decide
theorem d_auth_scheme : bAuthority ≠ bScheme := by decide
theorem d_path_scheme : bPath ≠ bScheme := by decide

theorem nextState_authority_set (hs : Bool) (s : VState) (h : Header) (hh : h.1 = bAuthority) :
    (nextState hs s h).authority = some h.2 := by
  have hp : isPseudo bAuthority = true := by decide
  simp [nextState, hp, hh]

theorem nextState_authority_keep (hs : Bool) (s : VState) (h : Header) (hh : h.1 ≠ bAuthority) :
    (nextState hs s h).authority = s.authority := by
  unfold nextState
  simp only [hh, if_false]
  repeat' split
  all_goals rfl

theorem nextState_path_set (hs : Bool) (s : VState) (h : Header) (hh : h.1 = bPath) :
    (nextState hs s h).path = some h.2 := by
  have hp : isPseudo bPath = true := by decide
  simp [nextState, hp, hh, d_auth_path.symm]

theorem nextState_path_keep (hs : Bool) (s : VState) (h : Header) (hh : h.1 ≠ bPath) :
    (nextState hs s h).path = s.path := by
  unfold nextState
  simp only [hh, if_false]
  repeat' split
  all_goals rfl

theorem nextState_scheme_set (hs : Bool) (s : VState) (h : Header) (hh : h.1 = bScheme) :
    (nextState hs s h).scheme = some h.2 := by
  have hp : isPseudo bScheme = true := by decide
  simp [nextState, hp, hh, d_auth_scheme.symm, d_path_scheme.symm]

theorem nextState_scheme_keep (hs : Bool) (s : VState) (h : Header) (hh : h.1 ≠ bScheme) :
    (nextState hs s h).scheme = s.scheme := by
  unfold nextState
  simp only [hh, if_false]
  repeat' split
  all_goals rfl

theorem nextState_ecl (hs : Bool) (s : VState) (h : Header) :
    (nextState hs s h).ecl =
      if hs = true ∧ h.1 = bContentLength then
        (match parseContentLength h.2 with
         | .ok n => some n
         | .error _ => s.ecl)
      else s.ecl := by
  unfold nextState
  by_cases hp : isPseudo h.1 = true
  · have h1 : h.1 ≠ bContentLength := by
      intro hc; rw [hc] at hp; revert hp; decide
    simp only [hp, if_true, h1, and_false, if_false]
    repeat' split
    all_goals rfl
  · have hp' : isPseudo h.1 = false := by simpa using hp
    simp only [hp', Bool.false_eq_true, if_false]
    by_cases hc : h.1 = bContentLength
    · cases hs <;> cases parseContentLength h.2 <;> simp [hc]
    · simp [hc]

theorem outState_ecl (hs : Bool) (l : Headers) (s : VState) :
    (outState hs s l).ecl =
      if hs = true then (match declaredCL l with | some n => some n | none => s.ecl) else s.ecl := by
  induction l generalizing s with
  | nil => simp [outState, declaredCL]
  | cons h t ih =>
    simp only [outState, ih, nextState_ecl, declaredCL]
    cases hs with
    | false => simp
    | true =>
      simp only [true_and, if_true]
      cases hd : declaredCL t with
      | some n => simp
      | none =>
        simp only
        by_cases hc : h.1 = bContentLength
        · simp only [hc, if_true]
          cases hpc : parseContentLength h.2 <;> simp
        · simp [hc]

/-! ### the checks after the loop, and the whole validator -/

theorem falsy_false_iff (o : Option Bytes) : falsy o = false ↔ ∃ a, o = some a ∧ a ≠ [] := by
  cases o with
  | none => simp [falsy]
  | some b => cases b <;> simp [falsy]

theorem vfinal_err (req : List Bytes) (s : VState) (e : Err) : vfinal req s = .error e → e = msgErr := by
  unfold vfinal
  intro hh
  repeat' split at hh
  all_goals first | (cases hh; rfl) | (simp at hh; done)

theorem vfinal_ok_iff (req : List Bytes) (s : VState) (r : Option Nat) :
    vfinal req s = .ok r ↔
      (∀ n ∈ req, n ∈ s.seen) ∧
      ((s.scheme = some bHttp ∨ s.scheme = some bHttps) → falsy s.authority = false ∧ falsy s.path = false) ∧
      r = s.ecl := by
  unfold vfinal
  by_cases hm : (req.filter (fun r => ¬ r ∈ s.seen)) ≠ []
  · have : ¬ ∀ n ∈ req, n ∈ s.seen := by
      intro hall
      apply hm
      rw [List.filter_eq_nil_iff]
      intro a ha; simpa using hall a ha
    simp [this]
  · have hall : ∀ n ∈ req, n ∈ s.seen := by
      have : req.filter (fun r => ¬ r ∈ s.seen) = [] := Classical.byContradiction hm
      rw [List.filter_eq_nil_iff] at this
      intro a ha; simpa using this a ha
    simp only [hm, if_false]
    have key : (if s.scheme = some bHttp ∨ s.scheme = some bHttps then
          if falsy s.authority = true then Except.error msgErr
          else if falsy s.path = true then Except.error msgErr else Except.ok s.ecl
        else Except.ok s.ecl) = Except.ok r ↔
        ((s.scheme = some bHttp ∨ s.scheme = some bHttps) →
          falsy s.authority = false ∧ falsy s.path = false) ∧ r = s.ecl := by
      by_cases hsch : s.scheme = some bHttp ∨ s.scheme = some bHttps
      · simp only [hsch, if_true]
        cases ha : falsy s.authority <;> cases hp : falsy s.path <;> simp [eq_comm]
      · simp only [hsch, if_false, false_implies, true_and]
        constructor
        · intro h; cases h; rfl
        · intro h; rw [h]
    rw [key]
    exact ⟨fun h => ⟨hall, h⟩, fun h => h.2⟩

/-- all content-length declarations agree -/
def AllSame (l : List Nat) : Prop := ∀ a ∈ l, ∀ b ∈ l, a = b

/-- what `validate_headers` checks beyond the rules of the property -/
def ExtraChecks (kind : Kind) (hs : Headers) : Prop :=
  -- a colon only as the first byte of a name
  (∀ h ∈ hs, (0x3A : UInt8) ∉ h.1.tail)
  -- `int(value)` succeeds on every content-length and is not negative
  ∧ (∀ h ∈ hs, h.1 = bContentLength → ∃ n : Int, pyIntOfBytes h.2 = some n ∧ 0 ≤ n)
  -- all content-length headers of the block declare the same integer
  ∧ AllSame (allDeclaredCL hs)
  -- transfer-encoding, if present, is `trailers`
  ∧ (∀ h ∈ hs, h.1 = bTransferEncoding → h.2 = bTrailers)
  -- the code's required sets: requests also need `:authority`, push promises all four
  ∧ (∀ n ∈ requiredPseudo kind, n ∈ names hs)
  -- `scheme in (b"http", b"https")` ⇒ non-empty `:authority` and `:path`
  ∧ (∀ sch, (bScheme, sch) ∈ hs → sch = bHttp ∨ sch = bHttps →
      (∃ a, (bAuthority, a) ∈ hs ∧ a ≠ []) ∧ (∃ p, (bPath, p) ∈ hs ∧ p ≠ []))

theorem validateHeaders_err (a req : List Bytes) (hs : Bool) (ecl0 : Option Nat) (l : Headers) (e : Err) :
    validateHeaders a req hs ecl0 l = .error e → e = msgErr := by
  unfold validateHeaders
  simp only [bind, Except.bind]
  cases hv : vloop a hs { ecl := ecl0 } l with
  | error e' => intro hh; cases hh; exact vloop_err _ _ _ _ _ hv
  | ok s' => exact vfinal_err _ _ _

theorem clConflict_false_iff (dcl : Option Nat) (n : Nat) :
    clConflict dcl n = false ↔ ∀ d, dcl = some d → d = n := by
  cases dcl with
  | none => simp [clConflict]
  | some d => simp [clConflict]

theorem allSame_cons_cons (d n : Nat) (A : List Nat) :
    AllSame (d :: n :: A) ↔ d = n ∧ AllSame (n :: A) := by
  unfold AllSame
  constructor
  · intro h
    refine ⟨h d (by simp) n (by simp), fun a ha b hb => h a (List.mem_cons_of_mem _ ha) b (List.mem_cons_of_mem _ hb)⟩
  · rintro ⟨rfl, h⟩ a ha b hb
    have ha' : a ∈ d :: A := by
      rcases List.mem_cons.1 ha with rfl | ha
      · exact List.mem_cons_self
      · exact ha
    have hb' : b ∈ d :: A := by
      rcases List.mem_cons.1 hb with rfl | hb
      · exact List.mem_cons_self
      · exact hb
    exact h a ha' b hb'

theorem dclLoop_iff (dcl : Option Nat) (l : Headers) :
    DclLoop dcl l ↔ AllSame (dcl.toList ++ allDeclaredCL l) := by
  induction l generalizing dcl with
  | nil =>
    simp only [DclLoop, allDeclaredCL, List.append_nil, true_iff]
    cases dcl with
    | none => intro a ha; cases ha
    | some d => intro a ha b hb; simp at ha hb; rw [ha, hb]
  | cons h t ih =>
    simp only [DclLoop, allDeclaredCL, DclOk, nextDcl, ih]
    by_cases hc : h.1 = bContentLength
    · simp only [hc, if_true, true_implies]
      cases hp : parseContentLength h.2 with
      | error e => simp
      | ok n =>
        simp only [Except.ok.injEq, forall_eq', clConflict_false_iff, Option.toList_some,
          List.singleton_append]
        cases dcl with
        | none => simp
        | some d =>
          simp only [Option.some.injEq, forall_eq', Option.toList_some, List.singleton_append]
          exact (allSame_cons_cons d n _).symm
    · simp [hc]

theorem validateHeaders_ok_iff (a req : List Bytes) (hs : Bool) (ecl0 : Option Nat) (l : Headers)
    (r : Option Nat) :
    validateHeaders a req hs ecl0 l = .ok r ↔
      LoopOk a false [] l ∧ AllSame (allDeclaredCL l) ∧
      vfinal req (outState hs { ecl := ecl0 } l) = .ok r := by
  unfold validateHeaders
  simp only [bind, Except.bind]
  have hd : DclLoop ({ ecl := ecl0 } : VState).dcl l ↔ AllSame (allDeclaredCL l) := by
    rw [dclLoop_iff]; rfl
  cases hv : vloop a hs { ecl := ecl0 } l with
  | error e' =>
    have : ¬ (LoopOk a false [] l ∧ AllSame (allDeclaredCL l)) := by
      intro hk
      have := (vloop_ok_iff a hs { ecl := ecl0 } _ l).2 ⟨hk.1, hd.2 hk.2, rfl⟩
      rw [hv] at this; cases this
    constructor
    · intro hh; cases hh
    · rintro ⟨h1, h2, _⟩; exact absurd ⟨h1, h2⟩ this
  | ok s' =>
    have := (vloop_ok_iff a hs { ecl := ecl0 } s' l).1 hv
    simp only [this.2.2, this.1, hd.1 this.2.1, true_and]

theorem required_pseudo (kind : Kind) : ∀ n ∈ requiredPseudo kind, isPseudo n = true := by
  cases kind <;> decide

theorem needed_required (kind : Kind) : ∀ n ∈ neededPseudo kind, n ∈ requiredPseudo kind := by
  cases kind <;> decide

theorem allowed_known (kind : Kind) : allowedPseudo kind = knownPseudo kind := by
  cases kind <;> rfl

theorem filter_pseudo_eq (l : List Bytes) :
    l.filter (fun n => decide (IsPseudoName n)) = l.filter isPseudo := by
  congr 1
  funext n
  cases h : isPseudo n with
  | true => simp [(isPseudo_iff n).1 h]
  | false =>
    have : ¬ IsPseudoName n := fun hh => by rw [(isPseudo_iff n).2 hh] at h; cases h
    simp [this]

theorem localOk_iff (h : Header) :
    LocalOk h ↔ NameOk h.1 ∧ ValueOk h.2 ∧ (0x3A : UInt8) ∉ h.1.tail ∧
      (h.1 = bContentLength → ∃ n : Int, pyIntOfBytes h.2 = some n ∧ 0 ≤ n) ∧
      (h.1 = bTransferEncoding → h.2 = bTrailers) := by
  unfold LocalOk NameOk
  rw [validateHeaderName_ok_iff, validateHeaderValue_ok_iff]
  simp only [badNameByte_false_iff, clOk_iff]
  constructor
  · rintro ⟨⟨h1, h2⟩, h3, h4, h5⟩; exact ⟨h1, h3, h2, h4, h5⟩
  · rintro ⟨h1, h3, h2, h4, h5⟩; exact ⟨⟨h1, h2⟩, h3, h4, h5⟩

theorem validateOn_err (kind : Kind) (ecl0 : Option Nat) (hs : Headers) (e : Err) :
    validateOn kind ecl0 hs = .error e → e = msgErr := validateHeaders_err _ _ _ _ _ _

theorem validateOn_ok_iff (kind : Kind) (ecl0 : Option Nat) (hs : Headers) (r : Option Nat) :
    validateOn kind ecl0 hs = .ok r ↔
      WellFormed kind hs ∧ ExtraChecks kind hs ∧
      r = (if hasStream kind = true then
             (match declaredCL hs with | some n => some n | none => ecl0) else ecl0) := by
  unfold validateOn
  rw [validateHeaders_ok_iff, vfinal_ok_iff, outState_ecl]
  constructor
  · rintro ⟨hloop, hsame, hreq, hsch, hr⟩
    have hl := (loopOk_iff _ _ _ _).1 hloop
    obtain ⟨hA, _, hC, hD, hE⟩ := hl
    have hreq' : ∀ n ∈ requiredPseudo kind, n ∈ names hs := by
      intro n hn
      rcases (outState_seen _ hs _ n).1 (hreq n hn) with h1 | h1
      · simp at h1
      · exact h1.2
    have fS := outState_field (allowedPseudo kind) (hasStream kind) VState.scheme bScheme (by decide)
      (nextState_scheme_set _) (nextState_scheme_keep _) hs { ecl := ecl0 } false [] hloop (by simp)
    have fA := outState_field (allowedPseudo kind) (hasStream kind) VState.authority bAuthority (by decide)
      (nextState_authority_set _) (nextState_authority_keep _) hs { ecl := ecl0 } false [] hloop (by simp)
    have fP := outState_field (allowedPseudo kind) (hasStream kind) VState.path bPath (by decide)
      (nextState_path_set _) (nextState_path_keep _) hs { ecl := ecl0 } false [] hloop (by simp)
    refine ⟨⟨?_, ?_, ?_, ?_, ?_, ?_⟩, ⟨?_, ?_, hsame, ?_, hreq', ?_⟩, hr⟩
    · exact fun h hh => ((localOk_iff h).1 (hA h hh)).1
    · exact fun h hh => ((localOk_iff h).1 (hA h hh)).2.1
    · exact hC.imp (fun {a b} hab hb => (isPseudo_iff _).1 (hab ((isPseudo_iff _).2 hb)))
    · rw [filter_pseudo_eq]; exact hE
    · intro h hh hp
      rw [← allowed_known]
      exact (hD h hh ((isPseudo_iff _).2 hp)).1
    · exact fun n hn => hreq' n (needed_required kind n hn)
    · exact fun h hh => ((localOk_iff h).1 (hA h hh)).2.2.1
    · exact fun h hh => ((localOk_iff h).1 (hA h hh)).2.2.2.1
    · exact fun h hh => ((localOk_iff h).1 (hA h hh)).2.2.2.2
    · intro sch hmem hsv
      have hs1 : (outState (hasStream kind) { ecl := ecl0 } hs).scheme = some sch :=
        (fS sch).2 (Or.inr hmem)
      have := hsch (by rcases hsv with rfl | rfl <;> simp [hs1])
      obtain ⟨a, ha, hane⟩ := (falsy_false_iff _).1 this.1
      obtain ⟨p, hp, hpne⟩ := (falsy_false_iff _).1 this.2
      refine ⟨⟨a, ?_, hane⟩, ⟨p, ?_, hpne⟩⟩
      · rcases (fA a).1 ha with h1 | h1
        · cases h1
        · exact h1
      · rcases (fP p).1 hp with h1 | h1
        · cases h1
        · exact h1
  · rintro ⟨⟨w1, w2, w3, w4, w5, w6⟩, ⟨e1, e2, esame, e3, e4, e5⟩, hr⟩
    have hloop : LoopOk (allowedPseudo kind) false [] hs := by
      rw [loopOk_iff]
      refine ⟨?_, by simp, ?_, ?_, ?_⟩
      · intro h hh
        exact (localOk_iff h).2 ⟨w1 h hh, w2 h hh, e1 h hh, e2 h hh, e3 h hh⟩
      · exact w3.imp (fun {a b} hab hb => (isPseudo_iff _).2 (hab ((isPseudo_iff _).1 hb)))
      · intro h hh hp
        rw [allowed_known]
        exact ⟨w5 h hh ((isPseudo_iff _).1 hp), by simp⟩
      · rw [← filter_pseudo_eq]; exact w4
    have fS := outState_field (allowedPseudo kind) (hasStream kind) VState.scheme bScheme (by decide)
      (nextState_scheme_set _) (nextState_scheme_keep _) hs { ecl := ecl0 } false [] hloop (by simp)
    have fA := outState_field (allowedPseudo kind) (hasStream kind) VState.authority bAuthority (by decide)
      (nextState_authority_set _) (nextState_authority_keep _) hs { ecl := ecl0 } false [] hloop (by simp)
    have fP := outState_field (allowedPseudo kind) (hasStream kind) VState.path bPath (by decide)
      (nextState_path_set _) (nextState_path_keep _) hs { ecl := ecl0 } false [] hloop (by simp)
    refine ⟨hloop, esame, ?_, ?_, hr⟩
    · intro n hn
      rw [outState_seen]
      right
      exact ⟨required_pseudo kind n hn, by simpa [names] using e4 n hn⟩
    · intro hsv
      have hex : ∃ sch, (sch = bHttp ∨ sch = bHttps) ∧
          (outState (hasStream kind) { ecl := ecl0 } hs).scheme = some sch := by
        rcases hsv with h1 | h1
        · exact ⟨_, Or.inl rfl, h1⟩
        · exact ⟨_, Or.inr rfl, h1⟩
      obtain ⟨sch, hsv', hs1⟩ := hex
      have hmem : (bScheme, sch) ∈ hs := by
        rcases (fS sch).1 hs1 with h1 | h1
        · cases h1
        · exact h1
      obtain ⟨⟨a, ha, hane⟩, ⟨p, hp, hpne⟩⟩ := e5 sch hmem hsv'
      exact ⟨(falsy_false_iff _).2 ⟨a, (fA a).2 (Or.inr ha), hane⟩,
        (falsy_false_iff _).2 ⟨p, (fP p).2 (Or.inr hp), hpne⟩⟩

/-! ### `_handle_request_or_push_frame`, case by case -/

theorem handleFrame_data_ok {s s' : St} {n : Nat} {e : Bool} {evs : List Event}
    (h : handleFrame s (.data n) e = .ok (s', evs)) :
    s.hstate = .afterHeaders ∧ s' = { s with cl := s.cl + n } ∧
    (e = true → checkContentLength s' = .ok ()) ∧
    evs = (if e = true ∨ n ≠ 0 then [.data n e] else []) := by
  simp only [handleFrame] at h
  split at h
  · cases h
  · rename_i hh
    have hh' : s.hstate = .afterHeaders := Classical.byContradiction hh
    simp only [bind, Except.bind] at h
    cases e with
    | false =>
      simp only [Bool.false_eq_true, if_false] at h
      cases h
      exact ⟨hh', rfl, by simp, by simp⟩
    | true =>
      simp only [if_true] at h
      cases hc : checkContentLength { s with cl := s.cl + n } with
      | error e' => rw [hc] at h; cases h
      | ok u =>
        rw [hc] at h
        cases h
        exact ⟨hh', rfl, fun _ => hc, by simp⟩

theorem handleFrame_headers_ok {s s' : St} {hs : Headers} {e : Bool} {evs : List Event}
    (h : handleFrame s (.headers hs) e = .ok (s', evs)) :
    s.hstate ≠ .afterTrailers ∧ evs = [.headers hs e] ∧
    (e = true → checkContentLength s' = .ok ()) ∧
    ((s.hstate = .initial ∧ ∃ r, validateOn (hdrKind s) s.ecl hs = .ok r ∧
        s' = { s with ecl := r, hstate := .afterHeaders }) ∨
     (s.hstate = .afterHeaders ∧ (∃ r, validateOn .trailers none hs = .ok r) ∧
        s' = { s with hstate := .afterTrailers })) := by
  simp only [handleFrame] at h
  split at h
  · cases h
  · rename_i ht
    split at h
    · rename_i hi
      simp only [bind, Except.bind] at h
      cases hv : validateOn (hdrKind s) s.ecl hs with
      | error e' => rw [hv] at h; cases h
      | ok r =>
        rw [hv] at h
        cases e with
        | false =>
          simp only [Bool.false_eq_true, if_false] at h
          cases h
          exact ⟨ht, rfl, by simp, Or.inl ⟨hi, r, rfl, rfl⟩⟩
        | true =>
          simp only [if_true] at h
          cases hc : checkContentLength { s with ecl := r } with
          | error e' => rw [hc] at h; cases h
          | ok u =>
            rw [hc] at h
            cases h
            refine ⟨ht, rfl, fun _ => ?_, Or.inl ⟨hi, r, rfl, rfl⟩⟩
            simpa [checkContentLength] using hc
    · rename_i hi
      have ha : s.hstate = .afterHeaders := by
        cases hh : s.hstate with
        | initial => exact absurd hh hi
        | afterHeaders => rfl
        | afterTrailers => exact absurd hh ht
      simp only [bind, Except.bind] at h
      cases hv : validateOn .trailers none hs with
      | error e' => rw [hv] at h; cases h
      | ok r =>
        rw [hv] at h
        cases e with
        | false =>
          simp only [Bool.false_eq_true, if_false] at h
          cases h
          exact ⟨ht, rfl, by simp, Or.inr ⟨ha, ⟨r, rfl⟩, rfl⟩⟩
        | true =>
          simp only [if_true] at h
          cases hc : checkContentLength s with
          | error e' => rw [hc] at h; cases h
          | ok u =>
            rw [hc] at h
            cases h
            refine ⟨ht, rfl, fun _ => ?_, Or.inr ⟨ha, ⟨r, rfl⟩, rfl⟩⟩
            simpa [checkContentLength] using hc

theorem handleFrame_pp_ok {s s' : St} {hs : Headers} {e : Bool} {evs : List Event}
    (h : handleFrame s (.pushPromise hs) e = .ok (s', evs)) :
    s' = s ∧ evs = [.pushPromise hs] ++ (if e = true then [.data 0 true] else []) ∧
      (e = true → checkContentLength s = .ok ()) ∧ s.isPush = false ∧ s.isClient = true ∧
      ∃ r, validateOn .push none hs = .ok r := by
  simp only [handleFrame] at h
  cases hp : s.isPush with
  | true => simp [hp] at h
  | false =>
    cases hc : s.isClient with
    | false => simp [hp, hc] at h
    | true =>
      simp only [hp, hc, Bool.false_eq_true, if_false, not_true_eq_false, bind, Except.bind] at h
      cases hv : validateOn .push none hs with
      | error e' => rw [hv] at h; cases h
      | ok r =>
        rw [hv] at h
        cases e with
        | false =>
          simp only [Bool.false_eq_true, if_false] at h
          cases h
          exact ⟨rfl, by simp, by simp, rfl, rfl, r, rfl⟩
        | true =>
          simp only [if_true] at h
          cases hk : checkContentLength s with
          | error e' => rw [hk] at h; cases h
          | ok u =>
            rw [hk] at h
            cases h
            exact ⟨rfl, by simp, fun _ => rfl, rfl, rfl, r, rfl⟩

theorem handleFrame_other_ok {s s' : St} {t : Nat} {e : Bool} {evs : List Event}
    (h : handleFrame s (.other t) e = .ok (s', evs)) :
    s' = s ∧ evs = (if e = true then [.data 0 true] else []) ∧
      (e = true → checkContentLength s = .ok ()) := by
  simp only [handleFrame] at h
  split at h
  · cases h
  · simp only [bind, Except.bind] at h
    cases e with
    | false =>
      simp only [Bool.false_eq_true, if_false] at h
      cases h; exact ⟨rfl, by simp, by simp⟩
    | true =>
      simp only [if_true] at h
      cases hk : checkContentLength s with
      | error e' => rw [hk] at h; cases h
      | ok u =>
        rw [hk] at h
        cases h
        exact ⟨rfl, by simp, fun _ => rfl⟩

/-! ### content-length bookkeeping over event traces -/

theorem bodyBytes_append (a b : List Event) : bodyBytes (a ++ b) = bodyBytes a + bodyBytes b := by
  induction a with
  | nil => simp [bodyBytes]
  | cons x t ih => cases x <;> simp [bodyBytes, ih, Nat.add_assoc]

theorem firstHeaders_append (a b : List Event) :
    firstHeaders (a ++ b) = (match firstHeaders a with | some h => some h | none => firstHeaders b) := by
  induction a with
  | nil => simp [firstHeaders]
  | cons x t ih => cases x <;> simp [firstHeaders, ih]

/-- at every event that reports the end of the stream, a content-length
    declared by the first HEADERS received so far equals the body bytes
    delivered so far -/
def CLOk (evs : List Event) : Prop :=
  ∀ p, p <+: evs → ∀ ev, p.getLast? = some ev → ev.ended = true →
    ∀ hs0 n, firstHeaders p = some hs0 → n ∈ allDeclaredCL hs0 → bodyBytes p = n

/-- the stream fields agree with the events reported so far -/
def Inv (s : St) (evs : List Event) : Prop :=
  s.cl = bodyBytes evs ∧
  (s.hstate = .initial → firstHeaders evs = none ∧ s.ecl = none) ∧
  (s.hstate ≠ .initial → ∃ hs0, firstHeaders evs = some hs0 ∧ s.ecl = declaredCL hs0 ∧
    AllSame (allDeclaredCL hs0))

theorem clOk_nil : CLOk [] := by
  intro p hp ev hev
  have : p = [] := List.prefix_nil.1 hp
  subst this; simp at hev

theorem clOk_emit (evs : List Event) (ev : Event) (h : CLOk evs)
    (hev : ev.ended = true → ∀ hs0 n, firstHeaders (evs ++ [ev]) = some hs0 →
      n ∈ allDeclaredCL hs0 → bodyBytes (evs ++ [ev]) = n) : CLOk (evs ++ [ev]) := by
  intro p hp x hx hxe
  rcases List.prefix_concat_iff.1 hp with rfl | hp'
  · simp at hx; subst hx; exact hev hxe
  · exact h p hp' x hx hxe

theorem declaredCL_eq_getLast (hs : Headers) : declaredCL hs = (allDeclaredCL hs).getLast? := by
  induction hs with
  | nil => rfl
  | cons h t ih =>
    simp only [declaredCL, allDeclaredCL, ih]
    by_cases hc : h.1 = bContentLength
    · simp only [hc, if_true]
      cases hp : parseContentLength h.2 with
      | error e => cases (allDeclaredCL t).getLast? <;> rfl
      | ok n =>
        cases hl : allDeclaredCL t with
        | nil => simp
        | cons a A =>
          simp only [List.getLast?_cons_cons]
          cases hg : (a :: A).getLast? with
          | none => simp at hg
          | some m => rfl
    · simp only [hc, if_false]
      cases (allDeclaredCL t).getLast? <;> rfl

theorem declaredCL_of_mem {hs : Headers} {n : Nat} (hsame : AllSame (allDeclaredCL hs))
    (hn : n ∈ allDeclaredCL hs) : declaredCL hs = some n := by
  rw [declaredCL_eq_getLast]
  cases hl : (allDeclaredCL hs).getLast? with
  | none => rw [List.getLast?_eq_none_iff.1 hl] at hn; cases hn
  | some m => rw [hsame n hn m (List.mem_of_getLast? hl)]

/-- a passed `_check_content_length` is what an ended event needs -/
theorem ended_ok (s : St) (evs : List Event) (hi : Inv s evs) (hc : checkContentLength s = .ok ()) :
    ∀ hs0 n, firstHeaders evs = some hs0 → n ∈ allDeclaredCL hs0 → bodyBytes evs = n := by
  intro hs0 n hf hmem
  obtain ⟨hcl, h0, h1⟩ := hi
  by_cases hst : s.hstate = .initial
  · rw [(h0 hst).1] at hf; cases hf
  · obtain ⟨hs0', hf', he, hsame⟩ := h1 hst
    rw [hf'] at hf; cases hf
    have hd := declaredCL_of_mem hsame hmem
    rw [hd] at he
    simp only [checkContentLength, he] at hc
    rw [← hcl]
    split at hc
    · cases hc
    · rename_i hne; exact Classical.byContradiction hne

def Good (s : St) (evs : List Event) : Prop := Inv s evs ∧ CLOk evs

theorem inv_congr {s s' : St} {evs : List Event} (h : Inv s evs)
    (h1 : s'.hstate = s.hstate) (h2 : s'.ecl = s.ecl) (h3 : s'.cl = s.cl) : Inv s' evs := by
  unfold Inv at *; rw [h1, h2, h3]; exact h

theorem good_congr {s s' : St} {evs : List Event} (h : Good s evs)
    (h1 : s'.hstate = s.hstate) (h2 : s'.ecl = s.ecl) (h3 : s'.cl = s.cl) : Good s' evs :=
  ⟨inv_congr h.1 h1 h2 h3, h.2⟩

theorem hdrKind_hasStream (s : St) (hi : s.hstate = .initial) : hasStream (hdrKind s) = true := by
  unfold hdrKind; simp only [hi, if_true]; cases s.isClient <;> rfl

/-- reporting an event that carries no body byte and no header block -/
theorem good_emit_zero {s : St} {evs : List Event} (hg : Good s evs) (ev : Event)
    (hb : bodyBytes [ev] = 0) (hf : firstHeaders [ev] = none)
    (hchk : ev.ended = true → checkContentLength s = .ok ()) : Good s (evs ++ [ev]) := by
  obtain ⟨⟨hcl, h0, h1⟩, hc⟩ := hg
  have hinv : Inv s (evs ++ [ev]) := by
    refine ⟨?_, ?_, ?_⟩
    · simp [bodyBytes_append, hb, hcl]
    · intro hh
      refine ⟨?_, (h0 hh).2⟩
      simp [firstHeaders_append, (h0 hh).1, hf]
    · intro hne
      obtain ⟨hs0, hf0, he⟩ := h1 hne
      exact ⟨hs0, by simp [firstHeaders_append, hf0], he⟩
  exact ⟨hinv, clOk_emit _ _ hc (fun hend => ended_ok _ _ hinv (hchk hend))⟩

theorem handleFrame_good {s s' : St} {f : Frame} {e : Bool} {evs new : List Event}
    (hg : Good s evs) (h : handleFrame s f e = .ok (s', new)) : Good s' (evs ++ new) := by
  obtain ⟨hi, hc⟩ := hg
  obtain ⟨hcl, h0, h1⟩ := hi
  cases f with
  | data n =>
    obtain ⟨hst, rfl, hchk, rfl⟩ := handleFrame_data_ok h
    have hne : s.hstate ≠ .initial := by rw [hst]; decide
    by_cases hcond : e = true ∨ n ≠ 0
    · simp only [hcond, if_true]
      have hinv : Inv { s with cl := s.cl + n } (evs ++ [.data n e]) := by
        refine ⟨?_, ?_, ?_⟩
        · simp [bodyBytes_append, bodyBytes, hcl]
        · intro hh; exact absurd hh hne
        · intro _
          obtain ⟨hs0, hf, he⟩ := h1 hne
          exact ⟨hs0, by simp [firstHeaders_append, hf], he⟩
      refine ⟨hinv, clOk_emit _ _ hc ?_⟩
      intro hend
      exact ended_ok _ _ hinv (hchk hend)
    · have hn : n = 0 := by
        cases e <;> simp at hcond ⊢
        exact hcond
      simp only [hcond, if_false, List.append_nil]
      subst hn
      exact ⟨⟨by simpa using hcl, h0, h1⟩, hc⟩
  | headers hs =>
    obtain ⟨_, rfl, hchk, hcase⟩ := handleFrame_headers_ok h
    rcases hcase with ⟨hst, r, hv, rfl⟩ | ⟨hst, _, rfl⟩
    · have hr := ((validateOn_ok_iff _ _ _ _).1 hv).2.2
      rw [hdrKind_hasStream s hst, (h0 hst).2] at hr
      have hr' : r = declaredCL hs := by
        rw [hr]; simp only [if_true]; cases declaredCL hs <;> rfl
      have hinv : Inv { s with ecl := r, hstate := .afterHeaders } (evs ++ [.headers hs e]) := by
        refine ⟨?_, ?_, ?_⟩
        · simp [bodyBytes_append, bodyBytes, hcl]
        · intro hh; cases hh
        · intro _
          exact ⟨hs, by simp [firstHeaders_append, (h0 hst).1, firstHeaders], hr',
            ((validateOn_ok_iff _ _ _ _).1 hv).2.1.2.2.1⟩
      refine ⟨hinv, clOk_emit _ _ hc ?_⟩
      intro hend
      exact ended_ok _ _ hinv (hchk hend)
    · have hne : s.hstate ≠ .initial := by rw [hst]; decide
      have hinv : Inv { s with hstate := .afterTrailers } (evs ++ [.headers hs e]) := by
        refine ⟨?_, ?_, ?_⟩
        · simp [bodyBytes_append, bodyBytes, hcl]
        · intro hh; cases hh
        · intro _
          obtain ⟨hs0, hf, he⟩ := h1 hne
          exact ⟨hs0, by simp [firstHeaders_append, hf], he⟩
      refine ⟨hinv, clOk_emit _ _ hc ?_⟩
      intro hend
      exact ended_ok _ _ hinv (hchk hend)
  | pushPromise hs =>
    obtain ⟨rfl, rfl, hchk, _⟩ := handleFrame_pp_ok h
    have g1 : Good s' (evs ++ [.pushPromise hs]) :=
      good_emit_zero ⟨⟨hcl, h0, h1⟩, hc⟩ _ rfl rfl (by intro hh; cases hh)
    cases e with
    | false => simpa using g1
    | true =>
      have g2 := good_emit_zero g1 (.data 0 true) rfl rfl (fun _ => hchk rfl)
      simpa using g2
  | other t =>
    obtain ⟨rfl, rfl, hchk⟩ := handleFrame_other_ok h
    cases e with
    | false =>
      have g0 : Good s' evs := ⟨⟨hcl, h0, h1⟩, hc⟩
      simpa using g0
    | true =>
      have g2 := good_emit_zero (⟨⟨hcl, h0, h1⟩, hc⟩ : Good s' evs) (.data 0 true) rfl rfl
        (fun _ => hchk rfl)
      simpa using g2

/-! ### `_receive_request_or_push_data` and `handle_event` -/

theorem shortcut_good {s s' : St} {evs new : List Event} {n : Nat} {se : Bool} (hg : Good s evs)
    (h : shortcut s n se = .ok (s', new)) : Good s' (evs ++ new) := by
  obtain ⟨⟨hcl, h0, h1⟩, hc⟩ := hg
  simp only [shortcut] at h
  split at h
  · cases h
  · cases h
    have hinv : Inv { s with cl := s.cl + n, rem := s.rem - n } (evs ++ [.data n false]) := by
      refine ⟨?_, ?_, ?_⟩
      · simp [bodyBytes_append, bodyBytes, hcl]
      · intro hh
        refine ⟨?_, (h0 hh).2⟩
        simp [firstHeaders_append, (h0 hh).1, firstHeaders]
      · intro hne
        obtain ⟨hs0, hf, he⟩ := h1 hne
        exact ⟨hs0, by simp [firstHeaders_append, hf], he⟩
    exact ⟨hinv, clOk_emit _ _ hc (by intro hend; cases hend)⟩

theorem receive_good {s s' : St} {op : Op} {evs new : List Event}
    (hg : Good s evs) (h : receive s op = .ok (s', new)) : Good s' (evs ++ new) := by
  cases op with
  | hdr hs fin =>
    simp only [receive] at h
    exact handleFrame_good (by exact good_congr hg rfl rfl rfl) h
  | data total present fin =>
    simp only [receive, bind, Except.bind] at h
    split at h
    · cases h
    · rename_i v hv
      obtain ⟨s1, e1⟩ := v
      simp only at h
      split at h
      · cases h
      · cases h
        exact good_congr (handleFrame_good (by exact good_congr hg rfl rfl rfl) hv) rfl rfl rfl
  | frag n fin =>
    simp only [receive] at h
    split at h
    · exact shortcut_good (by exact good_congr hg rfl rfl rfl) h
    · simp only [bind, Except.bind] at h
      split at h
      · cases h
      · rename_i v hv
        obtain ⟨s1, e1⟩ := v
        simp only at h
        cases h
        exact good_congr (handleFrame_good (by exact good_congr hg rfl rfl rfl) hv) rfl rfl rfl
  | fin =>
    simp only [receive] at h
    split at h
    · exact shortcut_good (by exact good_congr hg rfl rfl rfl) h
    · simp only [bind, Except.bind] at h
      split at h
      · cases h
      · rename_i v hv
        cases h
        have hg' : Good { s with recvEnded := true } evs := good_congr hg rfl rfl rfl
        exact good_emit_zero hg' (.data 0 true) rfl rfl (fun _ => by cases v; exact hv)
  | pp hs fin =>
    simp only [receive] at h
    exact handleFrame_good (by exact good_congr hg rfl rfl rfl) h
  | other t fin =>
    simp only [receive] at h
    exact handleFrame_good (by exact good_congr hg rfl rfl rfl) h
  | hdrdata hs n fin =>
    simp only [receive, bind, Except.bind] at h
    split at h
    · cases h
    · rename_i v1 hv1
      obtain ⟨s1, e1⟩ := v1
      simp only at h
      split at h
      · cases h
      · rename_i v2 hv2
        obtain ⟨s2, e2⟩ := v2
        simp only at h
        cases h
        have g1 := handleFrame_good (by exact good_congr hg rfl rfl rfl) hv1
        have g2 := handleFrame_good g1 hv2
        rw [List.append_assoc] at g2
        exact g2

theorem step_good {s : St} (op : Op) {evs : List Event} (hg : Good s evs) :
    Good (step s op).1 (evs ++ (step s op).2.1) := by
  unfold step
  split
  · simpa using hg
  · split
    · simpa using hg
    · split
      · rename_i s' new hr
        exact receive_good hg hr
      · simp only [List.append_nil]
        exact good_congr (s := s) hg rfl rfl rfl

theorem trace_good {s : St} (ops : List Op) {evs : List Event} (hg : Good s evs) :
    Good (finalState s ops) (evs ++ trace s ops) := by
  induction ops generalizing s evs with
  | nil => simpa [finalState, trace] using hg
  | cons op ops ih =>
    simp only [finalState, trace]
    rw [← List.append_assoc]
    exact ih (step_good op hg)

theorem good_init (c p : Bool) : Good { isClient := c, isPush := p } [] :=
  ⟨⟨rfl, fun _ => ⟨rfl, rfl⟩, fun h => absurd rfl h⟩, clOk_nil⟩


/-! ### header events are validated; broken blocks close the connection -/

/-- what a reported event promises about its header list, given the state the op started in -/
def EventWF (s : St) : Event → Prop
  | .headers hs _ => WellFormed (hdrKind s) hs
  | .pushPromise hs => WellFormed .push hs
  | .data _ _ => True

theorem validateOn_wf {kind : Kind} {ecl0 r : Option Nat} {hs : Headers}
    (h : validateOn kind ecl0 hs = .ok r) : WellFormed kind hs :=
  ((validateOn_ok_iff _ _ _ _).1 h).1

theorem validateOn_rejects {kind : Kind} (ecl0 : Option Nat) {hs : Headers}
    (h : ¬ WellFormed kind hs) : validateOn kind ecl0 hs = .error msgErr := by
  cases hv : validateOn kind ecl0 hs with
  | ok r => exact absurd (validateOn_wf hv) h
  | error e => rw [validateOn_err _ _ _ _ hv]

theorem hdrKind_trailers (s : St) (h : s.hstate = .afterHeaders) : hdrKind s = .trailers := by
  unfold hdrKind; simp [h]

theorem handleFrame_events_wf {s s' : St} {f : Frame} {e : Bool} {new : List Event}
    (h : handleFrame s f e = .ok (s', new)) : ∀ ev ∈ new, EventWF s ev := by
  cases f with
  | data n =>
    obtain ⟨_, _, _, rfl⟩ := handleFrame_data_ok h
    intro ev hev
    split at hev
    · simp at hev; subst hev; trivial
    · cases hev
  | headers hs =>
    obtain ⟨_, rfl, _, hcase⟩ := handleFrame_headers_ok h
    intro ev hev
    simp at hev; subst hev
    rcases hcase with ⟨_, r, hv, _⟩ | ⟨hst, ⟨r, hv⟩, _⟩
    · exact validateOn_wf hv
    · show WellFormed (hdrKind s) hs
      rw [hdrKind_trailers s hst]; exact validateOn_wf hv
  | pushPromise hs =>
    obtain ⟨_, rfl, _, _, _, r, hv⟩ := handleFrame_pp_ok h
    intro ev hev
    rcases List.mem_append.1 hev with h1 | h2
    · simp at h1; subst h1
      exact validateOn_wf hv
    · split at h2
      · simp at h2; subst h2; trivial
      · cases h2
  | other t =>
    obtain ⟨_, rfl, _⟩ := handleFrame_other_ok h
    intro ev hev
    split at hev
    · simp at hev; subst hev; trivial
    · cases hev

theorem eventWF_congr {s s' : St} (h1 : s'.hstate = s.hstate) (h2 : s'.isClient = s.isClient)
    {ev : Event} (h : EventWF s' ev) : EventWF s ev := by
  cases ev with
  | headers hs e =>
    have : hdrKind s' = hdrKind s := by unfold hdrKind; rw [h1, h2]
    simpa [EventWF, this] using h
  | pushPromise hs => exact h
  | data n e => trivial

theorem shortcut_events {s s' : St} {n : Nat} {se : Bool} {new : List Event}
    (h : shortcut s n se = .ok (s', new)) : se = false ∧ new = [.data n false] := by
  simp only [shortcut] at h
  cases se with
  | true => simp at h
  | false => simp at h; exact ⟨rfl, h.2.symm⟩

theorem receive_events_wf {s s' : St} {op : Op} {new : List Event}
    (h : receive s op = .ok (s', new)) : ∀ ev ∈ new, EventWF s ev := by
  cases op with
  | hdr hs fin =>
    simp only [receive] at h
    exact fun ev hev => eventWF_congr rfl rfl (handleFrame_events_wf h ev hev)
  | data total present fin =>
    simp only [receive, bind, Except.bind] at h
    split at h
    · cases h
    · rename_i v hv
      obtain ⟨s1, e1⟩ := v
      simp only at h
      split at h
      · cases h
      · cases h
        exact fun ev hev => eventWF_congr rfl rfl (handleFrame_events_wf hv ev hev)
  | frag n fin =>
    simp only [receive] at h
    split at h
    · obtain ⟨_, rfl⟩ := shortcut_events h
      intro ev hev; simp at hev; subst hev; trivial
    · simp only [bind, Except.bind] at h
      split at h
      · cases h
      · rename_i v hv
        obtain ⟨s1, e1⟩ := v
        simp only at h
        cases h
        exact fun ev hev => eventWF_congr rfl rfl (handleFrame_events_wf hv ev hev)
  | fin =>
    simp only [receive] at h
    split at h
    · obtain ⟨_, rfl⟩ := shortcut_events h
      intro ev hev; simp at hev; subst hev; trivial
    · simp only [bind, Except.bind] at h
      split at h
      · cases h
      · cases h
        intro ev hev; simp at hev; subst hev; trivial
  | pp hs fin =>
    simp only [receive] at h
    exact fun ev hev => eventWF_congr rfl rfl (handleFrame_events_wf h ev hev)
  | other t fin =>
    simp only [receive] at h
    exact fun ev hev => eventWF_congr rfl rfl (handleFrame_events_wf h ev hev)
  | hdrdata hs n fin =>
    simp only [receive, bind, Except.bind] at h
    split at h
    · cases h
    · rename_i v1 hv1
      obtain ⟨s1, e1⟩ := v1
      simp only at h
      split at h
      · cases h
      · rename_i v2 hv2
        obtain ⟨s2, e2⟩ := v2
        simp only at h
        cases h
        intro ev hev
        rcases List.mem_append.1 hev with h1 | h2
        · exact eventWF_congr rfl rfl (handleFrame_events_wf hv1 ev h1)
        · -- the second frame is DATA: only data events
          obtain ⟨_, _, _, rfl⟩ := handleFrame_data_ok hv2
          split at h2
          · simp at h2; subst h2; trivial
          · cases h2

theorem step_events_wf (s : St) (op : Op) : ∀ ev ∈ (step s op).2.1, EventWF s ev := by
  unfold step
  split
  · intro ev hev; cases hev
  · split
    · intro ev hev; cases hev
    · split
      · rename_i s' new hr
        exact receive_events_wf hr
      · intro ev hev; cases hev

theorem step_error_no_events (s : St) (op : Op) (e : Err) (h : (step s op).2.2 = some e) :
    (step s op).2.1 = [] ∧ (step s op).1.done = true := by
  unfold step at h ⊢
  split
  · rename_i hd; simp [hd] at h
  · rename_i hd
    split
    · rename_i ha; simp [hd, ha] at h
    · rename_i ha
      split
      · rename_i s' new hr
        simp [hd, ha, hr] at h
      · exact ⟨rfl, rfl⟩

/-- every header event of a whole trace carries a list that is well-formed for
    one of the kinds a request/push stream can report -/
def EventWFAny : Event → Prop
  | .headers hs _ => WellFormed .request hs ∨ WellFormed .response hs ∨ WellFormed .trailers hs
  | .pushPromise hs => WellFormed .push hs
  | .data _ _ => True

theorem eventWF_any {s : St} {ev : Event} (h : EventWF s ev) : EventWFAny ev := by
  cases ev with
  | headers hs e =>
    simp only [EventWF, hdrKind] at h
    simp only [EventWFAny]
    split at h
    · split at h
      · exact Or.inr (Or.inl h)
      · exact Or.inl h
    · exact Or.inr (Or.inr h)
  | pushPromise hs => exact h
  | data n e => trivial

theorem trace_events_wf (s : St) (ops : List Op) : ∀ ev ∈ trace s ops, EventWFAny ev := by
  induction ops generalizing s with
  | nil => intro ev hev; cases hev
  | cons op ops ih =>
    intro ev hev
    simp only [trace] at hev
    rcases List.mem_append.1 hev with h1 | h2
    · exact eventWF_any (step_events_wf s op ev h1)
    · exact ih _ ev h2

/-! ### error codes -/

theorem checkContentLength_err (s : St) (e : Err) : checkContentLength s = .error e → e = msgErr := by
  unfold checkContentLength
  intro h
  repeat' split at h
  all_goals first | (cases h; rfl) | (simp at h; done)

theorem handleFrame_err {s : St} {f : Frame} {ended : Bool} {e : Err}
    (h : handleFrame s f ended = .error e) : e = msgErr ∨ e = frameUnexpected := by
  cases f with
  | data n =>
    simp only [handleFrame] at h
    split at h
    · cases h; exact Or.inr rfl
    · simp only [bind, Except.bind] at h
      cases ended with
      | false => simp at h
      | true =>
        simp only [if_true] at h
        split at h
        · rename_i e' hc; cases h; exact Or.inl (checkContentLength_err _ _ hc)
        · cases h
  | headers hs =>
    simp only [handleFrame] at h
    split at h
    · cases h; exact Or.inr rfl
    · split at h
      · simp only [bind, Except.bind] at h
        split at h
        · rename_i e' hv; cases h; exact Or.inl (validateOn_err _ _ _ _ hv)
        · cases ended with
          | false => simp at h
          | true =>
            simp only [if_true] at h
            split at h
            · rename_i e' hc; cases h; exact Or.inl (checkContentLength_err _ _ hc)
            · cases h
      · simp only [bind, Except.bind] at h
        split at h
        · rename_i e' hv; cases h; exact Or.inl (validateOn_err _ _ _ _ hv)
        · cases ended with
          | false => simp at h
          | true =>
            simp only [if_true] at h
            split at h
            · rename_i e' hc; cases h; exact Or.inl (checkContentLength_err _ _ hc)
            · cases h
  | pushPromise hs =>
    simp only [handleFrame] at h
    split at h
    · cases h; exact Or.inr rfl
    · split at h
      · cases h; exact Or.inr rfl
      · simp only [bind, Except.bind] at h
        split at h
        · rename_i e' hv; cases h; exact Or.inl (validateOn_err _ _ _ _ hv)
        · cases ended with
          | false => simp at h
          | true =>
            simp only [if_true] at h
            split at h
            · rename_i e' hc; cases h; exact Or.inl (checkContentLength_err _ _ hc)
            · cases h
  | other t =>
    simp only [handleFrame] at h
    split at h
    · cases h; exact Or.inr rfl
    · simp only [bind, Except.bind] at h
      cases ended with
      | false => simp at h
      | true =>
        simp only [if_true] at h
        split at h
        · rename_i e' hc; cases h; exact Or.inl (checkContentLength_err _ _ hc)
        · cases h

theorem shortcut_err {s : St} {n : Nat} {se : Bool} {e : Err}
    (h : shortcut s n se = .error e) : e = frameError ∧ se = true := by
  simp only [shortcut] at h
  cases se with
  | true => simp at h; exact ⟨h.symm, rfl⟩
  | false => simp at h

theorem receive_err {s : St} {op : Op} {e : Err} (h : receive s op = .error e) :
    e = msgErr ∨ e = frameUnexpected ∨ e = frameError := by
  have lift : ∀ {e : Err}, (e = msgErr ∨ e = frameUnexpected) →
      (e = msgErr ∨ e = frameUnexpected ∨ e = frameError) := by
    intro e he; rcases he with h1 | h1
    · exact Or.inl h1
    · exact Or.inr (Or.inl h1)
  cases op with
  | hdr hs fin => simp only [receive] at h; exact lift (handleFrame_err h)
  | data total present fin =>
    simp only [receive, bind, Except.bind] at h
    split at h
    · rename_i e' hv; cases h; exact lift (handleFrame_err hv)
    · split at h
      · rename_i e' hc
        cases h
        simp only [endCheck] at hc
        split at hc
        · cases hc; exact Or.inr (Or.inr rfl)
        · cases hc
      · cases h
  | frag n fin =>
    simp only [receive] at h
    split at h
    · exact Or.inr (Or.inr (shortcut_err h).1)
    · simp only [bind, Except.bind] at h
      split at h
      · rename_i e' hv; cases h; exact lift (handleFrame_err hv)
      · cases h
  | fin =>
    simp only [receive] at h
    split at h
    · exact Or.inr (Or.inr (shortcut_err h).1)
    · simp only [bind, Except.bind] at h
      split at h
      · rename_i e' hc; cases h; exact Or.inl (checkContentLength_err _ _ hc)
      · cases h
  | pp hs fin => simp only [receive] at h; exact lift (handleFrame_err h)
  | other t fin => simp only [receive] at h; exact lift (handleFrame_err h)
  | hdrdata hs n fin =>
    simp only [receive, bind, Except.bind] at h
    split at h
    · rename_i e' hv; cases h; exact lift (handleFrame_err hv)
    · split at h
      · rename_i e' hv; cases h; exact lift (handleFrame_err hv)
      · cases h

theorem step_err (s : St) (op : Op) (e : Err) (h : (step s op).2.2 = some e) :
    e = msgErr ∨ e = frameUnexpected ∨ e = frameError := by
  unfold step at h
  split at h
  · cases h
  · split at h
    · cases h
    · split at h
      · cases h
      · rename_i e' hr
        simp at h; subst h
        exact receive_err hr

/-- a HEADERS frame whose block breaks a rule closes the connection with H3_MESSAGE_ERROR -/
theorem step_hdr_rejects (s : St) (hs : Headers) (fin : Bool) (hd : s.done = false)
    (ha : applicable s (.hdr hs fin) = true) (ht : s.hstate ≠ .afterTrailers)
    (hwf : ¬ WellFormed (hdrKind s) hs) :
    step s (.hdr hs fin) = ({ s with done := true }, [], some msgErr) := by
  have hrec : receive s (.hdr hs fin) = .error msgErr := by
    simp only [receive]
    generalize hs1 : ({ s with recvEnded := s.recvEnded || fin } : St) = s1
    have h1 : s1.hstate = s.hstate := by rw [← hs1]
    have h2 : hdrKind s1 = hdrKind s := by rw [← hs1]; rfl
    have h3 : s1.ecl = s.ecl := by rw [← hs1]
    simp only [handleFrame]
    rw [if_neg (by rw [h1]; exact ht)]
    by_cases hi : s.hstate = .initial
    · rw [if_pos (by rw [h1]; exact hi), h2, h3, validateOn_rejects s.ecl hwf]; rfl
    · rw [if_neg (by rw [h1]; exact hi)]
      have hk : hdrKind s = .trailers := by unfold hdrKind; simp [hi]
      rw [hk] at hwf
      rw [validateOn_rejects none hwf]; rfl
  unfold step
  simp [hd, ha, hrec]

/-- likewise a PUSH_PROMISE frame (on a request stream of a client) -/
theorem step_pp_rejects (s : St) (hs : Headers) (fin : Bool) (hd : s.done = false)
    (ha : applicable s (.pp hs fin) = true) (hc : s.isClient = true) (hp : s.isPush = false)
    (hwf : ¬ WellFormed .push hs) :
    step s (.pp hs fin) = ({ s with done := true }, [], some msgErr) := by
  have hrec : receive s (.pp hs fin) = .error msgErr := by
    have := validateOn_rejects (kind := .push) none hwf
    simp [receive, handleFrame, hc, hp, this, bind, Except.bind]
  unfold step
  simp [hd, ha, hrec]

/-! ### when the FIN arrives -/

/-- the `StreamDataReceived` has `end_stream` set -/
def carriesFin : Op → Bool
  | .hdr _ fin => fin
  | .data _ _ fin => fin
  | .frag _ fin => fin
  | .fin => true
  | .hdrdata _ _ fin => fin
  | .pp _ fin => fin
  | .other _ fin => fin

/-- whenever the FIN of the stream arrives and the connection is not closed,
    the last event returned reports the end of the stream -/
theorem fin_reports_end (s : St) (op : Op) (hd : s.done = false)
    (ha : applicable s op = true) (hb : carriesFin op = true) (hok : (step s op).2.2 = none) :
    ∃ ev, (step s op).2.1.getLast? = some ev ∧ ev.ended = true := by
  unfold step at hok ⊢
  simp only [hd, ha, Bool.false_eq_true, if_false, not_true_eq_false] at hok ⊢
  cases hr : receive s op with
  | error e => simp [hr] at hok
  | ok v =>
    obtain ⟨s', new⟩ := v
    simp only
    cases op with
    | hdr hs fin =>
      simp only [carriesFin] at hb; subst hb
      simp only [receive, Bool.or_true] at hr
      obtain ⟨_, rfl, _, _⟩ := handleFrame_headers_ok hr
      exact ⟨_, rfl, rfl⟩
    | data total present fin =>
      simp only [carriesFin] at hb; subst hb
      simp only [receive, Bool.or_true, Bool.true_and, bind, Except.bind] at hr
      split at hr
      · cases hr
      · rename_i v hv
        obtain ⟨s1, e1⟩ := v
        simp only at hr
        split at hr
        · cases hr
        · rename_i u hc
          cases hr
          obtain ⟨_, hs1, _, rfl⟩ := handleFrame_data_ok hv
          have hz : total - present = 0 := by
            simp only [endCheck] at hc
            split at hc
            · cases hc
            · rename_i hne
              rw [hs1] at hne
              simp at hne
              exact hne
          simp [hz, Event.ended]
    | frag n fin =>
      simp only [carriesFin] at hb; subst hb
      simp only [receive, Bool.or_true] at hr
      split at hr
      · have := (shortcut_events hr).1; cases this
      · simp only [bind, Except.bind] at hr
        split at hr
        · cases hr
        · rename_i v hv
          obtain ⟨s1, e1⟩ := v
          simp only at hr; cases hr
          obtain ⟨_, _, _, rfl⟩ := handleFrame_data_ok hv
          simp [Event.ended]
    | fin =>
      simp only [receive] at hr
      split at hr
      · have := (shortcut_events hr).1; cases this
      · simp only [bind, Except.bind] at hr
        split at hr
        · cases hr
        · cases hr
          exact ⟨_, rfl, rfl⟩
    | pp hs fin =>
      simp only [carriesFin] at hb; subst hb
      simp only [receive, Bool.or_true] at hr
      obtain ⟨_, rfl, _⟩ := handleFrame_pp_ok hr
      exact ⟨.data 0 true, by simp, rfl⟩
    | other t fin =>
      simp only [carriesFin] at hb; subst hb
      simp only [receive, Bool.or_true] at hr
      obtain ⟨_, rfl, _⟩ := handleFrame_other_ok hr
      exact ⟨.data 0 true, by simp, rfl⟩
    | hdrdata hs n fin =>
      simp only [carriesFin] at hb; subst hb
      simp only [receive, Bool.or_true, bind, Except.bind] at hr
      split at hr
      · cases hr
      · rename_i v1 hv1
        obtain ⟨s1, e1⟩ := v1
        simp only at hr
        split at hr
        · cases hr
        · rename_i v2 hv2
          obtain ⟨s2, e2⟩ := v2
          simp only at hr; cases hr
          obtain ⟨_, rfl, _, hcase⟩ := handleFrame_headers_ok hv1
          have hre : s1.recvEnded = true := by
            rcases hcase with ⟨_, r, _, rfl⟩ | ⟨_, _, rfl⟩ <;> rfl
          rw [hre] at hv2
          obtain ⟨_, _, _, rfl⟩ := handleFrame_data_ok hv2
          exact ⟨.data n true, by simp, rfl⟩

theorem trace_append (s : St) (pre : List Op) (op : Op) :
    trace s (pre ++ [op]) = trace s pre ++ (step (finalState s pre) op).2.1 := by
  induction pre generalizing s with
  | nil => simp [trace, finalState]
  | cons o t ih => simp [trace, finalState, ih, List.append_assoc]

/-! ### QPACK-blocked streams: the resume path -/

theorem handleFrame_recvEnded {s s' : St} {f : Frame} {e : Bool} {evs : List Event}
    (h : handleFrame s f e = .ok (s', evs)) : s'.recvEnded = s.recvEnded := by
  cases f with
  | data n => obtain ⟨_, rfl, _, _⟩ := handleFrame_data_ok h; rfl
  | headers hs =>
    obtain ⟨_, _, _, hcase⟩ := handleFrame_headers_ok h
    rcases hcase with ⟨_, r, _, rfl⟩ | ⟨_, _, rfl⟩ <;> rfl
  | pushPromise hs => obtain ⟨rfl, _⟩ := handleFrame_pp_ok h; rfl
  | other t => obtain ⟨rfl, _⟩ := handleFrame_other_ok h; rfl

theorem processFrames_good {s s' : St} {fs : List Frame} {evs new : List Event}
    (hg : Good s evs) (h : processFrames s fs = .ok (s', new)) : Good s' (evs ++ new) := by
  induction fs generalizing s evs new with
  | nil => simp only [processFrames] at h; cases h; simpa using hg
  | cons f fs ih =>
    simp only [processFrames, bind, Except.bind] at h
    split at h
    · cases h
    · rename_i v1 hv1
      obtain ⟨s1, e1⟩ := v1
      simp only at h
      split at h
      · cases h
      · rename_i v2 hv2
        obtain ⟨s2, e2⟩ := v2
        simp only at h
        cases h
        have g1 := handleFrame_good hg hv1
        have g2 := ih g1 hv2
        rw [List.append_assoc] at g2
        exact g2

theorem qreceive_good {s s' : St} {q : QOp} {evs new : List Event}
    (hg : Good s evs) (h : qreceive s q = .ok (s', new)) : Good s' (evs ++ new) := by
  cases q with
  | plain op =>
    simp only [qreceive] at h
    split at h
    · exact receive_good hg h
    · split at h
      · cases h; simp only [List.append_nil]; exact good_congr (s := s) hg rfl rfl rfl
      · cases h; simpa using hg
  | hdrb hs fin =>
    simp only [qreceive] at h
    split at h
    · cases h
    · cases h; simp only [List.append_nil]; exact good_congr (s := s) hg rfl rfl rfl
  | ppb hs fin =>
    simp only [qreceive] at h
    split at h
    · cases h
    · split at h
      · cases h
      · cases h; simp only [List.append_nil]; exact good_congr (s := s) hg rfl rfl rfl
  | unblock =>
    simp only [qreceive] at h
    split at h
    · cases h; simpa using hg
    · rename_i f hb
      simp only [bind, Except.bind] at h
      split at h
      · cases h
      · rename_i v1 hv1
        obtain ⟨s1, e1⟩ := v1
        simp only at h
        split at h
        · cases h
        · rename_i v2 hv2
          obtain ⟨s2, e2⟩ := v2
          simp only at h
          cases h
          have g1 := handleFrame_good hg hv1
          have g1' : Good { s1 with blocked := none, pending := [] } (evs ++ e1) :=
            good_congr g1 rfl rfl rfl
          have g2 := processFrames_good g1' hv2
          rw [List.append_assoc] at g2
          exact g2

theorem qstep_good {s : St} (q : QOp) {evs : List Event} (hg : Good s evs) :
    Good (qstep s q).1 (evs ++ (qstep s q).2.1) := by
  unfold qstep
  split
  · simpa using hg
  · split
    · simpa using hg
    · split
      · rename_i s' new hr
        exact qreceive_good hg hr
      · simp only [List.append_nil]
        exact good_congr (s := s) hg rfl rfl rfl

theorem qtrace_good {s : St} (qs : List QOp) {evs : List Event} (hg : Good s evs) :
    Good (qfinal s qs) (evs ++ qtrace s qs) := by
  induction qs generalizing s evs with
  | nil => simpa [qfinal, qtrace] using hg
  | cons q qs ih =>
    simp only [qfinal, qtrace]
    rw [← List.append_assoc]
    exact ih (qstep_good q hg)

theorem qtrace_append (s : St) (pre : List QOp) (q : QOp) :
    qtrace s (pre ++ [q]) = qtrace s pre ++ (qstep (qfinal s pre) q).2.1 := by
  induction pre generalizing s with
  | nil => simp [qtrace, qfinal]
  | cons o t ih => simp [qtrace, qfinal, ih, List.append_assoc]

/-- on a stream that is not blocked the plain ops behave as before -/
theorem qstep_plain (s : St) (op : Op) (hb : s.blocked = none) : qstep s (.plain op) = step s op := by
  unfold qstep step
  simp [qapplicable, qreceive, hb]

theorem processFrames_events_any {s s' : St} {fs : List Frame} {new : List Event}
    (h : processFrames s fs = .ok (s', new)) : ∀ ev ∈ new, EventWFAny ev := by
  induction fs generalizing s new with
  | nil => simp only [processFrames] at h; cases h; intro ev hev; cases hev
  | cons f fs ih =>
    simp only [processFrames, bind, Except.bind] at h
    split at h
    · cases h
    · rename_i v1 hv1
      obtain ⟨s1, e1⟩ := v1
      simp only at h
      split at h
      · cases h
      · rename_i v2 hv2
        obtain ⟨s2, e2⟩ := v2
        simp only at h
        cases h
        intro ev hev
        rcases List.mem_append.1 hev with h1 | h2
        · exact eventWF_any (handleFrame_events_wf hv1 ev h1)
        · exact ih hv2 ev h2

theorem qstep_events_any (s : St) (q : QOp) : ∀ ev ∈ (qstep s q).2.1, EventWFAny ev := by
  unfold qstep
  split
  · intro ev hev; cases hev
  · split
    · intro ev hev; cases hev
    · split
      · rename_i s' new hr
        cases q with
        | plain op =>
          simp only [qreceive] at hr
          split at hr
          · exact fun ev hev => eventWF_any (receive_events_wf hr ev hev)
          · split at hr <;> (cases hr; intro ev hev; cases hev)
        | hdrb hs fin =>
          simp only [qreceive] at hr
          split at hr
          · cases hr
          · cases hr; intro ev hev; cases hev
        | ppb hs fin =>
          simp only [qreceive] at hr
          split at hr
          · cases hr
          · split at hr
            · cases hr
            · cases hr; intro ev hev; cases hev
        | unblock =>
          simp only [qreceive] at hr
          split at hr
          · cases hr; intro ev hev; cases hev
          · simp only [bind, Except.bind] at hr
            split at hr
            · cases hr
            · rename_i v1 hv1
              obtain ⟨s1, e1⟩ := v1
              simp only at hr
              split at hr
              · cases hr
              · rename_i v2 hv2
                obtain ⟨s2, e2⟩ := v2
                simp only at hr
                cases hr
                intro ev hev
                rcases List.mem_append.1 hev with h1 | h2
                · exact eventWF_any (handleFrame_events_wf hv1 ev h1)
                · exact processFrames_events_any hv2 ev h2
      · intro ev hev; cases hev

theorem qtrace_events_wf (s : St) (qs : List QOp) : ∀ ev ∈ qtrace s qs, EventWFAny ev := by
  induction qs generalizing s with
  | nil => intro ev hev; cases hev
  | cons q qs ih =>
    intro ev hev
    simp only [qtrace] at hev
    rcases List.mem_append.1 hev with h1 | h2
    · exact qstep_events_any s q ev h1
    · exact ih _ ev h2

theorem processFrames_err {s : St} {fs : List Frame} {e : Err}
    (h : processFrames s fs = .error e) : e = msgErr ∨ e = frameUnexpected := by
  induction fs generalizing s with
  | nil => simp [processFrames] at h
  | cons f fs ih =>
    simp only [processFrames, bind, Except.bind] at h
    split at h
    · rename_i e' hv; cases h; exact handleFrame_err hv
    · rename_i v1 hv1
      split at h
      · rename_i e' hv2; cases h; exact ih hv2
      · cases h

theorem qstep_err (s : St) (q : QOp) (e : Err) (h : (qstep s q).2.2 = some e) :
    e = msgErr ∨ e = frameUnexpected ∨ e = frameError := by
  have lift : ∀ {e : Err}, (e = msgErr ∨ e = frameUnexpected) →
      (e = msgErr ∨ e = frameUnexpected ∨ e = frameError) := by
    intro e he; rcases he with h1 | h1
    · exact Or.inl h1
    · exact Or.inr (Or.inl h1)
  unfold qstep at h
  split at h
  · cases h
  · split at h
    · cases h
    · split at h
      · cases h
      · rename_i e' hr
        simp at h; subst h
        cases q with
        | plain op =>
          simp only [qreceive] at hr
          split at hr
          · exact receive_err hr
          · split at hr <;> cases hr
        | hdrb hs fin =>
          simp only [qreceive] at hr
          split at hr
          · cases hr; exact Or.inr (Or.inl rfl)
          · cases hr
        | ppb hs fin =>
          simp only [qreceive] at hr
          split at hr
          · cases hr; exact Or.inr (Or.inl rfl)
          · split at hr
            · cases hr; exact Or.inr (Or.inl rfl)
            · cases hr
        | unblock =>
          simp only [qreceive] at hr
          split at hr
          · cases hr
          · simp only [bind, Except.bind] at hr
            split at hr
            · rename_i e'' hv; cases hr; exact lift (handleFrame_err hv)
            · split at hr
              · rename_i e'' hv; cases hr; exact lift (processFrames_err hv)
              · cases hr

theorem qstep_error_no_events (s : St) (q : QOp) (e : Err) (h : (qstep s q).2.2 = some e) :
    (qstep s q).2.1 = [] ∧ (qstep s q).1.done = true := by
  unfold qstep at h ⊢
  split
  · rename_i hd; simp [hd] at h
  · rename_i hd
    split
    · rename_i ha; simp [hd, ha] at h
    · rename_i ha
      split
      · rename_i s' new hr
        simp [hd, ha, hr] at h
      · exact ⟨rfl, rfl⟩

/-- a frame handled with `stream_ended = True` reports the end with its last event -/
theorem handleFrame_ended_last {s s' : St} {f : Frame} {evs : List Event}
    (h : handleFrame s f true = .ok (s', evs)) : ∃ ev, evs.getLast? = some ev ∧ ev.ended = true := by
  cases f with
  | data n =>
    obtain ⟨_, _, _, rfl⟩ := handleFrame_data_ok h
    exact ⟨.data n true, by simp, rfl⟩
  | headers hs =>
    obtain ⟨_, rfl, _, _⟩ := handleFrame_headers_ok h
    exact ⟨_, rfl, rfl⟩
  | pushPromise hs =>
    obtain ⟨_, rfl, _⟩ := handleFrame_pp_ok h
    exact ⟨.data 0 true, by simp, rfl⟩
  | other t =>
    obtain ⟨_, rfl, _⟩ := handleFrame_other_ok h
    exact ⟨.data 0 true, by simp, rfl⟩

theorem processFrames_last {s s' : St} {fs : List Frame} {evs : List Event}
    (hre : s.recvEnded = true) (hne : fs ≠ [])
    (h : processFrames s fs = .ok (s', evs)) : ∃ ev, evs.getLast? = some ev ∧ ev.ended = true := by
  induction fs generalizing s evs with
  | nil => exact absurd rfl hne
  | cons f fs ih =>
    simp only [processFrames, bind, Except.bind] at h
    split at h
    · cases h
    · rename_i v1 hv1
      obtain ⟨s1, e1⟩ := v1
      simp only at h
      split at h
      · cases h
      · rename_i v2 hv2
        obtain ⟨s2, e2⟩ := v2
        simp only at h
        cases h
        cases fs with
        | nil =>
          simp only [processFrames] at hv2
          cases hv2
          rw [hre] at hv1
          simpa using handleFrame_ended_last hv1
        | cons g gs =>
          have hre1 : s1.recvEnded = true := by rw [handleFrame_recvEnded hv1]; exact hre
          obtain ⟨ev, hl, he⟩ := ih hre1 (by simp) hv2
          exact ⟨ev, by rw [List.getLast?_append, hl]; rfl, he⟩

/-- the input makes the end of the stream known to the frame handlers: a FIN on a
    stream that is not blocked, or the unblocking of a stream whose FIN has arrived -/
def endsStream (s : St) : QOp → Bool
  | .plain op => s.blocked.isNone && carriesFin op
  | .unblock => s.recvEnded
  | .hdrb _ _ => false
  | .ppb _ _ => false

theorem qfin_reports_end (s : St) (q : QOp) (hd : s.done = false)
    (ha : qapplicable s q = true) (hb : endsStream s q = true) (hok : (qstep s q).2.2 = none) :
    ∃ ev, (qstep s q).2.1.getLast? = some ev ∧ ev.ended = true := by
  cases q with
  | plain op =>
    simp only [endsStream, Bool.and_eq_true, Option.isNone_iff_eq_none] at hb
    rw [qstep_plain s op hb.1] at hok ⊢
    have ha' : applicable s op = true := by
      simp only [qapplicable, Bool.and_eq_true] at ha; exact ha.1
    exact fin_reports_end s op hd ha' hb.2 hok
  | hdrb hs fin => simp [endsStream] at hb
  | ppb hs fin => simp [endsStream] at hb
  | unblock =>
    simp only [endsStream] at hb
    unfold qstep at hok ⊢
    simp only [hd, ha, Bool.false_eq_true, if_false, not_true_eq_false] at hok ⊢
    cases hr : qreceive s .unblock with
    | error e => simp [hr] at hok
    | ok v =>
      obtain ⟨s', new⟩ := v
      simp only
      simp only [qreceive] at hr
      split at hr
      · rename_i hnone
        simp [qapplicable, hnone] at ha
      · rename_i f hbk
        simp only [bind, Except.bind] at hr
        split at hr
        · cases hr
        · rename_i v1 hv1
          obtain ⟨s1, e1⟩ := v1
          simp only at hr
          split at hr
          · cases hr
          · rename_i v2 hv2
            obtain ⟨s2, e2⟩ := v2
            simp only at hr
            cases hr
            cases hp : s.pending with
            | nil =>
              rw [hp] at hv2 hv1
              simp only [processFrames] at hv2
              cases hv2
              rw [hb] at hv1
              simpa using handleFrame_ended_last hv1
            | cons g gs =>
              rw [hp] at hv2
              have hre1 : ({ s1 with blocked := none, pending := [] } : St).recvEnded = true := by
                show s1.recvEnded = true
                rw [handleFrame_recvEnded hv1]; exact hb
              obtain ⟨ev, hl, he⟩ := processFrames_last hre1 (by simp) hv2
              exact ⟨ev, by rw [List.getLast?_append, hl]; rfl, he⟩

/-! ### what `allDeclaredCL` lists -/

theorem parseContentLength_ok_iff (v : Bytes) (n : Nat) :
    parseContentLength v = .ok n ↔ pyIntOfBytes v = some (n : Int) := by
  unfold parseContentLength
  cases h : pyIntOfBytes v with
  | none => simp
  | some i =>
    by_cases hn : i < 0
    · simp only [hn, if_true, Option.some.injEq]
      constructor
      · intro hh; cases hh
      · intro hh; omega
    · simp only [hn, if_false, Except.ok.injEq, Option.some.injEq]
      omega

theorem mem_allDeclaredCL (hs : Headers) (n : Nat) :
    n ∈ allDeclaredCL hs ↔
      ∃ h ∈ hs, h.1 = bContentLength ∧ pyIntOfBytes h.2 = some (n : Int) := by
  induction hs with
  | nil => simp [allDeclaredCL]
  | cons h t ih =>
    simp only [allDeclaredCL, List.mem_cons, exists_eq_or_imp]
    by_cases hc : h.1 = bContentLength
    · simp only [hc, if_true, true_and]
      cases hp : parseContentLength h.2 with
      | error e =>
        have : ¬ pyIntOfBytes h.2 = some (n : Int) := by
          rw [← parseContentLength_ok_iff, hp]; simp
        simp [ih, this]
      | ok m =>
        have hm := (parseContentLength_ok_iff h.2 m).1 hp
        simp only [List.mem_cons, ih, hm, Option.some.injEq]
        constructor
        · rintro (rfl | h2)
          · exact Or.inl rfl
          · exact Or.inr h2
        · rintro (h1 | h2)
          · exact Or.inl (by omega)
          · exact Or.inr h2
    · simp [hc, ih]

/-! ### closed terms for the examples of AQ.Props.C15 -/

/-- equality of outcomes is decidable (used only to evaluate closed examples) -/
scoped instance decEqExcept {ε α : Type} [DecidableEq ε] [DecidableEq α] : DecidableEq (Except ε α)
  | .ok a, .ok b => if h : a = b then isTrue (by rw [h]) else isFalse (fun hh => by cases hh; exact h rfl)
  | .error a, .error b => if h : a = b then isTrue (by rw [h]) else isFalse (fun hh => by cases hh; exact h rfl)
  | .ok _, .error _ => isFalse (fun hh => by cases hh)
  | .error _, .ok _ => isFalse (fun hh => by cases hh)

/-- `:status: 200` -/
def hStatus200 : Header := (bStatus, [0x32, 0x30, 0x30])
/-- `content-length: v` -/
def hCL (v : Bytes) : Header := (bContentLength, v)
/-- `:method: GET` -/
def hMethodGet : Header := (bMethod, [0x47, 0x45, 0x54])
/-- `:authority: x` -/
def hAuthorityX : Header := (bAuthority, [0x78])
/-- pseudo-headers that satisfy each kind's requirements -/
def GOODPREFIX : Kind → Headers
  | .request => [hMethodGet, hAuthorityX]
  | .response => [hStatus200]
  | .trailers => []
  | .push => [hMethodGet, (bScheme, bHttps), hAuthorityX, (bPath, [0x2F])]

end AQ.H3V
