/-
  ACK frames: `push_ack_frame` / `pull_ack_frame` round trip (both directions)
  and equality with the RFC-written encoder.
-/
import AQ.Proofs.Codec
import AQ.Proofs.RangeSet

namespace AQ.Codec
open AQ AQ.RangeSet

theorem ofNat_congr {a b : Nat} (h : a % 256 = b % 256) : UInt8.ofNat a = byte b := byte_congr h

/-- the RFC 9000 §16 encoder (generic big-endian writer) and `_buffer.c` agree -/
theorem specVarint_eq (v : Nat) (h : v < 4611686018427387904) : CodecSpec.encVarint v = encV v := by
  unfold CodecSpec.encVarint CodecSpec.varintLenCode CodecSpec.encVarintW encV
  split
  · rw [if_pos (by omega)]
    simp only [CodecSpec.beBytes, List.nil_append, Nat.pow_zero, Nat.zero_mul, Nat.zero_add]
    congr 1
    exact ofNat_congr (by omega)
  · split
    · rw [if_neg (by omega), if_pos (by omega)]
      simp only [CodecSpec.beBytes, List.nil_append, List.cons_append, Nat.pow_one, Nat.one_mul,
        Nat.reduceMul, Nat.reduceSub, Nat.reducePow]
      congr 1
      · exact ofNat_congr (by omega)
      · congr 1; exact ofNat_congr (by omega)
    · split
      · rw [if_neg (by omega), if_neg (by omega), if_pos (by omega)]
        simp only [CodecSpec.beBytes, List.nil_append, List.cons_append,
          Nat.reduceMul, Nat.reduceSub, Nat.reducePow]
        repeat' (first | (congr 1; exact ofNat_congr (by omega)) | congr 1)
      · rw [if_neg (by omega), if_neg (by omega), if_neg (by omega)]
        simp only [CodecSpec.beBytes, List.nil_append, List.cons_append,
          Nat.reduceMul, Nat.reduceSub, Nat.reducePow]
        repeat' (first | (congr 1; exact ofNat_congr (by omega)) | congr 1)

theorem chunkUintVar_int (x : Int) (h0 : 0 ≤ x) (h : x < 4611686018427387904) :
    chunkUintVar x = .ok (encV x.toNat) := by
  obtain ⟨n, rfl⟩ := Int.eq_ofNat_of_zero_le h0
  rw [chunkUintVar_ofNat _ (by omega)]
  simp

/-! ### descending range lists -/

/-- conditions on the ranges below the first, highest first; `start` is the
    start of the preceding (higher) range: strictly separated, non-empty, every
    encoded difference below 2^62 -/
def TailOK (start : Int) : List IRg → Prop
  | [] => True
  | r :: rest =>
    r.stop < start ∧ start - r.stop - 1 < 4611686018427387904 ∧ r.start < r.stop ∧
      r.stop - r.start - 1 < 4611686018427387904 ∧ TailOK r.start rest

/-- conditions on a whole set, highest range first -/
def DescOK : List IRg → Prop
  | [] => False
  | r :: lower =>
    0 ≤ r.stop - 1 ∧ r.stop - 1 < 4611686018427387904 ∧ r.start < r.stop ∧
      r.stop - 1 - r.start < 4611686018427387904 ∧ lower.length < 4611686018427387904 ∧
      TailOK r.start lower

def tailBytes (start : Int) : List IRg → Bytes
  | [] => []
  | r :: rest =>
    encV (start - r.stop - 1).toNat ++ (encV (r.stop - r.start - 1).toNat ++ tailBytes r.start rest)

/-- the bytes of an ACK frame body for a descending list -/
def ackBytesDesc (delay : Nat) : List IRg → Bytes
  | [] => []
  | r :: lower =>
    encV (r.stop - 1).toNat ++ (encV delay ++ (encV lower.length ++
      (encV (r.stop - 1 - r.start).toNat ++ tailBytes r.start lower)))

theorem ackTail_bytes (start : Int) (l : List IRg) (h : TailOK start l) :
    (ackTail start l).bytes = .ok (tailBytes start l) := by
  induction l generalizing start with
  | nil => rfl
  | cons r rest ih =>
    obtain ⟨h1, h2, h3, h4, h5⟩ := h
    simp only [ackTail, tailBytes]
    rw [chunkUintVar_int _ (by omega) h2, chunkUintVar_int _ (by omega) h4]
    rw [Script.bytes_cons_ok _ _ _ (Script.bytes_cons_ok _ _ _ (ih _ h5))]

theorem ackScript_bytes (delay : Nat) (hd : delay < 4611686018427387904) (d : List IRg) (h : DescOK d) :
    (ackScript d.reverse (delay : Int)).bytes = .ok (ackBytesDesc delay d) := by
  cases d with
  | nil => exact absurd h (by simp [DescOK])
  | cons r lower =>
    obtain ⟨h0, h1, h2, h3, h4, h5⟩ := h
    unfold ackScript
    simp only [List.reverse_reverse, List.length_reverse, List.length_cons, ackBytesDesc]
    rw [chunkUintVar_int _ h0 h1, chunkUintVar_ofNat _ hd, chunkUintVar_int _ (by omega) h3]
    have hl : ((lower.length + 1 : Nat) : Int) - 1 = ((lower.length : Nat) : Int) := by omega
    rw [hl, chunkUintVar_ofNat _ h4]
    rw [Script.bytes_cons_ok _ _ _ (Script.bytes_cons_ok _ _ _ (Script.bytes_cons_ok _ _ _
      (Script.bytes_cons_ok _ _ _ (ackTail_bytes _ _ h5))))]

theorem pullAckRanges_step (n : Nat) (end_ : Int) (acc : List IRg) (g c : Nat)
    (hg : g < 4611686018427387904) (hc : c < 4611686018427387904) (x : Bytes) :
    pullAckRanges (n + 1) end_ acc (encV g ++ (encV c ++ x)) =
      match rsAdd (end_ - ((g : Int) + 2) - c) (end_ - ((g : Int) + 2) + 1) acc with
      | .ok rs' => pullAckRanges n (end_ - ((g : Int) + 2) - c) rs' x
      | .error e => .error e := by
  simp only [pullAckRanges, Rd.bind_apply, varint_roundtrip _ _ hg, varint_roundtrip _ _ hc]
  cases rsAdd (end_ - ((g : Int) + 2) - c) (end_ - ((g : Int) + 2) + 1) acc <;> rfl

theorem addI_front (s t : Int) (a : IRg) (acc : List IRg) (h : t < a.start) :
    addI s t (a :: acc) = ⟨s, t⟩ :: a :: acc := by
  simp [addI, h]

theorem pullAckRanges_tail (l : List IRg) : ∀ (start : Int) (a : IRg) (acc : List IRg) (x : Bytes),
    TailOK start l → a.start = start →
    pullAckRanges l.length start (a :: acc) (tailBytes start l ++ x) = .ok (l.reverse ++ a :: acc, x) := by
  induction l with
  | nil => intro start a acc x _ _; rfl
  | cons r rest ih =>
    intro start a acc x h ha
    obtain ⟨h1, h2, h3, h4, h5⟩ := h
    have hg : ((start - r.stop - 1).toNat : Int) = start - r.stop - 1 := Int.toNat_of_nonneg (by omega)
    have hc : ((r.stop - r.start - 1).toNat : Int) = r.stop - r.start - 1 := Int.toNat_of_nonneg (by omega)
    simp only [tailBytes, List.length_cons, List.append_assoc]
    rw [pullAckRanges_step _ _ _ _ _ (by omega) (by omega)]
    have e1 : start - (((start - r.stop - 1).toNat : Int) + 2) - ((r.stop - r.start - 1).toNat : Int) = r.start := by
      omega
    have e2 : start - (((start - r.stop - 1).toNat : Int) + 2) + 1 = r.stop := by omega
    rw [e1, e2]
    unfold rsAdd
    rw [if_pos h3, addI_front _ _ _ _ (by omega)]
    simp only []
    rw [ih r.start ⟨r.start, r.stop⟩ (a :: acc) x h5 rfl]
    simp

/-- decode ∘ encode on a descending list satisfying `DescOK` -/
theorem pullAck_desc (delay : Nat) (hd : delay < 4611686018427387904) (d : List IRg) (h : DescOK d)
    (x : Bytes) : pullAck (ackBytesDesc delay d ++ x) = .ok ((d.reverse, delay), x) := by
  cases d with
  | nil => exact absurd h (by simp [DescOK])
  | cons r lower =>
    obtain ⟨h0, h1, h2, h3, h4, h5⟩ := h
    have hL : ((r.stop - 1).toNat : Int) = r.stop - 1 := Int.toNat_of_nonneg h0
    have hC : ((r.stop - 1 - r.start).toNat : Int) = r.stop - 1 - r.start := Int.toNat_of_nonneg (by omega)
    simp only [ackBytesDesc, List.append_assoc]
    simp only [pullAck, Rd.bind_apply, varint_roundtrip _ _ (show (r.stop - 1).toNat < 4611686018427387904 by omega),
      varint_roundtrip _ _ hd, varint_roundtrip _ _ h4,
      varint_roundtrip _ _ (show (r.stop - 1 - r.start).toNat < 4611686018427387904 by omega)]
    have e1 : ((r.stop - 1).toNat : Int) - ((r.stop - 1 - r.start).toNat : Int) = r.start := by omega
    have e2 : ((r.stop - 1).toNat : Int) + 1 = r.stop := by omega
    rw [e1, e2]
    unfold rsAdd
    rw [if_pos h2]
    simp only [Rd.lift_ok, addI]
    rw [pullAckRanges_tail lower r.start ⟨r.start, r.stop⟩ [] x h5 rfl]
    simp

/-! ### from well-formed `RangeSet`s (naturals, ascending) to descending lists -/

def DescWF : List Rg → Prop
  | [] => True
  | [r] => r.start < r.stop
  | r :: r' :: rest => r.start < r.stop ∧ r'.stop < r.start ∧ DescWF (r' :: rest)

theorem descWF_reverseAux (l : List Rg) : ∀ acc : List Rg, WF l → DescWF acc →
    (∀ a b, acc.head? = some a → l.head? = some b → a.stop < b.start) → DescWF (l.reverse ++ acc) := by
  induction l with
  | nil => intro acc _ h _; simpa using h
  | cons b l' ih =>
    intro acc hwf hacc hlink
    rw [List.reverse_cons, List.append_assoc]
    apply ih (b :: acc) (wf_tail hwf)
    · cases acc with
      | nil => exact wf_head hwf
      | cons a acc' => exact ⟨wf_head hwf, hlink a b rfl rfl, hacc⟩
    · intro a b' ha hb'
      simp only [List.head?_cons, Option.some.injEq] at ha
      subst ha
      cases l' with
      | nil => simp at hb'
      | cons c l'' =>
        simp only [List.head?_cons, Option.some.injEq] at hb'
        subst hb'
        exact hwf.2.1

theorem descWF_reverse (l : List Rg) (h : WF l) : DescWF l.reverse := by
  have := descWF_reverseAux l [] h trivial (by intro a b ha; simp at ha)
  simpa using this

theorem descWF_length (r : Rg) (lower : List Rg) (h : DescWF (r :: lower)) : lower.length < r.stop := by
  induction lower generalizing r with
  | nil => simp only [DescWF] at h; simp; omega
  | cons r' rest ih =>
    obtain ⟨h1, h2, h3⟩ := h
    have := ih r' h3
    simp only [List.length_cons]
    omega

theorem descWF_tailOK (start : Nat) (l : List Rg) (h : DescWF l)
    (hs : ∀ a, l.head? = some a → a.stop < start) (hb : start ≤ 4611686018427387904) :
    TailOK (start : Int) (l.map IRg.ofRg) := by
  induction l generalizing start with
  | nil => trivial
  | cons r rest ih =>
    have h1 := hs r rfl
    have hr : r.start < r.stop := by
      cases rest with
      | nil => exact h
      | cons _ _ => exact h.1
    simp only [List.map_cons, TailOK, IRg.ofRg]
    refine ⟨by omega, by omega, by omega, by omega, ?_⟩
    apply ih r.start
    · cases rest with
      | nil => trivial
      | cons _ _ => exact h.2.2
    · intro a ha
      cases rest with
      | nil => simp at ha
      | cons r' rest' =>
        simp only [List.head?_cons, Option.some.injEq] at ha
        subst ha
        exact h.2.1
    · omega

theorem descOK_of_wf (rs : List Rg) (hwf : WF rs) (hne : rs ≠ [])
    (hb : ∀ r ∈ rs, r.stop ≤ 4611686018427387904) : DescOK ((rs.map IRg.ofRg).reverse) := by
  have hd := descWF_reverse rs hwf
  rw [← List.map_reverse]
  cases hrev : rs.reverse with
  | nil => simp at hrev; exact absurd hrev hne
  | cons r lower =>
    rw [hrev] at hd
    have hmem : r ∈ rs := by
      have : r ∈ rs.reverse := by rw [hrev]; simp
      simpa using this
    have hstop := hb r hmem
    have hr : r.start < r.stop := by
      cases lower with
      | nil => exact hd
      | cons _ _ => exact hd.1
    have hlen := descWF_length r lower hd
    simp only [List.map_cons, DescOK, IRg.ofRg, List.length_map]
    refine ⟨by omega, by omega, by omega, by omega, by omega, ?_⟩
    apply descWF_tailOK r.start lower
    · cases lower with
      | nil => trivial
      | cons _ _ => exact hd.2.2
    · intro a ha
      cases lower with
      | nil => simp at ha
      | cons r' rest' =>
        simp only [List.head?_cons, Option.some.injEq] at ha
        subst ha
        exact hd.2.1
    · omega

/-! ### the RFC-written ACK encoder -/

theorem specTail_eq (start : Nat) (l : List Rg) (h : TailOK (start : Int) (l.map IRg.ofRg)) :
    CodecSpec.encAckRanges start l = tailBytes (start : Int) (l.map IRg.ofRg) := by
  induction l generalizing start with
  | nil => rfl
  | cons r rest ih =>
    simp only [List.map_cons, TailOK, IRg.ofRg] at h
    obtain ⟨h1, h2, h3, h4, h5⟩ := h
    simp only [CodecSpec.encAckRanges, List.map_cons, tailBytes, IRg.ofRg]
    have e1 : start - (r.stop - 1) - 2 = ((start : Int) - (r.stop : Int) - 1).toNat := by omega
    have e2 : r.stop - 1 - r.start = ((r.stop : Int) - (r.start : Int) - 1).toNat := by omega
    rw [e1, e2, specVarint_eq _ (by omega), specVarint_eq _ (by omega), ih r.start h5]
    simp

theorem specAck_eq (rs : List Rg) (delay : Nat) (hd : delay < 4611686018427387904)
    (h : DescOK ((rs.map IRg.ofRg).reverse)) :
    CodecSpec.encAck rs delay = ackBytesDesc delay ((rs.map IRg.ofRg).reverse) := by
  rw [← List.map_reverse] at h ⊢
  unfold CodecSpec.encAck
  generalize rs.reverse = d at h ⊢
  cases d with
  | nil => exact absurd h (by simp [DescOK])
  | cons r lower =>
    simp only [List.map_cons, DescOK, IRg.ofRg, List.length_map] at h
    obtain ⟨h0, h1, h2, h3, h4, h5⟩ := h
    simp only [List.map_cons, ackBytesDesc, IRg.ofRg, List.length_map]
    have e1 : r.stop - 1 = ((r.stop : Int) - 1).toNat := by omega
    have e2 : r.stop - 1 - r.start = ((r.stop : Int) - 1 - (r.start : Int)).toNat := by omega
    rw [e2, e1, specVarint_eq _ (by omega), specVarint_eq _ hd, specVarint_eq _ h4,
      specVarint_eq _ (by omega), specTail_eq r.start lower h5]
    simp

/-! ### decoding arbitrary bytes -/

theorem pullAckRanges_inv (n : Nat) : ∀ (end_ : Int) (a : IRg) (acc : List IRg) (s x : Bytes) (res : List IRg),
    a.start = end_ → pullAckRanges n end_ (a :: acc) s = .ok (res, x) →
    ∃ l : List IRg, l.length = n ∧ TailOK end_ l ∧ res = l.reverse ++ a :: acc := by
  induction n with
  | zero =>
    intro end_ a acc s x res _ h
    simp only [pullAckRanges, Rd.pure_apply] at h
    cases h
    exact ⟨[], rfl, trivial, rfl⟩
  | succ n ih =>
    intro end_ a acc s x res ha h
    simp only [pullAckRanges, Rd.bind_apply] at h
    split at h
    · rename_i g s1 hg
      split at h
      · rename_i c s2 hc
        have hg62 := (pullUintVar_inv _ _ _ hg).1
        have hc62 := (pullUintVar_inv _ _ _ hc).1
        unfold rsAdd at h
        rw [if_pos (by omega), addI_front _ _ _ _ (by omega)] at h
        simp only [Rd.lift_ok] at h
        obtain ⟨l, hl, htail, hres⟩ := ih _ ⟨end_ - ((g : Int) + 2) - c, end_ - ((g : Int) + 2) + 1⟩ (a :: acc) s2 x res rfl h
        refine ⟨⟨end_ - ((g : Int) + 2) - c, end_ - ((g : Int) + 2) + 1⟩ :: l, by simp [hl], ?_, ?_⟩
        · exact ⟨by show end_ - ((g : Int) + 2) + 1 < end_; omega,
                 by show end_ - (end_ - ((g : Int) + 2) + 1) - 1 < 4611686018427387904; omega,
                 by show end_ - ((g : Int) + 2) - c < end_ - ((g : Int) + 2) + 1; omega,
                 by show end_ - ((g : Int) + 2) + 1 - (end_ - ((g : Int) + 2) - c) - 1 < 4611686018427387904; omega,
                 htail⟩
        · rw [hres]; simp
      · cases h
    · cases h

/-- whatever `pull_ack_frame` accepts is a strictly separated descending list
    whose encoded differences are all below 2^62 -/
theorem pullAck_inv (s x : Bytes) (rs : List IRg) (delay : Nat) (h : pullAck s = .ok ((rs, delay), x)) :
    DescOK rs.reverse ∧ delay < 4611686018427387904 := by
  simp only [pullAck, Rd.bind_apply] at h
  split at h
  · rename_i e s1 he
    split at h
    · rename_i d s2 hd
      split at h
      · rename_i n s3 hn
        split at h
        · rename_i c s4 hc
          have he62 := (pullUintVar_inv _ _ _ he).1
          have hd62 := (pullUintVar_inv _ _ _ hd).1
          have hn62 := (pullUintVar_inv _ _ _ hn).1
          have hc62 := (pullUintVar_inv _ _ _ hc).1
          unfold rsAdd at h
          rw [if_pos (by omega)] at h
          simp only [Rd.lift_ok, addI] at h
          split at h
          · rename_i res s5 hres
            obtain ⟨l, hl, htail, hrs⟩ := pullAckRanges_inv n _ ⟨(e : Int) - c, (e : Int) + 1⟩ [] s4 s5 res rfl hres
            cases h
            refine ⟨?_, hd62⟩
            rw [hrs]
            simp only [List.reverse_append, List.reverse_cons, List.reverse_nil, List.nil_append,
              List.reverse_reverse, List.singleton_append]
            exact ⟨by show 0 ≤ (e : Int) + 1 - 1; omega, by show (e : Int) + 1 - 1 < 4611686018427387904; omega,
              by show (e : Int) - c < (e : Int) + 1; omega,
              by show (e : Int) + 1 - 1 - ((e : Int) - c) < 4611686018427387904; omega,
              by rw [hl]; exact hn62, htail⟩
          · cases h
        · cases h
      · cases h
    · cases h
  · cases h

end AQ.Codec
