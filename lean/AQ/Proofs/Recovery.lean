/-
  Lemmas for C08 (AQ/Props/C08.lean) about the recovery model.
  Core Lean only.
-/
import AQ.Model.RecoveryOps

namespace AQ.Recovery
open AQ AQ.RangeSet

variable {F : Type}

/-! ## weighted sums over packet lists -/

/-- sum of a weight over a list of packets -/
def wsum (w : Pkt F → Int) (ps : List (Pkt F)) : Int := (ps.map w).sum

@[simp] theorem wsum_nil (w : Pkt F → Int) : wsum w [] = 0 := rfl
@[simp] theorem wsum_cons (w : Pkt F → Int) (p : Pkt F) (ps : List (Pkt F)) :
    wsum w (p :: ps) = w p + wsum w ps := by simp [wsum]
@[simp] theorem wsum_append (w : Pkt F → Int) (ps qs : List (Pkt F)) :
    wsum w (ps ++ qs) = wsum w ps + wsum w qs := by simp [wsum]

theorem wsum_nonneg (w : Pkt F → Int) (hw : ∀ p, 0 ≤ w p) (ps : List (Pkt F)) : 0 ≤ wsum w ps := by
  induction ps with
  | nil => simp
  | cons p ps ih => have := hw p; simp; omega

theorem le_wsum_of_mem (w : Pkt F → Int) (hw : ∀ p, 0 ≤ w p) {ps : List (Pkt F)} {p : Pkt F}
    (h : p ∈ ps) : w p ≤ wsum w ps := by
  induction ps with
  | nil => cases h
  | cons q ps ih =>
    have h0 := wsum_nonneg w hw ps
    have hq := hw q
    rcases List.mem_cons.1 h with rfl | h
    · simp; omega
    · have := ih h; simp; omega

/-- the in-flight size of a packet -/
def fbW (p : Pkt F) : Int := if p.inFlight then (p.sentBytes : Int) else 0
/-- 1 for an ack-eliciting packet -/
def aeW (p : Pkt F) : Int := if p.ackEliciting then 1 else 0
/-- 1 for the packet object `u` -/
def uidW (u : Nat) (p : Pkt F) : Int := if p.uid = u then 1 else 0

theorem fbW_nonneg (p : Pkt F) : 0 ≤ fbW p := by unfold fbW; split <;> omega
theorem aeW_nonneg (p : Pkt F) : 0 ≤ aeW p := by unfold aeW; split <;> omega
theorem uidW_nonneg (u : Nat) (p : Pkt F) : 0 ≤ uidW u p := by unfold uidW; split <;> omega

/-- removing the key `p.pn` from a dict with distinct keys that holds `p`
    removes exactly the weight of `p` -/
theorem wsum_filter_ne (w : Pkt F → Int) (snt : List (Pkt F)) (p : Pkt F) (hp : p ∈ snt)
    (hnd : (snt.map (·.pn)).Nodup) :
    wsum w (snt.filter (fun q => q.pn ≠ p.pn)) = wsum w snt - w p := by
  induction snt with
  | nil => cases hp
  | cons q rest ih =>
    simp only [List.map_cons, List.nodup_cons, List.mem_map, not_exists, not_and] at hnd
    rcases List.mem_cons.1 hp with rfl | hp'
    · have hself : rest.filter (fun q => q.pn ≠ p.pn) = rest := by
        apply List.filter_eq_self.2
        intro a ha
        have := hnd.1 a ha
        simp only [ne_eq, decide_not, Bool.not_eq_eq_eq_not, Bool.not_true, decide_eq_false_iff_not]
        exact this
      simp only [List.filter_cons, ne_eq, not_true_eq_false, decide_false, Bool.false_eq_true,
        if_false, wsum_cons]
      simp only [ne_eq] at hself
      rw [hself]; omega
    · have hne : q.pn ≠ p.pn := fun h => hnd.1 p hp' h.symm
      simp only [List.filter_cons, ne_eq, hne, not_false_eq_true, decide_true, if_true, wsum_cons]
      have := ih hp' hnd.2
      simp only [ne_eq] at this
      rw [this]; omega

/-- the `del d[p.pn]` / `d.pop(p.pn)` loops: remove the keys of `ps` one by one -/
def removeAll (snt ps : List (Pkt F)) : List (Pkt F) :=
  ps.foldl (fun l p => l.filter (fun q => q.pn ≠ p.pn)) snt

@[simp] theorem removeAll_nil (snt : List (Pkt F)) : removeAll snt [] = snt := rfl
@[simp] theorem removeAll_cons (snt : List (Pkt F)) (p : Pkt F) (ps : List (Pkt F)) :
    removeAll snt (p :: ps) = removeAll (snt.filter (fun q => q.pn ≠ p.pn)) ps := rfl

theorem removeAll_sublist (snt ps : List (Pkt F)) : (removeAll snt ps).Sublist snt := by
  induction ps generalizing snt with
  | nil => simp
  | cons p ps ih => exact (ih _).trans List.filter_sublist

theorem mem_of_mem_removeAll {snt ps : List (Pkt F)} {q : Pkt F} (h : q ∈ removeAll snt ps) :
    q ∈ snt := (removeAll_sublist snt ps).subset h

theorem nodup_removeAll {snt : List (Pkt F)} (ps : List (Pkt F)) (h : (snt.map (·.pn)).Nodup) :
    ((removeAll snt ps).map (·.pn)).Nodup :=
  List.Nodup.sublist ((removeAll_sublist snt ps).map _) h

/-- removing a set of tracked packets with distinct numbers subtracts exactly
    their weight -/
theorem wsum_removeAll (w : Pkt F → Int) (ps snt : List (Pkt F)) (hsub : ∀ p ∈ ps, p ∈ snt)
    (hps : (ps.map (·.pn)).Nodup) (hnd : (snt.map (·.pn)).Nodup) :
    wsum w (removeAll snt ps) = wsum w snt - wsum w ps := by
  induction ps generalizing snt with
  | nil => simp
  | cons p ps ih =>
    simp only [List.map_cons, List.nodup_cons, List.mem_map, not_exists, not_and] at hps
    have hp : p ∈ snt := hsub p (by simp)
    have hsub' : ∀ q ∈ ps, q ∈ snt.filter (fun q => q.pn ≠ p.pn) := by
      intro q hq
      refine List.mem_filter.2 ⟨hsub q (by simp [hq]), ?_⟩
      have : q.pn ≠ p.pn := hps.1 q hq
      simpa using this
    have hnd' : ((snt.filter (fun q => q.pn ≠ p.pn)).map (·.pn)).Nodup :=
      List.Nodup.sublist (List.filter_sublist.map _) hnd
    rw [removeAll_cons, ih _ hsub' hps.2 hnd', wsum_filter_ne w snt p hp hnd, wsum_cons]
    omega

/-! ## sums over the packet spaces -/

theorem sum_map_set {α : Type} (f : α → Int) (l : List α) (i : Nat) (a a' : α) (h : l[i]? = some a) :
    ((l.set i a').map f).sum = (l.map f).sum - f a + f a' := by
  induction l generalizing i with
  | nil => simp at h
  | cons x xs ih =>
    cases i with
    | zero => simp at h; subst h; simp; omega
    | succ i =>
      simp only [List.getElem?_cons_succ] at h
      simp only [List.set_cons_succ, List.map_cons, List.sum_cons]; rw [ih i h]; omega

/-- total weight of all tracked packets -/
def trackedW (w : Pkt F → Int) (sp : List (Space F)) : Int := (sp.map (fun s => wsum w s.sent)).sum

theorem trackedW_set (w : Pkt F → Int) (sp : List (Space F)) (i : Nat) (s s' : Space F)
    (h : sp[i]? = some s) :
    trackedW w (sp.set i s') = trackedW w sp - wsum w s.sent + wsum w s'.sent :=
  sum_map_set (fun s : Space F => wsum w s.sent) sp i s s' h

theorem trackedW_nonneg (w : Pkt F → Int) (hw : ∀ p, 0 ≤ w p) (sp : List (Space F)) :
    0 ≤ trackedW w sp := by
  induction sp with
  | nil => simp [trackedW]
  | cons s sp ih =>
    have := wsum_nonneg w hw s.sent
    simp only [trackedW, List.map_cons, List.sum_cons] at ih ⊢; omega

theorem le_trackedW_of_mem (w : Pkt F → Int) (hw : ∀ p, 0 ≤ w p) {sp : List (Space F)} {s : Space F}
    {p : Pkt F} (hs : s ∈ sp) (hp : p ∈ s.sent) : w p ≤ trackedW w sp := by
  induction sp with
  | nil => cases hs
  | cons t sp ih =>
    have h0 := trackedW_nonneg w hw sp
    have h1 := wsum_nonneg w hw t.sent
    simp only [trackedW, List.map_cons, List.sum_cons] at h0 ⊢
    rcases List.mem_cons.1 hs with rfl | hs
    · have := le_wsum_of_mem w hw hp; omega
    · have := ih hs; simp only [trackedW] at this; omega

theorem trackedW_replicate (w : Pkt F → Int) (n : Nat) :
    trackedW w (List.replicate n ({} : Space F)) = 0 := by
  induction n with
  | zero => simp [trackedW]
  | succ n ih => simp only [trackedW, List.replicate_succ, List.map_cons, List.sum_cons] at ih ⊢; simp

/-! ## the accounting invariant -/

/-- number of callbacks fired for packet object `u` -/
def logCount (u : Nat) (log : List (Nat × Delivery)) : Int := ((log.map (·.1)).count u : Nat)

/-- occurrences of packet object `u`: tracked + reported -/
def total (u : Nat) (r : Rec F) : Int := trackedW (uidW u) r.spaces + logCount u r.log

theorem logCount_nonneg (u : Nat) (log : List (Nat × Delivery)) : 0 ≤ logCount u log := by
  unfold logCount; omega

theorem logCount_report (u : Nat) (d : Pkt F → Delivery) (ps : List (Pkt F)) (log : List (Nat × Delivery)) :
    logCount u ((ps.map (fun p => (p.uid, d p))).reverse ++ log) = wsum (uidW u) ps + logCount u log := by
  induction ps generalizing log with
  | nil => simp
  | cons p ps ih =>
    have := ih ((p.uid, d p) :: log)
    simp only [List.map_cons, List.reverse_cons, List.append_assoc, List.singleton_append, wsum_cons]
    rw [this]
    simp only [logCount, List.map_cons, List.count_cons, uidW]
    by_cases h : p.uid = u <;> simp [h] <;> omega

structure Inv (r : Rec F) : Prop where
  /-- `bytes_in_flight` is the size of the tracked in-flight packets -/
  ledger : r.cc.bytesInFlight = trackedW fbW r.spaces
  /-- `ack_eliciting_in_flight` counts the tracked ack-eliciting packets -/
  ae : ∀ s ∈ r.spaces, s.aeInFlight = wsum aeW s.sent
  /-- dict keys are distinct -/
  nodup : ∀ s ∈ r.spaces, (s.sent.map (·.pn)).Nodup

/-- tracked sets only shrink (everything except `on_packet_sent`) -/
def Shrinks (r r' : Rec F) : Prop :=
  ∀ (j : Nat) (t' : Space F), r'.spaces[j]? = some t' → ∃ t, r.spaces[j]? = some t ∧ ∀ q ∈ t'.sent, q ∈ t.sent

theorem Shrinks.refl (r : Rec F) : Shrinks r r := fun _ t' h => ⟨t', h, fun _ hq => hq⟩

theorem Shrinks.trans {a b c : Rec F} (h1 : Shrinks a b) (h2 : Shrinks b c) : Shrinks a c := by
  intro j t'' h
  obtain ⟨t', ht', hs'⟩ := h2 j t'' h
  obtain ⟨t, ht, hs⟩ := h1 j t' ht'
  exact ⟨t, ht, fun q hq => hs q (hs' q hq)⟩

theorem Shrinks.of_spaces_eq {r r' : Rec F} (h : r'.spaces = r.spaces) : Shrinks r r' := by
  intro j t' ht'; rw [h] at ht'; exact ⟨t', ht', fun _ hq => hq⟩

theorem Inv.congr {r r' : Rec F} (h : Inv r) (hsp : r'.spaces = r.spaces)
    (hb : r'.cc.bytesInFlight = r.cc.bytesInFlight) : Inv r' :=
  ⟨by rw [hb, hsp]; exact h.ledger, by rw [hsp]; exact h.ae, by rw [hsp]; exact h.nodup⟩

theorem total_congr {r r' : Rec F} (hsp : r'.spaces = r.spaces) (hl : r'.log = r.log) (u : Nat) :
    total u r' = total u r := by simp [total, hsp, hl]

/-- A set `ps` of packets tracked in space `i`, with distinct numbers, is
    removed from the dict, from the counters and reported: the invariant is
    kept and every packet object keeps its number of occurrences. -/
theorem Inv.remove {r r' : Rec F} {i : Nat} {s s' : Space F} {ps : List (Pkt F)} {d : Pkt F → Delivery}
    (h : Inv r) (hs : r.spaces[i]? = some s) (hsub : ∀ p ∈ ps, p ∈ s.sent)
    (hnd : (ps.map (·.pn)).Nodup)
    (hsp : r'.spaces = r.spaces.set i s') (hsent : s'.sent = removeAll s.sent ps)
    (hae : s'.aeInFlight = s.aeInFlight - wsum aeW ps)
    (hb : r'.cc.bytesInFlight = r.cc.bytesInFlight - wsum fbW ps)
    (hlog : r'.log = (ps.map (fun p => (p.uid, d p))).reverse ++ r.log) :
    Inv r' ∧ (∀ u, total u r' = total u r) ∧ Shrinks r r' := by
  have hsmem : s ∈ r.spaces := List.mem_of_getElem? hs
  have hsnd := h.nodup s hsmem
  refine ⟨⟨?_, ?_, ?_⟩, ?_, ?_⟩
  · rw [hb, hsp, trackedW_set fbW _ i s s' hs, hsent, wsum_removeAll fbW ps s.sent hsub hnd hsnd, h.ledger]
    omega
  · intro t ht
    rw [hsp] at ht
    rcases List.mem_or_eq_of_mem_set ht with ht | rfl
    · exact h.ae t ht
    · rw [hae, hsent, wsum_removeAll aeW ps s.sent hsub hnd hsnd, h.ae s hsmem]
  · intro t ht
    rw [hsp] at ht
    rcases List.mem_or_eq_of_mem_set ht with ht | rfl
    · exact h.nodup t ht
    · rw [hsent]; exact nodup_removeAll ps hsnd
  · intro u
    simp only [total]
    rw [hsp, trackedW_set (uidW u) _ i s s' hs, hsent,
      wsum_removeAll (uidW u) ps s.sent hsub hnd hsnd, hlog, logCount_report]
    omega
  · intro j t' ht'
    rw [hsp] at ht'
    by_cases hij : i = j
    · subst hij
      have hlt : i < r.spaces.length := by
        rcases List.getElem?_eq_some_iff.1 hs with ⟨hlt, _⟩; exact hlt
      rw [List.getElem?_set_self hlt] at ht'
      cases ht'
      exact ⟨s, hs, fun q hq => by rw [hsent] at hq; exact mem_of_mem_removeAll hq⟩
    · rw [List.getElem?_set_ne hij] at ht'
      exact ⟨t', ht', fun _ hq => hq⟩

/-! ## congestion controller: effect on `bytes_in_flight`, preserved predicates -/

theorem foldl_sub_bytes (ps : List (Pkt F)) (b : Int) :
    ps.foldl (fun (b : Int) (p : Pkt F) => b - p.sentBytes) b = b - wsum (fun p => (p.sentBytes : Int)) ps := by
  induction ps generalizing b with
  | nil => simp
  | cons p ps ih => simp only [List.foldl_cons, ih, wsum_cons]; omega

theorem wsum_filter_inFlight (ps : List (Pkt F)) :
    wsum (fun p => (p.sentBytes : Int)) (ps.filter (·.inFlight)) = wsum fbW ps := by
  induction ps with
  | nil => simp
  | cons p ps ih =>
    by_cases h : p.inFlight <;> simp [h, fbW, ih]

theorem wsum_fbW_of_inFlight (ps : List (Pkt F)) (h : ∀ p ∈ ps, p.inFlight = true) :
    wsum (fun p => (p.sentBytes : Int)) ps = wsum fbW ps := by
  induction ps with
  | nil => simp
  | cons p ps ih =>
    have hp := h p (by simp)
    simp [fbW, hp, ih (fun q hq => h q (by simp [hq]))]

theorem CC.onPacketSent_bif (A : FArith F) (c : CC F) (p : Pkt F) :
    (c.onPacketSent A p).bytesInFlight = c.bytesInFlight + p.sentBytes := by
  unfold CC.onPacketSent
  simp only []
  split
  · rfl
  · split
    · rfl
    · split <;> rfl

theorem CC.onPacketAcked_bif (A : FArith F) (c : CC F) (now : F) (p : Pkt F) :
    (c.onPacketAcked A now p).bytesInFlight = c.bytesInFlight - p.sentBytes := by
  unfold CC.onPacketAcked
  simp only []
  split
  · split
    · rfl
    · split
      · rfl
      · split <;> rfl
  · split
    · rfl
    · repeat' split
      all_goals rfl

theorem CC.onPacketsExpired_bif (c : CC F) (ps : List (Pkt F)) :
    (c.onPacketsExpired ps).bytesInFlight = c.bytesInFlight - wsum (fun p => (p.sentBytes : Int)) ps := by
  simp [CC.onPacketsExpired, foldl_sub_bytes]

theorem CC.onPacketsLost_bif (A : FArith F) (c : CC F) (now : F) (ps : List (Pkt F)) :
    (c.onPacketsLost A now ps).bytesInFlight = c.bytesInFlight - wsum (fun p => (p.sentBytes : Int)) ps := by
  unfold CC.onPacketsLost
  simp only []
  split
  · split <;> simp [foldl_sub_bytes]
  · simp [foldl_sub_bytes]

theorem CC.onRttMeasurement_bif (A : FArith F) (c : CC F) (now rtt : F) :
    (c.onRttMeasurement A now rtt).bytesInFlight = c.bytesInFlight := by
  unfold CC.onRttMeasurement
  cases h : c.algo <;> simp only [] <;> split <;> (try split) <;> rfl

/-- a predicate on the controller kept by each of its five entry points -/
structure CCPreserved (A : FArith F) (P : CC F → Prop) : Prop where
  acked : ∀ c now p, P c → P (c.onPacketAcked A now p)
  sent : ∀ c p, P c → P (c.onPacketSent A p)
  expired : ∀ c ps, P c → P (c.onPacketsExpired ps)
  lost : ∀ c now ps, P c → P (c.onPacketsLost A now ps)
  rtt : ∀ c now rtt, P c → P (c.onRttMeasurement A now rtt)

/-- what every recovery entry point except `on_packet_sent`/`discard_space`
    does to the accounting: invariant kept, packet-object occurrences kept,
    tracked sets shrink, controller predicates kept -/
def Keeps (A : FArith F) (r r' : Rec F) : Prop :=
  (Inv r → Inv r' ∧ (∀ u, total u r' = total u r) ∧ Shrinks r r') ∧
  (∀ P, CCPreserved A P → P r.cc → P r'.cc)

theorem Keeps.refl (A : FArith F) (r : Rec F) : Keeps A r r :=
  ⟨fun h => ⟨h, fun _ => rfl, Shrinks.refl r⟩, fun _ _ h => h⟩

theorem Keeps.trans {A : FArith F} {a b c : Rec F} (h1 : Keeps A a b) (h2 : Keeps A b c) : Keeps A a c := by
  refine ⟨fun h => ?_, fun P hP h => h2.2 P hP (h1.2 P hP h)⟩
  obtain ⟨hb, tb, sb⟩ := h1.1 h
  obtain ⟨hc, tc, sc⟩ := h2.1 hb
  exact ⟨hc, fun u => (tc u).trans (tb u), sb.trans sc⟩

theorem Keeps.of_cc {A : FArith F} {r r' : Rec F} (hsp : r'.spaces = r.spaces) (hl : r'.log = r.log)
    (hb : r'.cc.bytesInFlight = r.cc.bytesInFlight)
    (hcc : ∀ P, CCPreserved A P → P r.cc → P r'.cc) : Keeps A r r' :=
  ⟨fun h => ⟨h.congr hsp hb, total_congr hsp hl, Shrinks.of_spaces_eq hsp⟩, hcc⟩

theorem Keeps.of_eq {A : FArith F} {r r' : Rec F} (hsp : r'.spaces = r.spaces) (hl : r'.log = r.log)
    (hcc : r'.cc = r.cc) : Keeps A r r' :=
  Keeps.of_cc hsp hl (by rw [hcc]) (fun _ _ h => by rw [hcc]; exact h)

/-! ## `_on_packets_lost` -/

theorem lostFold_spec (ps : List (Pkt F)) (s : Space F) :
    (ps.foldl (fun (s : Space F) p =>
      let s := { s with sent := s.sent.filter (fun q => q.pn ≠ p.pn) }
      if p.ackEliciting then { s with aeInFlight := s.aeInFlight - 1 } else s) s).sent
      = removeAll s.sent ps ∧
    (ps.foldl (fun (s : Space F) p =>
      let s := { s with sent := s.sent.filter (fun q => q.pn ≠ p.pn) }
      if p.ackEliciting then { s with aeInFlight := s.aeInFlight - 1 } else s) s).aeInFlight
      = s.aeInFlight - wsum aeW ps := by
  induction ps generalizing s with
  | nil => simp
  | cons p ps ih =>
    simp only [List.foldl_cons, removeAll_cons, wsum_cons]
    by_cases h : p.ackEliciting
    · simp only [h, if_true]
      refine ⟨(ih _).1, ?_⟩
      rw [(ih _).2]; simp [aeW, h]; omega
    · simp only [h, Bool.false_eq_true, if_false]
      refine ⟨(ih _).1, ?_⟩
      rw [(ih _).2]; simp [aeW, h]

theorem sublist_facts {ps snt : List (Pkt F)} (hsub : ps.Sublist snt) (hnd : (snt.map (·.pn)).Nodup) :
    (∀ p ∈ ps, p ∈ snt) ∧ (ps.map (·.pn)).Nodup :=
  ⟨fun _ hp => hsub.subset hp, List.Nodup.sublist (hsub.map _) hnd⟩

/-- `_on_packets_lost` on a set of packets tracked in space `i` -/
theorem onPacketsLost_keeps (A : FArith F) (r : Rec F) (i : Nat) (now : F) (ps : List (Pkt F))
    (hps : ∀ s, r.spaces[i]? = some s → (s.sent.map (·.pn)).Nodup →
      (∀ p ∈ ps, p ∈ s.sent) ∧ (ps.map (·.pn)).Nodup) :
    Keeps A r (onPacketsLost A r i now ps) := by
  unfold onPacketsLost
  cases hs : r.spaces[i]? with
  | none => exact Keeps.refl A r
  | some s =>
    simp only []
    have hfold := lostFold_spec ps s
    have hbytes : wsum (fun p => (p.sentBytes : Int)) (ps.filter (·.inFlight)) = wsum fbW ps :=
      wsum_filter_inFlight ps
    constructor
    · intro h
      have hsnd := h.nodup s (List.mem_of_getElem? hs)
      obtain ⟨hsub, hnd⟩ := hps s hs hsnd
      split
      · refine Inv.remove (d := fun _ => Delivery.lost) h hs hsub hnd rfl hfold.1 hfold.2 ?_ rfl
        simp only [Rec.setSpace]
        rw [CC.onPacketsLost_bif, hbytes]
      · rename_i hnil
        refine Inv.remove (d := fun _ => Delivery.lost) h hs hsub hnd rfl hfold.1 hfold.2 ?_ rfl
        simp only [Rec.setSpace]
        have : ps.filter (·.inFlight) = [] := by simpa using hnil
        rw [this] at hbytes
        simp at hbytes
        omega
    · intro P hP hc
      split
      · exact hP.lost _ _ _ hc
      · exact hc

/-! ## `_detect_loss` -/

theorem detectLoop_sublist (A : FArith F) (la : Nat) (tt ld : F) (l acc : List (Pkt F)) (lt : Option F) :
    ∃ sub, sub.Sublist l ∧ (detectLoop A la tt ld l acc lt).1 = acc.reverse ++ sub := by
  induction l generalizing acc lt with
  | nil => exact ⟨[], List.Sublist.refl _, by simp [detectLoop]⟩
  | cons p rest ih =>
    unfold detectLoop
    split
    · exact ⟨[], by simp, by simp⟩
    · split
      · obtain ⟨sub, hsub, heq⟩ := ih (p :: acc) lt
        exact ⟨p :: sub, hsub.cons_cons p, by rw [heq]; simp⟩
      · simp only []
        obtain ⟨sub, hsub, heq⟩ := ih acc
          (match lt with
            | none => some (A.add p.sentTime ld)
            | some l => if A.lt (A.add p.sentTime ld) l then some (A.add p.sentTime ld) else some l)
        exact ⟨sub, hsub.cons p, heq⟩

theorem detectLoss_keeps (A : FArith F) (r : Rec F) (i : Nat) (now : F) :
    Keeps A r (detectLoss A r i now) := by
  unfold detectLoss
  cases hs : r.spaces[i]? with
  | none => exact Keeps.refl A r
  | some s =>
    simp only []
    generalize hdl : detectLoop A s.largestAcked _ _ s.sent [] none = res
    obtain ⟨lost, lt⟩ := res
    simp only []
    obtain ⟨sub, hsub, heq⟩ := detectLoop_sublist A s.largestAcked
      (A.sub now (A.mul (A.ratio 9 8) (if r.rttInitialized then A.pmax r.rttLatest r.rttSmoothed else r.rttInitial)))
      (A.mul (A.ratio 9 8) (if r.rttInitialized then A.pmax r.rttLatest r.rttSmoothed else r.rttInitial))
      s.sent [] none
    rw [hdl] at heq
    simp only [List.reverse_nil, List.nil_append] at heq
    subst heq
    have hlt : i < r.spaces.length := (List.getElem?_eq_some_iff.1 hs).1
    -- first the `loss_time` write, then `_on_packets_lost`
    have k1 : Keeps A r (r.setSpace i { s with lossTime := lt }) := by
      constructor
      · intro h
        have := Inv.remove (r' := r.setSpace i { s with lossTime := lt }) (ps := [])
          (d := fun _ => Delivery.lost) h hs (by simp) (by simp) rfl rfl (by simp) (by simp [Rec.setSpace])
          (by simp [Rec.setSpace])
        exact this
      · intro P _ hc; exact hc
    refine k1.trans (onPacketsLost_keeps A _ i now lost ?_)
    intro s' hs' hnd'
    simp only [Rec.setSpace, List.getElem?_set_self hlt, Option.some.injEq] at hs'
    subst hs'
    exact sublist_facts hsub hnd'

/-! ## `reschedule_data`, `on_loss_detection_timeout` -/

theorem rescheduleFold_keeps (A : FArith F) (now : F) (idx : List Nat) (r : Rec F) :
    Keeps A r (idx.foldl (fun (r : Rec F) i =>
      match r.spaces[i]? with
      | none => r
      | some s =>
        let ps := s.sent.filter (·.isCrypto)
        if ps ≠ [] then onPacketsLost A r i now ps else r) r) := by
  induction idx generalizing r with
  | nil => exact Keeps.refl A r
  | cons i idx ih =>
    simp only [List.foldl_cons]
    refine Keeps.trans ?_ (ih _)
    cases hs : r.spaces[i]? with
    | none => exact Keeps.refl A r
    | some s =>
      simp only []
      split
      · refine onPacketsLost_keeps A r i now _ ?_
        intro s' hs' hnd'
        rw [hs] at hs'; cases hs'
        exact sublist_facts List.filter_sublist hnd'
      · exact Keeps.refl A r

theorem rescheduleData_keeps (A : FArith F) (r : Rec F) (now : F) :
    Keeps A r (rescheduleData A r now) := by
  unfold rescheduleData
  exact (rescheduleFold_keeps A now _ r).trans (Keeps.of_eq rfl rfl rfl)

theorem onLossDetectionTimeout_keeps (A : FArith F) (r : Rec F) (now : F) :
    Keeps A r (onLossDetectionTimeout A r now) := by
  unfold onLossDetectionTimeout
  split
  · exact detectLoss_keeps A r _ now
  · exact (Keeps.of_eq (r := r) (r' := { r with ptoCount := r.ptoCount + 1 }) rfl rfl rfl).trans
      (rescheduleData_keeps A _ now)

/-! ## `on_ack_received` -/

theorem sortedByPn_ins_perm (p : Pkt F) (l : List (Pkt F)) : (sortedByPn.ins p l).Perm (p :: l) := by
  induction l with
  | nil => simp [sortedByPn.ins]
  | cons q rest ih =>
    unfold sortedByPn.ins
    split
    · exact List.Perm.refl _
    · exact (List.Perm.cons q ih).trans (List.Perm.swap p q rest)

theorem sortedByPn_perm (ps : List (Pkt F)) : (sortedByPn ps).Perm ps := by
  induction ps with
  | nil => exact List.Perm.refl _
  | cons p ps ih =>
    show (sortedByPn.ins p (sortedByPn ps)).Perm (p :: ps)
    exact (sortedByPn_ins_perm p _).trans (List.Perm.cons p ih)

/-- the body of the `for packet_number in sorted(...)` loop -/
def ackBody (A : FArith F) (largestAcked : Int) (rs : List Rg) (now : F) (acc : AckAcc F) (p : Pkt F) :
    AckAcc F :=
  if (p.pn : Int) > largestAcked then acc
  else if contains p.pn rs then
    let s := { acc.s with sent := acc.s.sent.filter (fun q => q.pn ≠ p.pn) }
    let s := if p.ackEliciting then { s with aeInFlight := s.aeInFlight - 1 } else s
    let r := if p.inFlight then { acc.r with cc := acc.r.cc.onPacketAcked A now p } else acc.r
    let r := { r with log := (p.uid, Delivery.acked) :: r.log }
    { r := r, s := s, isAe := acc.isAe || p.ackEliciting, largestNewly := some p.pn,
      largestSentTime := some p.sentTime }
  else acc

/-- is `p` newly acknowledged by the loop -/
def ackedP (largestAcked : Int) (rs : List Rg) (p : Pkt F) : Bool :=
  !(decide ((p.pn : Int) > largestAcked)) && contains p.pn rs

theorem ackFold_spec (A : FArith F) (la : Int) (rs : List Rg) (now : F) (L : List (Pkt F)) (acc : AckAcc F) :
    (L.foldl (ackBody A la rs now) acc).s.sent = removeAll acc.s.sent (L.filter (ackedP la rs)) ∧
    (L.foldl (ackBody A la rs now) acc).s.aeInFlight
      = acc.s.aeInFlight - wsum aeW (L.filter (ackedP la rs)) ∧
    (L.foldl (ackBody A la rs now) acc).r.spaces = acc.r.spaces ∧
    (L.foldl (ackBody A la rs now) acc).r.log
      = ((L.filter (ackedP la rs)).map (fun p => (p.uid, Delivery.acked))).reverse ++ acc.r.log ∧
    (L.foldl (ackBody A la rs now) acc).r.cc.bytesInFlight
      = acc.r.cc.bytesInFlight - wsum fbW (L.filter (ackedP la rs)) ∧
    (∀ P, CCPreserved A P → P acc.r.cc → P (L.foldl (ackBody A la rs now) acc).r.cc) := by
  induction L generalizing acc with
  | nil => simp
  | cons p L ih =>
    simp only [List.foldl_cons]
    by_cases h1 : (p.pn : Int) > la
    · have hb : ackBody A la rs now acc p = acc := by simp [ackBody, h1]
      have hf : (p :: L).filter (ackedP la rs) = L.filter (ackedP la rs) := by
        simp [ackedP, h1]
      rw [hb, hf]; exact ih acc
    · by_cases h2 : contains p.pn rs
      · have hf : (p :: L).filter (ackedP la rs) = p :: L.filter (ackedP la rs) := by
          simp [ackedP, h1, h2]
        rw [hf]
        obtain ⟨i1, i2, i3, i4, i5, i6⟩ := ih (ackBody A la rs now acc p)
        simp only [removeAll_cons, wsum_cons, List.map_cons, List.reverse_cons, List.append_assoc,
          List.singleton_append]
        refine ⟨?_, ?_, ?_, ?_, ?_, ?_⟩
        · rw [i1]; simp only [ackBody, h1, h2, if_false, if_true]; split <;> rfl
        · rw [i2]; simp only [ackBody, h1, h2, if_false, if_true]
          by_cases hae : p.ackEliciting <;> simp [hae, aeW] <;> omega
        · rw [i3]; simp only [ackBody, h1, h2, if_false, if_true]; split <;> rfl
        · rw [i4]; simp only [ackBody, h1, h2, if_false, if_true]; split <;> rfl
        · rw [i5]; simp only [ackBody, h1, h2, if_false, if_true]
          by_cases hif : p.inFlight
          · simp [hif, fbW, CC.onPacketAcked_bif]; omega
          · simp [hif, fbW]
        · intro P hP hc
          apply i6 P hP
          simp only [ackBody, h1, h2, if_false, if_true]
          by_cases hif : p.inFlight
          · simp only [hif, if_true]; exact hP.acked _ _ _ hc
          · simp only [hif, Bool.false_eq_true, if_false]; exact hc
      · have hb : ackBody A la rs now acc p = acc := by simp [ackBody, h1, h2]
        have hf : (p :: L).filter (ackedP la rs) = L.filter (ackedP la rs) := by
          simp [ackedP, h2]
        rw [hb, hf]; exact ih acc

/-- the RTT sample branch of `on_ack_received` -/
def rttUpdate (A : FArith F) (r : Rec F) (ackDelay now lst : F) : Rec F :=
  let latest := A.sub now lst
  let ackDelay := A.pmin ackDelay r.maxAckDelay
  let rl := A.pmax latest (A.ratio 1 1000)
  let rmin := if A.lt rl r.rttMin then rl else r.rttMin
  let rl := if A.lt (A.add rmin ackDelay) rl then A.sub rl ackDelay else rl
  let r := { r with rttLatest := rl, rttMin := rmin }
  let r :=
    if !r.rttInitialized then
      { r with rttInitialized := true, rttVariance := A.div latest (A.ofNat 2), rttSmoothed := latest }
    else
      { r with
        rttVariance := A.add (A.mul (A.ratio 3 4) r.rttVariance)
                             (A.mul (A.ratio 1 4) (A.abs (A.sub r.rttMin r.rttLatest))),
        rttSmoothed := A.add (A.mul (A.ratio 7 8) r.rttSmoothed) (A.mul (A.ratio 1 8) r.rttLatest) }
  let cc := r.cc.onRttMeasurement A now latest
  { r with cc := cc, pacer := r.pacer.updateRate A cc.mds cc.cwnd r.rttSmoothed }

/-- everything after the loop -/
def ackTail (A : FArith F) (i : Nat) (ackDelay now : F) (largestAcked : Int) (acc : AckAcc F) :
    Outcome (Rec F) :=
  let r := acc.r.setSpace i acc.s
  match acc.largestNewly, acc.largestSentTime with
  | some ln, some lst =>
    let r := if largestAcked = ln ∧ acc.isAe then rttUpdate A r ackDelay now lst else r
    let r := detectLoss A r i now
    .ok { r with ptoCount := 0 }
  | _, _ => .ok r

/-- `s` after the `largest_acked_packet` update -/
def ackSpace (s : Space F) (b : Rg) : Space F :=
  if ((b.stop : Int) - 1) > s.largestAcked then { s with largestAcked := ((b.stop : Int) - 1).toNat } else s

theorem ackSpace_sent (s : Space F) (b : Rg) : (ackSpace s b).sent = s.sent := by
  unfold ackSpace; split <;> rfl
theorem ackSpace_ae (s : Space F) (b : Rg) : (ackSpace s b).aeInFlight = s.aeInFlight := by
  unfold ackSpace; split <;> rfl

theorem onAckReceived_eq (A : FArith F) (r : Rec F) (i : Nat) (rs : List Rg) (ackDelay now : F)
    (s : Space F) (b : Rg) (hs : r.spaces[i]? = some s) (hb : bounds rs = some b) :
    onAckReceived A r i rs ackDelay now =
      ackTail A i ackDelay now ((b.stop : Int) - 1)
        ((sortedByPn (ackSpace s b).sent).foldl (ackBody A ((b.stop : Int) - 1) rs now)
          { r := r, s := ackSpace s b }) := by
  unfold onAckReceived
  rw [hs, hb]
  rfl

theorem rttUpdate_keeps (A : FArith F) (r : Rec F) (ackDelay now lst : F) :
    Keeps A r (rttUpdate A r ackDelay now lst) := by
  unfold rttUpdate
  simp only []
  split
  · exact Keeps.of_cc rfl rfl (CC.onRttMeasurement_bif A _ _ _) (fun P hP hc => hP.rtt _ _ _ hc)
  · exact Keeps.of_cc rfl rfl (CC.onRttMeasurement_bif A _ _ _) (fun P hP hc => hP.rtt _ _ _ hc)

theorem onAckReceived_keeps (A : FArith F) (r r' : Rec F) (i : Nat) (rs : List Rg) (ackDelay now : F)
    (h : onAckReceived A r i rs ackDelay now = .ok r') : Keeps A r r' := by
  cases hs : r.spaces[i]? with
  | none => simp [onAckReceived, hs] at h
  | some s =>
    cases hb : bounds rs with
    | none => unfold onAckReceived at h; rw [hs, hb] at h; simp at h
    | some b =>
      rw [onAckReceived_eq A r i rs ackDelay now s b hs hb] at h
      rw [ackSpace_sent] at h
      have hs0sent : (ackSpace s b).sent = s.sent := ackSpace_sent s b
      have hs0ae : (ackSpace s b).aeInFlight = s.aeInFlight := ackSpace_ae s b
      generalize ackSpace s b = s0 at h hs0sent hs0ae
      obtain ⟨f1, f2, f3, f4, f5, f6⟩ :=
        ackFold_spec A ((b.stop : Int) - 1) rs now (sortedByPn s.sent) { r := r, s := s0 }
      generalize hacc : (sortedByPn s.sent).foldl (ackBody A ((b.stop : Int) - 1) rs now)
        { r := r, s := s0 } = acc at h f1 f2 f3 f4 f5 f6
      simp only at f1 f2 f3 f4 f5 f6
      -- state after the loop, with the space written back
      have k1 : Keeps A r (acc.r.setSpace i acc.s) := by
        constructor
        · intro hinv
          have hsnd := hinv.nodup s (List.mem_of_getElem? hs)
          have hperm := sortedByPn_perm s.sent
          have hKsub : ∀ p ∈ (sortedByPn s.sent).filter (ackedP ((b.stop : Int) - 1) rs), p ∈ s.sent :=
            fun p hp => hperm.subset (List.mem_filter.1 hp).1
          have hKnd : (((sortedByPn s.sent).filter (ackedP ((b.stop : Int) - 1) rs)).map (·.pn)).Nodup :=
            List.Nodup.sublist (List.filter_sublist.map _) ((hperm.map _).nodup_iff.2 hsnd)
          refine Inv.remove (s' := acc.s) (d := fun _ => Delivery.acked) hinv hs hKsub hKnd ?_ ?_ ?_ ?_ ?_
          · simp [Rec.setSpace, f3]
          · rw [f1, hs0sent]
          · rw [f2, hs0ae]
          · simp [Rec.setSpace, f5]
          · simp [Rec.setSpace, f4]
        · intro P hP hc; exact f6 P hP hc
      refine k1.trans ?_
      unfold ackTail at h
      simp only [] at h
      split at h
      · cases h
        refine Keeps.trans ?_ ((detectLoss_keeps A _ i now).trans (Keeps.of_eq rfl rfl rfl))
        split
        · exact rttUpdate_keeps A _ _ _ _
        · exact Keeps.refl A _
      · cases h; exact Keeps.refl A _

/-! ## `on_packet_sent`, `discard_space` -/

theorem dictSet_fresh (d : List (Pkt F)) (p : Pkt F) (h : ∀ q ∈ d, q.pn ≠ p.pn) :
    dictSet d p = d ++ [p] := by
  unfold dictSet
  have : d.any (fun q => q.pn = p.pn) = false := by
    simp only [List.any_eq_false, decide_eq_true_eq]
    exact h
  simp [this]

/-- every tracked packet of `r'` was tracked in `r` or has its key in `keys` -/
def Grows (r r' : Rec F) (keys : List (Nat × Nat)) : Prop :=
  ∀ (j : Nat) (t' : Space F), r'.spaces[j]? = some t' → ∀ q ∈ t'.sent,
    (∃ t, r.spaces[j]? = some t ∧ q ∈ t.sent) ∨ (j, q.pn) ∈ keys

theorem Shrinks.grows {r r' : Rec F} (h : Shrinks r r') (keys : List (Nat × Nat)) : Grows r r' keys := by
  intro j t' ht' q hq
  obtain ⟨t, ht, hsub⟩ := h j t' ht'
  exact Or.inl ⟨t, ht, hsub q hq⟩

theorem onPacketSent_cc (A : FArith F) (r r' : Rec F) (i : Nat) (p : Pkt F)
    (h : onPacketSent A r i p = .ok r') (P : CC F → Prop) (hP : CCPreserved A P) (hc : P r.cc) :
    P r'.cc := by
  unfold onPacketSent at h
  cases hs : r.spaces[i]? with
  | none => rw [hs] at h; simp at h
  | some s =>
    rw [hs] at h
    simp only [] at h
    split at h
    · cases h
      split
      · exact hP.sent _ _ hc
      · exact hP.sent _ _ hc
    · cases h; exact hc

theorem onPacketSent_ok (A : FArith F) (r r' : Rec F) (i : Nat) (p : Pkt F)
    (h : onPacketSent A r i p = .ok r') (hinv : Inv r) (hf : FreshPn r (.sent i p)) :
    Inv r' ∧ (∀ u, total u r' = total u r + uidW u p) ∧ Grows r r' [(i, p.pn)] := by
  unfold onPacketSent at h
  cases hs : r.spaces[i]? with
  | none => rw [hs] at h; simp at h
  | some s =>
    rw [hs] at h
    have hfresh : ∀ q ∈ s.sent, q.pn ≠ p.pn := hf s hs
    have hsmem : s ∈ r.spaces := List.mem_of_getElem? hs
    have hlt : i < r.spaces.length := (List.getElem?_eq_some_iff.1 hs).1
    simp only [dictSet_fresh s.sent p hfresh] at h
    -- the space as written back
    generalize hs' : (if p.ackEliciting then
        ({ s with sent := s.sent ++ [p], aeInFlight := s.aeInFlight + 1 } : Space F)
      else { s with sent := s.sent ++ [p] }) = s' at h
    have hsent : s'.sent = s.sent ++ [p] := by rw [← hs']; split <;> rfl
    have hae : s'.aeInFlight = s.aeInFlight + aeW p := by
      rw [← hs']; by_cases ha : p.ackEliciting <;> simp [ha, aeW]
    have hsp : r'.spaces = r.spaces.set i s' := by
      split at h
      · cases h; split <;> rfl
      · cases h; rfl
    have hlog : r'.log = r.log := by
      split at h
      · cases h; split <;> rfl
      · cases h; rfl
    have hb : r'.cc.bytesInFlight = r.cc.bytesInFlight + fbW p := by
      split at h
      · rename_i hfl
        cases h
        simp only [fbW, hfl, if_true]
        split <;> simp [Rec.setSpace, CC.onPacketSent_bif]
      · rename_i hfl
        cases h
        simp [fbW, hfl, Rec.setSpace]
    refine ⟨⟨?_, ?_, ?_⟩, ?_, ?_⟩
    · rw [hb, hsp, trackedW_set fbW _ i s s' hs, hsent, hinv.ledger]; simp; omega
    · intro t ht
      rw [hsp] at ht
      rcases List.mem_or_eq_of_mem_set ht with ht | rfl
      · exact hinv.ae t ht
      · rw [hae, hsent, hinv.ae s hsmem]; simp
    · intro t ht
      rw [hsp] at ht
      rcases List.mem_or_eq_of_mem_set ht with ht | rfl
      · exact hinv.nodup t ht
      · rw [hsent]
        simp only [List.map_append, List.map_cons, List.map_nil]
        refine List.nodup_append.2 ⟨hinv.nodup s hsmem, by simp, ?_⟩
        intro a ha b hb'
        simp only [List.mem_singleton] at hb'
        subst hb'
        obtain ⟨q, hq, rfl⟩ := List.mem_map.1 ha
        exact hfresh q hq
    · intro u
      simp only [total]
      rw [hsp, trackedW_set (uidW u) _ i s s' hs, hsent, hlog]; simp; omega
    · intro j t' ht' q hq
      rw [hsp] at ht'
      by_cases hij : i = j
      · subst hij
        rw [List.getElem?_set_self hlt] at ht'
        cases ht'
        rw [hsent] at hq
        rcases List.mem_append.1 hq with hq | hq
        · exact Or.inl ⟨s, hs, hq⟩
        · simp only [List.mem_singleton] at hq; subst hq; exact Or.inr (by simp)
      · rw [List.getElem?_set_ne hij] at ht'
        exact Or.inl ⟨t', ht', hq⟩

theorem discardSpace_cc (A : FArith F) (r r' : Rec F) (i : Nat) (h : discardSpace r i = .ok r')
    (P : CC F → Prop) (hP : CCPreserved A P) (hc : P r.cc) : P r'.cc := by
  unfold discardSpace at h
  cases hs : r.spaces[i]? with
  | none => rw [hs] at h; simp at h
  | some s => rw [hs] at h; cases h; exact hP.expired _ _ hc

theorem discardSpace_ok (r r' : Rec F) (i : Nat) (s : Space F) (hs : r.spaces[i]? = some s)
    (h : discardSpace r i = .ok r') (hinv : Inv r) :
    Inv r' ∧ (∀ u, total u r' = total u r - wsum (uidW u) s.sent) ∧ Shrinks r r' := by
  unfold discardSpace at h
  rw [hs] at h
  cases h
  have hsmem : s ∈ r.spaces := List.mem_of_getElem? hs
  have hlt : i < r.spaces.length := (List.getElem?_eq_some_iff.1 hs).1
  refine ⟨⟨?_, ?_, ?_⟩, ?_, ?_⟩
  · simp only [Rec.setSpace, CC.onPacketsExpired_bif, wsum_filter_inFlight]
    rw [trackedW_set fbW _ i s _ hs, hinv.ledger]; simp
  · intro t ht
    simp only [Rec.setSpace] at ht
    rcases List.mem_or_eq_of_mem_set ht with ht | rfl
    · exact hinv.ae t ht
    · simp
  · intro t ht
    simp only [Rec.setSpace] at ht
    rcases List.mem_or_eq_of_mem_set ht with ht | rfl
    · exact hinv.nodup t ht
    · simp
  · intro u
    simp only [total, Rec.setSpace]
    rw [trackedW_set (uidW u) _ i s _ hs]; simp; omega
  · intro j t' ht'
    simp only [Rec.setSpace] at ht'
    by_cases hij : i = j
    · subst hij
      rw [List.getElem?_set_self hlt] at ht'
      cases ht'
      exact ⟨s, hs, by simp⟩
    · rw [List.getElem?_set_ne hij] at ht'
      exact ⟨t', ht', fun _ hq => hq⟩

/-! ## one step, whole histories -/

/-- 1 if `op` hands packet object `u` to `on_packet_sent` -/
def sentW (u : Nat) : Op F → Int
  | .sent _ p => uidW u p
  | _ => 0

theorem sentW_nonneg (u : Nat) (op : Op F) : 0 ≤ sentW u op := by
  cases op <;> simp [sentW, uidW_nonneg]

/-- controller predicates survive every step, with no obligation on the caller -/
theorem step_cc (A : FArith F) (P : CC F → Prop) (hP : CCPreserved A P) (r : Rec F) (op : Op F)
    (hc : P r.cc) : P (step A r op).cc := by
  cases op with
  | sent i p =>
    simp only [step]
    cases h : onPacketSent A r i p with
    | error e => exact hc
    | ok r' => exact onPacketSent_cc A r r' i p h P hP hc
  | ack i rs ackDelay now =>
    simp only [step]
    cases h : onAckReceived A r i rs ackDelay now with
    | error e => exact hc
    | ok r' => exact (onAckReceived_keeps A r r' i rs ackDelay now h).2 P hP hc
  | timeout now => exact (onLossDetectionTimeout_keeps A r now).2 P hP hc
  | discard i =>
    simp only [step]
    cases h : discardSpace r i with
    | error e => exact hc
    | ok r' => exact discardSpace_cc A r r' i h P hP hc

theorem run_cc (A : FArith F) (P : CC F → Prop) (hP : CCPreserved A P) (ops : List (Op F)) (r : Rec F)
    (hc : P r.cc) : P (run A r ops).cc := by
  induction ops generalizing r with
  | nil => exact hc
  | cons op ops ih => exact ih _ (step_cc A P hP r op hc)

theorem step_ok (A : FArith F) (r : Rec F) (op : Op F) (hinv : Inv r) (hf : FreshPn r op) :
    Inv (step A r op) ∧ (∀ u, total u (step A r op) ≤ total u r + sentW u op) ∧
      Grows r (step A r op) (sentKeys [op]) := by
  cases op with
  | sent i p =>
    simp only [step]
    cases h : onPacketSent A r i p with
    | error e =>
      exact ⟨hinv, fun u => by have := uidW_nonneg u p; simp only [sentW]; omega,
        (Shrinks.refl r).grows _⟩
    | ok r' =>
      obtain ⟨h1, h2, h3⟩ := onPacketSent_ok A r r' i p h hinv hf
      exact ⟨h1, fun u => by rw [h2 u]; simp [sentW], h3⟩
  | ack i rs ackDelay now =>
    simp only [step]
    cases h : onAckReceived A r i rs ackDelay now with
    | error e => exact ⟨hinv, fun u => by simp [sentW], (Shrinks.refl r).grows _⟩
    | ok r' =>
      obtain ⟨h1, h2, h3⟩ := (onAckReceived_keeps A r r' i rs ackDelay now h).1 hinv
      exact ⟨h1, fun u => by rw [h2 u]; simp [sentW], h3.grows _⟩
  | timeout now =>
    obtain ⟨h1, h2, h3⟩ := (onLossDetectionTimeout_keeps A r now).1 hinv
    exact ⟨h1, fun u => by simp only [step]; rw [h2 u]; simp [sentW], h3.grows _⟩
  | discard i =>
    simp only [step]
    cases h : discardSpace r i with
    | error e => exact ⟨hinv, fun u => by simp [sentW], (Shrinks.refl r).grows _⟩
    | ok r' =>
      cases hs : r.spaces[i]? with
      | none => simp [discardSpace, hs] at h
      | some s =>
        obtain ⟨h1, h2, h3⟩ := discardSpace_ok r r' i s hs h hinv
        refine ⟨h1, fun u => ?_, h3.grows _⟩
        have := wsum_nonneg (uidW u) (uidW_nonneg u) s.sent
        rw [h2 u]; simp only [sentW]; omega

/-- number of `sent` ops for packet object `u` -/
def sentCount (u : Nat) (ops : List (Op F)) : Int := ((sentUids ops).count u : Nat)

theorem sentCount_cons (u : Nat) (op : Op F) (ops : List (Op F)) :
    sentCount u (op :: ops) = sentW u op + sentCount u ops := by
  cases op <;> simp only [sentCount, sentUids, sentW, List.count_cons, uidW]
  · split <;> simp_all <;> omega
  all_goals simp

theorem sentCount_append (u : Nat) (a b : List (Op F)) :
    sentCount u (a ++ b) = sentCount u a + sentCount u b := by
  induction a with
  | nil => simp [sentCount, sentUids]
  | cons op a ih => simp only [List.cons_append, sentCount_cons, ih]; omega

theorem run_append (A : FArith F) (r : Rec F) (a b : List (Op F)) :
    run A r (a ++ b) = run A (run A r a) b := by simp [run]

theorem freshFrom_append (A : FArith F) (r : Rec F) (a b : List (Op F)) :
    FreshFrom A r (a ++ b) ↔ FreshFrom A r a ∧ FreshFrom A (run A r a) b := by
  induction a generalizing r with
  | nil => simp [FreshFrom, run]
  | cons op a ih => simp only [List.cons_append, FreshFrom, ih, run, List.foldl_cons, and_assoc]

theorem run_ok (A : FArith F) (ops : List (Op F)) (r : Rec F) (hinv : Inv r) (hf : FreshFrom A r ops) :
    Inv (run A r ops) ∧ ∀ u, total u (run A r ops) ≤ total u r + sentCount u ops := by
  induction ops generalizing r with
  | nil => exact ⟨hinv, fun u => by simp [run, sentCount, sentUids]⟩
  | cons op ops ih =>
    obtain ⟨h1, h2, _⟩ := step_ok A r op hinv hf.1
    obtain ⟨h3, h4⟩ := ih _ h1 hf.2
    refine ⟨h3, fun u => ?_⟩
    have := h2 u; have := h4 u
    simp only [run, List.foldl_cons] at *
    rw [sentCount_cons]; omega

theorem Inv.init (A : FArith F) (algo : Algo) (mds n : Nat) (rtt0 : F) : Inv (Rec.init A algo mds n rtt0) := by
  refine ⟨?_, ?_, ?_⟩
  · simp [Rec.init, CC.init, trackedW_replicate]
  · intro s hs
    simp only [Rec.init] at hs
    rw [List.eq_of_mem_replicate hs]; simp
  · intro s hs
    simp only [Rec.init] at hs
    rw [List.eq_of_mem_replicate hs]; simp

theorem total_init (A : FArith F) (algo : Algo) (mds n : Nat) (rtt0 : F) (u : Nat) :
    total u (Rec.init A algo mds n rtt0) = 0 := by
  simp [total, Rec.init, trackedW_replicate, logCount]

/-- the state-free obligation implies the state-dependent one -/
theorem freshFrom_of_keys (A : FArith F) (ops : List (Op F)) (r : Rec F) (used : List (Nat × Nat))
    (hinv : Inv r)
    (htr : ∀ (j : Nat) (t : Space F), r.spaces[j]? = some t → ∀ q ∈ t.sent, (j, q.pn) ∈ used)
    (hdis : ∀ k ∈ used, k ∉ sentKeys ops) (hnd : (sentKeys ops).Nodup) : FreshFrom A r ops := by
  induction ops generalizing r used with
  | nil => trivial
  | cons op ops ih =>
    have hfresh : FreshPn r op := by
      cases op with
      | sent i p =>
        intro s hs q hq heq
        have := htr i s hs q hq
        exact hdis _ this (by simp [sentKeys, heq])
      | _ => trivial
    refine ⟨hfresh, ?_⟩
    obtain ⟨h1, _, h3⟩ := step_ok A r op hinv hfresh
    refine ih (step A r op) (sentKeys [op] ++ used) h1 ?_ ?_ ?_
    · intro j t' ht' q hq
      rcases h3 j t' ht' q hq with ⟨t, ht, hqt⟩ | hk
      · exact List.mem_append.2 (Or.inr (htr j t ht q hqt))
      · exact List.mem_append.2 (Or.inl hk)
    · intro k hk
      rcases List.mem_append.1 hk with hk | hk
      · cases op with
        | sent i p =>
          simp only [sentKeys, List.mem_singleton] at hk
          subst hk
          simp only [sentKeys, List.nodup_cons] at hnd
          exact hnd.1
        | _ => simp [sentKeys] at hk
      · have := hdis k hk
        cases op <;> simp_all [sentKeys]
    · cases op <;> simp_all [sentKeys]

/-! ## the congestion window floor -/

/-- New Reno: window at least two datagrams, stash non-negative -/
def RenoInv (m : Nat) (c : CC F) : Prop :=
  c.algo = .reno ∧ c.mds = m ∧ 2 * (m : Int) ≤ c.cwnd ∧ 0 ≤ c.stash

theorem rtt_shape (A : FArith F) (c : CC F) (now rtt : F) (Q : CC F → Prop)
    (hQ : ∀ (m : RttMon F) (ss : Option Int), Q { c with rttMon := m, ssthresh := ss }) (hc : Q c) :
    Q (if c.ssthresh.isNone then
        let (m, inc) := c.rttMon.isIncreasing A now rtt
        let c := { c with rttMon := m }
        if inc then { c with ssthresh := some c.cwnd } else c
      else c) := by
  split
  · generalize c.rttMon.isIncreasing A now rtt = res
    obtain ⟨m, inc⟩ := res
    simp only []
    split
    · exact hQ m _
    · exact hQ m c.ssthresh
  · exact hc

theorem reno_preserved (A : FArith F) (m : Nat) : CCPreserved A (RenoInv (F := F) m) := by
  refine ⟨?_, ?_, ?_, ?_, ?_⟩
  · rintro c now p ⟨ha, hm, hw, hst⟩
    unfold CC.onPacketAcked
    simp only []
    rw [ha]
    simp only []
    split
    · exact ⟨(by first | exact ha | rfl), hm, hw, hst⟩
    · split
      · refine ⟨(by first | exact ha | rfl), hm, ?_, hst⟩
        simp only []; omega
      · have hcw : 0 ≤ c.cwnd := by omega
        have hs' : 0 ≤ c.stash + (p.sentBytes : Int) := by omega
        have hcount : 0 ≤ (c.stash + (p.sentBytes : Int)) / c.cwnd := Int.ediv_nonneg hs' hcw
        split
        · rename_i hne
          refine ⟨(by first | exact ha | rfl), hm, ?_, ?_⟩
          · simp only []
            have : 0 ≤ (c.stash + (p.sentBytes : Int)) / c.cwnd * (c.mds : Int) :=
              Int.mul_nonneg hcount (by omega)
            omega
          · simp only []
            have hcne : c.cwnd ≠ 0 := by
              intro h0; apply hne; rw [h0]; simp
            have h1 := Int.emod_nonneg (c.stash + (p.sentBytes : Int)) hcne
            rw [Int.emod_def] at h1
            rw [Int.mul_comm]; exact h1
        · exact ⟨(by first | exact ha | rfl), hm, hw, hs'⟩
  · rintro c p ⟨ha, hm, hw, hst⟩
    unfold CC.onPacketSent
    simp only []
    rw [ha]
    exact ⟨(by first | exact ha | rfl), hm, hw, hst⟩
  · rintro c ps ⟨ha, hm, hw, hst⟩
    exact ⟨(by first | exact ha | rfl), hm, hw, hst⟩
  · rintro c now ps ⟨ha, hm, hw, hst⟩
    unfold CC.onPacketsLost
    simp only []
    split
    · rw [ha]
      refine ⟨(by first | exact ha | rfl), hm, ?_, hst⟩
      simp only [hm]; omega
    · exact ⟨(by first | exact ha | rfl), hm, hw, hst⟩
  · rintro c now rtt ⟨ha, hm, hw, hst⟩
    unfold CC.onRttMeasurement
    rw [ha]
    simp only []
    exact rtt_shape A c now rtt (RenoInv m) (fun _ _ => ⟨(by first | exact ha | rfl), hm, hw, hst⟩) ⟨(by first | exact ha | rfl), hm, hw, hst⟩

/-- The order facts about the float arithmetic that CUBIC's window floor
    rests on.  `nonneg`/`pos` are abstract sign predicates (for IEEE-754
    doubles: "finite and `≥ 0`" / "finite and `> 0`"; NaN and infinities are
    excluded).  Each fact holds for doubles as long as the integers involved
    are below 2^53 in magnitude (so that int→float conversion is exact and
    nothing overflows): -/
structure CubicOrderFacts (A : FArith F) where
  nonneg : F → Prop
  pos : F → Prop
  /-- `float(n)` of a natural number is a finite non-negative double (n < 2^1024) -/
  ofNat_nonneg : ∀ n : Nat, nonneg (A.ofNat n)
  /-- `float(d)` for an int `d ≥ 0` is finite and non-negative -/
  ofInt_nonneg : ∀ d : Int, 0 ≤ d → nonneg (A.ofInt d)
  /-- `float(c)` for an int `c > 0` is finite and `≥ 1.0` -/
  ofInt_pos : ∀ c : Int, 0 < c → pos (A.ofInt c)
  /-- a non-negative double divided by a positive one is non-negative (IEEE
      division is correctly rounded and rounding preserves the sign; no NaN
      because the divisor is non-zero and both are finite; the divisors that
      occur are integers `≥ 1`, so the quotient does not overflow) -/
  div_nonneg : ∀ x y, nonneg x → pos y → nonneg (A.div x y)
  /-- product of non-negative doubles is non-negative (sign rule of IEEE
      multiplication; finite as long as the exact product is `< 2^1024`) -/
  mul_nonneg : ∀ x y, nonneg x → nonneg y → nonneg (A.mul x y)
  /-- `int(float(c) + y) ≥ c` for an int `0 ≤ c < 2^53` and `y ≥ 0`:
      `float(c)` is exact, `c + y ≥ c` in the reals, round-to-nearest is
      monotone and fixes the representable `c`, so the rounded sum is `≥ c`;
      truncation toward zero of a value `≥ c` (an integer) stays `≥ c` -/
  add_floor : ∀ (c : Int) (y : F), 0 ≤ c → nonneg y → c ≤ A.toInt (A.add (A.ofInt c) y)
  /-- `int(float(c) * 1.5) ≥ c` for an int `0 ≤ c < 2^53`: `3/2` is exactly
      `1.5`, `1.5 c ≥ c` in the reals, rounding is monotone and fixes `c`,
      truncation of a value `≥ c` stays `≥ c` -/
  scale_floor : ∀ c : Int, 0 ≤ c → c ≤ A.toInt (A.mul (A.ofInt c) (A.ratio 3 2))

/-- CUBIC: window at least two datagrams; `W_est` is at least two datagrams
    whenever it can be read before being re-initialised -/
def CubicInv (m : Nat) (c : CC F) : Prop :=
  c.algo = .cubic ∧ c.mds = m ∧ 0 < m ∧ 2 * (m : Int) ≤ c.cwnd ∧
    (c.firstSlowStart = true ∨ c.startingCA = true ∨ 2 * (m : Int) ≤ c.wEst)

/-- first `if` of the congestion-avoidance branch: leaving slow start without loss -/
def cubicEnter1 (A : FArith F) (c : CC F) (now : F) : CC F :=
  if c.firstSlowStart ∧ ¬ c.startingCA then
    let c := { c with firstSlowStart := false, wMax := c.cwnd, tEpoch := now,
                      cwndEpoch := c.cwnd, wEst := c.cwnd }
    { c with K := c.calcK A }
  else c

/-- second `if`: start of congestion avoidance after a loss -/
def cubicEnter2 (A : FArith F) (c : CC F) (now : F) : CC F :=
  if c.startingCA then
    let c := { c with startingCA := false, firstSlowStart := false, tEpoch := now,
                      cwndEpoch := c.cwnd, wEst := c.cwnd }
    { c with K := c.calcK A }
  else c

/-- the `W_est` / target / region part -/
def cubicCA (A : FArith F) (c : CC F) (now : F) (p : Pkt F) : CC F :=
  let c := { c with wEst := A.toInt (A.add (A.ofInt c.wEst)
                (A.mul (A.ofNat c.mds) (A.div (A.ofNat p.sentBytes) (A.ofInt c.cwnd)))) }
  let t := A.sub now c.tEpoch
  let wc := c.wCubic A (A.add t c.rtt)
  let target : Int :=
    if wc < c.cwnd then c.cwnd
    else if A.lt (A.mul (A.ratio 3 2) (A.ofInt c.cwnd)) (A.ofInt wc) then
      A.toInt (A.mul (A.ofInt c.cwnd) (A.ratio 3 2))
    else wc
  if c.wCubic A t < c.wEst then { c with cwnd := c.wEst }
  else
    { c with cwnd := A.toInt (A.add (A.ofInt c.cwnd)
        (A.mul (A.ofInt (target - c.cwnd)) (A.div (A.ofNat c.mds) (A.ofInt c.cwnd)))) }

theorem onPacketAcked_cubic (A : FArith F) (c : CC F) (now : F) (p : Pkt F) (ha : c.algo = .cubic) :
    c.onPacketAcked A now p =
      if ({ c with bytesInFlight := c.bytesInFlight - p.sentBytes, lastAck := p.sentTime } : CC F).inSlowStart
      then { c with bytesInFlight := c.bytesInFlight - p.sentBytes, lastAck := p.sentTime,
                    cwnd := c.cwnd + p.sentBytes }
      else cubicCA A (cubicEnter2 A (cubicEnter1 A
        { c with bytesInFlight := c.bytesInFlight - p.sentBytes, lastAck := p.sentTime } now) now) now p := by
  unfold CC.onPacketAcked
  simp only []
  rw [ha]
  rfl

theorem cubicEnter_spec (A : FArith F) (m : Nat) (c : CC F) (now : F)
    (h : CubicInv m c) :
    let c' := cubicEnter2 A (cubicEnter1 A c now) now
    c'.algo = .cubic ∧ c'.mds = m ∧ c'.cwnd = c.cwnd ∧ c'.firstSlowStart = false ∧
      c'.startingCA = false ∧ 2 * (m : Int) ≤ c'.wEst := by
  obtain ⟨ha, hm, hpos, hw, hest⟩ := h
  cases hf : c.firstSlowStart <;> cases hs : c.startingCA <;>
    simp [cubicEnter1, cubicEnter2, hf, hs, ha, hm, hw] <;> simp_all

theorem cubicCA_spec (A : FArith F) (O : CubicOrderFacts A) (m : Nat) (c : CC F) (now : F) (p : Pkt F)
    (hm : c.mds = m) (hpos : 0 < m) (hw : 2 * (m : Int) ≤ c.cwnd) (hest : 2 * (m : Int) ≤ c.wEst) :
    let c' := cubicCA A c now p
    c'.algo = c.algo ∧ c'.mds = m ∧ c'.firstSlowStart = c.firstSlowStart ∧
      c'.startingCA = c.startingCA ∧ 2 * (m : Int) ≤ c'.cwnd ∧ 2 * (m : Int) ≤ c'.wEst := by
  have hcpos : 0 < c.cwnd := by omega
  have hq : ∀ n : Nat, O.nonneg (A.div (A.ofNat n) (A.ofInt c.cwnd)) :=
    fun n => O.div_nonneg _ _ (O.ofNat_nonneg n) (O.ofInt_pos _ hcpos)
  have hwest := O.add_floor c.wEst (A.mul (A.ofNat c.mds) (A.div (A.ofNat p.sentBytes) (A.ofInt c.cwnd)))
    (by omega) (O.mul_nonneg _ _ (O.ofNat_nonneg _) (hq _))
  have hgrow : ∀ target : Int, c.cwnd ≤ target →
      c.cwnd ≤ A.toInt (A.add (A.ofInt c.cwnd)
        (A.mul (A.ofInt (target - c.cwnd)) (A.div (A.ofNat c.mds) (A.ofInt c.cwnd)))) :=
    fun target ht => O.add_floor c.cwnd _ (by omega)
      (O.mul_nonneg _ _ (O.ofInt_nonneg _ (by omega)) (hq _))
  have hscale := O.scale_floor c.cwnd (by omega)
  unfold cubicCA
  simp only []
  split
  · refine ⟨rfl, hm, rfl, rfl, ?_, ?_⟩ <;> simp only [] <;> omega
  · refine ⟨rfl, hm, rfl, rfl, ?_, ?_⟩
    · simp only []
      refine Int.le_trans hw (hgrow _ ?_)
      split
      · omega
      · split
        · exact hscale
        · omega
    · simp only []; omega

theorem cubic_preserved (A : FArith F) (O : CubicOrderFacts A) (m : Nat) :
    CCPreserved A (CubicInv (F := F) m) := by
  refine ⟨?_, ?_, ?_, ?_, ?_⟩
  · intro c now p h
    have h' := h
    obtain ⟨ha, hm, hpos, hw, hest⟩ := h
    rw [onPacketAcked_cubic A c now p ha]
    split
    · exact ⟨(by first | exact ha | rfl), hm, hpos, by simp only []; omega, hest⟩
    · obtain ⟨e1, e2, e3, e4, e5, e6⟩ := cubicEnter_spec A m
        { c with bytesInFlight := c.bytesInFlight - (p.sentBytes : Int), lastAck := p.sentTime } now
        ⟨ha, hm, hpos, hw, hest⟩
      obtain ⟨g1, g2, g3, g4, g5, g6⟩ := cubicCA_spec A O m _ now p e2 hpos (by rw [e3]; exact hw) e6
      exact ⟨g1.trans e1, g2, hpos, g5, Or.inr (Or.inr g6)⟩
  · rintro c p ⟨ha, hm, hpos, hw, hest⟩
    unfold CC.onPacketSent
    simp only []
    rw [ha]
    simp only []
    split
    · exact ⟨(by first | exact ha | rfl), hm, hpos, hw, hest⟩
    · split
      · refine ⟨(by first | exact ha | rfl), hm, hpos, ?_, Or.inl rfl⟩
        simp only [CC.cubicReset, hm]; omega
      · exact ⟨(by first | exact ha | rfl), hm, hpos, hw, hest⟩
  · rintro c ps ⟨ha, hm, hpos, hw, hest⟩
    exact ⟨(by first | exact ha | rfl), hm, hpos, hw, hest⟩
  · rintro c now ps ⟨ha, hm, hpos, hw, hest⟩
    unfold CC.onPacketsLost
    simp only []
    split
    · rw [ha]
      refine ⟨(by first | exact ha | rfl), hm, hpos, ?_, Or.inr (Or.inl rfl)⟩
      simp only [hm]; omega
    · exact ⟨(by first | exact ha | rfl), hm, hpos, hw, hest⟩
  · rintro c now rtt ⟨ha, hm, hpos, hw, hest⟩
    unfold CC.onRttMeasurement
    rw [ha]
    simp only []
    split
    · split <;> exact ⟨rfl, hm, hpos, hw, hest⟩
    · exact ⟨rfl, hm, hpos, hw, hest⟩

/-! ## bridges to the vocabulary of the property statement -/

theorem inFlightBytes_eq (ps : List (Pkt F)) : inFlightBytes ps = wsum fbW ps :=
  wsum_filter_inFlight ps

theorem trackedBytes_eq (r : Rec F) : trackedBytes r = trackedW fbW r.spaces := by
  simp only [trackedBytes, trackedW]
  congr 1
  exact List.map_congr_left (fun s _ => inFlightBytes_eq s.sent)

theorem aeTracked_eq (s : Space F) : aeTracked s = wsum aeW s.sent := by
  unfold aeTracked
  induction s.sent with
  | nil => simp
  | cons p ps ih =>
    by_cases h : p.ackEliciting <;> simp [h, aeW] at ih ⊢ <;> omega

theorem mem_log_count {u : Nat} {d : Delivery} {log : List (Nat × Delivery)} (h : (u, d) ∈ log) :
    1 ≤ logCount u log := by
  have : u ∈ log.map (·.1) := List.mem_map.2 ⟨(u, d), h, rfl⟩
  have := List.one_le_count_iff.2 this
  unfold logCount; omega

theorem one_le_tracked {r : Rec F} {s : Space F} {q : Pkt F} (hs : s ∈ r.spaces) (hq : q ∈ s.sent) :
    1 ≤ trackedW (uidW q.uid) r.spaces := by
  have := le_trackedW_of_mem (uidW q.uid) (uidW_nonneg q.uid) hs hq
  simpa [uidW] using this

theorem logCount_le_total (u : Nat) (r : Rec F) : logCount u r.log ≤ total u r := by
  have := trackedW_nonneg (uidW u) (uidW_nonneg u) r.spaces
  unfold total; omega

theorem sentCount_pos {u : Nat} {ops : List (Op F)} (h : 0 < sentCount u ops) :
    ∃ i p, Op.sent i p ∈ ops ∧ p.uid = u := by
  induction ops with
  | nil => simp [sentCount, sentUids] at h
  | cons op ops ih =>
    rw [sentCount_cons] at h
    by_cases h1 : 0 < sentCount u ops
    · obtain ⟨i, p, hm, hu⟩ := ih h1
      exact ⟨i, p, List.mem_cons_of_mem _ hm, hu⟩
    · cases op with
      | sent i p =>
        refine ⟨i, p, by simp, ?_⟩
        simp only [sentW, uidW] at h
        by_cases hu : p.uid = u
        · exact hu
        · simp [hu] at h; omega
      | _ => simp [sentW] at h; omega

theorem sentCount_le_one {ops : List (Op F)} (h : (sentUids ops).Nodup) (u : Nat) : sentCount u ops ≤ 1 := by
  have := List.nodup_iff_count.1 h u
  unfold sentCount; omega

/-- a packet object removed by `discard_space` loses (at least) one occurrence -/
theorem discard_total (A : FArith F) (r : Rec F) (i : Nat) (s : Space F) (q : Pkt F) (hinv : Inv r)
    (hs : r.spaces[i]? = some s) (hq : q ∈ s.sent) :
    total q.uid (step A r (.discard i)) ≤ total q.uid r - 1 := by
  simp only [step]
  cases h : discardSpace r i with
  | error e => simp [discardSpace, hs] at h
  | ok r' =>
    obtain ⟨_, h2, _⟩ := discardSpace_ok r r' i s hs h hinv
    have := le_wsum_of_mem (uidW q.uid) (uidW_nonneg q.uid) hq
    have h1 : uidW q.uid q = 1 := by simp [uidW]
    rw [h1] at this
    rw [h2]; omega

/-- the state-free caller obligation implies the state-dependent one -/
theorem wf_of_neverReused (A : FArith F) (algo : Algo) (mds n : Nat) (rtt0 : F) (ops : List (Op F))
    (h : NeverReused ops) : WF A (Rec.init A algo mds n rtt0) ops := by
  refine ⟨freshFrom_of_keys A ops _ [] (Inv.init A algo mds n rtt0) ?_ (by simp) h.keys, h.uids⟩
  intro j t ht q hq
  simp only [Rec.init] at ht
  have : t ∈ List.replicate n ({} : Space F) := List.mem_of_getElem? ht
  rw [List.eq_of_mem_replicate this] at hq
  simp at hq

theorem sentUids_append (a b : List (Op F)) : sentUids (a ++ b) = sentUids a ++ sentUids b := by
  induction a with
  | nil => rfl
  | cons op a ih => cases op <;> simp [sentUids, ih]

/-- well-formedness is inherited by prefixes: the theorems about `run … ops`
    for well-formed `ops` speak about every intermediate state of a history -/
theorem WF.prefix {A : FArith F} {r : Rec F} {pre post : List (Op F)} (h : WF A r (pre ++ post)) :
    WF A r pre := by
  refine ⟨((freshFrom_append A r pre post).1 h.fresh).1, ?_⟩
  have := h.uids
  rw [sentUids_append] at this
  exact (List.nodup_append.1 this).1

/-! ## toy arithmetics (for non-vacuity examples and counterexamples only) -/

/-- every float is `()`; comparisons are constant; `int(x) = 0` -/
def unitArith (lt le eq : Bool) : FArith Unit where
  add _ _ := ()
  sub _ _ := ()
  mul _ _ := ()
  div _ _ := ()
  pow _ _ := ()
  neg _ := ()
  abs _ := ()
  lt _ _ := lt
  le _ _ := le
  eq _ _ := eq
  ofNat _ := ()
  ofInt _ := ()
  toInt _ := 0
  inf := ()

/-- exact integer arithmetic (division rounds down) -/
def intArith : FArith Int where
  add := (· + ·)
  sub := (· - ·)
  mul := (· * ·)
  div := (· / ·)
  pow a b := a ^ b.toNat
  neg a := -a
  abs a := a.natAbs
  lt a b := decide (a < b)
  le a b := decide (a ≤ b)
  eq a b := decide (a = b)
  ofNat n := n
  ofInt z := z
  toInt z := z
  inf := 0

end AQ.Recovery
