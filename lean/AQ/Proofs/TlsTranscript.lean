import AQ.Proofs.TlsFlight
/-
  Views: the sub-sequence of a handler's actions selected by `sel`, with their
  guards.  A run that returns normally performed exactly the enabled part of
  the view, in order — for every selection.
-/
namespace AQ.Tls
open AQ.Gen.Tls AQ.TlsSpec

def viewOf {β} (sel : Act → Option β) (l : List Step) : List (List (Test × Bool) × β) :=
  l.filterMap fun s => (sel s.act).map fun x => (s.cond, x)

theorem view_enabled_gen {β} (sel : Act → Option β) (env : Env) (l : List Step) :
    ((enabled env l).map (·.act)).filterMap sel
      = ((viewOf sel l).filter fun p => condOK env p.1).map (·.2) := by
  induction l with
  | nil => simp [enabled, viewOf]
  | cons s rest ih =>
    unfold enabled viewOf at ih ⊢
    simp only [List.filter_cons, List.filterMap_cons]
    by_cases hc : condHolds env s = true
    · simp only [hc, ↓reduceIte, List.map_cons, List.filterMap_cons]
      cases hs : sel s.act with
      | none => simpa [hs] using ih
      | some x =>
        have : condOK env s.cond = true := hc
        simp only [Option.map_some, List.filter_cons, this, ↓reduceIte, List.map_cons]
        rw [ih]
    · simp only [hc, Bool.false_eq_true, ↓reduceIte]
      cases hs : sel s.act with
      | none => simpa [hs] using ih
      | some x =>
        have : condOK env s.cond = false := by
          have h3 : condOK env s.cond = condHolds env s := rfl
          rw [h3]; simpa using hc
        simp only [Option.map_some, List.filter_cons, this, Bool.false_eq_true, ↓reduceIte]
        exact ih

/-- a handler run that returns normally performed, of the selected actions,
    exactly those whose guards hold, in source order -/
theorem done_view {β} (sel : Act → Option β) (env : Env) (l : List Step) (hr : noRet l = true)
    (hd : (exec env l).2 = .done) :
    (exec env l).1.filterMap sel = ((viewOf sel l).filter fun p => condOK env p.1).map (·.2) := by
  unfold exec at hd ⊢
  have hret : ∀ s ∈ enabled env l, s.act ≠ .ret := by
    intro s hs
    have := (enabled_sublist env l).subset hs
    have h2 := List.all_eq_true.mp hr s this
    simpa using h2
  rw [execU_done env _ hret hd, view_enabled_gen]

/-- whatever the outcome, the selected performed actions are a prefix of the enabled view -/
theorem prefix_view {β} (sel : Act → Option β) (env : Env) (l : List Step) :
    (exec env l).1.filterMap sel <+: ((viewOf sel l).filter fun p => condOK env p.1).map (·.2) := by
  unfold exec
  rw [← view_enabled_gen]
  exact List.IsPrefix.filterMap sel (execU_prefix env (enabled env l))

/-- the actions that matter for the transcript and the key schedule -/
def keyRelevant : Act → Option Act
  | a@(.parse _) => some a
  | a@(.updateHash _ _) => some a
  | a@(.pushMessage _ _ _) => some a
  | a@(.computeMac _ _) => some a
  | a@(.sign _) => some a
  | a@(.verifySig) => some a
  | a@(.verifyCert) => some a
  | a@(.verifyFinished _) => some a
  | a@(.verifyBinder _) => some a
  | a@(.extract _) => some a
  | a@(.derive _ _) => some a
  | a@(.releaseKey _ _) => some a
  | _ => none

end AQ.Tls
