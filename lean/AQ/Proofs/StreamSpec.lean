/-
  Facts about the reference model `RSpec` itself (no implementation involved):
  the search bound in `specFrame` never cuts a run short, the final size never
  changes once fixed, and with frames cut from one source stream the delivered
  bytes are exactly the source prefix.
-/
import AQ.Proofs.StreamRecv

namespace AQ.Stream
open AQ

/-- `known₁` of `specFrame` -/
def specKnown1 (t : RSpec) (f : Frame) : Nat → Option UInt8 := fun i =>
  if t.delivered ≤ i ∧ f.offset ≤ i ∧ i < f.stop then f.data[i - f.offset]? else t.known i

/-- `out` of `specFrame` -/
def specOut (t : RSpec) (f : Frame) : Bytes :=
  deliver (specKnown1 t f) t.delivered (max t.hi f.stop - t.delivered)

theorem specFrame_eq (t : RSpec) (f : Frame) :
    specFrame t f =
      if specFrameError t f then none else
      some ({ known := fun i => if i < t.delivered + (specOut t f).length then none else specKnown1 t f i,
              delivered := t.delivered + (specOut t f).length,
              final := if f.fin then some f.stop else t.final,
              hi := max t.hi f.stop },
            mkEvent (specOut t f)
              (decide (some (t.delivered + (specOut t f).length) = (if f.fin then some f.stop else t.final)))) :=
  rfl

/-- well-formedness of a reference state -/
structure SpecInv (t : RSpec) : Prop where
  /-- no byte is known at or above the highest offset seen -/
  above : ∀ i, t.hi ≤ i → t.known i = none
  /-- delivered bytes are forgotten -/
  below : ∀ i, i < t.delivered → t.known i = none
  /-- nothing deliverable is withheld -/
  prompt : t.known t.delivered = none
  le : t.delivered ≤ t.hi

theorem specInv_init : SpecInv {} := by
  constructor <;> simp

theorem specKnown1_above {t : RSpec} (f : Frame) (h : SpecInv t) (i : Nat) (hi : max t.hi f.stop ≤ i) :
    specKnown1 t f i = none := by
  unfold specKnown1
  rw [if_neg (by omega)]
  exact h.above i (by omega)

/-- the run delivered by `specFrame` is maximal: every delivered byte is the
    known byte at its offset and the offset after the run is unknown -/
theorem specOut_maximal {t : RSpec} (f : Frame) (h : SpecInv t) :
    (∀ i, i < (specOut t f).length → specKnown1 t f (t.delivered + i) = (specOut t f)[i]?) ∧
    specKnown1 t f (t.delivered + (specOut t f).length) = none := by
  have := deliver_spec (specKnown1 t f) t.delivered (max t.hi f.stop - t.delivered)
  refine ⟨this.1, ?_⟩
  rcases this.2 with h1 | h1
  · exact h1
  · apply specKnown1_above f h
    unfold specOut
    have := h.le
    omega

theorem specOut_le {t : RSpec} (f : Frame) (h : SpecInv t) :
    t.delivered + (specOut t f).length ≤ max t.hi f.stop := by
  have h1 := (specOut_maximal f h).1
  have hle := h.le
  by_cases hc : t.delivered + (specOut t f).length ≤ max t.hi f.stop
  · exact hc
  · exfalso
    have hlt : max t.hi f.stop - t.delivered < (specOut t f).length := by omega
    have := h1 _ hlt
    rw [specKnown1_above f h _ (by omega)] at this
    rw [List.getElem?_eq_getElem hlt] at this
    cases this

theorem specFrame_inv {t t' : RSpec} {f : Frame} {ev : Option DataEv} (h : SpecInv t)
    (hs : specFrame t f = some (t', ev)) : SpecInv t' := by
  rw [specFrame_eq] at hs
  split at hs
  · cases hs
  · simp only [Option.some.injEq, Prod.mk.injEq] at hs
    obtain ⟨rfl, -⟩ := hs
    have hm := specOut_maximal f h
    constructor
    · intro i hi
      simp only [] at hi ⊢
      split
      · rfl
      · exact specKnown1_above f h i hi
    · intro i hi
      simp only [] at hi ⊢
      rw [if_pos hi]
    · simp only []
      rw [if_neg (by omega)]
      exact hm.2
    · exact specOut_le f h

theorem specReset_inv {t t' : RSpec} {z : Nat} (h : SpecInv t) (hs : specReset t z = some t') :
    SpecInv t' := by
  have hab : ∀ i, max t.hi z ≤ i → t.known i = none := fun i hi => h.above i (by omega)
  have hle : t.delivered ≤ max t.hi z := by have := h.le; omega
  unfold specReset at hs
  split at hs
  · split at hs
    · cases hs
    · cases hs; exact ⟨hab, h.below, h.prompt, hle⟩
  · cases hs; exact ⟨hab, h.below, h.prompt, hle⟩

/-- the reference model's end marker: set exactly when everything up to the
    final size has been delivered -/
theorem specFrame_end {t t' : RSpec} {f : Frame} {ev : Option DataEv}
    (hs : specFrame t f = some (t', ev)) : evEnd ev = decide (some t'.delivered = t'.final) := by
  rw [specFrame_eq] at hs
  split at hs
  · cases hs
  · simp only [Option.some.injEq, Prod.mk.injEq] at hs
    obtain ⟨rfl, rfl⟩ := hs
    rw [evEnd_mkEvent]

/-- the final size never changes once it is fixed -/
theorem specFrame_final_stable {t t' : RSpec} {f : Frame} {ev : Option DataEv} {z : Nat}
    (hz : t.final = some z) (hs : specFrame t f = some (t', ev)) : t'.final = some z := by
  rw [specFrame_eq] at hs
  split at hs
  · cases hs
  · rename_i hne
    simp only [Option.some.injEq, Prod.mk.injEq] at hs
    obtain ⟨rfl, -⟩ := hs
    simp only []
    split
    · rename_i hfin
      unfold specFrameError at hne
      rw [hz] at hne
      simp only [Option.some.injEq, exists_eq_left'] at hne
      congr 1
      by_cases hx : f.stop = z
      · exact hx
      · exact absurd (Or.inr ⟨hfin, hx⟩) hne
    · exact hz

theorem specReset_final_stable {t t' : RSpec} {y z : Nat}
    (hz : t.final = some z) (hs : specReset t y = some t') : t'.final = some z := by
  unfold specReset at hs
  rw [hz] at hs
  simp only [] at hs
  split at hs
  · cases hs
  · cases hs; rename_i hne; simp only [ne_eq, Decidable.not_not] at hne; subst hne; rfl

/-! ## Frames cut from one source stream -/

/-- the frame's bytes are the source stream's bytes at the frame's offsets
    (what a conforming QUIC sender guarantees) -/
def Consistent (src : Nat → UInt8) (f : Frame) : Prop :=
  ∀ i, i < f.data.length → f.data[i]? = some (src (f.offset + i))

/-- every known byte is the source byte of its offset -/
def SrcInv (src : Nat → UInt8) (t : RSpec) : Prop := ∀ i b, t.known i = some b → b = src i

theorem specKnown1_src {src : Nat → UInt8} {t : RSpec} {f : Frame} (h : SrcInv src t)
    (hc : Consistent src f) (i : Nat) (b : UInt8) (hb : specKnown1 t f i = some b) : b = src i := by
  unfold specKnown1 at hb
  split at hb
  · rename_i hi
    have hlt : i - f.offset < f.data.length := by
      have : f.stop = f.offset + f.data.length := rfl
      omega
    have := hc _ hlt
    rw [this] at hb
    have e : f.offset + (i - f.offset) = i := by omega
    rw [e] at hb
    cases hb; rfl
  · exact h i b hb

theorem specOut_src {src : Nat → UInt8} {t : RSpec} {f : Frame} (hi : SpecInv t) (h : SrcInv src t)
    (hc : Consistent src f) :
    specOut t f = (List.range' t.delivered (specOut t f).length).map src := by
  apply List.ext_getElem?
  intro i
  have hm := (specOut_maximal f hi).1 i
  by_cases hlt : i < (specOut t f).length
  · have hm := hm hlt
    rw [List.getElem?_eq_getElem hlt] at hm ⊢
    have := specKnown1_src h hc _ _ hm
    rw [List.getElem?_map, List.getElem?_range' hlt]
    simp [this]
  · rw [List.getElem?_eq_none (by omega), List.getElem?_eq_none (by simp; omega)]

theorem specFrame_src {src : Nat → UInt8} {t t' : RSpec} {f : Frame} {ev : Option DataEv}
    (hi : SpecInv t) (h : SrcInv src t) (hc : Consistent src f)
    (hs : specFrame t f = some (t', ev)) :
    SrcInv src t' ∧ evData ev = (List.range' t.delivered (t'.delivered - t.delivered)).map src := by
  rw [specFrame_eq] at hs
  split at hs
  · cases hs
  · simp only [Option.some.injEq, Prod.mk.injEq] at hs
    obtain ⟨rfl, rfl⟩ := hs
    constructor
    · intro i b hb
      simp only [] at hb
      split at hb
      · cases hb
      · exact specKnown1_src h hc i b hb
    · rw [evData_mkEvent]
      simp only [Nat.add_sub_cancel_left]
      exact specOut_src hi h hc

theorem specReset_src {src : Nat → UInt8} {t t' : RSpec} {z : Nat} (h : SrcInv src t)
    (hs : specReset t z = some t') : SrcInv src t' ∧ t'.delivered = t.delivered := by
  unfold specReset at hs
  split at hs
  · split at hs
    · cases hs
    · cases hs; exact ⟨h, rfl⟩
  · cases hs; exact ⟨h, rfl⟩

end AQ.Stream
