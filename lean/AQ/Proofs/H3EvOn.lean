/-
C14: every event produced by the parser of stream `i` carries stream id `i`.
-/
import AQ.Proofs.H3Conn

namespace AQ.H3

def evSid : Event → Nat
  | .headers _ i _ _ => i
  | .data _ i _ _ => i
  | .pushPromise _ _ i => i
  | .wt _ i _ _ => i
  | .datagram _ i => i

def EvOn (i : Nat) (evs : List Event) : Prop := ∀ e, e ∈ evs → evSid e = i

theorem EvOn.nil (i : Nat) : EvOn i [] := fun _ h => by cases h

theorem EvOn.append {i : Nat} {a b : List Event} (ha : EvOn i a) (hb : EvOn i b) : EvOn i (a ++ b) := by
  intro e he
  rcases List.mem_append.mp he with h | h
  · exact ha e h
  · exact hb e h

theorem EvOn.single {i : Nat} {e : Event} (h : evSid e = i) : EvOn i [e] := by
  intro x hx
  simp only [List.mem_singleton] at hx
  rw [hx]; exact h

theorem EvOn.cons {i : Nat} {e : Event} {r : List Event} (h : evSid e = i) (hr : EvOn i r) : EvOn i (e :: r) :=
  EvOn.append (EvOn.single h) hr

theorem normEv_other (j : Nat) (e : Event) (h : evSid e ≠ j) : normEv j e = Norm.empty := by
  cases e <;> simp_all [normEv, evSid]

theorem normOf_evOn_ne {i j : Nat} (hij : j ≠ i) : ∀ {evs : List Event}, EvOn i evs → normOf j evs = Norm.empty := by
  intro evs
  induction evs with
  | nil => intro _; rfl
  | cons e r ih =>
    intro h
    have he : evSid e = i := h e List.mem_cons_self
    have hr : EvOn i r := fun x hx => h x (List.mem_cons_of_mem _ hx)
    simp only [normOf, ih hr, normEv_other j e (by rw [he]; exact fun e => hij e.symm), Norm.empty_append]

section
variable {σ : Type} (o : Oracle σ) (cfg : Cfg)

theorem endOfSilent_evOn {p : PState} {b : Bool} {evs : List Event} (h : endOfSilent cfg p b = .ok evs) :
    EvOn p.streamId evs := by
  unfold endOfSilent at h
  repeat' (split at h)
  all_goals first
    | (simp at h; done)
    | (simp at h; subst h; exact EvOn.single rfl)
    | (simp at h; subst h; exact EvOn.nil _)

theorem finishHeaders_evOn {p p2 : PState} {q q2 : σ} {hs : Headers} {b : Bool} {ev : List Event}
    (h : finishHeaders o cfg p q hs b = .ok (p2, q2, ev)) : EvOn p.streamId ev := by
  unfold finishHeaders at h
  dsimp only at h
  repeat' (split at h)
  all_goals first
    | (simp at h; done)
    | (simp at h; obtain ⟨_, _, rfl⟩ := h; exact EvOn.single rfl)

theorem finishPush_evOn {p p2 : PState} {q q2 : σ} {pid : Nat} {hs : Headers} {b : Bool} {ev : List Event}
    (h : finishPush o cfg p q pid hs b = .ok (p2, q2, ev)) : EvOn p.streamId ev := by
  unfold finishPush at h
  repeat' (split at h)
  all_goals first
    | (simp at h; done)
    | (simp at h; obtain ⟨_, _, rfl⟩ := h
       exact EvOn.cons rfl (endOfSilent_evOn cfg ‹endOfSilent cfg _ _ = _›))

theorem handleFrame_evOn {ft : Option Nat} {d : Bytes} {p p2 : PState} {q q2 : σ} {b : Bool} {ev : List Event}
    (h : handleFrame o cfg ft d p q b = .ok (.done p2 q2 ev)) : EvOn p.streamId ev := by
  unfold handleFrame at h
  dsimp only at h
  repeat' (split at h)
  all_goals first
    | (simp at h; done)
    | (simp at h; obtain ⟨_, _, rfl⟩ := h; first | exact EvOn.single rfl | exact EvOn.nil _)
    | (simp at h; obtain ⟨_, _, rfl⟩ := h; exact finishHeaders_evOn o cfg ‹_›)
    | (simp at h; obtain ⟨_, _, rfl⟩ := h; exact finishPush_evOn o cfg ‹finishPush o cfg _ _ _ _ _ = _›)
    | (simp at h; obtain ⟨_, _, rfl⟩ := h; exact endOfSilent_evOn cfg ‹endOfSilent cfg _ _ = _›)


def LoopRes.evs : LoopRes σ → List Event
  | .brk _ _ _ e => e
  | .ret _ _ e => e

theorem prepend_evs (r : LoopRes σ) (ev : List Event) : (r.prepend ev).evs = ev ++ r.evs := by
  cases r <;> rfl

theorem frameHeader_evOn (ea : Bool) (s : Stream) (rest : Bytes) :
    match frameHeader ea s rest with
    | .wt _ evs => EvOn s.p.streamId evs
    | _ => True := by
  unfold frameHeader
  cases s.frameSize with
  | some z => trivial
  | none =>
    dsimp only
    cases pullVarint rest with
    | none => trivial
    | some x =>
      obtain ⟨t, r1⟩ := x
      dsimp only
      cases pullVarint r1 with
      | none => trivial
      | some y =>
        obtain ⟨sz, r2⟩ := y
        dsimp only
        by_cases ht : t = 65
        · rw [if_pos ht]
          dsimp only
          split
          · exact EvOn.single rfl
          · exact EvOn.nil _
        · rw [if_neg ht]; trivial

theorem frameBody_next_evOn {s s2 : Stream} {q q2 : σ} {r r2 : Bytes} {ev : List Event}
    (h : frameBody o cfg s q r = .ok (.next s2 q2 r2 ev)) : EvOn s.p.streamId ev := by
  unfold frameBody at h
  cases hfs : s.frameSize with
  | none => simp [hfs] at h
  | some sz =>
    simp only [hfs] at h
    split at h
    · simp at h
    · split at h
      · simp at h
      · simp at h
      · rename_i hhf
        have hk := handleFrame_evOn o cfg hhf
        simp at h
        obtain ⟨_, _, _, rfl⟩ := h
        split at hk <;> exact hk

theorem reqLoop_evOn (ea : Bool) : ∀ (fuel : Nat) (s : Stream) (q : σ) (rest : Bytes) (res : LoopRes σ),
    reqLoop o cfg ea fuel s q rest = .ok res → EvOn s.p.streamId res.evs := by
  intro fuel
  induction fuel with
  | zero => intro s q rest res h; simp [reqLoop] at h; subst h; exact EvOn.nil _
  | succ n ih =>
    intro s q rest res h
    rw [reqLoop_succ] at h
    split at h
    · simp at h; subst h; exact EvOn.nil _
    · have hh := frameHeader_keep ea s rest
      have he := frameHeader_evOn ea s rest
      cases hfh : frameHeader ea s rest with
      | stuck s1 => rw [hfh] at h; simp at h; subst h; exact EvOn.nil _
      | wt s1 evs => rw [hfh] at h he; simp at h; subst h; exact he
      | go s1 r =>
        rw [hfh] at h hh
        simp only [bodyLoop] at h
        cases hfb : frameBody o cfg s1 q r with
        | error e => rw [hfb] at h; simp at h
        | ok br =>
          rw [hfb] at h
          cases br with
          | brk => simp at h; subst h; exact EvOn.nil _
          | blocked s2 q2 r2 => simp at h; subst h; exact EvOn.nil _
          | next s2 q2 r2 ev =>
            have hk2 := frameBody_next_keep o cfg hfb
            have he2 := frameBody_next_evOn o cfg hfb
            simp only at h
            cases hl : reqLoop o cfg ea n s2 q2 r2 with
            | error e => rw [hl] at h; simp at h
            | ok res2 =>
              rw [hl] at h
              simp at h
              subst h
              rw [prepend_evs]
              have h3 := ih _ _ _ _ hl
              rw [hk2.2.2.1, hh.2.2.1] at h3
              rw [hh.2.2.1] at he2
              exact EvOn.append he2 h3

theorem recvReq_evOn (s s1 : Stream) (q q1 : σ) (d : Bytes) (ea : Bool) (ev : List Event)
    (h : recvReq o cfg s q d ea = .ok (s1, q1, ev)) : EvOn s.p.streamId ev := by
  unfold recvReq at h
  dsimp only at h
  have hmain : ∀ (x : Stream), x.p.streamId = s.p.streamId → recvReqMain o cfg x q ea = .ok (s1, q1, ev) →
      EvOn s.p.streamId ev := by
    intro x hx hm
    unfold recvReqMain loneFin loopPost at hm
    repeat' (split at hm)
    all_goals first
      | (simp at hm; done)
      | (simp at hm; obtain ⟨_, _, rfl⟩ := hm; rw [← hx]; exact EvOn.single rfl)
      | (simp at hm; obtain ⟨_, _, rfl⟩ := hm
         have := reqLoop_evOn o cfg ea _ _ _ _ _ ‹reqLoop o cfg ea _ _ _ _ = Except.ok _›
         simpa [LoopRes.evs, hx] using this)
  repeat' (split at h)
  all_goals first
    | (simp at h; done)
    | (simp at h; obtain ⟨_, _, rfl⟩ := h; first | exact EvOn.nil _ | exact EvOn.single rfl)
    | (refine hmain _ ?_ h; rfl)


theorem resumeFrame_evOn {p p1 : PState} {bp : Option Nat} {q q1 : σ} {b : Bool} {ev : List Event}
    (h : resumeFrame o cfg p bp q b = .ok (p1, q1, ev)) : EvOn p.streamId ev ∧ p1.streamId = p.streamId := by
  unfold resumeFrame at h
  repeat' (split at h)
  all_goals first
    | (simp at h; done)
    | exact ⟨finishPush_evOn o cfg h, by rw [finishPush_keep o cfg h]⟩
    | exact ⟨finishHeaders_evOn o cfg h, (finishHeaders_keep o cfg h).2⟩

theorem resumeStream_evOn (st s1 : Stream) (q q1 : σ) (ev : List Event)
    (h : resumeStream o cfg st q = .ok (s1, q1, ev)) : EvOn st.p.streamId ev := by
  unfold resumeStream at h
  cases hrf : resumeFrame o cfg st.p st.blockedPush q (st.receivingEnded && st.buffer.isEmpty) with
  | error e => rw [hrf] at h; simp at h
  | ok v =>
    obtain ⟨p1, q2, ev1⟩ := v
    rw [hrf] at h
    obtain ⟨he1, hp1⟩ := resumeFrame_evOn o cfg hrf
    dsimp only at h
    split at h
    · simp at h; obtain ⟨_, _, rfl⟩ := h; exact he1
    · split at h
      · simp at h
      · rename_i st3 q3 ev2 hrr
        simp at h
        obtain ⟨_, _, rfl⟩ := h
        have := recvReq_evOn o cfg _ _ _ _ _ _ _ hrr
        exact EvOn.append he1 (by simpa [hp1] using this)


theorem resumeStream_sid (st s1 : Stream) (q q1 : σ) (ev : List Event)
    (h : resumeStream o cfg st q = .ok (s1, q1, ev)) : s1.p.streamId = st.p.streamId := by
  unfold resumeStream at h
  cases hrf : resumeFrame o cfg st.p st.blockedPush q (st.receivingEnded && st.buffer.isEmpty) with
  | error e => rw [hrf] at h; simp at h
  | ok v =>
    obtain ⟨p1, q2, ev1⟩ := v
    rw [hrf] at h
    obtain ⟨_, hp1⟩ := resumeFrame_evOn o cfg hrf
    dsimp only at h
    split at h
    · simp at h; obtain ⟨rfl, _, _⟩ := h; exact hp1
    · split at h
      · simp at h
      · rename_i st3 q3 ev2 hrr
        simp at h
        obtain ⟨rfl, _, _⟩ := h
        have := (recvReq_keep o cfg _ _ _ _ _ _ _ hrr).2.2.1
        exact this.trans hp1


theorem resumeStream_re (st s1 : Stream) (q q1 : σ) (ev : List Event)
    (h : resumeStream o cfg st q = .ok (s1, q1, ev)) : s1.receivingEnded = st.receivingEnded := by
  unfold resumeStream at h
  cases hrf : resumeFrame o cfg st.p st.blockedPush q (st.receivingEnded && st.buffer.isEmpty) with
  | error e => rw [hrf] at h; simp at h
  | ok v =>
    obtain ⟨p1, q2, ev1⟩ := v
    rw [hrf] at h
    dsimp only at h
    split at h
    · simp at h; obtain ⟨rfl, _, _⟩ := h; rfl
    · split at h
      · simp at h
      · rename_i st3 q3 ev2 hrr
        simp at h
        obtain ⟨rfl, _, _⟩ := h
        have := recvReq_re o cfg _ _ _ _ _ _ _ hrr
        simpa using this

end
end AQ.H3
