/-
  Packet headers, encoding direction in one statement: an explicit decidable
  well-formedness predicate, the RFC layout for every header kind with every
  choice the RFC leaves open (type-specific / reserved / packet-number-length
  bits of the first byte, width of the Length varint), and
  decode (encode h) = h; then the malformed inputs.
-/
import AQ.Proofs.CodecHeaderDec

namespace AQ.Codec
open AQ AQ.Frame

theorem beBytes8 (v : Nat) : CodecSpec.beBytes 8 v = be8 v := by
  simp only [CodecSpec.beBytes, be8, List.nil_append, List.cons_append]
  repeat' (first | (congr 1; exact ofNat_congr (by omega)) | congr 1)

theorem pullUintVar_w2 (len : Nat) (y : Bytes) (h : len < 1073741824) :
    pullUintVar (be4 (2147483648 + len) ++ y) = .ok (len, y) := by
  simp only [be4, List.cons_append, List.nil_append, pullUintVar, toNat_byte]
  have h1 : (2147483648 + len) / 16777216 % 256 / 64 = 2 := by omega
  simp only [h1]
  congr 2; omega

theorem pullUintVar_w3 (len : Nat) (y : Bytes) (h : len < 4611686018427387904) :
    pullUintVar (be8 (13835058055282163712 + len) ++ y) = .ok (len, y) := by
  simp only [be8, List.cons_append, List.nil_append, pullUintVar, toNat_byte]
  have h1 : (13835058055282163712 + len) / 72057594037927936 % 256 / 64 = 3 := by omega
  simp only [h1]
  congr 2; omega

/-- the numeric bound of each varint width -/
def widthBound (k : Nat) : Nat :=
  if k = 0 then 64 else if k = 1 then 16384 else if k = 2 then 1073741824 else 4611686018427387904

/-- every width of the RFC 9000 §16 encoding is read back by `pull_uint_var` -/
theorem isVarint_W (k len : Nat) (hk : k ≤ 3) (hl : len < widthBound k) :
    IsVarint (CodecSpec.encVarintW k len) len := by
  intro y
  have hk' : k = 0 ∨ k = 1 ∨ k = 2 ∨ k = 3 := by omega
  rcases hk' with rfl | rfl | rfl | rfl
  · have h : len < 64 := hl
    have e : CodecSpec.encVarintW 0 len = [byte len] := by
      simp only [CodecSpec.encVarintW, CodecSpec.beBytes, Nat.pow_zero, Nat.zero_mul, Nat.zero_add, List.nil_append]
      congr 1; exact ofNat_congr (by omega)
    rw [e]
    simp only [List.cons_append, List.nil_append, pullUintVar, toNat_byte]
    have h0 : len % 256 / 64 = 0 := by omega
    simp only [h0]
    congr 2; omega
  · have h : len < 16384 := hl
    rw [encVarintW1]; exact pullUintVar_be2 len y h
  · have h : len < 1073741824 := hl
    have e : CodecSpec.encVarintW 2 len = be4 (2147483648 + len) := by
      simp only [CodecSpec.encVarintW, Nat.reducePow, Nat.reduceMul, Nat.reduceSub, beBytes4]
    rw [e]; exact pullUintVar_w2 len y h
  · have h : len < 4611686018427387904 := hl
    have e : CodecSpec.encVarintW 3 len = be8 (13835058055282163712 + len) := by
      simp only [CodecSpec.encVarintW, Nat.reducePow, Nat.reduceMul, Nat.reduceSub, beBytes8]
    rw [e]; exact pullUintVar_w3 len y h

theorem fbType_low (v : Nat) (pt : PType) (low : Nat) (hl : pt.isLong = true) (hlow : low < 16) :
    FbType (CodecSpec.longFirstByte v pt low) v pt := by
  have ht := typeBits_lt v pt
  obtain ⟨p1, p2, p3⟩ := fb_props _ ht low hlow
  refine ⟨longFirstByte_lt v pt low hlow, p1, p2, ?_⟩
  unfold CodecSpec.longFirstByte
  rw [p3]
  exact longTypeDecode_bits v pt hl

/-- what the RFC leaves to the sender -/
structure HdrOpts where
  /-- long header / Retry: the 4 type-specific bits (reserved bits and packet-number length − 1, before
      header protection; "unused" for Retry); Version Negotiation: the 7 unused bits; short header: the 6 bits
      below the fixed bit (spin, reserved, key phase, packet-number length − 1) -/
  low : Nat
  /-- width code of the Length varint (0..3) and its value (long headers other than Retry) -/
  lenCode : Nat
  length : Nat
deriving Repr, DecidableEq

/-- the bytes `pull_quic_header` consumes for header `h` (RFC 9000 §17.2, §17.2.1, §17.2.5, §17.3.1; RFC 9369 §3.2) -/
def hdrBytes (h : Header) (o : HdrOpts) : Bytes :=
  match h.ptype with
  | .versionNegotiation => longPrefix (128 + o.low) 0 h.dcid h.scid (versionsBytes h.versions)
  | .retry => longPrefix (CodecSpec.longFirstByte (h.version.getD 0) .retry o.low) (h.version.getD 0) h.dcid h.scid
      (h.token ++ h.tag)
  | .oneRtt => byte (64 + o.low) :: h.dcid
  | .initial => longPrefix (CodecSpec.longFirstByte (h.version.getD 0) .initial o.low) (h.version.getD 0) h.dcid h.scid
      (CodecSpec.encVarint h.token.length ++ (h.token ++ CodecSpec.encVarintW o.lenCode o.length))
  | pt => longPrefix (CodecSpec.longFirstByte (h.version.getD 0) pt o.low) (h.version.getD 0) h.dcid h.scid
      (CodecSpec.encVarintW o.lenCode o.length)

def nonzero32 (v : Option Nat) : Bool :=
  match v with
  | some n => n != 0 && decide (n < 4294967296)
  | none => false

/-- explicit, decidable well-formedness of a header value and of the sender's choices -/
def hdrWF (hcl : Option Int) (h : Header) (o : HdrOpts) : Bool :=
  match h.ptype with
  | .versionNegotiation =>
    h.version == some 0 && decide (h.dcid.length ≤ 20) && decide (h.scid.length ≤ 20) && h.token.isEmpty &&
      h.tag.isEmpty && h.versions.all (fun v => decide (v < 4294967296)) && decide (o.low < 128)
  | .retry =>
    nonzero32 h.version && decide (h.dcid.length ≤ 20) && decide (h.scid.length ≤ 20) &&
      decide (h.tag.length = 16) && decide (h.token.length < 9223372036854775808) && h.versions.isEmpty &&
      decide (o.low < 16)
  | .oneRtt =>
    h.version == none && h.scid.isEmpty && h.token.isEmpty && h.tag.isEmpty && h.versions.isEmpty &&
      decide (h.dcid.length < 9223372036854775808) && hcl == some (h.dcid.length : Int) && decide (o.low < 64)
  | .initial =>
    nonzero32 h.version && decide (h.dcid.length ≤ 20) && decide (h.scid.length ≤ 20) && h.tag.isEmpty &&
      h.versions.isEmpty && decide (h.token.length < 4611686018427387904) && decide (o.low < 16) &&
      decide (o.lenCode ≤ 3) && decide (o.length < widthBound o.lenCode)
  | _ =>
    nonzero32 h.version && decide (h.dcid.length ≤ 20) && decide (h.scid.length ≤ 20) && h.token.isEmpty &&
      h.tag.isEmpty && h.versions.isEmpty && decide (o.low < 16) && decide (o.lenCode ≤ 3) &&
      decide (o.length < widthBound o.lenCode)

/-- `packet_length` as the receiver computes it -/
def hdrPacketLength (h : Header) (o : HdrOpts) (x : Bytes) : Nat :=
  match h.ptype with
  | .initial | .zeroRtt | .handshake => (hdrBytes h o).length + o.length
  | _ => (hdrBytes h o).length + x.length

/-- what may follow the header: a long-header packet needs its declared payload,
    Retry and Version Negotiation extend to the end of the datagram -/
def hdrTailOK (h : Header) (o : HdrOpts) (x : Bytes) : Bool :=
  match h.ptype with
  | .initial | .zeroRtt | .handshake => decide (o.length ≤ x.length)
  | .retry | .versionNegotiation => x.isEmpty
  | .oneRtt => true

theorem vn_fb_props : ∀ low, low < 128 → 128 + low < 256 ∧ ((128 + low) &&& 128 != 0) = true := by
  decide +kernel

theorem short_fb_props' : ∀ low, low < 64 →
    64 + low < 256 ∧ ((64 + low) &&& 128 != 0) = false ∧ ((64 + low) &&& 64 != 0) = true := by
  decide +kernel

theorem nonzero32_inv (v : Option Nat) (h : nonzero32 v = true) : ∃ n, v = some n ∧ n ≠ 0 ∧ n < 4294967296 := by
  cases v with
  | none => simp [nonzero32] at h
  | some n =>
    simp only [nonzero32, Bool.and_eq_true, bne_iff_ne, ne_eq, decide_eq_true_eq] at h
    exact ⟨n, rfl, h.1, h.2⟩

/-- **decode (encode h) = h** for every well-formed header of every kind, with
    every first-byte choice and Length width the RFC allows -/
theorem header_roundtrip_wf (hcl : Option Int) (h : Header) (o : HdrOpts) (x : Bytes)
    (hwf : hdrWF hcl h o = true) (ht : hdrTailOK h o x = true) :
    pullQuicHeader hcl (hdrBytes h o ++ x) = .ok ({ h with packetLength := hdrPacketLength h o x }, x) := by
  obtain ⟨version, pt, pl, dcid, scid, token, tag, versions⟩ := h
  cases pt with
  | versionNegotiation =>
    simp only [hdrWF, Bool.and_eq_true, decide_eq_true_eq, List.isEmpty_iff, beq_iff_eq, List.all_eq_true] at hwf
    obtain ⟨⟨⟨⟨⟨⟨hv, hd⟩, hs⟩, rfl⟩, rfl⟩, hvs⟩, hlow⟩ := hwf
    have hx : x = [] := by simpa [hdrTailOK] using ht
    subst hx hv
    obtain ⟨f1, f2⟩ := vn_fb_props o.low hlow
    simp only [hdrBytes, hdrPacketLength, List.append_nil, List.length_nil, Nat.add_zero]
    unfold pullQuicHeader
    exact vn_header _ hcl (128 + o.low) dcid scid versions f1 f2 hd hs hvs
  | retry =>
    simp only [hdrWF, Bool.and_eq_true, decide_eq_true_eq, List.isEmpty_iff] at hwf
    obtain ⟨⟨⟨⟨⟨⟨hv, hd⟩, hs⟩, htag⟩, htok⟩, rfl⟩, hlow⟩ := hwf
    obtain ⟨v, rfl, hv0, hv32⟩ := nonzero32_inv _ hv
    have hx : x = [] := by simpa [hdrTailOK] using ht
    subst hx
    simp only [hdrBytes, hdrPacketLength, Option.getD_some, List.append_nil, List.length_nil, Nat.add_zero]
    rw [retry_fwd hcl _ v dcid scid token tag (fbType_low v .retry o.low rfl hlow) hv32 hv0 hd hs htag htok]
    simp only [longPrefix_length, List.length_append, htag]
    congr 3
  | oneRtt =>
    simp only [hdrWF, Bool.and_eq_true, decide_eq_true_eq, List.isEmpty_iff, beq_iff_eq] at hwf
    obtain ⟨⟨⟨⟨⟨⟨⟨rfl, rfl⟩, rfl⟩, rfl⟩, rfl⟩, hd⟩, rfl⟩, hlow⟩ := hwf
    obtain ⟨f1, f2, f3⟩ := short_fb_props' o.low hlow
    simp only [hdrBytes, hdrPacketLength, List.cons_append]
    rw [short_header (64 + o.low) dcid x f1 f2 f3 hd]
    simp only [List.length_cons]
    congr 3
    omega
  | initial =>
    simp only [hdrWF, Bool.and_eq_true, decide_eq_true_eq, List.isEmpty_iff] at hwf
    obtain ⟨⟨⟨⟨⟨⟨⟨⟨hv, hd⟩, hs⟩, rfl⟩, rfl⟩, htok⟩, hlow⟩, hk⟩, hlen⟩ := hwf
    obtain ⟨v, rfl, hv0, hv32⟩ := nonzero32_inv _ hv
    have hx : o.length ≤ x.length := by simpa [hdrTailOK] using ht
    simp only [hdrBytes, hdrPacketLength, Option.getD_some]
    rw [← longPrefix_append]
    simp only [List.append_assoc]
    rw [initial_fwd hcl _ v dcid scid token _ _ x o.length (fbType_low v .initial o.low rfl hlow) hv32 hv0 hd hs
      (by rw [specVarint_eq _ htok]; exact isVarint_encV _ htok) (isVarint_W _ _ hk hlen) (by omega) hx]
    simp only [longPrefix_length, List.length_append]
    congr 3
    omega
  | zeroRtt =>
    simp only [hdrWF, Bool.and_eq_true, decide_eq_true_eq, List.isEmpty_iff] at hwf
    obtain ⟨⟨⟨⟨⟨⟨⟨⟨hv, hd⟩, hs⟩, rfl⟩, rfl⟩, rfl⟩, hlow⟩, hk⟩, hlen⟩ := hwf
    obtain ⟨v, rfl, hv0, hv32⟩ := nonzero32_inv _ hv
    have hx : o.length ≤ x.length := by simpa [hdrTailOK] using ht
    simp only [hdrBytes, hdrPacketLength, Option.getD_some]
    rw [← longPrefix_append]
    rw [plain_fwd hcl _ v .zeroRtt dcid scid _ x o.length (Or.inl rfl) (fbType_low v .zeroRtt o.low rfl hlow) hv32 hv0
      hd hs (isVarint_W _ _ hk hlen) hx]
    simp only [longPrefix_length]
  | handshake =>
    simp only [hdrWF, Bool.and_eq_true, decide_eq_true_eq, List.isEmpty_iff] at hwf
    obtain ⟨⟨⟨⟨⟨⟨⟨⟨hv, hd⟩, hs⟩, rfl⟩, rfl⟩, rfl⟩, hlow⟩, hk⟩, hlen⟩ := hwf
    obtain ⟨v, rfl, hv0, hv32⟩ := nonzero32_inv _ hv
    have hx : o.length ≤ x.length := by simpa [hdrTailOK] using ht
    simp only [hdrBytes, hdrPacketLength, Option.getD_some]
    rw [← longPrefix_append]
    rw [plain_fwd hcl _ v .handshake dcid scid _ x o.length (Or.inr rfl) (fbType_low v .handshake o.low rfl hlow) hv32
      hv0 hd hs (isVarint_W _ _ hk hlen) hx]
    simp only [longPrefix_length]

end AQ.Codec
