/-
  Proofs about the 1-RTT key-update bookkeeping model (AQ/Model/KeyUpdate.lean).
  `D X Y w x` is the invariant of ONE direction: `X` (endpoint `x`) protects,
  `Y` (its peer) unprotects, `w` is everything ever sent.  Core Lean only.
-/
import AQ.Model.KeyUpdate

namespace AQ.KeyUpdate

def kp (e : End) : Nat := e.keyUpdatePn.getD 0

structure D (X Y : End) (w : List Pkt) (x : Bool) : Prop where
  /-- the sender is never more than one generation ahead of what the receiver can read -/
  i1 : Y.pair.recvGen ≤ X.pair.sendGen ∧ X.pair.sendGen ≤ Y.pair.recvGen + 1
  /-- a requested (not yet applied) update starts from synchronised generations -/
  i2 : X.pair.requested = true → X.pair.sendGen = Y.pair.recvGen
  /-- packets of the sender: honest key phase bit; numbered since the last key change ⇒ current generation -/
  i3 : ∀ p ∈ w, p.fromA = x → p.gen ≤ X.pair.sendGen ∧ p.bit = p.gen % 2 ∧ p.pn < X.packetNumber ∧
        (kp X ≤ p.pn → p.gen = X.pair.sendGen)
  /-- what the receiver has seen -/
  i4 : ∀ n, Y.largestRecv = some n → n < X.packetNumber ∧ (kp X ≤ n → Y.pair.recvGen = X.pair.sendGen)
  /-- ACKs are honest -/
  i5 : X.largestAcked = 0 ∨ ∃ n, Y.largestRecv = some n ∧ X.largestAcked ≤ n
  i5w : ∀ p ∈ w, p.fromA = (!x) → ∀ m, p.ack = some m →
        (∃ n, Y.largestRecv = some n ∧ m ≤ n) ∧ (kp X ≤ m → X.pair.sendGen ≤ p.gen)
  i6 : ∀ u, X.keyUpdatePn = some u → 1 ≤ u ∧ u ≤ X.packetNumber
  i6n : X.keyUpdatePn = none → X.pair.sendGen = 0
  /-- own pair: send keys equal to or one ahead of the receive keys -/
  i7 : X.pair.recvGen ≤ X.pair.sendGen ∧ X.pair.sendGen ≤ X.pair.recvGen + 1
  i8 : 1 ≤ X.packetNumber
  /-- once a packet sent with the current keys is acknowledged, the sender's own
      receive keys have caught up (the ACK travelled in a packet of that generation) -/
  i9 : kp X ≤ X.largestAcked → X.pair.recvGen = X.pair.sendGen
  i2b : X.pair.requested = true → X.pair.recvGen = X.pair.sendGen

theorem kp_some {e : End} {u : Nat} (h : e.keyUpdatePn = some u) : kp e = u := by simp [kp, h]
theorem kp_none {e : End} (h : e.keyUpdatePn = none) : kp e = 0 := by simp [kp, h]

/-- `request_key_update()` accepted at the sender of this direction -/
theorem D_request_sender {X Y : End} {w : List Pkt} {x : Bool} (h : D X Y w x)
    (hg : ∀ u, X.keyUpdatePn = some u → ¬ X.largestAcked < u) :
    D { X with pair := { X.pair with requested := true } } Y w x := by
  have hk9 : kp X ≤ X.largestAcked := by
    cases hk : X.keyUpdatePn with
    | none => rw [kp_none hk]; omega
    | some u => have := hg u hk; rw [kp_some hk]; omega
  refine ⟨h.i1, ?_, h.i3, h.i4, h.i5, h.i5w, h.i6, h.i6n, h.i7, h.i8, h.i9, fun _ => h.i9 hk9⟩
  intro _
  show X.pair.sendGen = Y.pair.recvGen
  cases hk : X.keyUpdatePn with
  | none => have := h.i6n hk; have := h.i1; omega
  | some u =>
    have hu := hg u hk
    have h6 := h.i6 u hk
    rcases h.i5 with h5 | ⟨n, hn, hle⟩
    · omega
    · have := (h.i4 n hn).2 (by rw [kp_some hk]; omega)
      omega

/-- anything that changes only `requested` of the receiver's pair -/
theorem D_request_receiver {X Y : End} {w : List Pkt} {x : Bool} (h : D X Y w x) (b : Bool) :
    D X { Y with pair := { Y.pair with requested := b } } w x :=
  ⟨h.i1, h.i2, h.i3, h.i4, h.i5, h.i5w, h.i6, h.i6n, h.i7, h.i8, h.i9, h.i2b⟩

/-! ## Sending -/

/-- the endpoint after building one packet (current code) -/
def End.afterSend (X : End) : End :=
  { X with pair := (X.pair.encrypt false).1, packetNumber := X.packetNumber + 1,
           keyUpdatePn := if (X.pair.encrypt false).2.2.2 then some X.packetNumber else X.keyUpdatePn }

def End.pkt (X : End) (x withAck : Bool) : Pkt :=
  ⟨x, (X.pair.encrypt false).2.1, (X.pair.encrypt false).2.2.1, X.packetNumber,
   if withAck then X.largestRecv else none⟩

/-- `afterSend` when an update was requested -/
def End.bumped (X : End) : End :=
  { X with pair := { X.pair with sendGen := X.pair.sendGen + 1, requested := false },
           packetNumber := X.packetNumber + 1, keyUpdatePn := some X.packetNumber }

/-- `afterSend` otherwise -/
def End.next (X : End) : End := { X with packetNumber := X.packetNumber + 1 }

theorem afterSend_req {X : End} (h : X.pair.requested = true) :
    X.afterSend = X.bumped ∧
    (∀ x a, X.pkt x a = ⟨x, X.pair.sendGen + 1, (X.pair.sendGen + 1) % 2, X.packetNumber,
        if a then X.largestRecv else none⟩) := by
  constructor
  · simp [End.afterSend, End.bumped, Pair.encrypt, Pair.updateKey, h]
  · intro x a; simp [End.pkt, Pair.encrypt, Pair.updateKey, Pair.keyPhase, h]

theorem afterSend_noreq {X : End} (h : X.pair.requested = false) :
    X.afterSend = X.next ∧
    (∀ x a, X.pkt x a = ⟨x, X.pair.sendGen, X.pair.sendGen % 2, X.packetNumber,
        if a then X.largestRecv else none⟩) := by
  constructor
  · simp [End.afterSend, End.next, Pair.encrypt, h]
  · intro x a; simp [End.pkt, Pair.encrypt, Pair.keyPhase, h]

theorem D_send_sender {X Y : End} {w : List Pkt} {x : Bool} (h : D X Y w x) (a : Bool) :
    D X.afterSend Y (w ++ [X.pkt x a]) x := by
  have hx : x ≠ (!x) := by cases x <;> simp
  cases hr : X.pair.requested with
  | true =>
    obtain ⟨e1, e2⟩ := afterSend_req hr
    rw [e1, e2]
    have h2 := h.i2 hr
    have h2b := h.i2b hr
    have h1 := h.i1; have h7 := h.i7; have h8 := h.i8
    have hkp : kp X.bumped = X.packetNumber := rfl
    refine ⟨by simp only [End.bumped]; omega, (by intro hq; cases hq), ?_, ?_, h.i5, ?_, ?_, (by intro hq; cases hq),
      by simp only [End.bumped]; omega, by simp only [End.bumped]; omega, ?_, by intro hq; cases hq⟩
    · intro p hp hf
      simp only [List.mem_append, List.mem_singleton] at hp
      rw [hkp]
      rcases hp with hp | rfl
      · have := h.i3 p hp hf; simp only [End.bumped]; omega
      · refine ⟨?_, ?_, ?_, ?_⟩ <;> simp [End.bumped]
    · intro n hn
      rw [hkp]; have := (h.i4 n hn).1; simp only [End.bumped]; omega
    · intro p hp hf m hm
      simp only [List.mem_append, List.mem_singleton] at hp
      rw [hkp]
      rcases hp with hp | rfl
      · have := h.i5w p hp hf m hm
        refine ⟨this.1, ?_⟩
        obtain ⟨n, hn, hle⟩ := this.1
        have := (h.i4 n hn).1
        intro hc; omega
      · exact absurd hf hx
    · intro u hu; simp only [End.bumped, Option.some.injEq] at hu; subst hu; simp only [End.bumped]; omega
    · rw [hkp]; intro hc
      simp only [End.bumped] at hc
      rcases h.i5 with h5 | ⟨n, hn, hle⟩
      · omega
      · have := (h.i4 n hn).1; omega
  | false =>
    obtain ⟨e1, e2⟩ := afterSend_noreq hr
    rw [e1, e2]
    have hkp : kp X.next = kp X := rfl
    refine ⟨h.i1, h.i2, ?_, ?_, h.i5, ?_, ?_, h.i6n, h.i7, by simp only [End.next]; omega, h.i9, h.i2b⟩
    · intro p hp hf
      simp only [List.mem_append, List.mem_singleton] at hp
      rw [hkp]
      rcases hp with hp | rfl
      · have := h.i3 p hp hf; simp only [End.next]; omega
      · refine ⟨?_, ?_, ?_, ?_⟩ <;> simp [End.next]
    · intro n hn; rw [hkp]; have := h.i4 n hn; simp only [End.next]; omega
    · intro p hp hf m hm
      simp only [List.mem_append, List.mem_singleton] at hp
      rcases hp with hp | rfl
      · exact h.i5w p hp hf m hm
      · exact absurd hf hx
    · intro u hu; have := h.i6 u hu; simp only [End.next]; omega

/-- the RECEIVER of this direction builds a packet (it is the sender of the other
    direction, `hrev`) -/
theorem D_send_receiver {X Y : End} {w : List Pkt} {x : Bool} (h : D X Y w x) (hrev : D Y X w (!x)) (a : Bool) :
    D X Y.afterSend (w ++ [Y.pkt (!x) a]) x := by
  have hx : (!x) ≠ x := by cases x <;> simp
  have hY : Y.afterSend.pair.recvGen = Y.pair.recvGen ∧ Y.afterSend.largestRecv = Y.largestRecv := by
    cases hr : Y.pair.requested
    · rw [(afterSend_noreq hr).1]; exact ⟨rfl, rfl⟩
    · rw [(afterSend_req hr).1]; exact ⟨rfl, rfl⟩
  have hg : Y.pair.sendGen ≤ (Y.pkt (!x) a).gen ∧ (Y.pkt (!x) a).fromA = (!x) ∧
      (Y.pkt (!x) a).ack = (if a then Y.largestRecv else none) := by
    cases hr : Y.pair.requested
    · rw [(afterSend_noreq hr).2]; exact ⟨Nat.le_refl _, rfl, rfl⟩
    · rw [(afterSend_req hr).2]; exact ⟨by simp only []; omega, rfl, rfl⟩
  refine ⟨by rw [hY.1]; exact h.i1, by rw [hY.1]; exact h.i2, ?_, by rw [hY.2, hY.1]; exact h.i4,
    by rw [hY.2]; exact h.i5, ?_, h.i6, h.i6n, h.i7, h.i8, h.i9, h.i2b⟩
  · intro p hp hf
    simp only [List.mem_append, List.mem_singleton] at hp
    rcases hp with hp | rfl
    · exact h.i3 p hp hf
    · exact absurd (hg.2.1.symm.trans hf) hx
  · intro p hp hf m hm
    simp only [List.mem_append, List.mem_singleton] at hp
    rw [hY.2]
    rcases hp with hp | rfl
    · exact h.i5w p hp hf m hm
    · rw [hg.2.2] at hm
      cases a with
      | false => cases hm
      | true =>
        simp only [if_true] at hm
        refine ⟨⟨m, hm, Nat.le_refl _⟩, ?_⟩
        intro hc
        have := (h.i4 m hm).2 hc
        have := hrev.i7
        omega

/-! ## Receiving -/

def End.afterRecv (Y : End) (pr : Pair) (upd : Bool) (p : Pkt) : End :=
  { Y with pair := pr,
           keyUpdatePn := if upd then some Y.packetNumber else Y.keyUpdatePn,
           largestRecv := some (omax Y.largestRecv p.pn),
           largestAcked := match p.ack with
             | some m => max Y.largestAcked m
             | none => Y.largestAcked }

/-- the two ways a packet with an honest key phase bit is accepted -/
theorem decrypt_cases {P pr : Pair} {g : Nat} {upd : Bool} (h7 : P.recvGen ≤ P.sendGen ∧ P.sendGen ≤ P.recvGen + 1)
    (h : P.decrypt false g (g % 2) = some (pr, upd)) :
    (upd = false ∧ pr = P ∧ g = P.recvGen) ∨
    (upd = true ∧ g = P.recvGen + 1 ∧ pr.recvGen = P.recvGen + 1 ∧ pr.sendGen = P.recvGen + 1 ∧
      pr.requested = false) := by
  unfold Pair.decrypt at h
  split at h
  · split at h
    · rename_i hg
      simp only [Option.some.injEq, Prod.mk.injEq] at h
      obtain ⟨rfl, rfl⟩ := h
      refine Or.inr ⟨rfl, hg.symm, rfl, ?_, rfl⟩
      simp only [Pair.updateKey, Bool.false_eq_true, if_false]
      split <;> omega
    · cases h
  · split at h
    · rename_i hg
      simp only [Option.some.injEq, Prod.mk.injEq] at h
      exact Or.inl ⟨h.2.symm, h.1.symm, hg.symm⟩
    · cases h

theorem omax_ge (o : Option Nat) (n : Nat) : n ≤ omax o n ∧ (∀ m, o = some m → m ≤ omax o n) ∧
    (omax o n = n ∨ o = some (omax o n)) := by
  cases o with
  | none => simp [omax]
  | some m =>
    simp only [omax, Option.some.injEq]
    refine ⟨by omega, fun k hk => by omega, ?_⟩
    by_cases h : m ≤ n
    · left; omega
    · right; congr 1; omega

/-- a packet of `X` is accepted by `Y`: the direction X → Y -/
theorem D_deliver_fwd {X Y : End} {w : List Pkt} {x : Bool} (h : D X Y w x) (hrev : D Y X w (!x))
    {p : Pkt} (hp : p ∈ w) (hf : p.fromA = x) {pr : Pair} {upd : Bool}
    (hd : Y.pair.decrypt false p.gen p.bit = some (pr, upd)) : D X (Y.afterRecv pr upd p) w x := by
  have h3 := h.i3 p hp hf
  rw [h3.2.1] at hd
  have hc := decrypt_cases hrev.i7 hd
  have h1 := h.i1
  obtain ⟨o1, o2, o3⟩ := omax_ge Y.largestRecv p.pn
  have hr' : (Y.afterRecv pr upd p).pair.recvGen = pr.recvGen := rfl
  have hl' : (Y.afterRecv pr upd p).largestRecv = some (omax Y.largestRecv p.pn) := rfl
  have hrg : pr.recvGen = p.gen := by rcases hc with ⟨-, rfl, e⟩ | ⟨-, e, e2, -⟩ <;> omega
  have hmono : Y.pair.recvGen ≤ pr.recvGen := by rcases hc with ⟨-, rfl, e⟩ | ⟨-, e, e2, -⟩ <;> omega
  refine ⟨by rw [hr']; omega, ?_, h.i3, ?_, ?_, ?_, h.i6, h.i6n, h.i7, h.i8, h.i9, h.i2b⟩
  · intro hq; rw [hr']; have := h.i2 hq; omega
  · intro n hn
    rw [hl'] at hn; injection hn with hn; subst hn
    rw [hr']
    rcases o3 with e | e
    · rw [e]; exact ⟨h3.2.2.1, fun hk => by have := h3.2.2.2 hk; omega⟩
    · have := h.i4 _ e
      exact ⟨this.1, fun hk => by have := this.2 hk; omega⟩
  · rcases h.i5 with h5 | ⟨n, hn, hle⟩
    · exact Or.inl h5
    · exact Or.inr ⟨_, hl', by have := o2 n hn; omega⟩
  · intro p' hp' hf' m hm
    obtain ⟨⟨n, hn, hle⟩, h2⟩ := h.i5w p' hp' hf' m hm
    exact ⟨⟨_, hl', by have := o2 n hn; omega⟩, h2⟩

/-- … and the reverse direction, in which `Y` is the sender -/
theorem D_deliver_bwd {X Y : End} {w : List Pkt} {x : Bool} (h : D X Y w x) (hrev : D Y X w (!x))
    {p : Pkt} (hp : p ∈ w) (hf : p.fromA = x) {pr : Pair} {upd : Bool}
    (hd : Y.pair.decrypt false p.gen p.bit = some (pr, upd)) : D (Y.afterRecv pr upd p) X w (!x) := by
  have h3 := h.i3 p hp hf
  rw [h3.2.1] at hd
  have hc := decrypt_cases hrev.i7 hd
  have hxx : p.fromA = (!(!x)) := by rw [hf]; cases x <;> rfl
  have hack : ∀ m, p.ack = some m → (∃ n, X.largestRecv = some n ∧ m ≤ n) ∧ (kp Y ≤ m → Y.pair.sendGen ≤ p.gen) :=
    fun m hm => hrev.i5w p hp hxx m hm
  have hla : (Y.afterRecv pr upd p).largestAcked = Y.largestAcked ∨
      ∃ m, p.ack = some m ∧ (Y.afterRecv pr upd p).largestAcked = max Y.largestAcked m := by
    unfold End.afterRecv
    cases hm : p.ack with
    | none => exact Or.inl rfl
    | some m => exact Or.inr ⟨m, rfl, rfl⟩
  have hpn : (Y.afterRecv pr upd p).packetNumber = Y.packetNumber := rfl
  rcases hc with ⟨rfl, rfl, hg⟩ | ⟨rfl, hg, e1, e2, e3⟩
  · -- accepted with the current keys: the pair and `_key_update_pn` are unchanged
    have hk : kp (Y.afterRecv Y.pair false p) = kp Y := rfl
    refine ⟨hrev.i1, hrev.i2, ?_, ?_, ?_, ?_, hrev.i6, hrev.i6n, hrev.i7, hrev.i8, ?_, hrev.i2b⟩
    · intro q hq hfq; rw [hk]; exact hrev.i3 q hq hfq
    · intro n hn; rw [hk]; exact hrev.i4 n hn
    · rcases hla with e | ⟨m, hm, e⟩
      · rw [e]; exact hrev.i5
      · rw [e]
        obtain ⟨⟨n, hn, hle⟩, -⟩ := hack m hm
        rcases hrev.i5 with h5 | ⟨n', hn', hle'⟩
        · exact Or.inr ⟨n, hn, by omega⟩
        · rw [hn] at hn'; injection hn' with hn'; subst hn'
          exact Or.inr ⟨n, hn, by omega⟩
    · intro q hq hfq m hm; rw [hk]; exact hrev.i5w q hq hfq m hm
    · rw [hk]
      intro hle
      show Y.pair.recvGen = Y.pair.sendGen
      rcases hla with e | ⟨m, hm, e⟩
      · rw [e] at hle; exact hrev.i9 hle
      · rw [e] at hle
        by_cases hold : kp Y ≤ Y.largestAcked
        · exact hrev.i9 hold
        · have := (hack m hm).2 (by omega)
          have := hrev.i7
          omega
  · -- accepted with the next keys: remote update
    have hk : kp (Y.afterRecv pr true p) = Y.packetNumber := rfl
    have hs : (Y.afterRecv pr true p).pair = pr := rfl
    have h7 := h.i7
    have h1 := h.i1
    have hge : Y.pair.sendGen ≤ pr.sendGen := by have := hrev.i7; omega
    have hsx : pr.sendGen = X.pair.sendGen := by omega
    refine ⟨by rw [hs]; omega, (by rw [hs, e3]; intro hq; cases hq), ?_, ?_, ?_, ?_, ?_, (by intro hq; cases hq),
      (by rw [hs]; omega), hrev.i8, (by rw [hs]; intro _; omega), (by rw [hs, e3]; intro hq; cases hq)⟩
    · intro q hq hfq
      have := hrev.i3 q hq hfq
      rw [hk, hs, hpn]
      exact ⟨by omega, this.2.1, this.2.2.1, fun hc => by omega⟩
    · intro n hn
      have := hrev.i4 n hn
      rw [hk, hs, hpn]
      exact ⟨this.1, fun hc => by omega⟩
    · rcases hla with e | ⟨m, hm, e⟩
      · rw [e]; exact hrev.i5
      · rw [e]
        obtain ⟨⟨n, hn, hle⟩, -⟩ := hack m hm
        rcases hrev.i5 with h5 | ⟨n', hn', hle'⟩
        · exact Or.inr ⟨n, hn, by omega⟩
        · rw [hn] at hn'; injection hn' with hn'; subst hn'
          exact Or.inr ⟨n, hn, by omega⟩
    · intro q hq hfq m hm
      obtain ⟨⟨n, hn, hle⟩, -⟩ := hrev.i5w q hq hfq m hm
      refine ⟨⟨n, hn, hle⟩, ?_⟩
      rw [hk]; intro hc
      have := (hrev.i4 n hn).1
      omega
    · intro u hu
      have : u = Y.packetNumber := by
        have : (Y.afterRecv pr true p).keyUpdatePn = some Y.packetNumber := rfl
        rw [this] at hu; injection hu with hu; exact hu.symm
      have := hrev.i8
      rw [hpn]; omega

/-! ## Both directions, every step -/

structure Inv (s : Sys) : Prop where
  q1 : s.quirkLocalRecv = false
  q2 : s.quirkNoGuard = false
  ab : D s.a s.b s.wire true
  ba : D s.b s.a s.wire false

def init (pa pb : Nat) : Sys := { a := { packetNumber := pa }, b := { packetNumber := pb } }

theorem D_init (X Y : End) (x : Bool) (hX : X = { packetNumber := X.packetNumber }) (hY : Y = { packetNumber := Y.packetNumber })
    (h1 : 1 ≤ X.packetNumber) : D X Y [] x := by
  rw [hX, hY]
  refine ⟨by simp, by simp, by simp, by simp, Or.inl rfl, by simp, by simp, by simp, by simp, h1, by simp, by simp⟩

theorem inv_init (pa pb : Nat) (ha : 1 ≤ pa) (hb : 1 ≤ pb) : Inv (init pa pb) :=
  ⟨rfl, rfl, D_init _ _ _ rfl rfl ha, D_init _ _ _ rfl rfl hb⟩

theorem step_request (s : Sys) (x : Bool) :
    (step s (.request x)).1 = s ∨
    ((∀ u, (s.get x).keyUpdatePn = some u → ¬ (s.get x).largestAcked < u) ∨ s.quirkNoGuard = true) ∧
      (step s (.request x)).1 = s.set x { s.get x with pair := { (s.get x).pair with requested := true } } := by
  cases hk : (s.get x).keyUpdatePn with
  | none =>
    right
    refine ⟨Or.inl (fun u hu => by cases hu), ?_⟩
    simp [step, hk]
  | some u =>
    by_cases hlt : (s.get x).largestAcked < u
    · cases hq : s.quirkNoGuard with
      | false => left; simp [step, hk, hlt, hq]
      | true => right; exact ⟨Or.inr rfl, by simp [step, hk, hlt, hq]⟩
    · right
      refine ⟨Or.inl (fun u' hu' => by injection hu' with e; subst e; exact hlt), ?_⟩
      simp [step, hk, hlt]

theorem step_send (s : Sys) (h : s.quirkLocalRecv = false) (x a : Bool) :
    (step s (.send x a)).1 = { s.set x (s.get x).afterSend with wire := s.wire ++ [(s.get x).pkt x a] } := by
  simp only [step, h, End.afterSend, End.pkt]

theorem step_deliver (s : Sys) (h : s.quirkLocalRecv = false) (i : Nat) :
    (step s (.deliver i)).1 = s ∨
    ∃ p pr upd, p ∈ s.wire ∧ (s.get (!p.fromA)).pair.decrypt false p.gen p.bit = some (pr, upd) ∧
      (step s (.deliver i)).1 = s.set (!p.fromA) ((s.get (!p.fromA)).afterRecv pr upd p) := by
  simp only [step, h]
  cases hw : s.wire[i]? with
  | none => exact Or.inl rfl
  | some p =>
    simp only []
    cases hd : (s.get (!p.fromA)).pair.decrypt false p.gen p.bit with
    | none => exact Or.inl rfl
    | some r =>
      obtain ⟨pr, upd⟩ := r
      exact Or.inr ⟨p, pr, upd, List.mem_of_getElem? hw, hd, rfl⟩

theorem inv_step {s : Sys} (h : Inv s) (op : Op) : Inv (step s op).1 := by
  cases op with
  | request x =>
    rcases step_request s x with e | ⟨hg, e⟩
    · rw [e]; exact h
    · rw [e]
      have hg' : ∀ u, (s.get x).keyUpdatePn = some u → ¬ (s.get x).largestAcked < u := by
        rcases hg with hg | hq
        · exact hg
        · rw [h.q2] at hq; cases hq
      cases x with
      | true => exact ⟨h.q1, h.q2, D_request_sender h.ab hg', D_request_receiver h.ba true⟩
      | false => exact ⟨h.q1, h.q2, D_request_receiver h.ab true, D_request_sender h.ba hg'⟩
  | send x a =>
    rw [step_send s h.q1]
    cases x with
    | true => exact ⟨h.q1, h.q2, D_send_sender h.ab a, D_send_receiver h.ba h.ab a⟩
    | false => exact ⟨h.q1, h.q2, D_send_receiver h.ab h.ba a, D_send_sender h.ba a⟩
  | deliver i =>
    rcases step_deliver s h.q1 i with e | ⟨p, pr, upd, hp, hd, e⟩
    · rw [e]; exact h
    · rw [e]
      cases hf : p.fromA with
      | true =>
        rw [hf] at hd
        exact ⟨h.q1, h.q2, D_deliver_fwd h.ab h.ba hp hf hd, D_deliver_bwd h.ab h.ba hp hf hd⟩
      | false =>
        rw [hf] at hd
        exact ⟨h.q1, h.q2, D_deliver_bwd h.ba h.ab hp hf hd, D_deliver_fwd h.ba h.ab hp hf hd⟩

theorem inv_run {s : Sys} (h : Inv s) (ops : List Op) : Inv (run s ops) := by
  induction ops generalizing s with
  | nil => exact h
  | cons op rest ih => exact ih (inv_step h op)

/-- a packet of generation `g` is accepted by a pair at receive generation `r` iff g ∈ {r, r+1} -/
theorem decrypt_isSome (P : Pair) (g : Nat) :
    (P.decrypt false g (g % 2)).isSome = true ↔ (g = P.recvGen ∨ g = P.recvGen + 1) := by
  unfold Pair.decrypt
  split
  · rename_i hb
    split
    · rename_i hg; simp; omega
    · rename_i hg; simp; omega
  · rename_i hb
    split
    · rename_i hg; simp; omega
    · rename_i hg; simp; omega

end AQ.KeyUpdate
