import AQ.Model.TlsNegotiate
namespace AQ.TlsNeg

theorem find_spec (p : Nat → Bool) (l : List Nat) (c : Nat) :
    l.find? p = some c ↔ ∃ pre post, l = pre ++ c :: post ∧ p c = true ∧ ∀ x ∈ pre, p x = false := by
  induction l with
  | nil => simp
  | cons a rest ih =>
    by_cases ha : p a = true
    · simp only [List.find?_cons, ha, Option.some.injEq]
      constructor
      · intro h; subst h; exact ⟨[], rest, rfl, ha, by simp⟩
      · rintro ⟨pre, post, h1, h2, h3⟩
        cases pre with
        | nil => simp at h1; exact h1.1
        | cons b pre' =>
          simp at h1
          have := h3 b (by simp)
          rw [← h1.1] at this; rw [ha] at this; cases this
    · have ha' : p a = false := by simpa using ha
      simp only [List.find?_cons, ha']
      rw [ih]
      constructor
      · rintro ⟨pre, post, h1, h2, h3⟩
        refine ⟨a :: pre, post, by simp [h1], h2, ?_⟩
        intro x hx
        simp at hx
        rcases hx with hx | hx
        · rw [hx]; exact ha'
        · exact h3 x hx
      · rintro ⟨pre, post, h1, h2, h3⟩
        cases pre with
        | nil => simp at h1; rw [← h1.1] at h2; rw [ha'] at h2; cases h2
        | cons b pre' =>
          simp at h1
          exact ⟨pre', post, h1.2, h2, fun x hx => h3 x (by simp [hx])⟩

theorem find_none (p : Nat → Bool) (l : List Nat) : l.find? p = none ↔ ∀ x ∈ l, p x = false := by
  simp [List.find?_eq_none]

end AQ.TlsNeg
