/-
  Helper lemmas for C05 (AQ.Props.C05): the dispatch loop converts every
  handled handler outcome into `QuicConnectionError`.
-/
import AQ.Model.RecvPath

namespace AQ.Recv
open AQ AQ.Gen.Recv

/-- the outcome classes `_payload_received` deals with -/
def handledErr : Err → Bool
  | .bufferRead => true
  | .streamFinished => true
  | .conn _ => true
  | _ => false

theorem catch_pullType :
    catchAction "_payload_received" "pull_uint_var" .bufferRead = some (.raiseConn 7) := by decide

theorem catch_lookup :
    catchAction "_payload_received" "[frame_handlers]" (.py .key) = some (.raiseConn 7) := by decide

theorem catch_handler_bufferRead :
    catchAction "_payload_received" "frame_handler" .bufferRead = some (.raiseConn 7) := by decide

theorem catch_handler_streamFinished :
    catchAction "_payload_received" "frame_handler" .streamFinished = some .pass := by decide

theorem catch_handler_conn (c : Nat) :
    catchAction "_payload_received" "frame_handler" (.conn c) = none := by
  show catchCls "_payload_received" "frame_handler" "QuicConnectionError" = none
  decide

theorem catch_payload_conn (c : Nat) :
    catchAction "receive_datagram" "_payload_received" (.conn c) = some .close := by
  show catchCls "receive_datagram" "_payload_received" "QuicConnectionError" = some .close
  decide

/-- the dispatch loop, relative to an invariant `P` of the threaded state:
    if the type pull can only fail with `BufferReadError` and every handler outcome is
    handled, the loop result is ok or a `QuicConnectionError`; `P` is kept -/
theorem payloadLoop_total {σ : Type} (H : Handlers σ) (ep : Epoch) (P : σ → Prop)
    (hPpull : ∀ s, P s → P (H.pullType s).2)
    (hPrun : ∀ n eps t s, handlerTable.lookup t = some (n, eps) → P s → P (H.run n t ep s).2)
    (hpull : ∀ s e, P s → (H.pullType s).1 = .error e → e = .bufferRead)
    (hrun : ∀ n eps t s e, handlerTable.lookup t = some (n, eps) → P s →
      (H.run n t ep s).1 = .error e → handledErr e = true) :
    ∀ fuel s fl, P s → P (payloadLoop H ep fuel s fl).2 ∧
      ∀ e, (payloadLoop H ep fuel s fl).1 = .error e → ∃ c, e = .conn c := by
  intro fuel
  induction fuel with
  | zero => intro s fl hP; simp [payloadLoop, hP]
  | succ n ih =>
    intro s fl hP
    unfold payloadLoop
    split
    · simp [hP]
    · split
      · rename_i e0 s1 heq
        have h0 := hpull s e0 hP (by rw [heq])
        have hP1 : P s1 := by have := hPpull s hP; rw [heq] at this; exact this
        subst h0
        rw [catch_pullType]
        exact ⟨hP1, fun e h => ⟨_, by simp at h; exact h.symm⟩⟩
      · rename_i ftype s1 heq
        have hP1 : P s1 := by have := hPpull s hP; rw [heq] at this; exact this
        split
        · rw [catch_lookup]
          exact ⟨hP1, fun e h => ⟨_, by simp at h; exact h.symm⟩⟩
        · split
          · exact ⟨hP1, fun e h => ⟨_, by simp at h; exact h.symm⟩⟩
          · split
            rename_i name epochs hlk _ _ r s2 hreq
            have hP2 : P s2 := by have := hPrun name epochs ftype s1 hlk hP1; rw [hreq] at this; exact this
            simp only
            split
            · exact ih _ _ hP2
            · rename_i e1
              have hh := hrun name epochs ftype s1 e1 hlk hP1 (by rw [hreq])
              cases e1 <;> simp [handledErr] at hh
              · rw [catch_handler_bufferRead]
                exact ⟨hP2, fun e h => ⟨_, by simp at h; exact h.symm⟩⟩
              · rw [catch_handler_streamFinished]; exact ih _ _ hP2
              · rw [catch_handler_conn]
                exact ⟨hP2, fun e h => ⟨_, by simp at h; exact h.symm⟩⟩

theorem payloadReceived_total {σ : Type} (H : Handlers σ) (ep : Epoch) (P : σ → Prop)
    (hPpull : ∀ s, P s → P (H.pullType s).2)
    (hPrun : ∀ n eps t s, handlerTable.lookup t = some (n, eps) → P s → P (H.run n t ep s).2)
    (hpull : ∀ s e, P s → (H.pullType s).1 = .error e → e = .bufferRead)
    (hrun : ∀ n eps t s e, handlerTable.lookup t = some (n, eps) → P s →
      (H.run n t ep s).1 = .error e → handledErr e = true)
    (cr : Bool) (fuel : Nat) (s : σ) (hP : P s) :
    P (payloadReceived H ep cr fuel s).2 ∧
      ∀ e, (payloadReceived H ep cr fuel s).1 = .error e → ∃ c, e = .conn c := by
  have hl := payloadLoop_total H ep P hPpull hPrun hpull hrun fuel s {} hP
  unfold payloadReceived
  split
  · rename_i e0 s' heq
    rw [heq] at hl
    exact ⟨hl.1, fun e h => by simp at h; subst h; exact hl.2 e0 rfl⟩
  · rename_i fl s' heq
    rw [heq] at hl
    split
    · exact ⟨hl.1, fun e h => ⟨_, by simp at h; exact h.symm⟩⟩
    · split
      · exact ⟨hl.1, fun e h => ⟨_, by simp at h; exact h.symm⟩⟩
      · exact ⟨hl.1, fun e h => by simp at h⟩

end AQ.Recv

namespace AQ.Recv
open AQ AQ.Gen.Recv

/-! ## Connection-level invariant -/

/-- facts about a `QuicConnection` that the totality of the public calls rests on -/
def ConnInv (s : St) : Prop :=
  -- a decision to close is either pending or already executed
  (s.closeEvent.isSome → s.state.isEnd = true ∨ s.closePending = true) ∧
  -- precondition of the API: a client object exists on the network only after connect()
  (s.isClient = true → s.initialized = true) ∧
  (s.state = .connected ∨ s.state = .closing ∨ s.state = .draining → s.initialized = true) ∧
  (s.initialized = true → 0 < s.nPaths) ∧
  (s.initialized = true → s.state.isEnd = false → s.closeAtSet = true) ∧
  (0 < s.nPaths → s.initialized = true)

theorem catch_hdr_bufferRead :
    catchAction "receive_datagram" "pull_quic_header" .bufferRead = some .ret := by decide
theorem catch_hdr_value :
    catchAction "receive_datagram" "pull_quic_header" (.py .value) = some .ret := by decide
theorem catch_dec_key :
    catchCls "receive_datagram" "decrypt_packet" "KeyUnavailableError" = some .cont := by decide
theorem catch_dec_crypto :
    catchCls "receive_datagram" "decrypt_packet" "CryptoError" = some .cont := by decide

/-- what `receive_datagram` needs of the payload processor -/
def PayloadOk {π : Type} (runPayload : St → Epoch → Bool → π → St × Outcome (Bool × Bool)) : Prop :=
  ∀ s ep cr p, ConnInv s → s.initialized = true → s.state = .connected →
    ConnInv (runPayload s ep cr p).1 ∧ (runPayload s ep cr p).1.initialized = true ∧
    (runPayload s ep cr p).1.closeAtSet = true ∧
    ((runPayload s ep cr p).1.state = .connected ∨ (runPayload s ep cr p).1.state.isEnd = true) ∧
    ∀ e, (runPayload s ep cr p).2 = .error e → ∃ c, e = .conn c

theorem inv_close (s : St) (c : Nat) (h : ConnInv s) : ConnInv (s.close c) := by
  unfold St.close
  split
  · obtain ⟨h1, h2, h3, h4, h5⟩ := h
    refine ⟨?_, ?_, ?_, ?_, ?_⟩ <;> simp_all
  · exact h

theorem close_decided (s : St) (c : Nat) (h : ConnInv s) :
    (s.close c).state.isEnd = true ∨ (s.close c).closePending = true := by
  unfold St.close
  split
  · simp
  · rename_i hn
    obtain ⟨h1, _⟩ := h
    by_cases hc : s.closeEvent.isNone
    · simp [hc] at hn; left; simpa using hn
    · have : s.closeEvent.isSome := by
        cases hce : s.closeEvent <;> simp_all
      exact h1 this

def HdrOk {π : Type} (p : Pkt π) : Prop :=
  (∀ e, p.hdr = .error e → e = .bufferRead ∨ e = .py .value) ∧ (∀ e, p.dec ≠ .other e)

/-- what holds after one loop iteration -/
def StepOk : Step → Prop
  | .stop s _ esc => ConnInv s ∧ esc = none
  | .next s _ => ConnInv s ∧ s.state.isEnd = false ∧ s.closeAtSet = true

theorem inv_connectIfFirst (s : St) (hi : ConnInv s) (hne : s.state.isEnd = false) (hin : s.initialized = true) :
    ConnInv s.connectIfFirst ∧ s.connectIfFirst.initialized = true ∧ s.connectIfFirst.state = .connected := by
  unfold St.connectIfFirst
  obtain ⟨h1, h2, h3, h4, h5⟩ := hi
  split
  · refine ⟨⟨?_, ?_, ?_, ?_, ?_⟩, ?_, ?_⟩ <;> simp_all [CState.isEnd]
  · refine ⟨⟨h1, h2, h3, h4, h5⟩, hin, ?_⟩
    cases hst : s.state <;> simp_all [CState.isEnd]

theorem inv_recordPacket (s : St) (hi : ConnInv s) (hne : s.state.isEnd = false)
    (hin : s.initialized = true) :
    StepOk (.next s.recordPacket true) := by
  unfold St.recordPacket StepOk
  obtain ⟨h1, h2, h3, h4, h5⟩ := hi
  simp only
  split
  · refine ⟨⟨?_, ?_, ?_, ?_, ?_⟩, ?_, ?_⟩ <;> simp_all
  · refine ⟨⟨?_, ?_, ?_, ?_, ?_⟩, ?_, ?_⟩ <;> simp_all

/-- the migration block's call returns normally: `change_connection_id()` raises nothing —
    neither with nor without a spare peer connection ID (`changeCidRaises = []`) -/
theorem changeConnectionId_total (s : St) :
    changeConnectionId s = .ok s ∨
    changeConnectionId s = .ok { s with peerCidAvailable := s.peerCidAvailable - 1 } := by
  have hnone : ∀ p : String × String → Bool, changeCidRaises.find? p = none := by
    intro p; simp [changeCidRaises]
  unfold changeConnectionId
  simp only [hnone]
  split
  · exact Or.inl rfl
  · exact Or.inr rfl

theorem finishPacket_ok (s : St) (m : Bool) (hi : ConnInv s) (hne : s.state.isEnd = false)
    (hin : s.initialized = true) : StepOk (finishPacket s m) := by
  have hi0 : ConnInv { s with closeAtSet := true } := by
    obtain ⟨h1, h2, h3, h4, h5, h6⟩ := hi
    refine ⟨?_, ?_, ?_, ?_, ?_, ?_⟩ <;> simp_all
  unfold finishPacket migrationStep
  simp only
  split
  · rename_i cls heq
    exfalso
    split at heq
    · rcases changeConnectionId_total { s with closeAtSet := true } with h | h <;> rw [h] at heq <;> cases heq
    · cases heq
  · rename_i s' heq
    have hs' : ConnInv s' ∧ s'.state.isEnd = false ∧ s'.initialized = true := by
      split at heq
      · rcases changeConnectionId_total { s with closeAtSet := true } with h | h <;> rw [h] at heq <;>
          (cases heq; exact ⟨by
            obtain ⟨h1, h2, h3, h4, h5, h6⟩ := hi0
            exact ⟨h1, h2, h3, h4, h5, h6⟩, hne, hin⟩)
      · cases heq; exact ⟨hi0, hne, hin⟩
    exact inv_recordPacket s' hs'.1 hs'.2.1 hs'.2.2

theorem afterPayload_ok (s : St) (r : Outcome (Bool × Bool)) (ix dc mg : Bool) (hi : ConnInv s)
    (hin : s.initialized = true)
    (herr : ∀ e, r = .error e → ∃ c, e = .conn c) : StepOk (afterPayload s r ix dc mg) := by
  unfold afterPayload
  split
  · rename_i e
    obtain ⟨c, rfl⟩ := herr e rfl
    rw [catch_payload_conn]
    simp only
    rw [if_pos (close_decided s c hi)]
    exact ⟨inv_close _ _ hi, rfl⟩
  · split
    · exact ⟨hi, rfl⟩
    · rename_i hnd
      apply finishPacket_ok _ _ hi _ hin
      cases h : s.state.isEnd <;> simp_all

theorem afterDecrypt_ok {π : Type} (runPayload : St → Epoch → Bool → π → St × Outcome (Bool × Bool))
    (hp : PayloadOk runPayload) (s : St) (ep : Epoch) (cr pr dup res : Bool) (pl : π) (ix dc mg : Bool)
    (hi : ConnInv s) (hne : s.state.isEnd = false) (hca : s.closeAtSet = true) (hin : s.initialized = true) :
    StepOk (afterDecrypt runPayload s ep cr pr dup res pl ix dc mg) := by
  unfold afterDecrypt
  split
  · exact ⟨hi, hne, hca⟩
  split
  · exact ⟨inv_close _ _ hi, rfl⟩
  obtain ⟨hi2, hin2, hst2⟩ := inv_connectIfFirst s hi hne hin
  obtain ⟨hi3, hin3, _, _, herr⟩ := hp _ ep cr pl hi2 hin2 hst2
  exact afterPayload_ok _ _ ix dc mg hi3 hin3 herr

theorem recvPacket_ok {π : Type} (runPayload : St → Epoch → Bool → π → St × Outcome (Bool × Bool))
    (hp : PayloadOk runPayload) (small : Bool) (p : Pkt π) (s : St) (pr : Bool) (hok : HdrOk p)
    (hi : ConnInv s) (hne : s.state.isEnd = false) (hca : s.closeAtSet = true) :
    StepOk (recvPacket runPayload small p s pr) := by
  obtain ⟨hh, hd⟩ := hok
  unfold recvPacket
  split
  · rename_i e heq
    rcases hh e heq with rfl | rfl
    · rw [catch_hdr_bufferRead]; exact ⟨hi, rfl⟩
    · rw [catch_hdr_value]; exact ⟨hi, rfl⟩
  · rename_i h heq
    split
    · exact ⟨hi, rfl⟩
    split
    · exact ⟨hi, rfl⟩
    split
    · split
      · split
        · exact ⟨hi, rfl⟩
        · split
          · refine ⟨?_, rfl⟩
            obtain ⟨h1, h2, h3, h4, h5⟩ := hi
            simp [St.closeEnd, ConnInv, CState.isEnd]
            simp_all
          · refine ⟨?_, rfl⟩
            obtain ⟨h1, h2, h3, h4, h5⟩ := hi
            simp [St.reconnect, ConnInv]
            simp_all
      · exact ⟨hi, rfl⟩
    split
    · exact ⟨hi, rfl⟩
    split
    · split
      · refine ⟨?_, rfl⟩
        obtain ⟨h1, h2, h3, h4, h5⟩ := hi
        simp [St.reconnect, ConnInv]
        simp_all
      · exact ⟨hi, rfl⟩
    split
    · exact ⟨hi, rfl⟩
    -- server initialisation
    rename_i hfirst
    simp only
    generalize hcr : (decide (¬ s.isClient = true ∧ s.state = CState.firstflight)) = cr
    have hs1 : ConnInv (if cr = true then { s with nPaths := 1, initialized := true } else s) ∧
        (if cr = true then { s with nPaths := 1, initialized := true } else s).state.isEnd = false ∧
        (if cr = true then { s with nPaths := 1, initialized := true } else s).closeAtSet = true ∧
        (if cr = true then { s with nPaths := 1, initialized := true } else s).initialized = true := by
      obtain ⟨h1, h2, h3, h4, h5⟩ := hi
      split
      · refine ⟨⟨?_, ?_, ?_, ?_, ?_⟩, ?_, ?_, ?_⟩ <;> simp_all
      · rename_i hcrf
        refine ⟨⟨h1, h2, h3, h4, h5⟩, hne, hca, ?_⟩
        subst hcr
        simp at hcrf
        by_cases hc : s.isClient = true
        · exact h2 hc
        · have : s.state ≠ .firstflight := by simpa [hc] using hcrf
          apply h3
          cases hst : s.state <;> simp_all [CState.isEnd]
    generalize (if cr = true then { s with nPaths := 1, initialized := true } else s) = s1 at hs1 ⊢
    obtain ⟨hi1, hne1, hca1, hin1⟩ := hs1
    rw [if_neg (by simp [hin1])]
    split
    · rw [catch_dec_key]; exact ⟨hi1, hne1, hca1⟩
    · rw [catch_dec_crypto]; exact ⟨hi1, hne1, hca1⟩
    · rename_i e hde; exact absurd hde (hd e)
    · exact afterDecrypt_ok runPayload hp s1 _ cr pr _ _ _ _ _ _ hi1 hne1 hca1 hin1

theorem recvLoop_ok {π : Type} (runPayload : St → Epoch → Bool → π → St × Outcome (Bool × Bool))
    (hp : PayloadOk runPayload) (small : Bool) :
    ∀ (pkts : List (Pkt π)) (s : St) (pr : Bool), (∀ p ∈ pkts, HdrOk p) →
      ConnInv s → s.state.isEnd = false → s.closeAtSet = true →
      ConnInv (recvLoop runPayload small pkts s pr).1 ∧ (recvLoop runPayload small pkts s pr).2.2 = none := by
  intro pkts
  induction pkts with
  | nil => intro s pr _ hi _ _; simp [recvLoop, hi]
  | cons p rest ih =>
    intro s pr hok hi hne hca
    have hstep := recvPacket_ok runPayload hp small p s pr (hok p (by simp)) hi hne hca
    unfold recvLoop
    split
    · rename_i s' pr' esc heq
      rw [heq] at hstep
      exact hstep
    · rename_i s' pr' heq
      rw [heq] at hstep
      obtain ⟨a, b, c⟩ := hstep
      exact ih s' pr' (fun q hq => hok q (by simp [hq])) a b c

/-! ## `receive_datagram` as a whole -/

theorem receiveDatagram_ok {π : Type} (runPayload : St → Epoch → Bool → π → St × Outcome (Bool × Bool))
    (hp : PayloadOk runPayload) (small : Bool) (pkts : List (Pkt π)) (s : St)
    (hok : ∀ p ∈ pkts, HdrOk p) (hi : ConnInv s) :
    ConnInv (receiveDatagram runPayload small pkts s).1 ∧
      ∀ cls, (receiveDatagram runPayload small pkts s).2 ≠ .raised cls := by
  unfold receiveDatagram
  split
  · exact ⟨hi, by simp⟩
  · rename_i hne
    have hne' : s.state.isEnd = false := by cases h : s.state.isEnd <;> simp_all
    have hi0 : ConnInv { s with closeAtSet := true } := by
      obtain ⟨h1, h2, h3, h4, h5⟩ := hi
      refine ⟨?_, ?_, ?_, ?_, ?_⟩ <;> simp_all
    have hl := recvLoop_ok runPayload hp small pkts { s with closeAtSet := true } false hok hi0 hne' rfl
    obtain ⟨hi1, hesc⟩ := hl
    refine ⟨hi1, ?_⟩
    intro cls
    simp only [classify, hesc]
    split <;> simp
    split <;> simp

/-! ## the frames-as-a-list payload -/

/-- the assumption of `recv_total` on one frame: the type pull fails only with
    `BufferReadError`, the handler produces ok / BufferReadError / StreamFinishedError /
    QuicConnectionError -/
def FrameOk (f : FrameIn) : Prop :=
  (∀ e, f.ftype = .error e → e = .bufferRead) ∧ (∀ e, f.handler = .error e → handledErr e = true)

def ListP (x : St × List FrameIn) : Prop :=
  ConnInv x.1 ∧ x.1.initialized = true ∧ x.1.closeAtSet = true ∧
    (x.1.state = .connected ∨ x.1.state.isEnd = true) ∧ ∀ f ∈ x.2, FrameOk f

theorem effect_ok (f : FrameIn) (s : St) (hi : ConnInv s) (hin : s.initialized = true) (hca : s.closeAtSet = true)
    (hst : s.state = .connected ∨ s.state.isEnd = true) :
    ConnInv (f.effect s) ∧ (f.effect s).initialized = true ∧ (f.effect s).closeAtSet = true ∧
      ((f.effect s).state = .connected ∨ (f.effect s).state.isEnd = true) := by
  unfold FrameIn.effect
  split
  · split
    · obtain ⟨h1, h2, h3, h4, h5⟩ := hi
      refine ⟨⟨?_, ?_, ?_, ?_, ?_⟩, ?_, ?_, ?_⟩ <;> simp_all [St.closeBegin, CState.isEnd]
    · exact ⟨hi, hin, hca, hst⟩
  · exact ⟨hi, hin, hca, hst⟩

theorem runFrames_ok (s : St) (ep : Epoch) (cr : Bool) (fs : List FrameIn) (hfs : ∀ f ∈ fs, FrameOk f)
    (hi : ConnInv s) (hin : s.initialized = true) (hst : s.state = .connected) :
    ConnInv (runFrames s ep cr fs).1 ∧ (runFrames s ep cr fs).1.initialized = true ∧
    (runFrames s ep cr fs).1.closeAtSet = true ∧
    ((runFrames s ep cr fs).1.state = .connected ∨ (runFrames s ep cr fs).1.state.isEnd = true) ∧
    ∀ e, (runFrames s ep cr fs).2 = .error e → ∃ c, e = .conn c := by
  have hca : s.closeAtSet = true := hi.2.2.2.2.1 hin (by simp [hst, CState.isEnd])
  have hP : ListP (s, fs) := ⟨hi, hin, hca, Or.inl hst, hfs⟩
  have := payloadReceived_total listHandlers ep ListP
    (by
      intro x hx
      unfold listHandlers
      simp only
      split <;> exact hx)
    (by
      intro n eps t x _ hx
      obtain ⟨a, b, c, d, e⟩ := hx
      unfold listHandlers
      simp only
      split
      · exact ⟨a, b, c, d, e⟩
      · rename_i f rest heq
        have := effect_ok f x.1 a b c d
        exact ⟨this.1, this.2.1, this.2.2.1, this.2.2.2, fun g hg => e g (by rw [heq]; simp [hg])⟩)
    (by
      intro x e hx h
      unfold listHandlers at h
      simp only at h
      split at h
      · simp at h; exact h.symm
      · rename_i f rest heq
        exact (hx.2.2.2.2 f (by rw [heq]; simp)).1 e h)
    (by
      intro n eps t x e _ hx h
      unfold listHandlers at h
      simp only at h
      split at h
      · simp at h
      · rename_i f rest heq
        exact (hx.2.2.2.2 f (by rw [heq]; simp)).2 e h)
    cr (fs.length + 1) (s, fs) hP
  unfold runFrames
  obtain ⟨⟨a, b, c, d, _⟩, herr⟩ := this
  exact ⟨a, b, c, d, herr⟩


/-! ## The other public calls -/

theorem getTimer_ok (s : St) : ∃ b, getTimer s = .ok b ∧ (b = true → s.closeAtSet = true) :=
  ⟨_, rfl, fun h => h⟩

theorem handleTimer_ok (s : St) (due : Bool) (hi : ConnInv s) :
    ∃ s', handleTimer s due = .ok s' ∧ ConnInv s' := by
  unfold handleTimer
  obtain ⟨h1, h2, h3, h4, h5, h6⟩ := hi
  split
  · exact ⟨_, rfl, h1, h2, h3, h4, h5, h6⟩
  · split
    · refine ⟨_, rfl, ?_⟩
      split <;> (simp only [St.closeEnd]; refine ⟨?_, ?_, ?_, ?_, ?_, ?_⟩ <;> simp_all [CState.isEnd])
    · exact ⟨_, rfl, h1, h2, h3, h4, h5, h6⟩

theorem catch_close_stop :
    catchAction "datagrams_to_send" "_write_connection_close_frame" .builderStop = some .pass := by decide
theorem catch_handshake_stop :
    catchAction "datagrams_to_send" "_write_handshake" .builderStop = some .pass := by decide
theorem catch_application_stop :
    catchAction "datagrams_to_send" "_write_application" .builderStop = some .pass := by decide

/-- a writer that returns or raises `QuicPacketBuilderStop` -/
def WriterOk (o : Outcome Unit) : Prop := o = .ok () ∨ o = .error .builderStop

theorem guardWriter_none (g : String) (o : Outcome Unit) (ho : WriterOk o)
    (hc : catchAction "datagrams_to_send" g .builderStop = some .pass) : guardWriter g o = none := by
  rcases ho with h | h <;> subst h <;> simp [guardWriter, hc]

theorem guardBlock_none (g : String) (sp o : Outcome Unit) (hsp : WriterOk sp) (ho : WriterOk o)
    (hc : catchAction "datagrams_to_send" g .builderStop = some .pass) : guardBlock g sp o = none := by
  unfold guardBlock
  cases sp with
  | ok u => cases u; exact guardWriter_none g o ho hc
  | error e => exact guardWriter_none g _ hsp hc

theorem closeBlock_none (sp o : Outcome Unit) (hsp : WriterOk sp) (ho : WriterOk o) : closeBlock sp o = none := by
  have hg : closeStartPacketGuarded = true := by decide
  unfold closeBlock
  rw [if_pos hg]
  exact guardBlock_none _ sp o hsp ho catch_close_stop

theorem datagramsToSend_ok (s : St) (w : Writers) (hi : ConnInv s) (hw0 : WriterOk w.startPacket)
    (hw1 : WriterOk w.closeFrame) (hw2 : WriterOk w.handshake) (hw3 : WriterOk w.application) :
    ∃ s', datagramsToSend s w = .ok s' ∧ ConnInv s' := by
  unfold datagramsToSend
  obtain ⟨h1, h2, h3, h4, h5, h6⟩ := hi
  split
  · exact ⟨_, rfl, h1, h2, h3, h4, h5, h6⟩
  split
  · exact ⟨_, rfl, h1, h2, h3, h4, h5, h6⟩
  · rename_i hne hn
    have hnp : 0 < s.nPaths := by omega
    have hin : s.initialized = true := h6 hnp
    have hne' : s.state.isEnd = false := by cases h : s.state.isEnd <;> simp_all
    rw [closeBlock_none _ _ hw0 hw1, guardBlock_none _ _ _ hw0 hw2 catch_handshake_stop,
      guardBlock_none _ _ _ hw0 hw3 catch_application_stop]
    split
    · refine ⟨_, rfl, ?_⟩
      simp only [St.closeBegin]
      refine ⟨?_, ?_, ?_, ?_, ?_, ?_⟩ <;> simp_all [CState.isEnd]
    · exact ⟨_, rfl, h1, h2, h3, h4, h5, h6⟩

theorem catch_popleft : catchAction "next_event" "popleft" (.py .index) = some .ret := by decide

theorem nextEvent_ok (s : St) (hi : ConnInv s) : ∃ s', nextEvent s = .ok s' ∧ ConnInv s' := by
  unfold nextEvent
  split
  · rw [catch_popleft]; exact ⟨_, rfl, hi⟩
  · exact ⟨_, rfl, hi⟩

end AQ.Recv
