/-
  Chunk independence of the request / push stream parser (C14): helper lemmas.
-/
import AQ.Model.H3Parser
namespace AQ.H3
open AQ

/-! ## normal form of an event list, per stream -/

structure Norm where
  /-- header blocks (headers, then trailers) in order, with the push id -/
  headers : List (Headers × Option Nat)
  /-- concatenated body bytes -/
  body : Bytes
  pushes : List (Headers × Nat)
  /-- concatenated WebTransport bytes and the session they belong to -/
  wt : Bytes
  wtSession : Option Nat
  datagrams : List Bytes
  ended : Bool
  deriving DecidableEq, Repr

def Norm.empty : Norm := ⟨[], [], [], [], none, [], false⟩

def orFirst : Option Nat → Option Nat → Option Nat
  | some a, _ => some a
  | none, b => b

def Norm.append (a b : Norm) : Norm :=
  ⟨a.headers ++ b.headers, a.body ++ b.body, a.pushes ++ b.pushes, a.wt ++ b.wt,
   orFirst a.wtSession b.wtSession, a.datagrams ++ b.datagrams, a.ended || b.ended⟩

/-- contribution of one event to stream `sid` (an empty, non-final WebTransport
    or DATA delivery contributes nothing) -/
def normEv (sid : Nat) : Event → Norm
  | .headers hs i e p => if i = sid then { Norm.empty with headers := [(hs, p)], ended := e } else .empty
  | .data d i e _ => if i = sid then { Norm.empty with body := d, ended := e } else .empty
  | .pushPromise hs p i => if i = sid then { Norm.empty with pushes := [(hs, p)] } else .empty
  | .wt d i e sess =>
    if i = sid then
      (if d = [] ∧ e = false then .empty else { Norm.empty with wt := d, wtSession := some sess, ended := e })
    else .empty
  | .datagram d i => if i = sid then { Norm.empty with datagrams := [d] } else .empty

def normOf (sid : Nat) : List Event → Norm
  | [] => .empty
  | e :: r => (normEv sid e).append (normOf sid r)

theorem orFirst_assoc (a b c : Option Nat) : orFirst (orFirst a b) c = orFirst a (orFirst b c) := by
  cases a <;> cases b <;> rfl

theorem Norm.empty_append (a : Norm) : Norm.empty.append a = a := by
  cases a; simp [Norm.append, Norm.empty, orFirst]

theorem Norm.append_empty (a : Norm) : a.append Norm.empty = a := by
  cases a with
  | mk h b p w ws d e => cases ws <;> simp [Norm.append, Norm.empty, orFirst]

theorem Norm.append_assoc (a b c : Norm) : (a.append b).append c = a.append (b.append c) := by
  simp [Norm.append, List.append_assoc, orFirst_assoc, Bool.or_assoc]

theorem normOf_append (sid : Nat) (a b : List Event) :
    normOf sid (a ++ b) = (normOf sid a).append (normOf sid b) := by
  induction a with
  | nil => simp [normOf, Norm.empty_append]
  | cons e r ih => simp [normOf, ih, Norm.append_assoc]

/-- same normal form for every stream -/
def NEq (a b : List Event) : Prop := ∀ sid, normOf sid a = normOf sid b

theorem NEq.refl (a : List Event) : NEq a a := fun _ => rfl
theorem NEq.symm {a b : List Event} (h : NEq a b) : NEq b a := fun s => (h s).symm
theorem NEq.trans {a b c : List Event} (h : NEq a b) (h' : NEq b c) : NEq a c := fun s => (h s).trans (h' s)
theorem NEq.append {a a' b b' : List Event} (h : NEq a a') (h' : NEq b b') : NEq (a ++ b) (a' ++ b') := by
  intro sid; rw [normOf_append, normOf_append, h sid, h' sid]

/-! ## results up to the normal form of the events -/

section
variable {σ : Type}

abbrev Res (σ : Type) := Outcome (Stream × σ × List Event)

/-- same error, or same final state and same normal form -/
def REq (x y : Res σ) : Prop :=
  match x, y with
  | .ok (s1, q1, e1), .ok (s2, q2, e2) => s1 = s2 ∧ q1 = q2 ∧ NEq e1 e2
  | .error a, .error b => a = b
  | _, _ => False

theorem REq.refl (x : Res σ) : REq x x := by
  unfold REq
  split
  · simp_all [NEq.refl]
  · simp_all
  · rename_i h1 h2
    cases x with
    | error e => exact h2 _ _ rfl rfl
    | ok v => obtain ⟨s, q, e⟩ := v; exact h1 _ _ _ _ _ _ rfl rfl

theorem REq.of_eq {x y : Res σ} (h : x = y) : REq x y := h ▸ REq.refl x

theorem REq.symm {x y : Res σ} (h : REq x y) : REq y x := by
  cases x with
  | error a => cases y with
    | error b => simp [REq] at *; exact h.symm
    | ok v => simp [REq] at h
  | ok v => cases y with
    | error b => simp [REq] at h
    | ok w =>
      obtain ⟨s, q, e⟩ := v; obtain ⟨s', q', e'⟩ := w
      simp [REq] at *; exact ⟨h.1.symm, h.2.1.symm, h.2.2.symm⟩

theorem REq.trans {x y z : Res σ} (h : REq x y) (h' : REq y z) : REq x z := by
  cases x with
  | error a => cases y with
    | error b => cases z with
      | error c => simp [REq] at *; exact h.trans h'
      | ok _ => simp [REq] at h'
    | ok v => simp [REq] at h
  | ok v => cases y with
    | error b => simp [REq] at h
    | ok w => cases z with
      | error c => simp [REq] at h'
      | ok u =>
        obtain ⟨s, q, e⟩ := v; obtain ⟨s', q', e'⟩ := w; obtain ⟨s'', q'', e''⟩ := u
        simp [REq] at *
        exact ⟨h.1.trans h'.1, h.2.1.trans h'.2.1, h.2.2.trans h'.2.2⟩

/-- run `f` from the final state of `x`, concatenating the events -/
def andThen (x : Res σ) (f : Stream → σ → Res σ) : Res σ :=
  match x with
  | .error e => .error e
  | .ok (s, q, ev) =>
    match f s q with
    | .error e => .error e
    | .ok (s', q', ev') => .ok (s', q', ev ++ ev')

/-- prefix the events of a result -/
def pre (p : List Event) (x : Res σ) : Res σ :=
  match x with
  | .error e => .error e
  | .ok (s, q, ev) => .ok (s, q, p ++ ev)

theorem REq.andThen {x y : Res σ} (h : REq x y) (f : Stream → σ → Res σ) : REq (andThen x f) (andThen y f) := by
  cases x with
  | error a => cases y with
    | error b => simp [REq] at h; subst h; exact REq.refl _
    | ok v => simp [REq] at h
  | ok v => cases y with
    | error b => simp [REq] at h
    | ok w =>
      obtain ⟨s, q, e⟩ := v; obtain ⟨s', q', e'⟩ := w
      simp [REq] at h
      obtain ⟨rfl, rfl, hn⟩ := h
      simp only [AQ.H3.andThen]
      cases hf : f s q with
      | error c => simp [REq]
      | ok u => obtain ⟨s2, q2, e2⟩ := u; simp [REq]; exact NEq.append hn (NEq.refl _)

theorem REq.pre {x y : Res σ} {p p' : List Event} (hp : NEq p p') (h : REq x y) : REq (pre p x) (pre p' y) := by
  cases x with
  | error a => cases y with
    | error b => simpa [REq, AQ.H3.pre] using h
    | ok v => simp [REq] at h
  | ok v => cases y with
    | error b => simp [REq] at h
    | ok w =>
      obtain ⟨s, q, e⟩ := v; obtain ⟨s', q', e'⟩ := w
      simp [REq] at h
      simp [REq, AQ.H3.pre]
      exact ⟨h.1, h.2.1, NEq.append hp h.2.2⟩

theorem andThen_pre (p : List Event) (x : Res σ) (f : Stream → σ → Res σ) :
    andThen (pre p x) f = pre p (andThen x f) := by
  cases x with
  | error a => rfl
  | ok v =>
    obtain ⟨s, q, e⟩ := v
    simp only [AQ.H3.andThen, AQ.H3.pre]
    cases f s q with
    | error c => rfl
    | ok u => obtain ⟨s2, q2, e2⟩ := u; simp [AQ.H3.pre, List.append_assoc]

theorem andThen_assoc (x : Res σ) (f g : Stream → σ → Res σ) :
    andThen (andThen x f) g = andThen x (fun s q => andThen (f s q) g) := by
  cases x with
  | error a => rfl
  | ok v =>
    obtain ⟨s, q, e⟩ := v
    simp only [AQ.H3.andThen]
    cases f s q with
    | error c => rfl
    | ok u =>
      obtain ⟨s2, q2, e2⟩ := u
      simp only
      cases g s2 q2 with
      | error c => rfl
      | ok w => obtain ⟨s3, q3, e3⟩ := w; simp [List.append_assoc]

end

/-! ## varints -/

theorem pullVarint_append {b r : Bytes} {v : Nat} (c : Bytes) (h : pullVarint b = some (v, r)) :
    pullVarint (b ++ c) = some (v, r ++ c) := by
  cases b with
  | nil => simp [pullVarint] at h
  | cons x rest =>
    simp only [pullVarint, List.cons_append] at h ⊢
    split at h
    · simp at h
    · rename_i hlen
      simp at h
      obtain ⟨rfl, rfl⟩ := h
      have hl : varintLen x - 1 ≤ rest.length := by omega
      have : ¬ (rest ++ c).length < varintLen x - 1 := by simp; omega
      simp only [this, ↓reduceIte]
      rw [List.take_append_of_le_length hl, List.drop_append_of_le_length hl]

theorem pullVarint_length {b r : Bytes} {v : Nat} (h : pullVarint b = some (v, r)) : r.length < b.length := by
  cases b with
  | nil => simp [pullVarint] at h
  | cons x rest =>
    simp only [pullVarint] at h
    split at h
    · simp at h
    · simp at h
      obtain ⟨_, rfl⟩ := h
      simp; omega

end AQ.H3

namespace AQ.H3
section
variable {σ : Type} (o : Oracle σ) (cfg : Cfg)

def withRE (e : Bool) (s : Stream) : Stream := { s with receivingEnded := e }

/-- the QPACK oracle never answers "blocked" -/
def NonBlocking (o : Oracle σ) : Prop := ∀ q sid b, (o.decode q sid b).1 ≠ .blocked

/-- what the loop does once `frameHeader` answered `go` -/
def bodyLoop (ea : Bool) (fuel : Nat) (s1 : Stream) (q : σ) (r : Bytes) : Outcome (LoopRes σ) :=
  match frameBody o cfg s1 q r with
  | .error e => .error e
  | .ok .brk => .ok (.brk s1 q r [])
  | .ok (.blocked s2 q2 r2) => .ok (.brk s2 q2 r2 [])
  | .ok (.next s2 q2 r2 evs2) =>
    match reqLoop o cfg ea fuel s2 q2 r2 with
    | .error e => .error e
    | .ok res => .ok (res.prepend evs2)

theorem reqLoop_succ (ea : Bool) (fuel : Nat) (s : Stream) (q : σ) (rest : Bytes) :
    reqLoop o cfg ea (fuel + 1) s q rest =
      if rest = [] then .ok (.brk s q rest [])
      else match frameHeader ea s rest with
        | .stuck s1 => .ok (.brk s1 q rest [])
        | .wt s1 evs => .ok (.ret s1 q evs)
        | .go s1 r => bodyLoop o cfg ea fuel s1 q r := by
  rw [reqLoop]; rfl

theorem frameHeader_some (ea : Bool) (s : Stream) (rest : Bytes) (sz : Nat) (h : s.frameSize = some sz) :
    frameHeader ea s rest = .go s rest := by
  simp [frameHeader, h]

/-- facts about a `next` answer of `frameBody` -/
theorem frameBody_next {s1 s2 : Stream} {q q2 : σ} {r r2 : Bytes} {ev : List Event}
    (h : frameBody o cfg s1 q r = .ok (.next s2 q2 r2 ev)) :
    ∃ sz, s1.frameSize = some sz ∧ r2 = r.drop (min sz r.length) ∧ s2.frameSize ≠ some 0 ∧
      (s2.frameSize = none ∨ s2.frameSize = some (sz - min sz r.length)) ∧
      s2.sessionId = s1.sessionId ∧ s2.blocked = s1.blocked ∧ s2.receivingEnded = s1.receivingEnded ∧
      s2.buffer = s1.buffer := by
  unfold frameBody at h
  split at h
  · simp at h
  · rename_i sz hsz
    refine ⟨sz, hsz, ?_⟩
    simp only at h
    split at h
    · simp at h
    · split at h
      · simp at h
      · simp at h
      · simp at h
        obtain ⟨rfl, _, rfl, _⟩ := h
        refine ⟨rfl, ?_⟩
        split <;> simp_all

end
end AQ.H3

namespace AQ.H3
section
variable {σ : Type} (o : Oracle σ) (cfg : Cfg)

theorem frameHeader_go {ea : Bool} {s s1 : Stream} {rest r : Bytes} (h : frameHeader ea s rest = .go s1 r) :
    (s.frameSize.isSome ∧ s1 = s ∧ r = rest) ∨
    (s.frameSize = none ∧ ∃ t sz r1, pullVarint rest = some (t, r1) ∧ pullVarint r1 = some (sz, r) ∧ t ≠ 0x41 ∧
      s1 = { s with frameType := some t, frameSize := some sz }) := by
  unfold frameHeader at h
  cases hfs : s.frameSize with
  | some z => simp [hfs] at h; left; simp_all
  | none =>
    right
    refine ⟨rfl, ?_⟩
    simp only [hfs] at h
    cases hp1 : pullVarint rest with
    | none => simp [hp1] at h
    | some x =>
      obtain ⟨t, r1⟩ := x
      simp only [hp1] at h
      cases hp2 : pullVarint r1 with
      | none => simp [hp2] at h
      | some y =>
        obtain ⟨sz, r2⟩ := y
        simp only [hp2] at h
        split at h
        · simp at h
        · rename_i ht
          simp at h
          obtain ⟨rfl, rfl⟩ := h
          exact ⟨t, sz, r1, rfl, hp2, ht, rfl⟩

theorem reqLoop_fuel (ea : Bool) : ∀ (f1 f2 : Nat) (s : Stream) (q : σ) (rest : Bytes),
    rest.length < f1 → rest.length < f2 → s.frameSize ≠ some 0 →
    reqLoop o cfg ea f1 s q rest = reqLoop o cfg ea f2 s q rest := by
  intro f1
  induction f1 with
  | zero => intro f2 s q rest h; omega
  | succ n ih =>
    intro f2 s q rest h1 h2 hs
    cases f2 with
    | zero => omega
    | succ m =>
      rw [reqLoop_succ, reqLoop_succ]
      split
      · rfl
      · rename_i hne
        cases hfh : frameHeader ea s rest with
        | stuck s1 => rfl
        | wt s1 evs => rfl
        | go s1 r =>
          simp only [bodyLoop]
          cases hfb : frameBody o cfg s1 q r with
          | error e => rfl
          | ok br =>
            cases br with
            | brk => rfl
            | blocked s2 q2 r2 => rfl
            | next s2 q2 r2 ev =>
              obtain ⟨sz, hsz, hr2, hs2, _⟩ := frameBody_next o cfg hfb
              have hlen : r2.length < rest.length := by
                rcases frameHeader_go hfh with ⟨hsome, h1eq, hreq⟩ | ⟨_, t, sz', r1, hp1, hp2, _, _⟩
                · have hsz' : s.frameSize = some sz := h1eq ▸ hsz
                  have : sz ≠ 0 := by intro h0; subst h0; exact hs hsz'
                  have : rest.length ≠ 0 := by intro h0; exact hne (List.length_eq_zero_iff.mp h0)
                  rw [hr2, hreq]; simp; omega
                · have := pullVarint_length hp1
                  have := pullVarint_length hp2
                  subst hr2; simp; omega
              simp only
              rw [ih m s2 q2 r2 (by omega) (by omega) hs2]

end
end AQ.H3

namespace AQ.H3
section
variable {σ : Type} (o : Oracle σ) (cfg : Cfg)

/-- `recvReq` when neither shortcut applies -/
theorem recvReq_main (s : Stream) (q : σ) (d : Bytes) (ea : Bool) (hb : s.blocked = false)
    (hs : s.sessionId = none)
    (hnd : ∀ sz, s.frameType = some 0 → s.frameSize = some sz → ¬ (s.buffer ++ d).length < sz) :
    recvReq o cfg s q d ea =
      recvReqMain o cfg { s with buffer := s.buffer ++ d, receivingEnded := s.receivingEnded || ea } q ea := by
  unfold recvReq
  dsimp only
  split
  · rename_i h; rw [hb] at h; cases h
  · split
    · rename_i h1 h2; rw [hs] at h2; cases h2
    · split
      · rename_i sz h1 h2
        have := hnd sz h1 h2
        rw [if_neg this]
      · rfl

/-- `recvReq` through the DATA-fragment shortcut -/
theorem recvReq_shortcut (s : Stream) (q : σ) (d : Bytes) (ea : Bool) (sz : Nat) (hb : s.blocked = false)
    (hs : s.sessionId = none) (hft : s.frameType = some 0) (hfs : s.frameSize = some sz)
    (hlen : (s.buffer ++ d).length < sz) :
    recvReq o cfg s q d ea =
      if cfg.k.truncatedNoError = false ∧ ea = true then .error (.h3 0x106)
      else .ok ({ s with p := { s.p with contentLength := s.contentLength + (s.buffer ++ d).length },
                          frameSize := some (sz - (s.buffer ++ d).length), buffer := [],
                          receivingEnded := s.receivingEnded || ea }, q,
                [.data (s.buffer ++ d) s.streamId false s.pushId]) := by
  unfold recvReq
  dsimp only
  split
  · rename_i h; rw [hb] at h; cases h
  · split
    · rename_i h1 h2; rw [hs] at h2; cases h2
    · split
      · rename_i sz' h1 h2
        rw [hfs] at h2
        cases h2
        rw [if_pos hlen]
      · rename_i h
        exact absurd hfs (h sz hft)

/-- `recvReq` in WebTransport mode -/
theorem recvReq_wt (s : Stream) (q : σ) (d : Bytes) (ea : Bool) (sess : Nat) (hb : s.blocked = false)
    (hs : s.sessionId = some sess) (hft : s.frameType = some 0x41) :
    recvReq o cfg s q d ea =
      .ok ({ s with buffer := [], receivingEnded := s.receivingEnded || ea }, q,
           [.wt (s.buffer ++ d) s.streamId ea sess]) := by
  unfold recvReq
  dsimp only
  split
  · rename_i h; rw [hb] at h; cases h
  · split
    · rename_i sess' h1 h2
      rw [hs] at h2
      cases h2
      rfl
    · rename_i h
      exact absurd hs (h sess hft)

end
end AQ.H3

namespace AQ.H3
section
variable {σ : Type} (o : Oracle σ) (cfg : Cfg)

theorem loopPost_brk_notEnded (s1 : Stream) (q1 : σ) (rest : Bytes) (evs : List Event)
    (h : s1.receivingEnded = false) :
    loopPost cfg (.ok (.brk s1 q1 rest evs)) = .ok ({ s1 with buffer := rest }, q1, evs) := by
  simp [loopPost, h]

theorem andThen_ok_nil (s : Stream) (q : σ) (f : Stream → σ → Res σ) :
    andThen (.ok (s, q, [])) f = f s q := by
  simp only [andThen]
  cases f s q with
  | error e => rfl
  | ok v => obtain ⟨a, b, c⟩ := v; simp

theorem andThen_ok (s : Stream) (q : σ) (ev : List Event) (f : Stream → σ → Res σ) :
    andThen (.ok (s, q, ev)) f = pre ev (f s q) := by
  simp only [andThen, pre]

/-- second delivery on a stream that is between frames or inside a non-DATA frame -/
theorem recvReq_entry (s' : Stream) (q : σ) (c2 : Bytes) (e : Bool) (hb : s'.blocked = false)
    (hs : s'.sessionId = none) (hre : s'.receivingEnded = false)
    (hnd : ∀ sz, s'.frameType = some 0 → s'.frameSize = some sz → ¬ (s'.buffer ++ c2).length < sz)
    (hne : ¬ (e = true ∧ s'.buffer ++ c2 = [])) :
    recvReq o cfg s' q c2 e =
      loopPost cfg (reqLoop o cfg e ((s'.buffer ++ c2).length + 1)
        (withRE e { s' with buffer := [] }) q (s'.buffer ++ c2)) := by
  rw [recvReq_main o cfg s' q c2 e hb hs hnd]
  unfold recvReqMain
  dsimp only
  rw [if_neg hne, hre]
  simp only [Bool.false_or, withRE]

theorem frameHeader_withRE (ea : Bool) (e : Bool) (s : Stream) (rest : Bytes) :
    frameHeader ea (withRE e s) rest =
      match frameHeader ea s rest with
      | .stuck s1 => .stuck (withRE e s1)
      | .wt s1 evs => .wt (withRE e s1) evs
      | .go s1 r => .go (withRE e s1) r := by
  cases hfs : s.frameSize with
  | some z =>
    rw [frameHeader_some ea (withRE e s) rest z (by simpa [withRE] using hfs), frameHeader_some ea s rest z hfs]
  | none =>
    unfold frameHeader
    simp only [withRE, hfs]
    cases pullVarint rest with
    | none => simp [hfs]
    | some x =>
      obtain ⟨t, r1⟩ := x
      dsimp only
      cases pullVarint r1 with
      | none => simp [hfs]
      | some y =>
        obtain ⟨sz, r2⟩ := y
        dsimp only
        split <;> simp [hfs]

end
end AQ.H3

namespace AQ.H3
section
variable {σ : Type} (o : Oracle σ) (cfg : Cfg)

/-- a non-DATA frame whose payload is not complete yet -/
theorem frameBody_brk (s : Stream) (q : σ) (r : Bytes) (sz : Nat) (h : s.frameSize = some sz)
    (hft : s.frameType ≠ some 0) (hlen : r.length < sz) : frameBody o cfg s q r = .ok .brk := by
  unfold frameBody
  simp only [h]
  have : min sz r.length < sz := by omega
  simp [hft, this]

/-- a frame whose payload is complete -/
theorem frameBody_full (s : Stream) (q : σ) (r : Bytes) (sz : Nat) (h : s.frameSize = some sz)
    (hlen : sz ≤ r.length) :
    frameBody o cfg s q r =
      match handleFrame o cfg s.frameType (r.take sz) s.p q (s.receivingEnded && (r.drop sz).isEmpty) with
      | .error e => .error e
      | .ok (.blocked q1 pp) =>
        .ok (.blocked { s with frameSize := none, frameType := none, blocked := true,
                               blockedFrameSize := some (r.take sz).length, blockedPush := pp } q1 (r.drop sz))
      | .ok (.done p2 q2 ev) => .ok (.next { s with frameSize := none, frameType := none, p := p2 } q2 (r.drop sz) ev) := by
  unfold frameBody
  simp only [h]
  have hm : min sz r.length = sz := by omega
  simp only [hm, Nat.lt_irrefl, and_false, ↓reduceIte, Nat.sub_self, Option.isNone_none, Bool.or_true,
    Bool.and_true]
  rfl

/-- a DATA frame of which only a part is available (fixed code: never `stream_ended`) -/
theorem frameBody_part (ht : cfg.k.truncatedNoError = false) (s : Stream) (q : σ) (r : Bytes) (sz : Nat)
    (h : s.frameSize = some sz) (hft : s.frameType = some 0) (hlen : r.length < sz) :
    frameBody o cfg s q r =
      match handleFrame o cfg (some 0) r s.p q false with
      | .error e => .error e
      | .ok (.blocked q1 pp) =>
        .ok (.blocked { s with frameSize := some (sz - r.length), blocked := true,
                               blockedFrameSize := some r.length, blockedPush := pp } q1 [])
      | .ok (.done p2 q2 ev) => .ok (.next { s with frameSize := some (sz - r.length), p := p2 } q2 [] ev) := by
  unfold frameBody
  simp only [h]
  have hm : min sz r.length = r.length := by omega
  have hne : sz - r.length ≠ 0 := by omega
  simp only [hm, hft, ne_eq, not_true_eq_false, false_and, ↓reduceIte, hne, List.take_length,
    List.drop_length, List.isEmpty_nil, Bool.and_true, ht, Option.isNone_some, Bool.or_self, Bool.and_false]
  cases handleFrame o cfg (some 0) r s.p q false with
  | error e => rfl
  | ok fr => cases fr <;> simp [hft]

/-- DATA frames never block and never fail except for the header state -/
theorem handleFrame_data (d : Bytes) (p : PState) (q : σ) (b : Bool) :
    handleFrame o cfg (some 0) d p q b =
      if p.recvState ≠ .afterHeaders then .error (.h3 0x105)
      else
        match (if b then checkCL { p with contentLength := p.contentLength + d.length } else .ok ()) with
        | .error e => .error e
        | .ok _ =>
          .ok (.done { p with contentLength := p.contentLength + d.length } q
            (if b = true ∨ d ≠ [] then [.data d p.streamId b p.pushId] else [])) := by
  unfold handleFrame
  rfl

theorem handleFrame_notBlocked (hnb : NonBlocking o) (ft : Option Nat) (d : Bytes) (p : PState) (q q1 : σ)
    (b : Bool) (pp : Option Nat) : handleFrame o cfg ft d p q b ≠ .ok (.blocked q1 pp) := by
  intro h
  unfold handleFrame at h
  dsimp only at h
  repeat' (split at h)
  all_goals first
    | (simp at h; done)
    | exact hnb _ _ _ (congrArg Prod.fst ‹o.decode _ _ _ = (DecodeResult.blocked, _)›)

end
end AQ.H3

namespace AQ.H3
section
variable {σ : Type} (o : Oracle σ) (cfg : Cfg)

theorem withRE_withRE (a b : Bool) (s : Stream) : withRE a (withRE b s) = withRE a s := rfl

theorem withRE_self (s : Stream) (h : s.receivingEnded = false) : withRE false s = s := by
  cases s; simp_all [withRE]

/-- with `frameSize = none` the stale `frame_type` attribute is overwritten as soon
    as the type varint can be read -/
theorem frameHeader_frameType (ea : Bool) (s : Stream) (rest r1 : Bytes) (t : Nat) (x : Option Nat)
    (hfs : s.frameSize = none) (hp : pullVarint rest = some (t, r1)) :
    frameHeader ea { s with frameType := x } rest = frameHeader ea { s with frameType := some t } rest := by
  unfold frameHeader
  simp only [hfs, hp]

theorem reqLoop_frameType (ea : Bool) (f : Nat) (s : Stream) (q : σ) (rest r1 : Bytes) (t : Nat)
    (hfs : s.frameSize = none) (hp : pullVarint rest = some (t, r1)) (hf : 0 < f) :
    reqLoop o cfg ea f { s with frameType := some t } q rest = reqLoop o cfg ea f s q rest := by
  cases f with
  | zero => omega
  | succ n =>
    rw [reqLoop_succ, reqLoop_succ]
    have h1 := frameHeader_frameType ea s rest r1 t s.frameType hfs hp
    have : ({ s with frameType := s.frameType } : Stream) = s := by cases s; rfl
    rw [this] at h1
    rw [h1]
    have hne : rest ≠ [] := by intro h; subst h; simp [pullVarint] at hp
    simp only [hne, ↓reduceIte]

end
end AQ.H3

namespace AQ.H3
section
variable {σ : Type} (o : Oracle σ) (cfg : Cfg)

theorem normOf_data_split (sid : Nat) (d1 d2 : Bytes) (i : Nat) (b : Bool) (p : Option Nat) :
    normOf sid [.data (d1 ++ d2) i b p] = normOf sid [.data d1 i false p, .data d2 i b p] := by
  simp only [normOf, normEv]
  split <;> simp [Norm.append, Norm.empty, orFirst]

theorem NEq_data_nil (i : Nat) (p : Option Nat) (l : List Event) : NEq (.data [] i false p :: l) l := by
  intro sid
  simp only [normOf, normEv]
  split <;> simp [Norm.append, Norm.empty, orFirst]

theorem checkCL_recvState (p : PState) (r : HState) : checkCL { p with recvState := r } = checkCL p := rfl

theorem setExpectedCL_streamId (p : PState) (cl : Option Nat) : (setExpectedCL p cl).streamId = p.streamId := by
  unfold setExpectedCL; split <;> (try split) <;> rfl
theorem setExpectedCL_pushId (p : PState) (cl : Option Nat) : (setExpectedCL p cl).pushId = p.pushId := by
  unfold setExpectedCL; split <;> (try split) <;> rfl

theorem logStep_ok (hlog : cfg.k.logDecode = false) (q : σ) (hs : Headers) : ∃ q2, logStep o cfg q hs = .ok q2 := by
  unfold logStep
  split
  · simp [hlog]
  · exact ⟨_, rfl⟩

theorem finishHeaders_end (hlog : cfg.k.logDecode = false) (p : PState) (q : σ) (hs : Headers) :
    match finishHeaders o cfg p q hs true with
    | .error x =>
      finishHeaders o cfg p q hs false = .error x ∨
        ∃ p2 q2 ev, finishHeaders o cfg p q hs false = .ok (p2, q2, ev) ∧ checkCL p2 = .error x
    | .ok (p2, q2, evA) =>
      ∃ evB, finishHeaders o cfg p q hs false = .ok (p2, q2, evB) ∧ checkCL p2 = .ok () ∧
        NEq evA (evB ++ [.data [] p2.streamId true p2.pushId]) := by
  unfold finishHeaders
  dsimp only
  generalize o.validate q _ hs = v
  obtain ⟨vr, q1⟩ := v
  cases vr with
  | invalid => left; rfl
  | ok cl =>
    dsimp only
    simp only [↓reduceIte, Bool.false_eq_true]
    obtain ⟨q2, hl⟩ := logStep_ok o cfg hlog q1 hs
    rw [hl]
    cases hc : checkCL (setExpectedCL p cl) with
    | error x =>
      dsimp only
      right
      exact ⟨_, _, _, rfl, by rw [checkCL_recvState]; exact hc⟩
    | ok u =>
      dsimp only
      refine ⟨_, rfl, by rw [checkCL_recvState]; exact hc, ?_⟩
      intro sid
      simp only [List.cons_append, List.nil_append, normOf, normEv, setExpectedCL_streamId, setExpectedCL_pushId]
      split <;> simp [Norm.append, Norm.empty, orFirst]

theorem endOfSilent_end (hsil : cfg.k.silentFrameNoEnd = false) (p : PState) :
    endOfSilent cfg p false = .ok [] ∧
    endOfSilent cfg p true = (match checkCL p with
      | .error e => .error e
      | .ok _ => .ok [.data [] p.streamId true p.pushId]) := by
  unfold endOfSilent
  refine ⟨by simp, ?_⟩
  simp only [hsil, and_self, ↓reduceIte]
  cases checkCL p <;> rfl

theorem finishPush_end (hsil : cfg.k.silentFrameNoEnd = false) (hlog : cfg.k.logDecode = false)
    (p : PState) (q : σ) (pid : Nat) (hs : Headers) :
    match finishPush o cfg p q pid hs true with
    | .error x =>
      finishPush o cfg p q pid hs false = .error x ∨
        ∃ p2 q2 ev, finishPush o cfg p q pid hs false = .ok (p2, q2, ev) ∧ checkCL p2 = .error x
    | .ok (p2, q2, evA) =>
      ∃ evB, finishPush o cfg p q pid hs false = .ok (p2, q2, evB) ∧ checkCL p2 = .ok () ∧
        NEq evA (evB ++ [.data [] p2.streamId true p2.pushId]) := by
  unfold finishPush
  generalize o.validate q _ hs = v
  obtain ⟨vr, q1⟩ := v
  cases vr with
  | invalid => left; rfl
  | ok cl =>
    dsimp only
    obtain ⟨q2, hl⟩ := logStep_ok o cfg hlog q1 hs
    rw [hl]
    dsimp only
    rw [(endOfSilent_end cfg hsil p).1, (endOfSilent_end cfg hsil p).2]
    cases hc : checkCL p with
    | error x => dsimp only; right; exact ⟨_, _, _, rfl, hc⟩
    | ok u => dsimp only; exact ⟨_, rfl, hc, NEq.refl _⟩

theorem handleFrame_headers (d : Bytes) (p : PState) (q : σ) (b : Bool) :
    handleFrame o cfg (some 1) d p q b =
      if p.recvState = .afterTrailers then .error (.h3 0x105)
      else
        match o.decode q p.streamId d with
        | (.blocked, q1) => .ok (.blocked q1 none)
        | (.failed, _) => .error (.h3 0x200)
        | (.headers hs, q1) =>
          match finishHeaders o cfg p q1 hs b with
          | .error e => .error e
          | .ok (s2, q2, evs) => .ok (.done s2 q2 evs) := by
  unfold handleFrame; rfl

theorem handleFrame_other (t : Nat) (h0 : t ≠ 0) (h1 : t ≠ 1) (d : Bytes) (p : PState) (q : σ) (b : Bool) :
    handleFrame o cfg (some t) d p q b =
      if t = 5 ∧ p.pushId = none then
        if cfg.isClient = false then .error (.h3 0x105)
        else
          match pullVarint d with
          | none => if cfg.k.pushPromiseBufferRead then .error .bufferRead else .error (.h3 0x106)
          | some (pid, rest) =>
            match o.decode q p.streamId rest with
            | (.blocked, q1) => .ok (.blocked q1 (if cfg.k.blockedPushAsHeaders then none else some pid))
            | (.failed, _) => .error (.h3 0x200)
            | (.headers hs, q1) =>
              match finishPush o cfg p q1 pid hs b with
              | .error e => .error e
              | .ok (s2, q2, evs) => .ok (.done s2 q2 evs)
      else if forbiddenOnRequest t then .error (.h3 0x105)
      else
        match endOfSilent cfg p b with
        | .error e => .error e
        | .ok evs => .ok (.done p q evs) := by
  unfold handleFrame
  split
  · rename_i h; simp at h; exact absurd h h0
  · rename_i h; simp at h; exact absurd h h1
  · rename_i t' _ _ h; simp at h; subst h; rfl
  · rename_i h; simp at h

theorem handleFrame_none (d : Bytes) (p : PState) (q : σ) (b : Bool) :
    handleFrame o cfg none d p q b =
      match endOfSilent cfg p b with
      | .error e => .error e
      | .ok evs => .ok (.done p q evs) := by
  unfold handleFrame; rfl

theorem silent_end (hsil : cfg.k.silentFrameNoEnd = false) (p : PState) (q : σ) :
    match (match endOfSilent cfg p true with
      | .error e => (.error e : Outcome (FrameRes σ))
      | .ok evs => .ok (.done p q evs)) with
    | .error x =>
      (match endOfSilent cfg p false with
        | .error e => (.error e : Outcome (FrameRes σ))
        | .ok evs => .ok (.done p q evs)) = .error x ∨
        ∃ p2 q2 ev, (match endOfSilent cfg p false with
        | .error e => (.error e : Outcome (FrameRes σ))
        | .ok evs => .ok (.done p q evs)) = .ok (.done p2 q2 ev) ∧ checkCL p2 = .error x
    | .ok (.done p2 q2 evA) =>
      ∃ evB, (match endOfSilent cfg p false with
        | .error e => (.error e : Outcome (FrameRes σ))
        | .ok evs => .ok (.done p q evs)) = .ok (.done p2 q2 evB) ∧ checkCL p2 = .ok () ∧
        NEq evA (evB ++ [.data [] p2.streamId true p2.pushId])
    | .ok (.blocked q1 pp) => (match endOfSilent cfg p false with
        | .error e => (.error e : Outcome (FrameRes σ))
        | .ok evs => .ok (.done p q evs)) = .ok (.blocked q1 pp) := by
  rw [(endOfSilent_end cfg hsil p).1, (endOfSilent_end cfg hsil p).2]
  cases hc : checkCL p with
  | error x => dsimp only; right; exact ⟨_, _, _, rfl, hc⟩
  | ok u => dsimp only; exact ⟨_, rfl, hc, NEq.refl _⟩

theorem handleFrame_end (hsil : cfg.k.silentFrameNoEnd = false) (hlog : cfg.k.logDecode = false)
    (ft : Option Nat) (d : Bytes) (p : PState) (q : σ) :
    match handleFrame o cfg ft d p q true with
    | .error x =>
      handleFrame o cfg ft d p q false = .error x ∨
        ∃ p2 q2 ev, handleFrame o cfg ft d p q false = .ok (.done p2 q2 ev) ∧ checkCL p2 = .error x
    | .ok (.done p2 q2 evA) =>
      ∃ evB, handleFrame o cfg ft d p q false = .ok (.done p2 q2 evB) ∧ checkCL p2 = .ok () ∧
        NEq evA (evB ++ [.data [] p2.streamId true p2.pushId])
    | .ok (.blocked q1 pp) => handleFrame o cfg ft d p q false = .ok (.blocked q1 pp) := by
  cases ft with
  | none => rw [handleFrame_none, handleFrame_none]; exact silent_end cfg hsil p q
  | some t =>
    by_cases h0 : t = 0
    · subst h0
      rw [handleFrame_data, handleFrame_data]
      by_cases hr : p.recvState ≠ HState.afterHeaders
      · rw [if_pos hr, if_pos hr]; left; rfl
      · rw [if_neg hr, if_neg hr]
        simp only [↓reduceIte, Bool.false_eq_true]
        cases hc : checkCL { p with contentLength := p.contentLength + d.length } with
        | error x => dsimp only; right; exact ⟨_, _, _, rfl, hc⟩
        | ok u =>
          dsimp only
          refine ⟨_, rfl, hc, ?_⟩
          intro sid
          by_cases hd : d = [] <;>
            simp [hd, normOf, normEv, Norm.append, Norm.empty, orFirst] <;> split <;> simp
    · by_cases h1 : t = 1
      · subst h1
        rw [handleFrame_headers, handleFrame_headers]
        by_cases hr : p.recvState = HState.afterTrailers
        · rw [if_pos hr, if_pos hr]; left; rfl
        · rw [if_neg hr, if_neg hr]
          generalize o.decode q p.streamId d = dr
          obtain ⟨r, q1⟩ := dr
          cases r with
          | blocked => rfl
          | failed => left; rfl
          | headers hs =>
            dsimp only
            have := finishHeaders_end o cfg hlog p q1 hs
            cases hA : finishHeaders o cfg p q1 hs true with
            | error x =>
              rw [hA] at this
              dsimp only at this ⊢
              rcases this with h | ⟨p2, q2, ev, h, hc⟩
              · left; rw [h]
              · right; rw [h]; exact ⟨_, _, _, rfl, hc⟩
            | ok v =>
              obtain ⟨p2, q2, evA⟩ := v
              rw [hA] at this
              dsimp only at this ⊢
              obtain ⟨evB, h, hc, hn⟩ := this
              rw [h]
              exact ⟨_, rfl, hc, hn⟩
      · rw [handleFrame_other o cfg t h0 h1, handleFrame_other o cfg t h0 h1]
        by_cases hpp : t = 5 ∧ p.pushId = none
        · rw [if_pos hpp, if_pos hpp]
          by_cases hcl : cfg.isClient = false
          · rw [if_pos hcl, if_pos hcl]; left; rfl
          · rw [if_neg hcl, if_neg hcl]
            cases pullVarint d with
            | none =>
              dsimp only
              by_cases hq : cfg.k.pushPromiseBufferRead = true
              · rw [if_pos hq]; left; rfl
              · rw [if_neg hq]; left; rfl
            | some x =>
              obtain ⟨pid, rest⟩ := x
              dsimp only
              generalize o.decode q p.streamId rest = dr
              obtain ⟨r, q1⟩ := dr
              cases r with
              | blocked => rfl
              | failed => left; rfl
              | headers hs =>
                dsimp only
                have := finishPush_end o cfg hsil hlog p q1 pid hs
                cases hA : finishPush o cfg p q1 pid hs true with
                | error x =>
                  rw [hA] at this
                  dsimp only at this ⊢
                  rcases this with h | ⟨p2, q2, ev, h, hc⟩
                  · left; rw [h]
                  · right; rw [h]; exact ⟨_, _, _, rfl, hc⟩
                | ok v =>
                  obtain ⟨p2, q2, evA⟩ := v
                  rw [hA] at this
                  dsimp only at this ⊢
                  obtain ⟨evB, h, hc, hn⟩ := this
                  rw [h]
                  exact ⟨_, rfl, hc, hn⟩
        · rw [if_neg hpp, if_neg hpp]
          by_cases hfb : forbiddenOnRequest t = true
          · rw [if_pos hfb, if_pos hfb]; left; rfl
          · rw [if_neg hfb, if_neg hfb]
            exact silent_end cfg hsil p q

/-- a DATA frame handled in two pieces -/
theorem handleFrame_data_split (d1 d2 : Bytes) (p : PState) (q : σ) (b : Bool) :
    match handleFrame o cfg (some 0) d1 p q false with
    | .error x => handleFrame o cfg (some 0) (d1 ++ d2) p q b = .error x
    | .ok (.blocked _ _) => False
    | .ok (.done p1 q1 ev1) =>
      q1 = q ∧ p1.recvState = .afterHeaders ∧
      match handleFrame o cfg (some 0) d2 p1 q b with
      | .error x => handleFrame o cfg (some 0) (d1 ++ d2) p q b = .error x
      | .ok (.blocked _ _) => False
      | .ok (.done p2 q2 ev2) =>
        ∃ ev, handleFrame o cfg (some 0) (d1 ++ d2) p q b = .ok (.done p2 q2 ev) ∧ NEq ev (ev1 ++ ev2) := by
  rw [handleFrame_data, handleFrame_data]
  by_cases hr : p.recvState ≠ HState.afterHeaders
  · rw [if_pos hr, if_pos hr]
  · rw [if_neg hr, if_neg hr]
    simp only [Bool.false_eq_true, ↓reduceIte, false_or]
    refine ⟨trivial, by simpa using hr, ?_⟩
    rw [handleFrame_data]
    rw [if_neg (show ¬ (({ p with contentLength := p.contentLength + d1.length } : PState).recvState ≠ HState.afterHeaders) from hr)]
    have hcl : p.contentLength + d1.length + d2.length = p.contentLength + (d1 ++ d2).length := by
      simp [Nat.add_assoc]
    dsimp only
    rw [hcl]
    cases hc : (if b = true then checkCL { p with contentLength := p.contentLength + (d1 ++ d2).length } else Except.ok ()) with
    | error x => rfl
    | ok u =>
      dsimp only
      refine ⟨_, rfl, ?_⟩
      intro sid
      by_cases h1 : d1 = [] <;> by_cases h2 : d2 = [] <;> cases b <;>
        simp [h1, h2, normOf, normEv, Norm.append, Norm.empty, orFirst] <;> (try split) <;> simp

theorem loopPost_prepend (r : Outcome (LoopRes σ)) (ev : List Event) :
    loopPost cfg (match r with
      | .error e => .error e
      | .ok res => .ok (res.prepend ev)) = pre ev (loopPost cfg r) := by
  cases r with
  | error e => rfl
  | ok res =>
    cases res with
    | ret s q evs => rfl
    | brk s q rest evs =>
      simp only [loopPost, LoopRes.prepend, pre]
      split <;> rfl

end
end AQ.H3

namespace AQ.H3
section
variable {σ : Type} (o : Oracle σ) (cfg : Cfg)

theorem reqLoop_nil (ea : Bool) (f : Nat) (s : Stream) (q : σ) :
    reqLoop o cfg ea f s q [] = .ok (.brk s q [] []) := by
  cases f with
  | zero => rfl
  | succ n => rw [reqLoop_succ]; rfl

/-- FIN delivered alone on a stream that is between frames -/
theorem recvReq_loneFin (s2 : Stream) (q2 : σ) (hfs : s2.frameSize = none) (hsess : s2.sessionId = none)
    (hblk : s2.blocked = false) (hre : s2.receivingEnded = false) (hbuf : s2.buffer = []) :
    recvReq o cfg s2 q2 [] true =
      match checkCL s2.p with
      | .error x => .error x
      | .ok _ => .ok ({ s2 with receivingEnded := true }, q2, [.data [] s2.streamId true s2.pushId]) := by
  rw [recvReq_main o cfg s2 q2 [] true hblk hsess (by intro sz _ h; rw [hfs] at h; cases h)]
  unfold recvReqMain loneFin
  simp only [hbuf, List.append_nil, and_self, ↓reduceIte, hfs, Option.isSome_none, Bool.false_eq_true,
    and_false, hre, Bool.false_or]
  cases checkCL s2.p with
  | error x => rfl
  | ok u => cases s2; simp_all

end
end AQ.H3

namespace AQ.H3
section
variable {σ : Type} (o : Oracle σ) (cfg : Cfg)

/-- first delivery ended exactly after a complete frame; then FIN arrives alone -/
theorem tail_loneFin (s2 : Stream) (q2 : σ) (ev : List Event) (hfs : s2.frameSize = none)
    (hsess : s2.sessionId = none) (hblk : s2.blocked = false) (hre : s2.receivingEnded = false)
    (hbuf : s2.buffer = []) :
    andThen (loopPost cfg (.ok (.brk s2 q2 [] ev))) (fun s1 q1 => recvReq o cfg s1 q1 [] true) =
      pre ev (match checkCL s2.p with
        | .error x => .error x
        | .ok _ => .ok ({ s2 with receivingEnded := true }, q2, [.data [] s2.streamId true s2.pushId])) := by
  rw [loopPost_brk_notEnded cfg _ _ _ _ hre, andThen_ok]
  have : ({ s2 with buffer := [] } : Stream) = s2 := by cases s2; simp_all
  rw [this, recvReq_loneFin o cfg s2 q2 hfs hsess hblk hre hbuf]

/-- the whole stream delivered with FIN ended exactly after a complete frame -/
theorem tail_ended (ht : cfg.k.truncatedNoError = false) (s2 : Stream) (q2 : σ) (ev : List Event)
    (hfs : s2.frameSize = none) (hbuf : s2.buffer = []) :
    loopPost cfg (.ok (.brk s2 q2 [] ev)) = .ok (s2, q2, ev) := by
  simp only [loopPost, hfs, Option.isSome_none, Bool.false_eq_true, or_false, ne_eq, not_true_eq_false,
    and_false, ↓reduceIte]
  congr
  · cases s2; simp_all
  all_goals (first | exact hfs.symm | exact hbuf.symm | rfl)

end
end AQ.H3

namespace AQ.H3
section
variable {σ : Type} (o : Oracle σ) (cfg : Cfg)

theorem bodyLoop_fuel (ea : Bool) (f1 f2 : Nat) (s1 : Stream) (q : σ) (r : Bytes) (sz : Nat)
    (hsz : s1.frameSize = some sz) (hsz0 : sz ≠ 0) (hr : r ≠ []) (h1 : r.length ≤ f1) (h2 : r.length ≤ f2) :
    bodyLoop o cfg ea f1 s1 q r = bodyLoop o cfg ea f2 s1 q r := by
  unfold bodyLoop
  cases hfb : frameBody o cfg s1 q r with
  | error e => rfl
  | ok br =>
    cases br with
    | brk => rfl
    | blocked s2 q2 r2 => rfl
    | next s2 q2 r2 ev =>
      obtain ⟨sz', hsz', hr2, hs2, _⟩ := frameBody_next o cfg hfb
      rw [hsz] at hsz'
      cases hsz'
      have : r.length ≠ 0 := by intro h0; exact hr (List.length_eq_zero_iff.mp h0)
      have hlen : r2.length < r.length := by rw [hr2]; simp; omega
      dsimp only
      rw [reqLoop_fuel o cfg ea f1 f2 s2 q2 r2 (by omega) (by omega) hs2]

/-- a loop entered in the middle of a frame goes straight to the frame body -/
theorem reqLoop_inFrame (ea : Bool) (f : Nat) (s1 : Stream) (q : σ) (r : Bytes) (sz : Nat)
    (hsz : s1.frameSize = some sz) (hr : r ≠ []) :
    reqLoop o cfg ea (f + 1) s1 q r = bodyLoop o cfg ea f s1 q r := by
  rw [reqLoop_succ, frameHeader_some ea s1 r sz hsz]
  simp [hr]

end
end AQ.H3

namespace AQ.H3
section
variable {σ : Type} (o : Oracle σ) (cfg : Cfg)

theorem prepend_brk (s : Stream) (q : σ) (r : Bytes) (evs p : List Event) :
    (LoopRes.brk s q r evs).prepend p = .brk s q r (p ++ evs) := rfl

theorem pre_pre (a b : List Event) (x : Res σ) : pre a (pre b x) = pre (a ++ b) x := by
  cases x with
  | error e => rfl
  | ok v => obtain ⟨s, q, ev⟩ := v; simp [pre, List.append_assoc]

/-- a DATA frame of which the first delivery brought only a part -/
theorem data_partial_merge (ht : cfg.k.truncatedNoError = false)
    (S : Stream) (q : σ) (r2 c2 : Bytes) (e : Bool) (n m sz : Nat)
    (hft : S.frameType = some 0) (hfs : S.frameSize = some sz) (hlt : r2.length < sz)
    (hsess : S.sessionId = none) (hblk : S.blocked = false) (hre : S.receivingEnded = false)
    (hbuf : S.buffer = []) (hm : (r2 ++ c2).length ≤ m) :
    REq (andThen (loopPost cfg (bodyLoop o cfg false n S q r2)) (fun s1 q1 => recvReq o cfg s1 q1 c2 e))
        (loopPost cfg (bodyLoop o cfg e m (withRE e S) q (r2 ++ c2))) := by
  have hftE : (withRE e S).frameType = some 0 := hft
  have hfsE : (withRE e S).frameSize = some sz := hfs
  unfold bodyLoop
  rw [frameBody_part o cfg ht S q r2 sz hfs hft hlt, handleFrame_data]
  by_cases hrs : S.p.recvState ≠ HState.afterHeaders
  · -- DATA before HEADERS: the same FrameUnexpected on both sides
    rw [if_pos hrs]
    have hR : ∀ d b, handleFrame o cfg (some 0) d S.p q b = .error (.h3 0x105) := by
      intro d b; rw [handleFrame_data, if_pos hrs]
    by_cases hsc : (r2 ++ c2).length < sz
    · rw [frameBody_part o cfg ht _ q (r2 ++ c2) sz hfsE hftE hsc]
      simp [withRE, hR, loopPost, andThen, REq]
    · rw [frameBody_full o cfg _ q (r2 ++ c2) sz hfsE (by omega)]
      simp [withRE, hft, hR, loopPost, andThen, REq]
  · rw [if_neg hrs]
    simp only [Bool.false_eq_true, ↓reduceIte, false_or, reqLoop_nil, prepend_brk, List.append_nil]
    rw [loopPost_brk_notEnded cfg _ _ _ _ (by exact hre), andThen_ok]
    by_cases hsc : (r2 ++ c2).length < sz
    · -- still not complete after the second delivery: DATA-fragment shortcut
      rw [recvReq_shortcut o cfg _ q c2 e (sz - r2.length) (by exact hblk) (by exact hsess) (by exact hft) rfl
        (by simp at hsc ⊢; omega)]
      rw [frameBody_part o cfg ht _ q (r2 ++ c2) sz hfsE hftE hsc, handleFrame_data]
      have hrsE : ¬ (withRE e S).p.recvState ≠ HState.afterHeaders := hrs
      rw [if_neg hrsE]
      simp only [Bool.false_eq_true, ↓reduceIte, false_or, reqLoop_nil, prepend_brk, List.append_nil]
      cases e with
      | true =>
        simp [loopPost, ht, withRE, hblk, pre, REq]
      | false =>
        simp only [ht, Bool.false_eq_true, and_false, ↓reduceIte, pre]
        rw [loopPost_brk_notEnded cfg _ _ _ _ (by simp [withRE])]
        simp only [REq, List.nil_append]
        refine ⟨?_, trivial, ?_⟩
        · have e1 : S.p.contentLength + r2.length + c2.length = S.p.contentLength + (r2 ++ c2).length := by
            simp [Nat.add_assoc]
          have e2 : sz - r2.length - c2.length = sz - (r2 ++ c2).length := by simp; omega
          simp only [withRE, hbuf, hre, Bool.or_false, Stream.contentLength, List.nil_append]
          rw [e1, e2]
        · intro sid
          by_cases h1 : r2 = [] <;> by_cases h2 : c2 = [] <;>
            simp [h1, h2, hbuf, withRE, Stream.streamId, Stream.pushId, normOf, normEv, Norm.append, Norm.empty, orFirst] <;>
            (try split) <;> simp
    · -- the second delivery completes the frame
      have hszc : sz - r2.length ≤ c2.length := by simp at hsc; omega
      have hsz0 : sz - r2.length ≠ 0 := by omega
      have hc2 : c2 ≠ [] := by intro h; subst h; simp at hszc; omega
      rw [recvReq_main o cfg _ q c2 e (by exact hblk) (by exact hsess)
        (by intro z _ hz
            have : z = sz - r2.length := by
              have h' : some (sz - r2.length) = some z := hz
              exact (Option.some.inj h').symm
            subst this
            simp only [hbuf, List.nil_append]
            omega)]
      unfold recvReqMain
      dsimp only
      simp only [hbuf, List.nil_append]
      rw [if_neg (show ¬ (e = true ∧ c2 = []) from fun h => hc2 h.2)]
      rw [reqLoop_inFrame o cfg e _ _ q c2 (sz - r2.length) rfl hc2]
      rw [bodyLoop_fuel o cfg e c2.length m _ q c2 (sz - r2.length) rfl hsz0 hc2 (Nat.le_refl _) (by simp at hm; omega)]
      unfold bodyLoop
      rw [frameBody_full o cfg _ q c2 (sz - r2.length) rfl hszc]
      rw [frameBody_full o cfg _ q (r2 ++ c2) sz hfsE (by simp at hsc ⊢; omega)]
      have htake : List.take sz (r2 ++ c2) = r2 ++ List.take (sz - r2.length) c2 := by
        rw [List.take_append, List.take_of_length_le (by omega)]
      have hdrop : List.drop sz (r2 ++ c2) = List.drop (sz - r2.length) c2 := by
        rw [List.drop_append, List.drop_of_length_le (by omega)]; simp
      rw [htake, hdrop]
      have hsplit := handleFrame_data_split o cfg r2 (List.take (sz - r2.length) c2) S.p q
        (e && (List.drop (sz - r2.length) c2).isEmpty)
      rw [handleFrame_data, if_neg hrs] at hsplit
      simp only [Bool.false_eq_true, ↓reduceIte, false_or, true_and] at hsplit
      obtain ⟨_, hsplit⟩ := hsplit
      simp only [withRE, hft, hre, Bool.false_or]
      cases hB : handleFrame o cfg (some 0) (List.take (sz - r2.length) c2)
          { S.p with contentLength := S.p.contentLength + r2.length } q
          (e && (List.drop (sz - r2.length) c2).isEmpty) with
      | error x =>
        rw [hB] at hsplit
        dsimp only at hsplit
        rw [hsplit]
        simp [loopPost, pre, REq]
      | ok fr =>
        cases fr with
        | blocked q1 pp => rw [hB] at hsplit; exact hsplit.elim
        | done p3 q3 ev3 =>
          rw [hB] at hsplit
          dsimp only at hsplit
          obtain ⟨ev, hW, hn⟩ := hsplit
          rw [hW]
          dsimp only
          simp only [hbuf]
          rw [loopPost_prepend, loopPost_prepend, pre_pre]
          exact REq.pre hn.symm (REq.refl _)

end
end AQ.H3
