import AQ.Base.RangeSet
namespace AQ.RangeSet

def lowerBounded (lo : Nat) : List Rg → Prop
  | [] => True
  | r :: _ => lo < r.start

theorem wf_tail {r : Rg} {rs : List Rg} (h : WF (r :: rs)) : WF rs := by
  cases rs with
  | nil => trivial
  | cons r' rest => exact h.2.2

theorem wf_head {r : Rg} {rs : List Rg} (h : WF (r :: rs)) : r.start < r.stop := by
  cases rs with
  | nil => exact h
  | cons r' rest => exact h.1

theorem wf_cons {r : Rg} {rs : List Rg} (h1 : r.start < r.stop) (h2 : lowerBounded r.stop rs) (h3 : WF rs) :
    WF (r :: rs) := by
  cases rs with
  | nil => exact h1
  | cons r' rest => exact ⟨h1, h2, h3⟩

theorem wf_lb {r : Rg} {rs : List Rg} (h : WF (r :: rs)) : lowerBounded r.stop rs := by
  cases rs with
  | nil => trivial
  | cons r' rest => exact h.2.1

theorem absorb_spec (stop : Nat) (rs : List Rg) (hwf : WF rs) :
    stop ≤ (absorb stop rs).1 ∧ WF (absorb stop rs).2 ∧ lowerBounded (absorb stop rs).1 (absorb stop rs).2 := by
  induction rs generalizing stop with
  | nil => simp [absorb, WF, lowerBounded]
  | cons r rest ih =>
    unfold absorb
    split
    · have := ih (max r.stop stop) (wf_tail hwf)
      refine ⟨?_, this.2.1, this.2.2⟩
      omega
    · refine ⟨Nat.le_refl _, hwf, ?_⟩
      simp [lowerBounded]; omega

theorem add_wf (a b : Nat) (hab : a < b) (rs : List Rg) (hwf : WF rs) : WF (add a b rs) := by
  induction rs with
  | nil => simp [add, WF, hab]
  | cons r rest ih =>
    unfold add
    split
    · exact wf_cons hab (by simp [lowerBounded]; omega) hwf
    · split
      · have h1 := ih (wf_tail hwf)
        refine wf_cons (wf_head hwf) ?_ h1
        cases rest with
        | nil => simp [add, lowerBounded]; omega
        | cons r' rest' =>
          have := (wf_lb hwf); simp [lowerBounded] at this
          unfold add
          split
          · simp [lowerBounded]; omega
          · split
            · simp [lowerBounded]; omega
            · simp [lowerBounded]; omega
      · have hs := absorb_spec (max b r.stop) rest (wf_tail hwf)
        simp only []
        refine wf_cons ?_ hs.2.2 hs.2.1
        have := wf_head hwf
        simp; omega

end AQ.RangeSet
