import AQ.Base.RangeSet
namespace AQ.RangeSet

def lowerBounded (lo : Nat) : List Rg → Prop
  | [] => True
  | r :: _ => lo < r.start

theorem wf_tail {r : Rg} {rs : List Rg} (h : WF (r :: rs)) : WF rs := by
  cases rs with
  | nil => trivial
  | cons r' rest => exact h.2.2

theorem wf_head {r : Rg} {rs : List Rg} (h : WF (r :: rs)) : r.start < r.stop := by
  cases rs with
  | nil => exact h
  | cons r' rest => exact h.1

theorem wf_cons {r : Rg} {rs : List Rg} (h1 : r.start < r.stop) (h2 : lowerBounded r.stop rs) (h3 : WF rs) :
    WF (r :: rs) := by
  cases rs with
  | nil => exact h1
  | cons r' rest => exact ⟨h1, h2, h3⟩

theorem wf_lb {r : Rg} {rs : List Rg} (h : WF (r :: rs)) : lowerBounded r.stop rs := by
  cases rs with
  | nil => trivial
  | cons r' rest => exact h.2.1

theorem absorb_spec (stop : Nat) (rs : List Rg) (hwf : WF rs) :
    stop ≤ (absorb stop rs).1 ∧ WF (absorb stop rs).2 ∧ lowerBounded (absorb stop rs).1 (absorb stop rs).2 := by
  induction rs generalizing stop with
  | nil => simp [absorb, WF, lowerBounded]
  | cons r rest ih =>
    unfold absorb
    split
    · have := ih (max r.stop stop) (wf_tail hwf)
      refine ⟨?_, this.2.1, this.2.2⟩
      omega
    · refine ⟨Nat.le_refl _, hwf, ?_⟩
      simp [lowerBounded]; omega

theorem add_wf (a b : Nat) (hab : a < b) (rs : List Rg) (hwf : WF rs) : WF (add a b rs) := by
  induction rs with
  | nil => simp [add, WF, hab]
  | cons r rest ih =>
    unfold add
    split
    · exact wf_cons hab (by simp [lowerBounded]; omega) hwf
    · split
      · have h1 := ih (wf_tail hwf)
        refine wf_cons (wf_head hwf) ?_ h1
        cases rest with
        | nil => simp [add, lowerBounded]; omega
        | cons r' rest' =>
          have := (wf_lb hwf); simp [lowerBounded] at this
          unfold add
          split
          · simp [lowerBounded]; omega
          · split
            · simp [lowerBounded]; omega
            · simp [lowerBounded]; omega
      · have hs := absorb_spec (max b r.stop) rest (wf_tail hwf)
        simp only []
        refine wf_cons ?_ hs.2.2 hs.2.1
        have := wf_head hwf
        simp; omega

/-! ## Set semantics -/

@[simp] theorem mem_nil (x : Nat) : mem x [] ↔ False := by simp [mem]

theorem mem_cons {x : Nat} {r : Rg} {rs : List Rg} :
    mem x (r :: rs) ↔ (r.start ≤ x ∧ x < r.stop) ∨ mem x rs := by
  simp [mem]

theorem contains_iff_mem (x : Nat) (rs : List Rg) : contains x rs = true ↔ mem x rs := by
  simp [contains, mem]

instance (x : Nat) (rs : List Rg) : Decidable (mem x rs) :=
  decidable_of_iff _ (contains_iff_mem x rs)

/-- in a well-formed list everything after the head lies strictly above the head's stop -/
theorem wf_mem_gt {r : Rg} {rs : List Rg} (h : WF (r :: rs)) {x : Nat} (hx : mem x rs) : r.stop < x := by
  induction rs generalizing r with
  | nil => simp at hx
  | cons r' rest ih =>
    rcases mem_cons.1 hx with h1 | h1
    · have := h.2.1; omega
    · have := ih h.2.2 h1
      have := h.2.1; have := wf_head h.2.2; omega

theorem wf_cons_iff {r : Rg} {rs : List Rg} :
    WF (r :: rs) ↔ r.start < r.stop ∧ WF rs ∧ ∀ x, mem x rs → r.stop < x := by
  constructor
  · intro h; exact ⟨wf_head h, wf_tail h, fun x hx => wf_mem_gt h hx⟩
  · rintro ⟨h1, h2, h3⟩
    refine wf_cons h1 ?_ h2
    cases rs with
    | nil => trivial
    | cons r' rest =>
      have := wf_head h2
      exact h3 r'.start (mem_cons.2 (Or.inl ⟨Nat.le_refl _, this⟩))

/-- the head of a well-formed list is the least range: its start is a member and every member is ≥ it -/
theorem wf_head_least {r : Rg} {rs : List Rg} (h : WF (r :: rs)) :
    mem r.start (r :: rs) ∧ ∀ x, mem x (r :: rs) → r.start ≤ x := by
  have h0 := wf_head h
  refine ⟨mem_cons.2 (Or.inl ⟨Nat.le_refl _, h0⟩), ?_⟩
  intro x hx
  rcases mem_cons.1 hx with h1 | h1
  · exact h1.1
  · have := wf_mem_gt h h1; omega

/-- the stop of the head of a well-formed list is not a member (ranges do not touch) -/
theorem wf_head_stop_not_mem {r : Rg} {rs : List Rg} (h : WF (r :: rs)) : ¬ mem r.stop (r :: rs) := by
  intro hx
  rcases mem_cons.1 hx with h1 | h1
  · omega
  · have := wf_mem_gt h h1; omega

theorem wf_no_mem_eq_nil {rs : List Rg} (h : WF rs) (hn : ∀ x, ¬ mem x rs) : rs = [] := by
  cases rs with
  | nil => rfl
  | cons r rest => exact absurd (wf_head_least h).1 (hn _)

theorem absorb_mem (lo stop : Nat) (rs : List Rg) (hwf : WF rs)
    (hlo : ∀ x, mem x rs → lo ≤ x) (h : lo ≤ stop) (x : Nat) :
    ((lo ≤ x ∧ x < (absorb stop rs).1) ∨ mem x (absorb stop rs).2) ↔
      ((lo ≤ x ∧ x < stop) ∨ mem x rs) := by
  induction rs generalizing stop with
  | nil => simp [absorb]
  | cons r rest ih =>
    unfold absorb
    have h0 := wf_head hwf
    have h1 := hlo r.start (mem_cons.2 (Or.inl ⟨Nat.le_refl _, h0⟩))
    split
    · rw [ih (max r.stop stop) (wf_tail hwf) (fun y hy => hlo y (mem_cons.2 (Or.inr hy))) (by omega)]
      rw [mem_cons]
      constructor
      · rintro (h2 | h2)
        · by_cases x < stop
          · exact Or.inl ⟨h2.1, by omega⟩
          · exact Or.inr (Or.inl ⟨by omega, by omega⟩)
        · exact Or.inr (Or.inr h2)
      · rintro (h2 | h2 | h2)
        · exact Or.inl ⟨h2.1, by omega⟩
        · exact Or.inl ⟨by omega, by omega⟩
        · exact Or.inr h2
    · rfl

/-- `add` is set union with the interval `[a, b)` -/
theorem add_mem (a b : Nat) (hab : a < b) (rs : List Rg) (hwf : WF rs) (x : Nat) :
    mem x (add a b rs) ↔ mem x rs ∨ (a ≤ x ∧ x < b) := by
  induction rs with
  | nil => simp [add, mem]
  | cons r rest ih =>
    unfold add
    have h0 := wf_head hwf
    split
    · rw [mem_cons]; simp only []; constructor
      · rintro (h | h); exact Or.inr h; exact Or.inl h
      · rintro (h | h); exact Or.inr h; exact Or.inl h
    · split
      · rw [mem_cons, ih (wf_tail hwf), mem_cons]
        constructor
        · rintro (h | h | h)
          · exact Or.inl (Or.inl h)
          · exact Or.inl (Or.inr h)
          · exact Or.inr h
        · rintro ((h | h) | h)
          · exact Or.inl h
          · exact Or.inr (Or.inl h)
          · exact Or.inr (Or.inr h)
      · simp only []
        rw [mem_cons]
        simp only []
        have hm := absorb_mem (min a r.start) (max b r.stop) rest (wf_tail hwf)
          (fun y hy => by have := wf_mem_gt hwf hy; omega) (by omega) x
        rw [hm, mem_cons]
        constructor
        · rintro (h | h)
          · by_cases hx : a ≤ x ∧ x < b
            · exact Or.inr hx
            · exact Or.inl (Or.inl ⟨by omega, by omega⟩)
          · exact Or.inl (Or.inr h)
        · rintro ((h | h) | h)
          · exact Or.inl ⟨by omega, by omega⟩
          · exact Or.inr h
          · exact Or.inl ⟨by omega, by omega⟩

/-- `subtract` is set difference with the interval `[a, b)` -/
theorem subtract_mem (a b : Nat) (rs : List Rg) (hwf : WF rs) (x : Nat) :
    mem x (subtract a b rs) ↔ mem x rs ∧ ¬ (a ≤ x ∧ x < b) := by
  induction rs with
  | nil => simp [subtract]
  | cons r rest ih =>
    unfold subtract
    have h0 := wf_head hwf
    have hgt : mem x rest → r.stop < x := fun hy => wf_mem_gt hwf hy
    have ih := ih (wf_tail hwf)
    split
    · constructor
      · intro h
        refine ⟨h, ?_⟩
        have := (wf_head_least hwf).2 x h; omega
      · exact fun h => h.1
    · split
      · rw [mem_cons, ih, mem_cons]
        constructor
        · rintro (h | h)
          · exact ⟨Or.inl h, by omega⟩
          · exact ⟨Or.inr h.1, h.2⟩
        · rintro ⟨h | h, h2⟩
          · exact Or.inl h
          · exact Or.inr ⟨h, h2⟩
      · split
        · rw [ih, mem_cons]
          constructor
          · rintro ⟨h, h2⟩; exact ⟨Or.inr h, h2⟩
          · rintro ⟨h | h, h2⟩
            · omega
            · exact ⟨h, h2⟩
        · split
          · split
            · simp only [mem_cons]
              constructor
              · rintro (h | h | h)
                · exact ⟨Or.inl ⟨h.1, by omega⟩, by omega⟩
                · exact ⟨Or.inl ⟨by omega, h.2⟩, by omega⟩
                · have := hgt h; exact ⟨Or.inr h, by omega⟩
              · rintro ⟨h | h, h2⟩
                · by_cases x < a
                  · exact Or.inl ⟨h.1, by omega⟩
                  · exact Or.inr (Or.inl ⟨by omega, h.2⟩)
                · exact Or.inr (Or.inr h)
            · rw [mem_cons, ih, mem_cons]
              constructor
              · rintro (h | h)
                · exact ⟨Or.inl ⟨h.1, by simp only [] at h; omega⟩, by simp only [] at h; omega⟩
                · exact ⟨Or.inr h.1, h.2⟩
              · rintro ⟨h | h, h2⟩
                · exact Or.inl ⟨h.1, by simp only []; omega⟩
                · exact Or.inr ⟨h, h2⟩
          · rw [mem_cons, ih, mem_cons]
            constructor
            · rintro (h | h)
              · simp only [] at h; exact ⟨Or.inl ⟨by omega, h.2⟩, by omega⟩
              · exact ⟨Or.inr h.1, h.2⟩
            · rintro ⟨h | h, h2⟩
              · exact Or.inl ⟨by simp only []; omega, h.2⟩
              · exact Or.inr ⟨h, h2⟩

/-- `subtract` preserves well-formedness (Python asserts `stop > start`) -/
theorem subtract_wf (a b : Nat) (hab : a < b) (rs : List Rg) (hwf : WF rs) : WF (subtract a b rs) := by
  induction rs with
  | nil => simp [subtract, WF]
  | cons r rest ih =>
    unfold subtract
    have h0 := wf_head hwf
    have ih := ih (wf_tail hwf)
    have hgt : ∀ y, mem y (subtract a b rest) → r.stop < y := fun y hy =>
      wf_mem_gt hwf ((subtract_mem a b rest (wf_tail hwf) y).1 hy).1
    split
    · exact hwf
    · split
      · exact wf_cons_iff.2 ⟨h0, ih, hgt⟩
      · split
        · exact ih
        · split
          · split
            · refine wf_cons_iff.2 ⟨by simp only []; omega, wf_cons_iff.2 ⟨by simp only []; omega, wf_tail hwf, ?_⟩, ?_⟩
              · intro y hy; exact wf_mem_gt hwf hy
              · intro y hy
                simp only []
                rcases mem_cons.1 hy with h | h
                · simp only [] at h; omega
                · have := wf_mem_gt hwf h; omega
            · refine wf_cons_iff.2 ⟨by simp only []; omega, ih, ?_⟩
              intro y hy; have := hgt y hy; simp only []; omega
          · refine wf_cons_iff.2 ⟨by simp only []; omega, ih, ?_⟩
            intro y hy; exact hgt y hy

/-- the tail left by `shift` is well-formed, and the range shifted out is the least one -/
theorem shift_wf {rs rest : List Rg} {r : Rg} (hwf : WF rs) (h : shift rs = some (r, rest)) :
    WF rest ∧ rs = r :: rest ∧ (∀ x, mem x rest → r.stop < x) := by
  cases rs with
  | nil => simp [shift] at h
  | cons r' rest' =>
    simp only [shift, Option.some.injEq, Prod.mk.injEq] at h
    obtain ⟨rfl, rfl⟩ := h
    exact ⟨wf_tail hwf, rfl, fun x hx => wf_mem_gt hwf hx⟩

/-- canonicity: a well-formed list is determined by its members -/
theorem wf_ext {rs₁ rs₂ : List Rg} (h₁ : WF rs₁) (h₂ : WF rs₂)
    (h : ∀ x, mem x rs₁ ↔ mem x rs₂) : rs₁ = rs₂ := by
  induction rs₁ generalizing rs₂ with
  | nil =>
    exact (wf_no_mem_eq_nil h₂ (fun x hx => by simpa using (h x).2 hx)).symm
  | cons r₁ t₁ ih =>
    cases rs₂ with
    | nil => exact wf_no_mem_eq_nil h₁ (fun x hx => by simpa using (h x).1 hx)
    | cons r₂ t₂ =>
      have l₁ := wf_head_least h₁
      have l₂ := wf_head_least h₂
      have a₁ := wf_head h₁
      have a₂ := wf_head h₂
      have hs : r₁.start = r₂.start := by
        have := l₂.2 _ ((h _).1 l₁.1)
        have := l₁.2 _ ((h _).2 l₂.1)
        omega
      have he : r₁.stop = r₂.stop := by
        have n₁ := wf_head_stop_not_mem h₁
        have n₂ := wf_head_stop_not_mem h₂
        rcases Nat.lt_trichotomy r₁.stop r₂.stop with hlt | heq | hgt
        · exact absurd ((h _).2 (mem_cons.2 (Or.inl ⟨by omega, hlt⟩))) n₁
        · exact heq
        · exact absurd ((h _).1 (mem_cons.2 (Or.inl ⟨by omega, hgt⟩))) n₂
      have hr : r₁ = r₂ := by cases r₁; cases r₂; simp_all
      subst hr
      congr 1
      apply ih (wf_tail h₁) (wf_tail h₂)
      intro x
      have g₁ : mem x t₁ → r₁.stop < x := fun hx => wf_mem_gt h₁ hx
      have g₂ : mem x t₂ → r₁.stop < x := fun hx => wf_mem_gt h₂ hx
      have hh := h x
      rw [mem_cons, mem_cons] at hh
      constructor
      · intro hx
        have := g₁ hx
        rcases hh.1 (Or.inr hx) with h' | h'
        · omega
        · exact h'
      · intro hx
        have := g₂ hx
        rcases hh.2 (Or.inr hx) with h' | h'
        · omega
        · exact h'

end AQ.RangeSet
