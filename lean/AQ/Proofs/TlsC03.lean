import AQ.Proofs.TlsTranscript
/-
  Helpers for AQ.Props.C03: domination by a guard whose conditions are known to
  hold, and the authentication invariant of the client.
-/
namespace AQ.Tls
open AQ.Gen.Tls AQ.TlsSpec

/-- like `domOK`, with the guard allowed under conditions all contained in `known` -/
def domK (known : List (Test × Bool)) (guard sens : Act → Bool) : List Step → Bool
  | [] => true
  | s :: rest =>
    if condIncl s.cond known && guard s.act then true else !sens s.act && domK known guard sens rest

theorem domK_sound (known : List (Test × Bool)) (guard sens : Act → Bool)
    (hdisj : ∀ a, guard a = true → sens a = false) (env : Env)
    (hk : condsHold env known = true) (l : List Step) (h : domK known guard sens l = true) :
    GuardedIn guard sens (exec env l).1 := by
  induction l with
  | nil => simp [exec, enabled, execU]; exact guardedIn_nil _ _
  | cons s rest ih =>
    unfold exec enabled at ih ⊢
    simp only [List.filter_cons]
    unfold domK at h
    by_cases hg : (condIncl s.cond known && guard s.act) = true
    · simp only [Bool.and_eq_true] at hg
      have hc : condHolds env s = true := condIncl_holds env s.cond known hg.1 hk
      simp only [hc, ↓reduceIte]
      unfold execU
      cases failure env s with
      | some e => exact guardedIn_nil _ _
      | none =>
        by_cases hr : s.act = .ret
        · simp only [hr, ↓reduceIte]; exact guardedIn_nil _ _
        · simp only [hr, ↓reduceIte]
          exact guardedIn_cons_guard _ _ _ _ hg.2 (hdisj _ hg.2)
    · simp only [hg, Bool.false_eq_true, ↓reduceIte, Bool.and_eq_true, Bool.not_eq_eq_eq_not,
        Bool.not_true] at h
      by_cases hc : condHolds env s = true
      · simp only [hc, ↓reduceIte]
        unfold execU
        cases failure env s with
        | some e => exact guardedIn_nil _ _
        | none =>
          by_cases hr : s.act = .ret
          · simp only [hr, ↓reduceIte]; exact guardedIn_nil _ _
          · simp only [hr, ↓reduceIte]
            exact guardedIn_cons _ _ _ _ h.1 (ih h.2)
      · simp only [hc, Bool.false_eq_true, ↓reduceIte]
        exact ih h.2

theorem cv_cert_dom : domK [(.cv_verify_required, true)] (fun a => a == .verifyCert)
    (fun a => a == .setState .CLIENT_EXPECT_FINISHED) (flat .client_handle_certificate_verify) = true := by decide

/-- authentication state of the client: once it waits for / has accepted Finished,
    the signature AND the certificate were verified, or a PSK was accepted -/
structure AuthInv (c : Cfg) : Prop where
  fin : c.st = .CLIENT_EXPECT_FINISHED →
    (.verifySig ∈ c.log ∧ .verifyCert ∈ c.log) ∨ c.attr .session_resumed = .true
  post : c.st = .CLIENT_POST_HANDSHAKE →
    (.verifySig ∈ c.log ∧ .verifyCert ∈ c.log) ∨ c.attr .session_resumed = .true

theorem authInv_step (env : Env) (c : Cfg) (t : HT) (_hi : ClientInv c) (ha : AuthInv c) (he : EnvOK c env)
    (hv : env.test .cv_verify_required = true) : AuthInv (stepMsg env c t).1 := by
  rcases stepMsg_cfg env c t with h | ⟨f, hf, h⟩
  · rw [h]; exact ha
  rw [h]
  have hmem := exec_mem env (flat f)
  have keep : ((.verifySig ∈ c.log ∧ .verifyCert ∈ c.log) ∨ c.attr .session_resumed = .true) →
      ((.verifySig ∈ (applyAll c (exec env (flat f)).1).log ∧ .verifyCert ∈ (applyAll c (exec env (flat f)).1).log) ∨
        (applyAll c (exec env (flat f)).1).attr .session_resumed = .true) := by
    rintro (⟨h1, h2⟩ | h1)
    · exact Or.inl ⟨mem_log_mono _ _ _ h1, mem_log_mono _ _ _ h2⟩
    · exact Or.inr (resumed_stable c f env h1)
  constructor
  · intro hst
    rcases applyAll_st c (exec env (flat f)).1 with h1 | h1
    · exact keep (ha.fin (h1 ▸ hst))
    · rw [hst] at h1
      rcases hmem _ h1 with ⟨s, hs, hact, hc⟩
      rcases setState_fin_sources f s hs hact with ⟨_, hcond⟩ | hf1
      · right
        have ht := condHolds_single env s _ _ hcond hc
        have : c.attr .session_resumed = .true := by
          have := he.resumed; rw [ht] at this; simpa using this.symm
        exact resumed_stable c f env this
      · left
        subst hf1
        rcases mem_split h1 with ⟨pre, post, hp⟩
        have hd1 := dom_sound (fun a => a == .verifySig) (fun a => a == .setState .CLIENT_EXPECT_FINISHED)
          (by intro a h; simp at h; simp [h]) env _ cv_dom
        have hd2 := domK_sound [(.cv_verify_required, true)] (fun a => a == .verifyCert)
          (fun a => a == .setState .CLIENT_EXPECT_FINISHED) (by intro a h; simp at h; simp [h]) env
          (by simp [condsHold, hv]) _ cv_cert_dom
        rcases hd1 pre _ post hp (by simp) with ⟨g1, hg1, hg1'⟩
        rcases hd2 pre _ post hp (by simp) with ⟨g2, hg2, hg2'⟩
        have e1 : g1 = .verifySig := by simpa using hg1'
        have e2 : g2 = .verifyCert := by simpa using hg2'
        subst e1; subst e2
        exact ⟨mem_log_new _ _ _ (by rw [hp]; simp [hg1]), mem_log_new _ _ _ (by rw [hp]; simp [hg2])⟩
  · intro hst
    rcases applyAll_st c (exec env (flat f)).1 with h1 | h1
    · exact keep (ha.post (h1 ▸ hst))
    · rw [hst] at h1
      rcases hmem _ h1 with ⟨s, hs, hact, _⟩
      have hf1 := setState_post_sources f s hs hact
      subst hf1
      exact keep (ha.fin (finished_from c.st t hf))

/-- the client verifies certificates in every step of the sequence -/
def AllVerify : List (HT × Env) → Prop
  | [] => True
  | (_, env) :: rest => env.test .cv_verify_required = true ∧ AllVerify rest

theorem authInv_run (c : Cfg) (l : List (HT × Env)) (hi : ClientInv c) (ha : AuthInv c)
    (hc : Consistent c l) (hv : AllVerify l) : AuthInv (run c l) := by
  induction l generalizing c with
  | nil => exact ha
  | cons x rest ih =>
    rcases x with ⟨t, env⟩
    exact ih _ (clientInv_step env c t hi hc.1) (authInv_step env c t hi ha hc.1 hv.1) hc.2 hv.2

end AQ.Tls
