/-
  Packet headers: `pull_quic_header` against `encode_quic_retry`,
  `encode_quic_version_negotiation`, the header writer of
  `QuicPacketBuilder._end_packet`, and the RFC-written encoders.
-/
import AQ.Proofs.Codec
import AQ.Proofs.CodecAck

namespace AQ.Codec
open AQ

theorem pullUint8_cons (b : UInt8) (r : Bytes) : pullUint8 (b :: r) = .ok (b.toNat, r) := rfl

theorem pullUint8_byte (n : Nat) (r : Bytes) (h : n < 256) : pullUint8 (byte n :: r) = .ok (n, r) := by
  rw [pullUint8_cons, toNat_byte, Nat.mod_eq_of_lt h]

/-- bytes of the versions list of a Version Negotiation packet -/
def versionsBytes : List Nat → Bytes
  | [] => []
  | v :: vs => be4 v ++ versionsBytes vs

theorem pullVersions_bytes (vs : List Nat) (h : ∀ v ∈ vs, v < 4294967296) :
    pullVersions (versionsBytes vs) = .ok vs := by
  induction vs with
  | nil => rfl
  | cons v vs ih =>
    have hv := h v (by simp)
    have := ih (fun v hv => h v (by simp [hv]))
    simp only [versionsBytes, be4, List.cons_append, List.nil_append, pullVersions, this, toNat_byte]
    congr 2
    omega

/-- layout of a long header up to the source connection id -/
def longPrefix (fb version : Nat) (dcid scid rest : Bytes) : Bytes :=
  byte fb :: (be4 version ++ (byte dcid.length :: (dcid ++ (byte scid.length :: (scid ++ rest)))))

theorem longPrefix_length (fb version : Nat) (dcid scid rest : Bytes) :
    (longPrefix fb version dcid scid rest).length = 7 + dcid.length + scid.length + rest.length := by
  simp [longPrefix, be4]; omega

/-! ### first byte -/

/-- the long packet types -/
def PType.isLong : PType → Bool
  | .initial | .zeroRtt | .handshake | .retry => true
  | _ => false

theorem typeBits_lt (v : Nat) (pt : PType) : CodecSpec.longTypeBits v pt < 4 := by
  cases pt <;> simp only [CodecSpec.longTypeBits] <;> (try split) <;> omega

theorem longTypeEncode_eq (v : Nat) (pt : PType) (h : pt.isLong = true) :
    longTypeEncode v pt = .ok (CodecSpec.longTypeBits v pt) := by
  have e : VERSION_2 = 0x6b3343cf := rfl
  cases pt <;> simp [PType.isLong] at h <;> simp only [longTypeEncode, CodecSpec.longTypeBits, e]

theorem longTypeDecode_bits (v : Nat) (pt : PType) (h : pt.isLong = true) :
    longTypeDecode v (CodecSpec.longTypeBits v pt) = pt := by
  have e : VERSION_2 = 0x6b3343cf := rfl
  cases pt <;> simp [PType.isLong] at h <;>
    (simp only [longTypeDecode, CodecSpec.longTypeBits, e]; split <;> rfl)

theorem fb_lor : ∀ t, t < 4 → ∀ bits, bits < 16 → 128 ||| 64 ||| t * 16 ||| bits = 128 + 64 + 16 * t + bits := by
  decide

theorem fb_props : ∀ t, t < 4 → ∀ bits, bits < 16 →
    ((128 + 64 + 16 * t + bits) &&& 128 != 0) = true ∧ ((128 + 64 + 16 * t + bits) &&& 64 != 0) = true ∧
      ((128 + 64 + 16 * t + bits) &&& 48) / 16 = t := by
  decide

/-- `encode_long_header_first_byte` = RFC 9000 §17.2 / RFC 9369 §3.2 first byte -/
theorem firstByte_eq_spec (v : Nat) (pt : PType) (bits : Nat) (h : pt.isLong = true) (hb : bits < 16) :
    encodeLongHeaderFirstByte v pt bits = .ok (CodecSpec.longFirstByte v pt bits) := by
  unfold encodeLongHeaderFirstByte
  rw [longTypeEncode_eq v pt h]
  simp only [CodecSpec.longFirstByte]
  rw [fb_lor _ (typeBits_lt v pt) _ hb]

theorem longFirstByte_lt (v : Nat) (pt : PType) (bits : Nat) (hb : bits < 16) :
    CodecSpec.longFirstByte v pt bits < 256 := by
  have := typeBits_lt v pt
  unfold CodecSpec.longFirstByte
  omega

/-! ### reading a long header -/

theorem pullBytes_retry_token (token tag : Bytes) (h : tag.length = 16)
    (hl : token.length < 9223372036854775808) :
    pullBytes ((((token ++ tag).length : Nat) : Int) - 16) (token ++ tag) = .ok (token, tag) := by
  have : (((token ++ tag).length : Nat) : Int) - 16 = (token.length : Int) := by
    simp only [List.length_append]; omega
  rw [this]
  exact pullBytes_append token tag hl

theorem pullBytes_all16 (d : Bytes) (h : d.length = 16) : pullBytes 16 d = .ok (d, []) := by
  have := pullBytes_append d [] (by omega)
  rw [h] at this
  simpa using this

/-- a 2-byte varint (prefix `01`) as written by `push_uint16(length | 0x4000)` -/
theorem pullUintVar_be2 (v : Nat) (x : Bytes) (h : v < 16384) :
    pullUintVar (be2 (v + 16384) ++ x) = .ok (v, x) := by
  simp only [be2, List.cons_append, List.nil_append, pullUintVar, toNat_byte]
  have h1 : (v + 16384) / 256 % 256 / 64 = 1 := by omega
  simp only [h1]
  congr 2; omega

/-- **Version Negotiation**: `pull_quic_header` on the RFC 9000 §17.2.1 layout -/
theorem vn_header (n0 : Nat) (hcl : Option Int) (fb : Nat) (dcid scid : Bytes) (vs : List Nat)
    (hfb : fb < 256) (hlong : (fb &&& 128 != 0) = true)
    (hd : dcid.length ≤ 20) (hs : scid.length ≤ 20) (hvs : ∀ v ∈ vs, v < 4294967296) :
    pullQuicHeaderFrom n0 hcl (longPrefix fb 0 dcid scid (versionsBytes vs)) =
      .ok ({ version := some 0, ptype := .versionNegotiation, packetLength := n0, dcid := dcid, scid := scid,
             token := [], tag := [], versions := vs }, []) := by
  unfold longPrefix
  have hdl : dcid.length < 256 := by omega
  have hsl : scid.length < 256 := by omega
  simp only [pullQuicHeaderFrom, Rd.bind_apply, pullUint8_byte _ _ hfb, hlong, if_true,
    uint32_roundtrip _ _ (show 0 < 4294967296 by omega), pullUint8_byte _ _ hdl, pullUint8_byte _ _ hsl,
    show decide (dcid.length ≤ 20) = true from by simpa using hd,
    show decide (scid.length ≤ 20) = true from by simpa using hs, Rd.guard_true,
    pullBytes_append _ _ (show dcid.length < 9223372036854775808 by omega),
    pullBytes_append _ _ (show scid.length < 9223372036854775808 by omega),
    pullAllVersions, pullVersions_bytes vs hvs, Rd.remaining_apply, Rd.pure_apply,
    List.length_nil, Nat.sub_zero]

/-- the common part of a long header with a non-zero version: after the
    connection ids the parser continues with `pullLongRest` -/
theorem long_header_step (n0 : Nat) (hcl : Option Int) (fb version : Nat) (dcid scid rest : Bytes)
    (hfb : fb < 256) (hlong : (fb &&& 128 != 0) = true) (hv : version < 4294967296) (hv0 : version ≠ 0)
    (hd : dcid.length ≤ 20) (hs : scid.length ≤ 20) :
    pullQuicHeaderFrom n0 hcl (longPrefix fb version dcid scid rest) =
      match pullLongRest version fb rest with
      | .ok ((pt, token, tag, restLength), s') =>
        if restLength ≤ s'.length then
          .ok ({ version := some version, ptype := pt, packetLength := n0 - s'.length + restLength,
                 dcid := dcid, scid := scid, token := token, tag := tag, versions := [] }, s')
        else .error (.py .value)
      | .error e => .error e := by
  unfold longPrefix
  have hdl : dcid.length < 256 := by omega
  have hsl : scid.length < 256 := by omega
  simp only [pullQuicHeaderFrom, Rd.bind_apply, pullUint8_byte _ _ hfb, hlong, if_true,
    uint32_roundtrip _ _ hv, pullUint8_byte _ _ hdl, pullUint8_byte _ _ hsl,
    show decide (dcid.length ≤ 20) = true from by simpa using hd,
    show decide (scid.length ≤ 20) = true from by simpa using hs, Rd.guard_true,
    pullBytes_append _ _ (show dcid.length < 9223372036854775808 by omega),
    pullBytes_append _ _ (show scid.length < 9223372036854775808 by omega), hv0, if_false]
  cases hr : pullLongRest version fb rest with
  | error e => rfl
  | ok a =>
    obtain ⟨⟨pt, token, tag, restLength⟩, s'⟩ := a
    simp only [Rd.remaining_apply, Rd.pure_apply]
    by_cases hle : restLength ≤ s'.length
    · simp [hle]
    · simp [hle]

/-- **Retry**: `pull_quic_header` on the RFC 9000 §17.2.5 layout -/
theorem retry_header (hcl : Option Int) (version unused : Nat) (dcid scid token tag : Bytes)
    (hv : version < 4294967296) (hv0 : version ≠ 0) (hu : unused < 16)
    (hd : dcid.length ≤ 20) (hs : scid.length ≤ 20) (htag : tag.length = 16)
    (htok : token.length < 9223372036854775808) :
    pullQuicHeader hcl (longPrefix (CodecSpec.longFirstByte version .retry unused) version dcid scid (token ++ tag)) =
      .ok ({ version := some version, ptype := .retry,
             packetLength := 7 + dcid.length + scid.length + token.length + 16,
             dcid := dcid, scid := scid, token := token, tag := tag, versions := [] }, []) := by
  have ht := typeBits_lt version .retry
  obtain ⟨p1, p2, p3⟩ := fb_props _ ht _ hu
  unfold pullQuicHeader
  rw [long_header_step _ _ _ _ _ _ _ (longFirstByte_lt _ _ _ hu) p1 hv hv0 hd hs]
  have hrest : pullLongRest version (CodecSpec.longFirstByte version .retry unused) (token ++ tag) =
      .ok ((.retry, token, tag, 0), []) := by
    unfold pullLongRest CodecSpec.longFirstByte
    simp only [Rd.bind_apply, p2, Rd.guard_true, p3, longTypeDecode_bits version .retry rfl,
      Rd.remaining_apply, pullBytes_retry_token token tag htag htok,
      pullBytes_all16 tag htag, Rd.pure_apply]
  rw [hrest]
  simp only [List.length_nil, Nat.zero_le, if_true, Nat.sub_zero, Nat.add_zero, longPrefix_length,
    List.length_append, htag]
  congr 3

/-- **Initial** long header followed by `x` (packet number + payload): the
    Length field is a 2-byte varint as the builder writes it -/
theorem initial_header (hcl : Option Int) (version low4 : Nat) (dcid scid token x : Bytes) (length : Nat)
    (hv : version < 4294967296) (hv0 : version ≠ 0) (hu : low4 < 16)
    (hd : dcid.length ≤ 20) (hs : scid.length ≤ 20)
    (htok : token.length < 4611686018427387904) (hlen : length < 16384) (hx : length ≤ x.length) :
    pullQuicHeader hcl (longPrefix (CodecSpec.longFirstByte version .initial low4) version dcid scid
        (encV token.length ++ (token ++ (be2 (length + 16384) ++ x)))) =
      .ok ({ version := some version, ptype := .initial,
             packetLength := 7 + dcid.length + scid.length + (encV token.length).length + token.length + 2 + length,
             dcid := dcid, scid := scid, token := token, tag := [], versions := [] }, x) := by
  have ht := typeBits_lt version .initial
  obtain ⟨p1, p2, p3⟩ := fb_props _ ht _ hu
  unfold pullQuicHeader
  rw [long_header_step _ _ _ _ _ _ _ (longFirstByte_lt _ _ _ hu) p1 hv hv0 hd hs]
  have hrest : pullLongRest version (CodecSpec.longFirstByte version .initial low4)
      (encV token.length ++ (token ++ (be2 (length + 16384) ++ x))) = .ok ((.initial, token, [], length), x) := by
    unfold pullLongRest CodecSpec.longFirstByte
    simp only [Rd.bind_apply, p2, Rd.guard_true, p3, longTypeDecode_bits version .initial rfl,
      varint_roundtrip _ _ htok, pullBytes_append _ _ (show token.length < 9223372036854775808 by omega),
      pullUintVar_be2 _ _ hlen, Rd.pure_apply]
  rw [hrest]
  simp only [hx, if_true, longPrefix_length, List.length_append, be2, List.length_cons, List.length_nil]
  congr 3
  omega

/-- **0-RTT / Handshake** long header followed by `x` -/
theorem plain_long_header (hcl : Option Int) (version low4 : Nat) (pt : PType) (dcid scid x : Bytes) (length : Nat)
    (hpt : pt = .zeroRtt ∨ pt = .handshake)
    (hv : version < 4294967296) (hv0 : version ≠ 0) (hu : low4 < 16)
    (hd : dcid.length ≤ 20) (hs : scid.length ≤ 20) (hlen : length < 16384) (hx : length ≤ x.length) :
    pullQuicHeader hcl (longPrefix (CodecSpec.longFirstByte version pt low4) version dcid scid
        (be2 (length + 16384) ++ x)) =
      .ok ({ version := some version, ptype := pt,
             packetLength := 7 + dcid.length + scid.length + 2 + length,
             dcid := dcid, scid := scid, token := [], tag := [], versions := [] }, x) := by
  have hl : pt.isLong = true := by rcases hpt with rfl | rfl <;> rfl
  have ht := typeBits_lt version pt
  obtain ⟨p1, p2, p3⟩ := fb_props _ ht _ hu
  unfold pullQuicHeader
  rw [long_header_step _ _ _ _ _ _ _ (longFirstByte_lt _ _ _ hu) p1 hv hv0 hd hs]
  have hrest : pullLongRest version (CodecSpec.longFirstByte version pt low4)
      (be2 (length + 16384) ++ x) = .ok ((pt, [], [], length), x) := by
    unfold pullLongRest CodecSpec.longFirstByte
    simp only [Rd.bind_apply, p2, Rd.guard_true, p3, longTypeDecode_bits version pt hl]
    rcases hpt with rfl | rfl <;> simp only [Rd.bind_apply, pullUintVar_be2 _ _ hlen, Rd.pure_apply]
  rw [hrest]
  simp only [hx, if_true, longPrefix_length, List.length_append, be2, List.length_cons, List.length_nil]
  congr 3
  omega

theorem short_fb_props : ∀ spin, spin < 2 → ∀ kp, kp < 2 →
    (64 ||| spin * 32 ||| kp * 4 ||| 1) = 64 + 32 * spin + 4 * kp + 1 ∧
    ((64 + 32 * spin + 4 * kp + 1) &&& 128 != 0) = false ∧ ((64 + 32 * spin + 4 * kp + 1) &&& 64 != 0) = true := by
  decide

/-- **short header** with `host_cid_length = len(dcid)` followed by `x` -/
theorem short_header (fb : Nat) (dcid x : Bytes) (hfb : fb < 256)
    (hshort : (fb &&& 128 != 0) = false) (hfixed : (fb &&& 64 != 0) = true)
    (hd : dcid.length < 9223372036854775808) :
    pullQuicHeader (some (dcid.length : Int)) (byte fb :: (dcid ++ x)) =
      .ok ({ version := none, ptype := .oneRtt, packetLength := 1 + dcid.length + x.length,
             dcid := dcid, scid := [], token := [], tag := [], versions := [] }, x) := by
  unfold pullQuicHeader
  simp only [pullQuicHeaderFrom, Rd.bind_apply, pullUint8_byte _ _ hfb, hshort, hfixed, Rd.guard_true,
    pullBytes_append _ _ hd, Rd.pure_apply, List.length_cons, List.length_append,
    Bool.false_eq_true, if_false]
  congr 3
  omega

/-! ### the encoders write these layouts -/

theorem chunkUint8_nat (n : Nat) (h : n < 256) : chunkUint8 (n : Int) = .ok [byte n] := by
  simp only [chunkUint8, be1, argChecked_ofNat 255 n (by omega)]

theorem chunkUint32_nat (n : Nat) (h : n < 4294967296) : chunkUint32 (n : Int) = .ok (be4 n) := by
  simp only [chunkUint32, argChecked_ofNat 4294967295 n (by omega)]

theorem chunkUint16_nat (n : Nat) (h : n < 65536) : chunkUint16 (n : Int) = .ok (be2 n) := by
  simp only [chunkUint16, argChecked_ofNat 65535 n (by omega)]

theorem chunkUint64_nat (n : Nat) (h : n < 18446744073709551616) : chunkUint64 (n : Int) = .ok (be8 n) := by
  simp only [chunkUint64, argChecked_ofNat 18446744073709551615 n (by omega)]

/-- the bytes `encode_quic_retry` pushes -/
theorem retryScript_bytes (version unused : Nat) (scid dcid token tag : Bytes)
    (hv : version < 4294967296) (hu : unused < 16) (hd : dcid.length < 256) (hs : scid.length < 256)
    (htag : tag.length = 16) :
    (retryScript version scid dcid token tag unused).bytes =
      .ok (longPrefix (CodecSpec.longFirstByte version .retry unused) version dcid scid (token ++ tag)) := by
  unfold retryScript
  rw [firstByte_eq_spec version .retry unused rfl hu]
  simp only [chunkUint8_nat _ (longFirstByte_lt version .retry unused hu), chunkUint32_nat _ hv,
    chunkUint8_nat _ hd, chunkUint8_nat _ hs, htag, if_true]
  simp [Script.bytes, longPrefix]

theorem encodeQuicRetry_eq (version unused : Nat) (scid dcid token tag : Bytes)
    (hv : version < 4294967296) (hu : unused < 16) (hd : dcid.length < 256) (hs : scid.length < 256)
    (htag : tag.length = 16) :
    encodeQuicRetry version scid dcid token tag unused =
      .ok (longPrefix (CodecSpec.longFirstByte version .retry unused) version dcid scid (token ++ tag)) := by
  have hb := retryScript_bytes version unused scid dcid token tag hv hu hd hs htag
  have hlen : (longPrefix (CodecSpec.longFirstByte version .retry unused) version dcid scid (token ++ tag)).length =
      7 + dcid.length + scid.length + token.length + 16 := by
    rw [longPrefix_length, List.length_append, htag]; omega
  obtain ⟨b, hrun, hdata, hpos, hmem⟩ := Script.run_fresh _ _ (7 + dcid.length + scid.length + token.length + 16) hb
    (by omega)
  unfold encodeQuicRetry
  rw [hrun]
  simp only [Buf.eof, hpos, hmem, hlen, beq_self_eq_true, if_true, hdata]

theorem map_chunkUint32 (vs : List Nat) (h : ∀ v ∈ vs, v < 4294967296) :
    Script.bytes ((vs.map (fun (v : Nat) => (v : Int))).map chunkUint32) = .ok (versionsBytes vs) := by
  induction vs with
  | nil => rfl
  | cons v vs ih =>
    have := ih (fun v hv => h v (by simp [hv]))
    simp only [List.map_cons, chunkUint32_nat _ (h v (by simp)), versionsBytes]
    rw [Script.bytes_cons_ok _ _ _ this]

theorem versionsBytes_length (vs : List Nat) : (versionsBytes vs).length = 4 * vs.length := by
  induction vs with
  | nil => rfl
  | cons v vs ih => simp only [versionsBytes, be4, List.length_append, List.length_cons, List.length_nil, ih]; omega

theorem lor128_props : ∀ rnd, rnd < 256 → rnd ||| 128 < 256 ∧ ((rnd ||| 128) &&& 128 != 0) = true := by
  decide +kernel

theorem encodeQuicVersionNegotiation_eq (rnd : Nat) (scid dcid : Bytes) (vs : List Nat)
    (hr : rnd < 256) (hd : dcid.length < 256) (hs : scid.length < 256) (hvs : ∀ v ∈ vs, v < 4294967296) :
    encodeQuicVersionNegotiation rnd scid dcid (vs.map (fun (v : Nat) => (v : Int))) =
      .ok (longPrefix (rnd ||| 128) 0 dcid scid (versionsBytes vs)) := by
  have hb : (vnScript rnd scid dcid (vs.map (fun (v : Nat) => (v : Int)))).bytes =
      .ok (longPrefix (rnd ||| 128) 0 dcid scid (versionsBytes vs)) := by
    unfold vnScript
    have h0 : chunkUint32 0 = .ok (be4 0) := chunkUint32_nat 0 (by omega)
    simp only [chunkUint8_nat _ (lor128_props rnd hr).1, h0, chunkUint8_nat _ hd, chunkUint8_nat _ hs]
    have := map_chunkUint32 vs hvs
    simp only [List.cons_append, List.nil_append]
    rw [Script.bytes_cons_ok _ _ _ (Script.bytes_cons_ok _ _ _ (Script.bytes_cons_ok _ _ _
      (Script.bytes_cons_ok _ _ _ (Script.bytes_cons_ok _ _ _ (Script.bytes_cons_ok _ _ _ this)))))]
    simp [longPrefix]
  obtain ⟨b, hrun, hdata, _, _⟩ := Script.run_fresh _ _
    (7 + dcid.length + scid.length + 4 * (vs.map (fun (v : Nat) => (v : Int))).length) hb
    (by rw [longPrefix_length, versionsBytes_length, List.length_map]; omega)
  unfold encodeQuicVersionNegotiation
  simp only [hrun, hdata]

/-! ### the RFC-written encoders produce the same layouts -/

theorem beBytes4 (v : Nat) : CodecSpec.beBytes 4 v = be4 v := by
  simp only [CodecSpec.beBytes, be4, List.nil_append, List.cons_append]
  repeat' (first | (congr 1; exact ofNat_congr (by omega)) | congr 1)

theorem beBytes2 (v : Nat) : CodecSpec.beBytes 2 v = be2 v := by
  simp only [CodecSpec.beBytes, be2, List.nil_append, List.cons_append]
  repeat' (first | (congr 1; exact ofNat_congr (by omega)) | congr 1)

theorem specVersions (vs : List Nat) : (vs.map (CodecSpec.beBytes 4)).flatten = versionsBytes vs := by
  induction vs with
  | nil => rfl
  | cons v vs ih => simp only [List.map_cons, List.flatten_cons, ih, beBytes4, versionsBytes]

theorem specRetry_eq (version unused : Nat) (dcid scid token tag : Bytes) :
    CodecSpec.encRetry version dcid scid token tag unused =
      longPrefix (CodecSpec.longFirstByte version .retry unused) version dcid scid (token ++ tag) := by
  simp [CodecSpec.encRetry, longPrefix, beBytes4, byte]

theorem specVN_eq (unused7 : Nat) (dcid scid : Bytes) (vs : List Nat) :
    CodecSpec.encVersionNegotiation unused7 dcid scid vs =
      longPrefix (128 + unused7) 0 dcid scid (versionsBytes vs) := by
  simp [CodecSpec.encVersionNegotiation, longPrefix, beBytes4, specVersions, byte]

/-! ### the header writer of `QuicPacketBuilder._end_packet` -/

theorem lor_4000 (length : Nat) (h : length < 16384) : length ||| 0x4000 = length + 16384 := by
  have := Nat.two_pow_add_eq_or_of_lt (i := 14) (b := length) (by simpa using h) 1
  rw [Nat.or_comm]
  simp only [Nat.reducePow, Nat.mul_one] at this
  omega

theorem and_ffff (pn : Nat) : pn &&& 0xFFFF = pn % 65536 := Nat.and_two_pow_sub_one_eq_mod pn 16

/-- the layout after the connection ids of a builder-written long header -/
def builderRest (pt : PType) (token : Bytes) (length pn : Nat) : Bytes :=
  (if pt = .initial then encV token.length ++ token else []) ++ (be2 (length + 16384) ++ be2 (pn % 65536))

theorem builderLongHeader_bytes (version : Nat) (pt : PType) (peer host token : Bytes) (length pn : Nat)
    (hpt : pt = .initial ∨ pt = .zeroRtt ∨ pt = .handshake)
    (hv : version < 4294967296) (hd : peer.length < 256) (hs : host.length < 256)
    (htok : token.length < 4611686018427387904) (hlen : length < 16384) :
    (builderLongHeaderScript version pt peer host token length pn).bytes =
      .ok (longPrefix (CodecSpec.longFirstByte version pt 1) version peer host (builderRest pt token length pn)) := by
  have hl : pt.isLong = true := by rcases hpt with rfl | rfl | rfl <;> rfl
  unfold builderLongHeaderScript
  rw [firstByte_eq_spec version pt 1 hl (by omega), lor_4000 _ hlen, and_ffff]
  simp only [chunkUint8_nat _ (longFirstByte_lt version pt 1 (by omega)), chunkUint32_nat _ hv,
    chunkUint8_nat _ hd, chunkUint8_nat _ hs, chunkUint16_nat _ (show length + 16384 < 65536 by omega),
    chunkUint16_nat _ (show pn % 65536 < 65536 by omega), chunkUintVar_ofNat _ htok]
  rcases hpt with rfl | rfl | rfl <;> simp [Script.bytes, longPrefix, builderRest]

theorem builderShortHeader_bytes (spin kp : Nat) (peer : Bytes) (pn : Nat) (hsp : spin < 2) (hkp : kp < 2) :
    (builderShortHeaderScript spin kp peer pn).bytes =
      .ok (byte (CodecSpec.shortFirstByte spin kp 2) :: (peer ++ be2 (pn % 65536))) := by
  unfold builderShortHeaderScript
  have h1 := (short_fb_props spin hsp kp hkp).1
  have h2 : (64 ||| spin * 32 ||| kp * 4 ||| 1) < 256 := by rw [h1]; omega
  rw [and_ffff]
  simp only [chunkUint8_nat _ h2, chunkUint16_nat _ (show pn % 65536 < 65536 by omega)]
  simp [Script.bytes, h1, CodecSpec.shortFirstByte]

theorem specLongHeader_eq (version : Nat) (pt : PType) (dcid scid token : Bytes) (length pn : Nat)
    (htok : token.length < 4611686018427387904) :
    CodecSpec.encLongHeader version pt dcid scid token 1 length 2 (pn % 65536) =
      longPrefix (CodecSpec.longFirstByte version pt 1) version dcid scid (builderRest pt token length pn) := by
  have e : CodecSpec.encVarintW 1 length = be2 (length + 16384) := by
    simp only [CodecSpec.encVarintW, Nat.pow_one, Nat.reduceMul, Nat.reduceSub, Nat.reducePow, Nat.one_mul,
      beBytes2]
    rw [Nat.add_comm]
  unfold CodecSpec.encLongHeader
  rw [e, beBytes2, beBytes4, specVarint_eq _ htok]
  by_cases h : pt = .initial <;> simp [longPrefix, builderRest, byte, h]

theorem specShortHeader_eq (spin kp : Nat) (dcid : Bytes) (pn : Nat) :
    CodecSpec.encShortHeader spin kp dcid 2 (pn % 65536) =
      byte (CodecSpec.shortFirstByte spin kp 2) :: (dcid ++ be2 (pn % 65536)) := by
  simp [CodecSpec.encShortHeader, beBytes2, byte]

end AQ.Codec
