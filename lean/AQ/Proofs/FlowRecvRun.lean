/-
  Run-level receive-side statements over ALL operation sequences of the FlowRecv
  model: the advertised limits (largest value put on the wire), their
  monotonicity, the buffering bounds in terms of them.
-/
import AQ.Proofs.FlowStreamIds

namespace AQ.Flow
open AQ AQ.Stream AQ.RangeSet

theorem run_fst (c : Conn) (ops : List Op) : (run c ops).1 = runState c ops := by
  induction ops generalizing c with
  | nil => rfl
  | cons op ops ih => simp only [run, runState, List.foldl_cons]; exact ih _

theorem run_snoc (c : Conn) (ops : List Op) (op : Op) :
    run c (ops ++ [op]) = ((step (run c ops).1 op).1, (run c ops).2 ++ [(step (run c ops).1 op).2]) := by
  induction ops generalizing c with
  | nil => simp [run]
  | cons o ops ih => simp only [List.cons_append, run, ih]

/-- `L` is the largest element of `l` -/
def IsLargest (L : Nat) (l : List Nat) : Prop := L ∈ l ∧ ∀ v ∈ l, v ≤ L

theorem IsLargest.unique {a b : Nat} {l : List Nat} (ha : IsLargest a l) (hb : IsLargest b l) : a = b := by
  have := ha.2 b hb.1; have := hb.2 a ha.1; omega

/-- the initial value of a connection-level limit of kind `k` (transport parameter) -/
def initOf (c0 : Conn) (k : LimitKind) : Nat := (limOf c0 k).value

/-- the connection-level limit of kind `k` that has been ADVERTISED: the largest of
    the transport parameter and the values of the frames written so far -/
def AdvConn (c0 : Conn) (outs : List Out) (k : LimitKind) (L : Nat) : Prop :=
  IsLargest L (initOf c0 k :: advertisedK k outs)

/-- the per-stream limit that has been ADVERTISED for stream `sid`: the largest of
    the transport parameter for its type and the MAX_STREAM_DATA frames written for it -/
def AdvStream (c0 : Conn) (outs : List Out) (sid : Nat) (L : Nat) : Prop :=
  IsLargest L (initLocal c0 sid :: msdOf sid outs)

/-- enforced = advertised, connection level -/
theorem advConn_run (c0 : Conn) (hq : c0.quirks.raiseBeforeWrite = false) (k : LimitKind) (ops : List Op) :
    AdvConn c0 (run c0 ops).2 k (limOf (runState c0 ops) k).value := by
  obtain ⟨h1, h2, h3⟩ := run_adv c0 hq k ops
  rw [run_fst] at h1 h2 h3
  refine ⟨?_, ?_⟩
  · rcases h3 with h | h
    · rw [h]; exact List.mem_cons_self
    · exact List.mem_cons_of_mem _ h
  · intro v hv
    rcases List.mem_cons.mp hv with h | h
    · rw [h]; exact h2
    · exact h1 v h

/-! ## `max_stream_data_local` never falls below the value the stream was created with -/

theorem mem_setFirst' {sid v : Nat} {ps : List (Nat × Nat)} {p : Nat × Nat}
    (hp : p ∈ setFirst sid v ps) : p = (sid, v) ∨ p ∈ ps := by
  induction ps with
  | nil => simp [setFirst] at hp
  | cons q qs ih =>
    unfold setFirst at hp
    split at hp
    · rcases List.mem_cons.mp hp with h | h
      · exact .inl h
      · exact .inr (List.mem_cons_of_mem _ h)
    · rcases List.mem_cons.mp hp with h | h
      · exact .inr (h ▸ List.mem_cons_self)
      · rcases ih h with h' | h'
        · exact .inl h'
        · exact .inr (List.mem_cons_of_mem _ h')

def GeInit (c0 c : Conn) : Prop := ∀ p ∈ ml c.streams, initLocal c0 p.1 ≤ p.2

theorem GeInit.step {c0 c c' : Conn} {out : Out} (hc : Cfg c0 c) (h : GeInit c0 c) (hs : MLStep c c' out) :
    GeInit c0 c' := by
  intro p hp
  cases hs with
  | same cfg hml hfin hno => rw [hml] at hp; exact h p hp
  | add cfg sid hml hnone hnf hfin hno =>
    rw [hml] at hp
    rcases List.mem_append.mp hp with hp | hp
    · exact h p hp
    · simp at hp; subst hp; simp only []; rw [hc.initLocal]; exact Nat.le_refl _
  | discard cfg sid st hf hdone hml hfin hno =>
    rw [hml] at hp
    exact h p (List.mem_filter.mp hp).1
  | raise cfg sid m v hf hle hml hfin hfr =>
    rw [hml] at hp
    rcases mem_setFirst' hp with hp | hp
    · subst hp
      have := h (sid, m) hf
      simp only [] at this ⊢; omega
    · exact h p hp

theorem run_geInit {c0 c : Conn} (hq : FixedQ c) (hc : Cfg c0 c) (h : GeInit c0 c) (ops : List Op) :
    GeInit c0 (runState c ops) := by
  induction ops generalizing c with
  | nil => exact h
  | cons op ops ih =>
    simp only [runState, List.foldl_cons]
    have hs := step_mlstep c hq op
    exact ih (hq.step op) (hc.trans hs.cfg') (h.step hc hs)

/-- enforced = advertised, per stream: on every state reachable from a connection
    without streams, `max_stream_data_local` of a live stream is the advertised
    per-stream limit -/
theorem advStream_run (c0 : Conn) (hq : FixedQ c0) (h0 : c0.streams = []) (ops : List Op) :
    ∀ s ∈ (runState c0 ops).streams, AdvStream c0 (run c0 ops).2 s.sid s.maxLocal := by
  have hQ0 : Q c0 [] := ⟨by simp [h0, ml], by simp [h0, ml], by intro _ _ _ v hv; simp [msdOf] at hv⟩
  obtain ⟨hQ, hcfg⟩ := run_Q hq [] hQ0 ops
  have hge := run_geInit hq (Cfg.refl c0) (by intro p hp; simp [h0, ml] at hp) ops
  rw [run_fst] at hQ hcfg
  intro s hs
  have hm : (s.sid, s.maxLocal) ∈ ml (runState c0 ops).streams := List.mem_map.mpr ⟨s, hs, rfl⟩
  have hl := hQ.live _ hm
  simp only [List.nil_append] at hl
  rw [hcfg.initLocal] at hl
  refine ⟨?_, ?_⟩
  · rcases hl.2 with h | h
    · rw [h]; exact List.mem_cons_self
    · exact List.mem_cons_of_mem _ h
  · intro v hv
    rcases List.mem_cons.mp hv with h | h
    · rw [h]; exact hge _ hm
    · exact hl.1 v h

/-- nothing was ever advertised for a stream id that was never created: its
    advertised limit is the transport parameter for its type -/
theorem advStream_fresh (c0 : Conn) (hq : FixedQ c0) (h0 : c0.streams = []) (ops : List Op) (sid : Nat)
    (hn : (runState c0 ops).find? sid = none) (hnf : sid ∉ (runState c0 ops).finishedIds) :
    AdvStream c0 (run c0 ops).2 sid (initLocal c0 sid) := by
  have hQ0 : Q c0 [] := ⟨by simp [h0, ml], by simp [h0, ml], by intro _ _ _ v hv; simp [msdOf] at hv⟩
  obtain ⟨hQ, _⟩ := run_Q hq [] hQ0 ops
  rw [run_fst] at hQ
  have := hQ.dead sid (find?_none_iff_keys.mp hn) hnf
  simp only [List.nil_append] at this
  refine ⟨List.mem_cons_self, ?_⟩
  intro v hv
  rcases List.mem_cons.mp hv with h | h
  · omega
  · exact absurd h (this v)

end AQ.Flow
