/-
  Every frame type that names a stream id goes through `_get_or_create_stream`:
  decision lists of STOP_SENDING / MAX_STREAM_DATA / STREAM_DATA_BLOCKED, the
  STREAM_STATE_ERROR condition, and when a stream may be discarded.
-/
import AQ.Proofs.FlowStreamAdv2

namespace AQ.Flow
open AQ AQ.Stream AQ.RangeSet

/-- outcome of `_get_or_create_stream` as the error of the frame handler -/
def getErrOf (c : Conn) (sid : Nat) : Option Err :=
  match getOrCreateStream c sid with
  | .error .finished => none
  | .error (.conn code) => some (.conn code)
  | .ok _ => none

theorem rxStopSending_err (c : Conn) (sid : Nat) :
    (rxStopSending c sid).2.err = if !c.canSend sid then some (.conn STREAM_STATE_ERROR) else getErrOf c sid := by
  unfold rxStopSending getErrOf
  split
  · rfl
  · cases hg : getOrCreateStream c sid with
    | error e => cases e <;> simp [GetErr.out, Out.connError]
    | ok p => rfl

theorem rxMaxStreamData_err (c : Conn) (sid v : Nat) :
    (rxMaxStreamData c sid v).2.err = if !c.canSend sid then some (.conn STREAM_STATE_ERROR) else getErrOf c sid := by
  unfold rxMaxStreamData getErrOf
  split
  · rfl
  · cases hg : getOrCreateStream c sid with
    | error e => cases e <;> simp [GetErr.out, Out.connError]
    | ok p => obtain ⟨c', st⟩ := p; simp only []; split <;> rfl

theorem rxStreamDataBlocked_err (c : Conn) (sid : Nat) :
    (rxStreamDataBlocked c sid).2.err =
      if !c.canReceive sid then some (.conn STREAM_STATE_ERROR) else getErrOf c sid := by
  unfold rxStreamDataBlocked getErrOf
  split
  · rfl
  · cases hg : getOrCreateStream c sid with
    | error e => cases e <;> simp [GetErr.out, Out.connError]
    | ok p => rfl

/-- the stream-count condition: a new peer-initiated stream beyond the limit in force -/
def OverStreamLimit (c : Conn) (sid : Nat) : Prop :=
  sid ∉ c.finishedIds ∧ c.find? sid = none ∧ clientInitiated sid ≠ c.isClient ∧
  sid / 4 + 1 > (if unidirectional sid then c.localMaxStreamsUni.value else c.localMaxStreamsBidi.value)

/-- a frame for a stream only this endpoint may open, which it has not opened -/
def WrongInitiator (c : Conn) (sid : Nat) : Prop :=
  sid ∉ c.finishedIds ∧ c.find? sid = none ∧ clientInitiated sid = c.isClient

theorem getErrOf_limit_iff (c : Conn) (sid : Nat) :
    getErrOf c sid = some (.conn STREAM_LIMIT_ERROR) ↔ OverStreamLimit c sid := by
  unfold getErrOf OverStreamLimit
  rw [← getOrCreateStream_streamLimit_iff]
  cases hg : getOrCreateStream c sid with
  | error e => cases e <;> simp
  | ok p => simp

theorem getOrCreateStream_state_iff (c : Conn) (sid : Nat) :
    getOrCreateStream c sid = .error (.conn STREAM_STATE_ERROR) ↔ WrongInitiator c sid := by
  unfold getOrCreateStream WrongInitiator
  by_cases hfin : sid ∈ c.finishedIds
  · simp [hfin]
  · cases hf : c.find? sid with
    | some st => simp [hfin]
    | none =>
      by_cases hi : clientInitiated sid = c.isClient
      · simp [hfin, hi]
      · by_cases hu : unidirectional sid = true
        · by_cases hl : sid / 4 + 1 > c.localMaxStreamsUni.value
          · simp [hfin, hi, hu, hl, STREAM_STATE_ERROR, STREAM_LIMIT_ERROR]
          · simp [hfin, hi, hu, hl]
        · by_cases hl : sid / 4 + 1 > c.localMaxStreamsBidi.value
          · simp [hfin, hi, hu, hl, STREAM_STATE_ERROR, STREAM_LIMIT_ERROR]
          · simp [hfin, hi, hu, hl]

theorem getErrOf_state_iff (c : Conn) (sid : Nat) :
    getErrOf c sid = some (.conn STREAM_STATE_ERROR) ↔ WrongInitiator c sid := by
  unfold getErrOf
  rw [← getOrCreateStream_state_iff]
  cases hg : getOrCreateStream c sid with
  | error e => cases e <;> simp
  | ok p => simp

/-- the error of STREAM / RESET_STREAM handling, up to the stream lookup -/
theorem rxStream_limit_iff (c : Conn) (sid off : Nat) (data : Bytes) (fin : Bool) :
    (rxStream c sid off data fin).2.err = some (.conn STREAM_LIMIT_ERROR) ↔
      (off + data.length ≤ UINT_VAR_MAX ∧ c.canReceive sid = true ∧ OverStreamLimit c sid) := by
  rw [rxStream_err, ← getErrOf_limit_iff]
  unfold getErrOf
  by_cases h0 : off + data.length > UINT_VAR_MAX
  · simp [h0, FRAME_ENCODING_ERROR, STREAM_LIMIT_ERROR]; omega
  · by_cases hr : c.canReceive sid = true
    · simp only [h0, if_false, hr, Bool.not_true, Bool.false_eq_true]
      have h0' : off + data.length ≤ UINT_VAR_MAX := by omega
      cases hg : getOrCreateStream c sid with
      | error e => cases e <;> simp [h0']
      | ok p =>
        obtain ⟨c', st⟩ := p
        simp only [h0', true_and]
        constructor
        · intro h; exfalso
          repeat' split at h
          all_goals simp [FLOW_CONTROL_ERROR, FINAL_SIZE_ERROR, STREAM_LIMIT_ERROR] at h
        · intro h; simp at h
    · simp [h0, hr, STREAM_STATE_ERROR, STREAM_LIMIT_ERROR]

theorem rxResetStream_limit_iff (c : Conn) (sid z : Nat) :
    (rxResetStream c sid z).2.err = some (.conn STREAM_LIMIT_ERROR) ↔
      (c.canReceive sid = true ∧ OverStreamLimit c sid) := by
  rw [rxResetStream_err, ← getErrOf_limit_iff]
  unfold getErrOf
  by_cases hr : c.canReceive sid = true
  · simp only [hr, Bool.not_true, Bool.false_eq_true, if_false, true_and]
    cases hg : getOrCreateStream c sid with
    | error e => cases e <;> simp
    | ok p =>
      obtain ⟨c', st⟩ := p
      simp only []
      constructor
      · intro h; exfalso
        repeat' split at h
        all_goals simp [FLOW_CONTROL_ERROR, FINAL_SIZE_ERROR, STREAM_LIMIT_ERROR] at h
      · intro h; simp at h
  · simp [hr, STREAM_STATE_ERROR, STREAM_LIMIT_ERROR]

/-! ## discarding a stream -/

theorem serve_discarded_iff (c : Conn) (sid : Nat) (a b : Bool) (fs : Int) :
    (serve c sid a b fs).2.discarded = true ↔
      ∃ st, c.find? sid = some st ∧ st.recv.finished = true ∧ st.send.finished = true := by
  unfold serve
  cases hf : c.find? sid with
  | none => simp
  | some st =>
    simp only []
    by_cases hfin : st.isFinished = true
    · simp only [if_pos hfin]
      simp [Strm.isFinished] at hfin
      simp [hfin]
    · simp only [if_neg hfin]
      have : ¬ (st.recv.finished = true ∧ st.send.finished = true) := by
        simpa [Strm.isFinished] using hfin
      constructor
      · intro h; exfalso
        repeat' split at h
        all_goals simp [Out.error] at h
      · intro ⟨st', h1, h2⟩; cases h1; exact absurd h2 this

/-- `_streams_finished` only grows by the write loop discarding a stream whose
    two halves are finished -/
theorem step_finishedIds (c : Conn) (hq : FixedQ c) (op : Op) :
    (step c op).1.finishedIds = c.finishedIds ∨
    ∃ sid st, (step c op).1.finishedIds = sid :: c.finishedIds ∧ c.find? sid = some st ∧
      st.recv.finished = true ∧ st.send.finished = true := by
  have h := step_mlstep c hq op
  cases h with
  | same _ _ hfin _ => exact .inl hfin
  | add _ _ _ _ _ hfin _ => exact .inl hfin
  | raise _ _ _ _ _ _ _ hfin _ => exact .inl hfin
  | discard _ sid st hf hdone _ hfin _ =>
    simp [Strm.isFinished] at hdone
    exact .inr ⟨sid, st, hfin, hf, hdone.1, hdone.2⟩

end AQ.Flow
