/-
  quic/retry.py: the plaintext of a Retry token (three `opaque<0..255>` vectors).
-/
import AQ.Proofs.FrameCodec

namespace AQ.Frame
open AQ AQ.Codec

theorem sliceAssign_patch (m v : Bytes) (p : Nat) (l : UInt8) (h : p + 1 + v.length ≤ m.length) :
    sliceAssign (sliceAssign m (p + 1) v) p [l] = sliceAssign m p (l :: v) := by
  apply List.ext_getElem?
  intro j
  have hlen := sliceAssign_length m v (p + 1) (by omega)
  rw [sliceAssign_get _ _ _ (by rw [hlen]; omega), sliceAssign_get _ _ _ (by omega), sliceAssign_get _ _ _ (by omega)]
  simp only [List.length_cons, List.length_nil]
  by_cases h1 : j < p
  · simp [h1]; omega
  · by_cases h2 : j = p
    · subst h2; simp
    · have : j - p = (j - (p + 1)) + 1 := by omega
      simp only [h1, if_false]
      rw [if_neg (by omega)]
      by_cases h3 : j < p + 1 + v.length
      · rw [if_neg (by omega), if_pos h3, if_pos (by omega), this]; simp
      · rw [if_neg (by omega), if_neg h3, if_neg (by omega)]

theorem seek_ok (b : Buf) (p : Nat) (h : p ≤ b.mem.length) (hbig : b.mem.length < 9223372036854775808) :
    b.seek (p : Int) = .ok { b with pos := p } := by
  unfold Buf.seek
  rw [if_neg (by omega), if_neg (by omega)]
  simp

theorem put_ok (b : Buf) (d : Bytes) (h : b.pos + d.length ≤ b.mem.length) :
    b.put d = .ok ⟨sliceAssign b.mem b.pos d, b.pos + d.length⟩ := by
  unfold Buf.put
  rw [if_neg (by omega)]

/-- `push_opaque(buf, 1, value)` writes the length byte followed by the value -/
theorem pushOpaque1_ok (b : Buf) (value : Bytes) (hv : value.length < 256)
    (hfit : b.pos + 1 + value.length ≤ b.mem.length) (hbig : b.mem.length < 9223372036854775808) :
    pushOpaque1 b value = .ok (b.wrote (byte value.length :: value)) := by
  have hlen := sliceAssign_length b.mem value (b.pos + 1) (by omega)
  have e1 : (b.pos : Int) + 1 = ((b.pos + 1 : Nat) : Int) := by omega
  unfold pushOpaque1
  rw [e1, seek_ok b (b.pos + 1) (by omega) hbig]
  simp only []
  rw [put_ok _ value (by simpa using hfit)]
  simp only [if_neg (show ¬ value.length ≥ 256 by omega)]
  rw [seek_ok _ b.pos (by show b.pos ≤ (sliceAssign b.mem (b.pos + 1) value).length; rw [hlen]; omega)
    (by show (sliceAssign b.mem (b.pos + 1) value).length < _; rw [hlen]; exact hbig)]
  simp only []
  rw [put_ok _ [byte value.length] (by
    show b.pos + 1 ≤ (sliceAssign b.mem (b.pos + 1) value).length; rw [hlen]; omega)]
  simp only []
  have hlen2 := sliceAssign_length (sliceAssign b.mem (b.pos + 1) value) [byte value.length] b.pos
    (by rw [hlen]; simp; omega)
  rw [seek_ok _ (b.pos + 1 + value.length) (by
      show b.pos + 1 + value.length ≤ (sliceAssign (sliceAssign b.mem (b.pos + 1) value) b.pos [byte value.length]).length
      rw [hlen2, hlen]; exact hfit)
    (by show (sliceAssign (sliceAssign b.mem (b.pos + 1) value) b.pos [byte value.length]).length < _
        rw [hlen2, hlen]; exact hbig)]
  simp only [Buf.wrote, sliceAssign_patch b.mem value b.pos _ hfit, List.length_cons]
  congr 2
  omega

theorem wrote_wrote (b : Buf) (x y : Bytes) (h : b.pos + x.length ≤ b.mem.length) :
    (b.wrote x).wrote y = b.wrote (x ++ y) := by
  simp only [Buf.wrote, List.length_append]
  rw [sliceAssign_sliceAssign _ _ _ _ h]
  congr 1
  omega

/-- **Retry token plaintext**: what `create_token` builds is the three length-prefixed
    vectors, and `validate_token`'s reads return them -/
theorem retryToken_roundtrip (addr odcid rscid x : Bytes) (ha : addr.length < 256) (ho : odcid.length < 256)
    (hr : rscid.length < 256) (hfit : addr.length + odcid.length + rscid.length + 3 ≤ 512) :
    retryTokenPlain addr odcid rscid = .ok (CodecSpec.encRetryTokenPlain addr odcid rscid) ∧
    pullRetryToken (CodecSpec.encRetryTokenPlain addr odcid rscid ++ x) = .ok ((addr, odcid, rscid), x) ∧
    validateToken addr (CodecSpec.encRetryTokenPlain addr odcid rscid) = .ok (odcid, rscid) := by
  have e : CodecSpec.encRetryTokenPlain addr odcid rscid =
      (byte addr.length :: addr) ++ ((byte odcid.length :: odcid) ++ (byte rscid.length :: rscid)) := by
    simp [CodecSpec.encRetryTokenPlain, byte]
  have hpull : ∀ y, pullRetryToken (CodecSpec.encRetryTokenPlain addr odcid rscid ++ y) = .ok ((addr, odcid, rscid), y) := by
    intro y
    rw [e]
    simp only [pullRetryToken, pullOpaque1, Rd.bind_apply, List.cons_append, List.append_assoc,
      pullUint8_byte _ _ ha, pullUint8_byte _ _ ho, pullUint8_byte _ _ hr,
      pullBytes_append addr _ (by omega), pullBytes_append odcid _ (by omega), pullBytes_append rscid _ (by omega),
      Rd.pure_apply]
  refine ⟨?_, hpull x, ?_⟩
  · have hm : (Buf.ofCapacity 512).mem.length = 512 := by simp only [Buf.ofCapacity, List.length_replicate]
    have hp : (Buf.ofCapacity 512).pos = 0 := rfl
    unfold retryTokenPlain
    rw [pushOpaque1_ok _ addr ha (by rw [hm, hp]; omega) (by rw [hm]; omega)]
    simp only []
    have hm1 : ((Buf.ofCapacity 512).wrote (byte addr.length :: addr)).mem.length = 512 := by
      simp only [Buf.wrote]; rw [sliceAssign_length _ _ _ (by rw [hm, hp]; simp; omega), hm]
    rw [pushOpaque1_ok _ odcid ho (by rw [hm1]; simp only [Buf.wrote, hp, List.length_cons]; omega)
      (by rw [hm1]; omega)]
    simp only []
    rw [wrote_wrote _ _ _ (by rw [hm, hp]; simp; omega)]
    have hm2 : ((Buf.ofCapacity 512).wrote ((byte addr.length :: addr) ++ (byte odcid.length :: odcid))).mem.length = 512 := by
      simp only [Buf.wrote]; rw [sliceAssign_length _ _ _ (by rw [hm, hp]; simp; omega), hm]
    rw [pushOpaque1_ok _ rscid hr
      (by rw [hm2]; simp only [Buf.wrote, hp, List.length_append, List.length_cons]; omega) (by rw [hm2]; omega)]
    simp only []
    rw [wrote_wrote _ _ _ (by rw [hm, hp]; simp; omega), e, List.append_assoc]
    rw [Buf.data_wrote_fresh 512 _ (by simp; omega)]
  · unfold validateToken
    have := hpull []
    rw [List.append_nil] at this
    rw [this]
    simp

end AQ.Frame
