/-
  Base lemmas for the codec model: bytes, integers (variable and fixed width),
  readers, scripts and the Buffer object.  Core Lean only.
-/
import AQ.Model.Codec
import AQ.Model.CodecSpec

namespace AQ.Codec
open AQ

/-! ## bytes -/

theorem toNat_byte (n : Nat) : (byte n).toNat = n % 256 := by
  simp [byte]

theorem byte_toNat (b : UInt8) : byte b.toNat = b := by
  simp [byte]

theorem byte_congr {a b : Nat} (h : a % 256 = b % 256) : byte a = byte b := by
  apply UInt8.toNat_inj.mp
  rw [toNat_byte, toNat_byte, h]

theorem lor64 : ∀ x, x < 64 → x ||| 64 = x + 64 := by decide
theorem lor128 : ∀ x, x < 64 → x ||| 128 = x + 128 := by decide
theorem lor192 : ∀ x, x < 64 → x ||| 192 = x + 192 := by decide

theorem argMask_ofNat (m v : Nat) : argMask m (v : Int) = v % m := by
  unfold argMask
  have : ((v : Int) % (m : Int)) = ((v % m : Nat) : Int) := by simp
  rw [this, Int.toNat_natCast]

theorem argMask_lt (m : Nat) (v : Int) (hm : 0 < m) : argMask m v < m := by
  unfold argMask
  have h1 : v % (m : Int) < (m : Int) := Int.emod_lt_of_pos _ (by omega)
  have h2 : 0 ≤ v % (m : Int) := Int.emod_nonneg _ (by omega)
  omega

theorem argChecked_ofNat (max v : Nat) (h : v ≤ max) : argChecked max (v : Int) = .ok v := by
  unfold argChecked
  rw [if_pos (by omega)]
  simp

theorem argChecked_out (max : Nat) (v : Int) (h : v < 0 ∨ (max : Int) < v) :
    argChecked max v = .error (.py .value) := by
  unfold argChecked
  rw [if_neg (by omega)]

/-! ## variable-length integers -/

/-- the bytes `push_uint_var` writes for an in-range value, as a total function -/
def encV (v : Nat) : Bytes :=
  if v ≤ 0x3F then [byte v]
  else if v ≤ 0x3FFF then [byte (v / 256 + 64), byte v]
  else if v ≤ 0x3FFFFFFF then [byte (v / 16777216 + 128), byte (v / 65536), byte (v / 256), byte v]
  else [byte (v / 72057594037927936 + 192), byte (v / 281474976710656),
         byte (v / 1099511627776), byte (v / 4294967296), byte (v / 16777216),
         byte (v / 65536), byte (v / 256), byte v]

theorem encVarint_ok (v : Nat) (h : v < 4611686018427387904) : encVarint v = .ok (encV v) := by
  unfold encV encVarint
  split
  · rfl
  · split
    · rw [lor64 _ (by omega)]
    · split
      · rw [lor128 _ (by omega)]
      · rw [if_pos (by omega), lor192 _ (by omega)]

theorem encVarint_big (v : Nat) (h : 4611686018427387904 ≤ v) : encVarint v = .error (.py .value) := by
  unfold encVarint
  rw [if_neg (by omega), if_neg (by omega), if_neg (by omega), if_neg (by omega)]

theorem chunkUintVar_ofNat (v : Nat) (h : v < 4611686018427387904) :
    chunkUintVar (v : Int) = .ok (encV v) := by
  unfold chunkUintVar
  rw [argChecked_ofNat _ _ (by omega)]
  exact encVarint_ok v h

theorem chunkUintVar_out (v : Int) (h : v < 0 ∨ 4611686018427387904 ≤ v) :
    chunkUintVar v = .error (.py .value) := by
  unfold chunkUintVar argChecked
  rw [if_neg (by omega)]

theorem encV_length (v : Nat) :
    (encV v).length = if v ≤ 0x3F then 1 else if v ≤ 0x3FFF then 2 else if v ≤ 0x3FFFFFFF then 4 else 8 := by
  unfold encV
  split
  · rfl
  · split
    · rfl
    · split <;> rfl

theorem encV_length_pos (v : Nat) : 0 < (encV v).length := by
  rw [encV_length]; repeat' split
  all_goals omega

theorem encV_length_le (v : Nat) : (encV v).length ≤ 8 := by
  rw [encV_length]; repeat' split
  all_goals omega

theorem encV_ne_nil (v : Nat) : encV v ≠ [] := by
  intro h
  have := encV_length_pos v
  rw [h] at this
  simp at this

theorem varint_roundtrip (v : Nat) (r : Bytes) (h : v < 4611686018427387904) :
    pullUintVar (encV v ++ r) = .ok (v, r) := by
  unfold encV
  split
  · simp only [List.cons_append, List.nil_append, pullUintVar, toNat_byte]
    have h1 : v % 256 / 64 = 0 := by omega
    simp only [h1]
    congr 2; omega
  · split
    · simp only [List.cons_append, List.nil_append, pullUintVar, toNat_byte]
      have h1 : (v / 256 + 64) % 256 / 64 = 1 := by omega
      simp only [h1]
      congr 2; omega
    · split
      · simp only [List.cons_append, List.nil_append, pullUintVar, toNat_byte]
        have h1 : (v / 16777216 + 128) % 256 / 64 = 2 := by omega
        simp only [h1]
        congr 2; omega
      · simp only [List.cons_append, List.nil_append, pullUintVar, toNat_byte]
        have h1 : (v / 72057594037927936 + 192) % 256 / 64 = 3 := by omega
        simp only [h1]
        congr 2; omega

/-- any successful varint decode consumed 1, 2, 4 or 8 bytes and produced a value < 2^62 -/
theorem pullUintVar_inv (s r : Bytes) (v : Nat) (h : pullUintVar s = .ok (v, r)) :
    v < 4611686018427387904 ∧ ∃ pre, s = pre ++ r ∧
      (pre.length = 1 ∨ pre.length = 2 ∨ pre.length = 4 ∨ pre.length = 8) := by
  unfold pullUintVar at h
  split at h
  · cases h
  · rename_i b0 rest
    have hb := b0.toNat_lt
    split at h
    · cases h
      exact ⟨by omega, [b0], rfl, Or.inl rfl⟩
    · split at h
      · rename_i b1 r'
        have := b1.toNat_lt
        cases h
        exact ⟨by omega, [b0, b1], rfl, Or.inr (Or.inl rfl)⟩
      · cases h
    · split at h
      · rename_i b1 b2 b3 r'
        have := b1.toNat_lt; have := b2.toNat_lt; have := b3.toNat_lt
        cases h
        exact ⟨by omega, [b0, b1, b2, b3], rfl, Or.inr (Or.inr (Or.inl rfl))⟩
      · cases h
    · split at h
      · rename_i b1 b2 b3 b4 b5 b6 b7 r'
        have := b1.toNat_lt; have := b2.toNat_lt; have := b3.toNat_lt; have := b4.toNat_lt
        have := b5.toNat_lt; have := b6.toNat_lt; have := b7.toNat_lt
        cases h
        exact ⟨by omega, [b0, b1, b2, b3, b4, b5, b6, b7], rfl, Or.inr (Or.inr (Or.inr rfl))⟩
      · cases h

theorem sizeUintVar_ofNat (v : Nat) (h : v < 4611686018427387904) :
    sizeUintVar (v : Int) = .ok (encV v).length := by
  rw [encV_length]
  unfold sizeUintVar
  repeat' split
  all_goals first | rfl | omega

/-! ## fixed-width integers -/

theorem uint8_roundtrip (v : Nat) (r : Bytes) (h : v < 256) : pullUint8 (be1 v ++ r) = .ok (v, r) := by
  simp only [be1, pullUint8, List.cons_append, List.nil_append, toNat_byte]
  congr 2; omega

theorem uint16_roundtrip (v : Nat) (r : Bytes) (h : v < 65536) : pullUint16 (be2 v ++ r) = .ok (v, r) := by
  simp only [be2, pullUint16, List.cons_append, List.nil_append, toNat_byte]
  congr 2; omega

theorem uint32_roundtrip (v : Nat) (r : Bytes) (h : v < 4294967296) : pullUint32 (be4 v ++ r) = .ok (v, r) := by
  simp only [be4, pullUint32, List.cons_append, List.nil_append, toNat_byte]
  congr 2; omega

theorem uint64_roundtrip (v : Nat) (r : Bytes) (h : v < 18446744073709551616) :
    pullUint64 (be8 v ++ r) = .ok (v, r) := by
  simp only [be8, pullUint64, List.cons_append, List.nil_append, toNat_byte]
  congr 2; omega

theorem pullBytes_append (d r : Bytes) (h : d.length < 9223372036854775808) :
    pullBytes (d.length : Int) (d ++ r) = .ok (d, r) := by
  unfold pullBytes
  rw [if_neg (by omega), if_neg (by simp; omega)]
  simp

/-- `pull_bytes(n)` returns exactly `n` bytes and leaves the rest -/
theorem pullBytes_inv (n : Int) (s d r : Bytes) (h : pullBytes n s = .ok (d, r)) :
    0 ≤ n ∧ s = d ++ r ∧ (d.length : Int) = n := by
  unfold pullBytes at h
  split at h
  · cases h
  · split at h
    · cases h
    · cases h
      refine ⟨by omega, by simp, ?_⟩
      simp
      omega

/-! ## readers -/

@[simp] theorem Rd.bind_apply {α β : Type} (m : Rd α) (f : α → Rd β) (s : Bytes) :
    (m >>= f) s = match m s with
      | .ok (a, s') => f a s'
      | .error e => .error e := rfl

@[simp] theorem Rd.pure_apply {α : Type} (a : α) (s : Bytes) : (pure a : Rd α) s = .ok (a, s) := rfl

@[simp] theorem Rd.guard_true (e : Err) (s : Bytes) : Rd.guard true e s = .ok ((), s) := rfl
@[simp] theorem Rd.guard_false (e : Err) (s : Bytes) : Rd.guard false e s = .error e := rfl
@[simp] theorem Rd.remaining_apply (s : Bytes) : Rd.remaining s = .ok (s.length, s) := rfl
@[simp] theorem Rd.fail_apply {α : Type} (e : Err) (s : Bytes) : (Rd.fail e : Rd α) s = .error e := rfl
@[simp] theorem Rd.lift_ok {α : Type} (a : α) (s : Bytes) : Rd.lift (.ok a : Outcome α) s = .ok (a, s) := rfl
@[simp] theorem Rd.lift_error {α : Type} (e : Err) (s : Bytes) :
    Rd.lift (.error e : Outcome α) s = .error e := rfl

/-- the reader returns a suffix of its input: it never un-reads, and what it
    leaves is exactly what it did not consume -/
def Rd.Suffix {α : Type} (rd : Rd α) : Prop :=
  ∀ s a s', rd s = .ok (a, s') → ∃ pre, s = pre ++ s'

theorem Rd.Suffix.bind {α β : Type} {m : Rd α} {f : α → Rd β} (hm : Rd.Suffix m)
    (hf : ∀ a, Rd.Suffix (f a)) : Rd.Suffix (m >>= f) := by
  intro s b s' h
  rw [Rd.bind_apply] at h
  split at h
  · rename_i a s1 hms
    obtain ⟨p1, rfl⟩ := hm _ _ _ hms
    obtain ⟨p2, rfl⟩ := hf a _ _ _ h
    exact ⟨p1 ++ p2, by simp⟩
  · cases h

theorem Rd.Suffix.pure {α : Type} (a : α) : Rd.Suffix (pure a : Rd α) := by
  intro s b s' h
  cases h
  exact ⟨[], rfl⟩

theorem Rd.Suffix.guard (c : Bool) (e : Err) : Rd.Suffix (Rd.guard c e) := by
  intro s b s' h
  unfold Rd.guard at h
  split at h
  · cases h; exact ⟨[], rfl⟩
  · cases h

theorem Rd.Suffix.remaining : Rd.Suffix Rd.remaining := by
  intro s b s' h
  cases h
  exact ⟨[], rfl⟩

theorem Rd.Suffix.fail {α : Type} (e : Err) : Rd.Suffix (Rd.fail e : Rd α) := by
  intro s b s' h
  cases h

theorem Rd.Suffix.lift {α : Type} (o : Outcome α) : Rd.Suffix (Rd.lift o) := by
  intro s b s' h
  unfold Rd.lift at h
  split at h
  · cases h; exact ⟨[], rfl⟩
  · cases h

theorem Rd.Suffix.pullBytes (n : Int) : Rd.Suffix (pullBytes n) := by
  intro s d r h
  exact ⟨d, (pullBytes_inv n s d r h).2.1⟩

theorem Rd.Suffix.pullUintVar : Rd.Suffix pullUintVar := by
  intro s v r h
  obtain ⟨_, pre, hp, _⟩ := pullUintVar_inv s r v h
  exact ⟨pre, hp⟩

theorem Rd.Suffix.pullUint8 : Rd.Suffix pullUint8 := by
  intro s v r h
  unfold Codec.pullUint8 at h
  split at h
  · rename_i b0 r'; cases h; exact ⟨[b0], rfl⟩
  · cases h

theorem Rd.Suffix.pullUint16 : Rd.Suffix pullUint16 := by
  intro s v r h
  unfold Codec.pullUint16 at h
  split at h
  · rename_i b0 b1 r'; cases h; exact ⟨[b0, b1], rfl⟩
  · cases h

theorem Rd.Suffix.pullUint32 : Rd.Suffix pullUint32 := by
  intro s v r h
  unfold Codec.pullUint32 at h
  split at h
  · rename_i b0 b1 b2 b3 r'; cases h; exact ⟨[b0, b1, b2, b3], rfl⟩
  · cases h

/-! ## scripts and the Buffer object -/

theorem sliceAssign_get (buf d : Bytes) (pos : Nat) (h : pos ≤ buf.length) (j : Nat) :
    (sliceAssign buf pos d)[j]? =
      if j < pos then buf[j]? else if j < pos + d.length then d[j - pos]? else buf[j]? := by
  unfold sliceAssign
  simp only [List.getElem?_append, List.length_take, List.length_append, Nat.min_eq_left h,
    List.getElem?_take, List.getElem?_drop]
  grind

theorem sliceAssign_length (m d : Bytes) (p : Nat) (h : p + d.length ≤ m.length) :
    (sliceAssign m p d).length = m.length := by
  simp [sliceAssign]; omega

theorem sliceAssign_sliceAssign (m d e : Bytes) (p : Nat) (h : p + d.length ≤ m.length) :
    sliceAssign (sliceAssign m p d) (p + d.length) e = sliceAssign m p (d ++ e) := by
  apply List.ext_getElem?
  intro j
  rw [sliceAssign_get _ _ _ (by rw [sliceAssign_length _ _ _ h]; omega), sliceAssign_get _ _ _ (by omega),
    sliceAssign_get _ _ _ (by omega)]
  simp only [List.getElem?_append, List.length_append]
  grind

theorem take_sliceAssign (m d : Bytes) (p : Nat) (h : p + d.length ≤ m.length) :
    (sliceAssign m p d).take (p + d.length) = m.take p ++ d := by
  unfold sliceAssign
  have h1 : (List.take p m).length = p := by simp; omega
  rw [List.take_append_of_le_length (by simp [h1])]
  rw [List.take_of_length_le (by simp [h1])]

theorem sliceAssign_nil (m : Bytes) (p : Nat) : sliceAssign m p [] = m := by
  simp [sliceAssign]

/-- the state a script leaves when everything fits: `bs` written at `pos` -/
def Buf.wrote (b : Buf) (bs : Bytes) : Buf := ⟨sliceAssign b.mem b.pos bs, b.pos + bs.length⟩

theorem Script.run_of_bytes (sc : Script) : ∀ (bs : Bytes) (b : Buf), sc.bytes = .ok bs →
    b.pos + bs.length ≤ b.mem.length → sc.run b = .ok (b.wrote bs) := by
  induction sc with
  | nil =>
    intro bs b h _
    simp only [Script.bytes] at h
    cases h
    simp [Script.run, Buf.wrote, sliceAssign_nil]
  | cons c rest ih =>
    intro bs b h hfit
    unfold Script.bytes at h
    split at h
    · cases h
    · rename_i d
      split at h
      · cases h
      · rename_i r hr
        cases h
        simp only [List.length_append] at hfit
        unfold Script.run Buf.push Buf.put
        simp only []
        rw [if_neg (by omega)]
        simp only []
        rw [ih r _ hr (by simp only [sliceAssign_length _ _ _ (show b.pos + d.length ≤ b.mem.length by omega)]; omega)]
        simp only [Buf.wrote, List.length_append]
        rw [sliceAssign_sliceAssign _ _ _ _ (by omega)]
        congr 2
        omega

/-- a script that ran to completion wrote `Script.bytes` and nothing else -/
theorem Script.run_inv (sc : Script) : ∀ (b b' : Buf), b.pos ≤ b.mem.length → sc.run b = .ok b' →
    ∃ bs, sc.bytes = .ok bs ∧ b.pos + bs.length ≤ b.mem.length ∧ b' = b.wrote bs := by
  induction sc with
  | nil =>
    intro b b' hb h
    simp only [Script.run] at h
    cases h
    exact ⟨[], rfl, by simpa using hb, by simp [Buf.wrote, sliceAssign_nil]⟩
  | cons c rest ih =>
    intro b b' hb h
    unfold Script.run Buf.push at h
    split at h
    · cases h
    · rename_i b1 hb1
      split at hb1
      · rename_i d
        unfold Buf.put at hb1
        split at hb1
        · cases hb1
        · rename_i hfit
          cases hb1
          have hlen := sliceAssign_length b.mem d b.pos (by omega)
          obtain ⟨r, hr, hfit2, rfl⟩ := ih _ _
            (by show b.pos + d.length ≤ (sliceAssign b.mem b.pos d).length; rw [hlen]; omega) h
          replace hfit2 : b.pos + d.length + r.length ≤ (sliceAssign b.mem b.pos d).length := hfit2
          rw [hlen] at hfit2
          refine ⟨d ++ r, ?_, ?_, ?_⟩
          · simp [Script.bytes, hr]
          · simp only [List.length_append]; omega
          · simp only [Buf.wrote, List.length_append]
            rw [sliceAssign_sliceAssign _ _ _ _ (by omega)]
            congr 1
            omega
      · cases hb1

theorem Buf.data_wrote_fresh (n : Nat) (bs : Bytes) (h : bs.length ≤ n) :
    ((Buf.ofCapacity n).wrote bs).data = bs := by
  unfold Buf.wrote Buf.data Buf.ofCapacity
  simp only [Nat.zero_add]
  have := take_sliceAssign (List.replicate n 0) bs 0 (by simp; omega)
  simpa using this

/-- running a script on a fresh buffer that is large enough yields `Script.bytes` -/
theorem Script.run_fresh (sc : Script) (bs : Bytes) (n : Nat) (h : sc.bytes = .ok bs)
    (hfit : bs.length ≤ n) :
    ∃ b, sc.run (Buf.ofCapacity n) = .ok b ∧ b.data = bs ∧ b.pos = bs.length ∧ b.mem.length = n := by
  refine ⟨(Buf.ofCapacity n).wrote bs, ?_, Buf.data_wrote_fresh n bs hfit, ?_, ?_⟩
  · apply Script.run_of_bytes _ _ _ h
    simp [Buf.ofCapacity]; omega
  · simp [Buf.wrote, Buf.ofCapacity]
  · simp only [Buf.wrote, Buf.ofCapacity]
    rw [sliceAssign_length _ _ _ (by simp; omega)]
    simp

theorem Script.bytes_append (a b : Script) (x y : Bytes) (ha : a.bytes = .ok x) (hb : b.bytes = .ok y) :
    Script.bytes (a ++ b) = .ok (x ++ y) := by
  induction a generalizing x with
  | nil =>
    simp only [Script.bytes] at ha
    cases ha
    simpa using hb
  | cons c rest ih =>
    unfold Script.bytes at ha
    split at ha
    · cases ha
    · rename_i d
      split at ha
      · cases ha
      · rename_i r hr
        cases ha
        simp [Script.bytes, ih r hr]

theorem Script.bytes_cons_ok (d : Bytes) (rest : Script) (y : Bytes) (h : Script.bytes rest = .ok y) :
    Script.bytes (.ok d :: rest) = .ok (d ++ y) := by
  simp [Script.bytes, h]

theorem Script.bytes_nil : Script.bytes [] = .ok [] := rfl

/-- reading with a buffer: position advances by what the reader consumed -/
theorem Buf.pull_ofData {α : Type} (rd : Rd α) (d r : Bytes) (a : α) (h : rd d = .ok (a, r)) :
    (Buf.ofData d).pull rd = .ok (a, ⟨d, d.length - r.length⟩) := by
  simp [Buf.pull, Buf.ofData, Buf.rest, h]

end AQ.Codec
