/-
  `RInv` is preserved by every operation of `step` (no hypothesis on the
  operations: the receive side must hold whatever the peer sends).
-/
import AQ.Proofs.FlowRInv

namespace AQ.Flow
open AQ AQ.Stream AQ.RangeSet

theorem RInv.addStrm {c : Conn} (h : RInv c) (st : Strm) (hfresh : ∀ s ∈ c.streams, s.sid ≠ st.sid)
    (hr : st.recv = {}) : RInv (c.addStrm st) :=
  h.add rfl hfresh rfl hr rfl rfl

theorem RInv.withBlockedBidi {c : Conn} (h : RInv c) (l : List Nat) : RInv { c with blockedBidi := l } :=
  h.same rfl rfl rfl (Nat.le_refl _) rfl
theorem RInv.withBlockedUni {c : Conn} (h : RInv c) (l : List Nat) : RInv { c with blockedUni := l } :=
  h.same rfl rfl rfl (Nat.le_refl _) rfl
theorem RInv.withLocalMaxStreamsBidi {c : Conn} (h : RInv c) (l : Limit) : RInv { c with localMaxStreamsBidi := l } :=
  h.same rfl rfl rfl (Nat.le_refl _) rfl
theorem RInv.withLocalMaxStreamsUni {c : Conn} (h : RInv c) (l : Limit) : RInv { c with localMaxStreamsUni := l } :=
  h.same rfl rfl rfl (Nat.le_refl _) rfl

theorem getOrCreateStreamForSend_rinv {c c' : Conn} {sid : Nat} {st : Strm} (h : RInv c)
    (hg : getOrCreateStreamForSend c sid = .ok (c', st)) : RInv c' ∧ st ∈ c'.streams := by
  unfold getOrCreateStreamForSend at hg
  split at hg
  · simp at hg
  · split at hg
    · rename_i st' hf
      simp at hg
      obtain ⟨rfl, rfl⟩ := hg
      exact ⟨h, (Conn.find?_mem hf).1⟩
    · rename_i hf
      have hfresh := find?_none hf
      have hq : ¬ ((!c.quirks.reopenFinished && c.finishedIds.contains sid) = true) := by
        intro hq; rw [if_pos hq] at hg; simp at hg
      rw [if_neg hq] at hg
      split at hg
      · simp at hg
      · split at hg
        · split at hg
          · simp at hg
            obtain ⟨rfl, rfl⟩ := hg
            exact ⟨RInv.withBlockedUni (h.addStrm _ (by simpa [Strm.create] using hfresh) (by simp [Strm.create])) _,
              by simp [Conn.addStrm]⟩
          · simp at hg
            obtain ⟨rfl, rfl⟩ := hg
            exact ⟨h.addStrm _ (by simpa [Strm.create] using hfresh) (by simp [Strm.create]), by simp [Conn.addStrm]⟩
        · split at hg
          · simp at hg
            obtain ⟨rfl, rfl⟩ := hg
            exact ⟨RInv.withBlockedBidi (h.addStrm _ (by simpa [Strm.create] using hfresh) (by simp [Strm.create])) _,
              by simp [Conn.addStrm]⟩
          · simp at hg
            obtain ⟨rfl, rfl⟩ := hg
            exact ⟨h.addStrm _ (by simpa [Strm.create] using hfresh) (by simp [Strm.create]), by simp [Conn.addStrm]⟩

theorem getOrCreateStream_rinv {c c' : Conn} {sid : Nat} {st : Strm} (h : RInv c)
    (hg : getOrCreateStream c sid = .ok (c', st)) :
    RInv c' ∧ st ∈ c'.streams ∧ c'.localMaxData = c.localMaxData := by
  unfold getOrCreateStream at hg
  split at hg
  · simp at hg
  · split at hg
    · rename_i st' hf
      simp at hg
      obtain ⟨rfl, rfl⟩ := hg
      exact ⟨h, (Conn.find?_mem hf).1, rfl⟩
    · rename_i hf
      have hfresh := find?_none hf
      split at hg
      · simp at hg
      · simp only [] at hg
        split at hg
        · split at hg
          · simp at hg
          · simp at hg
            obtain ⟨rfl, rfl⟩ := hg
            exact ⟨RInv.withLocalMaxStreamsUni (h.addStrm _ (by simpa [Strm.create] using hfresh) (by simp [Strm.create])) _,
              by simp [Conn.addStrm], rfl⟩
        · split at hg
          · simp at hg
          · simp at hg
            obtain ⟨rfl, rfl⟩ := hg
            exact ⟨RInv.withLocalMaxStreamsBidi (h.addStrm _ (by simpa [Strm.create] using hfresh) (by simp [Strm.create])) _,
              by simp [Conn.addStrm], rfl⟩

theorem sendStreamData_rinv {c : Conn} (h : RInv c) (sid : Nat) (d : Bytes) (fin : Bool) :
    RInv (sendStreamData c sid d fin).1 := by
  unfold sendStreamData
  split
  · exact h
  · rename_i c' st hg
    obtain ⟨h', hm⟩ := getOrCreateStreamForSend_rinv h hg
    split
    · exact h'
    · exact h'.setStrm hm rfl rfl (Nat.le_refl _)

theorem resetStream_rinv {c : Conn} (h : RInv c) (sid code : Nat) : RInv (resetStream c sid code).1 := by
  unfold resetStream
  split
  · exact h
  · rename_i c' st hg
    obtain ⟨h', hm⟩ := getOrCreateStreamForSend_rinv h hg
    exact h'.setStrm hm rfl rfl (Nat.le_refl _)

theorem stopStream_rinv {c : Conn} (h : RInv c) (sid : Nat) : RInv (stopStream c sid).1 := by
  unfold stopStream
  split
  · exact h
  · split
    · exact h
    · rename_i st hf
      exact h.setStrm (Conn.find?_mem hf).1 rfl rfl (Nat.le_refl _)

theorem rxMaxData_rinv {c : Conn} (h : RInv c) (v : Nat) : RInv (rxMaxData c v).1 := by
  unfold rxMaxData
  split
  · exact h.same rfl rfl rfl (Nat.le_refl _) rfl
  · exact h

theorem unblockStreams_rinv {c : Conn} (h : RInv c) (uni : Bool) : RInv (unblockStreams c uni) := by
  unfold unblockStreams
  split
  · refine h.mapStreams _ ?_ _ rfl rfl rfl rfl
    intro s; split <;> exact ⟨rfl, rfl, rfl⟩
  · refine h.mapStreams _ ?_ _ rfl rfl rfl rfl
    intro s; split <;> exact ⟨rfl, rfl, rfl⟩

theorem rxMaxStreams_rinv {c : Conn} (h : RInv c) (uni : Bool) (v : Nat) : RInv (rxMaxStreams c uni v).1 := by
  unfold rxMaxStreams
  split
  · exact h
  · split
    · split
      · exact unblockStreams_rinv (c := { c with remoteMaxStreamsUni := v }) (h.same rfl rfl rfl (Nat.le_refl _) rfl) true
      · exact h
    · split
      · exact unblockStreams_rinv (c := { c with remoteMaxStreamsBidi := v }) (h.same rfl rfl rfl (Nat.le_refl _) rfl) false
      · exact h

theorem transportParams_rinv {c : Conn} (h : RInv c) (tp : TP) : RInv (transportParams c tp) :=
  h.same rfl rfl rfl (Nat.le_refl _) rfl

theorem rxMaxStreamData_rinv {c : Conn} (h : RInv c) (sid v : Nat) : RInv (rxMaxStreamData c sid v).1 := by
  unfold rxMaxStreamData
  split
  · exact h
  · split
    · exact h
    · rename_i c' st hg
      obtain ⟨h', hm, _⟩ := getOrCreateStream_rinv h hg
      split
      · exact h'.setStrm hm rfl rfl (Nat.le_refl _)
      · exact h'

theorem rxStopSending_rinv {c : Conn} (h : RInv c) (sid : Nat) : RInv (rxStopSending c sid).1 := by
  unfold rxStopSending
  split
  · exact h
  · split
    · exact h
    · rename_i c' st hg
      obtain ⟨h', hm, _⟩ := getOrCreateStream_rinv h hg
      exact h'.setStrm hm rfl rfl (Nat.le_refl _)

theorem rxStreamDataBlocked_rinv {c : Conn} (h : RInv c) (sid : Nat) : RInv (rxStreamDataBlocked c sid).1 := by
  unfold rxStreamDataBlocked
  split
  · exact h
  · split
    · exact h
    · rename_i c' st hg
      exact (getOrCreateStream_rinv h hg).1

theorem rxStream_rinv {c : Conn} (h : RInv c) (sid off : Nat) (d : Bytes) (fin : Bool) :
    RInv (rxStream c sid off d fin).1 := by
  unfold rxStream
  simp only []
  split
  · exact h
  · split
    · exact h
    · split
      · exact h
      · rename_i c' st hg
        obtain ⟨h', hm, _⟩ := getOrCreateStream_rinv h hg
        have hi := h'.strm st hm
        split
        · exact h'
        · rename_i hlim
          split
          · exact h'
          · rename_i hconn
            split
            · exact h'
            · rename_i r ev hh
              obtain ⟨k1, k2, _⟩ := handleFrame_recvOK hi.2.1 hh
              have k3 := handleFrame_finOK hi.2.2 hh
              simp only [] at k2
              refine h'.update (c' := { c'.setStrm { st with recv := r } with
                  localMaxData := { c'.localMaxData with used := c'.localMaxData.used + (off + d.length - st.recv.highest) } })
                rfl (st0 := st) (st := { st with recv := r }) hm rfl rfl (by show st.recv.highest ≤ r.highest; omega) ?_ ?_ rfl ⟨?_, k1, k3⟩
              · show c'.localMaxData.used + (off + d.length - st.recv.highest) = c'.localMaxData.used + (r.highest - st.recv.highest)
                omega
              · show c'.localMaxData.used + (off + d.length - st.recv.highest) ≤ c'.localMaxData.value
                omega
              · show r.highest ≤ st.maxLocal
                have := hi.1; omega

theorem rxResetStream_rinv {c : Conn} (h : RInv c) (sid z : Nat) : RInv (rxResetStream c sid z).1 := by
  unfold rxResetStream
  split
  · exact h
  · split
    · exact h
    · rename_i c' st hg
      obtain ⟨h', hm, _⟩ := getOrCreateStream_rinv h hg
      have hi := h'.strm st hm
      simp only []
      split
      · exact h'
      · rename_i hlim
        split
        · exact h'
        · rename_i hconn
          split
          · exact h'
          · rename_i r hh
            have hq : c'.quirks.resetKeepsHighest = false := h'.fixed
            have hr : r.highest = max st.recv.highest z ∧ r.buffer = st.recv.buffer ∧
                r.bufStart = st.recv.bufStart ∧ r.ranges = st.recv.ranges ∧ r.finalSize = some z := by
              unfold handleResetQ handleReset at hh
              simp only [hq, Bool.false_eq_true, if_false] at hh
              cases hfs : st.recv.finalSize with
              | none => simp [hfs] at hh; subst hh; simp
              | some w =>
                by_cases hw : z = w
                · subst hw; simp [hfs] at hh; subst hh; simp
                · simp [hfs, hw] at hh
            have hok : RecvOK r := by
              refine ⟨by rw [hr.2.1, hr.2.2.1, hr.1]; have := hi.2.1.1; omega, ?_⟩
              intro x hx; rw [hr.2.2.2.1] at hx; have := hi.2.1.2 x hx; rw [hr.1]; omega
            have hfinok : FinOK r := by intro _; rw [hr.2.2.2.2]; rfl
            refine h'.update (c' := { c'.setStrm { st with recv := r } with
                localMaxData := { c'.localMaxData with used := c'.localMaxData.used + (z - st.recv.highest) } })
              rfl (st0 := st) (st := { st with recv := r }) hm rfl rfl (by show st.recv.highest ≤ r.highest; omega) ?_ ?_ rfl ⟨?_, hok, hfinok⟩
            · show c'.localMaxData.used + (z - st.recv.highest) = c'.localMaxData.used + (r.highest - st.recv.highest)
              omega
            · show c'.localMaxData.used + (z - st.recv.highest) ≤ c'.localMaxData.value
              omega
            · show r.highest ≤ st.maxLocal
              have := hi.1; omega

end AQ.Flow
