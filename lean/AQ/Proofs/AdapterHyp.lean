/-
  Discharging the hypotheses of the C19 theorems (AQ/Props/C19.lean):
  * the uid monitor is silent on every schedule whose ping uids are ids of simultaneously live objects
    (`LiveDistinct`);
  * the event-order monitor `vEv` is silent exactly when the processed event log is well ordered
    (`okLog`), which is what C09 / C01 prove about the event streams they produce (Props/C19Events.lean).
-/
import AQ.Proofs.AdapterRouting

namespace AQ.Adapter
open AQ

/-! ## ping uids -/

def UJ (_ : Nat) (p : Proto) : Prop := p.vUid = false

theorem presU : Pres true UJ where
  mono := fun h _ => h
  init := fun _ => rfl
  initS := fun _ _ => rfl
  dgram := fun ctx s tat evs tx _ hc h => by
    show (datagramReceived ctx s tat evs tx).1.p.vUid = false
    rw [datagramReceived_vUid ctx hc]; exact h
  timer := fun ctx s tat evs tx _ hc h => by
    show (handleTimer ctx s tat evs tx).1.p.vUid = false
    rw [handleTimer_vUid ctx hc]; exact h
  txop := fun ctx s tat tx _ hc h => by
    show (transmitOp ctx s tat tx).1.p.vUid = false
    rw [transmitOp_vUid ctx hc]; exact h
  close := fun ctx s tat tx _ hc h => by
    show (transmit ctx s tat tx).1.p.vUid = false
    rw [transmit_vUid ctx hc]; exact h
  mkS := fun ctx p sid _ _ h => by
    show (createStream ctx p sid).vUid = false
    rw [createStream_vUid]; exact h
  cancel := fun p w _ h => by
    show (cancelCaller p w).vUid = false
    simp only [cancelCaller]; split <;> exact h
  write := fun p sid d _ h => by
    show ((write p sid d).getD p).vUid = false
    simp only [write]; split
    · simpa [UJ] using h
    · simp only [Option.getD_some, transmitSoon]; split <;> exact h
  eof := fun p sid _ h => by
    show ((writeEof p sid).getD p).vUid = false
    simp only [writeEof]; split
    · simpa [UJ] using h
    · simpa [UJ] using h
    · simp only [Option.getD_some, transmitSoon]; split <;> exact h
  waitConn := fun ctx p n _ h => by
    show (waitConnected ctx p n).vUid = false
    rw [waitConnected_vUid]; exact h
  waitClosed := fun p n h => by
    show (waitClosed p n).vUid = false
    rw [waitClosed_vUid]; exact h
  ping := fun ctx s uid tat tx n hc hg h => by
    have hcc : ctx.q.noClosedCheck = false := by rw [hc]; rfl
    show (ping ctx s n uid tat tx).1.p.vUid = false
    simp only [ping, hcc, Bool.false_eq_true, not_false_eq_true, true_and]
    by_cases hcl : s.p.closed = true
    · rw [if_pos hcl]; exact h
    · rw [if_neg hcl, transmit_vUid ctx hc]
      have hfr := hg rfl (by simpa using hcl)
      have : s.p.pingWaiters.keys.contains uid = false := by simpa using hfr
      have h' : s.p.vUid = false := h
      simp [h']; exact hfr

/-- on a schedule whose ping uids are ids of simultaneously live objects the uid monitor never fires -/
theorem liveDistinct_silent (ops : List Op) (hL : LiveDistinct {} ops) (c : Nat) (k : Conn)
    (hk : (run {} ops).conns[c]? = some k) : k.p.vUid = false :=
  run_ginv presU {} rfl (ginv_init _) ops (fun _ => hL) c k hk

/-! ## event order -/

/-- what the event-order monitor checks when event `e` is taken from the queue after `seen` -/
def okAt (seen : List Ev) (e : Ev) : Bool :=
  !(decide (Ev.terminated ∈ seen)) && (match e with | .data sid _ _ => !(seen.any (isFin sid)) | _ => true)

def okFrom (seen : List Ev) : List Ev → Bool
  | [] => true
  | e :: rest => okAt seen e && okFrom (seen ++ [e]) rest

/-- the processed event log never had an event after ConnectionTerminated nor stream data after that
    stream's end_stream -/
def okLog (l : List Ev) : Bool := okFrom [] l

theorem okFrom_snoc (seen l : List Ev) (e : Ev) :
    okFrom seen (l ++ [e]) = (okFrom seen l && okAt (seen ++ l) e) := by
  induction l generalizing seen with
  | nil => simp [okFrom]
  | cons a l ih => simp [okFrom, ih, Bool.and_assoc]

theorem okLog_snoc (l : List Ev) (e : Ev) : okLog (l ++ [e]) = (okLog l && okAt l e) := by
  simpa [okLog] using okFrom_snoc [] l e

/-- the monitor is the negation of `okLog` of the processed events -/
def EJ (_ : Nat) (p : Proto) : Prop := p.vEv = !(okLog p.evLog)

theorem processEvent_evLog (c : Ctx) (s : PS) (e : Bool × Ev) :
    (processEvent c s e).1.p.evLog = s.p.evLog ++ [e.2] := by
  obtain ⟨note, ev⟩ := e
  cases ev <;> simp only [processEvent] <;> (repeat' split) <;> simp [observe_evLog]

theorem processEvent_ej (c : Ctx) (s : PS) (e : Bool × Ev) (h : EJ 0 s.p) : EJ 0 (processEvent c s e).1.p := by
  unfold EJ at h ⊢
  rw [processEvent_vEv, observe_vEv, processEvent_evLog, okLog_snoc, h]
  obtain ⟨note, ev⟩ := e
  cases ev <;> simp [okAt, Proto.termSeen, Proto.finSeen, Bool.not_and]

theorem processEvents_ej (c : Ctx) (s : PS) (es : List (Bool × Ev)) (h : EJ 0 s.p) :
    EJ 0 (processEvents c s es).1.p := by
  induction es generalizing s with
  | nil => simpa [processEvents] using h
  | cons e es ih =>
    simp only [processEvents]
    have h1 := processEvent_ej c s e h
    cases heq : processEvent c s e with
    | mk s' oe =>
      rw [heq] at h1
      cases oe with
      | some err => exact h1
      | none => exact ih s' h1

theorem EJ.congr {p p' : Proto} (h : EJ 0 p) (h1 : p'.vEv = p.vEv) (h2 : p'.evLog = p.evLog) : EJ 0 p' := by
  unfold EJ at h ⊢; rw [h1, h2]; exact h

theorem transmit_ej (c : Ctx) (hq : c.q = Quirks.fixed) (s : PS) (tat : Option Nat) (tx : List Ev)
    (h : EJ 0 s.p) : EJ 0 (transmit c s tat tx).1.p := by
  have hd : c.q.deferTxEvents = false := by rw [hq]; rfl
  simp only [transmit, hd, Bool.false_eq_true, if_false]
  have h1 := processEvents_ej c ({ s with p := { s.p with transmitTask := false } } : PS) (fresh tx)
    (h.congr rfl rfl)
  cases heq : processEvents c ({ s with p := { s.p with transmitTask := false } } : PS) (fresh tx) with
  | mk s' oe =>
    rw [heq] at h1
    cases oe with
    | some err => exact h1
    | none => exact h1.congr (by simp [rearm]) (by simp [rearm])

theorem evs_transmit_ej (c : Ctx) (hq : c.q = Quirks.fixed) (s0 : PS) (tat : Option Nat) (evs tx : List Ev)
    (h : EJ 0 s0.p) :
    EJ 0 (match processEvents c s0 (fresh evs) with
      | (s, some e) => (s, some e)
      | (s, none) => transmit c s tat tx).1.p := by
  have h1 := processEvents_ej c s0 (fresh evs) h
  cases heq : processEvents c s0 (fresh evs) with
  | mk s' oe =>
    rw [heq] at h1
    cases oe with
    | some err => exact h1
    | none => exact transmit_ej c hq s' tat tx h1

theorem presE : Pres false EJ where
  mono := fun h _ => h
  init := fun _ => rfl
  initS := fun _ _ => rfl
  dgram := fun ctx s tat evs tx _ hc h => by
    simp only [datagramReceived, queued_fixed ctx hc]
    exact evs_transmit_ej ctx hc _ tat evs tx (EJ.congr h rfl rfl)
  timer := fun ctx s tat evs tx _ hc h => by
    simp only [handleTimer, queued_fixed ctx hc]
    exact evs_transmit_ej ctx hc _ tat evs tx (EJ.congr h rfl rfl)
  txop := fun ctx s tat tx _ hc h => by
    simp only [transmitOp]
    exact transmit_ej ctx hc _ tat tx (EJ.congr h rfl rfl)
  close := fun ctx s tat tx _ hc h => transmit_ej ctx hc s tat tx h
  mkS := fun ctx p sid _ _ h => by
    simp only [createStream]; split <;> exact EJ.congr h rfl rfl
  cancel := fun p w _ h => by
    simp only [cancelCaller]; split
    · exact EJ.congr h rfl rfl
    · exact h
  write := fun p sid d _ h => by
    simp only [write]; split
    · simpa using h
    · simp only [Option.getD_some, transmitSoon]; split <;> exact EJ.congr h rfl rfl
  eof := fun p sid _ h => by
    simp only [writeEof]; split
    · simpa using h
    · simpa using h
    · simp only [Option.getD_some, transmitSoon]; split <;> exact EJ.congr h rfl rfl
  waitConn := fun ctx p n _ h => by
    simp only [waitConnected]; (repeat' split) <;> exact EJ.congr h rfl rfl
  waitClosed := fun p n h => by
    simp only [waitClosed]; split <;> exact EJ.congr h rfl rfl
  ping := fun ctx s uid tat tx n hc _ h => by
    have hcc : ctx.q.noClosedCheck = false := by rw [hc]; rfl
    simp only [ping, hcc, Bool.false_eq_true, not_false_eq_true, true_and]
    by_cases hcl : s.p.closed = true
    · rw [if_pos hcl]; exact EJ.congr h rfl rfl
    · rw [if_neg hcl]; exact transmit_ej ctx hc _ tat tx (EJ.congr h rfl rfl)

/-- for every schedule: the event-order monitor of a connection is silent iff its processed events were
    well ordered -/
theorem vEv_iff_okLog (ops : List Op) (c : Nat) (k : Conn) (hk : (run {} ops).conns[c]? = some k) :
    k.p.vEv = false ↔ okLog k.p.evLog = true := by
  have h : k.p.vEv = !(okLog k.p.evLog) := run_ginv presE {} rfl (ginv_init _) ops (by simp) c k hk
  rw [h]; cases okLog k.p.evLog <;> simp

end AQ.Adapter
