import AQ.Proofs.TlsCodec
/-
  Message-level facts: every `X.dec` is `msgDec <type> X.decBody`, and every body
  decoder is canonical (`decBody i = (x, t) → i = x.body ++ t`).
-/
namespace AQ.TlsCodec
open AQ

theorem finished_dec_eq (bs : Bytes) :
    Finished.dec bs = match bs with
      | b :: rest => if b = 20 then (opq 3 rest).map (fun p => (⟨p.1⟩, p.2)) else none
      | [] => none := by
  cases bs with
  | nil => rfl
  | cons b rest =>
    by_cases hb : b = 20
    · subst hb; rfl
    · unfold Finished.dec
      split
      · rename_i h; simp at h; exact absurd h.1 hb
      · simp [hb]

theorem cv_dec_eq (bs : Bytes) : CertificateVerify.dec bs = msgDec 15 CertificateVerify.decBody bs := by
  cases bs with
  | nil => rfl
  | cons b rest =>
    by_cases hb : b = 15
    · subst hb; rfl
    · unfold CertificateVerify.dec msgDec
      split
      · rename_i h; simp at h; exact absurd h.1 hb
      · simp [hb]
theorem cert_dec_eq (bs : Bytes) : Certificate.dec bs = msgDec 11 Certificate.decBody bs := by
  cases bs with
  | nil => rfl
  | cons b rest =>
    by_cases hb : b = 11
    · subst hb; rfl
    · unfold Certificate.dec msgDec
      split
      · rename_i h; simp at h; exact absurd h.1 hb
      · simp [hb]
theorem ee_dec_eq (bs : Bytes) : EncryptedExtensions.dec bs = msgDec 8 EncryptedExtensions.decBody bs := by
  cases bs with
  | nil => rfl
  | cons b rest =>
    by_cases hb : b = 8
    · subst hb; rfl
    · unfold EncryptedExtensions.dec msgDec
      split
      · rename_i h; simp at h; exact absurd h.1 hb
      · simp [hb]
theorem sh_dec_eq (bs : Bytes) : ServerHello.dec bs = msgDec 2 ServerHello.decBody bs := by
  cases bs with
  | nil => rfl
  | cons b rest =>
    by_cases hb : b = 2
    · subst hb; rfl
    · unfold ServerHello.dec msgDec
      split
      · rename_i h; simp at h; exact absurd h.1 hb
      · simp [hb]
theorem ch_dec_eq (bs : Bytes) : ClientHello.dec bs = msgDec 1 ClientHello.decBody bs := by
  cases bs with
  | nil => rfl
  | cons b rest =>
    by_cases hb : b = 1
    · subst hb; rfl
    · unfold ClientHello.dec msgDec
      split
      · rename_i h; simp at h; exact absurd h.1 hb
      · simp [hb]
theorem nst_dec_eq (bs : Bytes) : NewSessionTicket.dec bs = msgDec 4 NewSessionTicket.decBody bs := by
  cases bs with
  | nil => rfl
  | cons b rest =>
    by_cases hb : b = 4
    · subst hb; rfl
    · unfold NewSessionTicket.dec msgDec
      split
      · rename_i h; simp at h; exact absurd h.1 hb
      · simp [hb]
theorem cr_dec_eq (bs : Bytes) : CertificateRequest.dec bs = msgDec 13 CertificateRequest.decBody bs := by
  cases bs with
  | nil => rfl
  | cons b rest =>
    by_cases hb : b = 13
    · subst hb; rfl
    · unfold CertificateRequest.dec msgDec
      split
      · rename_i h; simp at h; exact absurd h.1 hb
      · simp [hb]

theorem certEntry_canon (i : Bytes) (x : CertEntry) (t : Bytes) (h : CertEntry.dec i = some (x, t)) :
    i = x.enc ++ t := by
  unfold CertEntry.dec at h
  cases h1 : opq 3 i with
  | none => simp [h1] at h
  | some p =>
    rcases p with ⟨c, r1⟩
    simp only [h1] at h
    cases h2 : opq 2 r1 with
    | none => simp [h2] at h
    | some q =>
      rcases q with ⟨e, r2⟩
      simp only [h2, Option.some.injEq, Prod.mk.injEq] at h
      rw [(opq_canon 3 i c r1 h1).1, (opq_canon 2 r1 e r2 h2).1, ← h.1, ← h.2]
      simp [CertEntry.enc]

theorem cert_body_canon (i : Bytes) (x : Certificate) (t : Bytes) (h : Certificate.decBody i = some (x, t)) :
    i = x.body ++ t := by
  unfold Certificate.decBody at h
  cases h1 : opq 1 i with
  | none => simp [h1] at h
  | some p =>
    rcases p with ⟨c, r1⟩
    simp only [h1] at h
    cases h2 : list 3 CertEntry.dec r1 with
    | none => simp [h2] at h
    | some q =>
      rcases q with ⟨es, r2⟩
      simp only [h2, Option.some.injEq, Prod.mk.injEq] at h
      rw [(opq_canon 1 i c r1 h1).1, list_canon 3 CertEntry.dec CertEntry.enc certEntry_canon r1 r2 es h2,
        ← h.1, ← h.2]
      simp [Certificate.body]

theorem ee_body_canon (i : Bytes) (x : EncryptedExtensions) (t : Bytes)
    (h : EncryptedExtensions.decBody i = some (x, t)) : i = x.body ++ t := by
  unfold EncryptedExtensions.decBody at h
  cases h1 : list 2 extDec i with
  | none => simp [h1] at h
  | some p =>
    rcases p with ⟨xs, r1⟩
    simp only [h1, Option.map_some, Option.some.injEq, Prod.mk.injEq] at h
    rw [list_canon 2 extDec extEnc (fun i x t => extDec_canon i t x) i r1 xs h1, ← h.1, ← h.2]
    rfl

theorem cr_body_canon (i : Bytes) (x : CertificateRequest) (t : Bytes)
    (h : CertificateRequest.decBody i = some (x, t)) : i = x.body ++ t := by
  unfold CertificateRequest.decBody at h
  cases h1 : opq 1 i with
  | none => simp [h1] at h
  | some p =>
    rcases p with ⟨c, r1⟩
    simp only [h1] at h
    cases h2 : list 2 extDec r1 with
    | none => simp [h2] at h
    | some q =>
      rcases q with ⟨xs, r2⟩
      simp only [h2, Option.some.injEq, Prod.mk.injEq] at h
      rw [(opq_canon 1 i c r1 h1).1, list_canon 2 extDec extEnc (fun i x t => extDec_canon i t x) r1 r2 xs h2,
        ← h.1, ← h.2]
      simp [CertificateRequest.body]

theorem u16_item_canon (i : Bytes) (x : Nat) (t : Bytes) (h : uintBE 2 i = some (x, t)) : i = beEnc 2 x ++ t :=
  (uintBE_canon 2 i t x h).1
theorem u8_item_canon (i : Bytes) (x : Nat) (t : Bytes) (h : uintBE 1 i = some (x, t)) : i = beEnc 1 x ++ t :=
  (uintBE_canon 1 i t x h).1

end AQ.TlsCodec

namespace AQ.TlsCodec
open AQ

theorem sh_body_canon (i : Bytes) (x : ServerHello) (t : Bytes) (h : ServerHello.decBody i = some (x, t)) :
    i = x.body ++ t := by
  unfold ServerHello.decBody at h
  cases h0 : uintBE 2 i with
  | none => simp [h0] at h
  | some p0 =>
    rcases p0 with ⟨v, r0⟩
    simp only [h0] at h
    by_cases hv : v = 0x0303
    · simp only [hv, ne_eq, not_true_eq_false, ↓reduceIte] at h
      cases h1 : bytesN 32 r0 with
      | none => simp [h1] at h
      | some p1 =>
        rcases p1 with ⟨rnd, r1⟩
        simp only [h1] at h
        cases h2 : opq 1 r1 with
        | none => simp [h2] at h
        | some p2 =>
          rcases p2 with ⟨sid, r2⟩
          simp only [h2] at h
          cases h3 : uintBE 2 r2 with
          | none => simp [h3] at h
          | some p3 =>
            rcases p3 with ⟨cs, r3⟩
            simp only [h3] at h
            cases h4 : uintBE 1 r3 with
            | none => simp [h4] at h
            | some p4 =>
              rcases p4 with ⟨cm, r4⟩
              simp only [h4] at h
              cases h5 : list 2 extDec r4 with
              | none => simp [h5] at h
              | some p5 =>
                rcases p5 with ⟨xs, r5⟩
                simp only [h5, Option.some.injEq, Prod.mk.injEq] at h
                rw [(uintBE_canon 2 i r0 v h0).1, hv, (bytesN_canon 32 r0 rnd r1 h1).1, (opq_canon 1 r1 sid r2 h2).1,
                  (uintBE_canon 2 r2 r3 cs h3).1, (uintBE_canon 1 r3 r4 cm h4).1,
                  list_canon 2 extDec extEnc (fun i x t => extDec_canon i t x) r4 r5 xs h5, ← h.1, ← h.2]
                simp [ServerHello.body]
    · simp [hv] at h

theorem ch_body_canon (i : Bytes) (x : ClientHello) (t : Bytes) (h : ClientHello.decBody i = some (x, t)) :
    i = x.body ++ t := by
  unfold ClientHello.decBody at h
  cases h0 : uintBE 2 i with
  | none => simp [h0] at h
  | some p0 =>
    rcases p0 with ⟨v, r0⟩
    simp only [h0] at h
    by_cases hv : v = 0x0303
    · simp only [hv, ne_eq, not_true_eq_false, ↓reduceIte] at h
      cases h1 : bytesN 32 r0 with
      | none => simp [h1] at h
      | some p1 =>
        rcases p1 with ⟨rnd, r1⟩
        simp only [h1] at h
        cases h2 : opq 1 r1 with
        | none => simp [h2] at h
        | some p2 =>
          rcases p2 with ⟨sid, r2⟩
          simp only [h2] at h
          cases h3 : list 2 (uintBE 2) r2 with
          | none => simp [h3] at h
          | some p3 =>
            rcases p3 with ⟨cs, r3⟩
            simp only [h3] at h
            cases h4 : list 1 (uintBE 1) r3 with
            | none => simp [h4] at h
            | some p4 =>
              rcases p4 with ⟨cm, r4⟩
              simp only [h4] at h
              cases h5 : list 2 extDec r4 with
              | none => simp [h5] at h
              | some p5 =>
                rcases p5 with ⟨xs, r5⟩
                simp only [h5, Option.some.injEq, Prod.mk.injEq] at h
                rw [(uintBE_canon 2 i r0 v h0).1, hv, (bytesN_canon 32 r0 rnd r1 h1).1, (opq_canon 1 r1 sid r2 h2).1,
                  list_canon 2 (uintBE 2) (beEnc 2) u16_item_canon r2 r3 cs h3,
                  list_canon 1 (uintBE 1) (beEnc 1) u8_item_canon r3 r4 cm h4,
                  list_canon 2 extDec extEnc (fun i x t => extDec_canon i t x) r4 r5 xs h5, ← h.1, ← h.2]
                simp [ClientHello.body]
    · simp [hv] at h

theorem nst_body_canon (i : Bytes) (x : NewSessionTicket) (t : Bytes)
    (h : NewSessionTicket.decBody i = some (x, t)) : i = x.body ++ t := by
  unfold NewSessionTicket.decBody at h
  cases h0 : uintBE 4 i with
  | none => simp [h0] at h
  | some p0 =>
    rcases p0 with ⟨l, r1⟩
    simp only [h0] at h
    cases h1 : uintBE 4 r1 with
    | none => simp [h1] at h
    | some p1 =>
      rcases p1 with ⟨a, r2⟩
      simp only [h1] at h
      cases h2 : opq 1 r2 with
      | none => simp [h2] at h
      | some p2 =>
        rcases p2 with ⟨n, r3⟩
        simp only [h2] at h
        cases h3 : opq 2 r3 with
        | none => simp [h3] at h
        | some p3 =>
          rcases p3 with ⟨tk, r4⟩
          simp only [h3] at h
          cases h4 : list 2 extDec r4 with
          | none => simp [h4] at h
          | some p4 =>
            rcases p4 with ⟨xs, r5⟩
            simp only [h4, Option.some.injEq, Prod.mk.injEq] at h
            rw [(uintBE_canon 4 i r1 l h0).1, (uintBE_canon 4 r1 r2 a h1).1, (opq_canon 1 r2 n r3 h2).1,
              (opq_canon 2 r3 tk r4 h3).1,
              list_canon 2 extDec extEnc (fun i x t => extDec_canon i t x) r4 r5 xs h4, ← h.1, ← h.2]
            simp [NewSessionTicket.body]

end AQ.TlsCodec
