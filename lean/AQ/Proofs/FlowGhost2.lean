/-
  Ghost histories for the send halves of all streams of the connection model:
  `gstep` updates, per operation, the C10 ghost (AQ.Stream.Ghost) of the stream
  the operation touches; `GI` (every writable stream satisfies the C10 sender
  invariant + `HB`) is preserved when delivery reports name emitted frames.
-/
import AQ.Proofs.FlowGhost

namespace AQ.Flow
open AQ AQ.Stream AQ.RangeSet

abbrev GMap := Nat → Ghost

def GMap.set (G : GMap) (sid : Nat) (g : Ghost) : GMap := fun x => if x = sid then g else G x

@[simp] theorem GMap.set_same (G : GMap) (sid : Nat) (g : Ghost) : (G.set sid g) sid = g := by simp [GMap.set]
theorem GMap.set_other (G : GMap) {sid x : Nat} (g : Ghost) (h : x ≠ sid) : (G.set sid g) x = G x := by
  simp [GMap.set, h]

/-- a stream object just created gets an empty history -/
def freshG (c : Conn) (G : GMap) (sid : Nat) : GMap := if (c.find? sid).isNone then G.set sid {} else G

/-- the ghost update that goes with `step c op` -/
def gstep (c : Conn) (G : GMap) : Op → GMap
  | .sendStreamData sid data fin =>
    match getOrCreateStreamForSend c sid with
    | .error _ => G
    | .ok (_, st) =>
      match write st.send data fin with
      | .ok _ => (freshG c G sid).set sid ((freshG c G sid sid).onWrite data fin)
      | .error _ => freshG c G sid
  | .resetStream sid _ =>
    match getOrCreateStreamForSend c sid with
    | .error _ => G
    | .ok _ => (freshG c G sid).set sid { freshG c G sid sid with reset := true }
  | .rxStopSending sid =>
    if !c.canSend sid then G else
    match getOrCreateStream c sid with
    | .error _ => G
    | .ok _ => (freshG c G sid).set sid { freshG c G sid sid with reset := true }
  | .rxMaxStreamData sid _ =>
    if !c.canSend sid then G else
    match getOrCreateStream c sid with
    | .error _ => G
    | .ok _ => freshG c G sid
  | .rxStreamDataBlocked sid =>
    if !c.canReceive sid then G else
    match getOrCreateStream c sid with
    | .error _ => G
    | .ok _ => freshG c G sid
  | .rxStream sid off data _ =>
    if off + data.length > UINT_VAR_MAX then G else
    if !c.canReceive sid then G else
    match getOrCreateStream c sid with
    | .error _ => G
    | .ok _ => freshG c G sid
  | .rxResetStream sid _ =>
    if !c.canReceive sid then G else
    match getOrCreateStream c sid with
    | .error _ => G
    | .ok _ => freshG c G sid
  | .serve sid a b fs =>
    match c.find? sid with
    | none => G
    | some st =>
      if st.isFinished then G
      else if st.isBlocked then G
      else if st.stopPending && !a then G
      else
        let st1 := if st.stopPending then { st with stopPending := false } else st
        if st1.send.resetPending then
          (if !b then G else G.set sid { G sid with resetOut := (G sid).resetOut + 1 })
        else if !st1.send.bufferIsEmpty then
          match writeStreamFrame st1 (maxOffsetFor c st1) fs with
          | .error _ => G
          | .ok (_, fr, _) => G.set sid ((G sid).onGet fr)
        else G
  | .dataDelivery sid d a b fin =>
    match c.find? sid with
    | none => G
    | some st =>
      match onDataDelivery st.send d a b fin with
      | .error _ => G
      | .ok _ => G.set sid ((G sid).onDelivery d ⟨a, b, fin⟩)
  | .resetDelivery sid d =>
    match c.find? sid with
    | none => G
    | some _ => G.set sid ((G sid).onResetDelivery d)
  | _ => G

/-- delivery reports name frames that were emitted for the stream and not yet
    reported (what the recovery layer guarantees, C08) -/
def wfG (c : Conn) (G : GMap) : Op → Prop
  | .dataDelivery sid _ a b fin => (c.find? sid).isSome → (⟨a, b, fin⟩ : Fr) ∈ (G sid).outstanding
  | .resetDelivery sid _ => (c.find? sid).isSome → 0 < (G sid).resetOut
  | _ => True

/-- per stream: the C10 invariant + `HB`, or a receive-only stream never touched -/
def GOK (c : Conn) (st : Strm) (g : Ghost) : Prop :=
  SG st.send g ∨ (st.send = Send.init false ∧ g = {} ∧ c.canSend st.sid = false)

def GI (c : Conn) (G : GMap) : Prop := ∀ st ∈ c.streams, GOK c st (G st.sid)

theorem GOK.client {c c' : Conn} {st : Strm} {g : Ghost} (h : GOK c st g) (hc : c'.isClient = c.isClient) :
    GOK c' st g := by
  rcases h with h | ⟨h1, h2, h3⟩
  · exact .inl h
  · exact .inr ⟨h1, h2, by simpa [Conn.canSend, hc] using h3⟩

theorem mem_setIn_nodup {st x : Strm} {ss : List Strm} (hnd : (ss.map (·.sid)).Nodup) (h : x ∈ setIn st ss) :
    x = st ∨ (x ∈ ss ∧ x.sid ≠ st.sid) := by
  induction ss with
  | nil => simp [setIn] at h
  | cons y ys ih =>
    simp only [List.map_cons, List.nodup_cons] at hnd
    unfold setIn at h
    split at h
    · rename_i hy
      simp at hy
      rcases List.mem_cons.1 h with h | h
      · exact .inl h
      · right
        refine ⟨List.mem_cons_of_mem _ h, ?_⟩
        intro he
        apply hnd.1
        rw [hy, ← he]
        exact List.mem_map.mpr ⟨x, h, rfl⟩
    · rename_i hy
      simp at hy
      rcases List.mem_cons.1 h with h | h
      · subst h; exact .inr ⟨by simp, hy⟩
      · rcases ih hnd.2 h with h' | ⟨h1, h2⟩
        · exact .inl h'
        · exact .inr ⟨List.mem_cons_of_mem _ h1, h2⟩

/-- one stream object replaced, its ghost replaced -/
theorem GI.set {c c' : Conn} {G : GMap} (h : GI c G) (hnd : (c.streams.map (·.sid)).Nodup)
    {st : Strm} {sid : Nat} (hsid : st.sid = sid) {g' : Ghost} (hok : GOK c st g')
    (hc : c'.isClient = c.isClient) (hs : c'.streams = setIn st c.streams) : GI c' (G.set sid g') := by
  intro x hx
  rw [hs] at hx
  rcases mem_setIn_nodup hnd hx with rfl | ⟨h1, h2⟩
  · rw [hsid, GMap.set_same]; exact hok.client hc
  · rw [GMap.set_other _ _ (by rw [← hsid]; exact h2)]
    exact (h x h1).client hc

/-- the streams are (a subset of) the old ones, unchanged -/
theorem GI.keep {c c' : Conn} {G : GMap} (h : GI c G) (hc : c'.isClient = c.isClient)
    (hs : ∀ x ∈ c'.streams, x ∈ c.streams) : GI c' G :=
  fun x hx => (h x (hs x hx)).client hc

theorem GI.add {c c' : Conn} {G : GMap} (h : GI c G) {st : Strm} {sid : Nat} (hsid : st.sid = sid)
    (hfresh : ∀ s ∈ c.streams, s.sid ≠ sid) (hok : GOK c st {})
    (hc : c'.isClient = c.isClient) (hs : c'.streams = c.streams ++ [st]) : GI c' (G.set sid {}) := by
  intro x hx
  rw [hs] at hx
  rcases List.mem_append.1 hx with hx | hx
  · rw [GMap.set_other _ _ (hfresh x hx)]; exact (h x hx).client hc
  · simp at hx; subst hx
    rw [hsid, GMap.set_same]; exact hok.client hc

/-- `_write_stream_frame` either leaves the sender alone or is one `get_frame` call -/
theorem writeStreamFrame_get {st st' : Strm} {mo fs : Int} {fr : Option OutFrame} {used : Nat}
    (hw : writeStreamFrame st mo fs = .ok (st', fr, used)) :
    st'.sid = st.sid ∧
    ((st'.send = st.send ∧ fr = none) ∨ ∃ ms, getFrame st.send ms (some mo.toNat) = .ok (st'.send, fr)) := by
  unfold writeStreamFrame at hw
  simp only [bind, Except.bind, pure, Except.pure] at hw
  repeat' split at hw
  all_goals try (simp at hw)
  all_goals try (obtain ⟨rfl, rfl, rfl⟩ := hw; exact ⟨rfl, .inl ⟨rfl, rfl⟩⟩)
  all_goals try
      (rename_i _ v hgf _ hsnd
       obtain ⟨snd, fr0⟩ := v
       simp at hsnd; subst hsnd
       obtain ⟨rfl, rfl, rfl⟩ := hw
       exact ⟨rfl, .inr ⟨_, hgf⟩⟩)
  all_goals
      (rename_i _ v hgf _ f hsnd
       obtain ⟨snd, fr0⟩ := v
       simp at hsnd; subst hsnd
       obtain ⟨rfl, rfl, rfl⟩ := hw
       exact ⟨rfl, .inr ⟨_, hgf⟩⟩)

theorem freshG_some {c : Conn} {G : GMap} {sid : Nat} {st : Strm} (h : c.find? sid = some st) :
    freshG c G sid = G := by simp [freshG, h]

theorem freshG_none {c : Conn} {G : GMap} {sid : Nat} (h : c.find? sid = none) :
    freshG c G sid = G.set sid {} := by simp [freshG, h]

theorem GOK.sg {c : Conn} {st : Strm} {g : Ghost} (h : GOK c st g) (hs : c.canSend st.sid = true) :
    SG st.send g := by
  rcases h with h | ⟨_, _, h3⟩
  · exact h
  · rw [hs] at h3; cases h3

theorem getOrCreateStreamForSend_gi {c c' : Conn} {G : GMap} {sid : Nat} {st : Strm} (hr : RInv c)
    (h : GI c G) (hg : getOrCreateStreamForSend c sid = .ok (c', st)) :
    GI c' (freshG c G sid) ∧ st ∈ c'.streams ∧ st.sid = sid ∧ c'.isClient = c.isClient ∧
    SG st.send (freshG c G sid sid) ∧ RInv c' := by
  have hr' := (getOrCreateStreamForSend_rinv hr hg).1
  unfold getOrCreateStreamForSend at hg
  split at hg
  · simp at hg
  · rename_i hcs
    have hcs' : c.canSend sid = true := by simpa using hcs
    split at hg
    · rename_i st' hf
      simp at hg; obtain ⟨rfl, rfl⟩ := hg
      obtain ⟨hm, hsid⟩ := Conn.find?_mem hf
      rw [freshG_some hf]
      exact ⟨h, hm, hsid, rfl, by rw [← hsid]; exact (h _ hm).sg (by rw [hsid]; exact hcs'), hr'⟩
    · rename_i hf
      have hfresh := find?_none hf
      rw [freshG_none hf]
      have hq : ¬ ((!c.quirks.reopenFinished && c.finishedIds.contains sid) = true) := by
        intro hq; rw [if_pos hq] at hg; simp at hg
      rw [if_neg hq] at hg
      split at hg
      · simp at hg
      · repeat' split at hg
        all_goals
          (simp at hg; obtain ⟨rfl, rfl⟩ := hg
           refine ⟨?_, by simp [Conn.addStrm], rfl, rfl, ?_, hr'⟩
           · exact GI.add h (st := _) rfl hfresh (.inl (by simpa [Strm.create] using SG_init)) rfl rfl
           · simpa [Strm.create] using SG_init)

theorem getOrCreateStream_gi {c c' : Conn} {G : GMap} {sid : Nat} {st : Strm} (hr : RInv c)
    (h : GI c G) (hg : getOrCreateStream c sid = .ok (c', st)) :
    GI c' (freshG c G sid) ∧ st ∈ c'.streams ∧ st.sid = sid ∧ c'.isClient = c.isClient ∧
    (c.canSend sid = true → SG st.send (freshG c G sid sid)) ∧ RInv c' := by
  have hr' := (getOrCreateStream_rinv hr hg).1
  unfold getOrCreateStream at hg
  split at hg
  · simp at hg
  · split at hg
    · rename_i st' hf
      simp at hg; obtain ⟨rfl, rfl⟩ := hg
      obtain ⟨hm, hsid⟩ := Conn.find?_mem hf
      rw [freshG_some hf]
      exact ⟨h, hm, hsid, rfl, fun hcs => by rw [← hsid]; exact (h _ hm).sg (by rw [hsid]; exact hcs), hr'⟩
    · rename_i hf
      have hfresh := find?_none hf
      rw [freshG_none hf]
      split at hg
      · simp at hg
      · rename_i hloc
        simp only [] at hg
        split at hg
        · rename_i huni
          split at hg
          · simp at hg
          · simp at hg; obtain ⟨rfl, rfl⟩ := hg
            have hns : c.canSend sid = false := by
              simp [Conn.canSend, huni]; simpa using hloc
            refine ⟨?_, by simp [Conn.addStrm], rfl, rfl, ?_, hr'⟩
            · exact GI.add h (st := _) rfl hfresh
                (.inr ⟨by simp [Strm.create], rfl, by simpa [Strm.create] using hns⟩) rfl rfl
            · intro hcs; rw [hns] at hcs; cases hcs
        · split at hg
          · simp at hg
          · simp at hg; obtain ⟨rfl, rfl⟩ := hg
            refine ⟨?_, by simp [Conn.addStrm], rfl, rfl, ?_, hr'⟩
            · exact GI.add h (st := _) rfl hfresh (.inl (by simpa [Strm.create] using SG_init)) rfl rfl
            · intro _; simpa [Strm.create] using SG_init

end AQ.Flow
