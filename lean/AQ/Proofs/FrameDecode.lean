/-
  Frame codec, decoding direction: whatever `pullFrame` accepts is a frame with
  in-range fields that owns exactly the bytes it consumed, hence re-encodes to
  bytes that decode to the same frame.
-/
import AQ.Proofs.FrameCodec

namespace AQ.Frame
open AQ AQ.Codec

local notation "P62" => (4611686018427387904 : Nat)

theorem bind_inv {α β : Type} {m : Rd α} {f : α → Rd β} {s : Bytes} {x : β × Bytes}
    (h : (m >>= f) s = .ok x) : ∃ a s', m s = .ok (a, s') ∧ f a s' = .ok x := by
  rw [Rd.bind_apply] at h
  split at h
  · rename_i a s' hm; exact ⟨a, s', hm, h⟩
  · cases h

theorem bindV {β : Type} {f : Nat → Rd β} {s : Bytes} {x : β × Bytes}
    (h : (pullUintVar >>= f) s = .ok x) : ∃ v s', v < P62 ∧ f v s' = .ok x := by
  obtain ⟨v, s', hv, hf⟩ := bind_inv h
  exact ⟨v, s', (pullUintVar_inv _ _ _ hv).1, hf⟩

theorem bindB {β : Type} {n : Nat} {f : Bytes → Rd β} {s : Bytes} {x : β × Bytes}
    (h : (pullBytes (n : Int) >>= f) s = .ok x) : ∃ d s', d.length = n ∧ f d s' = .ok x := by
  obtain ⟨d, s', hd, hf⟩ := bind_inv h
  have := (pullBytes_inv _ _ _ _ hd).2.2
  exact ⟨d, s', by omega, hf⟩

theorem pure_inv {α : Type} {a : α} {s : Bytes} {x : α × Bytes} (h : (pure a : Rd α) s = .ok x) : x = (a, s) := by
  cases h; rfl

theorem guard_inv {β : Type} {c : Bool} {e : Err} {f : Unit → Rd β} {s : Bytes} {x : β × Bytes}
    (h : (Rd.guard c e >>= f) s = .ok x) : c = true ∧ f () s = .ok x := by
  obtain ⟨u, s', hg, hf⟩ := bind_inv h
  unfold Rd.guard at hg
  split at hg
  · cases hg; exact ⟨by assumption, hf⟩
  · cases hg

theorem drop_takeWhile_head (s : Bytes) : (s.drop (s.takeWhile (· == 0)).length).head? ≠ some 0 := by
  induction s with
  | nil => simp
  | cons b t ih =>
    by_cases hb : b = 0
    · subst hb; simpa using ih
    · have hb' : (b == 0) = false := by simpa using hb
      simp [List.takeWhile_cons, hb', hb]

theorem remaining_bytes_inv {β : Type} {f : Bytes → Rd β} {s : Bytes} {x : β × Bytes}
    (h : (pullBytes (s.length : Int) >>= f) s = .ok x) : f s [] = .ok x := by
  obtain ⟨d, s', hd, hf⟩ := bind_inv h
  obtain ⟨_, hs, hl⟩ := pullBytes_inv _ _ _ _ hd
  have hlen : s'.length = 0 := by
    have := congrArg List.length hs
    simp only [List.length_append] at this
    omega
  have hs' : s' = [] := List.length_eq_zero_iff.mp hlen
  subst hs'
  simp only [List.append_nil] at hs
  subst hs
  exact hf

theorem pullFrameBody_inv (t : Nat) (s r : Bytes) (f : Frame) (h : pullFrameBody t s = .ok (f, r)) :
    FrameOK f ∧ RestOK f r := by
  unfold pullFrameBody at h
  by_cases hc0 : t = 0x00
  · rw [if_pos hc0] at h
    obtain ⟨n, s', hz, hp⟩ := bind_inv h
    cases pure_inv hp
    unfold pullZeros at hz
    cases hz
    exact ⟨trivial, drop_takeWhile_head s⟩
  rw [if_neg hc0] at h
  by_cases hc1 : t = 0x01
  · rw [if_pos hc1] at h
    cases pure_inv h; exact ⟨trivial, trivial⟩
  rw [if_neg hc1] at h
  by_cases hc2 : t = 0x02 ∨ t = 0x03
  · rw [if_pos hc2] at h
    obtain ⟨⟨rs, delay⟩, s1, ha, h⟩ := bind_inv h
    obtain ⟨hd, hdel⟩ := pullAck_inv _ _ _ _ ha
    simp only [] at h
    split at h
    · obtain ⟨a, s2, ha', h⟩ := bindV h
      obtain ⟨b, s3, hb', h⟩ := bindV h
      obtain ⟨c, s4, hc', h⟩ := bindV h
      cases pure_inv h
      exact ⟨⟨hd, hdel, ha', hb', hc'⟩, trivial⟩
    · cases pure_inv h
      exact ⟨⟨hd, hdel, trivial⟩, trivial⟩
  rw [if_neg hc2] at h
  by_cases hc3 : t = 0x04
  · rw [if_pos hc3] at h
    obtain ⟨a, s2, ha', h⟩ := bindV h
    obtain ⟨b, s3, hb', h⟩ := bindV h
    obtain ⟨c, s4, hc', h⟩ := bindV h
    cases pure_inv h
    exact ⟨⟨ha', hb', hc'⟩, trivial⟩
  rw [if_neg hc3] at h
  by_cases hc4 : t = 0x05
  · rw [if_pos hc4] at h
    obtain ⟨a, s2, ha', h⟩ := bindV h
    obtain ⟨b, s3, hb', h⟩ := bindV h
    cases pure_inv h
    exact ⟨⟨ha', hb'⟩, trivial⟩
  rw [if_neg hc4] at h
  by_cases hc5 : t = 0x06
  · rw [if_pos hc5] at h
    obtain ⟨off, s2, ho, h⟩ := bindV h
    obtain ⟨len, s3, hl, h⟩ := bindV h
    obtain ⟨hg, h⟩ := guard_inv h
    obtain ⟨d, s4, hd, h⟩ := bindB h
    cases pure_inv h
    have hg' : off + len ≤ UINT_VAR_MAX := by simpa using hg
    exact ⟨⟨ho, by rw [hd]; exact hg'⟩, trivial⟩
  rw [if_neg hc5] at h
  by_cases hc6 : t = 0x07
  · rw [if_pos hc6] at h
    obtain ⟨len, s3, hl, h⟩ := bindV h
    obtain ⟨d, s4, hd, h⟩ := bindB h
    cases pure_inv h
    exact ⟨by show d.length < P62; omega, trivial⟩
  rw [if_neg hc6] at h
  by_cases hc7 : 0x08 ≤ t ∧ t ≤ 0x0F
  · rw [if_pos hc7] at h
    obtain ⟨sid, s2, hsid, h⟩ := bindV h
    by_cases ho : t / 4 % 2 = 1
    · simp only [ho, if_true] at h
      obtain ⟨off, s3, hoff, h⟩ := bindV h
      by_cases hlb : t / 2 % 2 = 1
      · simp only [hlb, if_true] at h
        obtain ⟨len, s4, hlen, h⟩ := bindV h
        obtain ⟨hg, h⟩ := guard_inv h
        obtain ⟨d, s5, hd, h⟩ := bindB h
        cases pure_inv h
        have hg' : off + len ≤ UINT_VAR_MAX := by simpa using hg
        exact ⟨⟨hsid, hoff, by rw [hd]; exact hg', by simp⟩, by simp [RestOK]⟩
      · simp only [hlb, if_false] at h
        obtain ⟨len, s4, hrem, h⟩ := bind_inv h
        cases hrem
        obtain ⟨hg, h⟩ := guard_inv h
        have h' := remaining_bytes_inv h
        cases pure_inv h'
        have hg' : off + s3.length ≤ UINT_VAR_MAX := by simpa using hg
        exact ⟨⟨hsid, hoff, hg', by simp⟩, by simp [RestOK]⟩
    · simp only [ho, if_false] at h
      obtain ⟨off, s3, hoff, h⟩ := bind_inv h
      cases hoff
      by_cases hlb : t / 2 % 2 = 1
      · simp only [hlb, if_true] at h
        obtain ⟨len, s4, hlen, h⟩ := bindV h
        obtain ⟨hg, h⟩ := guard_inv h
        obtain ⟨d, s5, hd, h⟩ := bindB h
        cases pure_inv h
        have hg' : 0 + len ≤ UINT_VAR_MAX := by simpa using hg
        exact ⟨⟨hsid, by omega, by rw [hd]; exact hg', by simp⟩, by simp [RestOK]⟩
      · simp only [hlb, if_false] at h
        obtain ⟨len, s4, hrem, h⟩ := bind_inv h
        cases hrem
        obtain ⟨hg, h⟩ := guard_inv h
        have h' := remaining_bytes_inv h
        cases pure_inv h'
        have hg' : 0 + s2.length ≤ UINT_VAR_MAX := by simpa using hg
        exact ⟨⟨hsid, by omega, hg', by simp⟩, by simp [RestOK]⟩
  rw [if_neg hc7] at h
  by_cases hd0 : t = 0x10
  · rw [if_pos hd0] at h
    obtain ⟨a, s2, ha', h⟩ := bindV h
    cases pure_inv h
    exact ⟨ha', trivial⟩
  rw [if_neg hd0] at h
  by_cases hd1 : t = 0x11
  · rw [if_pos hd1] at h
    obtain ⟨a, s2, ha', h⟩ := bindV h
    obtain ⟨b, s3, hb', h⟩ := bindV h
    cases pure_inv h
    exact ⟨⟨ha', hb'⟩, trivial⟩
  rw [if_neg hd1] at h
  by_cases hd2 : t = 0x12
  · rw [if_pos hd2] at h
    obtain ⟨a, s2, ha', h⟩ := bindV h
    cases pure_inv h
    exact ⟨ha', trivial⟩
  rw [if_neg hd2] at h
  by_cases hd3 : t = 0x13
  · rw [if_pos hd3] at h
    obtain ⟨a, s2, ha', h⟩ := bindV h
    cases pure_inv h
    exact ⟨ha', trivial⟩
  rw [if_neg hd3] at h
  by_cases hd4 : t = 0x14
  · rw [if_pos hd4] at h
    obtain ⟨a, s2, ha', h⟩ := bindV h
    cases pure_inv h
    exact ⟨ha', trivial⟩
  rw [if_neg hd4] at h
  by_cases hd5 : t = 0x15
  · rw [if_pos hd5] at h
    obtain ⟨a, s2, ha', h⟩ := bindV h
    obtain ⟨b, s3, hb', h⟩ := bindV h
    cases pure_inv h
    exact ⟨⟨ha', hb'⟩, trivial⟩
  rw [if_neg hd5] at h
  by_cases hd6 : t = 0x16
  · rw [if_pos hd6] at h
    obtain ⟨a, s2, ha', h⟩ := bindV h
    cases pure_inv h
    exact ⟨ha', trivial⟩
  rw [if_neg hd6] at h
  by_cases hd7 : t = 0x17
  · rw [if_pos hd7] at h
    obtain ⟨a, s2, ha', h⟩ := bindV h
    cases pure_inv h
    exact ⟨ha', trivial⟩
  rw [if_neg hd7] at h
  by_cases hd8 : t = 0x18
  · rw [if_pos hd8] at h
    obtain ⟨a, s2, ha', h⟩ := bindV h
    obtain ⟨b, s3, hb', h⟩ := bindV h
    obtain ⟨len, s4, hl, h⟩ := bind_inv h
    have hl' := pullUint8_lt _ _ _ hl
    obtain ⟨cid, s5, hcid, h⟩ := bindB h
    obtain ⟨tok, s6, htok, h⟩ := bindB (n := 16) h
    cases pure_inv h
    exact ⟨⟨ha', hb', by omega, htok⟩, trivial⟩
  rw [if_neg hd8] at h
  by_cases hd9 : t = 0x19
  · rw [if_pos hd9] at h
    obtain ⟨a, s2, ha', h⟩ := bindV h
    cases pure_inv h
    exact ⟨ha', trivial⟩
  rw [if_neg hd9] at h
  by_cases hd10 : t = 0x1A
  · rw [if_pos hd10] at h
    obtain ⟨d, s2, hd', h⟩ := bindB (n := 8) h
    cases pure_inv h
    exact ⟨hd', trivial⟩
  rw [if_neg hd10] at h
  by_cases hd11 : t = 0x1B
  · rw [if_pos hd11] at h
    obtain ⟨d, s2, hd', h⟩ := bindB (n := 8) h
    cases pure_inv h
    exact ⟨hd', trivial⟩
  rw [if_neg hd11] at h
  by_cases hd12 : t = 0x1C
  · rw [if_pos hd12] at h
    obtain ⟨a, s2, ha', h⟩ := bindV h
    obtain ⟨b, s3, hb', h⟩ := bindV h
    obtain ⟨n, s4, hn', h⟩ := bindV h
    obtain ⟨d, s5, hd', h⟩ := bindB h
    cases pure_inv h
    exact ⟨⟨ha', hb', by omega⟩, trivial⟩
  rw [if_neg hd12] at h
  by_cases hd13 : t = 0x1D
  · rw [if_pos hd13] at h
    obtain ⟨a, s2, ha', h⟩ := bindV h
    obtain ⟨n, s4, hn', h⟩ := bindV h
    obtain ⟨d, s5, hd', h⟩ := bindB h
    cases pure_inv h
    exact ⟨⟨ha', by omega⟩, trivial⟩
  rw [if_neg hd13] at h
  by_cases hd14 : t = 0x1E
  · rw [if_pos hd14] at h
    cases pure_inv h; exact ⟨trivial, trivial⟩
  rw [if_neg hd14] at h
  by_cases hd15 : t = 0x30
  · rw [if_pos hd15] at h
    obtain ⟨n, s2, hrem, h⟩ := bind_inv h
    cases hrem
    have h' := remaining_bytes_inv h
    cases pure_inv h'
    have : s.length < 9223372036854775808 := by
      obtain ⟨d, s', hd, _⟩ := bind_inv h
      unfold pullBytes at hd
      split at hd
      · cases hd
      · rename_i hnn; omega
    exact ⟨this, by simp [RestOK]⟩
  rw [if_neg hd15] at h
  by_cases hd16 : t = 0x31
  · rw [if_pos hd16] at h
    obtain ⟨n, s4, hn', h⟩ := bindV h
    obtain ⟨d, s5, hd', h⟩ := bindB h
    cases pure_inv h
    exact ⟨by show d.length < P62; omega, trivial⟩
  rw [if_neg hd16] at h
  cases h

theorem pullFrame_inv (s r : Bytes) (f : Frame) (h : pullFrame s = .ok (f, r)) : FrameOK f ∧ RestOK f r := by
  unfold pullFrame at h
  split at h
  · cases h
  · rename_i t s1 _
    split at h
    · rename_i x hb
      cases h
      exact pullFrameBody_inv t s1 r f hb
    · cases h
    · cases h

/-- decode → re-encode → decode is the identity, for every accepted frame -/
theorem pullFrame_reencode (s r : Bytes) (f : Frame) (h : pullFrame s = .ok (f, r)) :
    pullFrame (reenc false f ++ r) = .ok (f, r) := by
  obtain ⟨hok, hr⟩ := pullFrame_inv s r f h
  refine reenc_roundtrip false f r hok ?_ hr
  cases f <;> simp [FrameLenOK, LenOK]
  rename_i hasLen
  cases hasLen <;> simp [FrameLenOK, LenOK]

/-! ### whole payloads -/

def reencAll (two : Bool) : List Frame → Bytes
  | [] => []
  | f :: fs => reenc two f ++ reencAll two fs

/-- every frame in range, open-ended frames last, a PADDING run not directly followed by another -/
def ChainOK (two : Bool) : List Frame → Prop
  | [] => True
  | f :: fs => FrameOK f ∧ FrameLenOK two f ∧ RestOK f (reencAll two fs) ∧ ChainOK two fs

theorem encV_head_ne (t : Nat) (h : 0 < t) (h64 : t < 64) : ∃ b x, encV t = b :: x := by
  unfold encV
  rw [if_pos (by omega)]
  exact ⟨_, _, rfl⟩

theorem reenc_ne_nil (two : Bool) (f : Frame) : reenc two f ≠ [] := by
  cases f with
  | ack rs d ecn => cases ecn <;> simp [reenc, encV_ne_nil]
  | _ => simp [reenc, encV_ne_nil, zeros, List.replicate_succ]

theorem pullFrames_succ (n : Nat) (s : Bytes) (h : s ≠ []) :
    pullFrames (n + 1) s =
      match pullFrame s with
      | .error e => .error e
      | .ok (f, s') =>
        match pullFrames n s' with
        | .ok fs => .ok (f :: fs)
        | .error e => .error e := by
  cases s with
  | nil => exact absurd rfl h
  | cons b t => rfl

theorem pullFrames_reencAll (two : Bool) (fs : List Frame) : ∀ n, ChainOK two fs → (reencAll two fs).length ≤ n →
    pullFrames n (reencAll two fs) = .ok fs := by
  induction fs with
  | nil => intro n _ _; cases n <;> rfl
  | cons f fs ih =>
    intro n hc hn
    obtain ⟨hok, hl, hr, hrest⟩ := hc
    simp only [reencAll, List.length_append] at hn ⊢
    have hne := reenc_ne_nil two f
    have hpos : 0 < (reenc two f).length := List.length_pos_iff.mpr hne
    obtain ⟨m, rfl⟩ : ∃ m, n = m + 1 := ⟨n - 1, by omega⟩
    have h2 := ih m hrest (by omega)
    rw [pullFrames_succ _ _ (by simp [hne]), reenc_roundtrip two f _ hok hl hr]
    simp only [h2]

/-- **encode → decode** for a whole payload -/
theorem payload_roundtrip (two : Bool) (fs : List Frame) (h : ChainOK two fs) :
    payloadFrames (reencAll two fs) = .ok fs :=
  pullFrames_reencAll two fs _ h (Nat.le_refl _)

theorem writeAll_bytes (fs : List Frame) : ∀ sc, writeAll fs = some sc → ChainOK true fs →
    sc.bytes = .ok (reencAll true fs) := by
  induction fs with
  | nil => intro sc h _; simp only [writeAll, Option.some.injEq] at h; subst h; rfl
  | cons f fs ih =>
    intro sc h hc
    obtain ⟨hok, hl, _, hrest⟩ := hc
    simp only [writeAll] at h
    split at h
    · rename_i a b ha hb
      simp only [Option.some.injEq] at h; subst h
      exact Script.bytes_append _ _ _ _ (writeScript_bytes f a ha hok hl) (ih b hb hrest)
    · cases h

end AQ.Frame
