/-
  Helper lemmas for AQ.Props.C09Timers: the connection component of the product
  model AQ.Model.ConnTimers performs CloseTimer steps (so every CloseTimer
  theorem transfers), the recovery component keeps C01Loss's `SortedInv`.
-/
import AQ.Model.ConnTimers
import AQ.Proofs.CloseTimer
import AQ.Proofs.RecoveryLoss

namespace AQ.ConnTimers
open AQ AQ.RangeSet AQ.Recovery AQ.CloseTimer

variable {F : Type}

/-! ### recovery calls never touch the close machinery -/

@[simp] theorem sub_conn (A : FArith F) (y : Sys F) (s : Sub F) : (sub A y s).conn = y.conn := by
  cases s <;> simp only [sub]
  split <;> rfl

@[simp] theorem subs_conn (A : FArith F) (l : List (Sub F)) (y : Sys F) : (subs A y l).conn = y.conn := by
  induction l generalizing y with
  | nil => rfl
  | cons s rest ih =>
    show (subs A (sub A y s) rest).conn = y.conn
    rw [ih, sub_conn]

/-! ### each product step is a CloseTimer step on the connection component -/

theorem rxItems_conn (A : FArith F) (now : F) (items : List (Item F)) (y : Sys F) :
    ∃ pkts, (rxItems A y now items).conn = rxPkts A y.conn now pkts := by
  induction items generalizing y with
  | nil => exact ⟨[], rfl⟩
  | cons it rest ih =>
    simp only [rxItems]
    cases hk : rxPkt A (subs A y it.pre).conn now (fillPto (pto A (subs A y it.pre)) it.pkt) with
    | mk c b =>
      cases b with
      | true =>
        obtain ⟨pkts, hp⟩ := ih (subs A { subs A y it.pre with conn := c } it.post)
        refine ⟨fillPto (pto A (subs A y it.pre)) it.pkt :: pkts, ?_⟩
        simp only [subs_conn] at hk hp
        simp only [rxPkts, hk]
        exact hp
      | false =>
        refine ⟨[fillPto (pto A (subs A y it.pre)) it.pkt], ?_⟩
        simp only [subs_conn] at hk
        simp only [rxPkts, hk, subs_conn]

theorem handleTimer_conn (A : FArith F) (y : Sys F) (now : F) :
    (handleTimer A y now).conn = CloseTimer.handleTimer A y.conn now := by
  unfold handleTimer CloseTimer.handleTimer
  cases hc : y.conn.closeAt with
  | none => rfl
  | some c =>
    by_cases hd : A.le c now = true
    · simp [hd, hc]
    · cases hl : y.conn.lossAt with
      | none => simp [hd]
      | some l =>
        by_cases hl2 : A.le l now = true
        · simp [hd, hl2, hc, hl]
        · simp [hd, hl2]

/-- the CloseTimer op a product op performs on the connection component -/
theorem step_proj (A : FArith F) (y : Sys F) (op : Op F) :
    ∃ cop : CloseTimer.Op F, (step A y op).conn = CloseTimer.step A y.conn cop ∧
      (op.usageOk A y → cop.usageOk y.conn) ∧
      (∀ now, op = .fire now → cop = .fire now) := by
  cases op with
  | connect now idle l =>
    refine ⟨.connect now idle, ?_, fun _ => trivial, fun _ h => by cases h⟩
    simp only [step, CloseTimer.step]
    cases hc : CloseTimer.connect A y.conn now idle with
    | ok c => simp
    | error e => simp
  | rx now idle0 items =>
    simp only [step, rx]
    by_cases he : ({ y.conn with started := true } : Conn F).state.isEnd = true
    · refine ⟨.rx now idle0 [], ?_, fun h => h.1, fun _ h => by cases h⟩
      have he' : y.conn.state.isEnd = true := he
      simp [CloseTimer.step, CloseTimer.rx, he']
    · have he' : y.conn.state.isEnd = false := by simpa using he
      obtain ⟨pkts, hp⟩ := rxItems_conn A now items
        { y with conn := if ({ y.conn with started := true } : Conn F).closeAt.isNone
                         then { ({ y.conn with started := true } : Conn F) with closeAt := some (A.add now idle0) }
                         else { y.conn with started := true } }
      refine ⟨.rx now idle0 pkts, ?_, fun h => h.1, fun _ h => by cases h⟩
      simp only [CloseTimer.step, CloseTimer.rx, he']
      simpa using hp
  | close e => exact ⟨.close e, rfl, fun _ => trivial, fun _ h => by cases h⟩
  | send now i l =>
    refine ⟨.send now { i with pto := pto A y }, ?_, fun _ => trivial, fun _ h => by cases h⟩
    simp only [step, send, CloseTimer.step]
    split <;> simp
  | timer =>
    exact ⟨.timer (ackAts y) (lossTime A y) y.pacingAt, rfl, fun _ => trivial, fun _ h => by cases h⟩
  | fire now =>
    exact ⟨.fire now, handleTimer_conn A y now, fun _ => trivial, fun n h => by cases h; rfl⟩
  | next => exact ⟨.next, rfl, fun _ => trivial, fun _ h => by cases h⟩

theorem run_proj (A : FArith F) (ops : List (Op F)) (y : Sys F) (hu : Usage A y ops) :
    ∃ cops : List (CloseTimer.Op F), (run A y ops).conn = CloseTimer.run A y.conn cops ∧
      CloseTimer.Usage A y.conn cops ∧
      (∀ now, Op.fire now ∈ ops → CloseTimer.Op.fire now ∈ cops) := by
  induction ops generalizing y with
  | nil => exact ⟨[], rfl, trivial, fun _ h => by cases h⟩
  | cons op rest ih =>
    obtain ⟨cop, h1, h2, h3⟩ := step_proj A y op
    obtain ⟨cops, g1, g2, g3⟩ := ih (step A y op) hu.2
    refine ⟨cop :: cops, ?_, ⟨h2 hu.1, by rw [← h1]; exact g2⟩, ?_⟩
    · show (run A (step A y op) rest).conn = CloseTimer.run A (CloseTimer.step A y.conn cop) cops
      rw [← h1]; exact g1
    · intro now hm
      rcases List.mem_cons.mp hm with a | a
      · rw [h3 now a.symm]; simp
      · exact List.mem_cons_of_mem _ (g3 now a)

/-- the CloseTimer invariant holds on the connection component of every
    reachable product state -/
theorem inv_run_conn (A : FArith F) (ops : List (Op F)) (y : Sys F) (hi : CloseTimer.Inv y.conn)
    (hu : Usage A y ops) : CloseTimer.Inv (run A y ops).conn := by
  obtain ⟨cops, h1, h2, -⟩ := run_proj A ops y hu
  rw [h1]
  exact CloseTimer.inv_run A cops hi h2

/-! ### `get_timer()` returns one of its sources -/

theorem minOpt_source (A : FArith F) (t : F) (x : Option F) :
    minOpt A t x = t ∨ x = some (minOpt A t x) := by
  cases x with
  | none => left; rfl
  | some v =>
    simp only [minOpt]
    split
    · right; rfl
    · left; rfl

theorem foldl_minOpt_source (A : FArith F) (acks : List (Option F)) (t : F) :
    acks.foldl (minOpt A) t = t ∨ some (acks.foldl (minOpt A) t) ∈ acks := by
  induction acks generalizing t with
  | nil => left; rfl
  | cons a rest ih =>
    simp only [List.foldl_cons]
    rcases ih (minOpt A t a) with h | h
    · rcases minOpt_source A t a with g | g
      · left; rw [h, g]
      · right; rw [h]; simp [← g]
    · right; exact List.mem_cons_of_mem _ h

/-- the value `get_timer()` returns is the close deadline, an ack deadline, the
    loss-detection deadline or the pacing deadline -/
theorem getTimer_source (A : FArith F) (s : Conn F) (acks : List (Option F)) (loss pacing : Option F) (t : F)
    (h : (CloseTimer.getTimer A s acks loss pacing).2 = some t) :
    s.closeAt = some t ∨ some t ∈ acks ∨ loss = some t ∨ pacing = some t := by
  unfold CloseTimer.getTimer at h
  cases hc : s.closeAt with
  | none => rw [hc] at h; cases h
  | some c =>
    rw [hc] at h
    simp only [] at h
    split at h
    · left; exact h
    · simp only [Option.some.injEq] at h
      subst h
      rcases minOpt_source A (minOpt A (acks.foldl (minOpt A) c) loss) pacing with g1 | g1
      · rw [g1]
        rcases minOpt_source A (acks.foldl (minOpt A) c) loss with g2 | g2
        · rw [g2]
          rcases foldl_minOpt_source A acks c with g3 | g3
          · left; rw [g3]
          · right; left; exact g3
        · right; right; left; exact g2
      · right; right; right; exact g1

/-! ### the recovery component keeps `SortedInv` (C01Loss's reachability invariant) -/

theorem sorted_fresh (n : Nat) : ∀ s ∈ (List.replicate n ({} : Space F)), SortedSp s := by
  intro s hs
  rw [List.eq_of_mem_replicate hs]
  simp [SortedSp]

theorem sub_sorted (A : FArith F) (y : Sys F) (s : Sub F) (h : SortedInv y.loss) (ok : s.ok y) :
    SortedInv (sub A y s).loss := by
  cases s with
  | sent i p => exact sorted_step A y.loss (.sent i p) h ok
  | ack i rs d now => exact sorted_step A y.loss (.ack i rs d now) h trivial
  | discard i => exact sorted_step A y.loss (.discard i) h trivial
  | resched now =>
    obtain ⟨-, -, -, b4, -⟩ := rescheduleFold_facts A now (List.range y.loss.spaces.length) y.loss
    have := h.of_subShrinks b4
    simp only [sub, rescheduleData_eq]
    exact this
  | ackAt i v =>
    simp only [sub]
    cases hs : y.loss.spaces[i]? with
    | none => exact h
    | some sp =>
      exact h.of_subShrinks (SubShrinks.set (s' := { sp with ackAt := v }) hs (List.Sublist.refl _)
        (by simp [Rec.setSpace]))
  | pacing v => exact h
  | validated => exact h
  | spaces n => exact sorted_fresh n
  | maxAckDelay v => exact h

theorem subs_sorted (A : FArith F) (l : List (Sub F)) (y : Sys F) (h : SortedInv y.loss) (ok : SubsOk A y l) :
    SortedInv (subs A y l).loss := by
  induction l generalizing y with
  | nil => exact h
  | cons s rest ih => exact ih (sub A y s) (sub_sorted A y s h ok.1) ok.2

theorem rxItems_sorted (A : FArith F) (now : F) (items : List (Item F)) (y : Sys F) (h : SortedInv y.loss)
    (ok : ItemsOk A y now items) : SortedInv (rxItems A y now items).loss := by
  induction items generalizing y with
  | nil => exact h
  | cons it rest ih =>
    simp only [rxItems]
    simp only [ItemsOk] at ok
    obtain ⟨ok1, ok2⟩ := ok
    have h1 := subs_sorted A it.pre y h ok1
    cases hk : rxPkt A (subs A y it.pre).conn now (fillPto (pto A (subs A y it.pre)) it.pkt) with
    | mk c b =>
      rw [hk] at ok2
      cases b with
      | true =>
        simp only [] at ok2 ⊢
        exact ih _ (subs_sorted A it.post _ h1 ok2.1) ok2.2
      | false =>
        simp only [] at ok2 ⊢
        exact subs_sorted A it.post _ h1 ok2

theorem step_sorted (A : FArith F) (y : Sys F) (op : Op F) (h : SortedInv y.loss) (ok : op.usageOk A y) :
    SortedInv (step A y op).loss := by
  cases op with
  | connect now idle l =>
    simp only [step]
    simp only [Op.usageOk] at ok
    cases hc : CloseTimer.connect A y.conn now idle with
    | ok c => rw [hc] at ok; exact subs_sorted A l _ h ok
    | error e => exact h
  | rx now idle0 items =>
    simp only [step, rx]
    simp only [Op.usageOk] at ok
    split
    · exact h
    · rename_i he
      have := ok.2
      simp only [he] at this
      exact rxItems_sorted A now items _ h this
  | close e => exact h
  | send now i l =>
    simp only [step, send]
    simp only [Op.usageOk] at ok
    split
    · exact h
    · exact subs_sorted A l _ h ok
  | timer => exact h
  | fire now =>
    simp only [step, handleTimer]
    split
    · exact h
    · split
      · exact h
      · split
        · split
          · exact h.of_subShrinks (onLossDetectionTimeout_subShrinks A y.loss now h)
          · exact h
        · exact h
  | next => exact h

theorem run_sorted (A : FArith F) (ops : List (Op F)) (y : Sys F) (h : SortedInv y.loss) (hu : Usage A y ops) :
    SortedInv (run A y ops).loss := by
  induction ops generalizing y with
  | nil => exact h
  | cons op rest ih => exact ih (step A y op) (step_sorted A y op h hu.1) hu.2

theorem sorted_sys_init (A : FArith F) (c : Bool) (algo : Algo) (mds : Nat) (rtt0 : F) :
    SortedInv (Sys.init A c algo mds rtt0).loss := sorted_init A algo mds 0 rtt0

/-! ### what `on_loss_detection_timeout` does (C01Loss facts, for any sorted state) -/

/-- a loss time is set somewhere: `_detect_loss` runs on that space, reports every
    packet past a threshold, and the space's NEW loss time (if any) is not `<= now`
    (order fact `le_sub_of_add_le` of C01Loss, which IEEE doubles can violate by
    one ulp when `now` equals the deadline exactly) -/
theorem timeout_loss_branch (A : FArith F) (O : LossOrderFacts A) (r : Rec F) (hso : SortedInv r) (now : F)
    (j : Nat) (hj : getLossSpace A r = some j) :
    onLossDetectionTimeout A r now = detectLoss A r j now ∧
    ∃ s t s', r.spaces[j]? = some s ∧ s.lossTime = some t ∧
      (detectLoss A r j now).spaces[j]? = some s' ∧
      (∀ q ∈ s.sent, q.pn ≤ s.largestAcked →
        (q.pn + 3 ≤ s.largestAcked ∨ A.le q.sentTime (timeThreshold A r now) = true) →
        q ∉ s'.sent ∧ (q.uid, Delivery.lost) ∈ (detectLoss A r j now).log) ∧
      (s'.lossTime = none ∨ ∃ t', s'.lossTime = some t' ∧ A.le t' now = false) := by
  have h0 : onLossDetectionTimeout A r now = detectLoss A r j now := by
    unfold onLossDetectionTimeout; rw [hj]
  obtain ⟨s, t, h1, h2⟩ := getLossSpace_some A r j hj
  obtain ⟨s', lost, hd⟩ := detectLoss_spec A r j now s h1 (hso s (List.mem_of_getElem? h1))
  have hlt : j < r.spaces.length := (List.getElem?_eq_some_iff.1 h1).1
  refine ⟨h0, s, t, s', h1, h2, by rw [hd.spaces]; exact List.getElem?_set_self hlt, ?_, ?_⟩
  · intro q hq hle hc
    exact hd.lost_reported (hd.complete q hq hle hc)
  · cases hlt' : s'.lossTime with
    | none => left; rfl
    | some t' =>
      right
      refine ⟨t', rfl, ?_⟩
      rw [hd.lossTime_eq] at hlt'
      rcases detectLoop_attained A s.largestAcked _ _ s.sent [] none t' hlt' with h3 | ⟨q0, _, _, hn, ht'⟩
      · cases h3
      · cases hb : A.le t' now with
        | false => rfl
        | true =>
          exfalso
          apply hn
          right
          rw [ht'] at hb
          exact O.le_sub_of_add_le _ _ _ hb

/-- no loss time anywhere: the PTO fires — `pto_count += 1`, one probe requested,
    every tracked CRYPTO packet reported LOST (retransmission), nothing un-reported -/
theorem timeout_pto_branch (A : FArith F) (r : Rec F) (now : F) (hn : getLossSpace A r = none) :
    (onLossDetectionTimeout A r now).ptoCount = r.ptoCount + 1 ∧
    (onLossDetectionTimeout A r now).probes = r.probes + 1 ∧
    (∀ e ∈ r.log, e ∈ (onLossDetectionTimeout A r now).log) ∧
    ∀ (j : Nat) (s : Space F), r.spaces[j]? = some s → ∀ p ∈ s.sent, p.isCrypto = true →
      (p.uid, Delivery.lost) ∈ (onLossDetectionTimeout A r now).log ∧
      ∀ s' : Space F, (onLossDetectionTimeout A r now).spaces[j]? = some s' → p ∉ s'.sent := by
  have hr' : onLossDetectionTimeout A r now = rescheduleData A { r with ptoCount := r.ptoCount + 1 } now := by
    unfold onLossDetectionTimeout; rw [hn]
  obtain ⟨b1, b2, b3, -, b5⟩ := rescheduleFold_facts A now (List.range r.spaces.length)
    { r with ptoCount := r.ptoCount + 1 }
  rw [hr', rescheduleData_eq]
  refine ⟨b1, by simp only []; rw [b2], b3, ?_⟩
  intro j s hs p hp hc
  have hlt : j < r.spaces.length := (List.getElem?_eq_some_iff.1 hs).1
  exact b5 j (List.mem_range.2 hlt) s hs p hp hc

/-! ### handle_timer: the four cases -/

theorem handleTimer_none (A : FArith F) (y : Sys F) (now : F) (hc : y.conn.closeAt = none) :
    handleTimer A y now = y := by
  unfold handleTimer; rw [hc]

theorem handleTimer_due (A : FArith F) (y : Sys F) (c now : F) (hc : y.conn.closeAt = some c)
    (hd : A.le c now = true) :
    (handleTimer A y now).conn.state = .terminated ∧ (handleTimer A y now).loss = y.loss ∧
    (handleTimer A y now).conn.log =
      y.conn.log ++ [Ev.terminated (some (y.conn.closeEvent.getD idleEv))] := by
  have := CloseTimer.handleTimer_due A y.conn c now hc hd
  rw [← handleTimer_conn] at this
  refine ⟨this.1, ?_, this.2.2⟩
  unfold handleTimer; rw [hc]; simp [hd]

theorem handleTimer_loss (A : FArith F) (y : Sys F) (c l now : F) (hc : y.conn.closeAt = some c)
    (hd : A.le c now = false) (hl : y.conn.lossAt = some l) (hl2 : A.le l now = true) :
    handleTimer A y now =
      { y with conn := { y.conn with lossFired := y.conn.lossFired + 1 },
               loss := onLossDetectionTimeout A y.loss now } := by
  unfold handleTimer; rw [hc]; simp [hd, hl, hl2]

theorem handleTimer_idle (A : FArith F) (y : Sys F) (c now : F) (hc : y.conn.closeAt = some c)
    (hd : A.le c now = false) (hl : ∀ l, y.conn.lossAt = some l → A.le l now = false) :
    handleTimer A y now = y := by
  unfold handleTimer; rw [hc]
  simp only [hd]
  cases hl' : y.conn.lossAt with
  | none => simp
  | some l => simp [hl l hl']

/-- after get_timer() in a live state `_loss_at` is the fresh loss-detection time -/
theorem getTimer_caches (A : FArith F) (y : Sys F) (c : F) (hc : y.conn.closeAt = some c)
    (he : y.conn.state.isEnd = false) :
    (getTimer A y).1.conn.lossAt = lossTime A y ∧ (getTimer A y).1.loss = y.loss ∧
    (getTimer A y).1.conn.closeAt = some c ∧ (getTimer A y).1.pacingAt = y.pacingAt ∧
    (getTimer A y).1.peerValidated = y.peerValidated := by
  simp [getTimer, CloseTimer.getTimer, hc, he]

/-! ### a peer CONNECTION_CLOSE inside the packet loop -/

theorem serverInit_closeEvent (s : Conn F) : (serverInit s).closeEvent = s.closeEvent := by
  unfold serverInit; split <;> rfl

theorem rxPkt_peer_close (A : FArith F) (s : Conn F) (now : F) (pre : Nat) (e : CloseEv) (x : F)
    (post : Nat) (err : Option CloseEv) (idle : F) (hn : s.closeEvent = none) :
    (rxPkt A s now (.payload pre (some e) x post err idle)).2 = false ∧
    (rxPkt A s now (.payload pre (some e) x post err idle)).1.state = .draining ∧
    (rxPkt A s now (.payload pre (some e) x post err idle)).1.closeAt =
      some (A.add now (A.mul (A.ofNat 3) x)) ∧
    (rxPkt A s now (.payload pre (some e) x post err idle)).1.closeEvent = some e := by
  have hcore : (payloadCore A s now pre (some e) x post err).state = .draining ∧
      (payloadCore A s now pre (some e) x post err).closeAt = some (A.add now (A.mul (A.ofNat 3) x)) ∧
      (payloadCore A s now pre (some e) x post err).closeEvent = some e := by
    have h1 : (serverInit s).closeEvent = none := by rw [serverInit_closeEvent, hn]
    cases err with
    | none =>
      simp only [payloadCore, handleCloseFrame]
      split <;> simp [h1, closeBegin, addOther]
    | some e2 =>
      simp only [payloadCore, handleCloseFrame]
      split <;> simp [h1, closeBegin, addOther, apiClose]
  rw [rxPkt_payload]
  have hend : (payloadCore A s now pre (some e) x post err).state.isEnd = true := by rw [hcore.1]; rfl
  rw [if_pos (Or.inl hend)]
  exact ⟨rfl, hcore⟩

/-- the case analysis of `handle_timer(now)` after `get_timer()` returned `t <= now` -/
theorem fire_progress_aux (A : FArith F) (y : Sys F) (d : F) (hd : y.conn.closeAt = some d) (t now : F)
    (hget : (ConnTimers.getTimer A y).2 = some t) (hdue : A.le t now = true) :
    ((ConnTimers.handleTimer A (ConnTimers.getTimer A y).1 now).conn.state = .terminated ∧
      (ConnTimers.handleTimer A (ConnTimers.getTimer A y).1 now).conn.log =
        y.conn.log ++ [Ev.terminated (some (y.conn.closeEvent.getD idleEv))]) ∨
    (∃ l, lossTime A y = some l ∧ A.le l now = true ∧
      (ConnTimers.handleTimer A (ConnTimers.getTimer A y).1 now).loss = onLossDetectionTimeout A y.loss now ∧
      (ConnTimers.handleTimer A (ConnTimers.getTimer A y).1 now).conn =
        { (ConnTimers.getTimer A y).1.conn with lossFired := (ConnTimers.getTimer A y).1.conn.lossFired + 1 } ∧
      (ConnTimers.handleTimer A (ConnTimers.getTimer A y).1 now).pacingAt = y.pacingAt) ∨
    (ConnTimers.handleTimer A (ConnTimers.getTimer A y).1 now = (ConnTimers.getTimer A y).1 ∧
      (some t ∈ ackAts y ∨ y.pacingAt = some t)) := by
  cases he : y.conn.state.isEnd with
  | true =>
    -- CLOSING / DRAINING: get_timer() is the closing deadline itself
    left
    have hy1 : (ConnTimers.getTimer A y).1 = y := by
      simp [ConnTimers.getTimer, CloseTimer.getTimer, hd, he]
    have ht' : t = d := by
      have : (ConnTimers.getTimer A y).2 = some d := by
        simp [ConnTimers.getTimer, CloseTimer.getTimer, hd, he]
      rw [this] at hget; cases hget; rfl
    rw [hy1]
    have := handleTimer_due A y d now hd (by rw [← ht']; exact hdue)
    exact ⟨this.1, this.2.2⟩
  | false =>
    obtain ⟨c1, c2, c3, c4, -⟩ := getTimer_caches A y d hd he
    have hlog : (ConnTimers.getTimer A y).1.conn.log = y.conn.log ∧
        (ConnTimers.getTimer A y).1.conn.closeEvent = y.conn.closeEvent := by
      simp [ConnTimers.getTimer, CloseTimer.getTimer, hd, he]
    cases hcd : A.le d now with
    | true =>
      left
      have := handleTimer_due A (ConnTimers.getTimer A y).1 d now c3 hcd
      exact ⟨this.1, by rw [this.2.2, hlog.1, hlog.2]⟩
    | false =>
      right
      cases hl : lossTime A y with
      | some l =>
        cases hl2 : A.le l now with
        | true =>
          left
          have := handleTimer_loss A (ConnTimers.getTimer A y).1 d l now c3 hcd (by rw [c1, hl]) hl2
          exact ⟨l, rfl, hl2, by rw [this, c2], by rw [this], by rw [this]; exact c4⟩
        | false =>
          right
          refine ⟨handleTimer_idle A _ d now c3 hcd (fun l' h' => by
            rw [c1, hl] at h'; cases h'; exact hl2), ?_⟩
          rcases getTimer_source A y.conn _ _ _ t hget with g | g | g | g
          · rw [hd] at g; cases g; rw [hcd] at hdue; cases hdue
          · left; exact g
          · rw [hl] at g; cases g; rw [hl2] at hdue; cases hdue
          · right; exact g
      | none =>
        right
        refine ⟨handleTimer_idle A _ d now c3 hcd (fun l' h' => by
          rw [c1, hl] at h'; cases h'), ?_⟩
        rcases getTimer_source A y.conn _ _ _ t hget with g | g | g | g
        · rw [hd] at g; cases g; rw [hcd] at hdue; cases hdue
        · left; exact g
        · rw [hl] at g; cases g
        · right; exact g

end AQ.ConnTimers
