/-
  Helper lemmas for AQ.Props.C09: a one-step invariant of AQ.Model.CloseTimer
  and its preservation by every operation of the public API.
-/
import AQ.Model.CloseTimer

namespace AQ.CloseTimer
open AQ AQ.Recovery

variable {T : Type}

/-- number of ConnectionTerminated entries -/
def termCount (l : List Ev) : Nat := l.countP Ev.isTerm

@[simp] theorem termCount_nil : termCount [] = 0 := rfl

@[simp] theorem termCount_append (a b : List Ev) : termCount (a ++ b) = termCount a + termCount b := by
  simp [termCount, List.countP_append]

@[simp] theorem termCount_others (n : Nat) : termCount (List.replicate n Ev.other) = 0 := by
  induction n with
  | zero => rfl
  | succ n ih => simp [termCount, List.replicate_succ, Ev.isTerm]

@[simp] theorem termCount_term (e : Option CloseEv) : termCount [Ev.terminated e] = 1 := rfl

@[simp] theorem termCount_cons_term (e : Option CloseEv) (l : List Ev) :
    termCount (Ev.terminated e :: l) = termCount l + 1 := by
  simp [termCount, List.countP_cons, Ev.isTerm]

@[simp] theorem termCount_cons_other (l : List Ev) : termCount (Ev.other :: l) = termCount l := by
  simp [termCount, Ev.isTerm]

/-- the invariant of every reachable state -/
structure Inv (s : Conn T) : Prop where
  pre : s.isClient = true → s.connectCalled = false →
    s.state = .firstflight ∧ s.closeAt = none ∧ s.hasPath = false ∧ s.started = false
  live : s.state ≠ .terminated → (s.started = true ∨ s.state.isEnd = true) → s.closeAt.isSome = true
  dead : s.state = .terminated → s.closeAt = none
  evEnd : s.state.isEnd = true → s.closeEvent.isSome = true
  evPend : s.closePending = true → s.closeEvent.isSome = true
  logTerm : s.state = .terminated →
    ∃ l e, s.log = l ++ [Ev.terminated (some e)] ∧ termCount l = 0
  logLive : s.state ≠ .terminated → termCount s.log = 0
  queue : ∃ p, s.log = p ++ s.events
  builds : (s.closeBuilds = 0 ∧ s.closePkts = 0) ∨
    (s.closeBuilds = 1 ∧ s.state.isEnd = true ∧ s.closePkts ≤ 3)
  evLive : s.closeEvent.isSome = true → s.state.isEnd = false → s.closePending = true

theorem inv_init (c : Bool) : Inv (Conn.init c : Conn T) := by
  constructor <;> simp [Conn.init, CState.isEnd]

/-! ### small steps -/

theorem inv_addOther {s : Conn T} (h : Inv s) (hl : s.state ≠ .terminated) (n : Nat) :
    Inv (addOther s n) := by
  obtain ⟨p, hp⟩ := h.queue
  constructor
  · exact h.pre
  · exact h.live
  · exact h.dead
  · exact h.evEnd
  · exact h.evPend
  · intro ht; exact absurd ht hl
  · intro ht; simp [addOther, h.logLive ht]
  · exact ⟨p, by simp [addOther, hp]⟩
  · exact h.builds
  · exact h.evLive

@[simp] theorem addOther_state (s : Conn T) (n : Nat) : (addOther s n).state = s.state := rfl
@[simp] theorem addOther_closeAt (s : Conn T) (n : Nat) : (addOther s n).closeAt = s.closeAt := rfl
@[simp] theorem addOther_closeEvent (s : Conn T) (n : Nat) : (addOther s n).closeEvent = s.closeEvent := rfl
@[simp] theorem addOther_closePending (s : Conn T) (n : Nat) : (addOther s n).closePending = s.closePending := rfl
@[simp] theorem addOther_started (s : Conn T) (n : Nat) : (addOther s n).started = s.started := rfl
@[simp] theorem addOther_isClient (s : Conn T) (n : Nat) : (addOther s n).isClient = s.isClient := rfl
@[simp] theorem addOther_connectCalled (s : Conn T) (n : Nat) : (addOther s n).connectCalled = s.connectCalled := rfl

/-- close(): keeps the invariant -/
theorem inv_apiClose {s : Conn T} (h : Inv s) (e : CloseEv) : Inv (apiClose s e) := by
  unfold apiClose
  split
  · rename_i hc
    constructor
    · exact h.pre
    · exact h.live
    · exact h.dead
    · intro _; rfl
    · intro _; rfl
    · exact h.logTerm
    · exact h.logLive
    · exact h.queue
    · exact h.builds
    · intro _ _; rfl
  · exact h

/-- _close_end on a live state whose close event is set -/
theorem inv_closeEnd {s : Conn T} (h : Inv s) (hl : s.state ≠ .terminated) (e : CloseEv)
    (he : s.closeEvent = some e) (hc : s.isClient = true → s.connectCalled = true) :
    Inv (closeEnd s) := by
  obtain ⟨p, hp⟩ := h.queue
  constructor
  · intro a b; simp [closeEnd] at a b; rw [hc a] at b; cases b
  · intro a; simp [closeEnd] at a
  · intro _; rfl
  · intro _; simp [closeEnd, he]
  · intro a; simp [closeEnd, he]
  · intro _; exact ⟨s.log, e, by simp [closeEnd, he], h.logLive hl⟩
  · intro a; simp [closeEnd] at a
  · exact ⟨p, by simp [closeEnd, hp]⟩
  · rcases h.builds with b | ⟨b1, _, b3⟩
    · exact Or.inl b
    · exact Or.inr ⟨b1, rfl, b3⟩
  · intro _ a; simp [closeEnd, CState.isEnd] at a

/-- `self._close_event = ...; self._close_end()` on a live state -/
theorem inv_closeEnd_set {s : Conn T} (h : Inv s) (hl : s.state ≠ .terminated) (e : CloseEv)
    (hc : s.isClient = true → s.connectCalled = true) :
    Inv (closeEnd { s with closeEvent := some e }) := by
  obtain ⟨p, hp⟩ := h.queue
  constructor
  · intro a b; simp [closeEnd] at a b; rw [hc a] at b; cases b
  · intro a; simp [closeEnd] at a
  · intro _; rfl
  · intro _; simp [closeEnd]
  · intro a; simp [closeEnd]
  · intro _; exact ⟨s.log, e, by simp [closeEnd], h.logLive hl⟩
  · intro a; simp [closeEnd] at a
  · exact ⟨p, by simp [closeEnd, hp]⟩
  · rcases h.builds with b | ⟨b1, _, b3⟩
    · exact Or.inl b
    · exact Or.inr ⟨b1, rfl, b3⟩
  · intro _ a; simp [closeEnd, CState.isEnd] at a

/-- `self._close_event = ...; self._close_begin(...)` on a live (non END) state -/
theorem inv_closeBegin_set (A : FArith T) {s : Conn T} (h : Inv s) (hl : s.state.isEnd = false)
    (hc : s.isClient = true → s.connectCalled = true) (e : CloseEv) (i : Bool) (now pto : T) :
    Inv (closeBegin A { s with closeEvent := some e } i now pto) := by
  have hnt : s.state ≠ .terminated := by intro a; rw [a] at hl; cases hl
  constructor
  · intro a b; simp [closeBegin] at a b; rw [hc a] at b; cases b
  · intro _ _; rfl
  · intro a; cases i <;> simp [closeBegin] at a
  · intro _; rfl
  · intro _; rfl
  · intro a; cases i <;> simp [closeBegin] at a
  · intro _; exact h.logLive hnt
  · exact h.queue
  · rcases h.builds with b | ⟨_, b2, _⟩
    · exact Or.inl b
    · rw [hl] at b2; cases b2
  · intro _ a; cases i <;> simp [closeBegin, CState.isEnd] at a

/-- `Inv` only reads these fields -/
theorem Inv.congr {s s' : Conn T} (h : Inv s)
    (e1 : s'.isClient = s.isClient) (e2 : s'.connectCalled = s.connectCalled)
    (e3 : s'.state = s.state) (e4 : s'.closeAt = s.closeAt) (e5 : s'.hasPath = s.hasPath)
    (e6 : s'.started = s.started) (e7 : s'.closeEvent = s.closeEvent)
    (e8 : s'.closePending = s.closePending) (e9 : s'.log = s.log) (e10 : s'.events = s.events)
    (e11 : s'.closeBuilds = s.closeBuilds) (e12 : s'.closePkts = s.closePkts) : Inv s' := by
  constructor
  · rw [e1, e2, e3, e4, e5, e6]; exact h.pre
  · rw [e3, e4, e6]; exact h.live
  · rw [e3, e4]; exact h.dead
  · rw [e3, e7]; exact h.evEnd
  · rw [e8, e7]; exact h.evPend
  · rw [e3, e9]; exact h.logTerm
  · rw [e3, e9]; exact h.logLive
  · rw [e9, e10]; exact h.queue
  · rw [e11, e12, e3]; exact h.builds
  · rw [e7, e3, e8]; exact h.evLive

theorem inv_serverInit {s : Conn T} (h : Inv s) : Inv (serverInit s) := by
  unfold serverInit
  split
  · rename_i hc
    constructor
    · intro a; simp at a; simp [a] at hc
    · exact h.live
    · exact h.dead
    · exact h.evEnd
    · exact h.evPend
    · exact h.logTerm
    · exact h.logLive
    · exact h.queue
    · exact h.builds
    · exact h.evLive
  · exact h

/-- re-arming / arming the deadline on a live state -/
theorem inv_setCloseAt {s : Conn T} (h : Inv s) (hl : s.state.isEnd = false)
    (hc : s.isClient = true → s.connectCalled = true) (x : T) :
    Inv { s with closeAt := some x } := by
  constructor
  · intro a b; simp at a b; rw [hc a] at b; cases b
  · intro _ _; rfl
  · intro a; simp at a; rw [a] at hl; cases hl
  · exact h.evEnd
  · exact h.evPend
  · exact h.logTerm
  · exact h.logLive
  · exact h.queue
  · exact h.builds
  · exact h.evLive

/-- FIRSTFLIGHT -> CONNECTED -/
theorem inv_setConnected {s : Conn T} (h : Inv s) (hs : s.state = .firstflight)
    (hst : s.started = true) (hc : s.isClient = true → s.connectCalled = true) :
    Inv { s with state := .connected } := by
  have hca := h.live (by rw [hs]; simp) (Or.inl hst)
  constructor
  · intro a b; simp at a b; rw [hc a] at b; cases b
  · intro _ _; exact hca
  · intro a; simp at a
  · intro a; simp [CState.isEnd] at a
  · exact h.evPend
  · intro a; simp at a
  · intro _; exact h.logLive (by rw [hs]; simp)
  · exact h.queue
  · rcases h.builds with b | ⟨_, b2, _⟩
    · exact Or.inl b
    · rw [hs] at b2; cases b2
  · intro a _; exact h.evLive a (by rw [hs]; rfl)

/-! ### receive_datagram -/

/-- what the packet loop maintains (the state may be DRAINING inside a payload) -/
structure P (s : Conn T) : Prop where
  inv : Inv s
  started : s.started = true
  cc : s.isClient = true → s.connectCalled = true
  nt : s.state ≠ .terminated

theorem isEnd_false_nt {s : Conn T} (h : s.state.isEnd = false) : s.state ≠ .terminated := by
  intro a; rw [a] at h; cases h

theorem P_serverInit {s : Conn T} (h : P s) : P (serverInit s) := by
  refine ⟨inv_serverInit h.inv, ?_, ?_, ?_⟩ <;> unfold serverInit <;> split
  · exact h.started
  · exact h.started
  · exact h.cc
  · exact h.cc
  · exact h.nt
  · exact h.nt

theorem serverInit_state (s : Conn T) : (serverInit s).state = s.state := by
  unfold serverInit; split <;> rfl

theorem P_connected {s : Conn T} (h : P s) :
    P (if s.state = .firstflight then { s with state := .connected } else s) := by
  split
  · rename_i hs
    exact ⟨inv_setConnected h.inv hs h.started h.cc, h.started, h.cc, by simp⟩
  · exact h

theorem P_addOther {s : Conn T} (h : P s) (n : Nat) : P (addOther s n) :=
  ⟨inv_addOther h.inv h.nt n, h.started, h.cc, h.nt⟩

theorem P_closeFrame (A : FArith T) {s : Conn T} (h : P s) (pc : Option CloseEv) (now pto : T) :
    P (match pc with
       | some e => handleCloseFrame A s e now pto
       | none => s) := by
  cases pc with
  | none => exact h
  | some e =>
    simp only [handleCloseFrame]
    split
    · rename_i hn
      have hl : s.state.isEnd = false := by
        cases hb : s.state.isEnd with
        | false => rfl
        | true => have := h.inv.evEnd hb; simp [Option.isNone_iff_eq_none.mp hn] at this
      exact ⟨inv_closeBegin_set A h.inv hl h.cc e false now pto, h.started, h.cc, by simp [closeBegin]⟩
    · exact h

@[simp] theorem apiClose_started (s : Conn T) (e : CloseEv) : (apiClose s e).started = s.started := by
  unfold apiClose; split <;> rfl
@[simp] theorem apiClose_isClient (s : Conn T) (e : CloseEv) : (apiClose s e).isClient = s.isClient := by
  unfold apiClose; split <;> rfl
@[simp] theorem apiClose_connectCalled (s : Conn T) (e : CloseEv) :
    (apiClose s e).connectCalled = s.connectCalled := by
  unfold apiClose; split <;> rfl
@[simp] theorem apiClose_state (s : Conn T) (e : CloseEv) : (apiClose s e).state = s.state := by
  unfold apiClose; split <;> rfl
@[simp] theorem apiClose_closeAt (s : Conn T) (e : CloseEv) : (apiClose s e).closeAt = s.closeAt := by
  unfold apiClose; split <;> rfl
@[simp] theorem apiClose_log (s : Conn T) (e : CloseEv) : (apiClose s e).log = s.log := by
  unfold apiClose; split <;> rfl

theorem P_apiClose {s : Conn T} (h : P s) (e : CloseEv) : P (apiClose s e) :=
  ⟨inv_apiClose h.inv e, by simp [h.started], by simpa using h.cc, by simpa using h.nt⟩

theorem P_err {s : Conn T} (h : P s) (err : Option CloseEv) :
    P (match err with
       | some e => apiClose s e
       | none => s) := by
  cases err with
  | none => exact h
  | some e => exact P_apiClose h e

/-- the state after frame handling of a payload packet -/
def payloadCore (A : FArith T) (s : Conn T) (now : T) (pre : Nat) (pc : Option CloseEv) (pto : T)
    (post : Nat) (err : Option CloseEv) : Conn T :=
  let s := serverInit s
  let s := if s.state = .firstflight then { s with state := .connected } else s
  let s := addOther s pre
  let s := match pc with
    | some e => handleCloseFrame A s e now pto
    | none => s
  let s := addOther s post
  match err with
  | some e => apiClose s e
  | none => s

theorem rxPkt_payload (A : FArith T) (s : Conn T) (now : T) (pre : Nat) (pc : Option CloseEv) (pto : T)
    (post : Nat) (err : Option CloseEv) (idle : T) :
    rxPkt A s now (.payload pre pc pto post err idle) =
      (if (payloadCore A s now pre pc pto post err).state.isEnd ∨
          (payloadCore A s now pre pc pto post err).closePending then
        (payloadCore A s now pre pc pto post err, false)
      else ({ payloadCore A s now pre pc pto post err with closeAt := some (A.add now idle) }, true)) := rfl

theorem P_payloadCore (A : FArith T) {s : Conn T} (h : P s) (now : T) (pre : Nat) (pc : Option CloseEv)
    (pto : T) (post : Nat) (err : Option CloseEv) : P (payloadCore A s now pre pc pto post err) :=
  P_err (P_addOther (P_closeFrame A (P_addOther (P_connected (P_serverInit h)) pre) pc now pto) post) err

/-- one iteration of the packet loop -/
theorem rxPkt_ok (A : FArith T) {s : Conn T} (h : P s) (hl : s.state.isEnd = false) (now : T) (p : Pkt T) :
    (P (rxPkt A s now p).1 ∨ (Inv (rxPkt A s now p).1 ∧ (rxPkt A s now p).2 = false)) ∧
    ((rxPkt A s now p).2 = true → (rxPkt A s now p).1.state.isEnd = false) := by
  cases p with
  | drop => exact ⟨Or.inl (P_serverInit h), fun _ => by simp [rxPkt, serverInit_state, hl]⟩
  | dropRet => exact ⟨Or.inl h, fun a => by simp [rxPkt] at a⟩
  | vn ours common idle =>
    simp only [rxPkt]
    split
    · split
      · exact ⟨Or.inl h, fun a => by simp at a⟩
      · split
        · refine ⟨Or.inr ⟨?_, rfl⟩, fun a => by simp at a⟩
          exact inv_closeEnd_set h.inv h.nt vnEv h.cc
        · refine ⟨Or.inl ⟨?_, h.started, h.cc, h.nt⟩, fun a => by simp at a⟩
          exact inv_setCloseAt (s := { s with vnDone := true })
            (h.inv.congr rfl rfl rfl rfl rfl rfl rfl rfl rfl rfl rfl rfl) hl h.cc _
    · exact ⟨Or.inl h, fun a => by simp at a⟩
  | retry valid idle =>
    simp only [rxPkt]
    split
    · refine ⟨Or.inl ⟨?_, h.started, h.cc, h.nt⟩, fun a => by simp at a⟩
      exact inv_setCloseAt (s := { s with retryCount := s.retryCount + 1 })
        (h.inv.congr rfl rfl rfl rfl rfl rfl rfl rfl rfl rfl rfl rfl) hl h.cc _
    · exact ⟨Or.inl h, fun a => by simp at a⟩
  | reserved => exact ⟨Or.inl (P_apiClose (P_serverInit h) _), fun a => by simp [rxPkt] at a⟩
  | payload pre pc pto post err idle =>
    rw [rxPkt_payload]
    have hp := P_payloadCore A h now pre pc pto post err
    split
    · exact ⟨Or.inl hp, fun a => by simp at a⟩
    · rename_i hc
      have hl' : (payloadCore A s now pre pc pto post err).state.isEnd = false := by
        cases hb : (payloadCore A s now pre pc pto post err).state.isEnd with
        | false => rfl
        | true => exact absurd (Or.inl hb) hc
      exact ⟨Or.inl ⟨inv_setCloseAt hp.inv hl' hp.cc _, hp.started, hp.cc, hp.nt⟩, fun _ => hl'⟩

theorem rxPkts_inv (A : FArith T) (now : T) (pkts : List (Pkt T)) {s : Conn T} (h : P s)
    (hl : s.state.isEnd = false) : Inv (rxPkts A s now pkts) := by
  induction pkts generalizing s with
  | nil => exact h.inv
  | cons p ps ih =>
    have hk := rxPkt_ok A h hl now p
    simp only [rxPkts]
    split
    · rename_i s' he
      rw [he] at hk
      rcases hk.1 with hp | ⟨_, hf⟩
      · exact ih hp (hk.2 rfl)
      · cases hf
    · rename_i s' he
      rw [he] at hk
      rcases hk.1 with hp | ⟨hi, _⟩
      · exact hp.inv
      · exact hi

theorem inv_started {s : Conn T} (h : Inv s) (hu : s.isClient = true → s.connectCalled = true)
    (ha : s.state.isEnd = false → s.closeAt.isSome = true) : Inv { s with started := true } := by
  constructor
  · intro a b; simp at a b; rw [hu a] at b; cases b
  · intro a _
    cases hb : s.state.isEnd with
    | true => exact h.live a (Or.inr hb)
    | false => exact ha hb
  · exact h.dead
  · exact h.evEnd
  · exact h.evPend
  · exact h.logTerm
  · exact h.logLive
  · exact h.queue
  · exact h.builds
  · exact h.evLive

/-- receive_datagram keeps the invariant (usage: a client has connected) -/
theorem inv_rx (A : FArith T) {s : Conn T} (h : Inv s) (hu : s.isClient = true → s.connectCalled = true)
    (now idle0 : T) (pkts : List (Pkt T)) : Inv (rx A s now idle0 pkts) := by
  simp only [rx]
  cases hb : s.state.isEnd with
  | true =>
    simp
    exact inv_started h hu (fun a => by rw [hb] at a; cases a)
  | false =>
    simp
    cases hc : s.closeAt with
    | none =>
      simp
      have h1 := inv_setCloseAt h hb hu (A.add now idle0)
      have h2 := inv_started h1 hu (fun _ => rfl)
      exact rxPkts_inv A now pkts ⟨h2, rfl, hu, isEnd_false_nt hb⟩ hb
    | some c =>
      simp
      have h2 := inv_started h hu (fun _ => by simp [hc])
      rw [hc] at h2
      exact rxPkts_inv A now pkts ⟨h2, rfl, hu, isEnd_false_nt hb⟩ hb

/-! ### the other API calls -/

theorem inv_connect (A : FArith T) {s s' : Conn T} (h : Inv s) (now idle : T)
    (hc : connect A s now idle = .ok s') : Inv s' := by
  unfold connect at hc
  split at hc
  · rename_i hg
    cases hc
    have hp := h.pre hg.1 (by simpa using hg.2)
    have hs : s.state.isEnd = false := by rw [hp.1]; rfl
    constructor
    · intro _ b; simp [connectInner] at b
    · intro _ _; rfl
    · intro a; simp [connectInner] at a; rw [a] at hs; cases hs
    · exact h.evEnd
    · exact h.evPend
    · exact h.logTerm
    · exact h.logLive
    · exact h.queue
    · exact h.builds
    · exact h.evLive
  · cases hc

theorem closePacketCount_le (i : SendIn T) : closePacketCount i ≤ 3 := by
  unfold closePacketCount b2n
  split <;> split <;> (try split) <;> (try split) <;> omega

theorem inv_send (A : FArith T) {s : Conn T} (h : Inv s) (now : T) (i : SendIn T) :
    Inv (datagramsToSend A s now i).1 := by
  unfold datagramsToSend
  split
  · exact h
  · rename_i hl
    have hl' : s.state.isEnd = false := by simpa using hl
    split
    · exact h
    · rename_i hp
      have hcc : s.isClient = true → s.connectCalled = true := by
        intro a
        cases hb : s.connectCalled with
        | true => rfl
        | false => have := (h.pre a hb).2.2.1; simp [this] at hp
      split
      · rename_i hpend
        have hb0 : s.closeBuilds = 0 ∧ s.closePkts = 0 := by
          rcases h.builds with b | ⟨_, b2, _⟩
          · exact b
          · rw [hl'] at b2; cases b2
        have hn : min i.npk (closePacketCount i) ≤ 3 :=
          Nat.le_trans (Nat.min_le_right _ _) (closePacketCount_le i)
        constructor
        · intro a b; simp [closeBegin] at a b; rw [hcc a] at b; cases b
        · intro _ _; rfl
        · intro a; simp [closeBegin] at a
        · intro _; exact h.evPend hpend
        · intro a; simp [closeBegin] at a
        · intro a; simp [closeBegin] at a
        · intro _; exact h.logLive (isEnd_false_nt hl')
        · exact h.queue
        · right; simp [closeBegin, hb0.1, hb0.2, CState.isEnd]; exact hn
        · intro _ a; simp [closeBegin, CState.isEnd] at a
      · exact inv_addOther h (isEnd_false_nt hl') _

theorem inv_getTimer (A : FArith T) {s : Conn T} (h : Inv s) (acks : List (Option T))
    (loss pacing : Option T) : Inv (getTimer A s acks loss pacing).1 := by
  unfold getTimer
  split
  · exact h
  · split
    · exact h
    · exact h.congr rfl rfl rfl rfl rfl rfl rfl rfl rfl rfl rfl rfl

theorem inv_handleTimer (A : FArith T) {s : Conn T} (h : Inv s) (now : T) :
    Inv (handleTimer A s now) := by
  unfold handleTimer
  split
  · exact h
  · rename_i c hc
    have hnt : s.state ≠ .terminated := by
      intro a; have := h.dead a; rw [hc] at this; cases this
    have hcc : s.isClient = true → s.connectCalled = true := by
      intro a
      cases hb : s.connectCalled with
      | true => rfl
      | false => have := (h.pre a hb).2.1; rw [hc] at this; cases this
    split
    · cases he : s.closeEvent with
      | none => simpa [he] using inv_closeEnd_set h hnt idleEv hcc
      | some e => simpa [he] using inv_closeEnd h hnt e he hcc
    · split
      · split
        · exact h.congr rfl rfl rfl rfl rfl rfl rfl rfl rfl rfl rfl rfl
        · exact h
      · exact h

theorem inv_nextEvent {s : Conn T} (h : Inv s) : Inv (nextEvent s).1 := by
  unfold nextEvent
  split
  · exact h
  · rename_i e es he
    obtain ⟨p, hp⟩ := h.queue
    constructor
    · exact h.pre
    · exact h.live
    · exact h.dead
    · exact h.evEnd
    · exact h.evPend
    · exact h.logTerm
    · exact h.logLive
    · exact ⟨p ++ [e], by simp [hp, he]⟩
    · exact h.builds
    · exact h.evLive

theorem inv_step (A : FArith T) {s : Conn T} (h : Inv s) (op : Op T) (hu : op.usageOk s) :
    Inv (step A s op) := by
  cases op with
  | connect now idle =>
    simp only [step]
    split
    · rename_i s' hc; exact inv_connect A h now idle hc
    · exact h
  | rx now idle0 pkts => exact inv_rx A h hu now idle0 pkts
  | close e => exact inv_apiClose h e
  | send now i => exact inv_send A h now i
  | timer acks loss pacing => exact inv_getTimer A h acks loss pacing
  | fire now => exact inv_handleTimer A h now
  | next => exact inv_nextEvent h

theorem inv_run (A : FArith T) (ops : List (Op T)) {s : Conn T} (h : Inv s) (hu : Usage A s ops) :
    Inv (run A s ops) := by
  induction ops generalizing s with
  | nil => exact h
  | cons op ops ih => exact ih (inv_step A h op hu.1) hu.2

/-! ### get_timer -/

/-- the order facts `get_timer` relies on; they hold for finite IEEE doubles
    (`lt`/`le` are Python's `<`/`<=`) -/
structure OrdLaws (A : FArith T) : Prop where
  lt_le : ∀ a b, A.lt a b = true → A.le a b = true
  le_refl : ∀ a, A.le a a = true
  le_trans : ∀ a b c, A.le a b = true → A.le b c = true → A.le a c = true

theorem minOpt_le (A : FArith T) (L : OrdLaws A) (t : T) (x : Option T) : A.le (minOpt A t x) t = true := by
  cases x with
  | none => exact L.le_refl t
  | some x =>
    simp only [minOpt]
    split
    · rename_i h; exact L.lt_le _ _ h
    · exact L.le_refl t

theorem foldl_minOpt_le (A : FArith T) (L : OrdLaws A) (acks : List (Option T)) (t : T) :
    A.le (acks.foldl (minOpt A) t) t = true := by
  induction acks generalizing t with
  | nil => exact L.le_refl t
  | cons a as ih => exact L.le_trans _ _ _ (ih (minOpt A t a)) (minOpt_le A L t a)

theorem getTimer_spec (A : FArith T) (L : OrdLaws A) (s : Conn T) (c : T) (hc : s.closeAt = some c)
    (acks : List (Option T)) (loss pacing : Option T) :
    ∃ t, (getTimer A s acks loss pacing).2 = some t ∧ A.le t c = true := by
  unfold getTimer
  rw [hc]
  simp only
  split
  · exact ⟨c, rfl, L.le_refl c⟩
  · refine ⟨_, rfl, ?_⟩
    exact L.le_trans _ _ _ (minOpt_le A L _ pacing)
      (L.le_trans _ _ _ (minOpt_le A L _ loss) (foldl_minOpt_le A L acks c))

theorem getTimer_none_iff (A : FArith T) (s : Conn T) (acks : List (Option T)) (loss pacing : Option T) :
    (getTimer A s acks loss pacing).2 = none ↔ s.closeAt = none := by
  unfold getTimer
  cases s.closeAt with
  | none => simp
  | some c => simp only; split <;> simp

/-! ### after termination nothing moves -/

theorem step_terminated (A : FArith T) {s : Conn T} (h : Inv s) (ht : s.state = .terminated) (op : Op T) :
    (step A s op).state = .terminated ∧ (step A s op).log = s.log ∧
      ((step A s op).events = s.events ∨ op = .next) := by
  have hca := h.dead ht
  cases op with
  | connect now idle =>
    simp only [step, connect]
    split
    · rename_i s' hc
      split at hc
      · rename_i hg
        have := (h.pre hg.1 (by simpa using hg.2)).1
        rw [ht] at this; cases this
      · cases hc
    · exact ⟨ht, rfl, Or.inl rfl⟩
  | rx now idle0 pkts => simp [step, rx, ht, CState.isEnd]
  | close e => simp [step, apiClose, ht, CState.isEnd]
  | send now i => simp [step, datagramsToSend, ht, CState.isEnd]
  | timer acks loss pacing => simp [step, getTimer, hca, ht]
  | fire now => simp [step, handleTimer, hca, ht]
  | next =>
    simp only [step, nextEvent]
    split <;> simp [ht]

theorem run_terminated (A : FArith T) (ops : List (Op T)) {s : Conn T} (h : Inv s)
    (ht : s.state = .terminated) :
    (run A s ops).state = .terminated ∧ (run A s ops).log = s.log := by
  induction ops generalizing s with
  | nil => exact ⟨ht, rfl⟩
  | cons op ops ih =>
    have hs := step_terminated A h ht op
    have hu : op.usageOk s := by
      cases op <;> simp [Op.usageOk]
      intro a
      cases hb : s.connectCalled with
      | true => rfl
      | false => have := (h.pre a hb).1; rw [ht] at this; cases this
    have := ih (inv_step A h op hu) hs.1
    exact ⟨this.1, by rw [show run A s (op :: ops) = run A (step A s op) ops from rfl, this.2, hs.2.1]⟩

theorem termCount_le_one {s : Conn T} (h : Inv s) : termCount s.log ≤ 1 := by
  by_cases ht : s.state = .terminated
  · obtain ⟨l, e, hl, hc⟩ := h.logTerm ht
    rw [hl]; simp [hc]
  · rw [h.logLive ht]; omega

theorem termCount_eq_one_iff {s : Conn T} (h : Inv s) : termCount s.log = 1 ↔ s.state = .terminated := by
  constructor
  · intro a
    by_cases ht : s.state = .terminated
    · exact ht
    · rw [h.logLive ht] at a; cases a
  · intro ht
    obtain ⟨l, e, hl, hc⟩ := h.logTerm ht
    rw [hl]; simp [hc]

/-- in the list of everything ever appended to `_events`, nothing follows a
    ConnectionTerminated -/
theorem nothing_after_term {s : Conn T} (h : Inv s) (pre post : List Ev) (x : Option CloseEv)
    (hl : s.log = pre ++ [Ev.terminated x] ++ post) : post = [] := by
  have h1 := termCount_le_one h
  rcases List.eq_nil_or_concat post with hp | ⟨post', b, hp⟩
  · exact hp
  · exfalso
    have ht : s.state = .terminated := by
      apply (termCount_eq_one_iff h).mp
      have : 1 ≤ termCount s.log := by rw [hl]; simp; omega
      omega
    obtain ⟨l, e, hl2, hc⟩ := h.logTerm ht
    rw [hl2, hp] at hl
    have hl' : l ++ [Ev.terminated (some e)] = (pre ++ [Ev.terminated x] ++ post') ++ [b] := by
      simpa [List.append_assoc] using hl
    have hb := (List.append_inj' hl' rfl).2
    have hpre := (List.append_inj' hl' rfl).1
    have h3 : termCount l = termCount (pre ++ [Ev.terminated x] ++ post') := by rw [hpre]
    simp at h3
    omega

/-! ### the deadline while closing, and what re-arms the idle deadline -/

/-- packets that are not accepted: dropped ones, an ignored Version Negotiation,
    an invalid Retry, reserved bits, a payload whose handling raised -/
def Pkt.inert : Pkt T → Bool
  | .drop | .dropRet | .reserved => true
  | .vn ours _ _ => ours
  | .retry valid _ => !valid
  | .payload _ pc _ _ err _ => pc.isNone && err.isSome

theorem serverInit_closeAt (s : Conn T) : (serverInit s).closeAt = s.closeAt := by
  unfold serverInit; split <;> rfl

theorem payloadCore_err_closeAt (A : FArith T) (s : Conn T) (now : T) (pre : Nat) (pto : T) (post : Nat)
    (e : CloseEv) : (payloadCore A s now pre none pto post (some e)).closeAt = s.closeAt := by
  simp only [payloadCore, apiClose_closeAt, addOther_closeAt]
  split <;> simp [serverInit_closeAt]

/-- after `self.close(...)` the loop returns: the state is END or the close is pending -/
theorem apiClose_stops {s : Conn T} (h : Inv s) (e : CloseEv) :
    (apiClose s e).state.isEnd = true ∨ (apiClose s e).closePending = true := by
  cases hb : s.state.isEnd with
  | true => left; simp [hb]
  | false =>
    right
    cases he : s.closeEvent with
    | none => simp [apiClose, he, hb]
    | some x =>
      have := h.evLive (by simp [he]) hb
      simp [apiClose, he, this]

theorem rxPkt_inert (A : FArith T) {s : Conn T} (h : P s) (now : T) (p : Pkt T) (hi : p.inert = true) :
    (rxPkt A s now p).1.closeAt = s.closeAt := by
  cases p with
  | drop => simp [rxPkt, serverInit_closeAt]
  | dropRet => rfl
  | reserved => simp [rxPkt, serverInit_closeAt]
  | vn ours common idle =>
    simp [Pkt.inert] at hi
    simp only [rxPkt, hi]
    split <;> rfl
  | retry valid idle =>
    simp [Pkt.inert] at hi
    simp [rxPkt, hi]
  | payload pre pc pto post err idle =>
    simp [Pkt.inert] at hi
    obtain ⟨h1, h2⟩ := hi
    cases pc with
    | some e => simp at h1
    | none =>
      cases err with
      | none => simp at h2
      | some e =>
        rw [rxPkt_payload]
        have hstop : (payloadCore A s now pre none pto post (some e)).state.isEnd = true ∨
            (payloadCore A s now pre none pto post (some e)).closePending = true :=
          apiClose_stops (P_addOther (P_closeFrame A (P_addOther (P_connected (P_serverInit h)) pre)
            none now pto) post).inv e
        rw [if_pos hstop]
        exact payloadCore_err_closeAt A s now pre pto post e

theorem rxPkts_inert (A : FArith T) (now : T) (pkts : List (Pkt T)) {s : Conn T} (h : P s)
    (hl : s.state.isEnd = false) (hi : ∀ p ∈ pkts, p.inert = true) :
    (rxPkts A s now pkts).closeAt = s.closeAt := by
  induction pkts generalizing s with
  | nil => rfl
  | cons p ps ih =>
    have hk := rxPkt_ok A h hl now p
    have hc := rxPkt_inert A h now p (hi p (by simp))
    simp only [rxPkts]
    split
    · rename_i s' he
      rw [he] at hk hc
      rcases hk.1 with hp | ⟨_, hf⟩
      · rw [ih hp (hk.2 rfl) (fun q hq => hi q (by simp [hq]))]; exact hc
      · cases hf
    · rename_i s' he
      rw [he] at hc
      exact hc

/-! ### END states: the deadline is never moved -/

theorem usage_of_end {s : Conn T} (h : Inv s) (he : s.state.isEnd = true) (op : Op T) : op.usageOk s := by
  cases op <;> simp [Op.usageOk]
  intro a
  cases hb : s.connectCalled with
  | true => rfl
  | false => have := (h.pre a hb).1; rw [this] at he; cases he

theorem step_end (A : FArith T) {s : Conn T} (h : Inv s) (he : s.state.isEnd = true) (op : Op T) :
    (step A s op).state.isEnd = true ∧
      (((step A s op).closeAt = s.closeAt ∧ (step A s op).state = s.state) ∨
        (step A s op).state = .terminated) := by
  cases op with
  | connect now idle =>
    simp only [step, connect]
    split
    · rename_i s' hc
      split at hc
      · rename_i hg
        have := (h.pre hg.1 (by simpa using hg.2)).1
        rw [this] at he; cases he
      · cases hc
    · exact ⟨he, Or.inl ⟨rfl, rfl⟩⟩
  | rx now idle0 pkts => simp [step, rx, he]
  | close e => simp [step, apiClose, he]
  | send now i => simp [step, datagramsToSend, he]
  | timer acks loss pacing =>
    simp only [step, getTimer]
    split
    · exact ⟨he, Or.inl ⟨rfl, rfl⟩⟩
    · simp [he]
  | fire now =>
    simp only [step, handleTimer]
    split
    · exact ⟨he, Or.inl ⟨rfl, rfl⟩⟩
    · split
      · exact ⟨by simp [closeEnd, CState.isEnd], Or.inr (by simp [closeEnd])⟩
      · split
        · split
          · exact ⟨he, Or.inl ⟨rfl, rfl⟩⟩
          · exact ⟨he, Or.inl ⟨rfl, rfl⟩⟩
        · exact ⟨he, Or.inl ⟨rfl, rfl⟩⟩
  | next =>
    simp only [step, nextEvent]
    split <;> exact ⟨he, Or.inl ⟨rfl, rfl⟩⟩

/-- handle_timer at/after the deadline terminates and reports the close event -/
theorem handleTimer_due (A : FArith T) (s : Conn T) (c now : T) (hc : s.closeAt = some c)
    (hd : A.le c now = true) :
    (handleTimer A s now).state = .terminated ∧ (handleTimer A s now).closeAt = none ∧
      (handleTimer A s now).log = s.log ++ [Ev.terminated (some (s.closeEvent.getD idleEv))] := by
  unfold handleTimer
  rw [hc]
  simp only [hd, if_true]
  cases he : s.closeEvent with
  | none => simp [closeEnd]
  | some e => simp [closeEnd, he]

/-- in CLOSING / DRAINING a step either changes nothing the property looks at or
    is the final `_close_end` -/
theorem step_closing (A : FArith T) {s : Conn T} (h : Inv s) (he : s.state.isEnd = true) (op : Op T) :
    ((step A s op).closeAt = s.closeAt ∧ (step A s op).state = s.state ∧
       (step A s op).closeEvent = s.closeEvent ∧ (step A s op).log = s.log) ∨
    ((step A s op).state = .terminated ∧ (step A s op).log = s.log ++ [Ev.terminated s.closeEvent]) := by
  have hev := h.evEnd he
  cases op with
  | connect now idle =>
    simp only [step, connect]
    split
    · rename_i s' hc
      split at hc
      · rename_i hg
        have := (h.pre hg.1 (by simpa using hg.2)).1
        rw [this] at he; cases he
      · cases hc
    · exact Or.inl ⟨rfl, rfl, rfl, rfl⟩
  | rx now idle0 pkts => simp [step, rx, he]
  | close e => simp [step, apiClose, he]
  | send now i => simp [step, datagramsToSend, he]
  | timer acks loss pacing =>
    simp only [step, getTimer]
    split
    · exact Or.inl ⟨rfl, rfl, rfl, rfl⟩
    · simp [he]
  | fire now =>
    simp only [step, handleTimer]
    split
    · exact Or.inl ⟨rfl, rfl, rfl, rfl⟩
    · split
      · right
        obtain ⟨e, hee⟩ := Option.isSome_iff_exists.mp hev
        simp [closeEnd, hee]
      · split
        · split
          · exact Or.inl ⟨rfl, rfl, rfl, rfl⟩
          · exact Or.inl ⟨rfl, rfl, rfl, rfl⟩
        · exact Or.inl ⟨rfl, rfl, rfl, rfl⟩
  | next =>
    simp only [step, nextEvent]
    split <;> exact Or.inl ⟨rfl, rfl, rfl, rfl⟩

theorem closing_run (A : FArith T) (more : List (Op T)) {s : Conn T} (h : Inv s)
    (he : s.state.isEnd = true) (d : T) (hd : s.closeAt = some d) (e : CloseEv)
    (hev : s.closeEvent = some e) (now : T) (hin : Op.fire now ∈ more) (hdue : A.le d now = true) :
    (run A s more).state = .terminated ∧ (run A s more).log = s.log ++ [Ev.terminated (some e)] := by
  induction more generalizing s with
  | nil => cases hin
  | cons op rest ih =>
    have hi := inv_step A h op (usage_of_end h he op)
    have hrun : run A s (op :: rest) = run A (step A s op) rest := rfl
    rw [hrun]
    by_cases hop : op = .fire now
    · subst hop
      have hdue' := handleTimer_due A s d now hd hdue
      have hfin := run_terminated A rest hi hdue'.1
      refine ⟨hfin.1, ?_⟩
      rw [hfin.2]
      simpa [step, hev] using hdue'.2.2
    · have hin' : Op.fire now ∈ rest := by
        rcases List.mem_cons.mp hin with a | a
        · exact absurd a.symm hop
        · exact a
      rcases step_closing A h he op with ⟨h1, h2, h3, h4⟩ | ⟨h1, h2⟩
      · have := ih hi (by rw [h2]; exact he) (by rw [h1]; exact hd) (by rw [h3]; exact hev) hin'
        rw [h4] at this
        exact this
      · have hfin := run_terminated A rest hi h1
        exact ⟨hfin.1, by rw [hfin.2, h2, hev]⟩

/-- operations that do not accept anything from the peer and are not connect():
    every packet of a received datagram is `inert` -/
def Op.passive : Op T → Prop
  | .connect _ _ => False
  | .rx _ _ pkts => ∀ p ∈ pkts, p.inert = true
  | _ => True

theorem step_passive (A : FArith T) {s : Conn T} (h : Inv s) (hl : s.state.isEnd = false) (d : T)
    (hd : s.closeAt = some d) (op : Op T) (husage : op.usageOk s) (hop : op.passive) :
    (step A s op).closeAt = some d ∨ (step A s op).state.isEnd = true := by
  cases op with
  | connect now idle => exact absurd hop id
  | rx now idle0 pkts =>
    left
    have h2 := inv_started h husage (fun _ => by simp [hd])
    have hP : P ({ s with started := true } : Conn T) := ⟨h2, rfl, husage, isEnd_false_nt hl⟩
    have := rxPkts_inert A now pkts hP hl hop
    simp only [step, rx, hl, hd]
    simpa [hd] using this
  | close e => left; simp [step, hd]
  | send now i =>
    simp only [step, datagramsToSend, hl]
    by_cases hp : s.hasPath = true
    · by_cases hc : s.closePending = true
      · right; simp [hp, hc, closeBegin, CState.isEnd]
      · left; simp [hp, hc, hd]
    · left; simp [hp, hd]
  | timer acks loss pacing => left; simp [step, getTimer, hd, hl]
  | fire now =>
    simp only [step, handleTimer, hd]
    split
    · right; simp [closeEnd, CState.isEnd]
    · left
      split
      · split <;> first | rfl | exact hd
      · first | rfl | exact hd
  | next => left; simp only [step, nextEvent]; split <;> exact hd

/-! ### whole sequences: the idle period -/

/-- END states are never left -/
theorem run_end (A : FArith T) (more : List (Op T)) {s : Conn T} (h : Inv s)
    (he : s.state.isEnd = true) : (run A s more).state.isEnd = true := by
  induction more generalizing s with
  | nil => exact he
  | cons op rest ih =>
    exact ih (inv_step A h op (usage_of_end h he op)) (step_end A h he op).1

/-- every op of the list is `passive` -/
def AllPassive : List (Op T) → Prop
  | [] => True
  | op :: ops => op.passive ∧ AllPassive ops

/-- over passive operations the idle deadline `d` stays armed and unchanged
    until the connection starts closing or terminates -/
theorem passive_run (A : FArith T) (more : List (Op T)) {s : Conn T} (h : Inv s)
    (hl : s.state.isEnd = false) (d : T) (hd : s.closeAt = some d)
    (hu : Usage A s more) (hp : AllPassive more) :
    (run A s more).state.isEnd = true ∨
    ((run A s more).state.isEnd = false ∧ (run A s more).closeAt = some d) := by
  induction more generalizing s with
  | nil => exact Or.inr ⟨hl, hd⟩
  | cons op rest ih =>
    have hi := inv_step A h op hu.1
    have hrun : run A s (op :: rest) = run A (step A s op) rest := rfl
    rw [hrun]
    cases hb : (step A s op).state.isEnd with
    | true => exact Or.inl (run_end A rest hi hb)
    | false =>
      rcases step_passive A h hl d hd op hu.1 hp.1 with h1 | h1
      · exact ih hi hb h1 hu.2 hp.2
      · rw [hb] at h1; cases h1

/-- over passive operations, once a `handle_timer(now)` with `now >= d` has been
    executed the connection has terminated or is in its closing period -/
theorem passive_run_due (A : FArith T) (more : List (Op T)) {s : Conn T} (h : Inv s)
    (hl : s.state.isEnd = false) (d : T) (hd : s.closeAt = some d)
    (hu : Usage A s more) (hp : AllPassive more) (now : T) (hin : Op.fire now ∈ more)
    (hdue : A.le d now = true) : (run A s more).state.isEnd = true := by
  induction more generalizing s with
  | nil => cases hin
  | cons op rest ih =>
    have hi := inv_step A h op hu.1
    have hrun : run A s (op :: rest) = run A (step A s op) rest := rfl
    rw [hrun]
    by_cases hop : op = .fire now
    · subst hop
      have hdue' := handleTimer_due A s d now hd hdue
      exact run_end A rest hi (by
        show (handleTimer A s now).state.isEnd = true
        rw [hdue'.1]; rfl)
    · have hin' : Op.fire now ∈ rest := by
        rcases List.mem_cons.mp hin with a | a
        · exact absurd a.symm hop
        · exact a
      cases hb : (step A s op).state.isEnd with
      | true => exact run_end A rest hi hb
      | false =>
        rcases step_passive A h hl d hd op hu.1 hp.1 with h1 | h1
        · exact ih hi hb h1 hu.2 hp.2 hin'
        · rw [hb] at h1; cases h1

/-- a `Usage`-respecting run can be split -/
theorem usage_append (A : FArith T) (ops more : List (Op T)) (s : Conn T) :
    Usage A s (ops ++ more) ↔ Usage A s ops ∧ Usage A (run A s ops) more := by
  induction ops generalizing s with
  | nil => simp [Usage, run]
  | cons op rest ih =>
    simp only [List.cons_append, Usage, ih]
    constructor
    · rintro ⟨a, b, c⟩; exact ⟨⟨a, b⟩, c⟩
    · rintro ⟨⟨a, b⟩, c⟩; exact ⟨a, b, c⟩

end AQ.CloseTimer
