/-
  What the operations write on the wire (lemmas for AQ.Props.C06): the frames
  of a `serve` step, the credit it takes, progress once a limit is raised.
-/
import AQ.Proofs.FlowInv2

namespace AQ.Flow
open AQ AQ.Stream AQ.RangeSet

/-- the stream a STREAM / RESET_STREAM / STOP_SENDING frame belongs to -/
def frameStreamId : WFrame → Option Nat
  | .stream sid _ _ _ => some sid
  | .resetStream sid _ => some sid
  | .stopSending sid => some sid
  | _ => none

theorem pySlice_length_eq (buf : Bytes) (a b : Int) (h0 : 0 ≤ a) (hab : a ≤ b) (hb : b ≤ buf.length) :
    (pySlice buf a b).length = (b - a).toNat := by
  unfold pySlice pyIndex
  simp only [List.length_take, List.length_drop]
  split <;> split <;> omega

/-- the sender's buffer holds the bytes of its pending ranges (an invariant of
    `QuicStreamSender`, property C10) -/
def Covers (s : Send) : Prop :=
  ∀ r ∈ s.pending, s.bufStart ≤ r.start ∧ r.stop ≤ s.bufStart + s.buffer.length

/-- `highest_offset` after `get_frame` is the old one or the end of the frame -/
theorem getFrame_highest_cases {s s' : Send} {ms : Nat} {mo : Option Nat} {f : OutFrame}
    (h : getFrame s ms mo = .ok (s', some f)) (hc : Covers s) :
    s'.highest = s.highest ∨ s'.highest = f.offset + f.data.length := by
  unfold getFrame at h
  unfold Covers at hc
  grind [pySlice_length_eq]

/-- frames of a `serve` step: all for the served stream, which is not blocked -/
theorem serve_frames {c : Conn} {sid : Nat} {a b : Bool} {fs : Int} {f : WFrame}
    (hf : f ∈ (serve c sid a b fs).2.frames) :
    frameStreamId f = some sid ∧ ∃ st, c.find? sid = some st ∧ st.isBlocked = false := by
  unfold serve at hf
  split at hf
  · simp at hf
  · rename_i st hfind
    split at hf
    · simp at hf
    · split at hf
      · simp at hf
      · rename_i hnb
        have hnb' : st.isBlocked = false := by simpa using hnb
        refine ⟨?_, st, hfind, hnb'⟩
        split at hf
        · simp [Out.error] at hf
        · simp only [] at hf
          repeat' split at hf
          all_goals (simp at hf)
          all_goals (try (rcases hf with hf | hf))
          all_goals (try (rcases hf with hf | hf))
          all_goals (try (obtain ⟨_, rfl⟩ := hf))
          all_goals (try subst hf)
          all_goals (try simp [frameStreamId])

/-- the frame `_write_stream_frame` wrote, against `highest_offset` -/
theorem writeStreamFrame_frame {st st' : Strm} {mo fs : Int} {f : OutFrame} {used : Nat}
    (hw : writeStreamFrame st mo fs = .ok (st', some f, used)) :
    (f.offset + f.data.length ≤ st'.send.highest ∨ f.data = []) ∧
    (Covers st.send → st'.send.highest = st.send.highest ∨ st'.send.highest = f.offset + f.data.length) := by
  unfold writeStreamFrame at hw
  simp only [bind, Except.bind, pure, Except.pure] at hw
  repeat' split at hw
  all_goals try (simp at hw)
  all_goals
      (rename_i _ v hgf _ f' hsnd
       obtain ⟨snd, fr0⟩ := v
       simp at hsnd; subst hsnd
       obtain ⟨rfl, rfl, rfl⟩ := hw
       exact ⟨getFrame_frame_le hgf, fun hc => getFrame_highest_cases hgf hc⟩)

/-- a STREAM frame of a `serve` step comes from `_write_stream_frame` on the
    served stream, and the step charges exactly what that call returned -/
theorem serve_stream_frame {c : Conn} {sid sid' off len : Nat} {fin a b : Bool} {fs : Int}
    (hf : WFrame.stream sid' off len fin ∈ (serve c sid a b fs).2.frames) :
    ∃ st st1 st' f used, c.find? sid = some st ∧ st.isBlocked = false ∧ st1.send = st.send ∧
      st1.maxRemote = st.maxRemote ∧ st1.sid = st.sid ∧
      writeStreamFrame st1 (maxOffsetFor c st1) fs = .ok (st', some f, used) ∧
      sid' = sid ∧ off = f.offset ∧ len = f.data.length ∧ fin = f.fin ∧
      (serve c sid a b fs).1 = { c.setStrm st' with remoteMaxDataUsed := c.remoteMaxDataUsed + used } ∧
      (serve c sid a b fs).2.used = used := by
  generalize hp : serve c sid a b fs = p at hf ⊢
  unfold serve at hp
  split at hp
  · subst hp; simp at hf
  · rename_i st hfind
    split at hp
    · subst hp; simp at hf
    · split at hp
      · subst hp; simp at hf
      · rename_i hnb
        have hnb' : st.isBlocked = false := by simpa using hnb
        split at hp
        · subst hp; simp [Out.error] at hf
        · simp only [] at hp
          generalize hst1 : (if st.stopPending = true then { st with stopPending := false } else st) = st1 at hp
          have e1 : st1.sid = st.sid ∧ st1.send = st.send ∧ st1.maxRemote = st.maxRemote := by
            subst hst1; split <;> simp
          split at hp
          · split at hp
            · subst hp; simp at hf
            · subst hp; simp at hf
          · split at hp
            · split at hp
              · subst hp; simp at hf
              · rename_i st' fr used hw
                subst hp
                cases fr with
                | none => simp at hf
                | some f =>
                  refine ⟨st, st1, st', f, used, hfind, hnb', e1.2.1, e1.2.2, e1.1, hw, ?_⟩
                  simp at hf
                  obtain ⟨h1, h2, h3, h4⟩ := hf
                  exact ⟨h1, h2, h3, h4, rfl, rfl⟩
            · subst hp; simp at hf

/-- a RESET_STREAM frame of a `serve` step carries `highest_offset` as final size -/
theorem serve_reset_frame {c : Conn} {sid sid' z : Nat} {a b : Bool} {fs : Int}
    (hf : WFrame.resetStream sid' z ∈ (serve c sid a b fs).2.frames) :
    ∃ st, c.find? sid = some st ∧ sid' = sid ∧ z = st.send.highest := by
  unfold serve at hf
  split at hf
  · simp at hf
  · rename_i st hfind
    refine ⟨st, hfind, ?_⟩
    split at hf
    · simp at hf
    · split at hf
      · simp at hf
      · split at hf
        · simp [Out.error] at hf
        · simp only [] at hf
          repeat' split at hf
          all_goals (simp [getResetFrame] at hf)
          all_goals (first
            | (obtain ⟨h1, h2⟩ := hf; exact ⟨h1, h2⟩)
            | (obtain ⟨h1, h2⟩ := hf; exact ⟨h1, by simpa using h2⟩)
            | simp_all)

@[simp] theorem GetErr.out_frames (e : GetErr) : e.out.frames = [] := by cases e <;> rfl

theorem sendStreamData_frames (c : Conn) (sid : Nat) (d : Bytes) (fin : Bool) :
    (sendStreamData c sid d fin).2.frames = [] := by
  unfold sendStreamData; repeat' split
  all_goals simp [Out.error]

theorem resetStream_frames (c : Conn) (sid code : Nat) : (resetStream c sid code).2.frames = [] := by
  unfold resetStream; repeat' split
  all_goals simp [Out.error]

theorem stopStream_frames (c : Conn) (sid : Nat) : (stopStream c sid).2.frames = [] := by
  unfold stopStream; repeat' split
  all_goals simp [Out.error]

theorem rxTransportParams_frames (c : Conn) (tp : TP) : (rxTransportParams c tp).2.frames = [] := by
  unfold rxTransportParams; split <;> rfl

theorem rxMaxData_frames (c : Conn) (v : Nat) : (rxMaxData c v).2.frames = [] := by
  unfold rxMaxData; split <;> rfl

theorem rxMaxStreamData_frames (c : Conn) (sid v : Nat) : (rxMaxStreamData c sid v).2.frames = [] := by
  unfold rxMaxStreamData; repeat' split
  all_goals simp [Out.connError]

theorem rxMaxStreams_frames (c : Conn) (uni : Bool) (v : Nat) : (rxMaxStreams c uni v).2.frames = [] := by
  unfold rxMaxStreams; repeat' split
  all_goals simp [Out.connError]

theorem rxStopSending_frames (c : Conn) (sid : Nat) : (rxStopSending c sid).2.frames = [] := by
  unfold rxStopSending; repeat' split
  all_goals simp [Out.connError]

theorem rxStreamDataBlocked_frames (c : Conn) (sid : Nat) : (rxStreamDataBlocked c sid).2.frames = [] := by
  unfold rxStreamDataBlocked; repeat' split
  all_goals simp [Out.connError]

theorem rxStream_frames (c : Conn) (sid off : Nat) (d : Bytes) (fin : Bool) :
    (rxStream c sid off d fin).2.frames = [] := by
  unfold rxStream; simp only []; repeat' split
  all_goals simp [Out.connError]

theorem rxResetStream_frames (c : Conn) (sid fs : Nat) : (rxResetStream c sid fs).2.frames = [] := by
  unfold rxResetStream; simp only []; repeat' split
  all_goals simp [Out.connError]

theorem dataDelivery_frames (c : Conn) (sid : Nat) (d : Delivery) (a b : Nat) (fin : Bool) :
    (dataDelivery c sid d a b fin).2.frames = [] := by
  unfold dataDelivery; repeat' split
  all_goals simp [Out.error]

theorem resetDelivery_frames (c : Conn) (sid : Nat) (d : Delivery) : (resetDelivery c sid d).2.frames = [] := by
  unfold resetDelivery; split <;> rfl

theorem stopDelivery_frames (c : Conn) (sid : Nat) (d : Delivery) : (stopDelivery c sid d).2.frames = [] := by
  unfold stopDelivery; split <;> rfl

theorem writeConnLimits_frames (c : Conn) (r1 r2 r3 : Bool) :
    ∀ f ∈ (writeConnLimits c r1 r2 r3).2.frames, frameStreamId f = none := by
  unfold writeConnLimits
  simp only []
  intro f hf
  repeat' split at hf
  all_goals (simp at hf)
  all_goals (try (rcases hf with hf | hf | hf))
  all_goals (try (rcases hf with hf | hf))
  all_goals (try subst hf)
  all_goals (try rfl)

theorem writeStreamLimits_frames (c : Conn) (sid : Nat) (room : Bool) :
    ∀ f ∈ (writeStreamLimits c sid room).2.frames, frameStreamId f = none := by
  unfold writeStreamLimits
  intro f hf
  simp only [] at hf
  repeat' split at hf
  all_goals (simp [Out.error] at hf)
  all_goals (try subst hf)
  all_goals (try rfl)

/-- STREAM / RESET_STREAM / STOP_SENDING frames are only written by `serve` -/
theorem step_stream_frames {c : Conn} {op : Op} {f : WFrame} {sid : Nat}
    (hf : f ∈ (step c op).2.frames) (hs : frameStreamId f = some sid) :
    ∃ a b fs, op = .serve sid a b fs := by
  cases op <;> simp only [step] at hf
  case serve sid' a b fs =>
    have := (serve_frames hf).1
    rw [hs] at this
    simp at this
    exact ⟨a, b, fs, by rw [this]⟩
  case writeConnLimits r1 r2 r3 => have := writeConnLimits_frames c r1 r2 r3 f hf; simp [hs] at this
  case writeStreamLimits s r => have := writeStreamLimits_frames c s r f hf; simp [hs] at this
  all_goals
    (first
      | (rw [sendStreamData_frames] at hf; simp at hf)
      | (rw [resetStream_frames] at hf; simp at hf)
      | (rw [stopStream_frames] at hf; simp at hf)
      | (rw [rxMaxData_frames] at hf; simp at hf)
      | (rw [rxTransportParams_frames] at hf; simp at hf)
      | (rw [rxMaxStreamData_frames] at hf; simp at hf)
      | (rw [rxMaxStreams_frames] at hf; simp at hf)
      | (rw [rxStopSending_frames] at hf; simp at hf)
      | (rw [rxStreamDataBlocked_frames] at hf; simp at hf)
      | (rw [rxStream_frames] at hf; simp at hf)
      | (rw [rxResetStream_frames] at hf; simp at hf)
      | (rw [dataDelivery_frames] at hf; simp at hf)
      | (rw [resetDelivery_frames] at hf; simp at hf)
      | (rw [stopDelivery_frames] at hf; simp at hf)
      | (simp at hf))

/-! ## progress -/

/-- `get_frame` hands out at least the first pending byte when size and offset
    limits leave room for it -/
theorem getFrame_offers {s : Send} {r : Rg} {rest : List Rg} {ms m : Nat}
    (hrc : s.resetCode = none) (hp : s.pending = r :: rest) (hr : r.start < r.stop)
    (hms : 1 ≤ ms) (hm : r.start < m) :
    ∃ s' f, getFrame s ms (some m) = .ok (s', some f) ∧ f.offset = r.start ∧
      (Covers s → 1 ≤ f.data.length) := by
  match hg : getFrame s ms (some m) with
  | .error e => exfalso; unfold getFrame at hg; grind
  | .ok (s', none) => exfalso; unfold getFrame at hg; grind
  | .ok (s', some f) =>
    refine ⟨s', f, rfl, ?_, ?_⟩
    · unfold getFrame at hg; grind
    · intro hc
      have := hc r (by rw [hp]; simp)
      unfold getFrame at hg
      grind [pySlice_length_eq]

theorem sizeUintVar_ok {v : Nat} (h : v ≤ UINT_VAR_MAX) : ∃ a, sizeUintVar v = .ok a ∧ a ≤ 8 := by
  unfold sizeUintVar UINT_VAR_MAX at *
  repeat' split
  all_goals first | exact ⟨_, rfl, by omega⟩ | omega

theorem writeStreamFrame_offers {st : Strm} {r : Rg} {rest : List Rg} {mo fs : Int}
    (hrc : st.send.resetCode = none) (hp : st.send.pending = r :: rest) (hr : r.start < r.stop)
    (hsid : st.sid ≤ UINT_VAR_MAX) (hoff : r.start ≤ UINT_VAR_MAX) (hfs : 20 ≤ fs) (hm : (r.start : Int) < mo) :
    ∃ st' f used, writeStreamFrame st mo fs = .ok (st', some f, used) ∧ f.offset = r.start ∧
      (Covers st.send → 1 ≤ f.data.length) := by
  obtain ⟨a, ha, ha8⟩ := sizeUintVar_ok hsid
  obtain ⟨b, hb, hb8⟩ := sizeUintVar_ok hoff
  have hn : nextOffset st.send = r.start := by simp [nextOffset, hp]
  unfold writeStreamFrame
  simp only [bind, Except.bind, pure, Except.pure, ha, hn]
  by_cases h0 : r.start = 0
  · simp only [h0, ne_eq, not_true_eq_false, if_false]
    have hlt : ¬ (fs < ((3 + a + 0 : Nat) : Int)) := by omega
    simp only [hlt, if_false]
    obtain ⟨s', f, hg, h1, h2⟩ := getFrame_offers (ms := (fs - ((3 + a + 0 : Nat) : Int)).toNat)
      (m := mo.toNat) hrc hp hr (by omega) (by omega)
    rw [hg]
    exact ⟨_, f, _, rfl, by rw [h1, h0], h2⟩
  · simp only [ne_eq, h0, not_false_eq_true, if_true, hb]
    have hlt : ¬ (fs < ((3 + a + b : Nat) : Int)) := by omega
    simp only [hlt, if_false]
    obtain ⟨s', f, hg, h1, h2⟩ := getFrame_offers (ms := (fs - ((3 + a + b : Nat) : Int)).toNat)
      (m := mo.toNat) hrc hp hr (by omega) (by omega)
    rw [hg]
    exact ⟨_, f, _, rfl, h1, h2⟩

/-- a stream that is only held back by limits is offered by the next `serve`
    step once the limits leave room beyond its first pending byte -/
theorem serve_offers {c : Conn} {sid : Nat} {st : Strm} {r : Rg} {rest : List Rg} {a b : Bool} {fs : Int}
    (hf : c.find? sid = some st) (hfin : st.isFinished = false) (hnb : st.isBlocked = false)
    (hstop : st.stopPending = false) (hrp : st.send.resetPending = false) (hrc : st.send.resetCode = none)
    (hne : st.send.bufferIsEmpty = false) (hp : st.send.pending = r :: rest) (hr : r.start < r.stop)
    (hsid : sid ≤ UINT_VAR_MAX) (hoff : r.start ≤ UINT_VAR_MAX) (hfs : 20 ≤ fs)
    (hlim : (r.start : Int) < maxOffsetFor c st) :
    ∃ len fin, (serve c sid a b fs).2.frames = [WFrame.stream sid r.start len fin] ∧
      (serve c sid a b fs).2.err = none ∧ (Covers st.send → 1 ≤ len) := by
  have hs : st.sid = sid := (Conn.find?_mem hf).2
  obtain ⟨st', f, used, hw, h1, h2⟩ := writeStreamFrame_offers (st := st) (mo := maxOffsetFor c st) (fs := fs)
    hrc hp hr (by rw [hs]; exact hsid) hoff hfs hlim
  unfold serve
  simp [hf, hfin, hnb, hstop, hrp, hne, hw]
  exact ⟨f.data.length, ⟨h1, rfl⟩, h2⟩

/-- MAX_STREAMS releases every blocked stream the new limit allows (the fixed
    `_unblock_streams`) -/
theorem rxMaxStreams_releases {c : Conn} (hq : c.quirks.unblockHeadOnly = false) (uni : Bool) (v : Nat)
    (hv : v ≤ STREAM_COUNT_MAX)
    (hraise : (if uni then c.remoteMaxStreamsUni else c.remoteMaxStreamsBidi) < v) :
    let c' := (rxMaxStreams c uni v).1
    (∀ sid ∈ (if uni then c'.blockedUni else c'.blockedBidi), ¬ sid / 4 < v) ∧
    (∀ s' ∈ c'.streams, s'.sid ∈ (if uni then c.blockedUni else c.blockedBidi) → s'.sid / 4 < v →
      s'.isBlocked = false) := by
  have hv' : ¬ v > STREAM_COUNT_MAX := by omega
  cases uni with
  | true =>
    simp only [if_true] at hraise
    simp only [rxMaxStreams, hv', if_false, if_true, hraise, unblockStreams, hq, unblockSplit_eq]
    refine ⟨by intro sid hs; simp at hs; omega, ?_⟩
    intro s' hs' hb hlt
    obtain ⟨s, _, rfl⟩ := mem_releaseIn hs'
    split
    · rfl
    · rename_i hc
      rw [if_neg hc] at hb hlt
      simp at hc; exfalso; have := hc hb; omega
  | false =>
    simp only [Bool.false_eq_true, if_false] at hraise
    simp only [rxMaxStreams, hv', if_false, Bool.false_eq_true, hraise, if_true, unblockStreams, hq, unblockSplit_eq]
    refine ⟨by intro sid hs; simp at hs; omega, ?_⟩
    intro s' hs' hb hlt
    obtain ⟨s, _, rfl⟩ := mem_releaseIn hs'
    split
    · rfl
    · rename_i hc
      rw [if_neg hc] at hb hlt
      simp at hc; exfalso; have := hc hb; omega

end AQ.Flow
