/-
  `GI` is preserved by every operation (`gstep_gi`), and by runs.
-/
import AQ.Proofs.FlowGhost2

namespace AQ.Flow
open AQ AQ.Stream AQ.RangeSet

/-- the new state has the same client flag and every stream of it has the id and
    the send half of a stream of the old state -/
def SameSend (c c' : Conn) : Prop :=
  c'.isClient = c.isClient ∧ ∀ x ∈ c'.streams, ∃ y ∈ c.streams, y.sid = x.sid ∧ y.send = x.send

theorem GI.sameSend {c c' : Conn} {G : GMap} (h : GI c G) (hs : SameSend c c') : GI c' G := by
  intro x hx
  obtain ⟨y, hy, h1, h2⟩ := hs.2 x hx
  have := (h y hy).client hs.1
  rcases this with h' | ⟨a, b, d⟩
  · exact .inl (by rw [← h2, ← h1]; exact h')
  · exact .inr ⟨by rw [← h2]; exact a, by rw [← h1]; exact b, by rw [← h1]; exact d⟩

theorem SameSend.refl (c : Conn) : SameSend c c := ⟨rfl, fun x hx => ⟨x, hx, rfl, rfl⟩⟩

theorem SameSend.setStrm {c : Conn} {st0 st : Strm} (hm : st0 ∈ c.streams) (hsid : st.sid = st0.sid)
    (hsend : st.send = st0.send) : SameSend c (c.setStrm st) := by
  refine ⟨rfl, ?_⟩
  intro x hx
  rcases mem_setIn hx with rfl | hx
  · exact ⟨st0, hm, hsid.symm, hsend.symm⟩
  · exact ⟨x, hx, rfl, rfl⟩

theorem SameSend.setStrm_lmd {c : Conn} {st0 st : Strm} (hm : st0 ∈ c.streams) (hsid : st.sid = st0.sid)
    (hsend : st.send = st0.send) (l : Limit) : SameSend c { c.setStrm st with localMaxData := l } :=
  ⟨rfl, (SameSend.setStrm hm hsid hsend).2⟩

theorem SameSend.trans {a b c : Conn} (h1 : SameSend a b) (h2 : SameSend b c) : SameSend a c := by
  refine ⟨h2.1.trans h1.1, ?_⟩
  intro x hx
  obtain ⟨y, hy, e1, e2⟩ := h2.2 x hx
  obtain ⟨z, hz, f1, f2⟩ := h1.2 y hy
  exact ⟨z, hz, f1.trans e1, f2.trans e2⟩

theorem SameSend.of_streams {c c' : Conn} (hc : c'.isClient = c.isClient) (hs : c'.streams = c.streams) :
    SameSend c c' := ⟨hc, fun x hx => ⟨x, by rw [← hs]; exact hx, rfl, rfl⟩⟩

theorem unblockStreams_sameSend (c : Conn) (uni : Bool) : SameSend c (unblockStreams c uni) := by
  unfold unblockStreams
  split
  all_goals
    (refine ⟨rfl, ?_⟩
     intro x hx
     obtain ⟨s, hs, rfl⟩ := mem_releaseIn hx
     exact ⟨s, hs, by split <;> rfl, by split <;> rfl⟩)

theorem sendStreamData_gi {c : Conn} {G : GMap} (hr : RInv c) (h : GI c G) (sid : Nat) (d : Bytes) (fin : Bool) :
    GI (sendStreamData c sid d fin).1 (gstep c G (.sendStreamData sid d fin)) := by
  unfold sendStreamData
  simp only [gstep]
  cases hg : getOrCreateStreamForSend c sid with
  | error e => exact h
  | ok p =>
    obtain ⟨c', st⟩ := p
    obtain ⟨h', hm, hsid, hc, hsg, hr'⟩ := getOrCreateStreamForSend_gi hr h hg
    simp only []
    cases hw : write st.send d fin with
    | error e => exact h'
    | ok snd =>
      simp only []
      exact GI.set h' hr'.nodup (st := { st with send := snd }) hsid (.inl (SG_write hsg hw)) rfl rfl

theorem resetStream_gi {c : Conn} {G : GMap} (hr : RInv c) (h : GI c G) (sid code : Nat) :
    GI (resetStream c sid code).1 (gstep c G (.resetStream sid code)) := by
  unfold resetStream
  simp only [gstep]
  cases hg : getOrCreateStreamForSend c sid with
  | error e => exact h
  | ok p =>
    obtain ⟨c', st⟩ := p
    obtain ⟨h', hm, hsid, hc, hsg, hr'⟩ := getOrCreateStreamForSend_gi hr h hg
    simp only []
    exact GI.set h' hr'.nodup (st := { st with send := Stream.reset st.send code }) hsid (.inl (SG_reset hsg code)) rfl rfl

theorem rxStopSending_gi {c : Conn} {G : GMap} (hr : RInv c) (h : GI c G) (sid : Nat) :
    GI (rxStopSending c sid).1 (gstep c G (.rxStopSending sid)) := by
  unfold rxStopSending
  simp only [gstep]
  by_cases hcs : (!c.canSend sid) = true
  · simp only [hcs, if_true]; exact h
  · simp only [hcs, Bool.false_eq_true, if_false]
    have hcs' : c.canSend sid = true := by simpa using hcs
    cases hg : getOrCreateStream c sid with
    | error e => exact h
    | ok p =>
      obtain ⟨c', st⟩ := p
      obtain ⟨h', hm, hsid, hc, hsg, hr'⟩ := getOrCreateStream_gi hr h hg
      simp only []
      exact GI.set h' hr'.nodup (st := { st with send := Stream.reset st.send 0 }) hsid
        (.inl (SG_reset (hsg hcs') 0)) rfl rfl

/-- frames that only create the stream and/or touch fields other than the send half -/
theorem recvSide_gi {c c' c'' : Conn} {G : GMap} {sid : Nat} {st : Strm} (hr : RInv c) (h : GI c G)
    (hg : getOrCreateStream c sid = .ok (c', st)) (hs : SameSend c' c'') : GI c'' (freshG c G sid) :=
  (getOrCreateStream_gi hr h hg).1.sameSend hs

theorem rxMaxStreamData_gi {c : Conn} {G : GMap} (hr : RInv c) (h : GI c G) (sid v : Nat) :
    GI (rxMaxStreamData c sid v).1 (gstep c G (.rxMaxStreamData sid v)) := by
  unfold rxMaxStreamData
  simp only [gstep]
  by_cases hcs : (!c.canSend sid) = true
  · simp only [hcs, if_true]; exact h
  · simp only [hcs, Bool.false_eq_true, if_false]
    cases hg : getOrCreateStream c sid with
    | error e => exact h
    | ok p =>
      obtain ⟨c', st⟩ := p
      have hm := (getOrCreateStream_gi hr h hg).2.1
      simp only []
      split
      · exact recvSide_gi hr h hg (SameSend.setStrm hm rfl rfl)
      · exact recvSide_gi hr h hg (SameSend.refl _)

theorem rxStreamDataBlocked_gi {c : Conn} {G : GMap} (hr : RInv c) (h : GI c G) (sid : Nat) :
    GI (rxStreamDataBlocked c sid).1 (gstep c G (.rxStreamDataBlocked sid)) := by
  unfold rxStreamDataBlocked
  simp only [gstep]
  by_cases hcs : (!c.canReceive sid) = true
  · simp only [hcs, if_true]; exact h
  · simp only [hcs, Bool.false_eq_true, if_false]
    cases hg : getOrCreateStream c sid with
    | error e => exact h
    | ok p =>
      obtain ⟨c', st⟩ := p
      exact recvSide_gi hr h hg (SameSend.refl _)

theorem rxStream_gi {c : Conn} {G : GMap} (hr : RInv c) (h : GI c G) (sid off : Nat) (d : Bytes) (fin : Bool) :
    GI (rxStream c sid off d fin).1 (gstep c G (.rxStream sid off d fin)) := by
  unfold rxStream
  simp only [gstep]
  by_cases h0 : off + d.length > UINT_VAR_MAX
  · simp only [h0, if_true]; exact h
  · simp only [h0, if_false]
    by_cases hcs : (!c.canReceive sid) = true
    · simp only [hcs, if_true]; exact h
    · simp only [hcs, Bool.false_eq_true, if_false]
      cases hg : getOrCreateStream c sid with
      | error e => exact h
      | ok p =>
        obtain ⟨c', st⟩ := p
        have hm := (getOrCreateStream_gi hr h hg).2.1
        simp only []
        repeat' split
        all_goals first
          | exact recvSide_gi hr h hg (SameSend.refl _)
          | exact recvSide_gi hr h hg (SameSend.setStrm_lmd hm (by rfl) (by rfl) _)

theorem rxResetStream_gi {c : Conn} {G : GMap} (hr : RInv c) (h : GI c G) (sid z : Nat) :
    GI (rxResetStream c sid z).1 (gstep c G (.rxResetStream sid z)) := by
  unfold rxResetStream
  simp only [gstep]
  by_cases hcs : (!c.canReceive sid) = true
  · simp only [hcs, if_true]; exact h
  · simp only [hcs, Bool.false_eq_true, if_false]
    cases hg : getOrCreateStream c sid with
    | error e => exact h
    | ok p =>
      obtain ⟨c', st⟩ := p
      have hm := (getOrCreateStream_gi hr h hg).2.1
      simp only []
      repeat' split
      all_goals first
        | exact recvSide_gi hr h hg (SameSend.refl _)
        | exact recvSide_gi hr h hg (SameSend.setStrm_lmd hm (by rfl) (by rfl) _)

/-! operations that do not touch any send half -/

theorem stopStream_sameSend (c : Conn) (sid : Nat) : SameSend c (stopStream c sid).1 := by
  unfold stopStream
  split
  · exact SameSend.refl c
  · split
    · exact SameSend.refl c
    · rename_i st hf
      exact SameSend.setStrm (Conn.find?_mem hf).1 rfl rfl

theorem rxMaxData_sameSend (c : Conn) (v : Nat) : SameSend c (rxMaxData c v).1 := by
  unfold rxMaxData
  split
  · exact SameSend.of_streams rfl rfl
  · exact SameSend.refl c

theorem rxMaxStreams_sameSend (c : Conn) (uni : Bool) (v : Nat) : SameSend c (rxMaxStreams c uni v).1 := by
  unfold rxMaxStreams
  split
  · exact SameSend.refl c
  · split
    · split
      · exact SameSend.trans (b := { c with remoteMaxStreamsUni := v }) (SameSend.of_streams rfl rfl)
          (unblockStreams_sameSend _ true)
      · exact SameSend.refl c
    · split
      · exact SameSend.trans (b := { c with remoteMaxStreamsBidi := v }) (SameSend.of_streams rfl rfl)
          (unblockStreams_sameSend _ false)
      · exact SameSend.refl c

theorem writeConnLimits_sameSend (c : Conn) (r1 r2 r3 : Bool) : SameSend c (writeConnLimits c r1 r2 r3).1 := by
  unfold writeConnLimits
  simp only []
  repeat' split
  all_goals exact SameSend.of_streams rfl rfl

theorem writeStreamLimits_sameSend (c : Conn) (sid : Nat) (room : Bool) :
    SameSend c (writeStreamLimits c sid room).1 := by
  unfold writeStreamLimits
  split
  · exact SameSend.refl c
  · rename_i st hf
    have hm := (Conn.find?_mem hf).1
    simp only []
    repeat' split
    all_goals first
      | exact SameSend.refl c
      | exact SameSend.setStrm hm (by rfl) (by rfl)

theorem stopDelivery_sameSend (c : Conn) (sid : Nat) (d : Delivery) : SameSend c (stopDelivery c sid d).1 := by
  unfold stopDelivery
  split
  · exact SameSend.refl c
  · rename_i st hf
    split
    · exact SameSend.setStrm (Conn.find?_mem hf).1 rfl rfl
    · exact SameSend.refl c

theorem connLimitDelivery_sameSend (c : Conn) (k : LimitKind) (d : Delivery) :
    SameSend c (connLimitDelivery c k d) := by
  unfold connLimitDelivery
  split
  · cases k <;> exact SameSend.of_streams rfl rfl
  · exact SameSend.refl c

theorem maxStreamDataDelivery_sameSend (c : Conn) (sid : Nat) (d : Delivery) :
    SameSend c (maxStreamDataDelivery c sid d) := by
  unfold maxStreamDataDelivery
  split
  · exact SameSend.refl c
  · rename_i st hf
    split
    · exact SameSend.setStrm (Conn.find?_mem hf).1 rfl rfl
    · exact SameSend.refl c

/-! delivery reports -/

theorem GOK.sg_of_outstanding {c : Conn} {st : Strm} {g : Ghost} (h : GOK c st g) {f : Fr}
    (hf : f ∈ g.outstanding) : SG st.send g := by
  rcases h with h | ⟨_, rfl, _⟩
  · exact h
  · simp at hf

theorem dataDelivery_gi {c : Conn} {G : GMap} (hr : RInv c) (h : GI c G) (sid : Nat) (d : Delivery)
    (a b : Nat) (fin : Bool) (hwf : wfG c G (.dataDelivery sid d a b fin)) :
    GI (dataDelivery c sid d a b fin).1 (gstep c G (.dataDelivery sid d a b fin)) := by
  unfold dataDelivery
  simp only [gstep]
  cases hf : c.find? sid with
  | none => exact h
  | some st =>
    obtain ⟨hm, hsid⟩ := Conn.find?_mem hf
    have hout : (⟨a, b, fin⟩ : Fr) ∈ (G sid).outstanding := hwf (by simp [hf])
    have hsg : SG st.send (G sid) := by
      have := (h st hm).sg_of_outstanding (f := ⟨a, b, fin⟩) (by rw [hsid]; exact hout)
      rwa [hsid] at this
    simp only []
    cases hd : onDataDelivery st.send d a b fin with
    | error e => exact h
    | ok snd =>
      simp only []
      exact GI.set h hr.nodup (st := { st with send := snd }) hsid (.inl (SG_delivery hsg d hout hd)) rfl rfl

theorem resetDelivery_gi {c : Conn} {G : GMap} (hr : RInv c) (h : GI c G) (sid : Nat) (d : Delivery)
    (hwf : wfG c G (.resetDelivery sid d)) :
    GI (resetDelivery c sid d).1 (gstep c G (.resetDelivery sid d)) := by
  unfold resetDelivery
  simp only [gstep]
  cases hf : c.find? sid with
  | none => exact h
  | some st =>
    obtain ⟨hm, hsid⟩ := Conn.find?_mem hf
    have hout : 0 < (G sid).resetOut := hwf (by simp [hf])
    have hsg : SG st.send (G sid) := by
      rcases h st hm with h' | ⟨_, h2, _⟩
      · rwa [hsid] at h'
      · rw [hsid] at h2; rw [h2] at hout; simp at hout
    simp only []
    exact GI.set h hr.nodup (st := { st with send := onResetDelivery st.send d }) hsid
      (.inl (SG_resetDelivery hsg d hout)) rfl rfl

end AQ.Flow
