import AQ.Model.LogIR
/-! Noninterference for the log IR, proved once by induction on statements. -/
set_option linter.unusedSectionVars false
namespace AQ.LogIR

variable {Val : Type} [Inhabited Val]

/-- two states agree on the protocol locations -/
def lowEq (σ₁ σ₂ : State Val) : Prop := ∀ l, l.isP = true → σ₁ l = σ₂ l

theorem lowEq.refl (σ : State Val) : lowEq σ σ := fun _ _ => rfl
theorem lowEq.symm {σ₁ σ₂ : State Val} (h : lowEq σ₁ σ₂) : lowEq σ₂ σ₁ := fun l hl => (h l hl).symm
theorem lowEq.trans {σ₁ σ₂ σ₃ : State Val} (h : lowEq σ₁ σ₂) (h' : lowEq σ₂ σ₃) : lowEq σ₁ σ₃ :=
  fun l hl => (h l hl).trans (h' l hl)

theorem proj_eq_of_lowEq {σ₁ σ₂ : State Val} (h : lowEq σ₁ σ₂) : proj σ₁ = proj σ₂ := by
  funext l
  unfold proj
  cases hl : l.isP with
  | true => simp [h l hl]
  | false => simp

theorem lowEq_of_proj_eq {σ₁ σ₂ : State Val} (h : proj σ₁ = proj σ₂) : lowEq σ₁ σ₂ := by
  intro l hl
  have := congrFun h l
  simpa [proj, hl] using this

/-- same kind of completion, protocol parts equal -/
def resEq : Res Val → Res Val → Prop
  | .normal σ₁, .normal σ₂ => lowEq σ₁ σ₂
  | .abrupt t₁ σ₁, .abrupt t₂ σ₂ => t₁ = t₂ ∧ lowEq σ₁ σ₂
  | _, _ => False

theorem outcome_eq_of_resEq {r₁ r₂ : Res Val} (h : resEq r₁ r₂) : outcome r₁ = outcome r₂ := by
  cases r₁ with
  | normal a =>
    cases r₂ with
    | normal b => simp [outcome, proj_eq_of_lowEq h]
    | abrupt t b => exact h.elim
  | abrupt t a =>
    cases r₂ with
    | normal b => exact h.elim
    | abrupt t' b => obtain ⟨rfl, hl⟩ := h; simp [outcome, proj_eq_of_lowEq hl]

def NI (f : State Val → Res Val) : Prop := ∀ σ₁ σ₂, lowEq σ₁ σ₂ → resEq (f σ₁) (f σ₂)

/-- completes normally and leaves the protocol part untouched -/
def HighSafe (f : State Val → Res Val) : Prop := ∀ σ, ∃ σ', f σ = .normal σ' ∧ lowEq σ σ'

theorem HighSafe.ni {f : State Val → Res Val} (h : HighSafe f) : NI f := by
  intro σ₁ σ₂ he
  obtain ⟨a, ha, la⟩ := h σ₁
  obtain ⟨b, hb, lb⟩ := h σ₂
  rw [ha, hb]
  exact (la.symm.trans he).trans lb

theorem map_low {e : Expr} (hl : e.low = true) {σ₁ σ₂ : State Val} (h : lowEq σ₁ σ₂) :
    e.reads.map σ₁ = e.reads.map σ₂ := by
  unfold Expr.low at hl
  rw [List.all_eq_true] at hl
  apply List.map_congr_left
  intro l hm
  exact h l (hl l hm)

theorem eval_low (S : Sem Val) {e : Expr} (hl : e.low = true) {σ₁ σ₂ : State Val} (h : lowEq σ₁ σ₂) :
    eval S e σ₁ = eval S e σ₂ := by
  unfold eval; rw [map_low hl h]

theorem upd_log (σ : State Val) {t : Loc} (ht : t.isP = false) (v : Val) : lowEq σ (upd σ t v) := by
  intro l hl
  unfold upd
  have : l ≠ t := by intro e; rw [e, ht] at hl; cases hl
  simp [this]

theorem upd_low {σ₁ σ₂ : State Val} (h : lowEq σ₁ σ₂) (t : Loc) (v : Val) :
    lowEq (upd σ₁ t v) (upd σ₂ t v) := by
  intro l hl
  unfold upd
  by_cases e : l = t
  · simp [e]
  · simp [e, h l hl]

/-- what the induction needs to know about callees -/
structure CalleeOK (prog : List FnDecl) (callee : Nat → State Val → Res Val) : Prop where
  ni : ∀ f, NI (callee f)
  high : ∀ f, kindOf prog f = some .logOnly → HighSafe (callee f)

theorem iterate_high {cond : State Val → Bool} {body : State Val → Res Val} (hb : HighSafe body) :
    ∀ n, HighSafe (iterate cond body n) := by
  intro n
  induction n with
  | zero => intro σ; exact ⟨σ, rfl, lowEq.refl σ⟩
  | succ n ih =>
    intro σ
    unfold iterate
    by_cases hc : cond σ = true
    · obtain ⟨σ', hσ', l'⟩ := hb σ
      obtain ⟨σ'', hσ'', l''⟩ := ih σ'
      refine ⟨σ'', ?_, l'.trans l''⟩
      simp [hc, hσ', hσ'']
    · exact ⟨σ, by simp [hc], lowEq.refl σ⟩

theorem iterate_ni {cond : State Val → Bool} {body : State Val → Res Val}
    (hc : ∀ σ₁ σ₂, lowEq σ₁ σ₂ → cond σ₁ = cond σ₂) (hb : NI body) :
    ∀ n, NI (iterate cond body n) := by
  intro n
  induction n with
  | zero => intro σ₁ σ₂ h; exact h
  | succ n ih =>
    intro σ₁ σ₂ h
    unfold iterate
    rw [hc σ₁ σ₂ h]
    by_cases c : cond σ₂ = true
    · simp only [c, if_true]
      have hb' := hb σ₁ σ₂ h
      revert hb'
      cases body σ₁ with
      | normal a =>
        cases body σ₂ with
        | normal b => intro hb'; exact ih a b hb'
        | abrupt t b => intro hb'; exact hb'.elim
      | abrupt t a =>
        cases body σ₂ with
        | normal b => intro hb'; exact hb'.elim
        | abrupt t' b =>
          intro hb'
          obtain ⟨rfl, hl⟩ := hb'
          cases t with
          | brk => exact hl
          | cont => exact ih a b hl
          | ret => exact ⟨rfl, hl⟩
          | exc k => exact ⟨rfl, hl⟩
    · simp only [c]
      exact h

section
variable (S : Sem Val) (fuel : Nat) (prog : List FnDecl) (callee : Nat → State Val → Res Val)

/-- (A) statements typed in log context complete normally and do not touch
    the protocol part -/
theorem exec_high (hc : CalleeOK prog callee) :
    ∀ s : Stmt, wt prog .log s = true → HighSafe (exec S fuel callee s) := by
  intro s
  induction s with
  | skip => intro _ σ; exact ⟨σ, rfl, lowEq.refl σ⟩
  | seq a b iha ihb =>
    intro h σ
    simp only [wt, Bool.and_eq_true] at h
    obtain ⟨σ', h1, l1⟩ := iha h.1 σ
    obtain ⟨σ'', h2, l2⟩ := ihb h.2 σ'
    exact ⟨σ'', by simp [exec, h1, h2], l1.trans l2⟩
  | low id mk => intro h; simp [wt] at h
  | assign t e =>
    intro h σ
    cases ht : t.isP with
    | true => simp [wt, ht] at h
    | false => exact ⟨_, rfl, upd_log σ ht _⟩
  | logEvent ev e => intro _ σ; exact ⟨_, rfl, upd_log σ rfl _⟩
  | check e => intro h; simp [wt] at h
  | ite g t e iht ihe =>
    intro h σ
    have ht : wt prog .log t = true ∧ wt prog .log e = true := by
      cases hg : g.low <;> simpa [wt, hg] using h
    simp only [exec]
    by_cases c : S.truthy (eval S g σ) = true
    · simp only [c, if_true]; exact iht ht.1 σ
    · simp only [c]; exact ihe ht.2 σ
  | loop g b ihb =>
    intro h σ
    have hb : wt prog .log b = true := by
      cases hg : g.low <;> simpa [wt, hg] using h
    simp only [exec]
    exact iterate_high (ihb hb) fuel σ
  | try_ b k hd ihb ihh =>
    intro h σ
    simp only [wt, Bool.and_eq_true] at h
    obtain ⟨σ', h1, l1⟩ := ihb h.1 σ
    exact ⟨σ', by simp [exec, h1], l1⟩
  | abrupt t => intro h; simp [wt] at h
  | call f =>
    intro h σ
    simp only [wt] at h
    cases hk : kindOf prog f with
    | none => simp [hk] at h
    | some k =>
      cases k with
      | normal => simp [hk] at h
      | logOnly =>
        obtain ⟨σ', h1, l1⟩ := hc.high f hk σ
        exact ⟨σ', by simp [exec, h1], l1⟩

/-- (B) well-typed statements are noninterfering -/
theorem exec_ni (hc : CalleeOK prog callee) :
    ∀ (s : Stmt) (c : Ctx), wt prog c s = true → NI (exec S fuel callee s) := by
  intro s
  induction s with
  | skip => intro _ _ σ₁ σ₂ h; exact h
  | seq a b iha ihb =>
    intro c h σ₁ σ₂ he
    simp only [wt, Bool.and_eq_true] at h
    have ha := iha c h.1 σ₁ σ₂ he
    simp only [exec]
    revert ha
    cases exec S fuel callee a σ₁ with
    | normal x =>
      cases exec S fuel callee a σ₂ with
      | normal y => intro ha; exact ihb c h.2 x y ha
      | abrupt t y => intro ha; exact ha.elim
    | abrupt t x =>
      cases exec S fuel callee a σ₂ with
      | normal y => intro ha; exact ha.elim
      | abrupt t' y => intro ha; exact ha
  | low id mk =>
    intro _ _ σ₁ σ₂ he
    simp only [exec, stepLow, proj_eq_of_lowEq he]
    cases (S.lowFn id (proj σ₂)).2 with
    | none => intro l hl; simp [hl]
    | some t => exact ⟨rfl, fun l hl => by simp [hl]⟩
  | assign t e =>
    intro c h σ₁ σ₂ he
    simp only [exec]
    cases ht : t.isP with
    | true =>
      simp only [wt, ht, if_true, Bool.and_eq_true] at h
      show lowEq _ _
      rw [eval_low S h.2 he]
      exact upd_low he t _
    | false =>
      exact ((upd_log σ₁ ht _).symm.trans he).trans (upd_log σ₂ ht _)
  | logEvent ev e =>
    intro _ _ σ₁ σ₂ he
    exact ((upd_log σ₁ rfl _).symm.trans he).trans (upd_log σ₂ rfl _)
  | check e =>
    intro c h σ₁ σ₂ he
    simp only [wt, Bool.and_eq_true] at h
    simp only [exec, map_low h.2 he]
    cases S.fails e.fn (e.reads.map σ₂) with
    | none => exact he
    | some n => exact ⟨rfl, he⟩
  | ite g t e iht ihe =>
    intro c h σ₁ σ₂ he
    cases hg : g.low with
    | true =>
      simp only [wt, hg, if_true, Bool.and_eq_true] at h
      simp only [exec, eval_low S hg he]
      by_cases cc : S.truthy (eval S g σ₂) = true
      · simp only [cc, if_true]; exact iht c h.1 σ₁ σ₂ he
      · simp only [cc]; exact ihe c h.2 σ₁ σ₂ he
    | false =>
      have hw : wt prog .log (.ite g t e) = true := by simpa [wt, hg] using h
      exact (exec_high S fuel prog callee hc _ hw).ni σ₁ σ₂ he
  | loop g b ihb =>
    intro c h σ₁ σ₂ he
    cases hg : g.low with
    | true =>
      simp only [wt, hg, if_true] at h
      simp only [exec]
      exact iterate_ni (fun a b hab => by rw [eval_low S hg hab]) (ihb c h) fuel σ₁ σ₂ he
    | false =>
      have hw : wt prog .log (.loop g b) = true := by simpa [wt, hg] using h
      exact (exec_high S fuel prog callee hc _ hw).ni σ₁ σ₂ he
  | try_ b k hd ihb ihh =>
    intro c h σ₁ σ₂ he
    simp only [wt, Bool.and_eq_true] at h
    have hb := ihb c h.1 σ₁ σ₂ he
    simp only [exec]
    revert hb
    cases exec S fuel callee b σ₁ with
    | normal x =>
      cases exec S fuel callee b σ₂ with
      | normal y => intro hb; exact hb
      | abrupt t y => intro hb; exact hb.elim
    | abrupt t x =>
      cases exec S fuel callee b σ₂ with
      | normal y => intro hb; exact hb.elim
      | abrupt t' y =>
        intro hb
        obtain ⟨rfl, hl⟩ := hb
        cases t with
        | brk => exact ⟨rfl, hl⟩
        | cont => exact ⟨rfl, hl⟩
        | ret => exact ⟨rfl, hl⟩
        | exc n =>
          by_cases ck : S.catches k n = true
          · simp only [ck, if_true]; exact ihh c h.2 x y hl
          · simp only [ck]; exact ⟨rfl, hl⟩
  | abrupt t => intro _ _ σ₁ σ₂ he; exact ⟨rfl, he⟩
  | call f =>
    intro _ _ σ₁ σ₂ he
    have hf := hc.ni f σ₁ σ₂ he
    simp only [exec]
    revert hf
    cases callee f σ₁ with
    | normal x =>
      cases callee f σ₂ with
      | normal y => intro hf; exact hf
      | abrupt t y => intro hf; exact hf.elim
    | abrupt t x =>
      cases callee f σ₂ with
      | normal y => intro hf; exact hf.elim
      | abrupt t' y =>
        intro hf
        obtain ⟨rfl, hl⟩ := hf
        cases t with
        | brk => exact hl
        | cont => exact hl
        | ret => exact hl
        | exc n => exact ⟨rfl, hl⟩
end

theorem lookup_mem {prog : List FnDecl} {f : Nat} {d : FnDecl} (h : lookup prog f = some d) : d ∈ prog :=
  List.mem_of_find?_eq_some h

/-- every function of a well-typed program, at every call depth -/
theorem fnSem_ok (S : Sem Val) (prog : List FnDecl) (fuel : Nat) (hw : WellTyped prog = true) :
    ∀ d, CalleeOK prog (fnSem S prog fuel d) := by
  intro d
  induction d with
  | zero =>
    exact ⟨fun _ _ _ h => h, fun _ _ σ => ⟨σ, rfl, lowEq.refl σ⟩⟩
  | succ d ih =>
    unfold WellTyped at hw
    rw [List.all_eq_true] at hw
    constructor
    · intro f σ₁ σ₂ he
      simp only [fnSem]
      cases hl : lookup prog f with
      | none => exact he
      | some decl =>
        have hd := hw decl (lookup_mem hl)
        unfold wtDecl at hd
        cases hk : decl.kind with
        | normal => rw [hk] at hd; exact exec_ni S fuel prog _ ih _ _ hd σ₁ σ₂ he
        | logOnly => rw [hk] at hd; exact exec_ni S fuel prog _ ih _ _ hd σ₁ σ₂ he
    · intro f hk σ
      simp only [fnSem]
      cases hl : lookup prog f with
      | none => exact ⟨σ, rfl, lowEq.refl σ⟩
      | some decl =>
        have hd := hw decl (lookup_mem hl)
        unfold wtDecl at hd
        have : decl.kind = .logOnly := by simpa [kindOf, hl] using hk
        rw [this] at hd
        exact exec_high S fuel prog _ ih _ hd σ

end AQ.LogIR
