/-
  Helper lemmas for property C19 (AQ/Props/C19.lean): association lists, the
  waiter-accounting invariant, the reader invariant, the routing invariant and
  the retry-token invariant of AQ.Model.Adapter.
-/
import AQ.Model.Adapter

namespace AQ.Adapter
open AQ

/-! ## association lists -/
section AL
variable {κ α β : Type} [DecidableEq κ]

theorem AL.get_none_iff (k : κ) (d : AL κ α) : d.get k = none ↔ k ∉ d.keys := by
  induction d with
  | nil => simp [AL.get, AL.keys]
  | cons e rest ih =>
    obtain ⟨k', v⟩ := e
    by_cases h : k' = k
    · simp [AL.get, AL.keys, h]
    · simp only [AL.get, h, if_false, ih]
      simp [AL.keys, h]
      intro h2; exact fun h3 => h h3.symm |>.elim

theorem AL.mem_of_get {k : κ} {v : α} {d : AL κ α} (h : d.get k = some v) : (k, v) ∈ d := by
  induction d with
  | nil => simp [AL.get] at h
  | cons e rest ih =>
    obtain ⟨k', v'⟩ := e
    by_cases hk : k' = k
    · simp [AL.get, hk] at h; simp [hk, h]
    · simp [AL.get, hk] at h; exact List.mem_cons_of_mem _ (ih h)

theorem AL.set_fresh (k : κ) (v : α) (d : AL κ α) (h : k ∉ d.keys) : d.set k v = d ++ [(k, v)] := by
  induction d with
  | nil => simp [AL.set]
  | cons e rest ih =>
    obtain ⟨k', v'⟩ := e
    have hk : k' ≠ k := by intro e; apply h; simp [AL.keys, e]
    have hr : k ∉ AL.keys rest := by intro e; apply h; simp [AL.keys] at e ⊢; exact Or.inr e
    simp [AL.set, hk, ih hr]

theorem AL.get_append (k : κ) (a b : AL κ α) :
    AL.get k (a ++ b) = match AL.get k a with | some v => some v | none => AL.get k b := by
  induction a with
  | nil => simp [AL.get]
  | cons e rest ih =>
    obtain ⟨k', v'⟩ := e
    by_cases hk : k' = k <;> simp [AL.get, hk, ih]

theorem AL.get_set (k k' : κ) (v : α) (d : AL κ α) :
    (d.set k v).get k' = if k' = k then some v else d.get k' := by
  induction d with
  | nil =>
    by_cases h : k' = k
    · simp [AL.set, AL.get, h]
    · have : ¬ k = k' := fun e => h e.symm
      simp [AL.set, AL.get, h, this]
  | cons e rest ih =>
    obtain ⟨k1, v1⟩ := e
    by_cases h1 : k1 = k
    · subst h1
      by_cases h : k' = k1
      · simp [AL.set, AL.get, h]
      · have : ¬ k1 = k' := fun e => h e.symm
        simp [AL.set, AL.get, h, this]
    · by_cases h : k1 = k'
      · subst h
        simp [AL.set, AL.get, h1]
      · simp [AL.set, AL.get, h1, h, ih]

theorem AL.get_filter_key (P : κ → Bool) {k' : κ} (d : AL κ α) (h : P k' = true) :
    AL.get k' (d.filter (fun e => P e.1)) = d.get k' := by
  induction d with
  | nil => simp [AL.get]
  | cons e rest ih =>
    obtain ⟨k1, v1⟩ := e
    rw [List.filter_cons]
    by_cases hp : P k1 = true
    · by_cases h2 : k1 = k'
      · subst h2; simp [hp, AL.get]
      · simp [hp, AL.get, h2, ih]
    · have h2 : k1 ≠ k' := by intro e; rw [e] at hp; exact hp h
      simp [hp, AL.get, h2, ih]

theorem AL.get_del_ne {k k' : κ} (d : AL κ α) (h : k' ≠ k) : (d.del k).get k' = d.get k' := by
  have := AL.get_filter_key (fun x => decide (x ≠ k)) (k' := k') d (by simp [h])
  simpa [AL.del] using this

theorem AL.get_del_self (k : κ) (d : AL κ α) : (d.del k).get k = none := by
  rw [AL.get_none_iff]; simp [AL.del, AL.keys]

theorem AL.mem_del {k : κ} {e : κ × α} {d : AL κ α} : e ∈ d.del k ↔ e ∈ d ∧ e.1 ≠ k := by
  simp [AL.del]

theorem AL.get_map_val (f : α → β) (k : κ) (d : AL κ α) :
    AL.get k (d.map (fun e => (e.1, f e.2))) = (d.get k).map f := by
  induction d with
  | nil => simp [AL.get]
  | cons e rest ih =>
    obtain ⟨k1, v1⟩ := e
    by_cases h : k1 = k <;> simp [AL.get, h, ih]

omit [DecidableEq κ] in
theorem AL.keys_map_val (f : α → β) (d : AL κ α) : AL.keys (d.map (fun e => (e.1, f e.2))) = d.keys := by
  simp [AL.keys, List.map_map, Function.comp_def]

/-- deleting the (unique) entry of `k` -/
theorem AL.split_of_get {k : κ} {v : α} {d : AL κ α} (nd : d.keys.Nodup) (h : d.get k = some v) :
    ∃ l1 l2, d = l1 ++ (k, v) :: l2 ∧ d.del k = l1 ++ l2 := by
  induction d with
  | nil => simp [AL.get] at h
  | cons e rest ih =>
    obtain ⟨k1, v1⟩ := e
    simp only [AL.keys, List.map_cons, List.nodup_cons] at nd
    by_cases h1 : k1 = k
    · subst h1
      simp [AL.get] at h
      subst h
      refine ⟨[], rest, by simp, ?_⟩
      simp only [AL.del, List.nil_append, ne_eq, decide_not]
      rw [List.filter_cons]
      simp only [decide_true, Bool.not_true, Bool.false_eq_true, if_false]
      apply List.filter_eq_self.2
      intro e he
      have : e.1 ≠ k1 := by
        intro eq; apply nd.1; rw [← eq]; exact List.mem_map_of_mem he
      simp [this]
    · simp [AL.get, h1] at h
      obtain ⟨l1, l2, e1, e2⟩ := ih nd.2 h
      refine ⟨(k1, v1) :: l1, l2, by simp [e1], ?_⟩
      simp only [AL.del, ne_eq, decide_not] at e2 ⊢
      rw [List.filter_cons]
      simp [h1, e2]

/-- an entry found under `k` survives removing the entries of another value -/
theorem AL.get_filter_val [DecidableEq α] {k : κ} {v c : α} (d : AL κ α) (h : d.get k = some v) (hv : v ≠ c) :
    AL.get k (d.filter (fun e => e.2 ≠ c)) = some v := by
  induction d with
  | nil => simp [AL.get] at h
  | cons e rest ih =>
    obtain ⟨k1, v1⟩ := e
    rw [List.filter_cons]
    by_cases h1 : k1 = k
    · subst h1
      simp [AL.get] at h
      subst h
      simp [hv, AL.get]
    · simp [AL.get, h1] at h
      by_cases h2 : v1 = c
      · simp [h2]; simpa using ih h
      · simp [h2, AL.get, h1]; simpa using ih h

end AL

/-! ## what `observe` changes -/

section Observe
variable (c : Ctx) (s : PS) (note : Bool) (ev : Ev)

theorem observe_evLog : (observe c s note ev).evLog = s.p.evLog ++ [ev] := by
  unfold observe; cases note <;> cases ev <;> simp

macro "obs_field" : tactic => `(tactic| (unfold observe; cases note <;> cases ev <;> simp))

theorem observe_connected : (observe c s note ev).connected = s.p.connected := by obs_field
theorem observe_connWaiters : (observe c s note ev).connWaiters = s.p.connWaiters := by obs_field
theorem observe_pingWaiters : (observe c s note ev).pingWaiters = s.p.pingWaiters := by obs_field
theorem observe_closed : (observe c s note ev).closed = s.p.closed := by obs_field
theorem observe_closedWaiters : (observe c s note ev).closedWaiters = s.p.closedWaiters := by obs_field
theorem observe_log : (observe c s note ev).log = s.p.log := by obs_field
theorem observe_created : (observe c s note ev).created = s.p.created := by obs_field
theorem observe_connCreated : (observe c s note ev).connCreated = s.p.connCreated := by obs_field
theorem observe_readers : (observe c s note ev).readers = s.p.readers := by obs_field
theorem observe_timer : (observe c s note ev).timer = s.p.timer := by obs_field
theorem observe_timerAt : (observe c s note ev).timerAt = s.p.timerAt := by obs_field
theorem observe_transmitTask : (observe c s note ev).transmitTask = s.p.transmitTask := by obs_field
theorem observe_pendingSoon : (observe c s note ev).pendingSoon = s.p.pendingSoon := by obs_field
theorem observe_vUid : (observe c s note ev).vUid = s.p.vUid := by obs_field
theorem observe_vStream : (observe c s note ev).vStream = s.p.vStream := by obs_field
theorem observe_feedAfterEof : (observe c s note ev).feedAfterEof = s.p.feedAfterEof := by obs_field
theorem observe_retireFailed : (observe c s note ev).retireFailed = s.p.retireFailed := by obs_field

theorem observe_termSeen : (observe c s note ev).termSeen = (s.p.termSeen || decide (ev = .terminated)) := by
  simp [Proto.termSeen, observe_evLog, eq_comm]

theorem observe_hsSeen : (observe c s note ev).hsSeen = (s.p.hsSeen || decide (ev = .handshake)) := by
  simp [Proto.hsSeen, observe_evLog, eq_comm]

theorem observe_pending : (observe c s note ev).pending = s.p.pending := by
  simp [Proto.pending, observe_connWaiters, observe_pingWaiters, observe_closedWaiters]

end Observe

/-! ## waiter accounting -/

def ids (l : List (WaiterId × Res)) : List WaiterId := l.map (·.1)

@[simp] theorem ids_append (a b : List (WaiterId × Res)) : ids (a ++ b) = ids a ++ ids b := by simp [ids]
@[simp] theorem ids_completeAll (ws : List WaiterId) (r : Res) (log : List (WaiterId × Res)) :
    ids (completeAll ws r log) = ids log ++ ws := by
  simp [ids, completeAll, List.map_map, Function.comp_def]
@[simp] theorem ids_single (w : WaiterId) (r : Res) : ids [(w, r)] = [w] := rfl

/-- the accounting invariant of one connection (fixed code); `n` bounds the waiter IDs handed out -/
structure WInv (n : Nat) (p : Proto) : Prop where
  cnt : ∀ w, p.created.count w = p.pending.count w + (ids p.log).count w
  nodup : p.created.Nodup
  bound : ∀ w ∈ p.created, w < n
  keys : p.pingWaiters.keys.Nodup
  closedIff : p.closed = p.termSeen
  termPend : p.termSeen = true → p.pending = []
  connIff : p.connected = p.hsSeen
  connPend : p.connected = true → p.connWaiters = []
  noAssert : ∀ e ∈ p.log, e.2 ≠ Res.assertion
  connC : ∀ w ∈ p.connCreated, w ∈ p.connWaiters ∨ w ∈ ids p.log

theorem WInv.mono {n m : Nat} {p : Proto} (h : WInv n p) (hnm : n ≤ m) : WInv m p :=
  { h with bound := fun w hw => Nat.lt_of_lt_of_le (h.bound w hw) hnm }

theorem WInv.init (n : Nat) : WInv n {} := by
  constructor <;> simp [Proto.pending, ids, Proto.termSeen, Proto.hsSeen, AL.keys]

theorem mem_completeAll {e : WaiterId × Res} {ws : List WaiterId} {r : Res} {log : List (WaiterId × Res)} :
    e ∈ completeAll ws r log ↔ e ∈ log ∨ (e.2 = r ∧ e.1 ∈ ws) := by
  simp only [completeAll, List.mem_append, List.mem_map]
  constructor
  · rintro (h | ⟨w, hw, rfl⟩)
    · exact Or.inl h
    · exact Or.inr ⟨rfl, hw⟩
  · rintro (h | ⟨h1, h2⟩)
    · exact Or.inl h
    · exact Or.inr ⟨e.1, h2, by cases e; simp_all⟩

theorem pending_nil {p : Proto} (h : p.pending = []) :
    p.connWaiters = [] ∧ p.pingWaiters = [] ∧ p.closedWaiters = [] := by
  simpa [Proto.pending, and_assoc] using h

theorem WInv.congr {n : Nat} {p p' : Proto} (h : WInv n p)
    (h1 : p'.created = p.created) (h2 : p'.connWaiters = p.connWaiters) (h3 : p'.pingWaiters = p.pingWaiters)
    (h4 : p'.closedWaiters = p.closedWaiters) (h5 : p'.log = p.log) (h6 : p'.closed = p.closed)
    (h7 : p'.connected = p.connected) (h8 : p'.connCreated = p.connCreated)
    (h9 : p'.termSeen = p.termSeen) (h10 : p'.hsSeen = p.hsSeen) : WInv n p' := by
  have hp : p'.pending = p.pending := by simp [Proto.pending, h2, h3, h4]
  constructor
  · intro w; rw [h1, hp, h5]; exact h.cnt w
  · rw [h1]; exact h.nodup
  · rw [h1]; exact h.bound
  · rw [h3]; exact h.keys
  · rw [h6, h9]; exact h.closedIff
  · rw [h9, hp]; exact h.termPend
  · rw [h7, h10]; exact h.connIff
  · rw [h7, h2]; exact h.connPend
  · rw [h5]; exact h.noAssert
  · rw [h8, h2, h5]; exact h.connC

macro "obs_simp" : tactic =>
  `(tactic| simp [observe_created, observe_connWaiters, observe_pingWaiters, observe_closedWaiters, observe_log,
      observe_connected, observe_closed, observe_connCreated, Proto.termSeen, Proto.hsSeen, observe_evLog])

/-- one event keeps the accounting invariant (fixed code) -/
theorem processEvent_winv {n : Nat} (c : Ctx) (hq : c.q = Quirks.fixed) (s : PS) (e : Bool × Ev)
    (h : WInv n s.p) : WInv n (processEvent c s e).1.p := by
  obtain ⟨note, ev⟩ := e
  have hflag : c.q.noConnectedFlag = false := by rw [hq]; rfl
  have hcnt := h.cnt
  simp only [Proto.pending] at hcnt
  cases ev with
  | terminated =>
    simp only [processEvent]
    constructor
    · intro w
      have := hcnt w
      simp [Proto.pending, observe_created, observe_connWaiters, observe_pingWaiters, observe_closedWaiters,
        observe_log, List.count_append] at this ⊢
      omega
    · simpa [observe_created] using h.nodup
    · simpa [observe_created] using h.bound
    · simp [AL.keys]
    · simp [Proto.termSeen, observe_evLog]
    · intro _; simp [Proto.pending]
    · simp only [observe_connected, Proto.hsSeen, observe_evLog]
      have := h.connIff; simp [Proto.hsSeen] at this; simp [this]
    · intro _; rfl
    · intro e he
      simp only [mem_completeAll, observe_log, observe_connWaiters, observe_pingWaiters, observe_closedWaiters] at he
      rcases he with ((he | ⟨h1, _⟩) | ⟨h1, _⟩) | ⟨h1, _⟩
      · exact h.noAssert e he
      all_goals (rw [h1]; decide)
    · intro w hw
      right
      have := h.connC w (by simpa [observe_connCreated] using hw)
      simp [observe_log, observe_connWaiters] at this ⊢
      rcases this with h1 | h1 <;> simp [h1]
  | handshake =>
    simp only [processEvent, hflag, Bool.false_eq_true, if_false]
    constructor
    · intro w
      have := hcnt w
      simp [Proto.pending, observe_created, observe_connWaiters, observe_pingWaiters, observe_closedWaiters,
        observe_log, List.count_append] at this ⊢
      omega
    · simpa [observe_created] using h.nodup
    · simpa [observe_created] using h.bound
    · simpa [observe_pingWaiters] using h.keys
    · have := h.closedIff
      simp [Proto.termSeen] at this
      simp [observe_closed, Proto.termSeen, observe_evLog, this]
    · intro ht
      have ht' : s.p.termSeen = true := by simpa [Proto.termSeen, observe_evLog] using ht
      have := pending_nil (h.termPend ht')
      simp [Proto.pending, observe_pingWaiters, observe_closedWaiters, this]
    · simp [Proto.hsSeen, observe_evLog]
    · intro _; rfl
    · intro e he
      simp only [mem_completeAll, observe_log, observe_connWaiters] at he
      rcases he with he | ⟨h1, _⟩
      · exact h.noAssert e he
      · rw [h1]; decide
    · intro w hw
      right
      have := h.connC w (by simpa [observe_connCreated] using hw)
      simp [observe_log, observe_connWaiters] at this ⊢
      rcases this with h1 | h1 <;> simp [h1]
  | pingAck uid =>
    simp only [processEvent, observe_pingWaiters]
    split
    · apply h.congr <;> obs_simp
    · rename_i w hw
      obtain ⟨l1, l2, e1, e2⟩ := AL.split_of_get h.keys hw
      constructor
      · intro x
        have := hcnt x
        rw [e1] at this
        simp only [Proto.pending, observe_connWaiters, observe_closedWaiters, observe_log, observe_created]
        rw [e2]
        simp [List.count_append, List.count_cons] at this ⊢
        omega
      · simpa [observe_created] using h.nodup
      · simpa [observe_created] using h.bound
      · have := h.keys
        rw [e2]
        rw [e1] at this
        simp only [AL.keys, List.map_append, List.map_cons] at this ⊢
        exact this.sublist ((List.sublist_cons_self _ _).append_left _)
      · have := h.closedIff
        simp [Proto.termSeen] at this
        simp [observe_closed, Proto.termSeen, observe_evLog, this]
      · intro ht
        have ht' : s.p.termSeen = true := by simpa [Proto.termSeen, observe_evLog] using ht
        have := pending_nil (h.termPend ht')
        rw [this.2.1] at hw; simp [AL.get] at hw
      · have := h.connIff
        simp [Proto.hsSeen] at this
        simp [observe_connected, Proto.hsSeen, observe_evLog, this]
      · simpa [observe_connected, observe_connWaiters] using h.connPend
      · intro e he
        simp only [observe_log, List.mem_append, List.mem_singleton] at he
        rcases he with he | he
        · exact h.noAssert e he
        · rw [he]; simp
      · intro x hx
        have := h.connC x (by simpa [observe_connCreated] using hx)
        simp [observe_log, observe_connWaiters] at this ⊢
        rcases this with h1 | h1 <;> simp [h1]
  | issued cid =>
    simp only [processEvent]
    split <;> (apply h.congr <;> obs_simp)
  | retired cid =>
    simp only [processEvent]
    split
    · split
      · apply h.congr <;> obs_simp
      · split <;> (apply h.congr <;> obs_simp)
    · apply h.congr <;> obs_simp
  | data sid d fin =>
    simp only [processEvent, observe_readers]
    split <;> split <;> (apply h.congr <;> obs_simp)
  | other =>
    simp only [processEvent]
    apply h.congr <;> obs_simp

theorem processEvent_vUid (c : Ctx) (s : PS) (e : Bool × Ev) : (processEvent c s e).1.p.vUid = s.p.vUid := by
  obtain ⟨note, ev⟩ := e
  cases ev <;> simp only [processEvent] <;> (repeat' split) <;> simp [observe_vUid]

theorem processEvents_winv {n : Nat} (c : Ctx) (hq : c.q = Quirks.fixed) (s : PS) (es : List (Bool × Ev))
    (h : WInv n s.p) : WInv n (processEvents c s es).1.p := by
  induction es generalizing s with
  | nil => simpa [processEvents] using h
  | cons e es ih =>
    simp only [processEvents]
    have h1 := processEvent_winv c hq s e h
    split
    · rename_i s' err heq; rw [heq] at h1; exact h1
    · rename_i s' heq; rw [heq] at h1; exact ih s' h1

theorem processEvents_vUid (c : Ctx) (s : PS) (es : List (Bool × Ev)) : (processEvents c s es).1.p.vUid = s.p.vUid := by
  induction es generalizing s with
  | nil => simp [processEvents]
  | cons e es ih =>
    simp only [processEvents]
    have h1 := processEvent_vUid c s e
    split
    · rename_i s' err heq; rw [heq] at h1; exact h1
    · rename_i s' heq; rw [heq] at h1; rw [ih s', h1]

macro "same_w" h:ident : tactic =>
  `(tactic| (apply WInv.congr $h <;> simp [rearm, Proto.termSeen, Proto.hsSeen]))

theorem transmit_winv {n : Nat} (c : Ctx) (hq : c.q = Quirks.fixed) (s : PS) (tat : Option Nat) (tx : List Ev)
    (h : WInv n s.p) : WInv n (transmit c s tat tx).1.p := by
  have hd : c.q.deferTxEvents = false := by rw [hq]; rfl
  simp only [transmit, hd, Bool.false_eq_true, if_false]
  have h0 : WInv n ({ s with p := { s.p with transmitTask := false } } : PS).p := by same_w h
  have h1 := processEvents_winv c hq _ (fresh tx) h0
  split
  · rename_i s' e heq; rw [heq] at h1; exact h1
  · rename_i s' heq; rw [heq] at h1; same_w h1

theorem transmit_vUid (c : Ctx) (hq : c.q = Quirks.fixed) (s : PS) (tat : Option Nat) (tx : List Ev) :
    (transmit c s tat tx).1.p.vUid = s.p.vUid := by
  have hd : c.q.deferTxEvents = false := by rw [hq]; rfl
  simp only [transmit, hd, Bool.false_eq_true, if_false]
  have h1 := processEvents_vUid c ({ s with p := { s.p with transmitTask := false } } : PS) (fresh tx)
  split
  · rename_i s' e heq; rw [heq] at h1; exact h1
  · rename_i s' heq; rw [heq] at h1; simpa [rearm] using h1

theorem queued_fixed (c : Ctx) (hq : c.q = Quirks.fixed) (p : Proto) (evs : List Ev) : queued c p evs = fresh evs := by
  have hd : c.q.deferTxEvents = false := by rw [hq]; rfl
  simp [queued, hd]

theorem datagramReceived_winv {n : Nat} (c : Ctx) (hq : c.q = Quirks.fixed) (s : PS) (tat : Option Nat)
    (evs tx : List Ev) (h : WInv n s.p) : WInv n (datagramReceived c s tat evs tx).1.p := by
  simp only [datagramReceived, queued_fixed c hq]
  have h0 : WInv n ({ s with p := { s.p with deferred := [] } } : PS).p := by same_w h
  have h1 := processEvents_winv c hq _ (fresh evs) h0
  split
  · rename_i s' e heq; rw [heq] at h1; exact h1
  · rename_i s' heq; rw [heq] at h1; exact transmit_winv c hq s' tat tx h1

theorem datagramReceived_vUid (c : Ctx) (hq : c.q = Quirks.fixed) (s : PS) (tat : Option Nat) (evs tx : List Ev) :
    (datagramReceived c s tat evs tx).1.p.vUid = s.p.vUid := by
  simp only [datagramReceived, queued_fixed c hq]
  have h1 := processEvents_vUid c ({ s with p := { s.p with deferred := [] } } : PS) (fresh evs)
  split
  · rename_i s' e heq; rw [heq] at h1; exact h1
  · rename_i s' heq; rw [heq] at h1; rw [transmit_vUid c hq, h1]

theorem handleTimer_winv {n : Nat} (c : Ctx) (hq : c.q = Quirks.fixed) (s : PS) (tat : Option Nat)
    (evs tx : List Ev) (h : WInv n s.p) : WInv n (handleTimer c s tat evs tx).1.p := by
  simp only [handleTimer, queued_fixed c hq]
  have h0 : WInv n ({ s with p := { s.p with deferred := [], timer := none, timerAt := none } } : PS).p := by same_w h
  have h1 := processEvents_winv c hq _ (fresh evs) h0
  split
  · rename_i s' e heq; rw [heq] at h1; exact h1
  · rename_i s' heq; rw [heq] at h1; exact transmit_winv c hq s' tat tx h1

theorem handleTimer_vUid (c : Ctx) (hq : c.q = Quirks.fixed) (s : PS) (tat : Option Nat) (evs tx : List Ev) :
    (handleTimer c s tat evs tx).1.p.vUid = s.p.vUid := by
  simp only [handleTimer, queued_fixed c hq]
  have h1 := processEvents_vUid c ({ s with p := { s.p with deferred := [], timer := none, timerAt := none } } : PS)
    (fresh evs)
  split
  · rename_i s' e heq; rw [heq] at h1; exact h1
  · rename_i s' heq; rw [heq] at h1; rw [transmit_vUid c hq, h1]

theorem transmitOp_winv {n : Nat} (c : Ctx) (hq : c.q = Quirks.fixed) (s : PS) (tat : Option Nat) (tx : List Ev)
    (h : WInv n s.p) : WInv n (transmitOp c s tat tx).1.p := by
  simp only [transmitOp]
  apply transmit_winv c hq
  same_w h

theorem transmitOp_vUid (c : Ctx) (hq : c.q = Quirks.fixed) (s : PS) (tat : Option Nat) (tx : List Ev) :
    (transmitOp c s tat tx).1.p.vUid = s.p.vUid := by
  simp [transmitOp, transmit_vUid c hq]

/-- `wait_connected()` by a fresh caller -/
theorem waitConnected_winv {n : Nat} (c : Ctx) (hq : c.q = Quirks.fixed) (p : Proto) (h : WInv n p) :
    WInv (n + 1) (waitConnected c p n) := by
  have ha : c.q.assertSingle = false := by rw [hq]; rfl
  have hc : c.q.noClosedCheck = false := by rw [hq]; rfl
  have hfresh : n ∉ p.created := fun hn => Nat.lt_irrefl _ (h.bound n hn)
  have hcount : p.created.count n = 0 := List.count_eq_zero.2 hfresh
  have hcnt := h.cnt
  simp only [Proto.pending] at hcnt
  have hb : ∀ w ∈ p.created ++ [n], w < n + 1 := by
    intro w hw
    rcases List.mem_append.1 hw with h1 | h1
    · exact Nat.lt_succ_of_lt (h.bound w h1)
    · have : w = n := by simpa using h1
      rw [this]; exact Nat.lt_succ_self _
  have hnd : (p.created ++ [n]).Nodup := by
    rw [List.nodup_append]
    refine ⟨h.nodup, by simp, ?_⟩
    intro a ha b hb; simp at hb; subst hb; intro e; subst e; exact hfresh ha
  simp only [waitConnected, ha, hc]
  simp only [Bool.false_eq_true, false_and, if_false, not_false_eq_true, true_and]
  split
  · -- connected
    rename_i hconn
    constructor
    · intro w; have := hcnt w
      simp [Proto.pending, List.count_append, List.count_cons] at this ⊢; omega
    · exact hnd
    · exact hb
    · exact h.keys
    · simpa [Proto.termSeen] using h.closedIff
    · simpa [Proto.termSeen, Proto.pending] using h.termPend
    · simpa [Proto.hsSeen] using h.connIff
    · simpa using h.connPend
    · intro e he; simp at he; rcases he with he | he
      · exact h.noAssert e he
      · rw [he]; simp
    · intro w hw; simp at hw ⊢
      rcases hw with hw | hw
      · rcases h.connC w hw with h1 | h1
        · exact Or.inl h1
        · exact Or.inr (Or.inl h1)
      · exact Or.inr (Or.inr hw)
  · split
    · -- closed
      constructor
      · intro w; have := hcnt w
        simp [Proto.pending, List.count_append, List.count_cons] at this ⊢; omega
      · exact hnd
      · exact hb
      · exact h.keys
      · simpa [Proto.termSeen] using h.closedIff
      · simpa [Proto.termSeen, Proto.pending] using h.termPend
      · simpa [Proto.hsSeen] using h.connIff
      · simpa using h.connPend
      · intro e he; simp at he; rcases he with he | he
        · exact h.noAssert e he
        · rw [he]; simp
      · intro w hw; simp at hw ⊢
        rcases hw with hw | hw
        · rcases h.connC w hw with h1 | h1
          · exact Or.inl h1
          · exact Or.inr (Or.inl h1)
        · exact Or.inr (Or.inr hw)
    · -- joins the shared future
      rename_i hnc hncl
      constructor
      · intro w; have := hcnt w
        simp [Proto.pending, List.count_append, List.count_cons] at this ⊢; omega
      · exact hnd
      · exact hb
      · exact h.keys
      · simpa [Proto.termSeen] using h.closedIff
      · intro ht
        have : p.closed = true := by rw [h.closedIff]; simpa [Proto.termSeen] using ht
        exact absurd this (by simpa using hncl)
      · simpa [Proto.hsSeen] using h.connIff
      · intro hc; exact absurd hc (by simpa using hnc)
      · exact h.noAssert
      · intro w hw; simp at hw ⊢
        rcases hw with hw | hw
        · rcases h.connC w hw with h1 | h1
          · exact Or.inl (Or.inl h1)
          · exact Or.inr h1
        · exact Or.inl (Or.inr hw)

/-- a fresh caller either completes at once or is appended to one of the pending lists -/
theorem WInv.add {n : Nat} {p p' : Proto} (h : WInv n p)
    (h1 : p'.created = p.created ++ [n])
    (hpend : (p'.pending = p.pending ∧ ∃ r, r ≠ Res.assertion ∧ p'.log = p.log ++ [(n, r)]) ∨
             (∃ a b, p.pending = a ++ b ∧ p'.pending = a ++ n :: b ∧ p'.log = p.log ∧ p.termSeen = false))
    (hk : p'.pingWaiters.keys.Nodup) (h6 : p'.closed = p.closed) (h7 : p'.connected = p.connected)
    (h9 : p'.termSeen = p.termSeen) (h10 : p'.hsSeen = p.hsSeen)
    (hcw : p'.connWaiters = p.connWaiters ∨ (p'.connWaiters = p.connWaiters ++ [n] ∧ p.connected = false))
    (hcc : ∀ w ∈ p'.connCreated, w ∈ p.connCreated ∨ (w = n ∧ (n ∈ p'.connWaiters ∨ n ∈ ids p'.log))) :
    WInv (n + 1) p' := by
  have hfresh : n ∉ p.created := fun hn => Nat.lt_irrefl _ (h.bound n hn)
  constructor
  · intro w
    have := h.cnt w
    rw [h1]
    rcases hpend with ⟨e1, r, _, e2⟩ | ⟨a, b, e0, e1, e2, _⟩
    · rw [e1, e2]; simp [List.count_append, List.count_cons] at this ⊢; omega
    · rw [e1, e2]; rw [e0] at this; simp [List.count_append, List.count_cons] at this ⊢; omega
  · rw [h1, List.nodup_append]
    refine ⟨h.nodup, by simp, ?_⟩
    intro a ha b hb; simp at hb; subst hb; intro e; subst e; exact hfresh ha
  · rw [h1]; intro w hw
    rcases List.mem_append.1 hw with h2 | h2
    · exact Nat.lt_succ_of_lt (h.bound w h2)
    · have : w = n := by simpa using h2
      rw [this]; exact Nat.lt_succ_self _
  · exact hk
  · rw [h6, h9]; exact h.closedIff
  · rw [h9]; intro ht
    rcases hpend with ⟨e1, _⟩ | ⟨a, b, _, _, _, e3⟩
    · rw [e1]; exact h.termPend ht
    · rw [e3] at ht; exact absurd ht (by simp)
  · rw [h7, h10]; exact h.connIff
  · rw [h7]; intro hc
    rcases hcw with e | ⟨_, e⟩
    · rw [e]; exact h.connPend hc
    · rw [e] at hc; exact absurd hc (by simp)
  · intro e he
    rcases hpend with ⟨_, r, hr, e2⟩ | ⟨_, _, _, _, e2, _⟩
    · rw [e2] at he
      rcases List.mem_append.1 he with h2 | h2
      · exact h.noAssert e h2
      · have : e = (n, r) := by simpa using h2
        rw [this]; exact hr
    · rw [e2] at he; exact h.noAssert e he
  · intro w hw
    rcases hcc w hw with h2 | ⟨h2, h3⟩
    · rcases h.connC w h2 with h4 | h4
      · left
        rcases hcw with e | ⟨e, _⟩ <;> rw [e]
        · exact h4
        · exact List.mem_append_left _ h4
      · right
        rcases hpend with ⟨_, r, _, e2⟩ | ⟨_, _, _, _, e2, _⟩ <;> rw [e2]
        · simp [h4]
        · exact h4
    · rw [h2]; exact h3

macro "add_rest" : tactic =>
  `(tactic| first
      | rfl
      | exact Or.inl rfl
      | exact fun w hw => Or.inl hw
      | simp_all [Proto.termSeen, Proto.hsSeen])

theorem waitClosed_winv {n : Nat} (p : Proto) (h : WInv n p) : WInv (n + 1) (waitClosed p n) := by
  simp only [waitClosed]
  split
  · apply h.add (by simp)
    · left; exact ⟨by simp [Proto.pending], .ok, by simp, by simp⟩
    · exact h.keys
    all_goals add_rest
  · rename_i hc
    apply h.add (by simp)
    · right
      refine ⟨p.connWaiters ++ p.pingWaiters.map (·.2) ++ p.closedWaiters, [], by simp [Proto.pending],
        by simp [Proto.pending], by simp, ?_⟩
      have := h.closedIff; simp at hc; rw [hc] at this; exact this.symm
    · exact h.keys
    all_goals add_rest

theorem waitClosed_vUid (p : Proto) (n : Nat) : (waitClosed p n).vUid = p.vUid := by
  simp only [waitClosed]; split <;> rfl

theorem waitConnected_vUid (c : Ctx) (p : Proto) (n : Nat) : (waitConnected c p n).vUid = p.vUid := by
  simp only [waitConnected]; repeat' split
  all_goals rfl

/-- `ping()` by a fresh caller whose `id(waiter)` is not the uid of a live waiter -/
theorem ping_winv {n : Nat} (c : Ctx) (hq : c.q = Quirks.fixed) (s : PS) (uid : Nat) (tat : Option Nat)
    (tx : List Ev) (h : WInv n s.p) (hv : (ping c s n uid tat tx).1.p.vUid = false) :
    s.p.vUid = false ∧ WInv (n + 1) (ping c s n uid tat tx).1.p := by
  have hc : c.q.noClosedCheck = false := by rw [hq]; rfl
  simp only [ping, hc, Bool.false_eq_true, not_false_eq_true, true_and] at hv ⊢
  by_cases hcl : s.p.closed = true
  · rw [if_pos hcl] at hv ⊢
    refine ⟨hv, ?_⟩
    apply h.add (by simp)
    · left; exact ⟨by simp [Proto.pending], .cerr, by simp, by simp⟩
    · exact h.keys
    all_goals add_rest
  · rw [if_neg hcl] at hv ⊢
    rw [transmit_vUid c hq] at hv
    simp at hv
    obtain ⟨hv1, hv2⟩ := hv
    have hfr : uid ∉ s.p.pingWaiters.keys := by simpa using hv2
    refine ⟨hv1, ?_⟩
    apply transmit_winv c hq
    apply h.add (by simp)
    · right
      refine ⟨s.p.connWaiters ++ s.p.pingWaiters.map (·.2), s.p.closedWaiters, by simp [Proto.pending], ?_, by simp, ?_⟩
      · simp [Proto.pending, AL.set_fresh _ _ _ hfr]
      · have := h.closedIff; simp at hcl; rw [hcl] at this; exact this.symm
    · simp only [AL.set_fresh _ _ _ hfr, AL.keys, List.map_append, List.map_cons, List.map_nil]
      rw [List.nodup_append]
      refine ⟨h.keys, by simp, ?_⟩
      intro a ha b hb; simp at hb; subst hb; intro e; subst e; exact hfr ha
    all_goals add_rest

theorem ping_vUid_false (c : Ctx) (hq : c.q = Quirks.fixed) (s : PS) (w uid : Nat) (tat : Option Nat) (tx : List Ev)
    (hv : (ping c s w uid tat tx).1.p.vUid = false) : s.p.vUid = false := by
  have hc : c.q.noClosedCheck = false := by rw [hq]; rfl
  simp only [ping, hc, Bool.false_eq_true, not_false_eq_true, true_and] at hv
  by_cases hcl : s.p.closed = true
  · rw [if_pos hcl] at hv; exact hv
  · rw [if_neg hcl, transmit_vUid c hq] at hv
    simp at hv; exact hv.1

/-! ## lifting to the world -/

theorem onConn_none (w : World) (c : Nat) (f : Ctx → PS → PS × Option Err) (act : Action)
    (h : w.conns[c]? = none) : (w.onConn c f act).1 = w := by
  simp [World.onConn, h]

theorem onConn_some (w : World) (c : Nat) (f : Ctx → PS → PS × Option Err) (act : Action) (k : Conn)
    (h : w.conns[c]? = some k) :
    (w.onConn c f act).1 = { w with tbl := (f (w.ctx c k) ⟨w.tbl, k.p⟩).1.tbl,
                                    conns := w.conns.set c { k with p := (f (w.ctx c k) ⟨w.tbl, k.p⟩).1.p } } := by
  simp [World.onConn, h]

/-- the per-connection reading of a world after a callback of connection `c` -/
theorem onConn_get (w : World) (c : Nat) (f : Ctx → PS → PS × Option Err) (act : Action) (c' : Nat) (k' : Conn)
    (h : (w.onConn c f act).1.conns[c']? = some k') :
    (c' ≠ c ∧ w.conns[c']? = some k') ∨
    (c' = c ∧ ∃ k, w.conns[c]? = some k ∧ k' = { k with p := (f (w.ctx c k) ⟨w.tbl, k.p⟩).1.p }) := by
  cases hk : w.conns[c]? with
  | none =>
    rw [onConn_none w c f act hk] at h
    by_cases e : c' = c
    · subst e; rw [hk] at h; cases h
    · exact Or.inl ⟨e, h⟩
  | some k =>
    rw [onConn_some w c f act k hk] at h
    simp only [List.getElem?_set] at h
    by_cases e : c = c'
    · subst e
      simp only [if_true] at h
      split at h
      · right; exact ⟨rfl, k, rfl, by cases h; rfl⟩
      · cases h
    · simp only [e, if_false] at h
      exact Or.inl ⟨fun e' => e e'.symm, h⟩

theorem onConn_nextWid (w : World) (c : Nat) (f : Ctx → PS → PS × Option Err) (act : Action) :
    (w.onConn c f act).1.nextWid = w.nextWid := by
  cases hk : w.conns[c]? with
  | none => rw [onConn_none w c f act hk]
  | some k => rw [onConn_some w c f act k hk]

theorem onConn_q (w : World) (c : Nat) (f : Ctx → PS → PS × Option Err) (act : Action) :
    (w.onConn c f act).1.q = w.q := by
  cases hk : w.conns[c]? with
  | none => rw [onConn_none w c f act hk]
  | some k => rw [onConn_some w c f act k hk]

/-! ### generic lifting of a per-connection invariant `P n p` (`n` = waiter IDs handed out so far) -/

/-- `id(waiter)` of a Future that `ping()` is about to register differs from the ids of the Futures that are
    alive at that moment — the ping waiters still registered on the connection (CPython: `id()` is unique among
    simultaneously live objects; nothing is claimed about objects that have died).  When the connection is
    closed `ping()` raises before creating a Future. -/
def LiveOK (p : Proto) (uid : Nat) : Prop := p.closed = false → uid ∉ p.pingWaiters.keys

instance (p : Proto) (uid : Nat) : Decidable (LiveOK p uid) := by unfold LiveOK; infer_instance

/-- the ping uids of a schedule are ids of simultaneously live objects -/
def LiveDistinct (w : World) : List Op → Prop
  | [] => True
  | op :: rest =>
    (match op with
      | .ping c uid _ _ => (match w.conns[c]? with | some k => LiveOK k.p uid | none => True)
      | _ => True) ∧ LiveDistinct (step w op).1 rest

instance LiveDistinct.dec : (w : World) → (ops : List Op) → Decidable (LiveDistinct w ops)
  | _, [] => isTrue trivial
  | w, op :: rest =>
    have : Decidable (LiveDistinct (step w op).1 rest) := LiveDistinct.dec (step w op).1 rest
    match op with
    | .ping c uid _ _ =>
      match h : w.conns[c]? with
      | some k => by unfold LiveDistinct; simp only [h]; infer_instance
      | none => by unfold LiveDistinct; simp only [h]; infer_instance
    | .newConn | .dgram .. | .timer .. | .transmit .. | .waitConn _ | .waitClosed _ | .close .. | .mkStream ..
    | .cancelCaller ..
    | .write .. | .eof .. | .sdgram .. => by unfold LiveDistinct; infer_instance

/-- what it takes for `P` to be kept by every atomic step of the fixed code (`g`: the invariant relies on
    `LiveDistinct`) -/
structure Pres (g : Bool) (P : Nat → Proto → Prop) : Prop where
  mono : ∀ {n m : Nat} {p : Proto}, P n p → n ≤ m → P m p
  init : ∀ n, P n {}
  initS : ∀ n (g : List CID), P n { issuedG := g }
  dgram : ∀ (ctx : Ctx) (s : PS) (tat : Option Nat) (evs tx : List Ev) (n : Nat), ctx.q = Quirks.fixed →
    P n s.p → P n (datagramReceived ctx s tat evs tx).1.p
  timer : ∀ (ctx : Ctx) (s : PS) (tat : Option Nat) (evs tx : List Ev) (n : Nat), ctx.q = Quirks.fixed →
    P n s.p → P n (handleTimer ctx s tat evs tx).1.p
  txop : ∀ (ctx : Ctx) (s : PS) (tat : Option Nat) (tx : List Ev) (n : Nat), ctx.q = Quirks.fixed →
    P n s.p → P n (transmitOp ctx s tat tx).1.p
  close : ∀ (ctx : Ctx) (s : PS) (tat : Option Nat) (tx : List Ev) (n : Nat), ctx.q = Quirks.fixed →
    P n s.p → P n (transmit ctx s tat tx).1.p
  mkS : ∀ (ctx : Ctx) (p : Proto) (sid : Nat) (n : Nat), ctx.q = Quirks.fixed → P n p → P n (createStream ctx p sid)
  cancel : ∀ (p : Proto) (w : WaiterId) (n : Nat), P n p → P n (cancelCaller p w)
  write : ∀ (p : Proto) (sid : Nat) (d : Bytes) (n : Nat), P n p → P n ((write p sid d).getD p)
  eof : ∀ (p : Proto) (sid : Nat) (n : Nat), P n p → P n ((writeEof p sid).getD p)
  waitConn : ∀ (ctx : Ctx) (p : Proto) (n : Nat), ctx.q = Quirks.fixed → P n p → P (n + 1) (waitConnected ctx p n)
  waitClosed : ∀ (p : Proto) (n : Nat), P n p → P (n + 1) (waitClosed p n)
  ping : ∀ (ctx : Ctx) (s : PS) (uid : Nat) (tat : Option Nat) (tx : List Ev) (n : Nat), ctx.q = Quirks.fixed →
    (g = true → LiveOK s.p uid) → P n s.p → P (n + 1) (ping ctx s n uid tat tx).1.p

def GInv (P : Nat → Proto → Prop) (w : World) : Prop :=
  ∀ (c : Nat) (k : Conn), w.conns[c]? = some k → P w.nextWid k.p

section Generic
variable {g : Bool} {P : Nat → Proto → Prop} (hP : Pres g P)
include hP

theorem ginv_onConn (w : World) (c : Nat) (f : Ctx → PS → PS × Option Err) (act : Action) (m : Nat)
    (hm : w.nextWid ≤ m) (h : GInv P w)
    (hf : ∀ k : Conn, w.conns[c]? = some k → P w.nextWid k.p → P m (f (w.ctx c k) ⟨w.tbl, k.p⟩).1.p) :
    ∀ (c' : Nat) (k' : Conn), (w.onConn c f act).1.conns[c']? = some k' → P m k'.p := by
  intro c' k' hk'
  rcases onConn_get w c f act c' k' hk' with ⟨_, h1⟩ | ⟨_, k, h1, h2⟩
  · exact hP.mono (h c' k' h1) hm
  · subst h2
    exact hf k h1 (h c k h1)

theorem ginv_append (w : World) (h : GInv P w) (k0 : Conn) (hk0 : P w.nextWid k0.p) (w' : World)
    (hc : w'.conns = w.conns ++ [k0]) (hn : w'.nextWid = w.nextWid) : GInv P w' := by
  intro c k hk
  rw [hc] at hk; rw [hn]
  rw [List.getElem?_append] at hk
  split at hk
  · exact h c k hk
  · have : c - w.conns.length = 0 ∨ c - w.conns.length ≠ 0 := by omega
    rcases this with e | e
    · rw [e] at hk; simp at hk; subst hk; exact hk0
    · cases hh : c - w.conns.length with
      | zero => exact absurd hh e
      | succ j => rw [hh] at hk; simp at hk

omit hP in
theorem ginv_of_conns (w w' : World) (h : GInv P w) (hc : w'.conns = w.conns) (hn : w'.nextWid = w.nextWid) :
    GInv P w' := by
  intro c k hk; rw [hc] at hk; rw [hn]; exact h c k hk

theorem ginv_callback (w : World) (hq : w.q = Quirks.fixed) (h : GInv P w) (c : Nat)
    (f : Ctx → PS → PS × Option Err) (act : Action)
    (hf : ∀ (ctx : Ctx) (s : PS) (n : Nat), ctx.q = Quirks.fixed → P n s.p → P n (f ctx s).1.p) :
    GInv P (w.onConn c f act).1 := by
  intro c' k' hk'
  rw [onConn_nextWid]
  refine ginv_onConn hP w c f act w.nextWid (Nat.le_refl _) h ?_ c' k' hk'
  intro k _ hp
  exact hf (w.ctx c k) ⟨w.tbl, k.p⟩ _ hq hp

theorem step_ginv (w : World) (hq : w.q = Quirks.fixed) (h : GInv P w) (op : Op)
    (hL : g = true → LiveDistinct w [op]) : GInv P (step w op).1 := by
  cases op with
  | newConn => exact ginv_append hP w h {} (hP.init _) _ rfl rfl
  | dgram c tat evs tx =>
    simp only [step]
    split
    · split
      · exact h
      · exact ginv_callback hP w hq h c _ _ fun ctx s n hc => hP.dgram ctx s tat evs tx n hc
    · exact h
  | timer c tat evs tx =>
    simp only [step]
    split
    · split
      · exact h
      · exact ginv_callback hP w hq h c _ _ fun ctx s n hc => hP.timer ctx s tat evs tx n hc
    · exact h
  | transmit c tat tx => exact ginv_callback hP w hq h c _ _ fun ctx s n hc => hP.txop ctx s tat tx n hc
  | close c tat tx => exact ginv_callback hP w hq h c _ _ fun ctx s n hc => hP.close ctx s tat tx n hc
  | mkStream c sid => exact ginv_callback hP w hq h c _ _ fun ctx s n hc => hP.mkS ctx s.p sid n hc
  | cancelCaller c wd => exact ginv_callback hP w hq h c _ _ fun ctx s n _ => hP.cancel s.p wd n
  | write c sid d =>
    simp only [step]
    split
    · split
      · exact h
      · exact ginv_callback hP w hq h c _ _ fun ctx s n _ => hP.write s.p sid d n
    · exact h
  | eof c sid =>
    simp only [step]
    split
    · split
      · exact h
      · exact ginv_callback hP w hq h c _ _ fun ctx s n _ => hP.eof s.p sid n
    · exact h
  | waitConn c =>
    simp only [step, World.onProto]
    intro c' k' hk'
    exact ginv_onConn hP w c _ .none (w.nextWid + 1) (Nat.le_succ _) h
      (fun k _ hp => hP.waitConn _ k.p _ hq hp) c' k' hk'
  | waitClosed c =>
    simp only [step, World.onProto]
    intro c' k' hk'
    exact ginv_onConn hP w c _ .none (w.nextWid + 1) (Nat.le_succ _) h
      (fun k _ hp => hP.waitClosed k.p _ hp) c' k' hk'
  | ping c uid tat tx =>
    simp only [step]
    intro c' k' hk'
    exact ginv_onConn hP w c _ .none (w.nextWid + 1) (Nat.le_succ _) h
      (fun k hk hp => hP.ping _ ⟨w.tbl, k.p⟩ uid tat tx _ hq
        (fun hg => by have := (hL hg).1; simp only [hk] at this; exact this) hp) c' k' hk'
  | sdgram addr hdr rand tat evs tx =>
    simp only [step, sdgram]
    split
    · exact h
    · exact h
    · rename_i dcid initial big tok
      have hq0 : (w.markSeal tok).q = Quirks.fixed := hq
      have h0 : GInv P (w.markSeal tok) := ginv_of_conns w _ h rfl rfl
      have hdg := fun (ctx : Ctx) (s : PS) (n : Nat) (hc : ctx.q = Quirks.fixed) => hP.dgram ctx s tat evs tx n hc
      have hcreate : ∀ (o : CID) (r : Option CID) (act : Action),
          GInv P (((w.markSeal tok).addServerConn addr dcid rand o r).deliver (w.markSeal tok).conns.length
            tat evs tx act).1 := by
        intro o r act
        have hq1 : ((w.markSeal tok).addServerConn addr dcid rand o r).q = Quirks.fixed := hq
        exact ginv_callback hP _ hq1
          (ginv_append hP _ h0 { ss := true, p := { issuedG := serverIssued rand dcid r } } (hP.initS _ _) _ rfl rfl) _ _ _ hdg
      split
      · exact ginv_callback hP _ hq0 h0 _ _ _ hdg
      · split
        · split
          · split
            · exact ginv_of_conns _ _ h0 rfl rfl
            · split
              · exact h0
              · exact hcreate _ _ _
          · exact hcreate _ _ _
        · exact h0

end Generic

theorem step_q (w : World) (op : Op) : (step w op).1.q = w.q := by
  cases op <;> simp only [step, sdgram, World.onProto, World.deliver] <;> (repeat' split) <;>
    first | rfl | simp [onConn_q, World.markSeal, World.addServerConn]

theorem run_q (w : World) (ops : List Op) : (run w ops).q = w.q := by
  induction ops generalizing w with
  | nil => rfl
  | cons op ops ih => simp only [run]; rw [ih, step_q]

theorem run_ginv {g : Bool} {P : Nat → Proto → Prop} (hP : Pres g P) (w : World) (hq : w.q = Quirks.fixed)
    (h : GInv P w) (ops : List Op) (hL : g = true → LiveDistinct w ops) : GInv P (run w ops) := by
  induction ops generalizing w with
  | nil => exact h
  | cons op ops ih =>
    simp only [run]
    exact ih _ (by rw [step_q]; exact hq)
      (step_ginv hP w hq h op (fun hg => ⟨(hL hg).1, trivial⟩)) (fun hg => (hL hg).2)

theorem ginv_init (P : Nat → Proto → Prop) : GInv P ({} : World) := by
  intro c k hk; simp at hk

/-! ### instance: waiter accounting -/

/-- accounting holds for every connection whose uid monitor is silent -/
def WJ (n : Nat) (p : Proto) : Prop := p.vUid = false → WInv n p

theorem createStream_vUid (c : Ctx) (p : Proto) (sid : Nat) : (createStream c p sid).vUid = p.vUid := by
  simp only [createStream]; split <;> rfl

theorem presW : Pres false WJ where
  mono := fun h hnm hv => (h hv).mono hnm
  init := fun n _ => WInv.init n
  initS := fun n rand _ => by
    constructor <;> simp [Proto.pending, ids, Proto.termSeen, Proto.hsSeen, AL.keys]
  dgram := fun ctx s tat evs tx n hc h hv =>
    datagramReceived_winv ctx hc s tat evs tx (h (by rw [← datagramReceived_vUid ctx hc s tat evs tx]; exact hv))
  timer := fun ctx s tat evs tx n hc h hv =>
    handleTimer_winv ctx hc s tat evs tx (h (by rw [← handleTimer_vUid ctx hc s tat evs tx]; exact hv))
  txop := fun ctx s tat tx n hc h hv =>
    transmitOp_winv ctx hc s tat tx (h (by rw [← transmitOp_vUid ctx hc s tat tx]; exact hv))
  close := fun ctx s tat tx n hc h hv =>
    transmit_winv ctx hc s tat tx (h (by rw [← transmit_vUid ctx hc s tat tx]; exact hv))
  mkS := fun ctx p sid n _ h hv => by
    have hn := h (by rw [← createStream_vUid ctx p sid]; exact hv)
    simp only [createStream]; split <;> (apply hn.congr <;> simp [Proto.termSeen, Proto.hsSeen])
  cancel := fun p w n h hv => by
    revert hv
    simp only [cancelCaller]; split
    · intro hv; apply (h hv).congr <;> simp [Proto.termSeen, Proto.hsSeen]
    · exact h
  write := fun p sid d n h hv => by
    revert hv
    simp only [write]; split
    · simpa [WJ] using h
    · simp only [Option.getD_some, transmitSoon]
      split <;> (intro hv; apply (h hv).congr <;> simp [Proto.termSeen, Proto.hsSeen])
  eof := fun p sid n h hv => by
    revert hv
    simp only [writeEof]; split
    · simpa [WJ] using h
    · simpa [WJ] using h
    · simp only [Option.getD_some, transmitSoon]
      split <;> (intro hv; apply (h hv).congr <;> simp [Proto.termSeen, Proto.hsSeen])
  waitConn := fun ctx p n hc h hv =>
    waitConnected_winv ctx hc p (h (by rw [← waitConnected_vUid ctx p n]; exact hv))
  waitClosed := fun p n h hv => waitClosed_winv p (h (by rw [← waitClosed_vUid p n]; exact hv))
  ping := fun ctx s uid tat tx n hc _ h hv =>
    (ping_winv ctx hc s uid tat tx (h (ping_vUid_false ctx hc s n uid tat tx hv)) hv).2

/-! ### instance: timer handle and deferred transmit -/

/-- the armed timer is exactly the deadline last reported; a recorded transmit handle has its callback queued -/
def TJ (_ : Nat) (p : Proto) : Prop :=
  p.timer = p.timerAt ∧ (p.transmitTask = true → 1 ≤ p.pendingSoon)

theorem processEvent_tx (c : Ctx) (s : PS) (e : Bool × Ev) :
    (processEvent c s e).1.p.timer = s.p.timer ∧ (processEvent c s e).1.p.timerAt = s.p.timerAt ∧
    (processEvent c s e).1.p.transmitTask = s.p.transmitTask ∧ (processEvent c s e).1.p.pendingSoon = s.p.pendingSoon := by
  obtain ⟨note, ev⟩ := e
  cases ev <;> simp only [processEvent] <;> (repeat' split) <;>
    simp [observe_timer, observe_timerAt, observe_transmitTask, observe_pendingSoon]

theorem processEvents_tx (c : Ctx) (s : PS) (es : List (Bool × Ev)) :
    (processEvents c s es).1.p.timer = s.p.timer ∧ (processEvents c s es).1.p.timerAt = s.p.timerAt ∧
    (processEvents c s es).1.p.transmitTask = s.p.transmitTask ∧
    (processEvents c s es).1.p.pendingSoon = s.p.pendingSoon := by
  induction es generalizing s with
  | nil => simp [processEvents]
  | cons e es ih =>
    simp only [processEvents]
    have h1 := processEvent_tx c s e
    split
    · rename_i s' err heq; rw [heq] at h1; exact h1
    · rename_i s' heq; rw [heq] at h1
      have h2 := ih s'
      exact ⟨h2.1.trans h1.1, h2.2.1.trans h1.2.1, h2.2.2.1.trans h1.2.2.1, h2.2.2.2.trans h1.2.2.2⟩

theorem rearm_sync (p : Proto) (tat : Option Nat) (h : p.timer = p.timerAt) : (rearm p tat).timer = (rearm p tat).timerAt := by
  simp only [rearm]
  by_cases h1 : p.timerAt = tat
  · cases ht : tat <;> simp_all
  · cases ht : tat <;> cases hp : p.timer <;> simp_all

/-- `transmit()` from a state with synchronous timer: task cleared, `pendingSoon` untouched -/
theorem transmit_tj (c : Ctx) (hq : c.q = Quirks.fixed) (s : PS) (tat : Option Nat) (tx : List Ev)
    (h : s.p.timer = s.p.timerAt) :
    (transmit c s tat tx).1.p.timer = (transmit c s tat tx).1.p.timerAt ∧
    (transmit c s tat tx).1.p.transmitTask = false := by
  have hd : c.q.deferTxEvents = false := by rw [hq]; rfl
  simp only [transmit, hd, Bool.false_eq_true, if_false]
  have h1 := processEvents_tx c ({ s with p := { s.p with transmitTask := false } } : PS) (fresh tx)
  split
  · rename_i s' e heq; rw [heq] at h1
    exact ⟨by rw [h1.1, h1.2.1]; exact h, by rw [h1.2.2.1]⟩
  · rename_i s' heq; rw [heq] at h1
    refine ⟨rearm_sync _ _ (by rw [h1.1, h1.2.1]; exact h), ?_⟩
    simp only [rearm]; exact h1.2.2.1

theorem presT : Pres false TJ where
  mono := fun h _ => h
  init := fun _ => by simp [TJ]
  initS := fun _ _ => by simp [TJ]
  dgram := fun ctx s tat evs tx n hc h => by
    simp only [datagramReceived, queued_fixed ctx hc]
    have h1 := processEvents_tx ctx ({ s with p := { s.p with deferred := [] } } : PS) (fresh evs)
    split
    · rename_i s' e heq; rw [heq] at h1
      simp only [TJ] at h ⊢
      rw [h1.1, h1.2.1, h1.2.2.1, h1.2.2.2]; exact h
    · rename_i s' heq; rw [heq] at h1
      have h2 := transmit_tj ctx hc s' tat tx (by rw [h1.1, h1.2.1]; exact h.1)
      exact ⟨h2.1, by rw [h2.2]; simp⟩
  timer := fun ctx s tat evs tx n hc h => by
    simp only [handleTimer, queued_fixed ctx hc]
    have h1 := processEvents_tx ctx
      ({ s with p := { s.p with deferred := [], timer := none, timerAt := none } } : PS) (fresh evs)
    split
    · rename_i s' e heq; rw [heq] at h1
      simp only [TJ] at h ⊢
      rw [h1.1, h1.2.1, h1.2.2.1, h1.2.2.2]; exact ⟨rfl, h.2⟩
    · rename_i s' heq; rw [heq] at h1
      have h2 := transmit_tj ctx hc s' tat tx (by rw [h1.1, h1.2.1])
      exact ⟨h2.1, by rw [h2.2]; simp⟩
  txop := fun ctx s tat tx n hc h => by
    have h2 := transmit_tj ctx hc ({ s with p := { s.p with pendingSoon := s.p.pendingSoon - 1 } } : PS) tat tx h.1
    exact ⟨h2.1, by simp only [transmitOp]; rw [h2.2]; simp⟩
  close := fun ctx s tat tx n hc h => by
    have h2 := transmit_tj ctx hc s tat tx h.1
    exact ⟨h2.1, by rw [h2.2]; simp⟩
  mkS := fun ctx p sid n _ h => by
    simp only [createStream]; split <;> exact h
  cancel := fun p w n h => by
    simp only [cancelCaller]; split <;> exact h
  write := fun p sid d n h => by
    simp only [write]; split
    · simpa using h
    · simp only [Option.getD_some, transmitSoon]
      split
      · exact h
      · exact ⟨h.1, fun _ => Nat.le_add_left _ _⟩
  eof := fun p sid n h => by
    simp only [writeEof]; split
    · simpa using h
    · simpa using h
    · simp only [Option.getD_some, transmitSoon]
      split
      · exact h
      · exact ⟨h.1, fun _ => Nat.le_add_left _ _⟩
  waitConn := fun ctx p n _ h => by
    simp only [waitConnected]; (repeat' split) <;> exact h
  waitClosed := fun p n h => by
    simp only [waitClosed]; split <;> exact h
  ping := fun ctx s uid tat tx n hc _ h => by
    have hcc : ctx.q.noClosedCheck = false := by rw [hc]; rfl
    simp only [ping, hcc, Bool.false_eq_true, not_false_eq_true, true_and]
    split
    · exact h
    · constructor
      · exact (transmit_tj ctx hc _ tat tx (by exact h.1)).1
      · intro ht
        rw [(transmit_tj ctx hc _ tat tx (by exact h.1)).2] at ht
        exact absurd ht (by simp)

/-! ### instance: stream readers -/

@[simp] theorem isFin_data (sid s : Nat) (d : Bytes) (f : Bool) : isFin sid (.data s d f) = (s == sid && f) := rfl
@[simp] theorem isFin_terminated (sid : Nat) : isFin sid .terminated = false := rfl
@[simp] theorem isFin_handshake (sid : Nat) : isFin sid .handshake = false := rfl
@[simp] theorem isFin_pingAck (sid u : Nat) : isFin sid (.pingAck u) = false := rfl
@[simp] theorem isFin_issued (sid : Nat) (c : CID) : isFin sid (.issued c) = false := rfl
@[simp] theorem isFin_retired (sid : Nat) (c : CID) : isFin sid (.retired c) = false := rfl
@[simp] theorem isFin_other (sid : Nat) : isFin sid .other = false := rfl

theorem dataOf_append (sid : Nat) (a b : List Ev) : dataOf sid (a ++ b) = dataOf sid a ++ dataOf sid b := by
  induction a with
  | nil => simp [dataOf]
  | cons e rest ih =>
    cases e <;> simp only [List.cons_append, dataOf, ih]
    split <;> simp

theorem finSeen_append (p : Proto) (l : List Ev) (e : Ev) (sid : Nat) :
    ({ p with evLog := l ++ [e] } : Proto).finSeen sid = (l.any (isFin sid) || isFin sid e) := by
  simp [Proto.finSeen]

theorem observe_finSeen (c : Ctx) (s : PS) (note : Bool) (ev : Ev) (sid : Nat) :
    (observe c s note ev).finSeen sid = (s.p.finSeen sid || isFin sid ev) := by
  simp [Proto.finSeen, observe_evLog]

theorem observe_dataOf (c : Ctx) (s : PS) (note : Bool) (ev : Ev) (sid : Nat) :
    dataOf sid (observe c s note ev).evLog = dataOf sid s.p.evLog ++ dataOf sid [ev] := by
  rw [observe_evLog, dataOf_append]

theorem observe_vEv (c : Ctx) (s : PS) (note : Bool) (ev : Ev) :
    (observe c s note ev).vEv =
      (s.p.vEv || !(!s.p.termSeen && (match ev with | .data sid _ _ => !s.p.finSeen sid | _ => true))) := by
  unfold observe; cases note <;> cases ev <;> simp

/-- readers against the event log -/
structure RInv (p : Proto) : Prop where
  some_ : ∀ sid r, p.readers.get sid = some r →
    r.data = dataOf sid p.evLog ∧ r.eof = (p.finSeen sid || p.termSeen)
  none_ : ∀ sid, p.readers.get sid = none → dataOf sid p.evLog = [] ∧ p.finSeen sid = false

theorem RInv.congr {p p' : Proto} (h : RInv p) (h1 : p'.readers = p.readers)
    (h2 : ∀ sid, dataOf sid p'.evLog = dataOf sid p.evLog) (h3 : ∀ sid, p'.finSeen sid = p.finSeen sid)
    (h4 : p'.termSeen = p.termSeen) : RInv p' := by
  constructor
  · intro sid r hr; rw [h1] at hr; rw [h2, h3, h4]; exact h.some_ sid r hr
  · intro sid hr; rw [h1] at hr; rw [h2, h3]; exact h.none_ sid hr

theorem processEvent_vEv_false (c : Ctx) (s : PS) (e : Bool × Ev) (h : (processEvent c s e).1.p.vEv = false) :
    s.p.vEv = false ∧ s.p.termSeen = false ∧ (∀ sid d f, e.2 = .data sid d f → s.p.finSeen sid = false) := by
  obtain ⟨note, ev⟩ := e
  have key : (observe c s note ev).vEv = false := by
    revert h
    cases ev <;> simp only [processEvent] <;> (repeat' split) <;> simp
  rw [observe_vEv] at key
  cases ev <;> simp_all

theorem processEvent_vStream (c : Ctx) (s : PS) (e : Bool × Ev) : (processEvent c s e).1.p.vStream = s.p.vStream := by
  obtain ⟨note, ev⟩ := e
  cases ev <;> simp only [processEvent] <;> (repeat' split) <;> simp [observe_vStream]

macro "same_r" h:ident : tactic =>
  `(tactic| (apply RInv.congr $h <;>
      simp [observe_readers, Proto.finSeen, Proto.termSeen, observe_evLog, dataOf_append, dataOf]))

/-- one event keeps the reader invariant and never feeds a reader after EOF, as long as the
    event-order monitor stays silent -/
theorem processEvent_rinv (c : Ctx) (s : PS) (e : Bool × Ev) (h : RInv s.p)
    (hv : (processEvent c s e).1.p.vEv = false) :
    RInv (processEvent c s e).1.p ∧ (processEvent c s e).1.p.feedAfterEof = s.p.feedAfterEof := by
  obtain ⟨hv0, hterm, hfin⟩ := processEvent_vEv_false c s e hv
  obtain ⟨note, ev⟩ := e
  cases ev with
  | terminated =>
    refine ⟨?_, by simp only [processEvent]; (repeat' split) <;> simp [observe_feedAfterEof]⟩
    simp only [processEvent]
    constructor
    · intro sid r hr
      simp only [observe_readers] at hr
      have hm := AL.get_map_val (fun r : Reader => ({ r with eof := true } : Reader)) sid s.p.readers
      rw [hm] at hr
      cases hg : s.p.readers.get sid with
      | none => rw [hg] at hr; cases hr
      | some r0 =>
        rw [hg] at hr; simp at hr; subst hr
        have := h.some_ sid r0 hg
        simp [Proto.termSeen, Proto.finSeen, observe_evLog, dataOf_append, dataOf, this.1]
    · intro sid hr
      simp only [observe_readers] at hr
      have hm := AL.get_map_val (fun r : Reader => ({ r with eof := true } : Reader)) sid s.p.readers
      rw [hm] at hr
      cases hg : s.p.readers.get sid with
      | some r0 => rw [hg] at hr; cases hr
      | none =>
        have := h.none_ sid hg
        simp [Proto.finSeen, observe_evLog, dataOf_append, dataOf, this.1]
        simpa [Proto.finSeen] using this.2
  | data sid d fin =>
    have hf0 := hfin sid d fin rfl
    simp only [processEvent, observe_readers]
    cases hg : s.p.readers.get sid with
    | some r0 =>
      have hr0 := h.some_ sid r0 hg
      have heof : r0.eof = false := by rw [hr0.2, hf0, hterm]; rfl
      simp only [heof, Bool.false_eq_true, if_false]
      refine ⟨?_, by simp [observe_feedAfterEof]⟩
      constructor
      · intro sid' r hr
        simp only [AL.get_set, observe_readers] at hr
        by_cases e : sid' = sid
        · subst e
          simp only [if_true] at hr
          cases hr
          have hF := hf0; simp [Proto.finSeen] at hF
          have ht := hterm; simp [Proto.termSeen] at ht
          cases fin <;>
            simp [Proto.finSeen, Proto.termSeen, observe_evLog, dataOf_append, dataOf, hr0.1, heof, ht] <;>
            try assumption
        · simp only [e, if_false] at hr
          have := h.some_ sid' r hr
          have e' : ¬ sid = sid' := fun x => e x.symm
          have hb : (sid == sid') = false := by simpa using e'
          simp [Proto.finSeen, Proto.termSeen, observe_evLog, dataOf_append, dataOf, e', hb, this.1]
          simpa [Proto.finSeen, Proto.termSeen] using this.2
      · intro sid' hr
        simp only [AL.get_set, observe_readers] at hr
        by_cases e : sid' = sid
        · simp [e] at hr
        · simp only [e, if_false] at hr
          have := h.none_ sid' hr
          have e' : ¬ sid = sid' := fun x => e x.symm
          have hb : (sid == sid') = false := by simpa using e'
          simp [Proto.finSeen, observe_evLog, dataOf_append, dataOf, e', hb, this.1]
          simpa [Proto.finSeen] using this.2
    | none =>
      have hn0 := h.none_ sid hg
      simp only [Bool.false_eq_true, if_false]
      refine ⟨?_, by simp [observe_feedAfterEof]⟩
      constructor
      · intro sid' r hr
        simp only [AL.get_set, observe_readers] at hr
        by_cases e : sid' = sid
        · subst e
          simp only [if_true] at hr
          cases hr
          have ht := hterm; simp [Proto.termSeen] at ht
          have hf := hf0; simp [Proto.finSeen] at hf
          cases fin <;>
            simp [Proto.finSeen, Proto.termSeen, observe_evLog, dataOf_append, dataOf, hn0.1, ht] <;>
            try assumption
        · simp only [e, if_false] at hr
          have := h.some_ sid' r hr
          have e' : ¬ sid = sid' := fun x => e x.symm
          have hb : (sid == sid') = false := by simpa using e'
          simp [Proto.finSeen, Proto.termSeen, observe_evLog, dataOf_append, dataOf, e', hb, this.1]
          simpa [Proto.finSeen, Proto.termSeen] using this.2
      · intro sid' hr
        simp only [AL.get_set, observe_readers] at hr
        by_cases e : sid' = sid
        · simp [e] at hr
        · simp only [e, if_false] at hr
          have := h.none_ sid' hr
          have e' : ¬ sid = sid' := fun x => e x.symm
          have hb : (sid == sid') = false := by simpa using e'
          simp [Proto.finSeen, observe_evLog, dataOf_append, dataOf, e', hb, this.1]
          simpa [Proto.finSeen] using this.2
  | handshake =>
    refine ⟨?_, by simp only [processEvent]; (repeat' split) <;> simp [observe_feedAfterEof]⟩
    simp only [processEvent]
    split
    · split <;> same_r h
    · same_r h
  | pingAck uid =>
    refine ⟨?_, by simp only [processEvent]; (repeat' split) <;> simp [observe_feedAfterEof]⟩
    simp only [processEvent]
    split <;> same_r h
  | issued cid =>
    refine ⟨?_, by simp only [processEvent]; (repeat' split) <;> simp [observe_feedAfterEof]⟩
    simp only [processEvent]
    split <;> same_r h
  | retired cid =>
    refine ⟨?_, by simp only [processEvent]; (repeat' split) <;> simp [observe_feedAfterEof]⟩
    simp only [processEvent]
    (repeat' split) <;> same_r h
  | other =>
    refine ⟨?_, by simp only [processEvent]; (repeat' split) <;> simp [observe_feedAfterEof]⟩
    simp only [processEvent]
    same_r h

/-- the reader clause for one connection: content, EOF flag, and no feed after EOF -/
structure RS (p : Proto) : Prop where
  inv : RInv p
  clean : p.feedAfterEof = false

def RJ (_ : Nat) (p : Proto) : Prop := p.vEv = false → p.vStream = false → RS p

theorem processEvents_vEv_false (c : Ctx) (s : PS) (es : List (Bool × Ev))
    (h : (processEvents c s es).1.p.vEv = false) : s.p.vEv = false := by
  induction es generalizing s with
  | nil => simpa [processEvents] using h
  | cons e es ih =>
    simp only [processEvents] at h
    split at h
    · rename_i s' err heq
      have := (processEvent_vEv_false c s e (by rw [heq]; exact h)).1
      exact this
    · rename_i s' heq
      have h1 := ih s' h
      exact (processEvent_vEv_false c s e (by rw [heq]; exact h1)).1

theorem processEvents_vStream (c : Ctx) (s : PS) (es : List (Bool × Ev)) :
    (processEvents c s es).1.p.vStream = s.p.vStream := by
  induction es generalizing s with
  | nil => simp [processEvents]
  | cons e es ih =>
    simp only [processEvents]
    have h1 := processEvent_vStream c s e
    split
    · rename_i s' err heq; rw [heq] at h1; exact h1
    · rename_i s' heq; rw [heq] at h1; rw [ih s', h1]

theorem processEvents_rs (c : Ctx) (s : PS) (es : List (Bool × Ev)) (h : RS s.p)
    (hv : (processEvents c s es).1.p.vEv = false) : RS (processEvents c s es).1.p := by
  induction es generalizing s with
  | nil => simpa [processEvents] using h
  | cons e es ih =>
    simp only [processEvents] at hv ⊢
    cases heq : processEvent c s e with
    | mk s' oe =>
      cases oe with
      | some err =>
        simp only [heq] at hv ⊢
        have h1 := processEvent_rinv c s e h.inv (by rw [heq]; exact hv)
        rw [heq] at h1
        exact ⟨h1.1, by rw [h1.2]; exact h.clean⟩
      | none =>
        simp only [heq] at hv ⊢
        have hv1 := processEvents_vEv_false c s' es hv
        have h1 := processEvent_rinv c s e h.inv (by rw [heq]; exact hv1)
        rw [heq] at h1
        exact ih s' ⟨h1.1, by rw [h1.2]; exact h.clean⟩ hv

theorem RS.congr {p p' : Proto} (h : RS p) (h1 : p'.readers = p.readers) (h2 : p'.evLog = p.evLog)
    (h3 : p'.feedAfterEof = p.feedAfterEof) : RS p' := by
  refine ⟨h.inv.congr h1 (by simp [h2]) (by simp [Proto.finSeen, h2]) (by simp [Proto.termSeen, h2]), ?_⟩
  rw [h3]; exact h.clean

/-- `transmit()` under silent monitors -/
theorem transmit_rs (c : Ctx) (hq : c.q = Quirks.fixed) (s : PS) (tat : Option Nat) (tx : List Ev)
    (hv : (transmit c s tat tx).1.p.vEv = false) :
    s.p.vEv = false ∧ (transmit c s tat tx).1.p.vStream = s.p.vStream ∧ (RS s.p → RS (transmit c s tat tx).1.p) := by
  have hd : c.q.deferTxEvents = false := by rw [hq]; rfl
  simp only [transmit, hd, Bool.false_eq_true, if_false] at hv ⊢
  have hs := processEvents_vStream c ({ s with p := { s.p with transmitTask := false } } : PS) (fresh tx)
  split at hv
  · rename_i s' e heq
    simp only [heq]
    have hv' : (processEvents c ({ s with p := { s.p with transmitTask := false } } : PS) (fresh tx)).1.p.vEv = false := by
      rw [heq]; exact hv
    have hv0 := processEvents_vEv_false c _ _ hv'
    refine ⟨hv0, by rw [heq] at hs; exact hs, fun h => ?_⟩
    have := processEvents_rs c _ (fresh tx) (h.congr (p' := { s.p with transmitTask := false }) rfl rfl rfl) hv'
    rw [heq] at this; exact this
  · rename_i s' heq
    simp only [heq]
    have hv' : (processEvents c ({ s with p := { s.p with transmitTask := false } } : PS) (fresh tx)).1.p.vEv = false := by
      rw [heq]; simpa [rearm] using hv
    have hv0 := processEvents_vEv_false c _ _ hv'
    refine ⟨hv0, by rw [heq] at hs; simpa [rearm] using hs, fun h => ?_⟩
    have := processEvents_rs c _ (fresh tx) (h.congr (p' := { s.p with transmitTask := false }) rfl rfl rfl) hv'
    rw [heq] at this
    exact this.congr (by simp [rearm]) (by simp [rearm]) (by simp [rearm])

/-- the common tail of `datagram_received` / `_handle_timer`: process events, then transmit -/
theorem evs_transmit_rs (c : Ctx) (hq : c.q = Quirks.fixed) (s0 : PS) (tat : Option Nat) (evs tx : List Ev)
    (hv : (match processEvents c s0 (fresh evs) with
            | (s, some e) => (s, some e)
            | (s, none) => transmit c s tat tx).1.p.vEv = false) :
    s0.p.vEv = false ∧
    (match processEvents c s0 (fresh evs) with
      | (s, some e) => (s, some e)
      | (s, none) => transmit c s tat tx).1.p.vStream = s0.p.vStream ∧
    (RS s0.p → RS (match processEvents c s0 (fresh evs) with
      | (s, some e) => (s, some e)
      | (s, none) => transmit c s tat tx).1.p) := by
  have hs := processEvents_vStream c s0 (fresh evs)
  cases heq : processEvents c s0 (fresh evs) with
  | mk s' oe =>
    cases oe with
    | some err =>
      simp only [heq] at hv hs ⊢
      have hv' : (processEvents c s0 (fresh evs)).1.p.vEv = false := by rw [heq]; exact hv
      refine ⟨processEvents_vEv_false c s0 _ hv', hs, fun h => ?_⟩
      have := processEvents_rs c s0 (fresh evs) h hv'
      rw [heq] at this; exact this
    | none =>
      simp only [heq] at hv hs ⊢
      obtain ⟨t1, t2, t3⟩ := transmit_rs c hq s' tat tx hv
      have hv' : (processEvents c s0 (fresh evs)).1.p.vEv = false := by rw [heq]; exact t1
      refine ⟨processEvents_vEv_false c s0 _ hv', by rw [t2, hs], fun h => ?_⟩
      have := processEvents_rs c s0 (fresh evs) h hv'
      rw [heq] at this; exact t3 this

theorem RS.init (g : List CID) : RS ({ issuedG := g } : Proto) := by
  refine ⟨⟨?_, ?_⟩, rfl⟩
  · intro sid r hr; simp [AL.get] at hr
  · intro sid _; simp [dataOf, Proto.finSeen]

theorem presR : Pres false RJ where
  mono := fun h _ => h
  init := fun _ _ _ => RS.init []
  initS := fun _ g _ _ => RS.init g
  dgram := fun ctx s tat evs tx n hc h hv hs => by
    simp only [datagramReceived, queued_fixed ctx hc] at hv hs ⊢
    obtain ⟨a1, a2, a3⟩ := evs_transmit_rs ctx hc ({ s with p := { s.p with deferred := [] } } : PS) tat evs tx hv
    exact a3 ((h a1 (by rw [← a2]; exact hs)).congr rfl rfl rfl)
  timer := fun ctx s tat evs tx n hc h hv hs => by
    simp only [handleTimer, queued_fixed ctx hc] at hv hs ⊢
    obtain ⟨a1, a2, a3⟩ := evs_transmit_rs ctx hc
      ({ s with p := { s.p with deferred := [], timer := none, timerAt := none } } : PS) tat evs tx hv
    exact a3 ((h a1 (by rw [← a2]; exact hs)).congr rfl rfl rfl)
  txop := fun ctx s tat tx n hc h hv hs => by
    simp only [transmitOp] at hv hs ⊢
    obtain ⟨a1, a2, a3⟩ := transmit_rs ctx hc _ tat tx hv
    exact a3 ((h a1 (by rw [← a2]; exact hs)).congr rfl rfl rfl)
  close := fun ctx s tat tx n hc h hv hs => by
    obtain ⟨a1, a2, a3⟩ := transmit_rs ctx hc s tat tx hv
    exact a3 (h a1 (by rw [← a2]; exact hs))
  mkS := fun ctx p sid n hc h hv hs => by
    have hsq : ctx.q.sharedStreamId = false := by rw [hc]; rfl
    simp only [createStream, hsq, Bool.false_eq_true, if_false] at hv hs ⊢
    simp at hs
    obtain ⟨⟨hs1, hs2⟩, hs3⟩ := hs
    have hr := h hv hs1
    have hnone : p.readers.get sid = none := (AL.get_none_iff sid p.readers).2 (by simpa using hs2)
    have hn := hr.inv.none_ sid hnone
    refine ⟨⟨?_, ?_⟩, hr.clean⟩
    · intro sid' r hg
      simp only [AL.get_set] at hg
      by_cases e : sid' = sid
      · subst e
        simp only [if_true] at hg
        cases hg
        have h1 := hn.1
        have h2 := hn.2; simp [Proto.finSeen] at h2
        have ht := hs3; simp [Proto.termSeen] at ht
        simp [h1, Proto.finSeen, Proto.termSeen, ht]
        exact h2
      · simp only [e, if_false] at hg
        have := hr.inv.some_ sid' r hg
        simpa [Proto.finSeen, Proto.termSeen] using this
    · intro sid' hg
      simp only [AL.get_set] at hg
      by_cases e : sid' = sid
      · simp [e] at hg
      · simp only [e, if_false] at hg
        have := hr.inv.none_ sid' hg
        simpa [Proto.finSeen] using this
  cancel := fun p w n h => by
    simp only [cancelCaller]; split
    · intro hv hs; exact (h hv hs).congr rfl rfl rfl
    · exact h
  write := fun p sid d n h => by
    simp only [write]; split
    · simpa [RJ] using h
    · simp only [Option.getD_some, transmitSoon]
      split <;> (intro hv hs; exact (h hv hs).congr rfl rfl rfl)
  eof := fun p sid n h => by
    simp only [writeEof]; split
    · simpa [RJ] using h
    · simpa [RJ] using h
    · simp only [Option.getD_some, transmitSoon]
      split <;> (intro hv hs; exact (h hv hs).congr rfl rfl rfl)
  waitConn := fun ctx p n _ h => by
    simp only [waitConnected]; (repeat' split) <;> (intro hv hs; exact (h hv hs).congr rfl rfl rfl)
  waitClosed := fun p n h => by
    simp only [waitClosed]; split <;> (intro hv hs; exact (h hv hs).congr rfl rfl rfl)
  ping := fun ctx s uid tat tx n hc _ h hv hs => by
    have hcc : ctx.q.noClosedCheck = false := by rw [hc]; rfl
    simp only [ping, hcc, Bool.false_eq_true, not_false_eq_true, true_and] at hv hs ⊢
    by_cases hcl : s.p.closed = true
    · rw [if_pos hcl] at hv hs ⊢
      exact (h hv hs).congr rfl rfl rfl
    · rw [if_neg hcl] at hv hs ⊢
      obtain ⟨a1, a2, a3⟩ := transmit_rs ctx hc _ tat tx hv
      exact a3 ((h a1 (by rw [← a2]; exact hs)).congr rfl rfl rfl)

end AQ.Adapter
