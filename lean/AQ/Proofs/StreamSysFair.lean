/-
  Towards liveness of the one-stream model (C01): what the receiver holds
  (`Has`), honest acknowledgements, and a fuel-bounded fair schedule.
  Core Lean only.
-/
import AQ.Proofs.StreamSysLive

namespace AQ.StreamSys
open AQ AQ.Stream AQ.RangeSet

/-- offset `i` was delivered to the application or is held in the reassembly buffer -/
def Has (r : Recv) (i : Nat) : Prop := i < r.bufStart ∨ mem i r.ranges

theorem has_iff_abs {r : Recv} (hi : Inv r) (i : Nat) :
    Has r i ↔ (i < (abs r).delivered ∨ ((abs r).known i).isSome = true) := by
  unfold Has
  simp only [abs, knownOf]
  constructor
  · rintro (h | h)
    · exact Or.inl h
    · right
      rw [if_pos ((contains_iff_mem i r.ranges).2 h)]
      have h1 := hi.lo i h; have h2 := hi.hi i h
      rw [List.getElem?_eq_getElem (by omega)]; rfl
  · rintro (h | h)
    · exact Or.inl h
    · right
      by_cases hc : contains i r.ranges = true
      · exact (contains_iff_mem i r.ranges).1 hc
      · rw [if_neg hc] at h; cases h

/-- reference model: nothing held is lost, and every offset of an accepted frame is held afterwards -/
theorem specFrame_has {t t' : RSpec} {f : Frame} {ev : Option DataEv} (hs : specFrame t f = some (t', ev)) :
    (∀ i, (i < t.delivered ∨ (t.known i).isSome = true) → (i < t'.delivered ∨ (t'.known i).isSome = true)) ∧
    (∀ i, f.offset ≤ i → i < f.stop → (i < t'.delivered ∨ (t'.known i).isSome = true)) := by
  rw [specFrame_eq] at hs
  split at hs
  · cases hs
  · simp only [Option.some.injEq, Prod.mk.injEq] at hs
    obtain ⟨rfl, -⟩ := hs
    simp only []
    have hk : ∀ i, f.offset ≤ i → i < f.stop → t.delivered ≤ i → (specKnown1 t f i).isSome = true := by
      intro i h1 h2 h3
      unfold specKnown1
      rw [if_pos ⟨h3, h1, h2⟩]
      have : i - f.offset < f.data.length := by
        have : f.stop = f.offset + f.data.length := rfl
        omega
      rw [List.getElem?_eq_getElem this]; rfl
    constructor
    · intro i h
      by_cases hd : i < t.delivered + (specOut t f).length
      · exact Or.inl hd
      · right
        rw [if_neg hd]
        rcases h with h | h
        · omega
        · by_cases hin : t.delivered ≤ i ∧ f.offset ≤ i ∧ i < f.stop
          · exact hk i hin.2.1 hin.2.2 hin.1
          · unfold specKnown1; rw [if_neg hin]; exact h
    · intro i h1 h2
      by_cases hd : i < t.delivered + (specOut t f).length
      · exact Or.inl hd
      · right
        rw [if_neg hd]
        exact hk i h1 h2 (by omega)

theorem handleFrame_has {r r' : Recv} {f : Frame} {ev : Option DataEv} (hi : Inv r)
    (h : handleFrame r f = .ok (r', ev)) :
    (∀ i, Has r i → Has r' i) ∧ (∀ i, f.offset ≤ i → i < f.stop → Has r' i) := by
  have hr := handleFrame_refines f hi
  unfold FrameRefines at hr
  rw [h] at hr
  split at hr
  · rename_i heq _; cases heq
  · rename_i s'' ev'' t' ev' heq hs
    cases heq
    obtain ⟨k1, k2, -⟩ := hr
    obtain ⟨a1, a2⟩ := specFrame_has hs
    constructor
    · intro i hh
      rw [has_iff_abs k1, k2]
      exact a1 i ((has_iff_abs hi i).1 hh)
    · intro i h1 h2
      rw [has_iff_abs k1, k2]
      exact a2 i h1 h2
  · exact hr.elim

theorem handleReset_has {r r' : Recv} {z : Nat} (h : handleReset r z = .ok r') (i : Nat) : Has r' i ↔ Has r i := by
  unfold handleReset at h
  split at h
  · split at h
    · cases h
    · cases h; rfl
  · cases h; rfl

/-! ## Honest acknowledgements -/

/-- the contract of `okOp` plus ACK honesty: a frame is reported ACKED only if the
    receiving endpoint processed it (or had already discarded the stream) -/
def okOpH (s : Sys) (op : Op) : Prop :=
  okOp s op ∧ ∀ i, op = .ackFrame i →
    ∃ f, s.wire[i]? = some f ∧ (ROp.frame (OutFrame.toFrame f) ∈ s.recvOps ∨ s.recvGone = true)

def WFH (s : Sys) : List Op → Prop
  | [] => True
  | op :: rest => okOpH s op ∧ WFH (step s op).1 rest

instance (s : Sys) (op : Op) : Decidable (okOpH s op) := by
  unfold okOpH
  cases op with
  | ackFrame i =>
    cases h : s.wire[i]? with
    | none =>
      refine isFalse (fun hx => ?_)
      obtain ⟨f, hf, -⟩ := hx.2 i rfl
      rw [h] at hf; cases hf
    | some f =>
      refine decidable_of_iff
        (okOp s (.ackFrame i) ∧ (ROp.frame (OutFrame.toFrame f) ∈ s.recvOps ∨ s.recvGone = true)) ⟨?_, ?_⟩
      · rintro ⟨h1, h2⟩
        refine ⟨h1, fun j hj => ?_⟩
        injection hj with hj; subst hj
        exact ⟨f, h, h2⟩
      · rintro ⟨h1, h2⟩
        obtain ⟨g, hg, h3⟩ := h2 i rfl
        rw [h] at hg; injection hg with hg; subst hg
        exact ⟨h1, h3⟩
  | _ => exact decidable_of_iff (okOp s _) ⟨fun h => ⟨h, by intro i hi; cases hi⟩, fun h => h.1⟩

instance decWFH : (s : Sys) → (ops : List Op) → Decidable (WFH s ops)
  | _, [] => isTrue trivial
  | s, op :: rest =>
    have := decWFH (step s op).1 rest
    by unfold WFH; infer_instance

theorem WFH_WF {s : Sys} {ops : List Op} (h : WFH s ops) : WF s ops := by
  induction ops generalizing s with
  | nil => trivial
  | cons op rest ih => exact ⟨h.1.1, ih h.2⟩

structure HInv (s : Sys) : Prop where
  /-- every offset of a frame the receiver accepted is held by the receiver -/
  dh : ∀ f, ROp.frame f ∈ s.recvOps → ∀ i, f.offset ≤ i → i < f.stop → Has s.recv i
  /-- every frame reported ACKED was accepted by the receiver -/
  ah : s.recvGone = false → ∀ fr ∈ s.ghost.acked,
        ∃ f ∈ s.wire, f.fr = fr ∧ ROp.frame (OutFrame.toFrame f) ∈ s.recvOps

theorem hinv_init (sid : Nat) : HInv (init sid) := ⟨by simp [init], by simp [init]⟩

theorem step_acked (s : Sys) (op : Op) (h : ∀ i, op ≠ .ackFrame i) : (step s op).1.ghost.acked = s.ghost.acked := by
  cases op with
  | ackFrame i => exact absurd rfl (h i)
  | emit sp mo =>
    simp only [step]
    (repeat' split) <;> try rfl
    rename_i fr _ _; cases fr <;> rfl
  | _ => simp only [step] <;> (repeat' split) <;> simp [Ghost.onWrite, Ghost.onDelivery, Ghost.onResetDelivery]

theorem step_recvGone_false (s : Sys) (op : Op) (h : (step s op).1.recvGone = false) : s.recvGone = false := by
  cases hg : s.recvGone with
  | false => rfl
  | true =>
    have : (step s op).1.recvGone = true := by
      cases op <;> simp only [step] <;> (repeat' split) <;> simp_all
    rw [this] at h; cases h

theorem hinv_step {s : Sys} (hg : Good s) (h : HInv s) (op : Op) (ok : okOpH s op) : HInv (step s op).1 := by
  obtain ⟨⟨l1, hw1⟩, -⟩ := step_wire_mono s op
  have grow : ∀ fr, (∃ f ∈ s.wire, f.fr = fr ∧ ROp.frame (OutFrame.toFrame f) ∈ s.recvOps) →
      ∀ l, (∃ f ∈ (step s op).1.wire, f.fr = fr ∧ ROp.frame (OutFrame.toFrame f) ∈ s.recvOps ++ l) := by
    rintro fr ⟨f, hf, e, hm⟩ l
    exact ⟨f, by rw [hw1]; simp [hf], e, by simp [hm]⟩
  by_cases hd : ∃ i, op = .deliver i
  · obtain ⟨i, rfl⟩ := hd
    have hacc := step_acked s (.deliver i) (by intro j hj; cases hj)
    have hah : ∀ l, (step s (.deliver i)).1.recvGone = false → ∀ fr ∈ s.ghost.acked,
        ∃ f ∈ (step s (.deliver i)).1.wire, f.fr = fr ∧ ROp.frame (OutFrame.toFrame f) ∈ s.recvOps ++ l :=
      fun l hgn fr hfr => grow fr (h.ah (step_recvGone_false _ _ hgn) fr hfr) l
    rcases step_deliver s i with e | ⟨f, e', _, _, _, _, e⟩ | ⟨f, r', ev, hwi, _, _, hh, e⟩
    · rw [e]; exact h
    · refine ⟨by rw [e]; exact h.dh, ?_⟩
      intro hgn fr hfr
      rw [hacc] at hfr
      have := hah [] hgn fr hfr
      rw [e] at this ⊢; simpa using this
    · rw [hg.reach.q1, hg.reach.q3] at hh
      obtain ⟨ev0, hf, -⟩ := handleStreamFrame_ok hh
      obtain ⟨m1, m2⟩ := handleFrame_has hg.endi.inv hf
      refine ⟨?_, ?_⟩
      · rw [e]
        intro x hx j h1 h2
        simp only [List.mem_append, List.mem_singleton] at hx
        rcases hx with hx | hx
        · exact m1 j (h.dh x hx j h1 h2)
        · injection hx with hx; subst hx; exact m2 j h1 h2
      · intro hgn fr hfr
        rw [hacc] at hfr
        have := hah [ROp.frame (OutFrame.toFrame f)] hgn fr hfr
        rw [e] at this ⊢; exact this
  · by_cases hrs : ∃ j, op = .deliverReset j
    · obtain ⟨j, rfl⟩ := hrs
      have hacc := step_acked s (.deliverReset j) (by intro i hi; cases hi)
      rcases step_deliverReset s j with e | ⟨z, e', _, _, _, _, e⟩ | ⟨z, r', hwj, _, _, hh, e⟩
      · rw [e]; exact h
      · refine ⟨by rw [e]; exact h.dh, ?_⟩
        intro hgn fr hfr
        rw [hacc] at hfr
        have := grow fr (h.ah (step_recvGone_false _ _ hgn) fr hfr) []
        rw [e] at this ⊢; simpa using this
      · have hf := handleResetStreamFrame_ok hh
        refine ⟨?_, ?_⟩
        · rw [e]
          intro x hx k h1 h2
          simp only [List.mem_append, List.mem_singleton] at hx
          rcases hx with hx | hx
          · exact (handleReset_has hf k).2 (h.dh x hx k h1 h2)
          · cases hx
        · intro hgn fr hfr
          rw [hacc] at hfr
          have := grow fr (h.ah (step_recvGone_false _ _ hgn) fr hfr) [ROp.reset z]
          rw [e] at this ⊢; exact this
    · obtain ⟨e1, e2, -, -, -, -⟩ := step_send_side s op (fun i hx => hd ⟨i, hx⟩) (fun j hx => hrs ⟨j, hx⟩)
      refine ⟨by rw [e1, e2]; exact h.dh, ?_⟩
      intro hgn fr hfr
      have hgn' := step_recvGone_false _ _ hgn
      rw [e2]
      by_cases ha : ∃ i, op = .ackFrame i
      · obtain ⟨i, rfl⟩ := ha
        obtain ⟨f, hwf, hhon⟩ := ok.2 i rfl
        have hmem : ROp.frame (OutFrame.toFrame f) ∈ s.recvOps := by
          rcases hhon with h1 | h1
          · exact h1
          · rw [hgn'] at h1; cases h1
        have hfw : f ∈ (step s (.ackFrame i)).1.wire := by rw [hw1]; simp [List.mem_of_getElem? hwf]
        simp only [step, hwf] at hfr
        split at hfr
        · simp only [Ghost.onDelivery] at hfr
          split at hfr
          · simp only [List.mem_cons] at hfr
            rcases hfr with rfl | hfr
            · exact ⟨f, hfw, rfl, hmem⟩
            · have := grow fr (h.ah hgn' fr hfr) []; simpa using this
          · have := grow fr (h.ah hgn' fr hfr) []; simpa using this
        · have := grow fr (h.ah hgn' fr hfr) []; simpa using this
      · rw [step_acked s op (fun i hi => ha ⟨i, hi⟩)] at hfr
        have := grow fr (h.ah hgn' fr hfr) []; simpa using this

/-! ## Emitting a whole pending range -/

theorem subtract_head {r : Rg} {rest : List Rg} (hwf : RangeSet.WF (r :: rest)) :
    subtract r.start r.stop (r :: rest) = rest := by
  have h0 := wf_head hwf
  unfold subtract
  rw [if_neg (by omega), if_neg (by omega), if_pos ⟨Nat.le_refl _, Nat.le_refl _⟩]
  cases rest with
  | nil => rfl
  | cons r' rest' =>
    have : r.stop < r'.start := by
      have := hwf; simp only [RangeSet.WF] at this; exact this.2.1
    unfold subtract
    rw [if_pos (by omega)]

theorem capStop_full (r : Rg) (ms mo : Nat) (h1 : r.stop ≤ r.start + ms) (h2 : r.stop ≤ mo) :
    capStop r ms (some mo) = r.stop := by
  unfold capStop
  simp only []
  split <;> omega

theorem sizeUintVar_ok (v : Nat) (h : v < 2 ^ 62) : ∃ n, sizeUintVar v = .ok n ∧ n ≤ 8 := by
  unfold sizeUintVar
  split
  · exact ⟨1, rfl, by omega⟩
  · split
    · exact ⟨2, rfl, by omega⟩
    · split
      · exact ⟨4, rfl, by omega⟩
      · split
        · exact ⟨8, rfl, by omega⟩
        · rename_i h4; exfalso; apply h4; omega

theorem frameOverhead_ok (sid : Nat) (s : Send) (h1 : sid < 2 ^ 62) (h2 : nextOffset s < 2 ^ 62) :
    ∃ ov, frameOverhead sid s = .ok ov ∧ ov ≤ 19 := by
  obtain ⟨a, ha, ha'⟩ := sizeUintVar_ok sid h1
  obtain ⟨b, hb, hb'⟩ := sizeUintVar_ok (nextOffset s) h2
  by_cases hz : nextOffset s ≠ 0
  · refine ⟨3 + a + b, ?_, by omega⟩
    simp [frameOverhead, ha, hb, hz, bind, Except.bind, pure, Except.pure]
  · refine ⟨3 + a + 0, ?_, by omega⟩
    simp only [ne_eq, Decidable.not_not] at hz
    simp [frameOverhead, ha, hz, bind, Except.bind, pure, Except.pure]

/-- with room for the whole first pending range (and a cap above it) `emit`
    sends exactly that range -/
theorem emit_full {s : Sys} (h : Good s) (hr : s.ghost.reset = false) {r : Rg} {rest : List Rg}
    (hp : s.send.pending = r :: rest) {ov : Nat} (hov : frameOverhead s.streamId s.send = .ok ov)
    {space : Int} (hsp : ((ov + (r.stop - r.start) : Nat) : Int) ≤ space) {mo : Nat} (hmo : r.stop ≤ mo) :
    ∃ f s', f.offset = r.start ∧ f.offset + f.data.length = r.stop ∧ s'.pending = rest ∧
      (step s (.emit space mo)).1 = { s with send := s', ghost := s.ghost.onGet (some f), wire := s.wire ++ [f] } := by
  have hs := h.reach.snd.sinv
  have hg1 : s.send.resetPending = false := by
    cases hx : s.send.resetPending
    · rfl
    · have := hs.rpend hx; rw [hr] at this; cases this
  have hg2 : s.send.bufferIsEmpty = false := hs.flag hr (Or.inl (by rw [hp]; simp))
  have hh := hs.head_facts hr hp
  have hcap : capStop r (space - (ov : Int)).toNat (some mo) = r.stop :=
    capStop_full r _ mo (by omega) hmo
  rcases getFrame_cases hs hr (space - (ov : Int)).toNat (some mo) with
    ⟨hp', _, _⟩ | ⟨hp', _, _⟩ | ⟨r', rest', hp', hb, _⟩ | ⟨r', rest', hp', hb, e⟩
  · rw [hp] at hp'; cases hp'
  · rw [hp] at hp'; cases hp'
  · rw [hp] at hp'; injection hp' with e1 e2; subst e1; rw [hcap] at hb; omega
  · rw [hp] at hp'; injection hp' with e1 e2; subst e1; subst e2
    rw [hcap] at e
    have hl := (hs.slice_eq hr hp r.stop (by omega) (Nat.le_refl _)).2
    refine ⟨_, _, rfl, ?_, ?_, step_emit_ok h.reach.q2 hg1 hg2 hov (by omega) e⟩
    · simp only [hl]; omega
    · show subtract r.start r.stop s.send.pending = rest
      rw [hp]; exact subtract_head (by rw [← hp]; exact hs.wfP)

/-! ## A fuel-bounded fair schedule -/

/-- one fair round: serve the stream with room for everything written and a
    flow-control cap at the written length, then deliver the frame just emitted -/
def fairPair (s : Sys) : List Op :=
  [.emit ((20 + s.ghost.written.length : Nat) : Int) s.ghost.written.length, .deliver s.wire.length]

def fairOps : Nat → Sys → List Op
  | 0, _ => []
  | n + 1, s => fairPair s ++ fairOps n (run s (fairPair s))

theorem fairOps_length (n : Nat) (s : Sys) : (fairOps n s).length = 2 * n := by
  induction n generalizing s with
  | zero => rfl
  | succ n ih => simp [fairOps, fairPair, ih]; omega

/-- the loop invariant of the schedule -/
structure Fair (s : Sys) : Prop where
  good : Good s
  hon : HInv s
  nr : s.ghost.reset = false
  live : s.recvGone = false
  sid : s.streamId < 2 ^ 62
  len : s.ghost.written.length < 2 ^ 62
  /-- every written offset is held by the receiver or pending at the sender -/
  cov : ∀ i, i < s.ghost.written.length → Has s.recv i ∨ mem i s.send.pending

theorem fair_pair {s : Sys} (h : Fair s) {r : Rg} {rest : List Rg} (hp : s.send.pending = r :: rest) :
    WFH s (fairPair s) ∧ Fair (run s (fairPair s)) ∧ (run s (fairPair s)).send.pending = rest ∧
    (run s (fairPair s)).ghost.written = s.ghost.written := by
  have hs := h.good.reach.snd.sinv
  have hh := hs.head_facts h.nr hp
  have hno : nextOffset s.send = r.start := by simp [nextOffset, hp]
  obtain ⟨ov, hov, hle⟩ := frameOverhead_ok s.streamId s.send h.sid (by rw [hno]; have := h.len; omega)
  obtain ⟨f, sd, f1, f2, f3, e1⟩ := emit_full (space := ((20 + s.ghost.written.length : Nat) : Int))
    (mo := s.ghost.written.length) h.good h.nr hp hov (by omega) hh.2.2
  have ok1 : okOpH s (.emit ((20 + s.ghost.written.length : Nat) : Int) s.ghost.written.length) :=
    ⟨trivial, by intro i hi; cases hi⟩
  have hg1 := good_step h.good _ ok1.1
  have hh1 := hinv_step h.good h.hon _ ok1
  generalize hs1 : (step s (.emit ((20 + s.ghost.written.length : Nat) : Int) s.ghost.written.length)).1 = s1
    at e1 hg1 hh1
  have hwi : s1.wire[s.wire.length]? = some f := by rw [e1]; simp
  have hgn : s1.recvGone = false := by rw [e1]; exact h.live
  have ok2 : okOpH s1 (.deliver s.wire.length) := ⟨trivial, by intro i hi; cases hi⟩
  obtain ⟨r', ev, hsf, e2⟩ := step_deliver_ok hg1 hwi hgn
  obtain ⟨ev0, hf, -⟩ := handleStreamFrame_ok hsf
  obtain ⟨m1, m2⟩ := handleFrame_has hg1.endi.inv hf
  have hg2 := good_step hg1 _ ok2.1
  have hh2 := hinv_step hg1 hh1 _ ok2
  have hrun : run s (fairPair s) = (step s1 (.deliver s.wire.length)).1 := by
    simp only [fairPair, run, List.foldl, hs1]
  have hrecv1 : s1.recv = s.recv := by rw [e1]
  refine ⟨⟨ok1, by rw [hs1]; exact ⟨ok2, trivial⟩⟩, ?_, ?_, ?_⟩
  · rw [hrun]
    refine ⟨hg2, hh2, ?_, ?_, ?_, ?_, ?_⟩
    · rw [e2, e1]; exact h.nr
    · rw [e2, e1]; exact h.live
    · rw [e2, e1]; exact h.sid
    · rw [e2, e1]; exact h.len
    · intro i hi
      have hi' : i < s.ghost.written.length := by rw [e2, e1] at hi; exact hi
      rw [e2]
      show Has r' i ∨ mem i s1.send.pending
      rw [e1]
      show Has r' i ∨ mem i sd.pending
      rw [f3]
      rcases h.cov i hi' with hc | hc
      · left; apply m1; rw [hrecv1]; exact hc
      · rw [hp, mem_cons] at hc
        rcases hc with hc | hc
        · left; apply m2
          · show f.offset ≤ i; omega
          · show i < f.offset + f.data.length; omega
        · exact Or.inr hc
  · rw [hrun, e2, e1]; exact f3
  · rw [hrun, e2, e1]; rfl

theorem fair_run (n : Nat) {s : Sys} (h : Fair s) (hn : s.send.pending.length = n) :
    WFH s (fairOps n s) ∧ Fair (run s (fairOps n s)) ∧ (run s (fairOps n s)).send.pending = [] ∧
    (run s (fairOps n s)).ghost.written = s.ghost.written := by
  induction n generalizing s with
  | zero =>
    refine ⟨trivial, h, ?_, rfl⟩
    cases hp : s.send.pending with
    | nil => exact hp
    | cons r rest => rw [hp] at hn; simp at hn
  | succ n ih =>
    cases hp : s.send.pending with
    | nil => rw [hp] at hn; simp at hn
    | cons r rest =>
      obtain ⟨w1, f1, p1, g1⟩ := fair_pair h hp
      have hn' : (run s (fairPair s)).send.pending.length = n := by rw [p1]; rw [hp] at hn; simpa using hn
      obtain ⟨w2, f2, p2, g2⟩ := ih f1 hn'
      have hr : run s (fairOps (n + 1) s) = run (run s (fairPair s)) (fairOps n (run s (fairPair s))) := by
        simp only [fairOps]; exact run_append _ _ _
      refine ⟨?_, by rw [hr]; exact f2, by rw [hr]; exact p2, by rw [hr, g2, g1]⟩
      simp only [fairOps]
      have key : ∀ (xs ys : List Op) (t : Sys), WFH t xs → WFH (run t xs) ys → WFH t (xs ++ ys) := by
        intro xs
        induction xs with
        | nil => intro ys t _ h2; exact h2
        | cons x xs ihx => intro ys t h1 h2; exact ⟨h1.1, ihx ys _ h1.2 h2⟩
      exact key _ _ _ w1 w2

/-- when nothing is pending any more and every offset is covered, everything was delivered -/
theorem fair_done {s : Sys} (h : Fair s) (hp : s.send.pending = []) : s.deliveredBytes = s.ghost.written := by
  have hpre := good_prefix h.good
  have hge : s.ghost.written.length ≤ s.recv.bufStart := by
    by_cases hx : s.ghost.written.length ≤ s.recv.bufStart
    · exact hx
    · exfalso
      rcases h.cov s.recv.bufStart (by omega) with hc | hc
      · rcases hc with hc | hc
        · omega
        · have := h.good.endi.inv.lo _ hc; omega
      · rw [hp] at hc; simp at hc
  rw [hpre.1, List.take_of_length_le hge]

theorem hinv_run {s : Sys} (hg : Good s) (h : HInv s) (ops : List Op) (hw : WFH s ops) :
    Good (run s ops) ∧ HInv (run s ops) := by
  induction ops generalizing s with
  | nil => exact ⟨hg, h⟩
  | cons op rest ih => exact ih (good_step hg op hw.1.1) (hinv_step hg h op hw.1) hw.2

theorem WFH_append (t : Sys) (xs ys : List Op) (h1 : WFH t xs) (h2 : WFH (run t xs) ys) : WFH t (xs ++ ys) := by
  induction xs generalizing t with
  | nil => exact h2
  | cons x xs ih => exact ⟨h1.1, ih _ h1.2 h2⟩

theorem run_streamId (s : Sys) (ops : List Op) : (run s ops).streamId = s.streamId := by
  induction ops generalizing s with
  | nil => rfl
  | cons op rest ih => rw [run_cons, ih, (step_consts s op).2.2.1]

/-- the states from which the fair schedule works -/
theorem fair_of_reachable (sid : Nat) (ops : List Op) (hw : WFH (init sid) ops)
    (hr : (run (init sid) ops).ghost.reset = false) (hgone : (run (init sid) ops).recvGone = false)
    (hout : (run (init sid) ops).ghost.outstanding = [])
    (hid : sid < 2 ^ 62) (hlen : (run (init sid) ops).ghost.written.length < 2 ^ 62) :
    Fair (run (init sid) ops) := by
  obtain ⟨hg, hh⟩ := hinv_run (good_init sid) (hinv_init sid) ops hw
  refine ⟨hg, hh, hr, hgone, by rw [run_streamId]; exact hid, hlen, ?_⟩
  intro i hi
  rcases (hg.reach.snd.sinv.conservation hr).1 i hi with h1 | ⟨fr, h1, -⟩ | ⟨fr, h1, h2⟩
  · exact Or.inr h1
  · rw [hout] at h1; cases h1
  · left
    obtain ⟨f, -, rfl, hm⟩ := hh.ah hgone fr h1
    have hc := (Fr.cov_iff _ _).1 h2
    exact hh.dh _ hm i hc.1 hc.2

end AQ.StreamSys
