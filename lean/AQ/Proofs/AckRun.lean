/-
  Run-level theorems for C12: the monitors of AQ.Model.AckSpec never trip.
-/
import AQ.Model.AckSpec
import AQ.Proofs.Ack

namespace AQ.Ack
open AQ AQ.RangeSet AQ.Recovery

/-- facts about the time arithmetic the run theorems use (true of non-NaN doubles with a
    non-negative `delay` / `ε`; of rationals; of naturals) -/
structure TimeOk {F} (A : FArith F) : Prop extends OrderOk A where
  /-- `x ≤ y → x + e ≤ y + e` -/
  add_mono : ∀ x y e, A.lt y x = false → A.lt (A.add y e) (A.add x e) = false

theorem sinv_received {F} {s : Space F} (hi : SInv s) (pn : Nat) : SInv { s with received := pn :: s.received } :=
  { hi with sound := fun x hx => List.mem_cons_of_mem _ (hi.sound x hx) }

theorem deliverAll_inv {F} {s s' : Space F} {acked : List Int} (hi : SInv s) (he : deliverAll s acked = .ok s') :
    SInv s' ∧ s'.ackAt = s.ackAt ∧ s'.received = s.received ∧ s'.largestReceived = s.largestReceived
      ∧ s'.sentAcks = s.sentAcks ∧ s'.discarded = s.discarded ∧ s'.largestReceivedTime = s.largestReceivedTime := by
  induction acked generalizing s with
  | nil => simp [deliverAll] at he; cases he; exact ⟨hi, rfl, rfl, rfl, rfl, rfl, rfl⟩
  | cons h hs ih =>
    simp only [deliverAll, bind, Except.bind] at he
    cases h1 : onAckDelivery s h with
    | error e => simp [h1] at he
    | ok s1 =>
      simp only [h1] at he
      have ⟨a, b, c, d, e, f, g⟩ := ih (onAckDelivery_inv hi h1) he
      have ⟨f1, f2, f3, f4, f5, f6⟩ := onAckDelivery_fields h1
      exact ⟨a, by rw [b, f1], by rw [c, f2], by rw [d, f3], by rw [e, f4], by rw [f, f5], by rw [g, f6]⟩

theorem deliverAll_pending {F} {s s' : Space F} {acked : List Int} {pn : Nat} {a : F} (hi : SInv s)
    (hp : Pending s pn a) (hs : ∀ h ∈ acked, h ∈ s.sentAcks) (he : deliverAll s acked = .ok s') : Pending s' pn a := by
  induction acked generalizing s with
  | nil => simp [deliverAll] at he; cases he; exact hp
  | cons h hs' ih =>
    simp only [deliverAll, bind, Except.bind] at he
    cases h1 : onAckDelivery s h with
    | error e => simp [h1] at he
    | ok s1 =>
      simp only [h1] at he
      have hf := (onAckDelivery_fields h1).2.2.2.1
      exact ih (onAckDelivery_inv hi h1) (onAckDelivery_pending hi hp (hs h (by simp)) h1)
        (fun x hx => by rw [hf]; exact hs x (by simp [hx])) he

/-- what `rxPacket` does, case by case -/
theorem rxPacket_cases {F} (A : FArith F) (delay : F) {s s' : Space F} {pn : Nat} {ae : Bool} {now : F} {acc : Bool}
    {acked : List Int} {r : RxRes} (he : rxPacket A delay s pn ae now acc acked = .ok (s', r)) :
    (r = .duplicate ∧ s' = { s with received := pn :: s.received }) ∨
    (∃ s1, deliverAll { s with received := pn :: s.received } acked = .ok s1 ∧
      ((r = .closed ∧ s' = s1) ∨ (r = .recorded ∧ s' = record A delay s1 pn ae now))) := by
  unfold rxPacket at he
  simp only at he
  split at he
  · cases he; exact Or.inl ⟨rfl, rfl⟩
  · simp only [bind, Except.bind] at he
    cases hd : deliverAll { s with received := pn :: s.received } acked with
    | error e => simp [hd] at he
    | ok s1 =>
      simp only [hd] at he
      refine Or.inr ⟨s1, rfl, ?_⟩
      split at he
      · cases he; exact Or.inl ⟨rfl, rfl⟩
      · cases he; exact Or.inr ⟨rfl, rfl⟩

theorem rxPacket_inv {F} (A : FArith F) (delay : F) {s s' : Space F} {pn : Nat} {ae : Bool} {now : F} {acc : Bool}
    {acked : List Int} {r : RxRes} (hi : SInv s) (he : rxPacket A delay s pn ae now acc acked = .ok (s', r)) : SInv s' := by
  rcases rxPacket_cases A delay he with ⟨_, rfl⟩ | ⟨s1, hd, h⟩
  · exact sinv_received hi pn
  · have ⟨h1, _, hr, _⟩ := deliverAll_inv (sinv_received hi pn) hd
    rcases h with ⟨_, rfl⟩ | ⟨_, rfl⟩
    · exact h1
    · exact record_inv A delay pn ae now h1 (by rw [hr]; simp)

/-- every event keeps the per-space invariant -/
theorem sstep_inv {F} (A : FArith F) (delay : F) {s s' : Space F} {op : SOp F} {out : Out} (hi : SInv s)
    (he : sstep A delay s op = .ok (s', out)) : SInv s' := by
  cases op with
  | rx pn ae now acc acked =>
    simp only [sstep, bind, Except.bind] at he
    cases h : rxPacket A delay s pn ae now acc acked with
    | error e => simp [h] at he
    | ok p => obtain ⟨s1, r⟩ := p; simp only [h, pure, Except.pure] at he; cases he; exact rxPacket_inv A delay hi h
  | aoa h =>
    simp only [sstep, bind, Except.bind] at he
    cases h1 : onAckDelivery s h with
    | error e => simp [h1] at he
    | ok s1 => simp only [h1, pure, Except.pure] at he; cases he; exact onAckDelivery_inv hi h1
  | discard => simp only [sstep, pure, Except.pure] at he; cases he; exact discard_inv hi
  | txHs kv so af de ms =>
    simp only [sstep, bind, Except.bind] at he
    cases h : txHandshake s kv so af de ms with
    | error e => simp [h] at he
    | ok p => obtain ⟨s1, r⟩ := p; simp only [h, pure, Except.pure] at he; cases he; exact txHandshake_inv hi h
  | txApp now hc kv pw so af de ms =>
    simp only [sstep, bind, Except.bind] at he
    cases h : txApplication A s now hc kv pw so af de ms with
    | error e => simp [h] at he
    | ok p => obtain ⟨s1, r⟩ := p; simp only [h, pure, Except.pure] at he; cases he; exact txApplication_inv A hi h

end AQ.Ack

namespace AQ.Ack
open AQ AQ.RangeSet AQ.Recovery

/-- "every range fits": the frame `_write_ack_frame` would write reports the whole queue -/
def Fits {F} (s : Space F) (de : Nat) (ms : Option Int) : Prop :=
  ∀ vals n, pushAckFrame s.ackQueue de ms = .ok (vals, n) → n = s.ackQueue.length

/-- a sufficient, checkable condition: the varints of one range take at most 16 bytes, the
    fixed part at most 32 -/
def clockOf {F} (last : F) (op : SOp F) : F := match op.time with | some t => t | none => last

/-- the environment of the application-space run theorem, evaluated along the run:
    * the clock does not run backwards;
    * the caller honours the timer: while `ack_at = a` is armed no event happens later than `a + ε`;
    * (S) when an ACK is due the send call is possible (handshake complete, keys, builder room);
    * every range fits;  * ACK-of-ACK deliveries are for ACK frames that were sent -/
def envOp {F} (A : FArith F) (s : Space F) : SOp F → Prop
  | .txApp now hc kv _ so af de ms =>
    (ackDue A s now = true → hc = true ∧ kv = true ∧ so = true ∧ af = true) ∧ Fits s de ms
  | .txHs _ _ _ de ms => Fits s de ms
  | .aoa h => h ∈ s.sentAcks
  | .rx _ _ _ _ acked => ∀ h ∈ acked, h ∈ s.sentAcks
  | .discard => True

def EnvApp {F} (A : FArith F) (delay eps : F) : Space F → F → List (SOp F) → Prop
  | _, _, [] => True
  | s, last, op :: ops =>
    (∀ t, op.time = some t → A.lt t last = false ∧ ∀ a, s.ackAt = some a → A.lt (A.add a eps) t = false) ∧
    envOp A s op ∧
    (∀ s' out, sstep A delay s op = .ok (s', out) → EnvApp A delay eps s' (clockOf last op) ops)

/-- invariant relating the monitor's open obligations to the space -/
structure JApp {F} (A : FArith F) (delay : F) (s : Space F) (open_ : List (Obl F)) (last : F) : Prop where
  inv : SInv s
  pend : ∀ o ∈ open_, ∃ a, Pending s o.1 a ∧ A.lt o.2 a = false
  armed_at : ∀ a, s.ackAt = some a → ∃ t', a = A.add t' delay ∧ A.lt last t' = false

theorem covers_of {f : AckFrame} {pn : Nat} (h : ∃ lh ∈ wireRanges f.values, lh.1 ≤ (pn : Int) ∧ (pn : Int) ≤ lh.2) :
    covers f pn = true := by
  obtain ⟨lh, hm, h1, h2⟩ := h
  simp only [covers, List.any_eq_true, Bool.and_eq_true, decide_eq_true_eq]
  exact ⟨lh, hm, h1, h2⟩

theorem record_ackAt {F} (A : FArith F) (delay : F) (s : Space F) (pn : Nat) (ae : Bool) (now : F) :
    (record A delay s pn ae now).ackAt = s.ackAt ∨ (record A delay s pn ae now).ackAt = some (A.add now delay) := by
  unfold record
  by_cases hd : s.discarded = true
  · simp [hd]
  · by_cases hg : (pn : Int) > s.largestReceived <;> by_cases hc : (ae && s.ackAt.isNone) = true <;> simp [hd, hg, hc]

theorem writeAck_clears_all {F} {s s' : Space F} {de : Nat} {ms : Option Int} {f : AckFrame} (hi : SInv s)
    (hw : writeAck s de ms = .ok (s', f)) (hfit : Fits s de ms) :
    s'.ackAt = none ∧ ∀ pn, mem pn s.ackQueue → covers f pn = true := by
  obtain ⟨_, h1, _, _, vals, n, hpf, hv, hn⟩ := writeAck_inv hi hw
  refine ⟨h1, fun pn hm => covers_of ?_⟩
  rw [hv]
  exact pushAckFrame_complete _ _ _ _ _ hpf (hfit vals n hpf) pn hm

end AQ.Ack

namespace AQ.Ack
open AQ AQ.RangeSet AQ.Recovery

theorem pending_congr {F} {s s' : Space F} {pn : Nat} {a : F} (hp : Pending s pn a) (h1 : s'.ackAt = s.ackAt)
    (h2 : s'.ackQueue = s.ackQueue) (h3 : s'.discarded = s.discarded) (h4 : s'.sentAcks = s.sentAcks) : Pending s' pn a :=
  ⟨by rw [h1]; exact hp.armed, by rw [h2]; exact hp.queued, by rw [h3]; exact hp.live, by rw [h4]; exact hp.sent_lt⟩

/-- one event: the application-space monitor does not trip and the invariant is kept -/
theorem monApp_step {F} (A : FArith F) (hT : TimeOk A) (delay eps : F) {s s' : Space F} {op : SOp F} {out : Out}
    {open_ : List (Obl F)} {last : F} (hj : JApp A delay s open_ last)
    (hclock : ∀ t, op.time = some t → A.lt t last = false ∧ ∀ a, s.ackAt = some a → A.lt (A.add a eps) t = false)
    (henv : envOp A s op)
    (he : sstep A delay s op = .ok (s', out)) :
    ∃ open', monApp A delay eps s op out open_ = some open' ∧ JApp A delay s' open' (clockOf last op) := by
  have hi := hj.inv
  have hi' := sstep_inv A delay hi he
  -- nothing is late
  have hlate : isLate A eps op open_ = false := by
    unfold isLate
    cases ht : op.time with
    | none => rfl
    | some t =>
      simp only [List.any_eq_false]
      intro o ho
      obtain ⟨a, hp, hle⟩ := hj.pend o ho
      have h1 := (hclock t ht).2 a hp.armed
      have h2 := hT.add_mono a o.2 eps hle
      simpa using hT.ge_trans _ _ _ h2 h1
  -- the clock part of the invariant survives a clock advance
  have harm_keep : ∀ a, s.ackAt = some a → ∃ t', a = A.add t' delay ∧ A.lt (clockOf last op) t' = false := by
    intro a ha
    obtain ⟨t', h1, h2⟩ := hj.armed_at a ha
    refine ⟨t', h1, ?_⟩
    unfold clockOf
    cases ht : op.time with
    | none => exact h2
    | some t => exact hT.ge_trans _ _ _ (hclock t ht).1 h2
  simp only [monApp, hlate, Bool.false_eq_true, if_false]
  cases op with
  | discard =>
    simp only [sstep, pure, Except.pure] at he; cases he
    exact ⟨[], by simp [monAppCore], ⟨hi', fun o ho => (by cases ho), fun a ha => (by simp [discard] at ha)⟩⟩
  | aoa h =>
    simp only [sstep, bind, Except.bind] at he
    cases h1 : onAckDelivery s h with
    | error e => simp [h1] at he
    | ok s1 =>
      simp only [h1, pure, Except.pure] at he; cases he
      have hf := onAckDelivery_fields h1
      refine ⟨open_, by simp [monAppCore, opens], ⟨hi', ?_, ?_⟩⟩
      · intro o ho
        obtain ⟨a, hp, hle⟩ := hj.pend o ho
        exact ⟨a, onAckDelivery_pending hi hp henv h1, hle⟩
      · intro a ha; rw [hf.1] at ha; exact harm_keep a ha
  | rx pn ae now acc acked =>
    simp only [sstep, bind, Except.bind] at he
    cases h : rxPacket A delay s pn ae now acc acked with
    | error e => simp [h] at he
    | ok p =>
      obtain ⟨s1, r⟩ := p
      simp only [h, pure, Except.pure] at he; cases he
      have hnow : ∀ a, s.ackAt = some a → A.lt (A.add now delay) a = false := by
        intro a ha
        obtain ⟨t', h1, h2⟩ := harm_keep a ha
        rw [h1]; exact hT.add_mono t' now delay (by simpa [clockOf, SOp.time] using h2)
      rcases rxPacket_cases A delay h with ⟨hr, hs⟩ | ⟨s2, hd, hcase⟩
      · subst hr hs
        refine ⟨open_, by simp [monAppCore, opens], ⟨hi', ?_, fun a ha => harm_keep a ha⟩⟩
        intro o ho
        obtain ⟨a, hp, hle⟩ := hj.pend o ho
        exact ⟨a, pending_congr hp rfl rfl rfl rfl, hle⟩
      · have hi0 := sinv_received hi pn
        have ⟨hi2, f1, _, f3, f4, f5, _⟩ := deliverAll_inv hi0 hd
        have hpend2 : ∀ o ∈ open_, ∃ a, Pending s2 o.1 a ∧ A.lt o.2 a = false := by
          intro o ho
          obtain ⟨a, hp, hle⟩ := hj.pend o ho
          exact ⟨a, deliverAll_pending hi0 (pending_congr hp rfl rfl rfl rfl) henv hd, hle⟩
        rcases hcase with ⟨hr, hs⟩ | ⟨hr, hs⟩
        · subst hr hs
          refine ⟨[], by simp [monAppCore], ⟨hi', fun o ho => (by cases ho), ?_⟩⟩
          intro a ha; rw [f1] at ha; exact harm_keep a ha
        · subst hr hs
          have harm' : ∀ a, (record A delay s2 pn ae now).ackAt = some a →
              ∃ t', a = A.add t' delay ∧ A.lt (clockOf last (SOp.rx pn ae now acc acked)) t' = false := by
            intro a ha
            rcases record_ackAt A delay s2 pn ae now with h1 | h1
            · rw [h1, f1] at ha; exact harm_keep a ha
            · rw [h1] at ha; cases ha
              exact ⟨now, rfl, by simp [clockOf, SOp.time, hT.irrefl]⟩
          have hkeep : ∀ o ∈ open_, ∃ a, Pending (record A delay s2 pn ae now) o.1 a ∧ A.lt o.2 a = false := by
            intro o ho
            obtain ⟨a, hp, hle⟩ := hpend2 o ho
            exact ⟨a, record_pending_keep A delay pn ae now hi2 hp, hle⟩
          cases hop : opens s (SOp.rx pn ae now acc acked) (Out.rx RxRes.recorded) with
          | none => exact ⟨open_, by simp [monAppCore, hop], ⟨hi', hkeep, harm'⟩⟩
          | some q =>
            -- a new obligation: ack-eliciting, highest number so far, space alive
            have hq : ae = true ∧ (pn : Int) > s.largestReceived ∧ s.discarded = false ∧ q = (pn, now) := by
              cases ae <;> simp [opens] at hop
              obtain ⟨⟨h1, h2⟩, h3⟩ := hop
              exact ⟨rfl, h1, h2, h3.symm⟩
            obtain ⟨hae, hnew, hlive, rfl⟩ := hq
            subst hae
            obtain ⟨a, hp, hor, _⟩ := record_pending_new A delay pn now hi2 (by rw [f3]; exact hnew) (by rw [f5]; exact hlive)
            refine ⟨open_ ++ [(pn, A.add now delay)], by simp [monAppCore, hop], ⟨hi', ?_, harm'⟩⟩
            intro o ho
            rcases List.mem_append.mp ho with ho | ho
            · exact hkeep o ho
            · simp only [List.mem_singleton] at ho; subst ho
              refine ⟨a, hp, ?_⟩
              rcases hor with rfl | hor
              · exact hT.irrefl _
              · rw [f1] at hor; exact hnow a hor
  | txHs kv so af de ms =>
    simp only [sstep, bind, Except.bind] at he
    cases h : txHandshake s kv so af de ms with
    | error e => simp [h] at he
    | ok p =>
      obtain ⟨s1, r⟩ := p
      simp only [h, pure, Except.pure] at he; cases he
      rcases txHandshake_cases h with ⟨rfl, hr⟩ | ⟨f, hw, rfl⟩
      · refine ⟨open_, ?_, ⟨hi', hj.pend, harm_keep⟩⟩
        rcases hr with ⟨rfl, _⟩ | rfl | ⟨rfl, _⟩ <;> rfl
      · have ⟨hnone, hcov⟩ := writeAck_clears_all hi hw henv
        refine ⟨open_.filter fun o => !covers f o.1, by simp [monAppCore], ⟨hi', ?_, fun a ha => (by rw [hnone] at ha; cases ha)⟩⟩
        intro o ho
        obtain ⟨ho1, ho2⟩ := List.mem_filter.mp ho
        obtain ⟨a, hp, _⟩ := hj.pend o ho1
        simp [hcov o.1 hp.queued] at ho2
  | txApp now hc kv pw so af de ms =>
    simp only [sstep, bind, Except.bind] at he
    cases h : txApplication A s now hc kv pw so af de ms with
    | error e => simp [h] at he
    | ok p =>
      obtain ⟨s1, r⟩ := p
      simp only [h, pure, Except.pure] at he; cases he
      rcases txApplication_cases A h with ⟨rfl, hr⟩ | ⟨f, hw, rfl⟩
      · refine ⟨open_, ?_, ⟨hi', hj.pend, harm_keep⟩⟩
        rcases hr with rfl | rfl | rfl <;> rfl
      · have ⟨hnone, hcov⟩ := writeAck_clears_all hi hw henv.2
        refine ⟨open_.filter fun o => !covers f o.1, by simp [monAppCore], ⟨hi', ?_, fun a ha => (by rw [hnone] at ha; cases ha)⟩⟩
        intro o ho
        obtain ⟨ho1, ho2⟩ := List.mem_filter.mp ho
        obtain ⟨a, hp, _⟩ := hj.pend o ho1
        simp [hcov o.1 hp.queued] at ho2

end AQ.Ack

namespace AQ.Ack
open AQ AQ.RangeSet AQ.Recovery

/-- the application-space monitor never trips on a run whose environment is `EnvApp` -/
theorem app_run_ok {F} (A : FArith F) (hT : TimeOk A) (delay eps : F) (ops : List (SOp F)) :
    ∀ (s : Space F) (open_ : List (Obl F)) (last : F), JApp A delay s open_ last → EnvApp A delay eps s last ops →
      runMon A delay (monApp A delay eps) s open_ ops ≠ .ok none := by
  induction ops with
  | nil => intro s o l _ _; simp [runMon]
  | cons op ops ih =>
    intro s o l hj henv
    obtain ⟨hclock, hop, hnext⟩ := henv
    simp only [runMon]
    cases hs : sstep A delay s op with
    | error e => simp
    | ok p =>
      obtain ⟨s', out⟩ := p
      obtain ⟨o', hm, hj'⟩ := monApp_step A hT delay eps hj hclock hop hs
      simp only [hm]
      exact ih s' o' _ hj' (hnext s' out hs)

/-- environment of the Initial / Handshake run theorem: every range fits, ACK-of-ACK
    deliveries are for ACK frames that were sent, and `_write_application` is not called for
    these spaces (it only serves the application space) -/
def envOpHs {F} (s : Space F) : SOp F → Prop
  | .txApp _ _ _ _ _ _ _ _ => False
  | .txHs _ _ _ de ms => Fits s de ms
  | .aoa h => h ∈ s.sentAcks
  | .rx _ _ _ _ acked => ∀ h ∈ acked, h ∈ s.sentAcks
  | .discard => True

def EnvHs {F} (A : FArith F) (delay : F) : Space F → List (SOp F) → Prop
  | _, [] => True
  | s, op :: ops => envOpHs s op ∧ ∀ s' out, sstep A delay s op = .ok (s', out) → EnvHs A delay s' ops

structure JHs {F} (s : Space F) (open_ : List Nat) : Prop where
  inv : SInv s
  pend : ∀ pn ∈ open_, ∃ a, Pending s pn a

theorem monHs_step {F} (A : FArith F) (delay : F) {s s' : Space F} {op : SOp F} {out : Out} {open_ : List Nat}
    (hj : JHs s open_) (henv : envOpHs s op) (he : sstep A delay s op = .ok (s', out)) :
    ∃ open', monHs s op out open_ = some open' ∧ JHs s' open' := by
  have hi := hj.inv
  have hi' := sstep_inv A delay hi he
  cases op with
  | txApp now hc kv pw so af de ms => exact absurd henv (by simp [envOpHs])
  | discard =>
    simp only [sstep, pure, Except.pure] at he; cases he
    exact ⟨[], rfl, ⟨hi', fun o ho => (by cases ho)⟩⟩
  | aoa h =>
    simp only [sstep, bind, Except.bind] at he
    cases h1 : onAckDelivery s h with
    | error e => simp [h1] at he
    | ok s1 =>
      simp only [h1, pure, Except.pure] at he; cases he
      refine ⟨open_, rfl, ⟨hi', ?_⟩⟩
      intro pn ho
      obtain ⟨a, hp⟩ := hj.pend pn ho
      exact ⟨a, onAckDelivery_pending hi hp henv h1⟩
  | rx pn ae now acc acked =>
    simp only [sstep, bind, Except.bind] at he
    cases h : rxPacket A delay s pn ae now acc acked with
    | error e => simp [h] at he
    | ok p =>
      obtain ⟨s1, r⟩ := p
      simp only [h, pure, Except.pure] at he; cases he
      rcases rxPacket_cases A delay h with ⟨hr, hs⟩ | ⟨s2, hd, hcase⟩
      · subst hr hs
        refine ⟨open_, by simp [monHs, opens], ⟨hi', ?_⟩⟩
        intro o ho
        obtain ⟨a, hp⟩ := hj.pend o ho
        exact ⟨a, pending_congr hp rfl rfl rfl rfl⟩
      · have hi0 := sinv_received hi pn
        have ⟨hi2, f1, _, f3, f4, f5, _⟩ := deliverAll_inv hi0 hd
        have hpend2 : ∀ o ∈ open_, ∃ a, Pending s2 o a := by
          intro o ho
          obtain ⟨a, hp⟩ := hj.pend o ho
          exact ⟨a, deliverAll_pending hi0 (pending_congr hp rfl rfl rfl rfl) henv hd⟩
        rcases hcase with ⟨hr, hs⟩ | ⟨hr, hs⟩
        · subst hr hs
          exact ⟨[], rfl, ⟨hi', fun o ho => (by cases ho)⟩⟩
        · subst hr hs
          have hkeep : ∀ o ∈ open_, ∃ a, Pending (record A delay s2 pn ae now) o a := by
            intro o ho
            obtain ⟨a, hp⟩ := hpend2 o ho
            exact ⟨a, record_pending_keep A delay pn ae now hi2 hp⟩
          cases hop : opens s (SOp.rx pn ae now acc acked) (Out.rx RxRes.recorded) with
          | none => exact ⟨open_, by simp [monHs, hop], ⟨hi', hkeep⟩⟩
          | some q =>
            have hq : ae = true ∧ (pn : Int) > s.largestReceived ∧ s.discarded = false ∧ q = (pn, now) := by
              cases ae <;> simp [opens] at hop
              obtain ⟨⟨h1, h2⟩, h3⟩ := hop
              exact ⟨rfl, h1, h2, h3.symm⟩
            obtain ⟨hae, hnew, hlive, rfl⟩ := hq
            subst hae
            obtain ⟨a, hp, _, _⟩ := record_pending_new A delay pn now hi2 (by rw [f3]; exact hnew) (by rw [f5]; exact hlive)
            refine ⟨open_ ++ [pn], by simp [monHs, hop], ⟨hi', ?_⟩⟩
            intro o ho
            rcases List.mem_append.mp ho with ho | ho
            · exact hkeep o ho
            · simp only [List.mem_singleton] at ho; subst ho; exact ⟨a, hp⟩
  | txHs kv so af de ms =>
    simp only [sstep, bind, Except.bind] at he
    cases h : txHandshake s kv so af de ms with
    | error e => simp [h] at he
    | ok p =>
      obtain ⟨s1, r⟩ := p
      simp only [h, pure, Except.pure] at he; cases he
      rcases txHandshake_cases h with ⟨rfl, hr⟩ | ⟨f, hw, rfl⟩
      · rcases hr with ⟨rfl, _⟩ | rfl | ⟨rfl, hnone⟩
        · exact ⟨open_, rfl, ⟨hi', hj.pend⟩⟩
        · exact ⟨open_, rfl, ⟨hi', hj.pend⟩⟩
        · -- a packet without ACK is only started when no ack timer is armed: nothing is open
          have hempty : open_ = [] := by
            cases open_ with
            | nil => rfl
            | cons o os =>
              obtain ⟨a, hp⟩ := hj.pend o (by simp)
              simp [hp.armed] at hnone
          subst hempty
          exact ⟨[], rfl, ⟨hi', fun o ho => (by cases ho)⟩⟩
      · have ⟨_, hcov⟩ := writeAck_clears_all hi hw henv
        have hall : open_.all (covers f) = true := by
          simp only [List.all_eq_true]
          intro o ho
          obtain ⟨a, hp⟩ := hj.pend o ho
          exact hcov o hp.queued
        exact ⟨[], by simp [monHs, hall], ⟨hi', fun o ho => (by cases ho)⟩⟩

theorem hs_run_ok {F} (A : FArith F) (delay : F) (ops : List (SOp F)) :
    ∀ (s : Space F) (open_ : List Nat), JHs s open_ → EnvHs A delay s ops →
      runMon A delay monHs s open_ ops ≠ .ok none := by
  induction ops with
  | nil => intro s o _ _; simp [runMon]
  | cons op ops ih =>
    intro s o hj henv
    obtain ⟨hop, hnext⟩ := henv
    simp only [runMon]
    cases hs : sstep A delay s op with
    | error e => simp
    | ok p =>
      obtain ⟨s', out⟩ := p
      obtain ⟨o', hm, hj'⟩ := monHs_step A delay hj hop hs
      simp only [hm]
      exact ih s' o' hj' (hnext s' out hs)

end AQ.Ack

namespace AQ.Ack
open AQ AQ.RangeSet AQ.Recovery

/-- every ACK frame emitted anywhere in a run only names packet numbers that authenticated
    in the space BEFORE the frame was written -/
def FramesSound {F} (A : FArith F) (delay : F) : Space F → List (SOp F) → Prop
  | _, [] => True
  | s, op :: ops => ∀ s' out, sstep A delay s op = .ok (s', out) →
      (∀ f, out = .tx (.ack f) → ∀ lh ∈ wireRanges f.values, ∀ x : Int, lh.1 ≤ x → x ≤ lh.2 →
        0 ≤ x ∧ x.toNat ∈ s.received) ∧ FramesSound A delay s' ops

theorem frames_sound_run {F} (A : FArith F) (delay : F) (ops : List (SOp F)) :
    ∀ s : Space F, SInv s → FramesSound A delay s ops := by
  induction ops with
  | nil => intro _ _; trivial
  | cons op ops ih =>
    intro s hi s' out he
    refine ⟨?_, ih s' (sstep_inv A delay hi he)⟩
    intro f hf lh hlh x h1 h2
    subst hf
    have hw : ∃ de ms, writeAck s de ms = .ok (s', f) := by
      cases op with
      | txHs kv so af de ms =>
        simp only [sstep, bind, Except.bind] at he
        cases h : txHandshake s kv so af de ms with
        | error e => simp [h] at he
        | ok p =>
          obtain ⟨s1, r⟩ := p
          simp only [h, pure, Except.pure] at he
          cases he
          rcases txHandshake_cases h with ⟨_, hr⟩ | ⟨f', hw, hf'⟩
          · rcases hr with ⟨hr, _⟩ | hr | ⟨hr, _⟩ <;> cases hr
          · cases hf'; exact ⟨de, ms, hw⟩
      | txApp now hc kv pw so af de ms =>
        simp only [sstep, bind, Except.bind] at he
        cases h : txApplication A s now hc kv pw so af de ms with
        | error e => simp [h] at he
        | ok p =>
          obtain ⟨s1, r⟩ := p
          simp only [h, pure, Except.pure] at he
          cases he
          rcases txApplication_cases A h with ⟨_, hr⟩ | ⟨f', hw, hf'⟩
          · rcases hr with hr | hr | hr <;> cases hr
          · cases hf'; exact ⟨de, ms, hw⟩
      | rx pn ae now acc acked =>
        simp only [sstep, bind, Except.bind] at he
        cases h : rxPacket A delay s pn ae now acc acked with
        | error e => simp [h] at he
        | ok p => simp only [h, pure, Except.pure] at he; cases he
      | aoa h =>
        simp only [sstep, bind, Except.bind] at he
        cases h1 : onAckDelivery s h with
        | error e => simp [h1] at he
        | ok s1 => simp only [h1, pure, Except.pure] at he; cases he
      | discard => simp only [sstep, pure, Except.pure] at he; cases he
    obtain ⟨de, ms, hw⟩ := hw
    obtain ⟨_, _, _, _, vals, n, hp, hv, _⟩ := writeAck_inv hi hw
    rw [hv] at hlh
    have ⟨a, b⟩ := pushAckFrame_sound _ _ _ _ _ hp lh hlh x h1 h2
    exact ⟨a, hi.sound _ b⟩

/-- what an ACK-of-ACK delivery for the frame with handler argument `h` removes: exactly the
    queued numbers ≤ h -/
theorem aoa_prunes_exactly {F} {s s' : Space F} {h : Int} (hi : SInv s) (he : onAckDelivery s h = .ok s') (x : Nat) :
    (mem x s.ackQueue ∧ ¬ mem x s'.ackQueue) ↔ (mem x s.ackQueue ∧ (x : Int) ≤ h) := by
  have := onAckDelivery_mem hi he x
  constructor
  · intro ⟨a, b⟩; refine ⟨a, ?_⟩
    by_cases hx : h < (x : Int)
    · exact absurd (this.mpr ⟨a, hx⟩) b
    · omega
  · intro ⟨a, b⟩; exact ⟨a, fun hm => by have := (this.mp hm).2; omega⟩

theorem sizeUintVar_le (v : Nat) : Builder.sizeUintVar v ≤ 8 := by
  unfold Builder.sizeUintVar; split <;> (try split) <;> (try split) <;> omega

theorem fitOlder_all (m size start : Int) (older : List Rg) (h : size + 16 * older.length ≤ m) :
    fitOlder m size start older = older.length := by
  induction older generalizing size start with
  | nil => simp [fitOlder]
  | cons r rest ih =>
    simp only [fitOlder, List.length_cons]
    have h1 := sizeUintVar_le (start - ↑r.stop - 1).toNat
    have h2 := sizeUintVar_le (r.stop - r.start - 1)
    simp only [List.length_cons] at h
    rw [if_neg (by push_cast at h ⊢; omega), ih _ _ (by push_cast at h ⊢; omega)]
    omega

/-- "every range fits" follows from a bound on the number of ranges: 32 bytes for the fixed
    part and 16 per further range (a fresh 1200-byte 1-RTT packet leaves 1171: 72 ranges) -/
theorem fits_of_few_ranges {F} (s : Space F) (de : Nat) (m : Int) (h : 32 + 16 * ((s.ackQueue.length : Int) - 1) ≤ m) :
    Fits s de (some m) := by
  intro vals n hp
  obtain ⟨r, older, k, hrev, hn, hk, _, _⟩ := pushAckFrame_wire _ _ _ _ _ hp
  have hlen : s.ackQueue.length = older.length + 1 := by
    have := congrArg List.length hrev; simpa using this
  unfold pushAckFrame at hp
  rw [hrev] at hp
  simp only at hp
  split at hp
  · cases hp
    simp only [ackCount]
    have h1 := sizeUintVar_le (r.stop - 1)
    have h2 := sizeUintVar_le de
    have h3 := sizeUintVar_le older.length
    have h4 := sizeUintVar_le (r.stop - 1 - r.start)
    rw [fitOlder_all _ _ _ _ (by rw [hlen] at h; push_cast at h ⊢; omega)]
    omega
  · cases hp

theorem fits_none {F} (s : Space F) (de : Nat) : Fits s de none := by
  intro vals n hp
  obtain ⟨r, older, k, hrev, hn, _, _, hall⟩ := pushAckFrame_wire _ _ _ _ _ hp
  have hlen : s.ackQueue.length = older.length + 1 := by
    have := congrArg List.length hrev; simpa using this
  rw [hn, hall rfl, hlen]

end AQ.Ack
