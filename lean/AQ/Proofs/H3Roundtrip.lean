/-
  Round trip of the framing layer (C14): the varint law for the local codec,
  "the frame loop consumes one frame written by encode_frame", and
  send_headers + send_data received in one delivery.
-/
import AQ.Proofs.H3Merge
namespace AQ.H3

theorem beBytes_length (n v : Nat) : (beBytes n v).length = n := by
  induction n with
  | zero => rfl
  | succ k ih => simp [beBytes, ih]

theorem toNat_ofNat_lt (n : Nat) (h : n < 256) : (UInt8.ofNat n).toNat = n := by
  simp [Nat.mod_eq_of_lt h]

theorem beNat_beBytes (n v acc : Nat) : beNat acc (beBytes n v) = acc * 256 ^ n + v % 256 ^ n := by
  induction n generalizing acc with
  | zero => simp [beBytes, beNat, Nat.mod_one]
  | succ k ih =>
    simp only [beBytes, beNat]
    rw [ih, toNat_ofNat_lt _ (Nat.mod_lt _ (by decide))]
    rw [Nat.mod_pow_succ (x := v) (b := 256) (k := k)]
    rw [Nat.pow_succ]
    rw [Nat.add_mul, Nat.mul_assoc, Nat.mul_comm 256 (256 ^ k), Nat.mul_comm (v / 256 ^ k % 256) (256 ^ k)]
    omega

theorem pullVarint_enc_aux (v k marker : Nat) (r : Bytes) (hk : v < 64 * 256 ^ k)
    (hm : marker = 0 ∨ marker = 64 ∨ marker = 128 ∨ marker = 192)
    (hlen : varintLen (UInt8.ofNat (v / 256 ^ k + marker)) = k + 1) :
    pullVarint (UInt8.ofNat (v / 256 ^ k + marker) :: beBytes k v ++ r) = some (v, r) := by
  have hq : v / 256 ^ k < 64 := by
    rw [Nat.div_lt_iff_lt_mul (Nat.pow_pos (by decide))]; exact hk
  have hb : v / 256 ^ k + marker < 256 := by
    generalize v / 256 ^ k = c at hq ⊢
    rcases hm with rfl | rfl | rfl | rfl <;> omega
  simp only [pullVarint, List.cons_append, hlen, Nat.add_sub_cancel, List.length_append, beBytes_length]
  have : ¬ (k + r.length < k) := by omega
  simp only [this, ↓reduceIte]
  rw [List.take_left' (beBytes_length k v), List.drop_left' (beBytes_length k v)]
  rw [toNat_ofNat_lt _ hb, beNat_beBytes]
  have hmod : (v / 256 ^ k + marker) % 64 = v / 256 ^ k := by
    generalize v / 256 ^ k = c at hq ⊢
    rcases hm with rfl | rfl | rfl | rfl <;> omega
  rw [hmod, Nat.mul_comm, Nat.div_add_mod]

/-- the varint law for the local codec: `pull_uint_var(push_uint_var(v) ++ r) = (v, r)` -/
theorem varint_law (v : Nat) (bs r : Bytes) (h : encVarint v = some bs) : pullVarint (bs ++ r) = some (v, r) := by
  unfold encVarint at h
  split at h
  · rename_i h6
    cases h
    have := pullVarint_enc_aux v 0 0 r (by simpa using h6) (.inl rfl)
      (by simp only [Nat.pow_zero, Nat.div_one, Nat.add_zero]
          unfold varintLen; rw [toNat_ofNat_lt _ (by omega)]
          have : v / 64 = 0 := by omega
          simp [this])
    simpa [beBytes] using this
  · split at h
    · rename_i h6 h14
      cases h
      have := pullVarint_enc_aux v 1 64 r (by simp; omega) (.inr (.inl rfl))
        (by unfold varintLen
            have hq : v / 256 ^ 1 < 64 := by simp; omega
            rw [toNat_ofNat_lt _ (by omega)]
            have : (v / 256 ^ 1 + 64) / 64 = 1 := by omega
            simp [this])
      simpa using this
    · split at h
      · rename_i h6 h14 h30
        cases h
        have := pullVarint_enc_aux v 3 128 r (by simp; omega) (.inr (.inr (.inl rfl)))
          (by unfold varintLen
              have hq : v / 256 ^ 3 < 64 := by simp; omega
              rw [toNat_ofNat_lt _ (by omega)]
              have : (v / 256 ^ 3 + 128) / 64 = 2 := by omega
              simp [this])
        simpa using this
      · split at h
        · rename_i h6 h14 h30 h62
          cases h
          have := pullVarint_enc_aux v 7 192 r (by simp; omega) (.inr (.inr (.inr rfl)))
            (by unfold varintLen
                have hq : v / 256 ^ 7 < 64 := by simp; omega
                rw [toNat_ofNat_lt _ (by omega)]
                have : (v / 256 ^ 7 + 192) / 64 = 3 := by omega
                simp [this])
          simpa using this
        · simp at h
end AQ.H3

namespace AQ.H3
variable {σ : Type} (o : Oracle σ) (cfg : Cfg)

/-- the varint law (C17): decoding what `push_uint_var` wrote gives the value back -/
def VarintLaw : Prop := ∀ v bs r, encVarint v = some bs → pullVarint (bs ++ r) = some (v, r)

/-- the loop consumes one frame written by `encode_frame` -/
theorem reqLoop_oneFrame (hv : VarintLaw) (ea : Bool) (fuel : Nat) (s : Stream) (q : σ) (t : Nat) (d f r' : Bytes)
    (hf : encodeFrame t d = some f) (ht : t ≠ 0x41) (hfs : s.frameSize = none) :
    reqLoop o cfg ea (fuel + 1) s q (f ++ r') =
      match handleFrame o cfg (some t) d s.p q (s.receivingEnded && r'.isEmpty) with
      | .error e => .error e
      | .ok (.blocked q1 pp) =>
        .ok (.brk { s with frameSize := none, frameType := none, blocked := true,
                           blockedFrameSize := some d.length, blockedPush := pp } q1 r' [])
      | .ok (.done p2 q2 ev) =>
        match reqLoop o cfg ea fuel { s with frameSize := none, frameType := none, p := p2 } q2 r' with
        | .error e => .error e
        | .ok res => .ok (res.prepend ev) := by
  unfold encodeFrame at hf
  cases h1 : encVarint t with
  | none => simp [h1] at hf
  | some bt =>
    cases h2 : encVarint d.length with
    | none => simp [h1, h2] at hf
    | some bl =>
      simp [h1, h2] at hf
      subst hf
      have e1 : pullVarint (bt ++ (bl ++ (d ++ r'))) = some (t, bl ++ (d ++ r')) := hv t bt _ h1
      have e2 : pullVarint (bl ++ (d ++ r')) = some (d.length, d ++ r') := hv _ bl _ h2
      have hne : bt ++ (bl ++ (d ++ r')) ≠ [] := by
        intro h; rw [h] at e1; simp [pullVarint] at e1
      rw [reqLoop_succ]
      simp only [List.append_assoc, hne, ↓reduceIte]
      have hfh : frameHeader ea s (bt ++ (bl ++ (d ++ r'))) =
          .go { s with frameType := some t, frameSize := some d.length } (d ++ r') := by
        simp [frameHeader, hfs, e1, e2, ht]
      rw [hfh]
      dsimp only
      unfold bodyLoop
      rw [frameBody_full o cfg _ q (d ++ r') d.length rfl (by simp)]
      simp only [List.take_left', List.drop_left']
      cases handleFrame o cfg (some t) d s.p q (s.receivingEnded && r'.isEmpty) with
      | error e => rfl
      | ok fr => cases fr <;> rfl
end AQ.H3

namespace AQ.H3
variable {σ : Type} (o : Oracle σ) (cfg : Cfg)

theorem checkCL_ok (p : PState) (h : p.expectedCL = none ∨ p.expectedCL = some p.contentLength) :
    checkCL p = .ok () := by
  unfold checkCL
  rcases h with h | h <;> simp [h]

theorem encodeFrame_ne_nil {t : Nat} {d f : Bytes} (h : encodeFrame t d = some f) : f ≠ [] := by
  unfold encodeFrame at h
  cases h1 : encVarint t with
  | none => simp [h1] at h
  | some bt =>
    cases h2 : encVarint d.length with
    | none => simp [h1, h2] at h
    | some bl =>
      simp [h1, h2] at h
      subst h
      have : bt ≠ [] := by
        intro hb; subst hb
        unfold encVarint at h1
        repeat' (split at h1)
        all_goals simp at h1
      simp [this]

/-- `send_headers(hs)` then `send_data(d, end_stream=True)` on one endpoint, received in ONE
    delivery on a fresh stream of the other: exactly one header block `hs`, body `d`, ended —
    given that QPACK decodes the block to `hs` and the validator accepts it. -/
theorem recv_headers_data (hv : VarintLaw) (hlog : cfg.logging = false) {s : Stream} (hs : Fresh s)
    (hst : s.p.recvState = .initial) (hecl : s.p.expectedCL = none) (hcl0 : s.p.contentLength = 0)
    (q q1 q2 : σ) (blk d fH fD : Bytes) (hdrs : Headers) (cl : Option Nat)
    (hfH : encodeFrame 1 blk = some fH) (hfD : encodeFrame 0 d = some fD)
    (hdec : o.decode q s.p.streamId blk = (.headers hdrs, q1))
    (hval : o.validate q1 (if cfg.isClient then .response else .request) hdrs = (.ok cl, q2))
    (hclv : cl = none ∨ cl = some d.length) :
    ∃ s' evs, recvReq o cfg s q (fH ++ fD) true = .ok (s', q2, evs) ∧
      normOf s.p.streamId evs =
        { headers := [(hdrs, s.p.pushId)], body := d, pushes := [], wt := [], wtSession := none,
          datagrams := [], ended := true } := by
  have hfDne := encodeFrame_ne_nil hfD
  have hfHne := encodeFrame_ne_nil hfH
  rw [recvReq_entry o cfg s q (fH ++ fD) true hs.blocked hs.sessionId hs.receivingEnded
    (by intro sz _ hz; rw [hs.frameSize] at hz; cases hz) (by rw [hs.buffer]; simp [hfHne])]
  rw [hs.buffer, hs.eta]
  simp only [List.nil_append]
  have hlen : (fH ++ fD).length = (fH.length + fD.length - 1) + 1 := by
    have : fH.length ≠ 0 := fun h => hfHne (List.length_eq_zero_iff.mp h)
    simp; omega
  rw [hlen]
  rw [reqLoop_oneFrame o cfg hv true _ (withRE true s) q 1 blk fH fD hfH (by decide) hs.frameSize]
  have hemp : fD.isEmpty = false := by cases fD with | nil => exact absurd rfl hfDne | cons _ _ => rfl
  simp only [withRE, hemp, Bool.and_false]
  rw [handleFrame_headers]
  simp only [hst, reduceCtorEq, ↓reduceIte, hdec]
  unfold finishHeaders
  simp only [hst, ↓reduceIte, hval, Bool.false_eq_true, logStep, hlog]
  have hf2 : fH.length + fD.length - 1 = (fH.length + fD.length - 2) + 1 := by
    have : fH.length ≠ 0 := fun h => hfHne (List.length_eq_zero_iff.mp h)
    have : fD.length ≠ 0 := fun h => hfDne (List.length_eq_zero_iff.mp h)
    omega
  rw [hf2]
  have hfD' : fD = fD ++ [] := by simp
  rw [hfD']
  rw [reqLoop_oneFrame o cfg hv true _ _ q2 0 d fD [] hfD (by decide) rfl]
  simp only [List.isEmpty_nil, Bool.and_true]
  rw [handleFrame_data]
  have hrs : (setExpectedCL s.p cl).recvState = .initial := by
    unfold setExpectedCL; rw [if_pos hst]; cases cl <;> exact hst
  simp only [hrs, ↓reduceIte, ne_eq, not_true_eq_false, reduceCtorEq, not_false_eq_true, true_or]
  rw [checkCL_ok _ (by
    unfold setExpectedCL
    rw [if_pos hst]
    rcases hclv with rfl | rfl
    · left; exact hecl
    · right; simp [hcl0])]
  simp only [reqLoop_nil, prepend_brk, List.append_nil]
  simp only [loopPost, Option.isSome_none, ne_eq, not_true_eq_false, Bool.false_eq_true, or_self,
    and_false, ↓reduceIte]
  refine ⟨_, _, rfl, ?_⟩
  have h1 : (setExpectedCL s.p cl).streamId = s.p.streamId := setExpectedCL_streamId _ _
  have h2 : (setExpectedCL s.p cl).pushId = s.p.pushId := setExpectedCL_pushId _ _
  simp [normOf, normEv, Norm.append, Norm.empty, orFirst, h1, h2]
end AQ.H3
