/-
  Frame codec: encode → decode for every frame type against the RFC 9000 §19
  encoder, the library's writers against that encoder, and decode → re-encode.
-/
import AQ.Proofs.Codec
import AQ.Proofs.CodecAck
import AQ.Proofs.CodecHeader
import AQ.Proofs.CodecErr

namespace AQ.Frame
open AQ AQ.Codec

local notation "P62" => (4611686018427387904 : Nat)

/-- what follows a frame must not be swallowed by it: a PADDING run ends at the
    first non-zero byte, frames without a length extend to the end of the packet -/
def RestOK : Frame → Bytes → Prop
  | .padding _, r => r.head? ≠ some 0
  | .stream _ _ _ _ _ false, r => r = []
  | .datagram _ false, r => r = []
  | _, _ => True

/-- field ranges of a frame that can be on the wire -/
def FrameOK : Frame → Prop
  | .padding _ => True
  | .ping => True
  | .ack rs delay ecn =>
    DescOK rs.reverse ∧ delay < P62 ∧
      (match ecn with | none => True | some (a, b, c) => a < P62 ∧ b < P62 ∧ c < P62)
  | .resetStream sid err final => sid < P62 ∧ err < P62 ∧ final < P62
  | .stopSending sid err => sid < P62 ∧ err < P62
  | .crypto offset data => offset < P62 ∧ offset + data.length ≤ UINT_VAR_MAX
  | .newToken token => token.length < P62
  | .stream sid offset data _ hasOff _ =>
    sid < P62 ∧ offset < P62 ∧ offset + data.length ≤ UINT_VAR_MAX ∧ (hasOff = false → offset = 0)
  | .maxData v => v < P62
  | .maxStreamData sid v => sid < P62 ∧ v < P62
  | .maxStreams _ v => v < P62
  | .dataBlocked v => v < P62
  | .streamDataBlocked sid v => sid < P62 ∧ v < P62
  | .streamsBlocked _ v => v < P62
  | .newConnectionId seq rpt cid token => seq < P62 ∧ rpt < P62 ∧ cid.length < 256 ∧ token.length = 16
  | .retireConnectionId seq => seq < P62
  | .pathChallenge d => d.length = 8
  | .pathResponse d => d.length = 8
  | .transportClose err ft reason => err < P62 ∧ ft < P62 ∧ reason.length < P62
  | .applicationClose err reason => err < P62 ∧ reason.length < P62
  | .handshakeDone => True
  | .datagram d hasLen => d.length < (if hasLen then P62 else 9223372036854775808)

/-- Length field of CRYPTO/STREAM: shortest, or 2 bytes as aioquic writes it -/
def lenBytes (two : Bool) (n : Nat) : Bytes := if two then be2 (n + 16384) else encV n

def LenOK (two : Bool) (n : Nat) : Prop := two = true → n < 16384

def streamType (fin hasOff hasLen : Bool) : Nat :=
  0x08 + (if hasOff then 4 else 0) + (if hasLen then 2 else 0) + (if fin then 1 else 0)

/-- canonical bytes of a frame (`two` = 2-byte Length fields).  Equal to the RFC
    encoder `CodecSpec.encFrameW` (`reenc_eq_spec`); stated with `encV` so that
    ACK frames with negative ranges (which the decoder accepts) are covered. -/
def reenc (two : Bool) : Frame → Bytes
  | .padding more => zeros (more + 1)
  | .ping => encV 0x01
  | .ack rs delay none => encV 0x02 ++ ackBytesDesc delay rs.reverse
  | .ack rs delay (some (a, b, c)) => encV 0x03 ++ (ackBytesDesc delay rs.reverse ++ (encV a ++ (encV b ++ encV c)))
  | .resetStream sid err final => encV 0x04 ++ (encV sid ++ (encV err ++ encV final))
  | .stopSending sid err => encV 0x05 ++ (encV sid ++ encV err)
  | .crypto offset data => encV 0x06 ++ (encV offset ++ (lenBytes two data.length ++ data))
  | .newToken token => encV 0x07 ++ (encV token.length ++ token)
  | .stream sid offset data fin hasOff hasLen =>
    encV (streamType fin hasOff hasLen) ++ (encV sid ++ ((if hasOff then encV offset else []) ++
      ((if hasLen then lenBytes two data.length else []) ++ data)))
  | .maxData v => encV 0x10 ++ encV v
  | .maxStreamData sid v => encV 0x11 ++ (encV sid ++ encV v)
  | .maxStreams uni v => encV (if uni then 0x13 else 0x12) ++ encV v
  | .dataBlocked v => encV 0x14 ++ encV v
  | .streamDataBlocked sid v => encV 0x15 ++ (encV sid ++ encV v)
  | .streamsBlocked uni v => encV (if uni then 0x17 else 0x16) ++ encV v
  | .newConnectionId seq rpt cid token => encV 0x18 ++ (encV seq ++ (encV rpt ++ (byte cid.length :: (cid ++ token))))
  | .retireConnectionId seq => encV 0x19 ++ encV seq
  | .pathChallenge d => encV 0x1a ++ d
  | .pathResponse d => encV 0x1b ++ d
  | .transportClose err ft reason => encV 0x1c ++ (encV err ++ (encV ft ++ (encV reason.length ++ reason)))
  | .applicationClose err reason => encV 0x1d ++ (encV err ++ (encV reason.length ++ reason))
  | .handshakeDone => encV 0x1e
  | .datagram d hasLen => encV (if hasLen then 0x31 else 0x30) ++ ((if hasLen then encV d.length else []) ++ d)

/-- the Length fields of the frame obey `LenOK` -/
def FrameLenOK (two : Bool) : Frame → Prop
  | .crypto _ data => LenOK two data.length
  | .stream _ _ data _ _ true => LenOK two data.length
  | _ => True

/-! ### reading the type and the body -/

theorem pullFrame_type (t : Nat) (ht : t < P62) (x : Bytes) :
    pullFrame (encV t ++ x) =
      match pullFrameBody t x with
      | .ok r => .ok r
      | .error .bufferRead => .error frameEncodingError
      | .error e => .error e := by
  unfold pullFrame
  rw [varint_roundtrip t x ht]
  rfl

theorem pullUintVar_lenBytes (two : Bool) (n : Nat) (x : Bytes) (hn : n < P62) (h : LenOK two n) :
    pullUintVar (lenBytes two n ++ x) = .ok (n, x) := by
  unfold lenBytes
  cases two with
  | true => simp only [if_true]; exact pullUintVar_be2 n x (h rfl)
  | false => simp only [Bool.false_eq_true, if_false]; exact varint_roundtrip n x hn

theorem takeWhile_zeros (n : Nat) (r : Bytes) (h : r.head? ≠ some 0) :
    (zeros n ++ r).takeWhile (· == 0) = zeros n := by
  induction n with
  | zero =>
    cases r with
    | nil => rfl
    | cons b t =>
      have hb : b ≠ 0 := by intro hb; apply h; simp [hb]
      simp [zeros, List.takeWhile, hb]
  | succ n ih =>
    have : zeros (n + 1) = 0 :: zeros n := by simp [zeros, List.replicate_succ]
    rw [this]
    simp only [List.cons_append, List.takeWhile_cons, beq_self_eq_true, if_true]
    rw [ih]

theorem pullZeros_run (n : Nat) (r : Bytes) (h : r.head? ≠ some 0) : pullZeros (zeros n ++ r) = .ok (n, r) := by
  unfold pullZeros
  simp only [takeWhile_zeros n r h]
  simp [zeros]

theorem pullUintVar_zero (x : Bytes) : pullUintVar (0 :: x) = .ok (0, x) := rfl

theorem pullBytes8 (d x : Bytes) (h : d.length = 8) : pullBytes 8 (d ++ x) = .ok (d, x) := by
  have := pullBytes_append d x (by omega)
  rw [h] at this
  simpa using this

theorem pullBytes16 (d x : Bytes) (h : d.length = 16) : pullBytes 16 (d ++ x) = .ok (d, x) := by
  have := pullBytes_append d x (by omega)
  rw [h] at this
  simpa using this

theorem pullBytes_all (d : Bytes) (h : d.length < 9223372036854775808) :
    pullBytes (d.length : Int) d = .ok (d, []) := by
  have := pullBytes_append d [] h
  simpa using this

/-- **encode → decode** for every frame type -/
theorem reenc_roundtrip (two : Bool) (f : Frame) (r : Bytes) (hok : FrameOK f) (hl : FrameLenOK two f)
    (hr : RestOK f r) : pullFrame (reenc two f ++ r) = .ok (f, r) := by
  cases f with
  | padding more =>
    have e : zeros (more + 1) = 0 :: zeros more := by simp [zeros, List.replicate_succ]
    simp only [reenc, e, List.cons_append, pullFrame, pullUintVar_zero]
    simp [pullFrameBody, pullZeros_run more r hr]
  | ping => simp [reenc, pullFrame_type, pullFrameBody]
  | ack rs delay ecn =>
    obtain ⟨hd, hdel, hecn⟩ := hok
    have hrs : rs.reverse.reverse = rs := List.reverse_reverse rs
    cases ecn with
    | none =>
      simp only [reenc, List.append_assoc]
      rw [pullFrame_type _ (by decide)]
      simp [pullFrameBody, pullAck_desc delay hdel _ hd, hrs]
    | some abc =>
      obtain ⟨a, b, c⟩ := abc
      simp only [reenc, List.append_assoc]
      rw [pullFrame_type _ (by decide)]
      simp [pullFrameBody, pullAck_desc delay hdel _ hd, hrs, varint_roundtrip _ _ hecn.1,
        varint_roundtrip _ _ hecn.2.1, varint_roundtrip _ _ hecn.2.2]
  | resetStream sid err final =>
    simp only [reenc, List.append_assoc]
    rw [pullFrame_type _ (by decide)]
    simp [pullFrameBody, varint_roundtrip _ _ hok.1, varint_roundtrip _ _ hok.2.1, varint_roundtrip _ _ hok.2.2]
  | stopSending sid err =>
    simp only [reenc, List.append_assoc]
    rw [pullFrame_type _ (by decide)]
    simp [pullFrameBody, varint_roundtrip _ _ hok.1, varint_roundtrip _ _ hok.2]
  | crypto offset data =>
    have hlen : data.length < P62 := by have := hok.2; unfold UINT_VAR_MAX at this; omega
    simp only [reenc, List.append_assoc]
    rw [pullFrame_type _ (by decide)]
    simp [pullFrameBody, varint_roundtrip _ _ hok.1, pullUintVar_lenBytes two _ _ hlen hl, hok.2,
      pullBytes_append data r (by omega)]
  | newToken token =>
    have hlen : token.length < P62 := hok
    simp only [reenc, List.append_assoc]
    rw [pullFrame_type _ (by decide)]
    simp [pullFrameBody, varint_roundtrip _ _ hok, pullBytes_append token r (by omega)]
  | stream sid offset data fin hasOff hasLen =>
    obtain ⟨h1, h2, h3, h4⟩ := hok
    have hlen : data.length < P62 := by unfold UINT_VAR_MAX at h3; omega
    have h3' : data.length ≤ UINT_VAR_MAX := by omega
    simp only [reenc, List.append_assoc]
    rw [pullFrame_type _ (by cases fin <;> cases hasOff <;> cases hasLen <;> decide)]
    cases hasLen with
    | true =>
      have hl' : LenOK two data.length := hl
      cases hasOff with
      | true =>
        cases fin <;>
          simp [streamType, pullFrameBody, varint_roundtrip _ _ h1, varint_roundtrip _ _ h2,
            pullUintVar_lenBytes two _ _ hlen hl', h3, pullBytes_append data r (by omega)]
      | false =>
        have h0 := h4 rfl
        subst h0
        cases fin <;>
          simp [streamType, pullFrameBody, varint_roundtrip _ _ h1,
            pullUintVar_lenBytes two _ _ hlen hl', h3', pullBytes_append data r (by omega)]
    | false =>
      have hr' : r = [] := hr
      subst hr'
      cases hasOff with
      | true =>
        cases fin <;>
          simp [streamType, pullFrameBody, varint_roundtrip _ _ h1, varint_roundtrip _ _ h2, h3,
            pullBytes_all data (by omega)]
      | false =>
        have h0 := h4 rfl
        subst h0
        cases fin <;>
          simp [streamType, pullFrameBody, varint_roundtrip _ _ h1, h3', pullBytes_all data (by omega)]
  | maxData v =>
    simp only [reenc]; rw [List.append_assoc, pullFrame_type _ (by decide)]
    simp [pullFrameBody, varint_roundtrip _ _ hok]
  | maxStreamData sid v =>
    simp only [reenc, List.append_assoc]; rw [pullFrame_type _ (by decide)]
    simp [pullFrameBody, varint_roundtrip _ _ hok.1, varint_roundtrip _ _ hok.2]
  | maxStreams uni v =>
    simp only [reenc]; rw [List.append_assoc, pullFrame_type _ (by cases uni <;> decide)]
    cases uni <;> simp [pullFrameBody, varint_roundtrip _ _ hok]
  | dataBlocked v =>
    simp only [reenc]; rw [List.append_assoc, pullFrame_type _ (by decide)]
    simp [pullFrameBody, varint_roundtrip _ _ hok]
  | streamDataBlocked sid v =>
    simp only [reenc, List.append_assoc]; rw [pullFrame_type _ (by decide)]
    simp [pullFrameBody, varint_roundtrip _ _ hok.1, varint_roundtrip _ _ hok.2]
  | streamsBlocked uni v =>
    simp only [reenc]; rw [List.append_assoc, pullFrame_type _ (by cases uni <;> decide)]
    cases uni <;> simp [pullFrameBody, varint_roundtrip _ _ hok]
  | newConnectionId seq rpt cid token =>
    have hc : cid.length < 256 := hok.2.2.1
    simp only [reenc, List.append_assoc, List.cons_append]
    rw [pullFrame_type _ (by decide)]
    simp [pullFrameBody, varint_roundtrip _ _ hok.1, varint_roundtrip _ _ hok.2.1, pullUint8_byte _ _ hok.2.2.1,
      pullBytes_append cid _ (by omega), pullBytes16 token r hok.2.2.2]
  | retireConnectionId seq =>
    simp only [reenc]; rw [List.append_assoc, pullFrame_type _ (by decide)]
    simp [pullFrameBody, varint_roundtrip _ _ hok]
  | pathChallenge d =>
    simp only [reenc]; rw [List.append_assoc, pullFrame_type _ (by decide)]
    simp [pullFrameBody, pullBytes8 d r hok]
  | pathResponse d =>
    simp only [reenc]; rw [List.append_assoc, pullFrame_type _ (by decide)]
    simp [pullFrameBody, pullBytes8 d r hok]
  | transportClose err ft reason =>
    have hlen : reason.length < P62 := hok.2.2
    simp only [reenc, List.append_assoc]; rw [pullFrame_type _ (by decide)]
    simp [pullFrameBody, varint_roundtrip _ _ hok.1, varint_roundtrip _ _ hok.2.1, varint_roundtrip _ _ hok.2.2,
      pullBytes_append reason r (by omega)]
  | applicationClose err reason =>
    have hlen : reason.length < P62 := hok.2
    simp only [reenc, List.append_assoc]; rw [pullFrame_type _ (by decide)]
    simp [pullFrameBody, varint_roundtrip _ _ hok.1, varint_roundtrip _ _ hok.2, pullBytes_append reason r (by omega)]
  | handshakeDone => simp [reenc, pullFrame_type, pullFrameBody]
  | datagram d hasLen =>
    simp only [reenc, List.append_assoc]
    rw [pullFrame_type _ (by cases hasLen <;> decide)]
    cases hasLen with
    | true =>
      have hlen : d.length < P62 := hok
      simp [pullFrameBody, varint_roundtrip _ _ hlen, pullBytes_append d r (by omega)]
    | false =>
      have hlen : d.length < 9223372036854775808 := hok
      have hr' : r = [] := hr
      subst hr'
      simp [pullFrameBody, pullBytes_all d hlen]

/-! ### the library's writers produce the canonical bytes (2-byte Length fields) -/

theorem cv (n : Nat) (h : n < P62) : chunkUintVar (n : Int) = .ok (encV n) := chunkUintVar_ofNat n h

theorem cvl1 : chunkUintVar 1 = .ok (encV 1) := by decide
theorem cvl2 : chunkUintVar 2 = .ok (encV 2) := by decide
theorem cvl4 : chunkUintVar 4 = .ok (encV 4) := by decide
theorem cvl5 : chunkUintVar 5 = .ok (encV 5) := by decide
theorem cvl6 : chunkUintVar 6 = .ok (encV 6) := by decide
theorem cvl16 : chunkUintVar 16 = .ok (encV 16) := by decide
theorem cvl17 : chunkUintVar 17 = .ok (encV 17) := by decide
theorem cvl18 : chunkUintVar 18 = .ok (encV 18) := by decide
theorem cvl19 : chunkUintVar 19 = .ok (encV 19) := by decide
theorem cvl22 : chunkUintVar 22 = .ok (encV 22) := by decide
theorem cvl23 : chunkUintVar 23 = .ok (encV 23) := by decide
theorem cvl24 : chunkUintVar 24 = .ok (encV 24) := by decide
theorem cvl25 : chunkUintVar 25 = .ok (encV 25) := by decide
theorem cvl26 : chunkUintVar 26 = .ok (encV 26) := by decide
theorem cvl27 : chunkUintVar 27 = .ok (encV 27) := by decide
theorem cvl28 : chunkUintVar 28 = .ok (encV 28) := by decide
theorem cvl29 : chunkUintVar 29 = .ok (encV 29) := by decide
theorem cvl30 : chunkUintVar 30 = .ok (encV 30) := by decide
theorem cvl49 : chunkUintVar 49 = .ok (encV 49) := by decide

theorem chunkLen2 (n : Nat) (h : n < 16384) : chunkUint16 ((n ||| 0x4000 : Nat) : Int) = .ok (be2 (n + 16384)) := by
  rw [lor_4000 n h, chunkUint16_nat _ (by omega)]

theorem writeScript_bytes (f : Frame) (sc : Script) (hw : writeScript f = some sc) (hok : FrameOK f)
    (hl : FrameLenOK true f) : sc.bytes = .ok (reenc true f) := by
  cases f with
  | padding more => simp only [writeScript, Option.some.injEq] at hw; subst hw; simp [Script.bytes, reenc]
  | ping => simp only [writeScript, Option.some.injEq] at hw; subst hw; simp [Script.bytes, reenc, cvl1, cvl30]
  | ack rs delay ecn =>
    cases ecn with
    | some _ => simp [writeScript] at hw
    | none =>
      simp only [writeScript, Option.some.injEq] at hw; subst hw
      obtain ⟨hd, hdel, _⟩ := hok
      have := ackScript_bytes delay hdel _ hd
      rw [List.reverse_reverse] at this
      rw [cvl2, Script.bytes_cons_ok _ _ _ this]
      rfl
  | resetStream sid err final =>
    simp only [writeScript, Option.some.injEq] at hw; subst hw
    simp [Script.bytes, reenc, cvl4, cv _ hok.1, cv _ hok.2.1, cv _ hok.2.2]
  | stopSending sid err =>
    simp only [writeScript, Option.some.injEq] at hw; subst hw
    simp [Script.bytes, reenc, cvl5, cv _ hok.1, cv _ hok.2]
  | crypto offset data =>
    simp only [writeScript, Option.some.injEq] at hw; subst hw
    have hl' : data.length < 16384 := hl rfl
    simp [Script.bytes, reenc, cvl6, cv _ hok.1, chunkLen2 _ hl', lenBytes]
  | newToken token => simp [writeScript] at hw
  | stream sid offset data fin hasOff hasLen =>
    obtain ⟨h1, h2, h3, h4⟩ := hok
    cases hasLen with
    | false => simp [writeScript] at hw
    | true =>
      have hl' : data.length < 16384 := hl rfl
      simp only [writeScript] at hw
      split at hw
      · simp only [Option.some.injEq] at hw; subst hw
        have ht : ∀ (o f : Bool), (0x08 ||| 2 ||| (if o then 4 else 0) ||| b2n f : Nat) = streamType f o true := by
          decide
        rw [ht]
        have hts : streamType fin hasOff true < P62 := by cases fin <;> cases hasOff <;> decide
        cases hasOff <;>
          simp [Script.bytes, reenc, cv _ hts, cv _ h1, cv _ h2, chunkLen2 _ hl', lenBytes]
      · cases hw
  | maxData v =>
    simp only [writeScript, Option.some.injEq] at hw; subst hw
    simp [Script.bytes, reenc, cvl16, cv _ hok]
  | maxStreamData sid v =>
    simp only [writeScript, Option.some.injEq] at hw; subst hw
    simp [Script.bytes, reenc, cvl17, cv _ hok.1, cv _ hok.2]
  | maxStreams uni v =>
    simp only [writeScript, Option.some.injEq] at hw; subst hw
    cases uni <;> simp [Script.bytes, reenc, cvl18, cvl19, cv _ hok]
  | dataBlocked v => simp [writeScript] at hw
  | streamDataBlocked sid v => simp [writeScript] at hw
  | streamsBlocked uni v =>
    simp only [writeScript, Option.some.injEq] at hw; subst hw
    cases uni <;> simp [Script.bytes, reenc, cvl22, cvl23, cv _ hok]
  | newConnectionId seq rpt cid token =>
    simp only [writeScript, Option.some.injEq] at hw; subst hw
    simp [Script.bytes, reenc, cvl24, cv _ hok.1, cv _ hok.2.1, chunkUint8_nat _ hok.2.2.1]
  | retireConnectionId seq =>
    simp only [writeScript, Option.some.injEq] at hw; subst hw
    simp [Script.bytes, reenc, cvl25, cv _ hok]
  | pathChallenge d =>
    simp only [writeScript, Option.some.injEq] at hw; subst hw
    simp [Script.bytes, reenc, cvl26]
  | pathResponse d =>
    simp only [writeScript, Option.some.injEq] at hw; subst hw
    simp [Script.bytes, reenc, cvl27]
  | transportClose err ft reason =>
    simp only [writeScript, Option.some.injEq] at hw; subst hw
    simp [Script.bytes, reenc, cvl28, cv _ hok.1, cv _ hok.2.1, cv _ hok.2.2]
  | applicationClose err reason =>
    simp only [writeScript, Option.some.injEq] at hw; subst hw
    simp [Script.bytes, reenc, cvl29, cv _ hok.1, cv _ hok.2]
  | handshakeDone => simp only [writeScript, Option.some.injEq] at hw; subst hw; simp [Script.bytes, reenc, cvl1, cvl30]
  | datagram d hasLen =>
    cases hasLen with
    | false => simp [writeScript] at hw
    | true =>
      simp only [writeScript, Option.some.injEq] at hw; subst hw
      have hlen : d.length < P62 := hok
      simp [Script.bytes, reenc, cvl49, cv _ hlen]

/-! ### the canonical bytes are the RFC 9000 §19 encoding -/

/-- ACK frames whose ranges are non-negative (what RFC 9000 allows) -/
def AckNat : Frame → Prop
  | .ack rs _ _ => ∃ rsN : List Rg, RangeSet.WF rsN ∧ rsN ≠ [] ∧ (∀ x ∈ rsN, x.stop ≤ P62) ∧ rs = rsN.map IRg.ofRg
  | _ => True

theorem sv (n : Nat) (h : n < P62) : CodecSpec.encVarint n = encV n := specVarint_eq n h

theorem encVarintW1 (n : Nat) : CodecSpec.encVarintW 1 n = be2 (n + 16384) := by
  simp only [CodecSpec.encVarintW, Nat.pow_one, Nat.reduceMul, Nat.reduceSub, Nat.reducePow, Nat.one_mul, beBytes2]
  rw [Nat.add_comm]

theorem specLen (two : Bool) (n : Nat) (h : n < P62) :
    CodecSpec.encLen (if two then some 1 else none) n = lenBytes two n := by
  cases two with
  | true => simp [CodecSpec.encLen, lenBytes, encVarintW1]
  | false => simp [CodecSpec.encLen, lenBytes, sv n h]

theorem natRg_ofRg (l : List Rg) : (l.map IRg.ofRg).map CodecSpec.natRg = l := by
  induction l with
  | nil => rfl
  | cons r t ih => simp [CodecSpec.natRg, IRg.ofRg, ih]

theorem reenc_eq_spec (two : Bool) (f : Frame) (hok : FrameOK f) (hn : AckNat f) :
    CodecSpec.encFrameW (if two then some 1 else none) f = reenc two f := by
  cases f with
  | padding more => simp [CodecSpec.encFrameW, reenc, zeros]
  | ping => simp [CodecSpec.encFrameW, reenc, sv]
  | ack rs delay ecn =>
    obtain ⟨hd, hdel, hecn⟩ := hok
    obtain ⟨rsN, hwf, hne, hb, rfl⟩ := hn
    have hs := specAck_eq rsN delay hdel hd
    have hcomp : List.map (CodecSpec.natRg ∘ IRg.ofRg) rsN = rsN := by
      have := natRg_ofRg rsN
      rwa [List.map_map] at this
    cases ecn with
    | none => simp [CodecSpec.encFrameW, reenc, sv, hcomp, hs]
    | some abc =>
      obtain ⟨a, b, c⟩ := abc
      simp [CodecSpec.encFrameW, reenc, sv, hcomp, hs, sv _ hecn.1, sv _ hecn.2.1, sv _ hecn.2.2]
  | resetStream sid err final =>
    simp [CodecSpec.encFrameW, reenc, sv, sv _ hok.1, sv _ hok.2.1, sv _ hok.2.2]
  | stopSending sid err => simp [CodecSpec.encFrameW, reenc, sv, sv _ hok.1, sv _ hok.2]
  | crypto offset data =>
    have hlen : data.length < P62 := by have := hok.2; unfold UINT_VAR_MAX at this; omega
    simp [CodecSpec.encFrameW, reenc, sv, sv _ hok.1, specLen two _ hlen]
  | newToken token =>
    have hlen : token.length < P62 := hok
    simp [CodecSpec.encFrameW, reenc, sv, sv _ hlen]
  | stream sid offset data fin hasOff hasLen =>
    obtain ⟨h1, h2, h3, _⟩ := hok
    have hlen : data.length < P62 := by unfold UINT_VAR_MAX at h3; omega
    have hts : streamType fin hasOff hasLen < P62 := by cases fin <;> cases hasOff <;> cases hasLen <;> decide
    have := sv _ hts
    unfold streamType at this
    simp only [CodecSpec.encFrameW, reenc, streamType, this, sv _ h1, sv _ h2, specLen two _ hlen, List.append_assoc]
  | maxData v => simp [CodecSpec.encFrameW, reenc, sv, sv _ hok]
  | maxStreamData sid v => simp [CodecSpec.encFrameW, reenc, sv, sv _ hok.1, sv _ hok.2]
  | maxStreams uni v => cases uni <;> simp [CodecSpec.encFrameW, reenc, sv, sv _ hok]
  | dataBlocked v => simp [CodecSpec.encFrameW, reenc, sv, sv _ hok]
  | streamDataBlocked sid v => simp [CodecSpec.encFrameW, reenc, sv, sv _ hok.1, sv _ hok.2]
  | streamsBlocked uni v => cases uni <;> simp [CodecSpec.encFrameW, reenc, sv, sv _ hok]
  | newConnectionId seq rpt cid token =>
    simp [CodecSpec.encFrameW, reenc, sv, sv _ hok.1, sv _ hok.2.1, byte]
  | retireConnectionId seq => simp [CodecSpec.encFrameW, reenc, sv, sv _ hok]
  | pathChallenge d => simp [CodecSpec.encFrameW, reenc, sv]
  | pathResponse d => simp [CodecSpec.encFrameW, reenc, sv]
  | transportClose err ft reason =>
    have hlen : reason.length < P62 := hok.2.2
    simp [CodecSpec.encFrameW, reenc, sv, sv _ hok.1, sv _ hok.2.1, sv _ hlen]
  | applicationClose err reason =>
    have hlen : reason.length < P62 := hok.2
    simp [CodecSpec.encFrameW, reenc, sv, sv _ hok.1, sv _ hlen]
  | handshakeDone => simp [CodecSpec.encFrameW, reenc, sv]
  | datagram d hasLen =>
    cases hasLen with
    | true =>
      have hlen : d.length < P62 := hok
      simp [CodecSpec.encFrameW, reenc, sv, sv _ hlen]
    | false => simp [CodecSpec.encFrameW, reenc, sv]

end AQ.Frame
