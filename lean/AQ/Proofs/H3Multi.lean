/-
C14, several request/push streams and the QPACK encoder stream: what one stream's
parser does depends on the decoder state only through the encoder bytes and the
stream's own pending header block; it changes nothing but that block.
-/
import AQ.Proofs.H3Sched

namespace AQ.H3
section
variable (Q : Qpack) (cfg : Cfg)

/-- `pylsqpack`: the header block of stream `sid` is kept until the encoder stream unblocks it -/
def QState.push (q : QState) (sid : Nat) (blk : Bytes) : QState :=
  { q with pending := q.pending ++ [(sid, blk)] }

def QState.erase (q : QState) (sid : Nat) : QState :=
  { q with pending := pendingErase sid q.pending }

/-- a frame handled with two decoder states that know the same encoder bytes -/
theorem handleFrame_frame (hL : QpackLaws Q) (hpp : cfg.k.blockedPushAsHeaders = false)
    (ft : Option Nat) (d : Bytes) (p : PState) (q q' : QState) (b : Bool) (h : q'.enc = q.enc) :
    match handleFrame (qpackOracle Q) cfg ft d p q b with
    | .error e => handleFrame (qpackOracle Q) cfg ft d p q' b = .error e
    | .ok (.done p2 q2 ev) => q2 = q ∧ handleFrame (qpackOracle Q) cfg ft d p q' b = .ok (.done p2 q' ev)
    | .ok (.blocked q1 pp) =>
      ∃ blk, q1 = q.push p.streamId blk ∧
        handleFrame (qpackOracle Q) cfg ft d p q' b = .ok (.blocked (q'.push p.streamId blk) pp) := by
  have H := handleFrame_gen Q cfg hL hpp ft d p q [] b q' (by simp [h])
  cases hh : handleFrame (qpackOracle Q) cfg ft d p q b with
  | error e => rw [hh] at H; exact H
  | ok fr =>
    cases fr with
    | done p2 q2 ev => rw [hh] at H; exact H
    | blocked q1 pp =>
      rw [hh] at H
      obtain ⟨blk, h1, hd, _, hX⟩ := H
      simp only [List.append_nil, hd] at hX
      exact ⟨blk, h1, hX⟩

/-- `frameBody` with two decoder states that know the same encoder bytes -/
inductive BodyF (sid : Nat) (q q' : QState) (s : Stream) :
    Outcome (BodyRes QState) → Outcome (BodyRes QState) → Prop where
  | err (e : Err) : BodyF sid q q' s (.error e) (.error e)
  | brk : BodyF sid q q' s (.ok .brk) (.ok .brk)
  | blocked (s2 : Stream) (r2 : Bytes) (b : Bytes) (h : s2.blocked = true) (hi : s2.p.streamId = s.p.streamId) :
      BodyF sid q q' s (.ok (.blocked s2 (q.push sid b) r2)) (.ok (.blocked s2 (q'.push sid b) r2))
  | next (s2 : Stream) (r2 : Bytes) (ev : List Event) (hb : s2.blocked = s.blocked)
      (hi : s2.p.streamId = s.p.streamId) :
      BodyF sid q q' s (.ok (.next s2 q r2 ev)) (.ok (.next s2 q' r2 ev))

theorem frameBody_frame (hL : QpackLaws Q) (hpp : cfg.k.blockedPushAsHeaders = false)
    (s : Stream) (q q' : QState) (r : Bytes) (h : q'.enc = q.enc) :
    BodyF s.p.streamId q q' s (frameBody (qpackOracle Q) cfg s q r) (frameBody (qpackOracle Q) cfg s q' r) := by
  unfold frameBody
  cases s.frameSize with
  | none => exact .brk
  | some sz =>
    dsimp only
    split
    · exact .brk
    · generalize hs1 : (if sz - min sz r.length = 0 then { s with frameSize := none, frameType := none }
          else { s with frameSize := some (sz - min sz r.length) } : Stream) = s1
      have hp : s1.p = s.p := by rw [← hs1]; split <;> rfl
      have hbl : s1.blocked = s.blocked := by rw [← hs1]; split <;> rfl
      generalize (s1.receivingEnded && (List.drop (min sz r.length) r).isEmpty &&
        (cfg.k.truncatedNoError || s1.frameSize.isNone)) = e
      have H := handleFrame_frame Q cfg hL hpp s.frameType (r.take (min sz r.length)) s1.p q q' e h
      cases hh : handleFrame (qpackOracle Q) cfg s.frameType (r.take (min sz r.length)) s1.p q e with
      | error err => rw [hh] at H; rw [H]; exact .err err
      | ok fr =>
        cases fr with
        | done p2 q2 ev =>
          rw [hh] at H
          obtain ⟨rfl, H2⟩ := H
          rw [H2]
          refine .next _ _ _ hbl ?_
          have := (handleFrame_keep _ cfg hh).2
          rw [hp] at this
          exact this
        | blocked q1 pp =>
          rw [hh] at H
          obtain ⟨blk, rfl, H2⟩ := H
          rw [H2, hp]
          exact .blocked _ _ _ rfl rfl


/-- the frame loop with two decoder states that know the same encoder bytes -/
inductive LoopF (sid : Nat) (q q' : QState) :
    Outcome (LoopRes QState) → Outcome (LoopRes QState) → Prop where
  | err (e : Err) : LoopF sid q q' (.error e) (.error e)
  | brk (s : Stream) (r : Bytes) (ev : List Event) (h : s.blocked = false) (hi : s.p.streamId = sid) :
      LoopF sid q q' (.ok (.brk s q r ev)) (.ok (.brk s q' r ev))
  | blk (s : Stream) (r : Bytes) (ev : List Event) (b : Bytes) (h : s.blocked = true) (hi : s.p.streamId = sid) :
      LoopF sid q q' (.ok (.brk s (q.push sid b) r ev)) (.ok (.brk s (q'.push sid b) r ev))
  | ret (s : Stream) (ev : List Event) (h : s.blocked = false) (hi : s.p.streamId = sid) :
      LoopF sid q q' (.ok (.ret s q ev)) (.ok (.ret s q' ev))

theorem loop_frame (hL : QpackLaws Q) (hpp : cfg.k.blockedPushAsHeaders = false) (ea : Bool) (sid : Nat)
    (q q' : QState) (h : q'.enc = q.enc) :
    ∀ (n : Nat) (s : Stream) (rest : Bytes), s.blocked = false → s.p.streamId = sid →
      LoopF sid q q' (reqLoop (qpackOracle Q) cfg ea n s q rest) (reqLoop (qpackOracle Q) cfg ea n s q' rest) := by
  intro n
  induction n with
  | zero => intro s rest hb hi; exact .brk s rest [] hb hi
  | succ n ih =>
    intro s rest hb hi
    rw [reqLoop_succ, reqLoop_succ]
    by_cases hr : rest = []
    · rw [if_pos hr, if_pos hr]; exact .brk s rest [] hb hi
    · rw [if_neg hr, if_neg hr]
      have hbl := frameHeader_bl ea s rest
      have hk := frameHeader_keep ea s rest
      cases hfh : frameHeader ea s rest with
      | stuck s1 =>
        rw [hfh] at hbl hk
        exact .brk s1 rest [] (hbl.1.trans hb) (hk.2.2.1.trans hi)
      | wt s1 evs =>
        rw [hfh] at hbl hk
        exact .ret s1 evs (hbl.1.trans hb) (hk.2.2.1.trans hi)
      | go s1 r =>
        rw [hfh] at hbl hk
        dsimp only
        have hi1 : s1.p.streamId = sid := hk.2.2.1.trans hi
        have hb1 : s1.blocked = false := hbl.1.trans hb
        have HB := frameBody_frame Q cfg hL hpp s1 q q' r h
        rw [hi1] at HB
        unfold bodyLoop
        generalize frameBody (qpackOracle Q) cfg s1 q r = X at HB ⊢
        generalize frameBody (qpackOracle Q) cfg s1 q' r = Y at HB ⊢
        cases HB with
        | err e => exact .err e
        | brk => exact .brk s1 r [] hb1 hi1
        | blocked s2 r2 b h2 hi2 => exact .blk s2 r2 [] b h2 (hi2.trans hi1)
        | next s2 r2 ev hb2 hi2 =>
          have IH := ih s2 r2 (hb2.trans hb1) (hi2.trans hi1)
          dsimp only
          generalize reqLoop (qpackOracle Q) cfg ea n s2 q r2 = A at IH ⊢
          generalize reqLoop (qpackOracle Q) cfg ea n s2 q' r2 = B at IH ⊢
          cases IH with
          | err e => exact .err e
          | brk s r ev h hi => exact .brk s r _ h hi
          | blk s r ev b h hi => exact .blk s r _ b h hi
          | ret s ev h hi => exact .ret s _ h hi


/-- a delivery / a resume with two decoder states that know the same encoder bytes -/
inductive ResF (sid : Nat) (q q' : QState) (b0 : Bool) : Res QState → Res QState → Prop where
  | err (e : Err) : ResF sid q q' b0 (.error e) (.error e)
  | same (s : Stream) (ev : List Event) (h : s.blocked = b0) (hi : s.p.streamId = sid) :
      ResF sid q q' b0 (.ok (s, q, ev)) (.ok (s, q', ev))
  | push (s : Stream) (ev : List Event) (b : Bytes) (h : s.blocked = true) (h0 : b0 = false)
      (hi : s.p.streamId = sid) :
      ResF sid q q' b0 (.ok (s, q.push sid b, ev)) (.ok (s, q'.push sid b, ev))

theorem loopPost_frame {sid : Nat} {q q' : QState} {x y : Outcome (LoopRes QState)} (h : LoopF sid q q' x y) :
    ResF sid q q' false (loopPost cfg x) (loopPost cfg y) := by
  cases h with
  | err e => exact .err e
  | brk s r ev h hi =>
    simp only [loopPost]
    split
    · exact .err _
    · exact .same _ ev h hi
  | blk s r ev b h hi =>
    simp only [loopPost, h, Bool.true_eq_false, false_and, and_false, ↓reduceIte]
    exact .push _ ev b rfl rfl hi
  | ret s ev h hi => exact .same s ev h hi

theorem recvReqMain_frame (hL : QpackLaws Q) (hpp : cfg.k.blockedPushAsHeaders = false) (S : Stream)
    (q q' : QState) (ea : Bool) (h : q'.enc = q.enc) (sid : Nat) (hi : S.p.streamId = sid) (hb : S.blocked = false) :
    ResF sid q q' false (recvReqMain (qpackOracle Q) cfg S q ea) (recvReqMain (qpackOracle Q) cfg S q' ea) := by
  subst hi
  unfold recvReqMain
  split
  · unfold loneFin
    split
    · exact .err _
    · cases checkCL S.p with
      | error e => exact .err e
      | ok u => exact .same S _ hb rfl
  · exact loopPost_frame cfg (loop_frame Q cfg hL hpp ea S.p.streamId q q' h _ _ _ hb rfl)

theorem recvReq_frame (hL : QpackLaws Q) (hpp : cfg.k.blockedPushAsHeaders = false) (S : Stream)
    (q q' : QState) (d : Bytes) (ea : Bool) (h : q'.enc = q.enc) :
    ResF S.p.streamId q q' S.blocked (recvReq (qpackOracle Q) cfg S q d ea) (recvReq (qpackOracle Q) cfg S q' d ea) := by
  unfold recvReq
  dsimp only
  by_cases hb : S.blocked = true
  · simp only [hb, ↓reduceIte]
    exact .same _ [] rfl rfl
  · have hb' : S.blocked = false := by simpa using hb
    simp only [hb', Bool.false_eq_true, ↓reduceIte]
    split
    · exact .same _ _ (by first | rfl | exact hb') rfl
    · split
      · split
        · split
          · exact .err _
          · exact .same _ _ (by first | rfl | exact hb') rfl
        · (refine recvReqMain_frame Q cfg hL hpp _ q q' ea h _ rfl ?_; first | rfl | exact hb')
      · (refine recvReqMain_frame Q cfg hL hpp _ q q' ea h _ rfl ?_; first | rfl | exact hb')


theorem resume_eval (q : QState) (sid : Nat) :
    (qpackOracle Q).resume q sid =
      match pendingBlock sid q.pending with
      | none => (.failed, q)
      | some blk =>
        match Q.dec q.enc blk with
        | .headers hs => (.headers hs, q.erase sid)
        | _ => (.failed, q.erase sid) := rfl

theorem resumeCont_frame (hL : QpackLaws Q) (hpp : cfg.k.blockedPushAsHeaders = false) (S : Stream) (p2 : PState)
    (q q' : QState) (ev : List Event) (h : q'.enc = q.enc) (sid : Nat) (hi : p2.streamId = sid) :
    ResF sid q q' false (resumeCont (qpackOracle Q) cfg (unblock S p2) q ev)
      (resumeCont (qpackOracle Q) cfg (unblock S p2) q' ev) := by
  unfold resumeCont
  split
  · exact .same _ ev rfl hi
  · have H := recvReq_frame Q cfg hL hpp (unblock S p2) q q' [] (unblock S p2).receivingEnded h
    have e1 : (unblock S p2).p.streamId = sid := hi
    have e2 : (unblock S p2).blocked = false := rfl
    rw [e1, e2] at H
    generalize recvReq (qpackOracle Q) cfg (unblock S p2) q [] (unblock S p2).receivingEnded = A at H ⊢
    generalize recvReq (qpackOracle Q) cfg (unblock S p2) q' [] (unblock S p2).receivingEnded = B at H ⊢
    cases H with
    | err e => exact .err e
    | same s ev2 hb hi2 => exact .same s _ hb hi2
    | push s ev2 b hb h0 hi2 => exact .push s _ b hb rfl hi2

/-- `resumeStream` with two decoder states that know the same encoder bytes and hold the
    same header block for the stream -/
theorem resumeStream_frame (hL : QpackLaws Q) (hpp : cfg.k.blockedPushAsHeaders = false) (S : Stream)
    (q q' : QState) (h : q'.enc = q.enc)
    (hp : pendingBlock S.p.streamId q'.pending = pendingBlock S.p.streamId q.pending) :
    ResF S.p.streamId (q.erase S.p.streamId) (q'.erase S.p.streamId) false
      (resumeStream (qpackOracle Q) cfg S q) (resumeStream (qpackOracle Q) cfg S q') := by
  have he : (q'.erase S.p.streamId).enc = (q.erase S.p.streamId).enc := h
  rw [resumeStream_eq, resumeStream_eq]
  unfold resumeFrame
  rw [resume_eval, resume_eval, hp, h]
  cases S.blockedPush with
  | some pid =>
    dsimp only
    cases pendingBlock S.p.streamId q.pending with
    | none => exact .err _
    | some blk =>
      dsimp only
      cases Q.dec q.enc blk with
      | blocked => exact .err _
      | failed => exact .err _
      | headers hs =>
        dsimp only
        rw [finishPush_q Q cfg S.p (q.erase S.p.streamId) (q'.erase S.p.streamId) pid hs]
        cases hf : finishPush (qpackOracle Q) cfg S.p (q.erase S.p.streamId) pid hs
            (S.receivingEnded && S.buffer.isEmpty) with
        | error e => exact .err e
        | ok v =>
          obtain ⟨p2, q2, ev⟩ := v
          have := finishPush_q_ok Q cfg hf
          subst this
          have hk := finishPush_keep _ cfg hf
          exact resumeCont_frame Q cfg hL hpp S p2 _ _ ev he _ (by rw [hk])
  | none =>
    dsimp only
    by_cases hr : S.p.recvState = .afterTrailers
    · simp only [hr, ↓reduceIte]; exact .err _
    · simp only [hr, ↓reduceIte]
      cases pendingBlock S.p.streamId q.pending with
      | none => exact .err _
      | some blk =>
        dsimp only
        cases Q.dec q.enc blk with
        | blocked => exact .err _
        | failed => exact .err _
        | headers hs =>
          dsimp only
          rw [finishHeaders_q Q cfg S.p (q.erase S.p.streamId) (q'.erase S.p.streamId) hs]
          cases hf : finishHeaders (qpackOracle Q) cfg S.p (q.erase S.p.streamId) hs
              (S.receivingEnded && S.buffer.isEmpty) with
          | error e => exact .err e
          | ok v =>
            obtain ⟨p2, q2, ev⟩ := v
            have := finishHeaders_q_ok Q cfg hf
            subst this
            have hk := (finishHeaders_keep _ cfg hf).2
            exact resumeCont_frame Q cfg hL hpp S p2 _ _ ev he _ hk


/-! ### one stream's view of the decoder -/

def onlyOf (i : Nat) : List (Nat × Bytes) → List (Nat × Bytes)
  | [] => []
  | (j, b) :: r => if j = i then (j, b) :: onlyOf i r else onlyOf i r

/-- the decoder state as far as stream `i` is concerned: the encoder bytes and its own
    pending header block -/
def view (i : Nat) (q : QState) : QState := { q with pending := onlyOf i q.pending }

theorem onlyOf_append (i : Nat) (a b : List (Nat × Bytes)) : onlyOf i (a ++ b) = onlyOf i a ++ onlyOf i b := by
  induction a with
  | nil => rfl
  | cons x r ih =>
    obtain ⟨j, c⟩ := x
    simp only [List.cons_append, onlyOf]
    split <;> simp [ih]

theorem pendingBlock_onlyOf (i : Nat) (l : List (Nat × Bytes)) : pendingBlock i (onlyOf i l) = pendingBlock i l := by
  induction l with
  | nil => rfl
  | cons x r ih =>
    obtain ⟨j, c⟩ := x
    simp only [onlyOf, pendingBlock]
    by_cases h : j = i
    · simp [h, pendingBlock]
    · simp [h, ih]

theorem onlyOf_erase_self (i : Nat) (l : List (Nat × Bytes)) : onlyOf i (pendingErase i l) = pendingErase i (onlyOf i l) := by
  induction l with
  | nil => rfl
  | cons x r ih =>
    obtain ⟨j, c⟩ := x
    simp only [onlyOf, pendingErase]
    by_cases h : j = i
    · simp [h, pendingErase]
    · simp [h, onlyOf, ih]

theorem onlyOf_erase_ne (i j : Nat) (hne : j ≠ i) (l : List (Nat × Bytes)) : onlyOf i (pendingErase j l) = onlyOf i l := by
  induction l with
  | nil => rfl
  | cons x r ih =>
    obtain ⟨k, c⟩ := x
    simp only [pendingErase]
    by_cases h : k = j
    · have : k ≠ i := by rw [h]; exact hne
      simp [h, onlyOf, hne]
    · simp only [h, ↓reduceIte, onlyOf, ih]

theorem unblocked_onlyOf (E : Bytes) (i : Nat) (l : List (Nat × Bytes)) :
    (unblockedIds Q E (onlyOf i l)) = (unblockedIds Q E l).filter (· = i) := by
  induction l with
  | nil => rfl
  | cons x r ih =>
    obtain ⟨k, c⟩ := x
    simp only [onlyOf, unblockedIds]
    by_cases h : k = i
    · subst h
      simp only [↓reduceIte, unblockedIds]
      split
      · exact ih
      · simp [ih]
    · simp only [h, ↓reduceIte]
      split
      · exact ih
      · simp [h, ih]

theorem view_push_self (i : Nat) (q : QState) (b : Bytes) : view i (q.push i b) = (view i q).push i b := by
  simp [view, QState.push, onlyOf_append, onlyOf]

theorem view_push_ne (i j : Nat) (hne : j ≠ i) (q : QState) (b : Bytes) : view i (q.push j b) = view i q := by
  simp [view, QState.push, onlyOf_append, onlyOf, hne]

theorem view_erase_self (i : Nat) (q : QState) : view i (q.erase i) = (view i q).erase i := by
  simp [view, QState.erase, onlyOf_erase_self]

theorem view_erase_ne (i j : Nat) (hne : j ≠ i) (q : QState) : view i (q.erase j) = view i q := by
  simp [view, QState.erase, onlyOf_erase_ne i j hne]

theorem view_ext (i : Nat) (q : QState) (x : Bytes) : view i (q.ext x) = (view i q).ext x := rfl


/-- what a `ResF` pair says when the second decoder state is the stream's own view of the first -/
theorem ResF.out {sid : Nat} {Q0 : QState} {b0 : Bool} {x y : Res QState} (h : ResF sid Q0 (view sid Q0) b0 x y) :
    match x with
    | .error e => y = .error e
    | .ok (s, q1, ev) =>
      y = .ok (s, view sid q1, ev) ∧ s.p.streamId = sid ∧ (∀ j, j ≠ sid → view j q1 = view j Q0) ∧ q1.enc = Q0.enc ∧
        ((s.blocked = b0 ∧ q1 = Q0) ∨ (∃ b, s.blocked = true ∧ b0 = false ∧ q1 = Q0.push sid b)) := by
  cases h with
  | err e => rfl
  | same s ev h hi => exact ⟨rfl, hi, fun _ _ => rfl, rfl, .inl ⟨h, rfl⟩⟩
  | push s ev b h h0 hi =>
    exact ⟨by rw [view_push_self], hi, fun j hj => view_push_ne j sid (fun e => hj e.symm) Q0 b, rfl,
      .inr ⟨b, h, h0, rfl⟩⟩

/-! ### several request/push streams and the encoder stream -/

abbrev Tbl := Nat → Stream
def Tbl.set (T : Tbl) (i : Nat) (s : Stream) : Tbl := fun j => if j = i then s else T j
abbrev Logs := Nat → List Event
def Logs.add (L : Logs) (i : Nat) (ev : List Event) : Logs := fun j => if j = i then L j ++ ev else L j

/-- the request/push streams by stream id, the QPACK decoder, and the events by the stream
    whose parser produced them (`L`) and in global order (`F`) -/
structure MState where
  T : Tbl
  q : QState
  L : Logs
  /-- all events in the order in which they were produced -/
  F : List Event := []

def MState.put (m : MState) (i : Nat) (r : Stream × QState × List Event) : MState :=
  { T := m.T.set i r.1, q := r.2.1, L := m.L.add i r.2.2, F := m.F ++ r.2.2 }

inductive MStep where
  /-- `StreamDataReceived` on request/push stream `i` -/
  | req (i : Nat) (c : Bytes) (fin : Bool)
  /-- `StreamDataReceived` on the peer's QPACK encoder stream -/
  | enc (x : Bytes)

/-- `for stream_id in unblocked_streams:` -/
def resumeAll : List Nat → MState → Outcome MState
  | [], m => .ok m
  | i :: ids, m =>
    -- `if stream is None or not stream.blocked: continue`
    if (m.T i).blocked = false then resumeAll ids m
    else
      match resumeStream (qpackOracle Q) cfg (m.T i) m.q with
      | .error e => .error e
      | .ok r => resumeAll ids (m.put i r)

/-- the order in which `for stream_id in unblocked_streams` visits the set -/
structure OrdOK (ord : List Nat → List Nat) : Prop where
  mem : ∀ l j, j ∈ ord l ↔ j ∈ l
  nodup : ∀ l, l.Nodup → (ord l).Nodup

def stepM (ord : List Nat → List Nat) (m : MState) : MStep → Outcome MState
  | .req i c f =>
    match recvReq (qpackOracle Q) cfg (m.T i) m.q c f with
    | .error e => .error e
    | .ok r => .ok (m.put i r)
  | .enc x =>
    match (qpackOracle Q).feedEncoder m.q x with
    | (.error, _) => .error (.h3 0x201)
    | (.unblocked ids, q1) => resumeAll Q cfg (ord ids) { m with q := q1 }

def runM (ord : List Nat → List Nat) (m : MState) : List MStep → Outcome MState
  | [] => .ok m
  | st :: r =>
    match stepM Q cfg ord m st with
    | .error e => .error e
    | .ok m1 => runM ord m1 r

/-- the local schedule of stream `i` -/
def proj (i : Nat) : List MStep → List Step
  | [] => []
  | .req j c f :: r => if j = i then .req c f :: proj i r else proj i r
  | .enc x :: r => .enc x :: proj i r

def encBytesM : List MStep → Bytes
  | [] => []
  | .req _ _ _ :: r => encBytesM r
  | .enc x :: r => x ++ encBytesM r

structure InvJ (m : MState) (j : Nat) : Prop where
  sid : (m.T j).p.streamId = j
  one : (onlyOf j m.q.pending).length ≤ 1
  free : (m.T j).blocked = false → onlyOf j m.q.pending = []

/-- stream `j` as the local machine of `H3Sched` sees it -/
def loc (m : MState) (j : Nat) : Stream × QState × List Event := (m.T j, view j m.q, m.L j)

theorem put_T_self (m : MState) (i : Nat) (r : Stream × QState × List Event) : (m.put i r).T i = r.1 := by
  simp [MState.put, Tbl.set]

theorem put_T_ne (m : MState) (i j : Nat) (h : j ≠ i) (r : Stream × QState × List Event) :
    (m.put i r).T j = m.T j := by
  simp [MState.put, Tbl.set, h]

theorem put_L_self (m : MState) (i : Nat) (r : Stream × QState × List Event) :
    (m.put i r).L i = m.L i ++ r.2.2 := by
  simp [MState.put, Logs.add]

theorem put_L_ne (m : MState) (i j : Nat) (h : j ≠ i) (r : Stream × QState × List Event) :
    (m.put i r).L j = m.L j := by
  simp [MState.put, Logs.add, h]


theorem InvJ.of_eq {m m' : MState} {j : Nat} (h : InvJ m j) (hT : m'.T j = m.T j)
    (hp : onlyOf j m'.q.pending = onlyOf j m.q.pending) : InvJ m' j := by
  exact ⟨by rw [hT]; exact h.sid, by rw [hp]; exact h.one, by rw [hT, hp]; exact h.free⟩

/-- the effect on the whole machine of one parser run on stream `i`, given its `ResF` -/
theorem op_step (m : MState) (i : Nat) (Q0 : QState) (b0 : Bool) (x y : Res QState)
    (F : ResF i Q0 (view i Q0) b0 x y) (hQ0 : ∀ j, j ≠ i → view j Q0 = view j m.q)
    (hone : (onlyOf i Q0.pending).length ≤ 1) (hfree : b0 = false → onlyOf i Q0.pending = []) :
    match (generalizing := false) x with
    | .error e => y = .error e
    | .ok r =>
      y = .ok (r.1, view i r.2.1, r.2.2) ∧ InvJ (m.put i r) i ∧ r.2.1.enc = Q0.enc ∧
        (∀ j, j ≠ i → (m.put i r).T j = m.T j ∧ view j (m.put i r).q = view j m.q ∧ (m.put i r).L j = m.L j) := by
  have O := F.out
  cases x with
  | error e => exact O
  | ok r =>
    obtain ⟨s, q1, ev⟩ := r
    obtain ⟨hy, hsid, hview, henc, hcase⟩ := O
    refine ⟨hy, ?_, henc, ?_⟩
    · refine ⟨by rw [put_T_self]; exact hsid, ?_, ?_⟩
      · show (onlyOf i q1.pending).length ≤ 1
        rcases hcase with ⟨_, rfl⟩ | ⟨b, _, hb0, rfl⟩
        · exact hone
        · simp [QState.push, onlyOf_append, onlyOf, hfree hb0]
      · rw [put_T_self]
        show s.blocked = false → onlyOf i q1.pending = []
        intro hbf
        rcases hcase with ⟨hb, rfl⟩ | ⟨b, hb, _, _⟩
        · exact hfree (hb.symm.trans hbf)
        · rw [hb] at hbf; cases hbf
    · intro j hj
      exact ⟨put_T_ne m i j hj _, (hview j hj).trans (hQ0 j hj), put_L_ne m i j hj _⟩

theorem onlyOf_keys (i : Nat) : ∀ (l : List (Nat × Bytes)) (x : Nat × Bytes), x ∈ onlyOf i l → x.1 = i := by
  intro l
  induction l with
  | nil => intro x h; cases h
  | cons a r ih =>
    obtain ⟨j, c⟩ := a
    intro x h
    simp only [onlyOf] at h
    by_cases hj : j = i
    · simp only [hj, ↓reduceIte, List.mem_cons] at h
      rcases h with rfl | h
      · rfl
      · exact ih x h
    · simp only [hj, ↓reduceIte] at h
      exact ih x h

theorem erase_onlyOf_one (i : Nat) (l : List (Nat × Bytes)) (h : (onlyOf i l).length ≤ 1) :
    pendingErase i (onlyOf i l) = [] := by
  have hk := onlyOf_keys i l
  cases hl : onlyOf i l with
  | nil => rfl
  | cons a r =>
    rw [hl] at h hk
    obtain ⟨k, c⟩ := a
    have hk1 : k = i := hk (k, c) (by simp)
    have hr : r = [] := by
      cases r with
      | nil => rfl
      | cons _ _ => simp at h
    simp [pendingErase, hk1, hr]

/-- a delivery on request/push stream `i` -/
theorem req_step (hL : QpackLaws Q) (hpp : cfg.k.blockedPushAsHeaders = false) (m : MState) (i : Nat)
    (c : Bytes) (f : Bool) (hI : InvJ m i) :
    match recvReq (qpackOracle Q) cfg (m.T i) m.q c f with
    | .error e => recvReq (qpackOracle Q) cfg (m.T i) (view i m.q) c f = .error e
    | .ok r =>
      recvReq (qpackOracle Q) cfg (m.T i) (view i m.q) c f = .ok (r.1, view i r.2.1, r.2.2) ∧
        InvJ (m.put i r) i ∧ r.2.1.enc = m.q.enc ∧
        (∀ j, j ≠ i → (m.put i r).T j = m.T j ∧ view j (m.put i r).q = view j m.q ∧ (m.put i r).L j = m.L j) := by
  have F := recvReq_frame Q cfg hL hpp (m.T i) m.q (view i m.q) c f rfl
  rw [hI.sid] at F
  exact op_step m i m.q (m.T i).blocked _ _ F (fun _ _ => rfl) hI.one hI.free

/-- stream `i` is resumed -/
theorem resume_step (hL : QpackLaws Q) (hpp : cfg.k.blockedPushAsHeaders = false) (m : MState) (i : Nat)
    (hI : InvJ m i) :
    match resumeStream (qpackOracle Q) cfg (m.T i) m.q with
    | .error e => resumeStream (qpackOracle Q) cfg (m.T i) (view i m.q) = .error e
    | .ok r =>
      resumeStream (qpackOracle Q) cfg (m.T i) (view i m.q) = .ok (r.1, view i r.2.1, r.2.2) ∧
        InvJ (m.put i r) i ∧ r.2.1.enc = m.q.enc ∧
        (∀ j, j ≠ i → (m.put i r).T j = m.T j ∧ view j (m.put i r).q = view j m.q ∧ (m.put i r).L j = m.L j) := by
  have F := resumeStream_frame Q cfg hL hpp (m.T i) m.q (view i m.q) rfl
    (by rw [hI.sid]; exact pendingBlock_onlyOf i m.q.pending)
  rw [hI.sid, ← view_erase_self] at F
  refine op_step m i (m.q.erase i) false _ _ F (fun j hj => view_erase_ne j i (fun e => hj e.symm) m.q) ?_ ?_
  · show (onlyOf i (pendingErase i m.q.pending)).length ≤ 1
    rw [onlyOf_erase_self, erase_onlyOf_one i _ hI.one]; simp
  · intro _
    show onlyOf i (pendingErase i m.q.pending) = []
    rw [onlyOf_erase_self, erase_onlyOf_one i _ hI.one]


def Inv (m : MState) : Prop := ∀ j, InvJ m j

theorem Inv.put {m : MState} (h : Inv m) (i : Nat) (r : Stream × QState × List Event) (hi : InvJ (m.put i r) i)
    (ho : ∀ j, j ≠ i → (m.put i r).T j = m.T j ∧ view j (m.put i r).q = view j m.q ∧ (m.put i r).L j = m.L j) :
    Inv (m.put i r) := by
  intro j
  by_cases hj : j = i
  · rw [hj]; exact hi
  · exact (h j).of_eq (ho j hj).1 (congrArg QState.pending (ho j hj).2.1)

theorem resumeAll_ok (hL : QpackLaws Q) (hpp : cfg.k.blockedPushAsHeaders = false) :
    ∀ (ids : List Nat) (m m' : MState), ids.Nodup → Inv m → (∀ j, j ∈ ids → (m.T j).blocked = true) →
      resumeAll Q cfg ids m = .ok m' →
      Inv m' ∧ m'.q.enc = m.q.enc ∧
      ∀ j, (j ∈ ids → ∃ ev, resumeStream (qpackOracle Q) cfg (m.T j) (view j m.q) = .ok (m'.T j, view j m'.q, ev) ∧
              m'.L j = m.L j ++ ev) ∧
           (j ∉ ids → m'.T j = m.T j ∧ view j m'.q = view j m.q ∧ m'.L j = m.L j) := by
  intro ids
  induction ids with
  | nil =>
    intro m m' _ hI _ h
    simp only [resumeAll, Except.ok.injEq] at h
    subst h
    exact ⟨hI, rfl, fun j => ⟨fun h => (by cases h), fun _ => ⟨rfl, rfl, rfl⟩⟩⟩
  | cons i ids ih =>
    intro m m' hnd hI hB h
    have hS := resume_step Q cfg hL hpp m i (hI i)
    simp only [resumeAll, hB i List.mem_cons_self, Bool.true_eq_false, ↓reduceIte] at h
    cases hr : resumeStream (qpackOracle Q) cfg (m.T i) m.q with
    | error e => rw [hr] at h; cases h
    | ok r =>
      rw [hr] at h hS
      dsimp only at h hS
      obtain ⟨hloc, hIi, henc, hoth⟩ := hS
      have hI1 : Inv (m.put i r) := hI.put i r hIi hoth
      have hnd' := (List.nodup_cons.mp hnd)
      have hB1 : ∀ j, j ∈ ids → ((m.put i r).T j).blocked = true := by
        intro j hj
        have hji : j ≠ i := fun e => hnd'.1 (e ▸ hj)
        rw [(hoth j hji).1]
        exact hB j (List.mem_cons_of_mem _ hj)
      obtain ⟨hI', henc', hall⟩ := ih (m.put i r) m' hnd'.2 hI1 hB1 h
      refine ⟨hI', henc'.trans henc, fun j => ⟨fun hj => ?_, fun hj => ?_⟩⟩
      · by_cases hji : j = i
        · subst hji
          obtain ⟨hT, hv, hLg⟩ := (hall j).2 hnd'.1
          refine ⟨r.2.2, ?_, ?_⟩
          · rw [hloc, hT, hv, put_T_self]; rfl
          · rw [hLg, put_L_self]
        · have hmem : j ∈ ids := by
            rcases List.mem_cons.mp hj with h | h
            · exact absurd h hji
            · exact h
          obtain ⟨ev, h1, h2⟩ := (hall j).1 hmem
          rw [(hoth j hji).1, (hoth j hji).2.1] at h1
          rw [(hoth j hji).2.2] at h2
          exact ⟨ev, h1, h2⟩
      · have hji : j ≠ i := fun e => hj (by rw [e]; exact List.mem_cons_self)
        have hmem : j ∉ ids := fun e => hj (List.mem_cons_of_mem _ e)
        obtain ⟨hT, hv, hLg⟩ := (hall j).2 hmem
        exact ⟨hT.trans (hoth j hji).1, hv.trans (hoth j hji).2.1, hLg.trans (hoth j hji).2.2⟩

theorem resumeAll_err (hL : QpackLaws Q) (hpp : cfg.k.blockedPushAsHeaders = false) :
    ∀ (ids : List Nat) (m : MState) (e : Err), ids.Nodup → Inv m → (∀ j, j ∈ ids → (m.T j).blocked = true) →
      resumeAll Q cfg ids m = .error e →
      ∃ j, j ∈ ids ∧ resumeStream (qpackOracle Q) cfg (m.T j) (view j m.q) = .error e := by
  intro ids
  induction ids with
  | nil => intro m e _ _ _ h; simp [resumeAll] at h
  | cons i ids ih =>
    intro m e hnd hI hB h
    have hS := resume_step Q cfg hL hpp m i (hI i)
    simp only [resumeAll, hB i List.mem_cons_self, Bool.true_eq_false, ↓reduceIte] at h
    cases hr : resumeStream (qpackOracle Q) cfg (m.T i) m.q with
    | error e1 =>
      rw [hr] at h hS
      simp only [Except.error.injEq] at h
      subst h
      exact ⟨i, List.mem_cons_self, hS⟩
    | ok r =>
      rw [hr] at h hS
      dsimp only at h hS
      obtain ⟨_, hIi, _, hoth⟩ := hS
      have hnd' := (List.nodup_cons.mp hnd)
      have hB1 : ∀ j, j ∈ ids → ((m.put i r).T j).blocked = true := by
        intro j hj
        have hji : j ≠ i := fun e => hnd'.1 (e ▸ hj)
        rw [(hoth j hji).1]
        exact hB j (List.mem_cons_of_mem _ hj)
      obtain ⟨j, hj, hje⟩ := ih (m.put i r) e hnd'.2 (hI.put i r hIi hoth) hB1 h
      have hji : j ≠ i := fun e => hnd'.1 (e ▸ hj)
      rw [(hoth j hji).1, (hoth j hji).2.1] at hje
      exact ⟨j, List.mem_cons_of_mem _ hj, hje⟩


theorem onlyOf_nil_pendingBlock (i : Nat) (l : List (Nat × Bytes)) (h : onlyOf i l = []) : pendingBlock i l = none := by
  rw [← pendingBlock_onlyOf, h]; rfl

theorem unblocked_nodup (E : Bytes) : ∀ (l : List (Nat × Bytes)), (∀ j, (onlyOf j l).length ≤ 1) →
    (unblockedIds Q E l).Nodup := by
  intro l
  induction l with
  | nil => intro _; exact List.nodup_nil
  | cons a r ih =>
    obtain ⟨k, c⟩ := a
    intro h
    have hr : ∀ j, (onlyOf j r).length ≤ 1 := by
      intro j
      have := h j
      simp only [onlyOf] at this
      split at this
      · simp at this; simp [this]
      · exact this
    simp only [unblockedIds]
    split
    · exact ih hr
    · refine List.nodup_cons.mpr ⟨?_, ih hr⟩
      have hk := h k
      simp only [onlyOf, ↓reduceIte, List.length_cons] at hk
      have hnil : onlyOf k r = [] := List.length_eq_zero_iff.mp (by omega)
      have := unblocked_notin Q E k r (onlyOf_nil_pendingBlock k r hnil)
      simpa using this

/-- stream `j`'s own view of an encoder-stream delivery -/
theorem encStep_view (x : Bytes) (m : MState) (j : Nat) (hI : InvJ m j)
    (hok : Q.encOk (m.q.enc ++ x) = true) :
    encStep Q cfg x (m.T j) (view j m.q) =
      if j ∈ unblockedIds Q (m.q.enc ++ x) m.q.pending then
        resumeStream (qpackOracle Q) cfg (m.T j) (view j (m.q.ext x))
      else .ok (m.T j, view j (m.q.ext x), []) := by
  unfold encStep
  rw [feedEncoder_ok Q (view j m.q) x hok]
  have h1 : (view j m.q).pending = onlyOf j m.q.pending := rfl
  have h2 : (view j m.q).enc = m.q.enc := rfl
  have h3 : (m.T j).streamId = j := hI.sid
  rw [h1, h2, h3, unblocked_onlyOf]
  simp only [List.contains_eq_mem, List.mem_filter, decide_eq_true_eq, and_true, view_ext]


def encOfStep : MStep → Bytes
  | .req _ _ _ => []
  | .enc x => x

theorem Inv.ext {m : MState} (h : Inv m) (x : Bytes) : Inv { m with q := m.q.ext x } :=
  fun j => (h j).of_eq rfl rfl

theorem unblocked_blocked (E : Bytes) {m : MState} (hI : Inv m) (j : Nat)
    (hj : j ∈ unblockedIds Q E m.q.pending) : (m.T j).blocked = true := by
  cases hb : (m.T j).blocked with
  | true => rfl
  | false =>
    have hn := unblocked_notin Q E j m.q.pending (onlyOf_nil_pendingBlock j _ ((hI j).free hb))
    simp only [List.contains_eq_mem, decide_eq_false_iff_not] at hn
    exact absurd hj hn

theorem stepM_ok (hL : QpackLaws Q) (hpp : cfg.k.blockedPushAsHeaders = false) {ord : List Nat → List Nat} (hord : OrdOK ord) (m m' : MState) (st : MStep)
    (hI : Inv m) (hok : Q.encOk (m.q.enc ++ encOfStep st) = true) (h : stepM Q cfg ord m st = .ok m') :
    Inv m' ∧ m'.q.enc = m.q.enc ++ encOfStep st ∧
      ∀ j, ∃ ev, runSched Q cfg (m.T j) (view j m.q) (proj j [st]) = .ok (m'.T j, view j m'.q, ev) ∧
        m'.L j = m.L j ++ ev := by
  cases st with
  | req i c f =>
    have hS := req_step Q cfg hL hpp m i c f (hI i)
    simp only [stepM] at h
    cases hr : recvReq (qpackOracle Q) cfg (m.T i) m.q c f with
    | error e => rw [hr] at h; cases h
    | ok r =>
      rw [hr] at h hS
      simp only [Except.ok.injEq] at h
      subst h
      obtain ⟨hloc, hIi, henc, hoth⟩ := hS
      refine ⟨hI.put i r hIi hoth, by simp [encOfStep, MState.put, henc], fun j => ?_⟩
      by_cases hj : j = i
      · subst hj
        refine ⟨r.2.2, ?_, put_L_self m j r⟩
        simp only [proj, ↓reduceIte, runSched_single, stepRun, hloc, put_T_self]
        rfl
      · have hij : ¬ i = j := fun e => hj e.symm
        refine ⟨[], ?_, by rw [(hoth j hj).2.2]; simp⟩
        simp only [proj, hij, ↓reduceIte, runSched]
        rw [(hoth j hj).1, (hoth j hj).2.1]
  | enc x =>
    simp only [encOfStep] at hok ⊢
    simp only [stepM, feedEncoder_ok Q m.q x hok] at h
    have hnd := unblocked_nodup Q (m.q.enc ++ x) m.q.pending (fun j => (hI j).one)
    have hB : ∀ j, j ∈ ord (unblockedIds Q (m.q.enc ++ x) m.q.pending) → (m.T j).blocked = true :=
      fun j hj => unblocked_blocked Q _ hI j ((hord.mem _ j).mp hj)
    obtain ⟨hI', henc, hall⟩ := resumeAll_ok Q cfg hL hpp _ _ m' (hord.nodup _ hnd) (hI.ext x) hB h
    refine ⟨hI', henc, fun j => ?_⟩
    simp only [proj, runSched_single, stepRun, encStep_view Q cfg x m j (hI j) hok]
    by_cases hm : j ∈ unblockedIds Q (m.q.enc ++ x) m.q.pending
    · rw [if_pos hm]
      exact (hall j).1 ((hord.mem _ j).mpr hm)
    · rw [if_neg hm]
      obtain ⟨hT, hv, hLg⟩ := (hall j).2 (fun e => hm ((hord.mem _ j).mp e))
      exact ⟨[], by rw [hT, hv], by rw [hLg]; simp⟩

theorem stepM_err (hL : QpackLaws Q) (hpp : cfg.k.blockedPushAsHeaders = false) {ord : List Nat → List Nat} (hord : OrdOK ord) (m : MState) (st : MStep)
    (e : Err) (hI : Inv m) (hok : Q.encOk (m.q.enc ++ encOfStep st) = true) (h : stepM Q cfg ord m st = .error e) :
    ∃ j, runSched Q cfg (m.T j) (view j m.q) (proj j [st]) = .error e := by
  cases st with
  | req i c f =>
    have hS := req_step Q cfg hL hpp m i c f (hI i)
    simp only [stepM] at h
    cases hr : recvReq (qpackOracle Q) cfg (m.T i) m.q c f with
    | ok r => rw [hr] at h; cases h
    | error e1 =>
      rw [hr] at h hS
      simp only [Except.error.injEq] at h
      subst h
      exact ⟨i, by simp only [proj, ↓reduceIte, runSched_single, stepRun, hS]⟩
  | enc x =>
    simp only [encOfStep] at hok
    simp only [stepM, feedEncoder_ok Q m.q x hok] at h
    have hnd := unblocked_nodup Q (m.q.enc ++ x) m.q.pending (fun j => (hI j).one)
    have hB : ∀ j, j ∈ ord (unblockedIds Q (m.q.enc ++ x) m.q.pending) → (m.T j).blocked = true :=
      fun j hj => unblocked_blocked Q _ hI j ((hord.mem _ j).mp hj)
    obtain ⟨j, hj, hje⟩ := resumeAll_err Q cfg hL hpp _ _ e (hord.nodup _ hnd) (hI.ext x) hB h
    refine ⟨j, ?_⟩
    simp only [proj, runSched_single, stepRun, encStep_view Q cfg x m j (hI j) hok]
    rw [if_pos ((hord.mem _ j).mp hj)]
    exact hje


theorem proj_cons (j : Nat) (st : MStep) (r : List MStep) : proj j (st :: r) = proj j [st] ++ proj j r := by
  cases st with
  | req i c f => simp only [proj]; split <;> rfl
  | enc x => rfl

theorem encBytesM_cons (st : MStep) (r : List MStep) : encBytesM (st :: r) = encOfStep st ++ encBytesM r := by
  cases st <;> rfl

theorem encOk_prefix (hL : QpackLaws Q) (a b : Bytes) (h : Q.encOk (a ++ b) = true) : Q.encOk a = true := by
  cases ha : Q.encOk a with
  | true => rfl
  | false => rw [hL.encErr a b ha] at h; cases h

theorem runM_ok (hL : QpackLaws Q) (hpp : cfg.k.blockedPushAsHeaders = false) {ord : List Nat → List Nat}
    (hord : OrdOK ord) :
    ∀ (l : List MStep) (m m' : MState), Inv m → Q.encOk (m.q.enc ++ encBytesM l) = true →
      runM Q cfg ord m l = .ok m' →
      Inv m' ∧ m'.q.enc = m.q.enc ++ encBytesM l ∧
        ∀ j, ∃ ev, runSched Q cfg (m.T j) (view j m.q) (proj j l) = .ok (m'.T j, view j m'.q, ev) ∧
          m'.L j = m.L j ++ ev := by
  intro l
  induction l with
  | nil =>
    intro m m' hI _ h
    simp only [runM, Except.ok.injEq] at h
    subst h
    exact ⟨hI, by simp [encBytesM], fun j => ⟨[], rfl, by simp⟩⟩
  | cons st r ih =>
    intro m m' hI hok h
    rw [encBytesM_cons, ← List.append_assoc] at hok
    have hok1 := encOk_prefix Q hL _ _ hok
    simp only [runM] at h
    cases hs : stepM Q cfg ord m st with
    | error e => rw [hs] at h; cases h
    | ok m1 =>
      rw [hs] at h
      dsimp only at h
      obtain ⟨hI1, henc1, hall1⟩ := stepM_ok Q cfg hL hpp hord m m1 st hI hok1 hs
      obtain ⟨hI', henc', hall'⟩ := ih m1 m' hI1 (by rw [henc1]; exact hok) h
      refine ⟨hI', by rw [henc', henc1, encBytesM_cons, List.append_assoc], fun j => ?_⟩
      obtain ⟨ev1, h1, hl1⟩ := hall1 j
      obtain ⟨ev2, h2, hl2⟩ := hall' j
      refine ⟨ev1 ++ ev2, ?_, by rw [hl2, hl1, List.append_assoc]⟩
      rw [proj_cons, runSched_append, h1]
      simp only [andThen, h2]

theorem runM_err (hL : QpackLaws Q) (hpp : cfg.k.blockedPushAsHeaders = false) {ord : List Nat → List Nat}
    (hord : OrdOK ord) :
    ∀ (l : List MStep) (m : MState) (e : Err), Inv m → Q.encOk (m.q.enc ++ encBytesM l) = true →
      runM Q cfg ord m l = .error e →
      ∃ j, runSched Q cfg (m.T j) (view j m.q) (proj j l) = .error e := by
  intro l
  induction l with
  | nil => intro m e _ _ h; simp [runM] at h
  | cons st r ih =>
    intro m e hI hok h
    rw [encBytesM_cons, ← List.append_assoc] at hok
    have hok1 := encOk_prefix Q hL _ _ hok
    simp only [runM] at h
    cases hs : stepM Q cfg ord m st with
    | error e1 =>
      rw [hs] at h
      simp only [Except.error.injEq] at h
      subst h
      obtain ⟨j, hj⟩ := stepM_err Q cfg hL hpp hord m st e1 hI hok1 hs
      exact ⟨j, by rw [proj_cons, runSched_append, hj]; rfl⟩
    | ok m1 =>
      rw [hs] at h
      dsimp only at h
      obtain ⟨hI1, henc1, hall1⟩ := stepM_ok Q cfg hL hpp hord m m1 st hI hok1 hs
      obtain ⟨j, hj⟩ := ih m1 e hI1 (by rw [henc1]; exact hok) h
      obtain ⟨ev1, h1, _⟩ := hall1 j
      exact ⟨j, by rw [proj_cons, runSched_append, h1]; simp only [andThen, hj]⟩


theorem encBytes_proj (j : Nat) (l : List MStep) : encBytes (proj j l) = encBytesM l := by
  induction l with
  | nil => rfl
  | cons st r ih =>
    cases st with
    | req i c f =>
      simp only [proj, encBytesM]
      split
      · simp [encBytes, ih]
      · exact ih
    | enc x => simp [proj, encBytes, encBytesM, ih]

/-- nothing received yet on any stream, no header block waiting -/
structure Init (m : MState) : Prop where
  fresh : ∀ j, Fresh2 (m.T j)
  sid : ∀ j, (m.T j).p.streamId = j
  pend : m.q.pending = []

theorem Init.inv {m : MState} (h : Init m) : Inv m := by
  intro j
  refine ⟨h.sid j, ?_, ?_⟩
  · rw [h.pend]; simp [onlyOf]
  · intro _; rw [h.pend]; rfl

theorem Init.view {m : MState} (h : Init m) (j : Nat) : view j m.q = m.q := by
  have := h.pend
  cases hq : m.q
  rw [hq] at this
  simp only at this
  simp [AQ.H3.view, this, onlyOf]

/-- two schedules that deliver the same bytes (and FIN) on every request/push stream and the
    same bytes on the encoder stream -/
structure SameBytes (l1 l2 : List MStep) : Prop where
  wf1 : ∀ j, WF (proj j l1)
  wf2 : ∀ j, WF (proj j l2)
  req : ∀ j, reqBytes (proj j l1) = reqBytes (proj j l2)
  fin : ∀ j, finOf (proj j l1) = finOf (proj j l2)
  enc : encBytesM l1 = encBytesM l2

theorem local_independent (hL : QpackLaws Q) (ht : cfg.k.truncatedNoError = false)
    (hsil : cfg.k.silentFrameNoEnd = false) (hlog : cfg.k.logDecode = false)
    (hpp : cfg.k.blockedPushAsHeaders = false) {m0 : MState} (h0 : Init m0) {l1 l2 : List MStep}
    (hs : SameBytes l1 l2) (hok : Q.encOk (m0.q.enc ++ encBytesM l1) = true) (j : Nat) :
    REq (runSched Q cfg (m0.T j) (view j m0.q) (proj j l1)) (runSched Q cfg (m0.T j) (view j m0.q) (proj j l2)) := by
  refine sched_independent Q cfg hL ht hsil hlog hpp (h0.fresh j) _ ?_ _ _ (hs.wf1 j) (hs.wf2 j) (hs.req j)
    (hs.fin j) (by rw [encBytes_proj, encBytes_proj, hs.enc]) ?_
  · rw [h0.view j, h0.pend]; rfl
  · rw [h0.view j, encBytes_proj]; exact hok

/-- **Several request/push streams and the encoder stream, any two schedules, no error.**
    Stream by stream: same `H3Stream`, same view of the decoder (encoder bytes, own pending
    block), same normal form of the events its parser produced. -/
theorem multi_independent_ok (hL : QpackLaws Q) (ht : cfg.k.truncatedNoError = false)
    (hsil : cfg.k.silentFrameNoEnd = false) (hlog : cfg.k.logDecode = false)
    (hpp : cfg.k.blockedPushAsHeaders = false) {m0 : MState} (h0 : Init m0) {l1 l2 : List MStep}
    (hs : SameBytes l1 l2) (hok : Q.encOk (m0.q.enc ++ encBytesM l1) = true) {ord1 ord2 : List Nat → List Nat}
    (ho1 : OrdOK ord1) (ho2 : OrdOK ord2) (m1 m2 : MState)
    (h1 : runM Q cfg ord1 m0 l1 = .ok m1) (h2 : runM Q cfg ord2 m0 l2 = .ok m2) :
    m1.q.enc = m2.q.enc ∧ ∀ j, m1.T j = m2.T j ∧ view j m1.q = view j m2.q ∧ NEq (m1.L j) (m2.L j) := by
  obtain ⟨_, he1, ha1⟩ := runM_ok Q cfg hL hpp ho1 l1 m0 m1 h0.inv hok h1
  obtain ⟨_, he2, ha2⟩ := runM_ok Q cfg hL hpp ho2 l2 m0 m2 h0.inv (hs.enc ▸ hok) h2
  refine ⟨by rw [he1, he2, hs.enc], fun j => ?_⟩
  obtain ⟨ev1, r1, g1⟩ := ha1 j
  obtain ⟨ev2, r2, g2⟩ := ha2 j
  have R := local_independent Q cfg hL ht hsil hlog hpp h0 hs hok j
  rw [r1, r2] at R
  obtain ⟨e1, e2, e3⟩ := R
  exact ⟨e1, e2, by rw [g1, g2]; exact NEq.append (NEq.refl _) e3⟩

/-- **Closed / not closed is schedule independent**; the close code is the error of one of the
    streams (which one depends on the schedule, see the counterexample in Props/C14). -/
theorem multi_independent_err (hL : QpackLaws Q) (ht : cfg.k.truncatedNoError = false)
    (hsil : cfg.k.silentFrameNoEnd = false) (hlog : cfg.k.logDecode = false)
    (hpp : cfg.k.blockedPushAsHeaders = false) {m0 : MState} (h0 : Init m0) {l1 l2 : List MStep}
    (hs : SameBytes l1 l2) (hok : Q.encOk (m0.q.enc ++ encBytesM l1) = true) {ord1 ord2 : List Nat → List Nat}
    (ho1 : OrdOK ord1) (ho2 : OrdOK ord2) (e : Err)
    (h1 : runM Q cfg ord1 m0 l1 = .error e) :
    (∃ j, recvReq (qpackOracle Q) cfg (m0.T j) (m0.q.ext (encBytesM l1)) (reqBytes (proj j l1)) (finOf (proj j l1)) =
        .error e) ∧
    ∃ e' j', runM Q cfg ord2 m0 l2 = .error e' ∧
      recvReq (qpackOracle Q) cfg (m0.T j') (m0.q.ext (encBytesM l1)) (reqBytes (proj j' l1)) (finOf (proj j' l1)) =
        .error e' := by
  have canon : ∀ (l : List MStep) (j : Nat), (∀ j, WF (proj j l)) → Q.encOk (m0.q.enc ++ encBytesM l) = true →
      ∀ e, runSched Q cfg (m0.T j) (view j m0.q) (proj j l) = .error e →
        recvReq (qpackOracle Q) cfg (m0.T j) (m0.q.ext (encBytesM l)) (reqBytes (proj j l)) (finOf (proj j l)) =
          .error e := by
    intro l j hwf hokl e he
    have C := sched_canon' Q cfg hL ht hsil hlog hpp (h0.fresh j) (view j m0.q)
      (by rw [h0.view j, h0.pend]; rfl) (proj j l) (hwf j) (by rw [h0.view j, encBytes_proj]; exact hokl)
    rw [he, h0.view j, encBytes_proj] at C
    cases hc : recvReq (qpackOracle Q) cfg (m0.T j) (m0.q.ext (encBytesM l)) (reqBytes (proj j l))
        (finOf (proj j l)) with
    | error e2 => rw [hc] at C; simp only [REq] at C; rw [C]
    | ok v => rw [hc] at C; obtain ⟨a, b, c⟩ := v; simp [REq] at C
  obtain ⟨j, hj⟩ := runM_err Q cfg hL hpp ho1 l1 m0 e h0.inv hok h1
  refine ⟨⟨j, canon l1 j hs.wf1 hok e hj⟩, ?_⟩
  cases h2 : runM Q cfg ord2 m0 l2 with
  | error e' =>
    obtain ⟨j', hj'⟩ := runM_err Q cfg hL hpp ho2 l2 m0 e' h0.inv (hs.enc ▸ hok) h2
    refine ⟨e', j', rfl, ?_⟩
    have := canon l2 j' hs.wf2 (hs.enc ▸ hok) e' hj'
    rw [← hs.enc, ← hs.req j', ← hs.fin j'] at this
    exact this
  | ok m2 =>
    exfalso
    obtain ⟨_, _, ha2⟩ := runM_ok Q cfg hL hpp ho2 l2 m0 m2 h0.inv (hs.enc ▸ hok) h2
    obtain ⟨ev2, r2, _⟩ := ha2 j
    have R := local_independent Q cfg hL ht hsil hlog hpp h0 hs hok j
    rw [hj, r2] at R
    exact R

end
end AQ.H3

namespace AQ.H3
section
variable {σ : Type} (o : Oracle σ)

/-- **the `.enc` step is `_receive_stream_data_uni` on the QPACK encoder stream**: for a
    stream whose type (2) is already known and whose buffer is empty, a non-empty delivery
    `x` is `feed_encoder(x)` — error = QPACK_ENCODER_STREAM_ERROR (0x201) — followed by the
    `for stream_id in unblocked_streams` loop, the stream stored back with an empty buffer. -/
theorem recvUni_encoder (c : Conn σ) (se : Stream) (x : Bytes) (ht : se.streamType = some 2)
    (hb : se.buffer = []) (hx : x ≠ []) :
    recvUni o c se x false =
      match o.feedEncoder c.q x with
      | (.error, _) => .error (.h3 0x201)
      | (.unblocked ids, q1) =>
        processUnblocked o ids
          { c with q := q1,
                   streams := setS se.streamId { se with receivingEnded := se.receivingEnded || false } c.streams } [] := by
  unfold recvUni
  simp only [hb, List.nil_append]
  rw [uniLoop]
  simp only [ht, isLoopingType, hx, and_false, ↓reduceIte, uniType]
  cases hf : o.feedEncoder c.q x with
  | mk r q1 =>
    cases r with
    | error => rfl
    | unblocked ids =>
      simp only [uniLoop, ht, isLoopingType, List.nil_append]
      rfl

end
end AQ.H3
