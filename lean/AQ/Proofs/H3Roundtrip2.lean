/-
  C14 round trip: HEADERS, any number of DATA frames, trailers.
-/
import AQ.Proofs.H3Roundtrip
namespace AQ.H3
section
variable {σ : Type} (o : Oracle σ) (cfg : Cfg)

/-- `fs` are the frames `encode_frame(DATA, d)` for the payloads `ds` -/
def EncData : List Bytes → List Bytes → Prop
  | [], [] => True
  | d :: ds, f :: fs => encodeFrame 0 d = some f ∧ EncData ds fs
  | _, _ => False

/-- events of DATA frames that are not the last thing on the stream -/
def dataEvents (sid : Nat) (pid : Option Nat) : List Bytes → List Event
  | [] => []
  | d :: ds => (if d ≠ [] then [Event.data d sid false pid] else []) ++ dataEvents sid pid ds

def totalLen : List Bytes → Nat
  | [] => 0
  | d :: ds => d.length + totalLen ds

theorem totalLen_flatten (ds : List Bytes) : totalLen ds = ds.flatten.length := by
  induction ds with
  | nil => rfl
  | cons d r ih => simp [totalLen, ih]

theorem normOf_dataEvents (sid : Nat) (pid : Option Nat) (ds : List Bytes) :
    normOf sid (dataEvents sid pid ds) = { Norm.empty with body := ds.flatten } := by
  induction ds with
  | nil => rfl
  | cons d r ih =>
    simp only [dataEvents, normOf_append, ih, List.flatten_cons]
    by_cases hd : d = [] <;> simp [hd, normOf, normEv, Norm.append, Norm.empty, orFirst]

/-- the loop consumes a run of DATA frames that is followed by something else -/
theorem reqLoop_dataFrames (hv : VarintLaw) (ea : Bool) : ∀ (ds fs : List Bytes), EncData ds fs →
    ∀ (fuel : Nat) (s : Stream) (q : σ) (tail : Bytes), tail ≠ [] → s.frameSize = none → s.frameType = none →
      s.p.recvState = .afterHeaders →
      reqLoop o cfg ea (fuel + ds.length) s q (fs.flatten ++ tail) =
        match reqLoop o cfg ea fuel
          { s with p := { s.p with contentLength := s.p.contentLength + totalLen ds } } q tail with
        | .error e => .error e
        | .ok res => .ok (res.prepend (dataEvents s.p.streamId s.p.pushId ds)) := by
  intro ds
  induction ds with
  | nil =>
    intro fs h fuel s q tail _ _ _ _
    cases fs with
    | cons _ _ => exact h.elim
    | nil =>
      have : ({ s with p := { s.p with contentLength := s.p.contentLength + totalLen [] } } : Stream) = s := by
        cases s; rfl
      simp only [List.length_nil, Nat.add_zero, List.flatten_nil, List.nil_append, this, dataEvents]
      cases reqLoop o cfg ea fuel s q tail with
      | error e => rfl
      | ok res => cases res <;> simp [LoopRes.prepend]
  | cons d ds ih =>
    intro fs h fuel s q tail htail hfs hft hrs
    cases fs with
    | nil => exact h.elim
    | cons f fs =>
      obtain ⟨hf, hrest⟩ := h
      have hne : fs.flatten ++ tail ≠ [] := by simp [htail]
      have hemp : (fs.flatten ++ tail).isEmpty = false := by
        cases hx : fs.flatten ++ tail with
        | nil => exact absurd hx hne
        | cons _ _ => rfl
      rw [show fuel + (d :: ds).length = (fuel + ds.length) + 1 by simp; omega]
      rw [show (f :: fs).flatten ++ tail = f ++ (fs.flatten ++ tail) by simp]
      rw [reqLoop_oneFrame o cfg hv ea _ s q 0 d f _ hf (by decide) hfs]
      rw [hemp, Bool.and_false, handleFrame_data, if_neg (by simp [hrs])]
      simp only [Bool.false_eq_true, ↓reduceIte, false_or]
      have hih := ih fs hrest fuel
        { s with frameSize := none, frameType := none, p := { s.p with contentLength := s.p.contentLength + d.length } }
        q tail htail rfl rfl hrs
      dsimp only at hih ⊢
      rw [hih]
      have e1 : s.p.contentLength + d.length + totalLen ds = s.p.contentLength + totalLen (d :: ds) := by
        simp [totalLen, Nat.add_assoc]
      rw [e1]
      simp only [hfs, hft]
      cases reqLoop o cfg ea fuel _ q tail with
      | error e => rfl
      | ok res => cases res <;> simp [LoopRes.prepend, dataEvents, List.append_assoc]


theorem setExpectedCL_not_initial (p : PState) (cl : Option Nat) (h : p.recvState ≠ .initial) :
    setExpectedCL p cl = p := by
  unfold setExpectedCL; rw [if_neg h]

theorem EncData_length : ∀ (ds fs : List Bytes), EncData ds fs → ds.length ≤ fs.flatten.length := by
  intro ds
  induction ds with
  | nil => intro fs _; exact Nat.zero_le _
  | cons d r ih =>
    intro fs h
    cases fs with
    | nil => exact h.elim
    | cons f fs =>
      obtain ⟨hf, hr⟩ := h
      have : f.length ≠ 0 := fun h0 => encodeFrame_ne_nil hf (List.length_eq_zero_iff.mp h0)
      have := ih fs hr
      simp only [List.flatten_cons, List.length_append, List.length_cons]; omega

/-- `send_headers(hs)`, `send_data(d₁)` … `send_data(dₙ)`, `send_headers(trailers, end_stream=True)`
    received in ONE delivery on a fresh stream of the peer -/
theorem recv_headers_datas_trailers (hv : VarintLaw) (hlog : cfg.logging = false) {s : Stream} (hs : Fresh s)
    (hst : s.p.recvState = .initial) (hecl : s.p.expectedCL = none) (hcl0 : s.p.contentLength = 0)
    (q q1 q2 q3 q4 : σ) (blk blkT fH fT : Bytes) (ds fs : List Bytes) (hdrs hdrsT : Headers) (cl clT : Option Nat)
    (hfH : encodeFrame 1 blk = some fH) (hfs : EncData ds fs) (hfT : encodeFrame 1 blkT = some fT)
    (hdec : o.decode q s.p.streamId blk = (.headers hdrs, q1))
    (hval : o.validate q1 (if cfg.isClient then .response else .request) hdrs = (.ok cl, q2))
    (hdecT : o.decode q2 s.p.streamId blkT = (.headers hdrsT, q3))
    (hvalT : o.validate q3 .trailers hdrsT = (.ok clT, q4))
    (hclv : cl = none ∨ cl = some (totalLen ds)) :
    ∃ s' evs, recvReq o cfg s q (fH ++ (fs.flatten ++ fT)) true = .ok (s', q4, evs) ∧
      normOf s.p.streamId evs =
        { headers := [(hdrs, s.p.pushId), (hdrsT, s.p.pushId)], body := ds.flatten, pushes := [], wt := [],
          wtSession := none, datagrams := [], ended := true } := by
  have hfTne := encodeFrame_ne_nil hfT
  have hfHne := encodeFrame_ne_nil hfH
  have hfHl : fH.length ≠ 0 := fun h => hfHne (List.length_eq_zero_iff.mp h)
  have hfTl : fT.length ≠ 0 := fun h => hfTne (List.length_eq_zero_iff.mp h)
  have hdl := EncData_length ds fs hfs
  rw [recvReq_entry o cfg s q _ true hs.blocked hs.sessionId hs.receivingEnded
    (by intro sz _ hz; rw [hs.frameSize] at hz; cases hz) (by rw [hs.buffer]; simp [hfHne])]
  rw [hs.buffer, hs.eta]
  simp only [List.nil_append]
  have hF : ds.length + 2 ≤ (fH ++ (fs.flatten ++ fT)).length := by
    simp only [List.length_append]
    have h1 : 1 ≤ fH.length := Nat.pos_of_ne_zero hfHl
    have h2 : 1 ≤ fT.length := Nat.pos_of_ne_zero hfTl
    calc ds.length + 2 = 1 + (ds.length + 1) := by rw [Nat.add_comm 1]
      _ ≤ fH.length + (fs.flatten.length + fT.length) := Nat.add_le_add h1 (Nat.add_le_add hdl h2)
  generalize hFe : (fH ++ (fs.flatten ++ fT)).length = F at hF
  obtain ⟨k, hk⟩ := Nat.exists_eq_add_of_le hF
  have hlen : F + 1 = (((k + 1) + 1) + ds.length) + 1 := by
    rw [hk]; omega
  rw [hlen]
  rw [reqLoop_oneFrame o cfg hv true _ (withRE true s) q 1 blk fH _ hfH (by decide) hs.frameSize]
  have hemp : (fs.flatten ++ fT).isEmpty = false := by
    cases hx : fs.flatten ++ fT with
    | nil => simp at hx; exact absurd hx.2 hfTne
    | cons _ _ => rfl
  simp only [withRE, hemp, Bool.and_false]
  rw [handleFrame_headers]
  simp only [hst, reduceCtorEq, ↓reduceIte, hdec]
  unfold finishHeaders
  simp only [hst, ↓reduceIte, hval, Bool.false_eq_true, logStep, hlog]
  have hrs : (setExpectedCL s.p cl).recvState = .initial := by
    unfold setExpectedCL; rw [if_pos hst]; cases cl <;> exact hst
  rw [reqLoop_dataFrames o cfg hv true ds fs hfs _ _ q2 fT hfTne rfl rfl (by simp [hrs])]
  simp only [hrs, ↓reduceIte]
  have hfT' : fT = fT ++ [] := by simp
  rw [hfT']
  rw [reqLoop_oneFrame o cfg hv true _ _ q2 1 blkT fT [] hfT (by decide) rfl]
  simp only [List.isEmpty_nil, Bool.and_true]
  rw [handleFrame_headers]
  have hsid : (setExpectedCL s.p cl).streamId = s.p.streamId := setExpectedCL_streamId _ _
  have hpid : (setExpectedCL s.p cl).pushId = s.p.pushId := setExpectedCL_pushId _ _
  simp only [reduceCtorEq, ↓reduceIte, hsid, hdecT]
  unfold finishHeaders
  simp only [reduceCtorEq, ↓reduceIte, hvalT, logStep, hlog]
  rw [setExpectedCL_not_initial (cl := clT)]
  rotate_left
  · simp
  rw [checkCL_ok _ (by
    unfold setExpectedCL
    rw [if_pos hst]
    rcases hclv with rfl | rfl
    · left; exact hecl
    · right; simp [hcl0])]
  simp only [reqLoop_nil, prepend_brk, List.append_nil, loopPost, Option.isSome_none, ne_eq,
    not_true_eq_false, Bool.false_eq_true, or_self, and_false, ↓reduceIte, reduceCtorEq]
  refine ⟨_, _, rfl, ?_⟩
  simp only [List.cons_append, List.nil_append, normOf, normOf_append, hpid]
  rw [normOf_dataEvents]
  simp [normEv, Norm.append, Norm.empty, orFirst]

end
end AQ.H3
