/-
  Loss detection is COMPLETE (the "at least once" half next to the "at most
  once" of C08): what `_detect_loss`, `on_ack_received`,
  `on_loss_detection_timeout` and `get_loss_detection_time` of the recovery
  model (AQ/Model/Recovery.lean, tied bit-exactly to recovery.py by checks/c08.py)
  guarantee to report.  Generic in the arithmetic `FArith F`.  Core Lean only.
-/
import AQ.Proofs.Recovery

namespace AQ.Recovery
open AQ AQ.RangeSet

variable {F : Type}

/-! ## `sent_packets` in increasing packet-number order -/

/-- the dict of a space lists its packets in increasing packet-number order
    (the connection draws packet numbers from one increasing counter) -/
def SortedSp (s : Space F) : Prop := (s.sent.map (·.pn)).Pairwise (· < ·)

def SortedInv (r : Rec F) : Prop := ∀ s ∈ r.spaces, SortedSp s

theorem sortedSp_sublist {s s' : Space F} (h : SortedSp s) (hsub : s'.sent.Sublist s.sent) : SortedSp s' :=
  List.Pairwise.sublist (hsub.map _) h

theorem sortedSp_nodup {s : Space F} (h : SortedSp s) : (s.sent.map (·.pn)).Nodup :=
  List.Pairwise.imp (fun hlt => Nat.ne_of_lt hlt) h

/-- tracked sets only shrink, keeping their order -/
def SubShrinks (r r' : Rec F) : Prop :=
  ∀ (j : Nat) (t' : Space F), r'.spaces[j]? = some t' →
    ∃ t, r.spaces[j]? = some t ∧ t'.sent.Sublist t.sent

theorem SubShrinks.refl (r : Rec F) : SubShrinks r r := fun _ t' h => ⟨t', h, List.Sublist.refl _⟩

theorem SubShrinks.trans {a b c : Rec F} (h1 : SubShrinks a b) (h2 : SubShrinks b c) : SubShrinks a c := by
  intro j t'' h
  obtain ⟨t', ht', s2⟩ := h2 j t'' h
  obtain ⟨t, ht, s1⟩ := h1 j t' ht'
  exact ⟨t, ht, s2.trans s1⟩

theorem SubShrinks.of_spaces_eq {r r' : Rec F} (h : r'.spaces = r.spaces) : SubShrinks r r' := by
  intro j t' ht'; rw [h] at ht'; exact ⟨t', ht', List.Sublist.refl _⟩

theorem SubShrinks.set {r : Rec F} {i : Nat} {s s' : Space F} (hs : r.spaces[i]? = some s)
    (hsub : s'.sent.Sublist s.sent) {r' : Rec F} (h : r'.spaces = r.spaces.set i s') : SubShrinks r r' := by
  intro j t' ht'
  rw [h] at ht'
  by_cases hj : i = j
  · subst hj
    have hlt : i < r.spaces.length := (List.getElem?_eq_some_iff.1 hs).1
    rw [List.getElem?_set_self hlt] at ht'
    injection ht' with ht'; subst ht'
    exact ⟨s, hs, hsub⟩
  · rw [List.getElem?_set_ne hj] at ht'
    exact ⟨t', ht', List.Sublist.refl _⟩

theorem SortedInv.of_subShrinks {r r' : Rec F} (h : SortedInv r) (hs : SubShrinks r r') : SortedInv r' := by
  intro t' ht'
  obtain ⟨j, hj⟩ := List.getElem?_of_mem ht'
  obtain ⟨t, ht, hsub⟩ := hs j t' hj
  exact sortedSp_sublist (h t (List.mem_of_getElem? ht)) hsub

/-! ## `_on_packets_lost`, field by field -/

theorem lostFold_fields (ps : List (Pkt F)) (s : Space F) :
    let s' := ps.foldl (fun (s : Space F) p =>
      let s := { s with sent := s.sent.filter (fun q => q.pn ≠ p.pn) }
      if p.ackEliciting then { s with aeInFlight := s.aeInFlight - 1 } else s) s
    s'.lossTime = s.lossTime ∧ s'.largestAcked = s.largestAcked := by
  induction ps generalizing s with
  | nil => exact ⟨rfl, rfl⟩
  | cons p ps ih =>
    simp only [List.foldl_cons]
    have := ih (if p.ackEliciting then
        { s with sent := s.sent.filter (fun q => q.pn ≠ p.pn), aeInFlight := s.aeInFlight - 1 }
      else { s with sent := s.sent.filter (fun q => q.pn ≠ p.pn) })
    refine ⟨this.1.trans ?_, this.2.trans ?_⟩ <;> split <;> rfl

/-- everything `_on_packets_lost` does that the completeness statements look at -/
theorem onPacketsLost_spec (A : FArith F) (r : Rec F) (i : Nat) (now : F) (ps : List (Pkt F)) (s : Space F)
    (hs : r.spaces[i]? = some s) :
    ∃ s', (onPacketsLost A r i now ps).spaces = r.spaces.set i s' ∧
      s'.sent = removeAll s.sent ps ∧ s'.lossTime = s.lossTime ∧ s'.largestAcked = s.largestAcked ∧
      (onPacketsLost A r i now ps).log = (ps.map (fun p => (p.uid, Delivery.lost))).reverse ++ r.log ∧
      (onPacketsLost A r i now ps).ptoCount = r.ptoCount ∧
      (onPacketsLost A r i now ps).probes = r.probes ∧
      (onPacketsLost A r i now ps).rttInitialized = r.rttInitialized ∧
      (onPacketsLost A r i now ps).rttLatest = r.rttLatest ∧
      (onPacketsLost A r i now ps).rttSmoothed = r.rttSmoothed ∧
      (onPacketsLost A r i now ps).rttInitial = r.rttInitial := by
  unfold onPacketsLost
  rw [hs]
  simp only []
  have h1 := (lostFold_spec ps s).1
  have h2 := lostFold_fields ps s
  simp only [] at h2
  split <;> exact ⟨_, rfl, h1, h2.1, h2.2, rfl, rfl, rfl, rfl, rfl, rfl, rfl⟩

theorem not_mem_removeAll {snt ps : List (Pkt F)} {p q : Pkt F} (hp : p ∈ ps) (hq : q.pn = p.pn) :
    q ∉ removeAll snt ps := by
  induction ps generalizing snt with
  | nil => cases hp
  | cons a ps ih =>
    rw [removeAll_cons]
    rcases List.mem_cons.1 hp with rfl | hp
    · intro hmem
      have := (removeAll_sublist _ ps).subset hmem
      simp [hq] at this
    · exact ih hp

theorem mem_removeAll {snt ps : List (Pkt F)} {q : Pkt F} (hq : q ∈ snt) (hn : ∀ p ∈ ps, q.pn ≠ p.pn) :
    q ∈ removeAll snt ps := by
  induction ps generalizing snt with
  | nil => exact hq
  | cons a ps ih =>
    rw [removeAll_cons]
    apply ih
    · exact List.mem_filter.2 ⟨hq, by simpa using hn a (by simp)⟩
    · intro p hp; exact hn p (by simp [hp])

/-! ## The loop of `_detect_loss` -/

/-- the condition under which the loop declares a packet lost -/
def lostCond (A : FArith F) (la : Nat) (tt : F) (p : Pkt F) : Prop :=
  p.pn + 3 ≤ la ∨ A.le p.sentTime tt = true

instance (A : FArith F) (la : Nat) (tt : F) (p : Pkt F) : Decidable (lostCond A la tt p) := by
  unfold lostCond; infer_instance

/-- the running minimum kept in `space.loss_time` -/
def ltMin (A : FArith F) (lt : Option F) (x : F) : Option F :=
  match lt with
  | none => some x
  | some l => if A.lt x l then some x else some l

theorem detectLoop_cons_le (A : FArith F) (la : Nat) (tt ld : F) (p : Pkt F) (rest lost : List (Pkt F))
    (lt : Option F) (h : p.pn ≤ la) :
    detectLoop A la tt ld (p :: rest) lost lt =
      if lostCond A la tt p then detectLoop A la tt ld rest (p :: lost) lt
      else detectLoop A la tt ld rest lost (ltMin A lt (A.add p.sentTime ld)) := by
  rw [detectLoop]
  rw [if_neg (by omega)]
  by_cases hc : lostCond A la tt p
  · have hc' : p.pn + 3 ≤ la ∨ A.le p.sentTime tt = true := hc
    rw [if_pos hc, if_pos hc']
  · have hc' : ¬ (p.pn + 3 ≤ la ∨ A.le p.sentTime tt = true) := hc
    rw [if_neg hc, if_neg hc']
    cases lt <;> rfl

theorem detectLoop_acc (A : FArith F) (la : Nat) (tt ld : F) (l lost : List (Pkt F)) (lt : Option F) :
    ∀ q ∈ lost, q ∈ (detectLoop A la tt ld l lost lt).1 := by
  induction l generalizing lost lt with
  | nil => intro q hq; simp [detectLoop, hq]
  | cons p rest ih =>
    intro q hq
    rw [detectLoop]
    split
    · simp [hq]
    · split
      · exact ih _ _ q (by simp [hq])
      · exact ih _ _ q hq

theorem detectLoop_lt_some (A : FArith F) (la : Nat) (tt ld : F) (l lost : List (Pkt F)) (lt : Option F)
    (h : lt.isSome = true) : (detectLoop A la tt ld l lost lt).2.isSome = true := by
  induction l generalizing lost lt with
  | nil => simp [detectLoop, h]
  | cons p rest ih =>
    rw [detectLoop]
    split
    · exact h
    · split
      · exact ih _ _ h
      · apply ih
        cases lt with
        | none => rfl
        | some l => simp only []; split <;> rfl

/-- COMPLETENESS of the loop on a dict in increasing packet-number order: every
    packet at or below the largest acknowledged one is examined; it is declared
    lost if it is 3 or more below the largest acknowledged or was sent at or
    before the time threshold; otherwise `loss_time` is set. -/
theorem detectLoop_complete (A : FArith F) (la : Nat) (tt ld : F) (l lost : List (Pkt F)) (lt : Option F)
    (hs : (l.map (·.pn)).Pairwise (· < ·)) :
    (∀ q ∈ l, q.pn ≤ la → lostCond A la tt q → q ∈ (detectLoop A la tt ld l lost lt).1) ∧
    (∀ q ∈ l, q.pn ≤ la → ¬ lostCond A la tt q → (detectLoop A la tt ld l lost lt).2.isSome = true) := by
  induction l generalizing lost lt with
  | nil => exact ⟨(fun q hq => by cases hq), (fun q hq => by cases hq)⟩
  | cons p rest ih =>
    have hs' : (rest.map (·.pn)).Pairwise (· < ·) := by
      simp only [List.map_cons, List.pairwise_cons] at hs; exact hs.2
    have hhead : ∀ q ∈ rest, p.pn < q.pn := by
      simp only [List.map_cons, List.pairwise_cons] at hs
      intro q hq; exact hs.1 q.pn (List.mem_map.2 ⟨q, hq, rfl⟩)
    by_cases hp : p.pn ≤ la
    · rw [detectLoop_cons_le A la tt ld p rest lost lt hp]
      by_cases hc : lostCond A la tt p
      · rw [if_pos hc]
        obtain ⟨i1, i2⟩ := ih (p :: lost) lt hs'
        refine ⟨?_, ?_⟩
        · intro q hq hle hcq
          rcases List.mem_cons.1 hq with rfl | hq
          · exact detectLoop_acc A la tt ld rest _ lt q (by simp)
          · exact i1 q hq hle hcq
        · intro q hq hle hcq
          rcases List.mem_cons.1 hq with rfl | hq
          · exact absurd hc hcq
          · exact i2 q hq hle hcq
      · rw [if_neg hc]
        obtain ⟨i1, i2⟩ := ih lost (ltMin A lt (A.add p.sentTime ld)) hs'
        refine ⟨?_, ?_⟩
        · intro q hq hle hcq
          rcases List.mem_cons.1 hq with rfl | hq
          · exact absurd hcq hc
          · exact i1 q hq hle hcq
        · intro q hq hle hcq
          rcases List.mem_cons.1 hq with rfl | hq
          · apply detectLoop_lt_some
            unfold ltMin; cases lt with
            | none => rfl
            | some l => simp only []; split <;> rfl
          · exact i2 q hq hle hcq
    · -- the loop breaks here; by the order nothing at or below `la` follows
      refine ⟨?_, ?_⟩ <;>
      · intro q hq hle _
        rcases List.mem_cons.1 hq with rfl | hq
        · exact absurd hle hp
        · have := hhead q hq; omega

/-- SOUNDNESS of the loop: only tracked packets at or below the largest
    acknowledged one that meet the condition are declared lost -/
theorem detectLoop_sound (A : FArith F) (la : Nat) (tt ld : F) (l lost : List (Pkt F)) (lt : Option F) :
    ∀ q ∈ (detectLoop A la tt ld l lost lt).1, q ∈ lost ∨ (q ∈ l ∧ q.pn ≤ la ∧ lostCond A la tt q) := by
  induction l generalizing lost lt with
  | nil => intro q hq; left; simpa [detectLoop] using hq
  | cons p rest ih =>
    intro q hq
    by_cases hp : p.pn ≤ la
    · rw [detectLoop_cons_le A la tt ld p rest lost lt hp] at hq
      by_cases hc : lostCond A la tt p
      · rw [if_pos hc] at hq
        rcases ih _ _ q hq with h | ⟨h1, h2, h3⟩
        · rcases List.mem_cons.1 h with rfl | h
          · exact Or.inr ⟨by simp, hp, hc⟩
          · exact Or.inl h
        · exact Or.inr ⟨by simp [h1], h2, h3⟩
      · rw [if_neg hc] at hq
        rcases ih _ _ q hq with h | ⟨h1, h2, h3⟩
        · exact Or.inl h
        · exact Or.inr ⟨by simp [h1], h2, h3⟩
    · rw [detectLoop, if_pos (by omega)] at hq
      left; simpa using hq

/-! ## `_detect_loss` -/

/-- `loss_delay` exactly as `_detect_loss` computes it:
    `K_TIME_THRESHOLD * (max(latest_rtt, smoothed_rtt) if rtt_initialized else rtt_initial)`
    (aioquic applies no K_GRANULARITY floor) -/
def lossDelay (A : FArith F) (r : Rec F) : F :=
  A.mul (A.ratio 9 8) (if r.rttInitialized then A.pmax r.rttLatest r.rttSmoothed else r.rttInitial)

/-- `time_threshold = now - loss_delay` -/
def timeThreshold (A : FArith F) (r : Rec F) (now : F) : F := A.sub now (lossDelay A r)

structure DetectSpec (A : FArith F) (r r' : Rec F) (i : Nat) (now : F) (s s' : Space F) (lost : List (Pkt F)) :
    Prop where
  spaces : r'.spaces = r.spaces.set i s'
  la : s'.largestAcked = s.largestAcked
  sent : s'.sent = removeAll s.sent lost
  log : r'.log = (lost.map (fun p => (p.uid, Delivery.lost))).reverse ++ r.log
  /-- completeness -/
  complete : ∀ q ∈ s.sent, q.pn ≤ s.largestAcked →
    lostCond A s.largestAcked (timeThreshold A r now) q → q ∈ lost
  /-- soundness -/
  sound : ∀ q ∈ lost, q ∈ s.sent ∧ q.pn ≤ s.largestAcked ∧ lostCond A s.largestAcked (timeThreshold A r now) q
  /-- a packet at or below the largest acknowledged one that is not declared lost arms the timer -/
  timer : (∃ q ∈ s.sent, q.pn ≤ s.largestAcked ∧ ¬ lostCond A s.largestAcked (timeThreshold A r now) q) →
    s'.lossTime.isSome = true
  pto : r'.ptoCount = r.ptoCount
  probes : r'.probes = r.probes
  delay : lossDelay A r' = lossDelay A r
  /-- `space.loss_time` is what the loop computed -/
  lossTime_eq : s'.lossTime =
    (detectLoop A s.largestAcked (timeThreshold A r now) (lossDelay A r) s.sent [] none).2

theorem detectLoss_spec (A : FArith F) (r : Rec F) (i : Nat) (now : F) (s : Space F)
    (hs : r.spaces[i]? = some s) (hso : SortedSp s) :
    ∃ s' lost, DetectSpec A r (detectLoss A r i now) i now s s' lost := by
  have hlt : i < r.spaces.length := (List.getElem?_eq_some_iff.1 hs).1
  unfold detectLoss
  rw [hs]
  simp only []
  have hc := detectLoop_complete A s.largestAcked (timeThreshold A r now) (lossDelay A r) s.sent [] none hso
  have hsd := detectLoop_sound A s.largestAcked (timeThreshold A r now) (lossDelay A r) s.sent [] none
  have e1 : A.sub now (A.mul (A.ratio 9 8)
      (if r.rttInitialized then A.pmax r.rttLatest r.rttSmoothed else r.rttInitial)) = timeThreshold A r now := rfl
  have e2 : A.mul (A.ratio 9 8)
      (if r.rttInitialized then A.pmax r.rttLatest r.rttSmoothed else r.rttInitial) = lossDelay A r := rfl
  rw [e1, e2]
  generalize hres : detectLoop A s.largestAcked (timeThreshold A r now) (lossDelay A r) s.sent [] none = res at hc hsd
  obtain ⟨lost, lt⟩ := res
  simp only [] at hc hsd ⊢
  have hs1 : (r.setSpace i { s with lossTime := lt }).spaces[i]? = some { s with lossTime := lt } := by
    simp [Rec.setSpace, List.getElem?_set_self hlt]
  obtain ⟨s', k1, k2, k3, k4, k5, k6, k7, k8, k9, k10, k11⟩ :=
    onPacketsLost_spec A (r.setSpace i { s with lossTime := lt }) i now lost _ hs1
  refine ⟨s', lost, ?_, k4, k2, k5, hc.1, ?_, ?_, k6, k7, ?_, ?_⟩
  · rw [k1]; simp [Rec.setSpace]
  · intro q hq
    rcases hsd q hq with h | h
    · cases h
    · exact h
  · rintro ⟨q, hq, hle, hn⟩
    rw [k3]; exact hc.2 q hq hle hn
  · unfold lossDelay; rw [k8, k9, k10, k11]; rfl
  · rw [k3, hres]

/-- what a packet declared lost looks like afterwards: no longer tracked, its
    handlers were invoked with LOST -/
theorem DetectSpec.lost_reported {A : FArith F} {r r' : Rec F} {i : Nat} {now : F} {s s' : Space F}
    {lost : List (Pkt F)} (h : DetectSpec A r r' i now s s' lost) {q : Pkt F} (hq : q ∈ lost) :
    q ∉ s'.sent ∧ (q.uid, Delivery.lost) ∈ r'.log := by
  refine ⟨by rw [h.sent]; exact not_mem_removeAll hq rfl, ?_⟩
  rw [h.log]
  simp only [List.mem_append, List.mem_reverse, List.mem_map]
  exact Or.inl ⟨q, hq, rfl⟩

/-- a survivor at or below the largest acknowledged packet is within both
    thresholds, and the space's `loss_time` is armed -/
theorem DetectSpec.survivor {A : FArith F} {r r' : Rec F} {i : Nat} {now : F} {s s' : Space F}
    {lost : List (Pkt F)} (h : DetectSpec A r r' i now s s' lost) {q : Pkt F} (hq : q ∈ s'.sent)
    (hle : q.pn ≤ s.largestAcked) :
    q ∈ s.sent ∧ ¬ lostCond A s.largestAcked (timeThreshold A r now) q ∧ s'.lossTime.isSome = true := by
  have hqs : q ∈ s.sent := by rw [h.sent] at hq; exact mem_of_mem_removeAll hq
  have hn : ¬ lostCond A s.largestAcked (timeThreshold A r now) q := by
    intro hc
    have := h.complete q hqs hle hc
    rw [h.sent] at hq
    exact not_mem_removeAll this rfl hq
  exact ⟨hqs, hn, h.timer ⟨q, hqs, hle, hn⟩⟩

theorem detectLoss_subShrinks (A : FArith F) (r : Rec F) (i : Nat) (now : F) (hso : SortedInv r) :
    SubShrinks r (detectLoss A r i now) := by
  cases hs : r.spaces[i]? with
  | none => unfold detectLoss; rw [hs]; exact SubShrinks.refl r
  | some s =>
    obtain ⟨s', lost, h⟩ := detectLoss_spec A r i now s hs (hso s (List.mem_of_getElem? hs))
    exact SubShrinks.set hs (by rw [h.sent]; exact removeAll_sublist _ _) h.spaces

/-! ## `on_ack_received` -/

theorem ackFold_more (A : FArith F) (la : Int) (rs : List Rg) (now : F) (L : List (Pkt F)) (acc : AckAcc F) :
    (L.foldl (ackBody A la rs now) acc).s.largestAcked = acc.s.largestAcked ∧
    ((L.filter (ackedP la rs) ≠ [] ∨ (acc.largestNewly.isSome = true ∧ acc.largestSentTime.isSome = true)) →
      (L.foldl (ackBody A la rs now) acc).largestNewly.isSome = true ∧
      (L.foldl (ackBody A la rs now) acc).largestSentTime.isSome = true) ∧
    (L.foldl (ackBody A la rs now) acc).r.ptoCount = acc.r.ptoCount ∧
    (L.foldl (ackBody A la rs now) acc).r.probes = acc.r.probes := by
  induction L generalizing acc with
  | nil => exact ⟨rfl, fun h => by rcases h with h | h; exact absurd rfl h; exact h, rfl, rfl⟩
  | cons p L ih =>
    simp only [List.foldl_cons]
    by_cases hp : ackedP la rs p = true
    · have hb : ackBody A la rs now acc p =
          { r := { (if p.inFlight then { acc.r with cc := acc.r.cc.onPacketAcked A now p } else acc.r) with
                   log := (p.uid, Delivery.acked) :: (if p.inFlight then { acc.r with cc := acc.r.cc.onPacketAcked A now p } else acc.r).log },
            s := (if p.ackEliciting then
                    { acc.s with sent := acc.s.sent.filter (fun q => q.pn ≠ p.pn), aeInFlight := acc.s.aeInFlight - 1 }
                  else { acc.s with sent := acc.s.sent.filter (fun q => q.pn ≠ p.pn) }),
            isAe := acc.isAe || p.ackEliciting, largestNewly := some p.pn, largestSentTime := some p.sentTime } := by
        simp only [ackedP, Bool.and_eq_true, Bool.not_eq_true', decide_eq_false_iff_not] at hp
        simp only [ackBody, hp.1, hp.2, if_false, if_true]
      obtain ⟨i1, i2, i3, i4⟩ := ih (ackBody A la rs now acc p)
      refine ⟨?_, ?_, ?_, ?_⟩
      · rw [i1, hb]; simp only []; split <;> rfl
      · intro _; apply i2; right; rw [hb]; exact ⟨rfl, rfl⟩
      · rw [i3, hb]; simp only []; split <;> rfl
      · rw [i4, hb]; simp only []; split <;> rfl
    · have hb : ackBody A la rs now acc p = acc := by
        simp only [ackedP, Bool.and_eq_true, Bool.not_eq_true', decide_eq_false_iff_not, not_and] at hp
        unfold ackBody
        by_cases h1 : (p.pn : Int) > la
        · rw [if_pos h1]
        · rw [if_neg h1, if_neg (by simpa using hp h1)]
      have hf : (p :: L).filter (ackedP la rs) = L.filter (ackedP la rs) := by
        simp [hp]
      rw [hb, hf]; exact ih acc

/-- the state `_detect_loss` starts from inside `on_ack_received`: the loop has
    removed the newly acknowledged packets, the RTT sample (if any) was taken -/
structure AckSpec (A : FArith F) (r r' : Rec F) (i : Nat) (rs : List Rg) (now : F) (s s' : Space F) (b : Rg) :
    Prop where
  space : r'.spaces[i]? = some s'
  la : s'.largestAcked = (ackSpace s b).largestAcked
  /-- newly acknowledged packets: removed, reported ACKED, at or below the largest acknowledged -/
  acked : ∀ p ∈ s.sent, ackedP ((b.stop : Int) - 1) rs p = true →
    p.pn ≤ s'.largestAcked ∧ p ∉ s'.sent ∧ (p.uid, Delivery.acked) ∈ r'.log
  /-- COMPLETENESS: every other tracked packet at or below the largest acknowledged
      one that meets the packet or the time threshold is removed and reported LOST -/
  lost : ∀ q ∈ s.sent, ackedP ((b.stop : Int) - 1) rs q = false → q.pn ≤ s'.largestAcked →
    lostCond A s'.largestAcked (timeThreshold A r' now) q → q ∉ s'.sent ∧ (q.uid, Delivery.lost) ∈ r'.log
  /-- a survivor at or below the largest acknowledged arms the loss timer -/
  timer : ∀ q ∈ s'.sent, q.pn ≤ s'.largestAcked →
    ¬ lostCond A s'.largestAcked (timeThreshold A r' now) q ∧ s'.lossTime.isSome = true
  survivors : ∀ q ∈ s'.sent, q ∈ s.sent
  pto : r'.ptoCount = 0
  probes : r'.probes = r.probes

theorem rttUpdate_fields (A : FArith F) (r : Rec F) (ackDelay now lst : F) :
    (rttUpdate A r ackDelay now lst).spaces = r.spaces ∧ (rttUpdate A r ackDelay now lst).log = r.log ∧
    (rttUpdate A r ackDelay now lst).ptoCount = r.ptoCount ∧ (rttUpdate A r ackDelay now lst).probes = r.probes := by
  unfold rttUpdate
  simp only []
  split <;> exact ⟨rfl, rfl, rfl, rfl⟩

theorem eq_of_pn_eq {l : List (Pkt F)} (hnd : (l.map (·.pn)).Nodup) {p q : Pkt F} (hp : p ∈ l) (hq : q ∈ l)
    (h : p.pn = q.pn) : p = q := by
  induction l with
  | nil => cases hp
  | cons a l ih =>
    simp only [List.map_cons, List.nodup_cons, List.mem_map, not_exists, not_and] at hnd
    rcases List.mem_cons.1 hp with hpa | hpl
    · rcases List.mem_cons.1 hq with hqa | hql
      · rw [hpa, hqa]
      · subst hpa; exact absurd h.symm (hnd.1 q hql)
    · rcases List.mem_cons.1 hq with hqa | hql
      · subst hqa; exact absurd h (hnd.1 p hpl)
      · exact ih hnd.2 hpl hql

theorem ackSpace_la_ge (s : Space F) (b : Rg) (n : Nat) (h : ¬ ((n : Int) > (b.stop : Int) - 1)) :
    n ≤ (ackSpace s b).largestAcked := by
  unfold ackSpace
  split
  · simp only []; omega
  · omega

theorem lossDelay_pto (A : FArith F) (r : Rec F) (n : Nat) : lossDelay A { r with ptoCount := n } = lossDelay A r := rfl

/-- `on_ack_received` with at least one newly acknowledged packet -/
theorem onAckReceived_spec (A : FArith F) (r r' : Rec F) (i : Nat) (rs : List Rg) (ackDelay now : F)
    (s : Space F) (b : Rg) (hs : r.spaces[i]? = some s) (hb : bounds rs = some b) (hso : SortedSp s)
    (hnew : ∃ p ∈ s.sent, ackedP ((b.stop : Int) - 1) rs p = true)
    (h : onAckReceived A r i rs ackDelay now = .ok r') :
    ∃ s', AckSpec A r r' i rs now s s' b := by
  have hlt : i < r.spaces.length := (List.getElem?_eq_some_iff.1 hs).1
  have hnd := sortedSp_nodup hso
  rw [onAckReceived_eq A r i rs ackDelay now s b hs hb] at h
  have hs0sent : (ackSpace s b).sent = s.sent := ackSpace_sent s b
  have hperm := sortedByPn_perm s.sent
  rw [hs0sent] at h
  obtain ⟨f1, -, f3, f4, -, -⟩ :=
    ackFold_spec A ((b.stop : Int) - 1) rs now (sortedByPn s.sent) { r := r, s := ackSpace s b }
  obtain ⟨g1, g2, g3, g4⟩ :=
    ackFold_more A ((b.stop : Int) - 1) rs now (sortedByPn s.sent) { r := r, s := ackSpace s b }
  have hK : (sortedByPn s.sent).filter (ackedP ((b.stop : Int) - 1) rs) ≠ [] := by
    obtain ⟨p, hp, hap⟩ := hnew
    intro he
    have : p ∈ (sortedByPn s.sent).filter (ackedP ((b.stop : Int) - 1) rs) :=
      List.mem_filter.2 ⟨hperm.mem_iff.2 hp, hap⟩
    rw [he] at this; cases this
  obtain ⟨n1, n2⟩ := g2 (Or.inl hK)
  generalize hacc : (sortedByPn s.sent).foldl (ackBody A ((b.stop : Int) - 1) rs now)
    { r := r, s := ackSpace s b } = acc at h f1 f3 f4 g1 g3 g4 n1 n2
  generalize hKdef : (sortedByPn s.sent).filter (ackedP ((b.stop : Int) - 1) rs) = K at f1 f4 hK
  simp only [] at f1 f3 f4 g1 g3 g4
  rw [hs0sent] at f1
  have hKmem : ∀ p, p ∈ K ↔ p ∈ s.sent ∧ ackedP ((b.stop : Int) - 1) rs p = true := by
    intro p; rw [← hKdef, List.mem_filter, hperm.mem_iff]
  unfold ackTail at h
  simp only [] at h
  cases hln : acc.largestNewly with
  | none => rw [hln] at n1; cases n1
  | some ln =>
    cases hlst : acc.largestSentTime with
    | none => rw [hlst] at n2; cases n2
    | some lst =>
      rw [hln, hlst] at h
      simp only [] at h
      -- the state handed to `_detect_loss`
      generalize hr1 : (if ((b.stop : Int) - 1 = ln ∧ acc.isAe = true) then
          rttUpdate A (acc.r.setSpace i acc.s) ackDelay now lst else acc.r.setSpace i acc.s) = r1 at h
      have hr1f : r1.spaces = r.spaces.set i acc.s ∧ r1.log = acc.r.log ∧ r1.ptoCount = acc.r.ptoCount ∧
          r1.probes = acc.r.probes := by
        rw [← hr1]
        split
        · obtain ⟨a1, a2, a3, a4⟩ := rttUpdate_fields A (acc.r.setSpace i acc.s) ackDelay now lst
          exact ⟨by rw [a1]; simp [Rec.setSpace, f3], by rw [a2]; rfl, by rw [a3]; rfl, by rw [a4]; rfl⟩
        · exact ⟨by simp [Rec.setSpace, f3], rfl, rfl, rfl⟩
      have hs1 : r1.spaces[i]? = some acc.s := by rw [hr1f.1]; exact List.getElem?_set_self hlt
      have hsub : acc.s.sent.Sublist s.sent := by rw [f1]; exact removeAll_sublist _ _
      obtain ⟨s', lost, hd⟩ := detectLoss_spec A r1 i now acc.s hs1 (sortedSp_sublist hso hsub)
      injection h with h; subst h
      have hlt1 : i < r1.spaces.length := (List.getElem?_eq_some_iff.1 hs1).1
      have hth : timeThreshold A { (detectLoss A r1 i now) with ptoCount := 0 } now = timeThreshold A r1 now := by
        unfold timeThreshold; rw [lossDelay_pto, hd.delay]
      have hs'sub : ∀ q ∈ s'.sent, q ∈ acc.s.sent := fun q hq => by
        rw [hd.sent] at hq; exact mem_of_mem_removeAll hq
      refine ⟨s', ?_, by rw [hd.la, g1], ?_, ?_, ?_, ?_, rfl, ?_⟩
      · show (detectLoss A r1 i now).spaces[i]? = some s'
        rw [hd.spaces]; exact List.getElem?_set_self hlt1
      · intro p hp hap
        have hpK : p ∈ K := (hKmem p).2 ⟨hp, hap⟩
        have hle : ¬ ((p.pn : Int) > (b.stop : Int) - 1) := by
          simp only [ackedP, Bool.and_eq_true, Bool.not_eq_true', decide_eq_false_iff_not] at hap
          exact hap.1
        refine ⟨by rw [hd.la, g1]; exact ackSpace_la_ge s b p.pn hle, ?_, ?_⟩
        · intro hmem
          have := hs'sub p hmem
          rw [f1] at this
          exact not_mem_removeAll hpK rfl this
        · show (p.uid, Delivery.acked) ∈ (detectLoss A r1 i now).log
          rw [hd.log, hr1f.2.1, f4]
          simp only [List.mem_append, List.mem_reverse, List.mem_map]
          exact Or.inr (Or.inl ⟨p, hpK, rfl⟩)
      · intro q hq hnq hle hc
        have hqacc : q ∈ acc.s.sent := by
          rw [f1]
          apply mem_removeAll hq
          intro p hpK he
          obtain ⟨hp1, hp2⟩ := (hKmem p).1 hpK
          have := eq_of_pn_eq hnd hq hp1 he
          subst this
          rw [hp2] at hnq; cases hnq
        rw [hd.la] at hle hc
        rw [hth] at hc
        exact hd.lost_reported (hd.complete q hqacc hle hc)
      · intro q hq hle
        rw [hd.la] at hle ⊢
        rw [hth]
        have := hd.survivor hq hle
        exact ⟨this.2.1, this.2.2⟩
      · intro q hq; exact hsub.subset (hs'sub q hq)
      · show (detectLoss A r1 i now).probes = r.probes
        rw [hd.probes, hr1f.2.2.2, g4]

/-! ## The order invariant along histories -/

theorem onPacketsLost_subShrinks (A : FArith F) (r : Rec F) (i : Nat) (now : F) (ps : List (Pkt F)) :
    SubShrinks r (onPacketsLost A r i now ps) := by
  cases hs : r.spaces[i]? with
  | none => unfold onPacketsLost; rw [hs]; exact SubShrinks.refl r
  | some s =>
    obtain ⟨s', k1, k2, -⟩ := onPacketsLost_spec A r i now ps s hs
    exact SubShrinks.set hs (by rw [k2]; exact removeAll_sublist _ _) k1

theorem rescheduleFold_subShrinks (A : FArith F) (now : F) (idx : List Nat) (r : Rec F) :
    SubShrinks r (idx.foldl (fun (r : Rec F) i =>
      match r.spaces[i]? with
      | none => r
      | some s =>
        let ps := s.sent.filter (·.isCrypto)
        if ps ≠ [] then onPacketsLost A r i now ps else r) r) := by
  induction idx generalizing r with
  | nil => exact SubShrinks.refl r
  | cons i idx ih =>
    simp only [List.foldl_cons]
    refine SubShrinks.trans ?_ (ih _)
    cases hs : r.spaces[i]? with
    | none => exact SubShrinks.refl r
    | some s =>
      simp only []
      split
      · exact onPacketsLost_subShrinks A r i now _
      · exact SubShrinks.refl r

theorem onLossDetectionTimeout_subShrinks (A : FArith F) (r : Rec F) (now : F) (hso : SortedInv r) :
    SubShrinks r (onLossDetectionTimeout A r now) := by
  unfold onLossDetectionTimeout
  split
  · exact detectLoss_subShrinks A r _ now hso
  · unfold rescheduleData
    exact (SubShrinks.of_spaces_eq (r := r) (r' := { r with ptoCount := r.ptoCount + 1 }) rfl).trans
      ((rescheduleFold_subShrinks A now _ _).trans (SubShrinks.of_spaces_eq rfl))

theorem onAckReceived_subShrinks (A : FArith F) (r r' : Rec F) (i : Nat) (rs : List Rg) (ackDelay now : F)
    (hso : SortedInv r) (h : onAckReceived A r i rs ackDelay now = .ok r') : SubShrinks r r' := by
  cases hs : r.spaces[i]? with
  | none => simp [onAckReceived, hs] at h
  | some s =>
    cases hb : bounds rs with
    | none => unfold onAckReceived at h; rw [hs, hb] at h; simp at h
    | some b =>
      rw [onAckReceived_eq A r i rs ackDelay now s b hs hb] at h
      obtain ⟨f1, -, f3, -⟩ :=
        ackFold_spec A ((b.stop : Int) - 1) rs now (sortedByPn (ackSpace s b).sent) { r := r, s := ackSpace s b }
      generalize (sortedByPn (ackSpace s b).sent).foldl (ackBody A ((b.stop : Int) - 1) rs now)
        { r := r, s := ackSpace s b } = acc at h f1 f3
      simp only [] at f1 f3
      rw [ackSpace_sent] at f1
      have k1 : SubShrinks r (acc.r.setSpace i acc.s) :=
        SubShrinks.set hs (by rw [f1]; exact removeAll_sublist _ _) (by simp [Rec.setSpace, f3])
      have hso1 : SortedInv (acc.r.setSpace i acc.s) := hso.of_subShrinks k1
      have kk : ∀ lst, SubShrinks (acc.r.setSpace i acc.s) (rttUpdate A (acc.r.setSpace i acc.s) ackDelay now lst) :=
        fun lst => SubShrinks.of_spaces_eq (rttUpdate_fields A (acc.r.setSpace i acc.s) ackDelay now lst).1
      unfold ackTail at h
      simp only [] at h
      split at h
      · injection h with h; subst h
        refine k1.trans ?_
        split
        · exact (kk _).trans ((detectLoss_subShrinks A _ i now (hso1.of_subShrinks (kk _))).trans
            (SubShrinks.of_spaces_eq rfl))
        · exact (detectLoss_subShrinks A _ i now hso1).trans (SubShrinks.of_spaces_eq rfl)
      · injection h with h; subst h; exact k1

/-- caller obligation (stronger than `FreshPn`): a packet handed to
    `on_packet_sent` carries a packet number larger than every number tracked in
    its space — the connection draws packet numbers from one increasing counter -/
def IncPn (r : Rec F) : Op F → Prop
  | .sent i p => ∀ s, r.spaces[i]? = some s → ∀ q ∈ s.sent, q.pn < p.pn
  | _ => True

def IncFrom (A : FArith F) (r : Rec F) : List (Op F) → Prop
  | [] => True
  | op :: rest => IncPn r op ∧ IncFrom A (step A r op) rest

theorem IncPn.fresh {r : Rec F} {op : Op F} (h : IncPn r op) : FreshPn r op := by
  cases op with
  | sent i p => intro s hs q hq; exact Nat.ne_of_lt (h s hs q hq)
  | _ => trivial

theorem IncFrom.fresh (A : FArith F) {r : Rec F} {ops : List (Op F)} (h : IncFrom A r ops) : FreshFrom A r ops := by
  induction ops generalizing r with
  | nil => trivial
  | cons op rest ih => exact ⟨h.1.fresh, ih h.2⟩

theorem sorted_step (A : FArith F) (r : Rec F) (op : Op F) (hso : SortedInv r) (hi : IncPn r op) :
    SortedInv (step A r op) := by
  cases op with
  | sent i p =>
    simp only [step]
    cases h : onPacketSent A r i p with
    | error e => exact hso
    | ok r' =>
      unfold onPacketSent at h
      cases hs : r.spaces[i]? with
      | none => rw [hs] at h; simp at h
      | some s =>
        rw [hs] at h
        have hlt : i < r.spaces.length := (List.getElem?_eq_some_iff.1 hs).1
        have hinc := hi s hs
        simp only [dictSet_fresh s.sent p (fun q hq => Nat.ne_of_lt (hinc q hq))] at h
        have hsp : ∃ s', r'.spaces = r.spaces.set i s' ∧ s'.sent = s.sent ++ [p] := by
          split at h <;> injection h with h <;> subst h <;>
            (split <;> exact ⟨_, rfl, rfl⟩)
        obtain ⟨s', e1, e2⟩ := hsp
        intro t ht
        rw [e1] at ht
        rcases List.mem_or_eq_of_mem_set ht with ht | rfl
        · exact hso t ht
        · unfold SortedSp
          rw [e2, List.map_append, List.pairwise_append]
          refine ⟨hso s (List.mem_of_getElem? hs), by simp, ?_⟩
          intro a ha b hb
          simp only [List.map_cons, List.map_nil, List.mem_singleton] at hb
          obtain ⟨q, hq, rfl⟩ := List.mem_map.1 ha
          subst hb; exact hinc q hq
  | ack i rs ackDelay now =>
    simp only [step]
    cases h : onAckReceived A r i rs ackDelay now with
    | error e => exact hso
    | ok r' => exact hso.of_subShrinks (onAckReceived_subShrinks A r r' i rs ackDelay now hso h)
  | timeout now => exact hso.of_subShrinks (onLossDetectionTimeout_subShrinks A r now hso)
  | discard i =>
    simp only [step]
    cases h : discardSpace r i with
    | error e => exact hso
    | ok r' =>
      unfold discardSpace at h
      cases hs : r.spaces[i]? with
      | none => rw [hs] at h; simp at h
      | some s =>
        rw [hs] at h; injection h with h; subst h
        exact hso.of_subShrinks (SubShrinks.set (s' := { s with sent := [], ackAt := none, aeInFlight := 0, lossTime := none })
          hs (by simp) (by simp [Rec.setSpace]))

theorem sorted_run (A : FArith F) (ops : List (Op F)) (r : Rec F) (hso : SortedInv r) (hi : IncFrom A r ops) :
    SortedInv (run A r ops) := by
  induction ops generalizing r with
  | nil => exact hso
  | cons op rest ih => exact ih _ (sorted_step A r op hso hi.1) hi.2

theorem sorted_init (A : FArith F) (algo : Algo) (mds n : Nat) (rtt0 : F) : SortedInv (Rec.init A algo mds n rtt0) := by
  intro s hs
  simp only [Rec.init, List.mem_replicate] at hs
  rw [hs.2]; simp [SortedSp]

/-! ## `_get_loss_space`, the timer -/

theorem go_none_iff (A : FArith F) (i : Nat) (best : Option (Nat × F)) (l : List (Space F)) :
    getLossSpace.go A i best l = none ↔ best = none ∧ ∀ s ∈ l, s.lossTime = none := by
  induction l generalizing i best with
  | nil => simp [getLossSpace.go]
  | cons s rest ih =>
    unfold getLossSpace.go
    cases hl : s.lossTime with
    | none => simp only []; rw [ih]; simp [hl]
    | some t =>
      simp only []
      cases best with
      | none => simp only []; rw [ih]; simp [hl]
      | some bt =>
        obtain ⟨bi, btt⟩ := bt
        simp only []
        split <;> (rw [ih]; simp [hl])

theorem go_some (A : FArith F) (i : Nat) (best : Option (Nat × F)) (l : List (Space F)) (j : Nat) (t : F)
    (h : getLossSpace.go A i best l = some (j, t)) :
    best = some (j, t) ∨ ∃ k s, l[k]? = some s ∧ j = i + k ∧ s.lossTime = some t := by
  induction l generalizing i best with
  | nil => left; simpa [getLossSpace.go] using h
  | cons s rest ih =>
    unfold getLossSpace.go at h
    have shift : (∃ k s', rest[k]? = some s' ∧ j = i + 1 + k ∧ s'.lossTime = some t) →
        ∃ k s', (s :: rest)[k]? = some s' ∧ j = i + k ∧ s'.lossTime = some t := by
      rintro ⟨k, s', h1, h2, h3⟩; exact ⟨k + 1, s', by simpa using h1, by omega, h3⟩
    cases hl : s.lossTime with
    | none =>
      rw [hl] at h; simp only [] at h
      rcases ih _ _ h with h1 | h1
      · exact Or.inl h1
      · exact Or.inr (shift h1)
    | some t0 =>
      rw [hl] at h; simp only [] at h
      have here : some (i, t0) = some (j, t) → ∃ k s', (s :: rest)[k]? = some s' ∧ j = i + k ∧ s'.lossTime = some t := by
        intro e; injection e with e; injection e with e1 e2; subst e1; subst e2
        exact ⟨0, s, rfl, rfl, hl⟩
      cases best with
      | none =>
        simp only [] at h
        rcases ih _ _ h with h1 | h1
        · exact Or.inr (here h1)
        · exact Or.inr (shift h1)
      | some bt =>
        obtain ⟨bi, btt⟩ := bt
        simp only [] at h
        split at h
        · rcases ih _ _ h with h1 | h1
          · exact Or.inr (here h1)
          · exact Or.inr (shift h1)
        · rcases ih _ _ h with h1 | h1
          · exact Or.inl h1
          · exact Or.inr (shift h1)

/-- `_get_loss_space` returns None exactly when no space has a `loss_time` -/
theorem getLossSpace_none_iff (A : FArith F) (r : Rec F) :
    getLossSpace A r = none ↔ ∀ s ∈ r.spaces, s.lossTime = none := by
  unfold getLossSpace
  rw [Option.map_eq_none_iff, go_none_iff]
  simp

/-- …and otherwise the index of a space whose `loss_time` is set -/
theorem getLossSpace_some (A : FArith F) (r : Rec F) (j : Nat) (h : getLossSpace A r = some j) :
    ∃ s t, r.spaces[j]? = some s ∧ s.lossTime = some t := by
  unfold getLossSpace at h
  rw [Option.map_eq_some_iff] at h
  obtain ⟨⟨j', t⟩, h1, h2⟩ := h
  simp only [] at h2; subst h2
  rcases go_some A 0 none r.spaces j' t h1 with h3 | ⟨k, s, h3, h4, h5⟩
  · cases h3
  · exact ⟨s, t, by rw [h4]; simpa using h3, h5⟩

/-! ## The time-threshold deadline (order facts of the arithmetic as hypotheses) -/

/-- The order facts about the float arithmetic that the deadline argument
    needs (all true of exact real arithmetic; `le_sub_of_add_le` can fail by one
    unit in the last place in IEEE-754 doubles — see the note in
    AQ/Props/C01Loss.lean). -/
structure LossOrderFacts (A : FArith F) : Prop where
  le_refl : ∀ a, A.le a a = true
  le_trans : ∀ a b c, A.le a b = true → A.le b c = true → A.le a c = true
  le_of_lt : ∀ a b, A.lt a b = true → A.le a b = true
  le_of_not_lt : ∀ a b, A.lt a b = false → A.le b a = true
  le_sub_of_add_le : ∀ a d n, A.le (A.add a d) n = true → A.le a (A.sub n d) = true

theorem ltMin_spec (A : FArith F) (O : LossOrderFacts A) (lt : Option F) (x : F) :
    ∃ m, ltMin A lt x = some m ∧ A.le m x = true ∧ ∀ l, lt = some l → A.le m l = true := by
  cases lt with
  | none => exact ⟨x, rfl, O.le_refl x, fun l h => by cases h⟩
  | some l =>
    simp only [ltMin]
    cases hx : A.lt x l with
    | true =>
      exact ⟨x, by simp, O.le_refl x, fun l' h => by injection h with h; subst h; exact O.le_of_lt _ _ hx⟩
    | false =>
      exact ⟨l, by simp, O.le_of_not_lt _ _ hx, fun l' h => by injection h with h; subst h; exact O.le_refl _⟩

/-- the running minimum only decreases -/
theorem detectLoop_lt_le (A : FArith F) (O : LossOrderFacts A) (la : Nat) (tt ld : F) (l lost : List (Pkt F))
    (l0 : F) : ∃ t, (detectLoop A la tt ld l lost (some l0)).2 = some t ∧ A.le t l0 = true := by
  induction l generalizing lost l0 with
  | nil => exact ⟨l0, rfl, O.le_refl _⟩
  | cons p rest ih =>
    by_cases hp : p.pn ≤ la
    · rw [detectLoop_cons_le A la tt ld p rest lost _ hp]
      split
      · exact ih _ l0
      · obtain ⟨m, hm, -, h2⟩ := ltMin_spec A O (some l0) (A.add p.sentTime ld)
        rw [hm]
        obtain ⟨t, ht, hle⟩ := ih lost m
        exact ⟨t, ht, O.le_trans _ _ _ hle (h2 l0 rfl)⟩
    · rw [detectLoop, if_pos (by omega)]; exact ⟨l0, rfl, O.le_refl _⟩

/-- `loss_time` is at most `sent_time + loss_delay` of every survivor at or below
    the largest acknowledged packet -/
theorem detectLoop_deadline (A : FArith F) (O : LossOrderFacts A) (la : Nat) (tt ld : F) (l lost : List (Pkt F))
    (lt : Option F) (hs : (l.map (·.pn)).Pairwise (· < ·)) :
    ∀ q ∈ l, q.pn ≤ la → ¬ lostCond A la tt q →
      ∃ t, (detectLoop A la tt ld l lost lt).2 = some t ∧ A.le t (A.add q.sentTime ld) = true := by
  induction l generalizing lost lt with
  | nil => intro q hq; cases hq
  | cons p rest ih =>
    have hs' : (rest.map (·.pn)).Pairwise (· < ·) := by
      simp only [List.map_cons, List.pairwise_cons] at hs; exact hs.2
    have hhead : ∀ q ∈ rest, p.pn < q.pn := by
      simp only [List.map_cons, List.pairwise_cons] at hs
      intro q hq; exact hs.1 q.pn (List.mem_map.2 ⟨q, hq, rfl⟩)
    intro q hq hle hn
    by_cases hp : p.pn ≤ la
    · rw [detectLoop_cons_le A la tt ld p rest lost lt hp]
      by_cases hc : lostCond A la tt p
      · rw [if_pos hc]
        rcases List.mem_cons.1 hq with rfl | hq
        · exact absurd hc hn
        · exact ih _ _ hs' q hq hle hn
      · rw [if_neg hc]
        rcases List.mem_cons.1 hq with rfl | hq
        · obtain ⟨m, hm, h1, -⟩ := ltMin_spec A O lt (A.add q.sentTime ld)
          rw [hm]
          obtain ⟨t, ht, hle'⟩ := detectLoop_lt_le A O la tt ld rest lost m
          exact ⟨t, ht, O.le_trans _ _ _ hle' h1⟩
        · exact ih _ _ hs' q hq hle hn
    · rcases List.mem_cons.1 hq with rfl | hq
      · exact absurd hle hp
      · have := hhead q hq; omega

/-- `loss_time` is ATTAINED: it is `sent_time + loss_delay` of one of the packets
    the loop examined and did not declare lost (or the value it started from) -/
theorem detectLoop_attained (A : FArith F) (la : Nat) (tt ld : F) (l lost : List (Pkt F)) (lt : Option F) (t : F)
    (h : (detectLoop A la tt ld l lost lt).2 = some t) :
    lt = some t ∨ ∃ q ∈ l, q.pn ≤ la ∧ ¬ lostCond A la tt q ∧ t = A.add q.sentTime ld := by
  induction l generalizing lost lt with
  | nil => left; simpa [detectLoop] using h
  | cons p rest ih =>
    by_cases hp : p.pn ≤ la
    · rw [detectLoop_cons_le A la tt ld p rest lost lt hp] at h
      by_cases hc : lostCond A la tt p
      · rw [if_pos hc] at h
        rcases ih _ _ h with h1 | ⟨q, hq, h2⟩
        · exact Or.inl h1
        · exact Or.inr ⟨q, by simp [hq], h2⟩
      · rw [if_neg hc] at h
        rcases ih _ _ h with h1 | ⟨q, hq, h2⟩
        · unfold ltMin at h1
          cases lt with
          | none => injection h1 with h1; exact Or.inr ⟨p, by simp, hp, hc, h1.symm⟩
          | some l0 =>
            simp only [] at h1
            split at h1
            · injection h1 with h1; exact Or.inr ⟨p, by simp, hp, hc, h1.symm⟩
            · exact Or.inl h1
        · exact Or.inr ⟨q, by simp [hq], h2⟩
    · rw [detectLoop, if_pos (by omega)] at h; exact Or.inl h

/-! ## `reschedule_data` (the PTO branch of `on_loss_detection_timeout`) -/

/-- one iteration of the loop of `reschedule_data` -/
def rescheduleStep (A : FArith F) (now : F) (r : Rec F) (i : Nat) : Rec F :=
  match r.spaces[i]? with
  | none => r
  | some s => if s.sent.filter (·.isCrypto) ≠ [] then onPacketsLost A r i now (s.sent.filter (·.isCrypto)) else r

/-- the loop of `reschedule_data` over the spaces -/
def rescheduleFold (A : FArith F) (now : F) (idx : List Nat) (r : Rec F) : Rec F :=
  idx.foldl (rescheduleStep A now) r

theorem rescheduleData_eq (A : FArith F) (r : Rec F) (now : F) :
    rescheduleData A r now =
      { (rescheduleFold A now (List.range r.spaces.length) r) with
        probes := (rescheduleFold A now (List.range r.spaces.length) r).probes + 1 } := rfl

theorem rescheduleStep_facts (A : FArith F) (now : F) (i : Nat) (r : Rec F) :
    let r' := rescheduleStep A now r i
    r'.ptoCount = r.ptoCount ∧ r'.probes = r.probes ∧ (∀ e ∈ r.log, e ∈ r'.log) ∧ SubShrinks r r' ∧
    r'.spaces.length = r.spaces.length ∧ (∀ j, j ≠ i → r'.spaces[j]? = r.spaces[j]?) ∧
    (∀ s, r.spaces[i]? = some s → ∀ p ∈ s.sent, p.isCrypto = true →
      (p.uid, Delivery.lost) ∈ r'.log ∧ ∀ s', r'.spaces[i]? = some s' → p ∉ s'.sent) := by
  unfold rescheduleStep
  cases hs : r.spaces[i]? with
  | none =>
    exact ⟨rfl, rfl, fun e h => h, SubShrinks.refl r, rfl, fun j _ => rfl, fun s h => by cases h⟩
  | some s =>
    simp only []
    have hlt : i < r.spaces.length := (List.getElem?_eq_some_iff.1 hs).1
    split
    · obtain ⟨s', k1, k2, -, -, k5, k6, k7, -⟩ := onPacketsLost_spec A r i now (s.sent.filter (·.isCrypto)) s hs
      refine ⟨k6, k7, ?_, onPacketsLost_subShrinks A r i now _, by rw [k1]; simp, ?_, ?_⟩
      · intro e he; rw [k5]; exact List.mem_append_right _ he
      · intro j hj; rw [k1, List.getElem?_set_ne (Ne.symm hj)]
      · intro s0 hs0 p hp hc
        have e0 : s0 = s := by injection hs0 with h; exact h.symm
        subst e0
        have hpf : p ∈ s0.sent.filter (·.isCrypto) := List.mem_filter.2 ⟨hp, hc⟩
        refine ⟨?_, ?_⟩
        · rw [k5]; simp only [List.mem_append, List.mem_reverse, List.mem_map]; exact Or.inl ⟨p, hpf, rfl⟩
        · intro s'' hs''
          rw [k1, List.getElem?_set_self hlt] at hs''
          injection hs'' with hs''; subst hs''
          rw [k2]; exact not_mem_removeAll hpf rfl
    · rename_i hnil
      refine ⟨rfl, rfl, fun e h => h, SubShrinks.refl r, rfl, fun j _ => rfl, ?_⟩
      intro s0 hs0 p hp hc
      have e0 : s0 = s := by injection hs0 with h; exact h.symm
      subst e0
      exfalso; apply hnil
      intro he
      have : p ∈ s0.sent.filter (·.isCrypto) := List.mem_filter.2 ⟨hp, hc⟩
      rw [he] at this; cases this

theorem rescheduleFold_facts (A : FArith F) (now : F) (idx : List Nat) (r : Rec F) :
    (rescheduleFold A now idx r).ptoCount = r.ptoCount ∧ (rescheduleFold A now idx r).probes = r.probes ∧
    (∀ e ∈ r.log, e ∈ (rescheduleFold A now idx r).log) ∧ SubShrinks r (rescheduleFold A now idx r) ∧
    (∀ j ∈ idx, ∀ s, r.spaces[j]? = some s → ∀ p ∈ s.sent, p.isCrypto = true →
      (p.uid, Delivery.lost) ∈ (rescheduleFold A now idx r).log ∧
      ∀ s', (rescheduleFold A now idx r).spaces[j]? = some s' → p ∉ s'.sent) := by
  induction idx generalizing r with
  | nil => exact ⟨rfl, rfl, fun e h => h, SubShrinks.refl r, fun j hj => by cases hj⟩
  | cons i idx ih =>
    obtain ⟨a1, a2, a3, a4, -, a6, a7⟩ := rescheduleStep_facts A now i r
    obtain ⟨b1, b2, b3, b4, b5⟩ := ih (rescheduleStep A now r i)
    have e : rescheduleFold A now (i :: idx) r = rescheduleFold A now idx (rescheduleStep A now r i) := rfl
    rw [e]
    refine ⟨b1.trans a1, b2.trans a2, fun e he => b3 e (a3 e he), a4.trans b4, ?_⟩
    intro j hj s hs p hp hc
    by_cases hji : j = i
    · subst hji
      obtain ⟨c1, c2⟩ := a7 s hs p hp hc
      refine ⟨b3 _ c1, ?_⟩
      intro s' hs'
      obtain ⟨t, ht, hsub⟩ := b4 j s' hs'
      intro hmem
      exact c2 t ht (hsub.subset hmem)
    · have hj' : j ∈ idx := by
        rcases List.mem_cons.1 hj with h | h
        · exact absurd h hji
        · exact h
      exact b5 j hj' s (by rw [a6 j hji]; exact hs) p hp hc

/-- Σ `ack_eliciting_in_flight` over the spaces, as `get_loss_detection_time` computes it -/
theorem foldl_ae (l : List (Space F)) (a : Int) :
    l.foldl (fun a s => a + s.aeInFlight) a = a + (l.map (·.aeInFlight)).sum := by
  induction l generalizing a with
  | nil => simp
  | cons s l ih => simp only [List.foldl_cons, List.map_cons, List.sum_cons]; rw [ih]; omega

theorem ae_sum_pos {r : Rec F} (hinv : Inv r) {s : Space F} (hs : s ∈ r.spaces) {p : Pkt F} (hp : p ∈ s.sent)
    (hae : p.ackEliciting = true) : 0 < r.spaces.foldl (fun a s => a + s.aeInFlight) 0 := by
  rw [foldl_ae]
  have hnn : ∀ t ∈ r.spaces, 0 ≤ t.aeInFlight := fun t ht => by
    rw [hinv.ae t ht]; exact wsum_nonneg aeW aeW_nonneg _
  have hone : 1 ≤ s.aeInFlight := by
    rw [hinv.ae s hs]
    have := le_wsum_of_mem aeW aeW_nonneg hp
    simp only [aeW, hae, if_true] at this; exact this
  have nn : ∀ (l : List (Space F)), (∀ t ∈ l, 0 ≤ t.aeInFlight) → 0 ≤ (l.map (·.aeInFlight)).sum := by
    intro l
    induction l with
    | nil => intro _; simp
    | cons t l ih =>
      intro hn
      simp only [List.map_cons, List.sum_cons]
      have := hn t (by simp); have := ih (fun u hu => hn u (by simp [hu])); omega
  have key : ∀ (l : List (Space F)), (∀ t ∈ l, 0 ≤ t.aeInFlight) → s ∈ l → 1 ≤ (l.map (·.aeInFlight)).sum := by
    intro l
    induction l with
    | nil => intro _ h; cases h
    | cons t l ih =>
      intro hn hm
      simp only [List.map_cons, List.sum_cons]
      have h0 := hn t (by simp)
      rcases List.mem_cons.1 hm with rfl | hm
      · have := nn l (fun u hu => hn u (by simp [hu]))
        omega
      · have := ih (fun u hu => hn u (by simp [hu])) hm; omega
  have := key r.spaces hnn hs
  omega

end AQ.Recovery
