/-
  Invariants of the acknowledgement model (AQ.Model.Ack).
-/
import AQ.Model.Ack
import AQ.Proofs.RangeSet

namespace AQ.Ack
open AQ AQ.RangeSet AQ.Recovery

/-- per-space invariant -/
structure SInv {F} (s : Space F) : Prop where
  wf : WF s.ackQueue
  /-- everything queued for acknowledgement authenticated in this space -/
  sound : ∀ x, mem x s.ackQueue → x ∈ s.received
  /-- nothing queued is above the largest received number -/
  le_largest : ∀ x, mem x s.ackQueue → (x : Int) ≤ s.largestReceived
  /-- the handler argument of every ACK frame sent is at most the largest received -/
  sent_le : ∀ h ∈ s.sentAcks, h ≤ s.largestReceived
  /-- an armed ack timer means something was recorded -/
  armed : s.ackAt.isSome → s.largestReceivedTime.isSome ∧ s.discarded = false
  largest_ge : -1 ≤ s.largestReceived
  time_set : 0 ≤ s.largestReceived → s.largestReceivedTime.isSome

theorem sinv_init {F} : SInv ({} : Space F) := by
  constructor <;> simp [WF, mem]

theorem onAckDelivery_inv {F} {s s' : Space F} {h : Int} (hi : SInv s) (he : onAckDelivery s h = .ok s') : SInv s' := by
  unfold onAckDelivery at he
  split at he
  · cases he
  · rename_i hh
    cases he
    have hpos : 0 < (h + 1).toNat := by omega
    constructor <;> simp only
    · exact subtract_wf 0 _ hpos _ hi.wf
    · intro x hx; exact hi.sound x ((subtract_mem 0 _ _ hi.wf x).mp hx).1
    · intro x hx; exact hi.le_largest x ((subtract_mem 0 _ _ hi.wf x).mp hx).1
    · exact hi.sent_le
    · exact hi.armed
    · exact hi.largest_ge
    · exact hi.time_set

/-- after `_on_ack_delivery(h)` nothing ≤ h is queued; numbers above h stay -/
theorem onAckDelivery_mem {F} {s s' : Space F} {h : Int} (hi : SInv s) (he : onAckDelivery s h = .ok s') (x : Nat) :
    mem x s'.ackQueue ↔ mem x s.ackQueue ∧ h < x := by
  unfold onAckDelivery at he
  split at he
  · cases he
  · cases he
    simp only
    rw [subtract_mem 0 _ _ hi.wf x]
    constructor
    · intro ⟨a, b⟩; exact ⟨a, by omega⟩
    · intro ⟨a, b⟩; exact ⟨a, by omega⟩

theorem onAckDelivery_fields {F} {s s' : Space F} {h : Int} (he : onAckDelivery s h = .ok s') :
    s'.ackAt = s.ackAt ∧ s'.received = s.received ∧ s'.largestReceived = s.largestReceived ∧ s'.sentAcks = s.sentAcks
      ∧ s'.discarded = s.discarded ∧ s'.largestReceivedTime = s.largestReceivedTime := by
  unfold onAckDelivery at he
  split at he
  · cases he
  · cases he; simp

theorem record_inv {F} (A : FArith F) (delay : F) {s : Space F} (pn : Nat) (ae : Bool) (now : F)
    (hi : SInv s) (hr : pn ∈ s.received) : SInv (record A delay s pn ae now) := by
  unfold record
  split
  · exact hi
  · rename_i hnd
    have hwf := add_wf pn (pn + 1) (by omega) _ hi.wf
    have hmem := add_mem pn (pn + 1) (by omega) _ hi.wf
    by_cases hgt : (pn : Int) > s.largestReceived
    · simp only [hgt, if_true]
      split <;> constructor <;> simp only
      all_goals first
        | exact hwf
        | (intro x hx; rcases (hmem x).mp hx with h | h
           · first | exact hi.sound x h | (have := hi.le_largest x h; omega)
           · have : x = pn := by omega
             subst this; first | exact hr | omega)
        | (intro h hh; have := hi.sent_le h hh; omega)
        | (intro _; exact ⟨rfl, by simpa using hnd⟩)
        | omega
        | (intro hh; exact ⟨rfl, by simpa using hnd⟩)
        | (intro _; rfl)
    · simp only [hgt, if_false]
      split <;> constructor <;> simp only
      all_goals first
        | exact hwf
        | (intro x hx; rcases (hmem x).mp hx with h | h
           · first | exact hi.sound x h | exact hi.le_largest x h
           · have : x = pn := by omega
             subst this; first | exact hr | omega)
        | exact hi.sent_le
        | exact hi.largest_ge
        | exact hi.armed
        | exact hi.time_set
        | (intro _; exact ⟨hi.time_set (by omega), by simpa using hnd⟩)

end AQ.Ack

namespace AQ.Ack
open AQ AQ.RangeSet AQ.Recovery

theorem discard_inv {F} {s : Space F} (hi : SInv s) : SInv (discard s) := by
  constructor <;> simp only [discard]
  · exact hi.wf
  · exact hi.sound
  · exact hi.le_largest
  · exact hi.sent_le
  · intro h; cases h
  · exact hi.largest_ge
  · exact hi.time_set

theorem writeAck_inv {F} {s s' : Space F} {de : Nat} {ms : Option Int} {f : AckFrame} (hi : SInv s)
    (he : writeAck s de ms = .ok (s', f)) :
    SInv s' ∧ s'.ackAt = none ∧ s'.ackQueue = s.ackQueue ∧ s'.received = s.received
      ∧ (∃ vals n, pushAckFrame s.ackQueue de ms = .ok (vals, n) ∧ f.values = vals ∧ f.ranges = n) := by
  unfold writeAck at he
  split at he
  · cases he
  · cases hp : pushAckFrame s.ackQueue de ms with
    | error e => simp [hp] at he; cases he
    | ok r =>
      obtain ⟨vals, n⟩ := r
      simp only [hp] at he
      cases he
      refine ⟨?_, rfl, rfl, rfl, vals, n, rfl, rfl, rfl⟩
      constructor <;> simp only
      · exact hi.wf
      · exact hi.sound
      · exact hi.le_largest
      · intro h hh
        simp only [List.mem_cons] at hh
        rcases hh with rfl | hh
        · exact Int.le_refl _
        · exact hi.sent_le h hh
      · intro h; cases h
      · exact hi.largest_ge
      · exact hi.time_set

theorem fitOlder_le (m size start : Int) (older : List Rg) : fitOlder m size start older ≤ older.length := by
  induction older generalizing size start with
  | nil => simp [fitOlder]
  | cons r rest ih =>
    simp only [fitOlder, List.length_cons]
    split
    · omega
    · have := ih (size + ↑(Builder.sizeUintVar (start - ↑r.stop - 1).toNat) + ↑(Builder.sizeUintVar (r.stop - r.start - 1))) r.start
      omega

theorem ackCount_le (r : Rg) (older : List Rg) (de : Nat) (ms : Option Int) : ackCount r older de ms ≤ older.length := by
  cases ms with
  | none => simp [ackCount]
  | some m => exact fitOlder_le _ _ _ _

/-- the ranges an ACK frame's values denote are exactly the ranges written -/
theorem olderRaw_wire (start : Int) (older : List Rg) (h : (olderRaw start older).all (fun v => decide (0 ≤ v)) = true) :
    wireRangesAux start ((olderRaw start older).map Int.toNat) = older.map (fun r => ((r.start : Int), (r.stop : Int) - 1)) := by
  induction older generalizing start with
  | nil => simp [olderRaw, wireRangesAux]
  | cons r rest ih =>
    simp only [olderRaw, List.all_cons, Bool.and_eq_true, decide_eq_true_eq] at h
    obtain ⟨h1, h2, h3⟩ := h
    simp only [olderRaw, List.map_cons, wireRangesAux]
    have e1 : start - ↑(start - ↑r.stop - 1).toNat - 2 = (r.stop : Int) - 1 := by omega
    have e2 : (r.stop : Int) - 1 - ↑((r.stop : Int) - ↑r.start - 1).toNat = r.start := by omega
    rw [e1, e2, ih _ h3]

theorem pushAckFrame_wire (rs : List Rg) (de : Nat) (ms : Option Int) (vals : List Nat) (n : Nat)
    (h : pushAckFrame rs de ms = .ok (vals, n)) :
    ∃ r older k, rs.reverse = r :: older ∧ n = k + 1 ∧ k ≤ older.length ∧
      wireRanges vals = (r :: older.take k).map (fun r => ((r.start : Int), (r.stop : Int) - 1))
      ∧ (ms = none → k = older.length) := by
  unfold pushAckFrame at h
  split at h
  · cases h
  · rename_i r older hrev
    simp only at h
    split at h
    · rename_i hall
      cases h
      refine ⟨r, older, ackCount r older de ms, hrev, rfl, ackCount_le _ _ _ _, ?_, ?_⟩
      · simp only [List.all_cons, Bool.and_eq_true, decide_eq_true_eq] at hall
        obtain ⟨h1, _, _, h4, h5⟩ := hall
        simp only [List.map_cons, wireRanges]
        have e1 : ((((r.stop : Int) - 1).toNat : Nat) : Int) = (r.stop : Int) - 1 := by omega
        have e2 : ((((r.stop : Int) - 1 - r.start).toNat : Nat) : Int) = (r.stop : Int) - 1 - r.start := by omega
        rw [e1, e2]
        have e3 : (r.stop : Int) - 1 - ((r.stop : Int) - 1 - r.start) = r.start := by omega
        rw [e3, olderRaw_wire _ _ h5]
      · intro hm; subst hm; rfl
    · cases h

end AQ.Ack

namespace AQ.Ack
open AQ AQ.RangeSet AQ.Recovery

/-- every number an ACK frame's values denote is in the range set it was built from -/
theorem pushAckFrame_sound (rs : List Rg) (de : Nat) (ms : Option Int) (vals : List Nat) (n : Nat)
    (h : pushAckFrame rs de ms = .ok (vals, n)) :
    ∀ lh ∈ wireRanges vals, ∀ x : Int, lh.1 ≤ x → x ≤ lh.2 → 0 ≤ x ∧ mem x.toNat rs := by
  obtain ⟨r, older, k, hrev, _, _, hw, _⟩ := pushAckFrame_wire rs de ms vals n h
  intro lh hlh x h1 h2
  rw [hw] at hlh
  simp only [List.mem_map] at hlh
  obtain ⟨q, hq, rfl⟩ := hlh
  simp only at h1 h2
  have hqrs : q ∈ rs := by
    have : q ∈ r :: older := by
      rcases List.mem_cons.mp hq with h | h
      · simp [h]
      · exact List.mem_cons_of_mem _ (List.mem_of_mem_take h)
    rw [← hrev] at this
    exact List.mem_reverse.mp this
  exact ⟨by omega, q, hqrs, by omega, by omega⟩

/-- when every range was written, every queued number is covered -/
theorem pushAckFrame_complete (rs : List Rg) (de : Nat) (ms : Option Int) (vals : List Nat) (n : Nat)
    (h : pushAckFrame rs de ms = .ok (vals, n)) (hfit : n = rs.length) :
    ∀ x, mem x rs → ∃ lh ∈ wireRanges vals, lh.1 ≤ (x : Int) ∧ (x : Int) ≤ lh.2 := by
  obtain ⟨r, older, k, hrev, hn, hk, hw, _⟩ := pushAckFrame_wire rs de ms vals n h
  have hlen : rs.length = older.length + 1 := by
    have := congrArg List.length hrev; simpa using this
  have hk' : k = older.length := by omega
  intro x ⟨q, hq, hq1, hq2⟩
  refine ⟨((q.start : Int), (q.stop : Int) - 1), ?_, by simp; omega, by simp; omega⟩
  rw [hw, hk', List.take_length]
  have : q ∈ r :: older := by rw [← hrev]; exact List.mem_reverse.mpr hq
  exact List.mem_map.mpr ⟨q, this, rfl⟩

/-- a well-formed non-empty range set always yields a frame (no ValueError / IndexError) -/
theorem mem_append_two (y : Nat) (l : List Rg) (o r : Rg) (h : mem y (l ++ [o])) : mem y (l ++ [o, r]) := by
  obtain ⟨q, hq, h1, h2⟩ := h
  refine ⟨q, ?_, h1, h2⟩
  rcases List.mem_append.mp hq with h | h
  · exact List.mem_append.mpr (Or.inl h)
  · simp only [List.mem_singleton] at h; subst h; simp

theorem wf_append_two (l : List Rg) (o r : Rg) (h : WF (l ++ [o, r])) :
    o.stop < r.start ∧ r.start < r.stop ∧ WF (l ++ [o]) := by
  induction l with
  | nil =>
    simp only [List.nil_append] at h ⊢
    have h1 := wf_cons_iff.mp h
    have hr : r.start < r.stop := by simpa [WF] using h1.2.1
    exact ⟨h1.2.2 r.start ⟨r, by simp, Nat.le_refl _, hr⟩, hr, by simpa [WF] using h1.1⟩
  | cons x l ih =>
    simp only [List.cons_append] at h ⊢
    have h1 := wf_cons_iff.mp h
    have ⟨a, b, c⟩ := ih h1.2.1
    exact ⟨a, b, wf_cons_iff.mpr ⟨h1.1, c, fun y hy => h1.2.2 y (mem_append_two y l o r hy)⟩⟩

/-- newest-first ranges below `start`, each non-empty and strictly separated -/
def DWF : Int → List Rg → Prop
  | _, [] => True
  | start, r :: rest => (r.stop : Int) < start ∧ r.start < r.stop ∧ DWF r.start rest

theorem dwf_of_wf (r : Rg) (older : List Rg) (h : WF (older.reverse ++ [r])) : r.start < r.stop ∧ DWF r.start older := by
  induction older generalizing r with
  | nil =>
    simp only [List.reverse_nil, List.nil_append] at h
    exact ⟨by simpa [WF] using h, trivial⟩
  | cons o rest ih =>
    simp only [List.reverse_cons, List.append_assoc, List.singleton_append] at h
    have ⟨a, b, c⟩ := wf_append_two _ _ _ h
    have ⟨d, e⟩ := ih o c
    exact ⟨b, by simp only [DWF]; exact ⟨by omega, d, e⟩⟩

theorem olderRaw_nonneg (start : Int) (older : List Rg) (h : DWF start older) :
    (olderRaw start older).all (fun v => decide (0 ≤ v)) = true := by
  induction older generalizing start with
  | nil => simp [olderRaw]
  | cons r rest ih =>
    obtain ⟨h1, h2, h3⟩ := h
    simp only [olderRaw, List.all_cons, Bool.and_eq_true, decide_eq_true_eq]
    exact ⟨by omega, by omega, ih _ h3⟩

theorem dwf_take (start : Int) (older : List Rg) (k : Nat) (h : DWF start older) : DWF start (older.take k) := by
  induction older generalizing start k with
  | nil => simp [DWF]
  | cons r rest ih =>
    cases k with
    | zero => simp [DWF]
    | succ k =>
      obtain ⟨h1, h2, h3⟩ := h
      simp only [List.take_succ_cons, DWF]
      exact ⟨h1, h2, ih _ _ h3⟩

/-- a well-formed non-empty range set always yields a frame (no IndexError, no ValueError) -/
theorem pushAckFrame_ok (rs : List Rg) (de : Nat) (ms : Option Int) (hwf : WF rs) (hne : rs ≠ []) :
    ∃ vals n, pushAckFrame rs de ms = .ok (vals, n) := by
  unfold pushAckFrame
  cases hrev : rs.reverse with
  | nil => exact absurd (List.reverse_eq_nil_iff.mp hrev) hne
  | cons r older =>
    have hrs : rs = older.reverse ++ [r] := by
      have := congrArg List.reverse hrev; simpa using this
    rw [hrs] at hwf
    have ⟨h1, h2⟩ := dwf_of_wf r older hwf
    have h3 := olderRaw_nonneg _ _ (dwf_take _ _ (ackCount r older de ms) h2)
    simp only
    rw [if_pos]
    · exact ⟨_, _, rfl⟩
    · simp only [List.all_cons, Bool.and_eq_true, decide_eq_true_eq]
      exact ⟨by omega, by omega, by omega, by omega, h3⟩

/-- the ack obligation for packet `pn`: armed timer, still queued, no ACK sent
    so far could prune it -/
structure Pending {F} (s : Space F) (pn : Nat) (a : F) : Prop where
  armed : s.ackAt = some a
  queued : mem pn s.ackQueue
  live : s.discarded = false
  sent_lt : ∀ h ∈ s.sentAcks, h < pn

theorem record_pending_new {F} (A : FArith F) (delay : F) {s : Space F} (pn : Nat) (now : F) (hi : SInv s)
    (hnew : (pn : Int) > s.largestReceived) (hlive : s.discarded = false) :
    ∃ a, Pending (record A delay s pn true now) pn a ∧
      (a = A.add now delay ∨ s.ackAt = some a) ∧ (record A delay s pn true now).largestReceived = pn := by
  have hmem := add_mem pn (pn + 1) (by omega) _ hi.wf pn
  unfold record
  simp only [hlive, Bool.false_eq_true, if_false, hnew, if_true, Bool.true_and]
  cases hat : s.ackAt with
  | none =>
    refine ⟨A.add now delay, ?_, Or.inl rfl, ?_⟩
    · simp only [hat, Option.isNone_none, if_true]
      exact ⟨rfl, hmem.mpr (Or.inr ⟨Nat.le_refl _, by omega⟩), by simp,
        fun h hh => by have := hi.sent_le h hh; omega⟩
    · simp [hat]
  | some a =>
    refine ⟨a, ?_, Or.inr rfl, ?_⟩
    · simp only [hat, Option.isNone_some, Bool.false_eq_true, if_false]
      exact ⟨by simp, hmem.mpr (Or.inr ⟨Nat.le_refl _, by omega⟩), by simp,
        fun h hh => by have := hi.sent_le h hh; omega⟩
    · simp [hat]

theorem record_pending_keep {F} (A : FArith F) (delay : F) {s : Space F} {pn : Nat} {a : F} (pn' : Nat) (ae : Bool)
    (now : F) (hi : SInv s) (hp : Pending s pn a) : Pending (record A delay s pn' ae now) pn a := by
  have hmem := add_mem pn' (pn' + 1) (by omega) _ hi.wf pn
  unfold record
  simp only [hp.live, Bool.false_eq_true, if_false]
  have harm : s.ackAt.isNone = false := by simp [hp.armed]
  split <;> simp only [harm, Bool.and_false, Bool.false_eq_true, if_false] <;>
    exact ⟨by simp [hp.armed], hmem.mpr (Or.inl hp.queued), by simp [hp.live], hp.sent_lt⟩

theorem onAckDelivery_pending {F} {s s' : Space F} {pn : Nat} {a : F} {h : Int} (hi : SInv s) (hp : Pending s pn a)
    (hh : h ∈ s.sentAcks) (he : onAckDelivery s h = .ok s') : Pending s' pn a := by
  have ⟨f1, _, _, f4, f5, _⟩ := onAckDelivery_fields he
  refine ⟨by rw [f1]; exact hp.armed, ?_, by rw [f5]; exact hp.live, by rw [f4]; exact hp.sent_lt⟩
  exact (onAckDelivery_mem hi he pn).mpr ⟨hp.queued, hp.sent_lt h hh⟩

end AQ.Ack

namespace AQ.Ack
open AQ AQ.RangeSet AQ.Recovery

/-- connection-level invariant: every packet space satisfies `SInv` -/
def CInv {F} (c : Conn F) : Prop := ∀ s ∈ c.spaces, SInv s

theorem cinv_set {F} {c : Conn F} {i : Nat} {s : Space F} (h : CInv c) (hs : SInv s) : CInv (setSpace c i s) := by
  intro x hx
  rcases List.mem_or_eq_of_mem_set hx with h1 | h1
  · exact h x h1
  · subst h1; exact hs

theorem applyEff_inv {F} {c c' : Conn F} {e : Eff} (h : CInv c) (he : applyEff c e = .ok c') : CInv c' := by
  cases e with
  | aoa sp hh =>
    simp only [applyEff] at he
    cases hs : c.spaces[sp]? with
    | none => simp [hs] at he
    | some s =>
      simp only [hs] at he
      cases hd : onAckDelivery s hh with
      | error e => simp [hd, bind, Except.bind] at he
      | ok s' =>
        simp only [hd, bind, Except.bind, pure, Except.pure] at he
        cases he
        exact cinv_set h (onAckDelivery_inv (h s (List.mem_of_getElem? hs)) hd)
  | discard sp =>
    simp only [applyEff] at he
    cases hs : c.spaces[sp]? with
    | none => simp [hs] at he
    | some s =>
      simp only [hs, pure, Except.pure] at he
      cases he
      exact cinv_set h (discard_inv (h s (List.mem_of_getElem? hs)))

theorem applyEffs_inv {F} {c c' : Conn F} {es : List Eff} (h : CInv c) (he : applyEffs c es = .ok c') : CInv c' := by
  induction es generalizing c with
  | nil => simp [applyEffs] at he; cases he; exact h
  | cons e es ih =>
    simp only [applyEffs, bind, Except.bind] at he
    cases h1 : applyEff c e with
    | error x => simp [h1] at he
    | ok c1 => simp only [h1] at he; exact ih (applyEff_inv h h1) he

/-- `received` of the target space only grows through payload effects, so the packet
    being processed stays in it -/
theorem applyEff_received {F} {c c' : Conn F} {e : Eff} (sp : Nat) (pn : Nat)
    (hr : ∀ s, c.spaces[sp]? = some s → pn ∈ s.received) (he : applyEff c e = .ok c') :
    ∀ s, c'.spaces[sp]? = some s → pn ∈ s.received := by
  cases e with
  | aoa i hh =>
    simp only [applyEff] at he
    cases hs : c.spaces[i]? with
    | none => simp [hs] at he
    | some s0 =>
      simp only [hs] at he
      cases hd : onAckDelivery s0 hh with
      | error e => simp [hd, bind, Except.bind] at he
      | ok s' =>
        simp only [hd, bind, Except.bind, pure, Except.pure] at he
        cases he
        intro s hsp
        simp only [setSpace, List.getElem?_set] at hsp
        split at hsp
        · rename_i hi
          split at hsp
          · cases hsp
            have := (onAckDelivery_fields hd).2.1
            rw [this]; exact hr s0 (by rw [← hi]; exact hs)
          · cases hsp
        · exact hr s hsp
  | discard i =>
    simp only [applyEff] at he
    cases hs : c.spaces[i]? with
    | none => simp [hs] at he
    | some s0 =>
      simp only [hs, pure, Except.pure] at he
      cases he
      intro s hsp
      simp only [setSpace, List.getElem?_set] at hsp
      split at hsp
      · rename_i hi
        split at hsp
        · cases hsp; simp only [discard]; exact hr s0 (by rw [← hi]; exact hs)
        · cases hsp
      · exact hr s hsp

theorem applyEffs_received {F} {c c' : Conn F} {es : List Eff} (sp : Nat) (pn : Nat)
    (hr : ∀ s, c.spaces[sp]? = some s → pn ∈ s.received) (he : applyEffs c es = .ok c') :
    ∀ s, c'.spaces[sp]? = some s → pn ∈ s.received := by
  induction es generalizing c with
  | nil => simp [applyEffs] at he; cases he; exact hr
  | cons e es ih =>
    simp only [applyEffs, bind, Except.bind] at he
    cases h1 : applyEff c e with
    | error x => simp [h1] at he
    | ok c1 => simp only [h1] at he; exact ih (applyEff_received sp pn hr h1) he

end AQ.Ack

namespace AQ.Ack
open AQ AQ.RangeSet AQ.Recovery

/-- what a `_write_handshake` call can do to the ack state -/
theorem txHandshake_cases {F} {s s' : Space F} {kv so af : Bool} {de : Nat} {ms : Option Int} {r : TxRes}
    (he : txHandshake s kv so af de ms = .ok (s', r)) :
    (s' = s ∧ (r = .nothing ∧ kv = false ∨ r = .stopped ∨ r = .noAck ∧ s.ackAt.isSome = false)) ∨
    (∃ f, writeAck s de ms = .ok (s', f) ∧ r = .ack f) := by
  unfold txHandshake at he
  by_cases h1 : (!kv) = true
  · simp only [h1, if_true] at he; cases he; exact Or.inl ⟨rfl, Or.inl ⟨rfl, by simpa using h1⟩⟩
  · by_cases h2 : (!so) = true
    · simp only [h1, h2, if_true, if_false] at he; cases he; exact Or.inl ⟨rfl, Or.inr (Or.inl rfl)⟩
    · by_cases h3 : s.ackAt.isSome = true
      · by_cases h4 : (!af) = true
        · simp only [h1, h2, h3, h4, if_true, if_false] at he; cases he; exact Or.inl ⟨rfl, Or.inr (Or.inl rfl)⟩
        · simp only [h1, h2, h3, h4, if_true, if_false] at he
          cases hw : writeAck s de ms with
          | error e => simp [hw] at he
          | ok p =>
            obtain ⟨s1, f⟩ := p
            simp only [hw] at he
            cases he
            exact Or.inr ⟨f, rfl, rfl⟩
      · simp only [h1, h2, h3, if_false] at he; cases he
        exact Or.inl ⟨rfl, Or.inr (Or.inr ⟨rfl, by simpa using h3⟩)⟩

/-- what a `_write_application` call can do to the ack state -/
theorem txApplication_cases {F} (A : FArith F) {s s' : Space F} {now : F} {hc kv pw so af : Bool} {de : Nat}
    {ms : Option Int} {r : TxRes} (he : txApplication A s now hc kv pw so af de ms = .ok (s', r)) :
    (s' = s ∧ (r = .nothing ∨ r = .stopped ∨ r = .noAck)) ∨
    (∃ f, writeAck s de ms = .ok (s', f) ∧ r = .ack f) := by
  unfold txApplication at he
  by_cases h1 : (!kv) = true
  · simp only [h1, if_true] at he; cases he; exact Or.inl ⟨rfl, Or.inl rfl⟩
  · by_cases h0 : (paced A s now && pw) = true
    · simp only [h1, h0, if_true, if_false] at he; cases he; exact Or.inl ⟨rfl, Or.inl rfl⟩
    · by_cases h2 : (!so) = true
      · simp only [h1, h0, h2, if_true, if_false] at he; cases he; exact Or.inl ⟨rfl, Or.inr (Or.inl rfl)⟩
      · by_cases h3 : (hc && ackDue A s now) = true
        · by_cases h4 : (!af) = true
          · simp only [h1, h0, h2, h3, h4, if_true, if_false] at he; cases he; exact Or.inl ⟨rfl, Or.inr (Or.inl rfl)⟩
          · simp only [h1, h0, h2, h3, h4, if_true, if_false] at he
            cases hw : writeAck s de ms with
            | error e => simp [hw] at he
            | ok p =>
              obtain ⟨s1, f⟩ := p
              simp only [hw] at he
              cases he
              exact Or.inr ⟨f, rfl, rfl⟩
        · simp only [h1, h0, h2, h3, if_false] at he; cases he
          exact Or.inl ⟨rfl, Or.inr (Or.inr rfl)⟩

theorem txHandshake_inv {F} {s s' : Space F} {kv so af : Bool} {de : Nat} {ms : Option Int} {r : TxRes}
    (hi : SInv s) (he : txHandshake s kv so af de ms = .ok (s', r)) : SInv s' := by
  rcases txHandshake_cases he with ⟨rfl, _⟩ | ⟨f, hw, _⟩
  · exact hi
  · exact (writeAck_inv hi hw).1

theorem txApplication_inv {F} (A : FArith F) {s s' : Space F} {now : F} {hc kv pw so af : Bool} {de : Nat}
    {ms : Option Int} {r : TxRes} (hi : SInv s) (he : txApplication A s now hc kv pw so af de ms = .ok (s', r)) :
    SInv s' := by
  rcases txApplication_cases A he with ⟨rfl, _⟩ | ⟨f, hw, _⟩
  · exact hi
  · exact (writeAck_inv hi hw).1

theorem step_inv {F} (A : FArith F) {c c' : Conn F} {op : Op F} {o : Out} (h : CInv c)
    (he : step A c op = .ok (c', o)) : CInv c' := by
  cases op with
  | rx sp pn ae now acc effects =>
    simp only [step] at he
    cases hs : c.spaces[sp]? with
    | none => simp [hs] at he
    | some s =>
      simp only [hs] at he
      have hs0 : SInv { s with received := pn :: s.received } := by
        have := h s (List.mem_of_getElem? hs)
        exact { this with sound := fun x hx => List.mem_cons_of_mem _ (this.sound x hx) }
      have hc0 := cinv_set (i := sp) h hs0
      split at he
      · cases he; exact hc0
      · cases ha : applyEffs (setSpace c sp { s with received := pn :: s.received }) effects with
        | error e => simp [ha, bind, Except.bind] at he
        | ok c1 =>
          simp only [ha, bind, Except.bind] at he
          have hc1 := applyEffs_inv hc0 ha
          split at he
          · cases he; exact hc1
          · cases hs1 : c1.spaces[sp]? with
            | none => simp [hs1] at he
            | some s1 =>
              simp only [hs1, pure, Except.pure] at he
              cases he
              have hrec : pn ∈ s1.received := by
                refine applyEffs_received sp pn ?_ ha s1 hs1
                intro s2 h2
                have hlt : sp < c.spaces.length := by
                  have := List.getElem?_eq_some_iff.mp hs; exact this.1
                simp only [setSpace, List.getElem?_set, hlt, if_true] at h2
                cases h2; simp
              exact cinv_set hc1 (record_inv A c1.delay pn ae now (hc1 s1 (List.mem_of_getElem? hs1)) hrec)
  | ackOfAck sp hh =>
    simp only [step, bind, Except.bind] at he
    cases ha : applyEff c (.aoa sp hh) with
    | error e => simp [ha] at he
    | ok c1 => simp only [ha, pure, Except.pure] at he; cases he; exact applyEff_inv h ha
  | discard sp =>
    simp only [step, bind, Except.bind] at he
    cases ha : applyEff c (.discard sp) with
    | error e => simp [ha] at he
    | ok c1 => simp only [ha, pure, Except.pure] at he; cases he; exact applyEff_inv h ha
  | txHs sp kv so af de ms =>
    simp only [step] at he
    cases hs : c.spaces[sp]? with
    | none => simp [hs] at he
    | some s =>
      simp only [hs, bind, Except.bind] at he
      cases ht : txHandshake s kv so af de ms with
      | error e => simp [ht] at he
      | ok p =>
        obtain ⟨s1, r⟩ := p
        simp only [ht, pure, Except.pure] at he
        cases he
        exact cinv_set h (txHandshake_inv (h s (List.mem_of_getElem? hs)) ht)
  | txApp sp now hc kv pw so af de ms =>
    simp only [step] at he
    cases hs : c.spaces[sp]? with
    | none => simp [hs] at he
    | some s =>
      simp only [hs, bind, Except.bind] at he
      cases ht : txApplication A s now hc kv pw so af de ms with
      | error e => simp [ht] at he
      | ok p =>
        obtain ⟨s1, r⟩ := p
        simp only [ht, pure, Except.pure] at he
        cases he
        exact cinv_set h (txApplication_inv A (h s (List.mem_of_getElem? hs)) ht)

/-- run an op sequence, collecting the outputs; stops at the first exception -/
def run {F} (A : FArith F) (c : Conn F) : List (Op F) → Outcome (Conn F × List Out)
  | [] => .ok (c, [])
  | op :: ops =>
    match step A c op with
    | .error e => .error e
    | .ok (c1, o) =>
      match run A c1 ops with
      | .error e => .error e
      | .ok (c2, os) => .ok (c2, o :: os)

theorem run_inv {F} (A : FArith F) {c c' : Conn F} {ops : List (Op F)} {os : List Out} (h : CInv c)
    (he : run A c ops = .ok (c', os)) : CInv c' := by
  induction ops generalizing c os with
  | nil => simp [run] at he; cases he.1; exact h
  | cons op ops ih =>
    simp only [run] at he
    cases hs : step A c op with
    | error e => simp [hs] at he
    | ok p =>
      obtain ⟨c1, o⟩ := p
      simp only [hs] at he
      cases hr : run A c1 ops with
      | error e => simp [hr] at he
      | ok q =>
        obtain ⟨c2, os2⟩ := q
        simp only [hr] at he
        cases he
        exact ih (step_inv A h hs) hr

def Conn.init {F} (delay : F) : Conn F := { spaces := [{}, {}, {}], delay := delay }

theorem cinv_init {F} (delay : F) : CInv (Conn.init delay) := by
  intro s hs
  simp only [Conn.init, List.mem_cons, List.not_mem_nil, or_false, or_self] at hs
  subst hs; exact sinv_init

end AQ.Ack

namespace AQ.Ack
open AQ AQ.RangeSet AQ.Recovery

/-- the facts about the time comparisons the timing theorems use (true of IEEE
    doubles that are not NaN, of rationals, …) -/
structure OrderOk {F} (A : FArith F) : Prop where
  irrefl : ∀ x, A.lt x x = false
  asymm : ∀ x y, A.lt x y = true → A.lt y x = false
  ge_trans : ∀ x y z, A.lt x y = false → A.lt y z = false → A.lt x z = false
  le_not_lt : ∀ x y, A.le x y = true → A.lt y x = false

theorem ackTimer_le_acc {F} (A : FArith F) (ho : OrderOk A) (t : F) (spaces : List (Space F)) :
    A.lt t (ackTimer A t spaces) = false := by
  induction spaces generalizing t with
  | nil => simp [ackTimer, ho.irrefl]
  | cons s rest ih =>
    simp only [ackTimer]
    cases hs : s.ackAt with
    | none => exact ih t
    | some a =>
      simp only
      cases hl : A.lt a t with
      | false => simp only [Bool.false_eq_true, if_false]; exact ih t
      | true =>
        simp only [if_true]
        exact ho.ge_trans _ _ _ (ho.asymm _ _ hl) (ih a)

theorem ackTimer_le {F} (A : FArith F) (ho : OrderOk A) (t : F) (spaces : List (Space F)) (s : Space F)
    (hs : s ∈ spaces) (a : F) (ha : s.ackAt = some a) : A.lt a (ackTimer A t spaces) = false := by
  induction spaces generalizing t with
  | nil => cases hs
  | cons s' rest ih =>
    simp only [ackTimer]
    rcases List.mem_cons.mp hs with h | h
    · subst h
      simp only [ha]
      cases hl : A.lt a t with
      | false =>
        simp only [Bool.false_eq_true, if_false]
        exact ho.ge_trans _ _ _ hl (ackTimer_le_acc A ho t rest)
      | true => simp only [if_true]; exact ackTimer_le_acc A ho a rest
    · exact ih _ h

theorem writeAck_ok {F} {s : Space F} (hi : SInv s) (harm : s.ackAt.isSome) (hne : s.ackQueue ≠ []) (de : Nat)
    (ms : Option Int) : ∃ s' f, writeAck s de ms = .ok (s', f) := by
  have ⟨ht, _⟩ := hi.armed harm
  obtain ⟨vals, n, hp⟩ := pushAckFrame_ok s.ackQueue de ms hi.wf hne
  unfold writeAck
  cases hlt : s.largestReceivedTime with
  | none => simp [hlt] at ht
  | some t => simp only [hp, bind, Except.bind, pure, Except.pure]; exact ⟨_, _, rfl⟩

theorem mem_ne_nil {x : Nat} {rs : List Rg} (h : mem x rs) : rs ≠ [] := by
  intro hn; subst hn; obtain ⟨q, hq, _⟩ := h; cases hq

end AQ.Ack

namespace AQ.Ack
open AQ AQ.RangeSet AQ.Recovery

theorem dwf_lt (start : Int) (older : List Rg) (h : DWF start older) : ∀ q ∈ older, (q.stop : Int) < start := by
  induction older generalizing start with
  | nil => intro q hq; cases hq
  | cons r rest ih =>
    obtain ⟨h1, h2, h3⟩ := h
    intro q hq
    rcases List.mem_cons.mp hq with h | h
    · subst h; exact h1
    · have := ih _ h3 q h; omega

/-- in a well-formed range set the largest member lies in the last range -/
theorem largest_in_last (rs : List Rg) (r : Rg) (older : List Rg) (hwf : WF rs) (hrev : rs.reverse = r :: older)
    (pn : Nat) (hm : mem pn rs) (hmax : ∀ x, mem x rs → x ≤ pn) : r.start ≤ pn ∧ pn < r.stop := by
  have hrs : rs = older.reverse ++ [r] := by
    have := congrArg List.reverse hrev; simpa using this
  have ⟨hr, hd⟩ := dwf_of_wf r older (by rw [← hrs]; exact hwf)
  have hrmem : r ∈ rs := by rw [hrs]; simp
  have hle : r.stop - 1 ≤ pn := hmax (r.stop - 1) ⟨r, hrmem, by omega, by omega⟩
  obtain ⟨q, hq, hq1, hq2⟩ := hm
  rw [hrs] at hq
  rcases List.mem_append.mp hq with h | h
  · have := dwf_lt _ _ hd q (List.mem_reverse.mp h)
    omega
  · simp only [List.mem_singleton] at h; subst h; exact ⟨hq1, hq2⟩

/-- however many older ranges `max_size` cuts off, the range holding the largest
    queued packet number is written -/
theorem pushAckFrame_covers_largest (rs : List Rg) (de : Nat) (ms : Option Int) (vals : List Nat) (n : Nat)
    (h : pushAckFrame rs de ms = .ok (vals, n)) (hwf : WF rs) (pn : Nat) (hm : mem pn rs)
    (hmax : ∀ x, mem x rs → x ≤ pn) : ∃ lh ∈ wireRanges vals, lh.1 ≤ (pn : Int) ∧ (pn : Int) ≤ lh.2 := by
  obtain ⟨r, older, k, hrev, _, _, hw, _⟩ := pushAckFrame_wire rs de ms vals n h
  have ⟨h1, h2⟩ := largest_in_last rs r older hwf hrev pn hm hmax
  refine ⟨((r.start : Int), (r.stop : Int) - 1), ?_, by simp; omega, by simp; omega⟩
  rw [hw]; simp

end AQ.Ack
