/-
  The driver's shortcuts are the model: `Script.runFresh` and
  `tpScriptOverFast` equal the buffer-based definitions for all inputs.
-/
import AQ.Proofs.Codec

namespace AQ.Codec
open AQ

theorem runFresh_eq (sc : Script) (cap : Nat) :
    Script.runFresh sc cap =
      match Script.run sc (Buf.ofCapacity cap) with
      | .ok b => .ok (b.tell, b.data)
      | .error e => .error e := by
  unfold Script.runFresh
  cases hb : sc.bytes with
  | error e => rfl
  | ok bs =>
    simp only []
    split
    · rename_i hfit
      obtain ⟨b, hrun, hdata, hpos, _⟩ := Script.run_fresh sc bs cap hb hfit
      simp only [hrun, Buf.tell, hpos, hdata]
    · rfl

theorem paramScriptFast_eq (id : Nat) (kind : PKind) (v : Option PVal) :
    paramScriptFast id kind v = paramScript id kind v := by
  cases v with
  | none => rfl
  | some v =>
    simp only [paramScriptFast, paramScript, runFresh_eq]
    cases Script.run (paramValueScript kind v) (Buf.ofCapacity 65536) <;> rfl

theorem tpScriptOverFast_eq (p : TP) (L : List (Nat × String × PKind)) :
    tpScriptOverFast p L = tpScriptOver p L := by
  induction L with
  | nil => rfl
  | cons e rest ih =>
    obtain ⟨id, name, kind⟩ := e
    simp only [tpScriptOverFast, tpScriptOver, paramScriptFast_eq, ih]

end AQ.Codec
