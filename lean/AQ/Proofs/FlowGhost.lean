/-
  Connecting the send half of every stream of the connection model to the C10
  sender invariant (AQ.Proofs.StreamSend: `AQ.Stream.SInv` over the sender and a
  ghost history of emitted / reported frames), plus: every frame ever emitted
  ends at or below `highest_offset`.
-/
import AQ.Proofs.FlowRInv3
import AQ.Proofs.StreamSend

namespace AQ.Flow
open AQ AQ.Stream AQ.RangeSet

/-- every emitted frame (outstanding or acknowledged) ends at or below `highest_offset` -/
def HB (s : Send) (g : Ghost) : Prop :=
  (∀ f ∈ g.outstanding, f.stop ≤ s.highest) ∧ (∀ f ∈ g.acked, f.stop ≤ s.highest)

/-- the C10 sender invariant together with `HB` -/
def SG (s : Send) (g : Ghost) : Prop := AQ.Stream.SInv s g ∧ HB s g

theorem SG_init : SG (Send.init true) {} := ⟨SInv_init, by simp [HB]⟩

theorem SG.reset_false_of_getFrame {s s' : Send} {g : Ghost} (h : SG s g) {ms : Nat} {mo : Option Nat}
    {o : Option OutFrame} (hg : getFrame s ms mo = .ok (s', o)) : g.reset = false := by
  cases hr : g.reset with
  | false => rfl
  | true =>
    have hc : s.resetCode.isSome = true := by rw [h.1.code_iff]; exact hr
    rw [getFrame_reset s ms mo hc] at hg
    simp at hg

/-- when nothing is pending every written byte has been emitted -/
theorem SG.written_le_highest {s : Send} {g : Ghost} (h : SG s g) (hr : g.reset = false)
    (hp : s.pending = []) : g.written.length ≤ s.highest := by
  by_cases h0 : g.written.length = 0
  · omega
  · have hpart := h.1.part hr (g.written.length - 1)
    have hm : ¬ mem (g.written.length - 1) s.pending := by rw [hp]; simp [mem]
    rw [ind_neg hm, ind_pos (by omega : g.written.length - 1 < g.written.length)] at hpart
    by_cases hc : 0 < g.outstanding.countP (·.cov (g.written.length - 1))
    · obtain ⟨f, hf, hcov⟩ := List.countP_pos_iff.1 hc
      have := h.2.1 f hf
      simp at hcov
      omega
    · have hi : ind (g.written.length - 1 < s.bufStart ∨ mem (g.written.length - 1) s.acked) = 1 := by omega
      obtain ⟨f, hf, hcov⟩ := (h.1.acked_link _).1 (ind_eq_one.1 hi)
      have := h.2.2 f hf
      simp at hcov
      omega

theorem SG_write {s s' : Send} {g : Ghost} (h : SG s g) {d : Bytes} {fin : Bool}
    (hw : write s d fin = .ok s') : SG s' (g.onWrite d fin) := by
  refine ⟨SInv_write h.1 d fin s' hw, ?_⟩
  have := (write_highest hw).1
  exact ⟨by intro f hf; rw [this]; exact h.2.1 f hf, by intro f hf; rw [this]; exact h.2.2 f hf⟩

theorem SG_get {s s' : Send} {g : Ghost} (h : SG s g) {ms : Nat} {mo : Option Nat} {o : Option OutFrame}
    (hg : getFrame s ms mo = .ok (s', o)) : SG s' (g.onGet o) := by
  refine ⟨SInv_get h.1 ms mo s' o hg, ?_⟩
  have hmono := getFrame_highest_mono hg
  have hold : (∀ f ∈ g.outstanding, f.stop ≤ s'.highest) ∧ (∀ f ∈ g.acked, f.stop ≤ s'.highest) :=
    ⟨fun f hf => Nat.le_trans (h.2.1 f hf) hmono, fun f hf => Nat.le_trans (h.2.2 f hf) hmono⟩
  cases o with
  | none => exact hold
  | some f =>
    refine ⟨?_, hold.2⟩
    intro x hx
    simp only [Ghost.onGet, List.mem_cons] at hx
    rcases hx with rfl | hx
    · show f.offset + f.data.length ≤ s'.highest
      rcases getFrame_frame_le hg with hle | hnil
      · exact hle
      · have hr := h.reset_false_of_getFrame hg
        rcases getFrame_cases h.1 hr ms mo with ⟨_, _, he⟩ | ⟨hp, _, he⟩ | ⟨r, rest, _, _, he⟩ | ⟨r, rest, _, hlt, he⟩
        · rw [he] at hg; simp at hg
        · rw [he] at hg
          simp at hg
          obtain ⟨rfl, rfl⟩ := hg
          have := h.written_le_highest hr hp
          simpa using this
        · rw [he] at hg; simp at hg
        · rw [he] at hg
          simp at hg
          obtain ⟨rfl, rfl⟩ := hg
          have hl := congrArg List.length hnil
          simp only [List.length_nil] at hl
          simp only [afterData]
          split <;> omega
    · exact hold.1 x hx

theorem SG_delivery {s s' : Send} {g : Ghost} (h : SG s g) (d : Delivery) {a b : Nat} {fin : Bool}
    (hf : (⟨a, b, fin⟩ : Fr) ∈ g.outstanding) (hd : onDataDelivery s d a b fin = .ok s') :
    SG s' (g.onDelivery d ⟨a, b, fin⟩) := by
  refine ⟨SInv_delivery h.1 d hf s' hd, ?_⟩
  have hh := onDataDelivery_highest hd
  refine ⟨?_, ?_⟩
  · intro x hx
    rw [hh]
    exact h.2.1 x (List.mem_of_mem_erase hx)
  · intro x hx
    rw [hh]
    simp only [Ghost.onDelivery] at hx
    split at hx
    · rcases List.mem_cons.1 hx with rfl | hx
      · exact h.2.1 _ hf
      · exact h.2.2 x hx
    · exact h.2.2 x hx

theorem SG_reset {s : Send} {g : Ghost} (h : SG s g) (code : Nat) :
    SG (Stream.reset s code) { g with reset := true } := by
  refine ⟨SInv_reset h.1 code, ?_⟩
  have := (reset_highest s code).1
  exact ⟨by intro f hf; rw [this]; exact h.2.1 f hf, by intro f hf; rw [this]; exact h.2.2 f hf⟩

theorem SG_getReset {s : Send} {g : Ghost} (h : SG s g) (hr : g.reset = true) :
    SG (getResetFrame s).1 { g with resetOut := g.resetOut + 1 } :=
  ⟨SInv_getReset h.1 hr, h.2⟩

theorem SG_resetDelivery {s : Send} {g : Ghost} (h : SG s g) (d : Delivery) (ho : 0 < g.resetOut) :
    SG (onResetDelivery s d) (g.onResetDelivery d) := by
  refine ⟨SInv_resetDelivery h.1 d ho, ?_⟩
  have := onResetDelivery_highest s d
  exact ⟨by intro f hf; rw [this]; exact h.2.1 f hf, by intro f hf; rw [this]; exact h.2.2 f hf⟩

theorem wf_mem_lt {rs : List Rg} (hwf : WF rs) {r : Rg} (hr : r ∈ rs) : r.start < r.stop := by
  induction rs with
  | nil => simp at hr
  | cons x xs ih =>
    rcases List.mem_cons.1 hr with rfl | hx
    · exact wf_head hwf
    · exact ih (wf_tail hwf) hx

/-- `Covers` (the buffer holds the pending ranges) follows from the C10 invariant -/
theorem SG.covers {s : Send} {g : Ghost} (h : SG s g) (hr : g.reset = false) : Covers s := by
  intro r hrm
  have hwf := h.1.wfP
  have hlt : r.start < r.stop := wf_mem_lt hwf hrm
  have m1 : mem r.start s.pending := ⟨r, hrm, Nat.le_refl _, hlt⟩
  have m2 : mem (r.stop - 1) s.pending := ⟨r, hrm, by omega, by omega⟩
  have f1 := h.1.pending_facts hr m1
  have f2 := h.1.pending_facts hr m2
  have hb := h.1.buf_eq
  have := h.1.start_le
  have := h.1.stop_eq
  rw [hb, List.length_drop]
  omega

end AQ.Flow
