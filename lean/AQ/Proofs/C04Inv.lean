import AQ.Proofs.CSafety
/-! Object invariants and post-conditions used by `AQ/Props/C04.lean`. -/
namespace AQ.C04
open AQ.C

/-- `Buffer` object invariant: `base` is offset 0 of the heap block (object 1),
    `pos`,`end` point into the same block and `0 ≤ pos ≤ end ≤ size ≤ PTRDIFF_MAX`. -/
def BufInv (s : St) : Prop :=
  (s.pf 0).obj = 1 ∧ (s.pf 0).off = 0 ∧ (s.pf 1).obj = 1 ∧ (s.pf 2).obj = 1 ∧
  0 ≤ (s.pf 2).off ∧ (s.pf 2).off ≤ (s.pf 1).off ∧ (s.pf 1).off ≤ s.size 1 ∧
  s.size 1 ≤ 9223372036854775807

/-- object `o` (10 + k for the k-th `y#` argument) is a CPython bytes object: extent = its length
    (0 ≤ len ≤ PY_SSIZE_T_MAX), followed by a NUL -/
def BytesArg (s : St) (o : Nat) : Prop :=
  0 ≤ s.size o ∧ s.size o ≤ 9223372036854775807 ∧ s.nul o = true

/-- post-condition of every Buffer method: invariant kept, block and `end` untouched, and a
    Python exception (`NULL` result) has the error indicator set and leaves `pos` where it was -/
def BufPost (s : St) (r : PyVal) (s' : St) : Prop :=
  BufInv s' ∧ s'.size 1 = s.size 1 ∧ s'.pf 0 = s.pf 0 ∧ s'.pf 1 = s.pf 1 ∧
  (r = .null → s'.pf 2 = s.pf 2 ∧ s'.err.isSome)

/-- `AEAD` object invariant: the struct arrays have their declared sizes (buffer[1500], key[32],
    iv[12], nonce[12]); both cipher contexts exist, with key length ≤ 32 and IV length ≤ 12. -/
def AeadInv (s : St) : Prop :=
  s.size 2 = 1500 ∧ s.size 3 = 32 ∧ s.size 4 = 12 ∧ s.size 5 = 12 ∧
  (s.pf 0).obj ≠ 0 ∧ (s.pf 1).obj ≠ 0 ∧
  0 ≤ s.cklen (s.pf 0).obj ∧ s.cklen (s.pf 0).obj ≤ 32 ∧ 0 ≤ s.civlen (s.pf 0).obj ∧ s.civlen (s.pf 0).obj ≤ 12 ∧
  0 ≤ s.cklen (s.pf 1).obj ∧ s.cklen (s.pf 1).obj ≤ 32 ∧ 0 ≤ s.civlen (s.pf 1).obj ∧ s.civlen (s.pf 1).obj ≤ 12

/-- `HeaderProtection` object invariant: buffer[1500], mask[31], zero[5]; the context exists and
    its IV length is ≤ 16 (the sample length). -/
def HpInv (s : St) : Prop :=
  s.size 2 = 1500 ∧ s.size 3 = 31 ∧ s.size 4 = 5 ∧ (s.pf 0).obj ≠ 0 ∧
  0 ≤ s.civlen (s.pf 0).obj ∧ s.civlen (s.pf 0).obj ≤ 16

end AQ.C04
