/-
  Receive half over arbitrary operation sequences: the implementation model and
  the reference model are run side by side on the same list of operations.
-/
import AQ.Proofs.StreamSpec

namespace AQ.Stream
open AQ

/-- an operation on the receive half -/
inductive ROp where
  | frame (f : Frame)
  | reset (finalSize : Nat)
deriving Repr, DecidableEq

/-- what one operation shows to the caller -/
inductive ROut where
  | err (e : Err)                -- an exception was raised (state unchanged)
  | ev (e : Option DataEv)       -- `handle_frame` returned this event (or None)
  | reset                        -- `handle_reset` returned a StreamReset event
deriving Repr, DecidableEq

/-- the bytes handed to the application by this operation -/
def ROut.data : ROut → Bytes
  | .ev e => evData e
  | _ => []

/-- the end marker handed to the application by this operation -/
def ROut.endMarker : ROut → Bool
  | .ev e => evEnd e
  | _ => false

def ROut.err? : ROut → Option Err
  | .err e => some e
  | _ => none

/-- one operation on the implementation model; an exception leaves the state
    unchanged (both Python methods raise before their first assignment) -/
def implStep (s : Recv) : ROp → Recv × ROut
  | .frame f =>
    match handleFrame s f with
    | .ok (s', ev) => (s', .ev ev)
    | .error e => (s, .err e)
  | .reset z =>
    match handleReset s z with
    | .ok s' => (s', .reset)
    | .error e => (s, .err e)

/-- one operation on the reference model -/
def specStep (t : RSpec) : ROp → RSpec × ROut
  | .frame f =>
    match specFrame t f with
    | some (t', ev) => (t', .ev ev)
    | none => (t, .err .finalSize)
  | .reset z =>
    match specReset t z with
    | some t' => (t', .reset)
    | none => (t, .err .finalSize)

def implRun (s : Recv) : List ROp → Recv × List ROut
  | [] => (s, [])
  | op :: ops => ((implRun (implStep s op).1 ops).1, (implStep s op).2 :: (implRun (implStep s op).1 ops).2)

def specRun (t : RSpec) : List ROp → RSpec × List ROut
  | [] => (t, [])
  | op :: ops => ((specRun (specStep t op).1 ops).1, (specStep t op).2 :: (specRun (specStep t op).1 ops).2)

theorem implRun_append (s : Recv) (a b : List ROp) :
    implRun s (a ++ b) = ((implRun (implRun s a).1 b).1, (implRun s a).2 ++ (implRun (implRun s a).1 b).2) := by
  induction a generalizing s with
  | nil => rfl
  | cons op a ih => simp [implRun, ih]

theorem specRun_append (t : RSpec) (a b : List ROp) :
    specRun t (a ++ b) = ((specRun (specRun t a).1 b).1, (specRun t a).2 ++ (specRun (specRun t a).1 b).2) := by
  induction a generalizing t with
  | nil => rfl
  | cons op a ih => simp [specRun, ih]

theorem implRun_length (s : Recv) (ops : List ROp) : (implRun s ops).2.length = ops.length := by
  induction ops generalizing s with
  | nil => rfl
  | cons op a ih => simp [implRun, ih]

theorem specRun_length (t : RSpec) (ops : List ROp) : (specRun t ops).2.length = ops.length := by
  induction ops generalizing t with
  | nil => rfl
  | cons op a ih => simp [specRun, ih]

/-! ## One step -/

/-- agreement of one implementation output with the reference output -/
structure OutAgree (o o' : ROut) : Prop where
  err : o.err? = o'.err?
  data : o.data = o'.data
  endSound : o.endMarker = true → o'.endMarker = true
  reset : o = .reset ↔ o' = .reset

theorem step_refines {s : Recv} (op : ROp) (h : Inv s) :
    Inv (implStep s op).1 ∧ abs (implStep s op).1 = (specStep (abs s) op).1 ∧
    OutAgree (implStep s op).2 (specStep (abs s) op).2 ∧
    (FinCovered s → (specStep (abs s) op).2 ≠ .reset →
      FinCovered (implStep s op).1 ∧ (implStep s op).2 = (specStep (abs s) op).2) := by
  cases op with
  | frame f =>
    have hr := handleFrame_refines f h
    unfold FrameRefines at hr
    simp only [implStep, specStep]
    split at hr
    · rename_i e he hs
      subst hr
      rw [he, hs]
      exact ⟨h, rfl, ⟨rfl, rfl, id, Iff.rfl⟩, fun hfc _ => ⟨hfc, rfl⟩⟩
    · rename_i s' ev t' ev' he hs
      rw [he, hs]
      obtain ⟨h1, h2, h3, h4, h5⟩ := hr
      refine ⟨h1, h2, ⟨rfl, h3, h4, by simp⟩, fun hfc _ => ?_⟩
      have := h5 hfc
      exact ⟨this.1, by rw [this.2]⟩
    · exact hr.elim
  | reset z =>
    have hr := handleReset_refines z h
    simp only [implStep, specStep]
    split at hr
    · rename_i e he hs
      subst hr
      rw [he, hs]
      exact ⟨h, rfl, ⟨rfl, rfl, id, Iff.rfl⟩, fun hfc _ => ⟨hfc, rfl⟩⟩
    · rename_i s' t' he hs
      rw [he, hs]
      exact ⟨hr.1, hr.2, ⟨rfl, rfl, id, Iff.rfl⟩, fun _ hne => absurd rfl hne⟩
    · exact hr.elim

/-! ## Whole runs -/

/-- position-wise agreement of two output traces -/
def AllAgree : List ROut → List ROut → Prop
  | [], [] => True
  | o :: os, o' :: os' => OutAgree o o' ∧ AllAgree os os'
  | _, _ => False

theorem AllAgree.maps {a b : List ROut} (h : AllAgree a b) :
    a.map ROut.err? = b.map ROut.err? ∧ a.map ROut.data = b.map ROut.data ∧
    ∀ i : Nat, (a[i]?.map ROut.endMarker) = some true → (b[i]?.map ROut.endMarker) = some true := by
  induction a generalizing b with
  | nil =>
    cases b with
    | nil => simp
    | cons _ _ => exact h.elim
  | cons o os ih =>
    cases b with
    | nil => exact h.elim
    | cons o' os' =>
      obtain ⟨h1, h2⟩ := h
      have := ih h2
      refine ⟨by simp [h1.err, this.1], by simp [h1.data, this.2.1], ?_⟩
      intro i
      cases i with
      | zero => simpa using h1.endSound
      | succ j => simpa using this.2.2 j

theorem AllAgree.reset_mem {a b : List ROut} (h : AllAgree a b) : ROut.reset ∈ a ↔ ROut.reset ∈ b := by
  induction a generalizing b with
  | nil =>
    cases b with
    | nil => simp
    | cons _ _ => exact h.elim
  | cons o os ih =>
    cases b with
    | nil => exact h.elim
    | cons o' os' =>
      obtain ⟨h1, h2⟩ := h
      simp only [List.mem_cons, ih h2]
      constructor
      · rintro (hx | hx)
        · exact Or.inl (h1.reset.1 hx.symm).symm
        · exact Or.inr hx
      · rintro (hx | hx)
        · exact Or.inl (h1.reset.2 hx.symm).symm
        · exact Or.inr hx

theorem run_refines {s : Recv} (ops : List ROp) (h : Inv s) :
    Inv (implRun s ops).1 ∧ abs (implRun s ops).1 = (specRun (abs s) ops).1 ∧
    AllAgree (implRun s ops).2 (specRun (abs s) ops).2 := by
  induction ops generalizing s with
  | nil => exact ⟨h, rfl, trivial⟩
  | cons op ops ih =>
    obtain ⟨h1, h2, h3, -⟩ := step_refines op h
    have := ih h1
    simp only [implRun, specRun]
    rw [← h2]
    exact ⟨this.1, this.2.1, h3, this.2.2⟩

theorem run_refines_strict {s : Recv} (ops : List ROp) (h : Inv s) (hfc : FinCovered s)
    (hnr : ROut.reset ∉ (specRun (abs s) ops).2) :
    (implRun s ops).2 = (specRun (abs s) ops).2 ∧ FinCovered (implRun s ops).1 := by
  induction ops generalizing s with
  | nil => exact ⟨rfl, hfc⟩
  | cons op ops ih =>
    obtain ⟨h1, h2, -, h4⟩ := step_refines op h
    simp only [specRun, List.mem_cons, not_or] at hnr
    have h5 := h4 hfc (fun hx => hnr.1 hx.symm)
    have := ih h1 h5.1 (by rw [h2]; exact hnr.2)
    simp only [implRun, specRun]
    rw [← h2, h5.2.symm, this.1]
    exact ⟨rfl, this.2⟩

/-! ## Reference-model facts over runs -/

theorem specRun_inv {t : RSpec} (ops : List ROp) (h : SpecInv t) : SpecInv (specRun t ops).1 := by
  induction ops generalizing t with
  | nil => exact h
  | cons op ops ih =>
    simp only [specRun]
    apply ih
    cases op with
    | frame f =>
      simp only [specStep]
      split
      · rename_i hs; exact specFrame_inv h hs
      · exact h
    | reset z =>
      simp only [specStep]
      split
      · rename_i hs; exact specReset_inv h hs
      · exact h

/-- the reference model only ever raises FinalSizeError -/
theorem specRun_err (t : RSpec) (ops : List ROp) :
    ∀ e ∈ (specRun t ops).2.map ROut.err?, e = none ∨ e = some Err.finalSize := by
  induction ops generalizing t with
  | nil => simp [specRun]
  | cons op ops ih =>
    intro e he
    simp only [specRun, List.map_cons, List.mem_cons] at he
    rcases he with he | he
    · subst he
      cases op <;> simp only [specStep] <;> split <;> simp [ROut.err?]
    · exact ih _ e he

/-- the first FIN or reset of a history -/
def firstFinal : List ROp → Option Nat
  | [] => none
  | .frame f :: ops => if f.fin then some f.stop else firstFinal ops
  | .reset z :: _ => some z

theorem specStep_final (t : RSpec) (op : ROp) :
    (specStep t op).1.final =
      match t.final with
      | some z => some z
      | none => firstFinal [op] := by
  cases op with
  | frame f =>
    simp only [specStep]
    split
    · rename_i t' ev hs
      cases hf : t.final with
      | some z => exact specFrame_final_stable hf hs
      | none =>
        rw [specFrame_eq] at hs
        split at hs
        · cases hs
        · simp only [Option.some.injEq, Prod.mk.injEq] at hs
          obtain ⟨rfl, -⟩ := hs
          simp only [firstFinal, hf]
    · rename_i hs
      cases hf : t.final with
      | some z => rfl
      | none =>
        rw [specFrame_eq] at hs
        split at hs
        · rename_i he
          unfold specFrameError at he
          rw [hf] at he
          simp at he
        · cases hs
  | reset z =>
    simp only [specStep, specReset]
    cases hf : t.final with
    | some y =>
      simp only []
      split
      · rename_i t' hs
        split at hs
        · cases hs
        · cases hs; rfl
      · exact hf
    | none => rfl

theorem specRun_final (t : RSpec) (ops : List ROp) :
    (specRun t ops).1.final =
      match t.final with
      | some z => some z
      | none => firstFinal ops := by
  induction ops generalizing t with
  | nil => simp only [specRun, firstFinal]; cases t.final <;> rfl
  | cons op ops ih =>
    simp only [specRun]
    rw [ih, specStep_final]
    cases hf : t.final with
    | some z => rfl
    | none =>
      cases op with
      | frame f =>
        simp only [firstFinal]
        by_cases hfin : f.fin = true <;> simp [hfin]
      | reset z => rfl

theorem specRun_src {src : Nat → UInt8} {t : RSpec} (ops : List ROp) (hi : SpecInv t)
    (h : SrcInv src t) (hc : ∀ f, ROp.frame f ∈ ops → Consistent src f) :
    t.delivered ≤ (specRun t ops).1.delivered ∧
    ((specRun t ops).2.map ROut.data).flatten =
      (List.range' t.delivered ((specRun t ops).1.delivered - t.delivered)).map src := by
  induction ops generalizing t with
  | nil => simp [specRun]
  | cons op ops ih =>
    simp only [specRun, List.map_cons, List.flatten_cons]
    have key : SpecInv (specStep t op).1 ∧ SrcInv src (specStep t op).1 ∧
        t.delivered ≤ (specStep t op).1.delivered ∧
        (specStep t op).2.data =
          (List.range' t.delivered ((specStep t op).1.delivered - t.delivered)).map src := by
      cases op with
      | frame f =>
        simp only [specStep]
        split
        · rename_i t' ev hs
          have h1 := specFrame_src hi h (hc f (by simp)) hs
          refine ⟨specFrame_inv hi hs, h1.1, ?_, h1.2⟩
          rw [specFrame_eq] at hs
          split at hs
          · cases hs
          · simp only [Option.some.injEq, Prod.mk.injEq] at hs
            obtain ⟨rfl, -⟩ := hs
            simp
        · exact ⟨hi, h, Nat.le_refl _, by simp [ROut.data]⟩
      | reset z =>
        simp only [specStep]
        split
        · rename_i t' hs
          have h1 := specReset_src h hs
          exact ⟨specReset_inv hi hs, h1.1, by show t.delivered ≤ t'.delivered; omega, by simp [ROut.data, h1.2]⟩
        · exact ⟨hi, h, Nat.le_refl _, by simp [ROut.data]⟩
    obtain ⟨k1, k2, k3, k4⟩ := key
    have := ih k1 k2 (fun f hf => hc f (by simp [hf]))
    refine ⟨by omega, ?_⟩
    rw [this.2, k4, ← List.map_append]
    congr 1
    have e : (specRun (specStep t op).1 ops).1.delivered - t.delivered =
        ((specStep t op).1.delivered - t.delivered) +
          ((specRun (specStep t op).1 ops).1.delivered - (specStep t op).1.delivered) := by omega
    rw [e, ← List.range'_append_1]
    congr 2
    omega

end AQ.Stream
