/-
  The event-stream guarantee the asyncio adapter relies on, stated declaratively (`EventStreamOK`), shown
  to imply silence of the adapter model's event-order monitor, and DERIVED from the models of the QUIC
  layer: C09's close/termination model (AQ.CloseTimer) and C01's stream system (AQ.StreamSys).
-/
import AQ.Proofs.AdapterHyp
import AQ.Props.C09
import AQ.Props.C01

namespace AQ.Adapter
open AQ

/-- the shape of the events one QuicConnection hands to `_process_events`:
    * nothing follows ConnectionTerminated (C09 `terminated_once`);
    * per stream, no StreamDataReceived follows the one carrying end_stream (C01 `c01_fin_once` +
      `c01_nothing_after_end` below). -/
structure EventStreamOK (l : List Ev) : Prop where
  term_last : ∀ pre post, l = pre ++ Ev.terminated :: post → post = []
  end_last : ∀ sid pre d post, l = pre ++ Ev.data sid d true :: post → ∀ d' f', Ev.data sid d' f' ∉ post

theorem okFrom_iff (seen l : List Ev) :
    okFrom seen l = true ↔ ∀ pre e post, l = pre ++ e :: post → okAt (seen ++ pre) e = true := by
  induction l generalizing seen with
  | nil => simp [okFrom]
  | cons a l ih =>
    simp only [okFrom, Bool.and_eq_true, ih]
    constructor
    · rintro ⟨h1, h2⟩ pre e post hl
      cases pre with
      | nil => simp at hl; rw [← hl.1]; simpa using h1
      | cons b pre =>
        simp at hl
        have := h2 pre e post hl.2
        rw [← hl.1]; simpa [List.append_assoc] using this
    · intro h
      refine ⟨by simpa using h [] a l rfl, ?_⟩
      intro pre e post hl
      have := h (a :: pre) e post (by simp [hl])
      simpa [List.append_assoc] using this

/-- a well-shaped event stream keeps the adapter's event-order monitor silent -/
theorem okLog_of_eventStreamOK {l : List Ev} (h : EventStreamOK l) : okLog l = true := by
  rw [okLog, okFrom_iff]
  intro pre e post hl
  simp only [List.nil_append, okAt, Bool.and_eq_true, Bool.not_eq_true', decide_eq_false_iff_not]
  constructor
  · intro hm
    obtain ⟨a, b, hab⟩ := List.append_of_mem hm
    have := h.term_last a (b ++ e :: post) (by rw [hl, hab]; simp)
    simp at this
  · cases e with
    | data sid d f =>
      simp only [Bool.not_eq_true', ← Bool.not_eq_true]
      intro hany
      rw [List.any_eq_true] at hany
      obtain ⟨x, hx, hfin⟩ := hany
      cases x with
      | data s2 d2 f2 =>
        simp only [isFin_data, Bool.and_eq_true, beq_iff_eq] at hfin
        obtain ⟨rfl, rfl⟩ := hfin
        obtain ⟨a, b, hab⟩ := List.append_of_mem hx
        exact h.end_last s2 a d2 (b ++ Ev.data s2 d f :: post) (by rw [hl, hab]; simp) d f (by simp)
      | _ => simp at hfin
    | _ => simp

/-- conversely, a log the monitor accepts is well shaped: `EventStreamOK` is exactly what the monitor checks -/
theorem eventStreamOK_of_okLog {l : List Ev} (h : okLog l = true) : EventStreamOK l := by
  rw [okLog, okFrom_iff] at h
  constructor
  · intro pre post hl
    cases post with
    | nil => rfl
    | cons e post' =>
      have := h (pre ++ [Ev.terminated]) e post' (by rw [hl]; simp)
      simp [okAt] at this
  · intro sid pre d post hl d' f' hm
    obtain ⟨a, b, hab⟩ := List.append_of_mem hm
    have := h (pre ++ Ev.data sid d true :: a) (Ev.data sid d' f') b (by rw [hl, hab]; simp)
    simp [okAt] at this

/-! ## refinement maps from the QUIC-layer models -/

/-- the termination shape of an adapter event list -/
def termShape (l : List Ev) : List Bool := l.map (fun e => decide (e = Ev.terminated))

/-- the StreamDataReceived events of stream `sid`, as C01's event type -/
def streamView (sid : Nat) : List Ev → List Stream.DataEv
  | [] => []
  | .data s d f :: rest => if s = sid then ⟨d, f⟩ :: streamView sid rest else streamView sid rest
  | _ :: rest => streamView sid rest

/-- C09 ⇒ first clause.  Whatever prefix `pre` of the connection's event log (C09 model, any reachable
    state) the adapter has pulled through `next_event()`: if the adapter events `l` have the termination
    shape of `pre`, nothing follows ConnectionTerminated in `l`. -/
theorem term_last_of_c09 {T : Type} (A : Recovery.FArith T) (c : Bool) (ops : List (CloseTimer.Op T))
    (hu : CloseTimer.Usage A (CloseTimer.Conn.init c) ops)
    (l : List Ev) (pre : List CloseTimer.Ev)
    (hp : pre <+: (CloseTimer.run A (CloseTimer.Conn.init c) ops).log)
    (hs : termShape l = pre.map CloseTimer.Ev.isTerm) :
    ∀ a b, l = a ++ Ev.terminated :: b → b = [] := by
  intro a b hl
  subst hl
  simp only [termShape, List.map_append, List.map_cons, decide_true] at hs
  obtain ⟨pa, pr, hpre, _, h2⟩ := List.map_eq_append_iff.1 hs.symm
  obtain ⟨x, pb, hpr, hx, hpb⟩ := List.map_eq_cons_iff.1 h2
  obtain ⟨rest, hrest⟩ := hp
  cases x with
  | other => simp [CloseTimer.Ev.isTerm] at hx
  | terminated y =>
    have h3 := (AQ.Props.C09.terminated_once A c ops hu).2.2.1 pa (pb ++ rest) y
      (by rw [← hrest, hpre, hpr]; simp)
    have hpb0 : pb = [] := (List.append_eq_nil_iff.1 h3.1).1
    rw [hpb0] at hpb
    simpa using hpb.symm

/-! ### C01: after the event that carries end_stream the stream system produces no further event -/

open AQ.Stream AQ.StreamSys in
theorem step_event_is_deliver {s : Sys} {op : StreamSys.Op} {ev : Option DataEv}
    (h : (StreamSys.step s op).2 = .event ev) : ∃ i, op = .deliver i := by
  cases op <;> revert h <;> simp only [StreamSys.step] <;> (repeat' split) <;> simp

open AQ.Stream AQ.StreamSys in
/-- what a `deliver` step that produces an event changes besides the receive half -/
theorem step_deliver_fields {s : Sys} {i : Nat} {ev : Option DataEv}
    (h : (StreamSys.step s (.deliver i)).2 = .event ev) :
    (StreamSys.step s (.deliver i)).1.deliveredBytes = s.deliveredBytes ++ evData ev ∧
    (StreamSys.step s (.deliver i)).1.ghost = s.ghost ∧
    ∃ f, handleStreamFrame s.quirkDupFin s.quirkEndAfterReset s.recv f = .ok ((StreamSys.step s (.deliver i)).1.recv, ev) := by
  revert h
  simp only [StreamSys.step]
  cases s.wire[i]? with
  | none => simp
  | some f =>
    simp only []
    split
    · simp
    · split
      · simp
      · split
        · simp
        · rename_i r' ev' heq
          intro h
          simp only [Out.event.injEq] at h
          subst h
          exact ⟨rfl, rfl, _, heq⟩

open AQ.Stream in
/-- `handle_frame` never returns an empty event -/
theorem handleFrame_event_shape {r r' : Recv} {f : Frame} {e : DataEv}
    (h : handleFrame r f = .ok (r', some e)) : e.data ≠ [] ∨ e.endStream = true := by
  rw [handleFrame_eq] at h
  split at h
  · cases h
  · split at h
    · rename_i hfast
      simp only [fastPath, Except.ok.injEq, Prod.mk.injEq, Option.some.injEq] at h
      left
      rw [← h.2]
      intro h0
      exact hfast.2.1 (by have : f.data = [] := h0; simp [this])
    · simp only [finish, Except.ok.injEq, Prod.mk.injEq] at h
      have h2 := h.2
      unfold mkEvent at h2
      split at h2
      · rename_i hc
        simp only [Option.some.injEq] at h2
        rw [← h2]; exact hc
      · cases h2

open AQ.Stream AQ.StreamSys in
/-- `_handle_stream_frame` (every variant) appends no empty event -/
theorem handleStreamFrame_event_shape {q1 q2 : Bool} {r r' : Recv} {f : Frame} {e : DataEv}
    (h : handleStreamFrame q1 q2 r f = .ok (r', some e)) : e.data ≠ [] ∨ e.endStream = true := by
  simp only [handleStreamFrame] at h
  split at h
  · cases h
  · cases h
  · cases h
  · rename_i r1 ev heq
    have hs := handleFrame_event_shape heq
    split at h
    · simp only [Except.ok.injEq, Prod.mk.injEq, Option.some.injEq] at h
      rw [← h.2]; exact hs
    · split at h
      · split at h
        · simp only [Except.ok.injEq, Prod.mk.injEq, Option.some.injEq] at h
          rw [← h.2]; exact hs
        · cases h
      · split at h
        · split at h
          · rename_i hd
            simp only [Except.ok.injEq, Prod.mk.injEq, Option.some.injEq] at h
            rw [← h.2]; exact Or.inl hd
          · cases h
        · simp only [Except.ok.injEq, Prod.mk.injEq, Option.some.injEq] at h
          rw [← h.2]; exact hs

open AQ.Stream AQ.StreamSys in
/-- KEY: in a reachable state that has signalled end of stream, no step produces another event -/
theorem no_event_after_end {s : Sys} (hg : Good s) (he : s.endEvents = 1) (op : StreamSys.Op)
    (hok : okOp s op) (e : DataEv) : (StreamSys.step s op).2 ≠ .event (some e) := by
  intro hev
  obtain ⟨i, rfl⟩ := step_event_is_deliver hev
  have hg' := good_step hg (.deliver i) hok
  have hcnt := step_deliver_event hev
  obtain ⟨hb, hgh, f, hf⟩ := step_deliver_fields hev
  have hle := hg'.endi.ends_le
  have hend : e.endStream = false := by
    cases hx : e.endStream with
    | false => rfl
    | true =>
      have : evCount (some e) = 1 := by simp [evCount, evEnd, hx]
      omega
  obtain ⟨_, _, h3⟩ := hg.endi.ends_fin he
  have hp := good_prefix hg
  have hp' := good_prefix hg'
  have hlen : s.deliveredBytes.length = s.ghost.written.length := by
    rw [hp.1, List.take_of_length_le h3]
  have hlen' : (StreamSys.step s (.deliver i)).1.deliveredBytes.length ≤ s.ghost.written.length := by
    rw [hp'.1, hgh]; simp [List.length_take]; omega
  rw [hb] at hlen'
  have hd : e.data = [] := by
    have : (evData (some e)).length = 0 := by simp at hlen'; omega
    simpa [evData] using this
  rcases handleStreamFrame_event_shape hf with h1 | h1
  · exact h1 hd
  · rw [hend] at h1; cases h1

open AQ.Stream AQ.StreamSys in
/-- the StreamDataReceived events a run of the C01 stream system hands to the application, in order -/
def evTrace (s : Sys) : List StreamSys.Op → List DataEv
  | [] => []
  | op :: ops =>
    (match (StreamSys.step s op).2 with | .event (some e) => [e] | _ => []) ++ evTrace (StreamSys.step s op).1 ops

open AQ.Stream AQ.StreamSys in
theorem step_endEvents_ge (s : Sys) (op : StreamSys.Op) : s.endEvents ≤ (StreamSys.step s op).1.endEvents := by
  cases op <;> simp only [StreamSys.step] <;> (repeat' split) <;> simp

open AQ.Stream AQ.StreamSys in
theorem evTrace_nil_after_end {s : Sys} (hg : Good s) (he : s.endEvents = 1) (ops : List StreamSys.Op)
    (hw : StreamSys.WF s ops) : evTrace s ops = [] := by
  induction ops generalizing s with
  | nil => rfl
  | cons op ops ih =>
    have hg' := good_step hg op hw.1
    have h1 : (StreamSys.step s op).1.endEvents = 1 := by
      have := step_endEvents_ge s op; have := hg'.endi.ends_le; omega
    simp only [evTrace, ih hg' h1 hw.2, List.append_nil]
    split
    · rename_i e heq; exact absurd heq (no_event_after_end hg he op hw.1 e)
    · rfl

open AQ.Stream AQ.StreamSys in
theorem nothing_after_end_good {s : Sys} (hg : Good s) (ops : List StreamSys.Op) (hw : StreamSys.WF s ops) :
    ∀ pre e post, evTrace s ops = pre ++ e :: post → e.endStream = true → post = [] := by
  induction ops generalizing s with
  | nil => intro pre e post h; simp [evTrace] at h
  | cons op ops ih =>
    intro pre e post h hend
    have hg' := good_step hg op hw.1
    simp only [evTrace] at h
    split at h
    · rename_i e0 heq
      cases pre with
      | nil =>
        simp only [List.nil_append, List.singleton_append, List.cons.injEq] at h
        obtain ⟨rfl, h2⟩ := h
        obtain ⟨i, rfl⟩ := step_event_is_deliver heq
        have hc := step_deliver_event heq
        have h1 : (StreamSys.step s (.deliver i)).1.endEvents = 1 := by
          have : evCount (some e0) = 1 := by simp [evCount, evEnd, hend]
          have := hg'.endi.ends_le; omega
        rw [← h2]; exact evTrace_nil_after_end hg' h1 ops hw.2
      | cons b pre =>
        simp only [List.singleton_append, List.cons_append, List.cons.injEq] at h
        exact ih hg' hw.2 pre e post h.2 hend
    · simp only [List.nil_append] at h
      exact ih hg' hw.2 pre e post h hend

open AQ.Stream AQ.StreamSys in
/-- C01 (with `c01_fin_once`, `c01_fin_sound`, `c01_prefix`): over any lossy network schedule, once the
    event carrying end_stream has been handed out the stream produces NO further StreamDataReceived -/
theorem c01_nothing_after_end (id : Nat) (ops : List StreamSys.Op) (hw : StreamSys.WF (StreamSys.init id) ops) :
    ∀ pre e post, evTrace (StreamSys.init id) ops = pre ++ e :: post → e.endStream = true → post = [] :=
  nothing_after_end_good (good_init id) ops hw

theorem streamView_append (sid : Nat) (a b : List Ev) :
    streamView sid (a ++ b) = streamView sid a ++ streamView sid b := by
  induction a with
  | nil => rfl
  | cons e a ih =>
    cases e <;> simp only [List.cons_append, streamView, ih]
    split <;> simp

theorem streamView_mem {sid : Nat} {d : Bytes} {f : Bool} {l : List Ev} (h : Ev.data sid d f ∈ l) :
    (⟨d, f⟩ : Stream.DataEv) ∈ streamView sid l := by
  induction l with
  | nil => cases h
  | cons e l ih =>
    rcases List.mem_cons.1 h with h1 | h1
    · subst h1; simp [streamView]
    · have := ih h1
      cases e <;> simp only [streamView] <;> try exact this
      split
      · exact List.mem_cons_of_mem _ this
      · exact this

/-- C01 ⇒ second clause, for one stream: if the adapter's events of stream `sid` are a prefix of the events
    of a C01 run, no StreamDataReceived of that stream follows the one with end_stream -/
theorem end_last_of_c01 (sid id : Nat) (ops : List StreamSys.Op) (hw : StreamSys.WF (StreamSys.init id) ops)
    (l : List Ev) (hp : streamView sid l <+: evTrace (StreamSys.init id) ops) :
    ∀ pre d post, l = pre ++ Ev.data sid d true :: post → ∀ d' f', Ev.data sid d' f' ∉ post := by
  intro pre d post hl d' f' hm
  obtain ⟨rest, hrest⟩ := hp
  have hsv : streamView sid l = streamView sid pre ++ (⟨d, true⟩ : Stream.DataEv) :: streamView sid post := by
    rw [hl, streamView_append]; simp [streamView]
  have := c01_nothing_after_end id ops hw (streamView sid pre) ⟨d, true⟩ (streamView sid post ++ rest)
    (by rw [← hrest, hsv]; simp) rfl
  have h0 : streamView sid post = [] := (List.append_eq_nil_iff.1 this).1
  have := streamView_mem hm
  rw [h0] at this; cases this

/-- THE REFINEMENT: an adapter event list whose termination shape is that of a prefix of a C09 connection's
    event log and whose per-stream views are prefixes of C01 stream runs satisfies `EventStreamOK` -/
theorem eventStreamOK_of_models {T : Type} (A : Recovery.FArith T) (c : Bool) (cops : List (CloseTimer.Op T))
    (hu : CloseTimer.Usage A (CloseTimer.Conn.init c) cops)
    (l : List Ev) (pre : List CloseTimer.Ev)
    (hp : pre <+: (CloseTimer.run A (CloseTimer.Conn.init c) cops).log)
    (hs : termShape l = pre.map CloseTimer.Ev.isTerm)
    (hstreams : ∀ sid, ∃ (id : Nat) (ops : List StreamSys.Op), StreamSys.WF (StreamSys.init id) ops ∧
      streamView sid l <+: evTrace (StreamSys.init id) ops) :
    EventStreamOK l where
  term_last := term_last_of_c09 A c cops hu l pre hp hs
  end_last := fun sid => by
    obtain ⟨id, ops, hw, hpre⟩ := hstreams sid
    exact end_last_of_c01 sid id ops hw l hpre

end AQ.Adapter
