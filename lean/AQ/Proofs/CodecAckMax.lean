/-
  `push_ack_frame(buf, rangeset, delay, max_size)`: the frame written is the
  ordinary ACK encoding of the most recent `k + 1` ranges, `k` being what the
  budget loop keeps; hence it decodes to exactly that suffix.
-/
import AQ.Proofs.CodecAck

namespace AQ.Codec
open AQ AQ.RangeSet

theorem tailOK_take (k : Nat) : ∀ (start : Int) (l : List IRg), TailOK start l → TailOK start (l.take k) := by
  induction k with
  | zero => intro start l _; simp [TailOK]
  | succ k ih =>
    intro start l h
    cases l with
    | nil => simp [TailOK]
    | cons r rest =>
      obtain ⟨h1, h2, h3, h4, h5⟩ := h
      simp only [List.take_succ_cons, TailOK]
      exact ⟨h1, h2, h3, h4, ih _ _ h5⟩

theorem descOK_take (r : IRg) (older : List IRg) (k : Nat) (h : DescOK (r :: older)) :
    DescOK (r :: older.take k) := by
  obtain ⟨h0, h1, h2, h3, h4, h5⟩ := h
  refine ⟨h0, h1, h2, h3, ?_, tailOK_take k _ _ h5⟩
  have : (older.take k).length ≤ older.length := by rw [List.length_take]; exact Nat.min_le_right _ _
  omega

theorem sizeUintVar_ok (v : Int) (h0 : 0 ≤ v) (h : v < 4611686018427387904) :
    sizeUintVar v = .ok (encV v.toNat).length := by
  obtain ⟨n, rfl⟩ := Int.eq_ofNat_of_zero_le h0
  rw [sizeUintVar_ofNat n (by omega)]
  simp

/-- the budget loop never raises on a well-formed set and keeps at most what there is -/
theorem ackFit_ok (m : Int) : ∀ (size start : Int) (l : List IRg), TailOK start l →
    ∃ k, ackFit m size start l = .ok k ∧ k ≤ l.length := by
  intro size start l
  induction l generalizing size start with
  | nil => intro _; exact ⟨0, rfl, by simp⟩
  | cons o rest ih =>
    intro h
    obtain ⟨h1, h2, h3, h4, h5⟩ := h
    simp only [ackFit, sizeUintVar_ok _ (show 0 ≤ start - o.stop - 1 by omega) h2,
      sizeUintVar_ok _ (show 0 ≤ o.stop - o.start - 1 by omega) h4]
    split
    · exact ⟨0, rfl, by simp⟩
    · obtain ⟨k, hk, hle⟩ := ih (size + ((encV (start - o.stop - 1).toNat).length : Int) +
        ((encV (o.stop - o.start - 1).toNat).length : Int)) o.start h5
      rw [hk]
      exact ⟨k + 1, rfl, by simp; omega⟩

theorem ackKeep_ok (r : IRg) (older : List IRg) (delay : Nat) (m : Option Int) (hd : DescOK (r :: older))
    (hdel : delay < 4611686018427387904) : ∃ k, ackKeep r older (delay : Int) m = .ok k ∧ k ≤ older.length := by
  obtain ⟨h0, h1, h2, h3, h4, h5⟩ := hd
  cases m with
  | none => exact ⟨older.length, rfl, Nat.le_refl _⟩
  | some b =>
    simp only [ackKeep, sizeUintVar_ok _ h0 h1, sizeUintVar_ok (delay : Int) (by omega) (by omega),
      sizeUintVar_ok (older.length : Int) (by omega) (by omega),
      sizeUintVar_ok _ (show 0 ≤ r.stop - 1 - r.start by omega) h3]
    exact ackFit_ok b _ _ _ h5

/-- with the kept count `k`, the script is the ordinary ACK script of the `k + 1` most recent ranges -/
theorem ackScriptMax_eq (r : IRg) (older : List IRg) (delay : Int) (m : Option Int) (k : Nat)
    (hk : ackKeep r older delay m = .ok k) (hle : k ≤ older.length) :
    ackScriptMax (r :: older).reverse delay m = ackScript (r :: older.take k).reverse delay := by
  unfold ackScriptMax ackScript
  simp only [List.reverse_reverse, hk, List.length_reverse, List.length_cons, List.length_take,
    Nat.min_eq_left hle]
  have e : ((k + 1 : Nat) : Int) - 1 = (k : Int) := by omega
  rw [e]

/-- **`push_ack_frame` with a budget round-trips to the suffix it kept** -/
theorem ackMax_roundtrip (d : List IRg) (delay : Nat) (m : Option Int) (x : Bytes) (hd : DescOK d)
    (hdel : delay < 4611686018427387904) :
    ∃ k kept, kept = (d.take (k + 1)) ∧ k + 1 ≤ d.length ∧ ackRangesWritten d.reverse (delay : Int) m = k + 1 ∧
      (ackScriptMax d.reverse (delay : Int) m).bytes = .ok (ackBytesDesc delay kept) ∧
      pullAck (ackBytesDesc delay kept ++ x) = .ok ((kept.reverse, delay), x) ∧ DescOK kept := by
  cases d with
  | nil => exact absurd hd (by simp [DescOK])
  | cons r older =>
    obtain ⟨k, hk, hle⟩ := ackKeep_ok r older delay m hd hdel
    have hd' := descOK_take r older k hd
    refine ⟨k, r :: older.take k, by simp, by simp; omega, ?_, ?_, ?_, hd'⟩
    · simp only [ackRangesWritten, List.reverse_reverse, hk]
    · rw [ackScriptMax_eq r older _ m k hk hle]
      exact ackScript_bytes delay hdel _ hd'
    · exact pullAck_desc delay hdel _ hd' x

end AQ.Codec
