import Lean.Meta.Tactic.Simp.RegisterCommand
/-- definitions of derived C-IR operations, unfolded once before symbolic execution -/
register_simp_attr csafe
/-- normalisation of side conditions before `omega` -/
register_simp_attr cnorm
